package checks

import (
	"fmt"
	"math/rand/v2"
	"strings"

	"github.com/bufbuild/verifharness/gen"
)

// The breaking-edit catalogue (DESIGN Appendix A), shared by C03 (every operator must be reported)
// and C04 (hierarchy clause: arbitrary mixes of these operators and additive ones).
//
// An operator enumerates its applicable sites in a schema and, applied to a clone (the NEW version),
// returns what the documentation of the breaking rules promises for that edit: rule ID, a token of the
// edited element that the message must contain, the file and where in the NEW rendering the
// annotation must lie. The catalogue states only documented behaviour; category membership comes from
// the pinned tables in c03build.go.

type c03Expect struct {
	Rule  string
	AnyOf []string // the message must contain at least one of these (name or number of the edited element)
	// File the annotation must carry; "" = the holding file does not survive, no path is demanded
	File string
	// Spans: keys "<kind>:<full name>" of the NEW rendering; the start line must lie inside one of them.
	Spans []string
	// FileLevel: any line of File (or none) is acceptable (file-level rules; deleted top-level elements)
	FileLevel bool
}

type c03Site struct {
	Key   string // printable identity of the element
	Kind  string // element kind (evidence)
	Depth int
	File  string
	A, B  string // operator-specific addressing
	N     int
}

type c03Env struct {
	R   *rand.Rand
	Old *c03Idx // the OLD version (never mutated)
	New *c03Idx // index of the clone being edited
	Tag string  // what the operator chose (type pair etc.), for evidence
	// Hint >= 0 steers an operator's internal choice deterministically (type-pair matrix coverage)
	Hint int
	seq  int
}

func (e *c03Env) next() int { e.seq++; return e.seq }

type c03Op struct {
	Name  string
	Rules []string // rule IDs the operator is catalogued under
	Sites func(x *c03Idx) []c03Site
	// Apply edits e.New.S at the site; nil = not applicable after all.
	Apply func(e *c03Env, st c03Site) []c03Expect
}

var c03Catalogue []*c03Op

func c03Reg(name string, rules []string, sites func(x *c03Idx) []c03Site, apply func(e *c03Env, st c03Site) []c03Expect) {
	c03Catalogue = append(c03Catalogue, &c03Op{Name: name, Rules: rules, Sites: sites, Apply: apply})
}

func q(n int) string { return fmt.Sprintf("%q", fmt.Sprint(n)) }

func fileIndex(s *gen.Schema, path string) int {
	for i, f := range s.AllFiles() {
		if f.Path == path {
			return i
		}
	}
	return -1
}

func isWKTCopy(f *gen.File) bool { return strings.HasPrefix(f.Path, "google/protobuf/") }

// ---- site enumerators ------------------------------------------------------------------------

func msgSite(m *c03Msg) c03Site {
	return c03Site{Key: "message:" + m.Full, Kind: "message", Depth: m.Depth, File: m.File.Path, A: m.Full}
}

func fieldSite(f c03Field) c03Site {
	k := "field"
	if f.F.Oneof != "" {
		k = "oneof-field"
	} else if f.F.Kind == "map" {
		k = "map-field"
	} else if f.F.Label == "repeated" {
		k = "repeated-field"
	}
	if len(f.Msg.M.ExtRanges) > 0 {
		k += "+extrange"
	}
	return c03Site{Key: "field:" + f.Msg.Full + "." + f.F.Name, Kind: k, Depth: f.Msg.Depth, File: f.Msg.File.Path, A: f.Msg.Full, B: f.F.Name}
}

func fieldSites(pred func(f c03Field) bool) func(x *c03Idx) []c03Site {
	return func(x *c03Idx) []c03Site {
		var out []c03Site
		for _, f := range x.Fields() {
			if !isWKTCopy(f.Msg.File) && pred(f) {
				out = append(out, fieldSite(f))
			}
		}
		return out
	}
}

func msgSites(pred func(x *c03Idx, m *c03Msg) bool) func(x *c03Idx) []c03Site {
	return func(x *c03Idx) []c03Site {
		var out []c03Site
		for _, m := range x.Msgs {
			if !isWKTCopy(m.File) && pred(x, m) {
				out = append(out, msgSite(m))
			}
		}
		return out
	}
}

func enumSites(pred func(x *c03Idx, e *c03Enum) bool) func(x *c03Idx) []c03Site {
	return func(x *c03Idx) []c03Site {
		var out []c03Site
		for _, e := range x.Enums {
			if !isWKTCopy(e.File) && pred(x, e) {
				out = append(out, c03Site{Key: "enum:" + e.Full, Kind: "enum", Depth: e.Depth, File: e.File.Path, A: e.Full})
			}
		}
		return out
	}
}

func fileSites(pred func(x *c03Idx, f *gen.File) bool) func(x *c03Idx) []c03Site {
	return func(x *c03Idx) []c03Site {
		var out []c03Site
		for _, f := range x.S.AllFiles() {
			if !isWKTCopy(f) && pred(x, f) {
				out = append(out, c03Site{Key: "file:" + f.Path, Kind: "file", File: f.Path, A: f.Path})
			}
		}
		return out
	}
}

// ---- small mutation helpers ------------------------------------------------------------------

func removeField(m *gen.Message, name string) {
	var out []*gen.Field
	for _, fl := range m.Fields {
		if fl.Name != name {
			out = append(out, fl)
		}
	}
	m.Fields = out
}

func oneofMembers(m *gen.Message, oneof string) []*gen.Field {
	var out []*gen.Field
	for _, fl := range m.Fields {
		if fl.Oneof == oneof {
			out = append(out, fl)
		}
	}
	return out
}

func oneofNames(m *gen.Message) []string {
	seen := map[string]bool{}
	var out []string
	for _, fl := range m.Fields {
		if fl.Oneof != "" && !seen[fl.Oneof] {
			seen[fl.Oneof] = true
			out = append(out, fl.Oneof)
		}
	}
	return out
}

func hasOpt(opts []gen.Opt, name string) (string, bool) {
	for _, o := range opts {
		if o.Name == name {
			return o.Value, true
		}
	}
	return "", false
}

func setOpt(opts []gen.Opt, name, value string) []gen.Opt {
	for i := range opts {
		if opts[i].Name == name {
			opts[i].Value = value
			return opts
		}
	}
	return append(opts, gen.Opt{Name: name, Value: value})
}

func delOpt(opts []gen.Opt, names ...string) []gen.Opt {
	var out []gen.Opt
	for _, o := range opts {
		drop := false
		for _, n := range names {
			if o.Name == n {
				drop = true
			}
		}
		if !drop {
			out = append(out, o)
		}
	}
	return out
}

// singularLabel is the label of a plain singular field with explicit presence where the syntax has one.
func singularLabel(syntax string) string {
	if syntax == "proto2" || syntax == "" {
		return "optional"
	}
	return ""
}

// retype clears what does not survive a type change (default, type-specific options).
func retype(fl *gen.Field, kind, typ string) {
	fl.Kind, fl.Type = kind, typ
	fl.Default = ""
	fl.MapKey, fl.MapVal, fl.MapValK = "", "", ""
	fl.Options = delOpt(fl.Options, "packed", "jstype", "ctype", "features.utf8_validation", "features.(pb.cpp).string_type", "features.(pb.java).utf8_validation")
	if kind != "message" {
		fl.Options = delOpt(fl.Options, "features.message_encoding")
	}
}

func fileOfMsg(e *c03Env, full string) (*c03Msg, bool) {
	m := e.New.Msg(full)
	return m, m != nil
}

// extension option usage: an extension of a descriptor option message may be in use as "(full.name)".
func isOptionExtension(x *c03Ext) bool { return strings.HasPrefix(x.X.Extendee, "google.protobuf.") }

// ---- deletions -----------------------------------------------------------------------------

func init() {
	// files ---------------------------------------------------------------------------------
	importedByOthers := func(x *c03Idx, f *gen.File) bool {
		for _, g := range x.S.AllFiles() {
			if g == f {
				continue
			}
			for _, im := range x.S.ImportsOf(g) {
				if im.Path == f.Path {
					return true
				}
			}
		}
		return false
	}
	removeFile := func(s *gen.Schema, path string) *gen.File {
		for _, m := range s.Modules {
			for i, f := range m.Files {
				if f.Path == path {
					m.Files = append(append([]*gen.File{}, m.Files[:i]...), m.Files[i+1:]...)
					return f
				}
			}
		}
		return nil
	}
	leafFile := func(x *c03Idx, f *gen.File) bool {
		mod := x.S.ModuleOf(f)
		return mod != nil && len(mod.Files) > 1 && !importedByOthers(x, f)
	}
	c03Reg("file-delete-drop-types", []string{"FILE_NO_DELETE", "PACKAGE_NO_DELETE", "PACKAGE_MESSAGE_NO_DELETE", "PACKAGE_ENUM_NO_DELETE", "PACKAGE_SERVICE_NO_DELETE"},
		fileSites(leafFile),
		func(e *c03Env, st c03Site) []c03Expect {
			f := removeFile(e.New.S, st.A)
			if f == nil {
				return nil
			}
			exp := []c03Expect{{Rule: "FILE_NO_DELETE", AnyOf: []string{f.Path}}}
			pkgSurvives := false
			for _, g := range e.New.S.AllFiles() {
				if g.Package == f.Package {
					pkgSurvives = true
				}
			}
			if !pkgSurvives {
				exp = append(exp, c03Expect{Rule: "PACKAGE_NO_DELETE", AnyOf: []string{f.Package}})
				return exp
			}
			for _, m := range f.Messages {
				exp = append(exp, c03Expect{Rule: "PACKAGE_MESSAGE_NO_DELETE", AnyOf: []string{m.Name}})
			}
			for _, en := range f.Enums {
				exp = append(exp, c03Expect{Rule: "PACKAGE_ENUM_NO_DELETE", AnyOf: []string{en.Name}})
			}
			for _, sv := range f.Services {
				exp = append(exp, c03Expect{Rule: "PACKAGE_SERVICE_NO_DELETE", AnyOf: []string{sv.Name}})
			}
			return exp
		})
	sibling := func(s *gen.Schema, f *gen.File, sameSyntax bool) *gen.File {
		mod := s.ModuleOf(f)
		if mod == nil {
			return nil
		}
		for _, g := range mod.Files {
			if g != f && g.Package == f.Package && (!sameSyntax || g.Syntax == f.Syntax) {
				return g
			}
		}
		return nil
	}
	c03Reg("file-delete-move-types", []string{"FILE_NO_DELETE"},
		fileSites(func(x *c03Idx, f *gen.File) bool { return sibling(x.S, f, true) != nil }),
		func(e *c03Env, st c03Site) []c03Expect {
			s := e.New.S
			f := s.FileByPath(st.A)
			g := sibling(s, f, true)
			if g == nil {
				return nil
			}
			// file options may differ between siblings; the moved declarations keep their full names
			g.Messages = append(g.Messages, f.Messages...)
			g.Enums = append(g.Enums, f.Enums...)
			g.Services = append(g.Services, f.Services...)
			g.Extends = append(g.Extends, f.Extends...)
			removeFile(s, f.Path)
			// importers of the deleted file now import the sibling (ImportsOf recomputes); no cycle may arise
			if !importGraphAcyclic(s) {
				return nil
			}
			return []c03Expect{{Rule: "FILE_NO_DELETE", AnyOf: []string{f.Path}}}
		})
	c03Reg("package-delete", []string{"PACKAGE_NO_DELETE", "FILE_NO_DELETE"},
		func(x *c03Idx) []c03Site {
			var out []c03Site
			seen := map[string]bool{}
			for _, f := range x.S.AllFiles() {
				if seen[f.Package] || isWKTCopy(f) || f.Package == "" {
					continue
				}
				seen[f.Package] = true
				ok := true
				inPkg := map[string]bool{}
				for _, g := range x.S.AllFiles() {
					if g.Package == f.Package {
						inPkg[g.Path] = true
					}
				}
				for _, g := range x.S.AllFiles() {
					if inPkg[g.Path] {
						continue
					}
					for _, im := range x.S.ImportsOf(g) {
						if inPkg[im.Path] {
							ok = false
						}
					}
				}
				for _, m := range x.S.Modules {
					left := 0
					for _, g := range m.Files {
						if !inPkg[g.Path] {
							left++
						}
					}
					if left == 0 {
						ok = false
					}
				}
				if ok {
					out = append(out, c03Site{Key: "package:" + f.Package, Kind: "package", File: f.Path, A: f.Package})
				}
			}
			return out
		},
		func(e *c03Env, st c03Site) []c03Expect {
			exp := []c03Expect{{Rule: "PACKAGE_NO_DELETE", AnyOf: []string{st.A}}}
			for _, f := range e.New.S.AllFiles() {
				if f.Package == st.A {
					removeFile(e.New.S, f.Path)
					exp = append(exp, c03Expect{Rule: "FILE_NO_DELETE", AnyOf: []string{f.Path}})
				}
			}
			return exp
		})

	// messages, enums, services ---------------------------------------------------------------
	deletable := func(x *c03Idx, m *c03Msg) bool { return !m.Group && !x.referencedFromOutside(m.Full) }
	c03Reg("message-delete", []string{"MESSAGE_NO_DELETE", "PACKAGE_MESSAGE_NO_DELETE"}, msgSites(deletable),
		func(e *c03Env, st c03Site) []c03Expect {
			m := e.New.Msg(st.A)
			exp := c03Expect{AnyOf: []string{m.M.Name}, File: m.File.Path}
			if m.Parent == nil {
				m.File.Messages = removeMsg(m.File.Messages, m.M)
				exp.FileLevel = true
			} else {
				m.Parent.Nested = removeMsg(m.Parent.Nested, m.M)
				exp.Spans = []string{msgSpanKey(e.New, strings.TrimSuffix(m.Full, "."+m.M.Name))}
			}
			a, b := exp, exp
			a.Rule, b.Rule = "MESSAGE_NO_DELETE", "PACKAGE_MESSAGE_NO_DELETE"
			return []c03Expect{a, b}
		})
	c03Reg("message-move-to-sibling-file", []string{"MESSAGE_NO_DELETE"},
		msgSites(func(x *c03Idx, m *c03Msg) bool {
			return m.Parent == nil && !m.Group && sibling(x.S, m.File, true) != nil
		}),
		func(e *c03Env, st c03Site) []c03Expect {
			m := e.New.Msg(st.A)
			g := sibling(e.New.S, m.File, true)
			m.File.Messages = removeMsg(m.File.Messages, m.M)
			g.Messages = append(g.Messages, m.M)
			if !importGraphAcyclic(e.New.S) {
				return nil
			}
			return []c03Expect{{Rule: "MESSAGE_NO_DELETE", AnyOf: []string{m.M.Name}, File: m.File.Path, FileLevel: true}}
		})
	enumDeletable := func(x *c03Idx, en *c03Enum) bool { return !x.referencedFromOutside(en.Full) }
	c03Reg("enum-delete", []string{"ENUM_NO_DELETE", "PACKAGE_ENUM_NO_DELETE"}, enumSites(enumDeletable),
		func(e *c03Env, st c03Site) []c03Expect {
			en := e.New.Enum(st.A)
			exp := c03Expect{AnyOf: []string{en.E.Name}, File: en.File.Path}
			if en.Parent == nil {
				en.File.Enums = removeEnum(en.File.Enums, en.E)
				exp.FileLevel = true
			} else {
				en.Parent.Enums = removeEnum(en.Parent.Enums, en.E)
				exp.Spans = []string{msgSpanKey(e.New, strings.TrimSuffix(en.Full, "."+en.E.Name))}
			}
			a, b := exp, exp
			a.Rule, b.Rule = "ENUM_NO_DELETE", "PACKAGE_ENUM_NO_DELETE"
			return []c03Expect{a, b}
		})
	c03Reg("enum-move-to-sibling-file", []string{"ENUM_NO_DELETE"},
		enumSites(func(x *c03Idx, en *c03Enum) bool { return en.Parent == nil && sibling(x.S, en.File, true) != nil }),
		func(e *c03Env, st c03Site) []c03Expect {
			en := e.New.Enum(st.A)
			g := sibling(e.New.S, en.File, true)
			en.File.Enums = removeEnum(en.File.Enums, en.E)
			g.Enums = append(g.Enums, en.E)
			if !importGraphAcyclic(e.New.S) {
				return nil
			}
			return []c03Expect{{Rule: "ENUM_NO_DELETE", AnyOf: []string{en.E.Name}, File: en.File.Path, FileLevel: true}}
		})
	svcSites := func(pred func(x *c03Idx, f *gen.File) bool) func(x *c03Idx) []c03Site {
		return func(x *c03Idx) []c03Site {
			var out []c03Site
			for _, f := range x.S.AllFiles() {
				if !pred(x, f) {
					continue
				}
				for _, sv := range f.Services {
					out = append(out, c03Site{Key: "service:" + pkgPrefix(f) + sv.Name, Kind: "service", File: f.Path, A: f.Path, B: sv.Name})
				}
			}
			return out
		}
	}
	takeService := func(f *gen.File, name string) *gen.Service {
		for i, sv := range f.Services {
			if sv.Name == name {
				f.Services = append(append([]*gen.Service{}, f.Services[:i]...), f.Services[i+1:]...)
				return sv
			}
		}
		return nil
	}
	c03Reg("service-delete", []string{"SERVICE_NO_DELETE", "PACKAGE_SERVICE_NO_DELETE"}, svcSites(func(*c03Idx, *gen.File) bool { return true }),
		func(e *c03Env, st c03Site) []c03Expect {
			f := e.New.S.FileByPath(st.A)
			takeService(f, st.B)
			return []c03Expect{{Rule: "SERVICE_NO_DELETE", AnyOf: []string{st.B}, File: f.Path, FileLevel: true},
				{Rule: "PACKAGE_SERVICE_NO_DELETE", AnyOf: []string{st.B}, File: f.Path, FileLevel: true}}
		})
	c03Reg("service-move-to-sibling-file", []string{"SERVICE_NO_DELETE"}, svcSites(func(x *c03Idx, f *gen.File) bool { return sibling(x.S, f, false) != nil }),
		func(e *c03Env, st c03Site) []c03Expect {
			f := e.New.S.FileByPath(st.A)
			g := sibling(e.New.S, f, false)
			g.Services = append(g.Services, takeService(f, st.B))
			if !importGraphAcyclic(e.New.S) {
				return nil
			}
			return []c03Expect{{Rule: "SERVICE_NO_DELETE", AnyOf: []string{st.B}, File: f.Path, FileLevel: true}}
		})
	c03Reg("rpc-delete", []string{"RPC_NO_DELETE"}, rpcSites(nil),
		func(e *c03Env, st c03Site) []c03Expect {
			f, sv, _ := findRPC(e.New.S, st)
			var out []*gen.Method
			for _, m := range sv.Methods {
				if m.Name != st.B {
					out = append(out, m)
				}
			}
			sv.Methods = out
			return []c03Expect{{Rule: "RPC_NO_DELETE", AnyOf: []string{st.B}, File: f.Path, Spans: []string{"service:" + st.A}}}
		})

	// extensions --------------------------------------------------------------------------------
	c03Reg("extension-delete", []string{"EXTENSION_NO_DELETE", "PACKAGE_EXTENSION_NO_DELETE"},
		func(x *c03Idx) []c03Site {
			var out []c03Site
			for _, ex := range x.Exts {
				if isOptionExtension(ex) || isWKTCopy(ex.File) {
					continue
				}
				st := c03Site{Key: "extension:" + ex.Full, Kind: "extension", File: ex.File.Path, A: ex.Full}
				if ex.Parent != nil {
					st.Kind, st.Depth = "nested-extension", ex.Parent.Depth+1
				}
				out = append(out, st)
			}
			return out
		},
		func(e *c03Env, st c03Site) []c03Expect {
			ex := findExt(e.New, st.A)
			removeExtField(ex)
			exp := c03Expect{AnyOf: []string{ex.F.Name}, File: ex.File.Path}
			if ex.Parent == nil {
				exp.FileLevel = true
			} else {
				exp.Spans = []string{msgSpanKey(e.New, ex.Parent.Full)}
			}
			a, b := exp, exp
			a.Rule, b.Rule = "EXTENSION_NO_DELETE", "PACKAGE_EXTENSION_NO_DELETE"
			return []c03Expect{a, b}
		})
}

func removeMsg(list []*gen.Message, m *gen.Message) []*gen.Message {
	var out []*gen.Message
	for _, x := range list {
		if x != m {
			out = append(out, x)
		}
	}
	return out
}

func removeEnum(list []*gen.Enum, e *gen.Enum) []*gen.Enum {
	var out []*gen.Enum
	for _, x := range list {
		if x != e {
			out = append(out, x)
		}
	}
	return out
}

func findExt(x *c03Idx, full string) *c03Ext {
	for _, ex := range x.Exts {
		if ex.Full == full {
			return ex
		}
	}
	return nil
}

func removeExtField(ex *c03Ext) {
	var out []*gen.Field
	for _, fl := range ex.X.Fields {
		if fl != ex.F {
			out = append(out, fl)
		}
	}
	ex.X.Fields = out
	if len(out) > 0 {
		return
	}
	drop := func(list []*gen.Extend) []*gen.Extend {
		var o []*gen.Extend
		for _, b := range list {
			if b != ex.X {
				o = append(o, b)
			}
		}
		return o
	}
	if ex.Parent != nil {
		ex.Parent.M.Extends = drop(ex.Parent.M.Extends)
	} else {
		ex.File.Extends = drop(ex.File.Extends)
	}
}

// rpcSites: A = service full name, B = method name.
func rpcSites(pred func(m *gen.Method) bool) func(x *c03Idx) []c03Site {
	return func(x *c03Idx) []c03Site {
		var out []c03Site
		for _, f := range x.S.AllFiles() {
			for _, sv := range f.Services {
				for _, m := range sv.Methods {
					if pred == nil || pred(m) {
						out = append(out, c03Site{Key: "rpc:" + pkgPrefix(f) + sv.Name + "." + m.Name, Kind: "rpc", File: f.Path, A: pkgPrefix(f) + sv.Name, B: m.Name})
					}
				}
			}
		}
		return out
	}
}

func findRPC(s *gen.Schema, st c03Site) (*gen.File, *gen.Service, *gen.Method) {
	f := s.FileByPath(st.File)
	if f == nil {
		return nil, nil, nil
	}
	for _, sv := range f.Services {
		if pkgPrefix(f)+sv.Name == st.A {
			for _, m := range sv.Methods {
				if m.Name == st.B {
					return f, sv, m
				}
			}
			return f, sv, nil
		}
	}
	return f, nil, nil
}
