package checks

import (
	"context"
	"errors"
	"fmt"
	"sort"
	"strings"

	"github.com/bufbuild/buf/private/bufpkg/bufanalysis"
	"github.com/bufbuild/buf/private/bufpkg/bufcheck"
	"github.com/bufbuild/buf/private/bufpkg/bufconfig"
	"github.com/bufbuild/buf/private/bufpkg/bufimage"
	"github.com/bufbuild/buf/private/bufpkg/bufmodule"
	"github.com/bufbuild/buf/private/bufpkg/bufmodule/bufmoduletesting"
	"github.com/bufbuild/buf/private/bufpkg/bufplugin"
	"github.com/bufbuild/buf/private/pkg/wasm"
	"github.com/bufbuild/verifharness/gen"
)

// Shared plumbing of C03 and C04: build an image in-process with the real BuildImage from the rendered
// texts of a schema, parse a breaking configuration from a real buf.yaml text, run the real
// bufcheck.Client.Breaking and flatten its FileAnnotationSet.

// c03Ann is one breaking annotation as the user sees it.
type c03Ann struct {
	Rule    string
	Path    string // "" if the annotation carries no file
	Line    int
	EndLine int
	Message string
}

func (a c03Ann) String() string {
	return fmt.Sprintf("%s:%d:%s:%s", a.Path, a.Line, a.Rule, a.Message)
}

var c03Client bufcheck.Client

func c03GetClient() (bufcheck.Client, error) {
	if c03Client != nil {
		return c03Client, nil
	}
	cl, err := bufcheck.NewClient(c09Logger, bufcheck.NewLocalRunnerProvider(wasm.UnimplementedRuntime, bufplugin.NopPluginKeyProvider, bufplugin.NopPluginDataProvider))
	if err != nil {
		return nil, err
	}
	c03Client = cl
	return cl, nil
}

// c03BuildFiles builds one image of all modules (every module file is a target) from
// module dir -> path -> text.
func c03BuildFiles(s *gen.Schema, files map[string]map[string]string) (bufimage.Image, error) {
	var mds []bufmoduletesting.ModuleData
	for _, m := range s.Modules {
		data := map[string][]byte{}
		for p, t := range files[m.Dir] {
			data[p] = []byte(t)
		}
		if len(data) == 0 {
			continue
		}
		mds = append(mds, bufmoduletesting.ModuleData{Name: m.Name, PathToData: data})
	}
	ms, err := bufmoduletesting.NewModuleSet(mds...)
	if err != nil {
		return nil, fmt.Errorf("module set: %w", err)
	}
	return bufimage.BuildImage(context.Background(), c09Logger, bufmodule.ModuleSetToModuleReadBucketWithOnlyProtoFiles(ms))
}

func c03Build(s *gen.Schema, r *gen.Rendered) (bufimage.Image, error) {
	return c03BuildFiles(s, r.Files)
}

// c03Cfg is one breaking configuration: a buf.yaml version and the `use` list.
type c03Cfg struct {
	Version string // v1beta1, v1, v2
	Use     string // FILE, PACKAGE, WIRE_JSON, WIRE, a rule ID, or "" (no breaking section: the documented default, FILE)
}

func (k c03Cfg) String() string {
	u := k.Use
	if u == "" {
		u = "(default)"
	}
	return k.Version + "/" + u
}

func (k c03Cfg) YAML() string {
	var sb strings.Builder
	sb.WriteString("version: " + k.Version + "\n")
	if k.Use != "" {
		sb.WriteString("breaking:\n  use:\n    - " + k.Use + "\n")
	}
	return sb.String()
}

var c03CfgMemo = map[c03Cfg]bufconfig.BreakingConfig{}

// c03BreakingConfig parses the buf.yaml text with buf's own reader.
func c03BreakingConfig(k c03Cfg) (bufconfig.BreakingConfig, error) {
	if cfg, ok := c03CfgMemo[k]; ok {
		return cfg, nil
	}
	f, err := bufconfig.ReadBufYAMLFile(strings.NewReader(k.YAML()), "buf.yaml")
	if err != nil {
		return nil, err
	}
	mcs := f.ModuleConfigs()
	if len(mcs) != 1 {
		return nil, fmt.Errorf("buf.yaml %q: %d module configs", k.YAML(), len(mcs))
	}
	cfg := mcs[0].BreakingConfig()
	c03CfgMemo[k] = cfg
	return cfg, nil
}

// c03Breaking runs the real check; a non-annotation error is returned as err.
func c03Breaking(k c03Cfg, image, against bufimage.Image) ([]c03Ann, error) {
	cl, err := c03GetClient()
	if err != nil {
		return nil, err
	}
	cfg, err := c03BreakingConfig(k)
	if err != nil {
		return nil, err
	}
	err = cl.Breaking(context.Background(), cfg, image, against)
	if err == nil {
		return nil, nil
	}
	var set bufanalysis.FileAnnotationSet
	if !errors.As(err, &set) {
		return nil, err
	}
	var out []c03Ann
	for _, a := range set.FileAnnotations() {
		x := c03Ann{Rule: a.Type(), Line: a.StartLine(), EndLine: a.EndLine(), Message: a.Message()}
		if fi := a.FileInfo(); fi != nil {
			x.Path = fi.Path()
		}
		out = append(out, x)
	}
	return out, nil
}

// ---- pinned rule tables -------------------------------------------------------------------------
//
// Reviewed extract of the documented rule -> category membership per buf.yaml version
// (https://buf.build/docs/breaking/rules: "Rules and categories"); NOT read from the code under test:
// an expectation applies in every (version, category) whose pinned table contains the rule, and
// under `use: [RULE]`. Deprecated IDs are C06's subject.

var c03Categories = []string{"FILE", "PACKAGE", "WIRE_JSON", "WIRE"}

const (
	catF    = "FILE"
	catFP   = "FILE,PACKAGE"
	catFPJ  = "FILE,PACKAGE,WIRE_JSON"
	catAll  = "FILE,PACKAGE,WIRE_JSON,WIRE"
	catP    = "PACKAGE"
	catJ    = "WIRE_JSON"
	catJW   = "WIRE_JSON,WIRE"
	catW    = "WIRE"
	catNone = "-"
)

// c03RulesV1 is the v1 table; the other versions are stated as differences below.
var c03RulesV1 = map[string]string{
	"ENUM_NO_DELETE": catF, "FILE_NO_DELETE": catF, "MESSAGE_NO_DELETE": catF, "SERVICE_NO_DELETE": catF,
	"ENUM_SAME_TYPE": catFP, "ENUM_VALUE_NO_DELETE": catFP, "EXTENSION_MESSAGE_NO_DELETE": catFP, "FIELD_NO_DELETE": catFP,
	"FIELD_SAME_CARDINALITY": catFP, "FIELD_SAME_CPP_STRING_TYPE": catFP, "FIELD_SAME_JAVA_UTF8_VALIDATION": catFP,
	"FIELD_SAME_JSTYPE": catFP, "FIELD_SAME_TYPE": catFP, "FIELD_SAME_UTF8_VALIDATION": catFP,
	"FILE_SAME_CC_ENABLE_ARENAS": catFP, "FILE_SAME_CC_GENERIC_SERVICES": catFP, "FILE_SAME_CSHARP_NAMESPACE": catFP,
	"FILE_SAME_GO_PACKAGE": catFP, "FILE_SAME_JAVA_GENERIC_SERVICES": catFP, "FILE_SAME_JAVA_MULTIPLE_FILES": catFP,
	"FILE_SAME_JAVA_OUTER_CLASSNAME": catFP, "FILE_SAME_JAVA_PACKAGE": catFP, "FILE_SAME_OBJC_CLASS_PREFIX": catFP,
	"FILE_SAME_OPTIMIZE_FOR": catFP, "FILE_SAME_PHP_CLASS_PREFIX": catFP, "FILE_SAME_PHP_METADATA_NAMESPACE": catFP,
	"FILE_SAME_PHP_NAMESPACE": catFP, "FILE_SAME_PY_GENERIC_SERVICES": catFP, "FILE_SAME_RUBY_PACKAGE": catFP,
	"FILE_SAME_SWIFT_PREFIX": catFP, "FILE_SAME_SYNTAX": catFP, "MESSAGE_NO_REMOVE_STANDARD_DESCRIPTOR_ACCESSOR": catFP,
	"ONEOF_NO_DELETE": catFP, "RPC_NO_DELETE": catFP,
	"ENUM_SAME_JSON_FORMAT": catFPJ, "ENUM_VALUE_SAME_NAME": catFPJ, "FIELD_SAME_JSON_NAME": catFPJ, "FIELD_SAME_NAME": catFPJ,
	"MESSAGE_SAME_JSON_FORMAT": catFPJ,
	"FIELD_SAME_ONEOF":         catAll, "FILE_SAME_PACKAGE": catAll, "MESSAGE_SAME_REQUIRED_FIELDS": catAll,
	"RESERVED_ENUM_NO_DELETE": catAll, "RESERVED_MESSAGE_NO_DELETE": catAll, "RPC_SAME_CLIENT_STREAMING": catAll,
	"RPC_SAME_IDEMPOTENCY_LEVEL": catAll, "RPC_SAME_REQUEST_TYPE": catAll, "RPC_SAME_RESPONSE_TYPE": catAll,
	"RPC_SAME_SERVER_STREAMING": catAll,
	"PACKAGE_ENUM_NO_DELETE":    catP, "PACKAGE_MESSAGE_NO_DELETE": catP, "PACKAGE_NO_DELETE": catP, "PACKAGE_SERVICE_NO_DELETE": catP,
	"ENUM_VALUE_NO_DELETE_UNLESS_NAME_RESERVED": catJ, "FIELD_NO_DELETE_UNLESS_NAME_RESERVED": catJ,
	"FIELD_WIRE_JSON_COMPATIBLE_CARDINALITY": catJ, "FIELD_WIRE_JSON_COMPATIBLE_TYPE": catJ,
	"ENUM_VALUE_NO_DELETE_UNLESS_NUMBER_RESERVED": catJW, "FIELD_NO_DELETE_UNLESS_NUMBER_RESERVED": catJW,
	"FIELD_WIRE_COMPATIBLE_CARDINALITY": catW, "FIELD_WIRE_COMPATIBLE_TYPE": catW,
}

var c03RuleTables = func() map[string]map[string][]string {
	mk := func(over map[string]string) map[string][]string {
		t := map[string][]string{}
		for r, cats := range c03RulesV1 {
			t[r] = strings.Split(cats, ",")
		}
		for r, cats := range over {
			if cats == catNone {
				delete(t, r)
			} else {
				t[r] = strings.Split(cats, ",")
			}
		}
		return t
	}
	return map[string]map[string][]string{
		"v1": mk(nil),
		// v1beta1: FIELD_SAME_TYPE and FIELD_SAME_CARDINALITY are in all four categories and there are no
		// ..._COMPATIBLE_TYPE rules; FILE_SAME_PACKAGE is a FILE-only rule
		"v1beta1": mk(map[string]string{"FIELD_SAME_TYPE": catAll, "FIELD_SAME_CARDINALITY": catAll, "FILE_SAME_PACKAGE": catF,
			"FIELD_WIRE_JSON_COMPATIBLE_TYPE": catNone, "FIELD_WIRE_COMPATIBLE_TYPE": catNone}),
		// v2 adds the extension-deletion rules and FIELD_SAME_DEFAULT
		"v2": mk(map[string]string{"EXTENSION_NO_DELETE": catF, "PACKAGE_EXTENSION_NO_DELETE": catP, "FIELD_SAME_DEFAULT": catAll}),
	}
}()

var c03Versions = []string{"v1beta1", "v1", "v2"}

// c03AllRuleIDs: every non-deprecated breaking rule ID of any version (sorted).
var c03AllRuleIDs = func() []string {
	seen := map[string]bool{}
	for _, t := range c03RuleTables {
		for r := range t {
			seen[r] = true
		}
	}
	var out []string
	for r := range seen {
		out = append(out, r)
	}
	sort.Strings(out)
	return out
}()

// c03ConfigsFor lists every configuration in which the rule is active according to the pinned tables.
func c03ConfigsFor(rule string) []c03Cfg {
	var out []c03Cfg
	for _, v := range c03Versions {
		cats, ok := c03RuleTables[v][rule]
		if !ok {
			continue
		}
		for _, cat := range cats {
			out = append(out, c03Cfg{v, cat})
			if cat == "FILE" {
				out = append(out, c03Cfg{v, ""}) // no breaking section: documented default is FILE
			}
		}
		out = append(out, c03Cfg{v, rule})
	}
	return out
}

func c03InCategory(version, cat, rule string) bool {
	for _, c := range c03RuleTables[version][rule] {
		if c == cat {
			return true
		}
	}
	return false
}
