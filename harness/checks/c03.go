package checks

import (
	"fmt"
	"github.com/bufbuild/buf/private/pkg/thread"
	"math/rand/v2"
	"os"
	"path/filepath"
	"strings"

	"github.com/bufbuild/buf/private/bufpkg/bufimage"
	"github.com/bufbuild/verifharness/core"
	"github.com/bufbuild/verifharness/gen"
	"github.com/bufbuild/verifharness/run"
)

// C03 — no documented breaking change goes unreported.
//
// Workload: PRNG-generated schemas (enriched with the features the catalogue needs); every operator of
// the edit catalogue applied at sampled applicable elements of a clone, surrounded by 0–3 additive
// edits. Monitor: both versions are compiled in-process with the real BuildImage and compared with the
// real bufcheck.Client.Breaking under configurations parsed from real buf.yaml texts (v1beta1/v1/v2 ×
// categories containing the rule per the pinned documentation tables, the default configuration, and
// `use: [RULE]`); a sample additionally through the `buf breaking` CLI. Oracle: for every documented
// expectation there is an annotation with the rule ID, whose message names the edited element, in the
// file that holds it, starting inside the edited element (or its nearest surviving ancestor).

func c03GenConfig(r *rand.Rand) gen.Config {
	cfg := gen.DefaultConfig()
	cfg.Modules = 1 + r.IntN(2)
	cfg.MinFiles, cfg.MaxFiles = 2, 2+r.IntN(3)
	cfg.Groups = true
	cfg.Streaming = true
	cfg.MaxDepth = 3
	cfg.Rich = r.IntN(3) == 0
	// custom options pull descriptor.proto into every image (an order of magnitude more work per
	// comparison): kept in a quarter of the schemas
	cfg.CustomOptions = r.IntN(4) == 0
	return cfg
}

const c03Groups = 4

func c03Schemas(tier string) int {
	if tier == "thorough" {
		return 32
	}
	return 20
}

// c03Schema regenerates schema number si (the same for every operator group).
func c03Schema(seed uint64, si int) *gen.Schema {
	r := core.RandFor(seed, "C03", si, "schema")
	cfg := c03GenConfig(r)
	if c03Wide(si) {
		// many files: with the parallelism lowered (c03Run) the images take the chunked, parallel file
		// conversion of bufprotosource, which small modules never reach
		cfg.Modules, cfg.MinFiles, cfg.MaxFiles, cfg.CustomOptions = 2, 10, 12, false
	}
	s := gen.Generate(r, cfg)
	c03Enrich(r, s)
	return s
}

// c03Wide: every fifth schema is a wide one (≥ 20 files), compared under a parallelism of 2 or 3.
func c03Wide(si int) bool { return si%5 == 4 }

func containsAny(msg string, toks []string) bool {
	for _, t := range toks {
		if t != "" && strings.Contains(msg, t) {
			return true
		}
	}
	return false
}

// c03Match decides one expectation against one result set; why names the failed clause.
func c03Match(ex c03Expect, anns []c03Ann, nr *gen.Rendered) (ok bool, class, why string) {
	stage := 0
	var near []string
	for _, a := range anns {
		if a.Rule != ex.Rule {
			continue
		}
		if stage < 1 {
			stage = 1
		}
		if !containsAny(a.Message, ex.AnyOf) {
			continue
		}
		if stage < 2 {
			stage = 2
		}
		near = append(near, a.String())
		if ex.File != "" && a.Path != ex.File {
			continue
		}
		if stage < 3 {
			stage = 3
		}
		if ex.File == "" || ex.FileLevel {
			return true, "", ""
		}
		for _, key := range ex.Spans {
			if sp := nr.Spans[key]; sp != nil && a.Line >= sp.StartLine && a.Line <= sp.EndLine {
				return true, "", ""
			}
		}
	}
	if len(near) > 3 {
		near = near[:3]
	}
	switch stage {
	case 0:
		return false, "unreported", "no annotation with rule ID " + ex.Rule
	case 1:
		var have []string
		for _, a := range anns {
			if a.Rule == ex.Rule && len(have) < 3 {
				have = append(have, a.String())
			}
		}
		return false, "unreported-for-element", fmt.Sprintf("%s annotations exist but none names the edited element %v: %v", ex.Rule, ex.AnyOf, have)
	case 2:
		return false, "wrong-file", fmt.Sprintf("%s names the element but is not in %s: %v", ex.Rule, ex.File, near)
	default:
		var spans []string
		for _, key := range ex.Spans {
			if sp := nr.Spans[key]; sp != nil {
				spans = append(spans, fmt.Sprintf("%s=%d-%d", key, sp.StartLine, sp.EndLine))
			} else {
				spans = append(spans, key+"=?")
			}
		}
		return false, "wrong-location", fmt.Sprintf("%s names the element but does not start inside it (%v): %v", ex.Rule, spans, near)
	}
}

// c03PickConfigs: thorough = every configuration in which some expected rule is active; quick = see below.
func c03PickConfigs(c *core.C, exp []c03Expect) []c03Cfg {
	seen := map[c03Cfg]bool{}
	var all []c03Cfg
	for _, ex := range exp {
		for _, k := range c03ConfigsFor(ex.Rule) {
			if !seen[k] {
				seen[k] = true
				all = append(all, k)
			}
		}
	}
	if c.Thorough() {
		return all
	}
	// quick: one primary version (rotating) with every category configuration in which an expected rule is
	// active plus one `use: [RULE]`; the other versions contribute one sampled configuration half of the time
	var out []c03Cfg
	primary := c03Versions[c.Rand.IntN(len(c03Versions))]
	for _, v := range c03Versions {
		var cats, singles []c03Cfg
		for _, k := range all {
			if k.Version != v {
				continue
			}
			if _, isRule := c03RuleTables[v][k.Use]; isRule {
				singles = append(singles, k)
			} else {
				cats = append(cats, k)
			}
		}
		if v == primary {
			out = append(out, cats...)
			if len(singles) > 0 {
				out = append(out, singles[c.Rand.IntN(len(singles))])
			}
		} else if both := append(cats, singles...); len(both) > 0 && c.Rand.IntN(2) == 0 {
			out = append(out, both[c.Rand.IntN(len(both))])
		}
	}
	if len(out) == 0 && len(all) > 0 {
		out = append(out, all[c.Rand.IntN(len(all))])
	}
	return out
}

// c03Active: is the rule active under the configuration according to the pinned tables?
func c03Active(k c03Cfg, rule string) bool {
	if _, ok := c03RuleTables[k.Version][rule]; !ok {
		return false
	}
	switch k.Use {
	case rule:
		return true
	case "":
		return c03InCategory(k.Version, "FILE", rule)
	}
	return c03InCategory(k.Version, k.Use, rule)
}

func c03CfgKind(k c03Cfg) string {
	if _, isRule := c03RuleTables[k.Version][k.Use]; isRule {
		return k.Version + "/single-rule"
	}
	return k.String()
}

func c03FileTexts(r *gen.Rendered, path string) string {
	for _, fs := range r.Files {
		if t, ok := fs[path]; ok {
			return t
		}
	}
	return "(absent)"
}

func c03Run(c *core.C, idx int) {
	si, grp := idx/c03Groups, idx%c03Groups
	s := c03Schema(c.Seed, si)
	oldR := s.Render()
	oldImg, err := c03Build(s, oldR)
	c.Eval(1)
	if err != nil {
		c.Note("schema %d does not build: %s", si, clip([]byte(err.Error())))
		c.Count("generator_rejects", 1)
		return
	}
	oldIdx := c03Index(s)
	if c03Wide(si) {
		oldPar := thread.Parallelism()
		par := 2 + si%2
		thread.SetParallelism(par)
		defer thread.SetParallelism(oldPar)
		if n := len(oldImg.Files()); n/par >= 8 {
			c.Count("cases_on_parallel_file_conversion", 1)
			c.Distinct("parallel_file_conversion", fmt.Sprintf("files=%d parallelism=%d remainder=%d", n, par, n%par))
		}
	}
	maxSites := c.Pick(2, 4)
	for oi, op := range c03Catalogue {
		if oi%c03Groups != grp {
			continue
		}
		sites := op.Sites(oldIdx)
		if len(sites) == 0 {
			c.Count("operator_without_site_in_schema", 1)
			continue
		}
		c.Rand.Shuffle(len(sites), func(i, j int) { sites[i], sites[j] = sites[j], sites[i] })
		if c03MatrixOps[op.Name] {
			// type-pair matrix: one site per distinct source kind, target kinds rotate with the schema number
			sites = c03OnePerSourceKind(oldIdx, sites)
			for k, st := range sites {
				c03Apply(c, si, s, oldR, oldIdx, oldImg, op, st, si+k)
			}
			continue
		}
		if len(sites) > maxSites {
			sites = c03Diverse(sites, maxSites)
		}
		for _, st := range sites {
			c03Apply(c, si, s, oldR, oldIdx, oldImg, op, st, -1)
		}
	}
	if grp == 0 && si < 2 {
		c.Sample(map[string]any{"schema": s.Describe(), "operators_in_catalogue": len(c03Catalogue), "rules_in_tables": len(c03AllRuleIDs)})
	}
}

var c03MatrixOps = map[string]bool{"field-type-scalar-to-scalar": true, "field-type-map-value": true}

func c03OnePerSourceKind(x *c03Idx, sites []c03Site) []c03Site {
	seen := map[string]bool{}
	var out []c03Site
	for _, st := range sites {
		m := x.Msg(st.A)
		if m == nil {
			continue
		}
		fl := m.Field(st.B)
		k := fl.Type
		if fl.Kind == "map" {
			k = fl.MapVal
		}
		if !seen[k] {
			seen[k] = true
			out = append(out, st)
		}
	}
	return out
}

// c03Diverse keeps at most n sites, one per (kind, depth) class first.
func c03Diverse(sites []c03Site, n int) []c03Site {
	var out []c03Site
	seen := map[string]bool{}
	for _, st := range sites {
		k := fmt.Sprintf("%s/%d/%s", st.Kind, st.Depth, st.File)
		if !seen[k] && len(out) < n {
			seen[k] = true
			out = append(out, st)
		}
	}
	for _, st := range sites {
		if len(out) >= n {
			break
		}
		dup := false
		for _, o := range out {
			if o.Key == st.Key && o.N == st.N {
				dup = true
			}
		}
		if !dup {
			out = append(out, st)
		}
	}
	return out
}

func c03Apply(c *core.C, si int, s *gen.Schema, oldR *gen.Rendered, oldIdx *c03Idx, oldImg bufimage.Image, op *c03Op, st c03Site, hint int) {
	ns := s.Clone()
	env := &c03Env{R: c.Rand, Old: oldIdx, New: c03Index(ns), Hint: hint}
	exp := op.Apply(env, st)
	if len(exp) == 0 {
		c.Count("site_not_applicable", 1)
		return
	}
	// surround the edit with 0–3 unrelated additive edits
	var noise []string
	for k := c.Rand.IntN(4); k > 0; k-- {
		env.New = c03Index(ns)
		a := c04Additive[c.Rand.IntN(len(c04Additive))]
		if a.Apply(env) {
			noise = append(noise, a.Name)
		}
	}
	nr := ns.Render()
	newImg, err := c03Build(ns, nr)
	c.Eval(1)
	where := fmt.Sprintf("seed=%d schema=%d op=%s site=%s%s noise=%v", c.Seed, si, op.Name, st.Key, map[bool]string{true: " choice=" + env.Tag, false: ""}[env.Tag != ""], noise)
	if err != nil {
		c.Count("edit_not_buildable", 1)
		c.Distinct("unbuildable_operators", op.Name)
		if c.Replay || os.Getenv("C03_DEBUG") != "" {
			c.Note("not buildable: %s: %s", where, clip([]byte(err.Error())))
		}
		return
	}
	c.Count("applications", 1)
	c.Count("op:"+op.Name, 1)
	c.Distinct("operators_applied", op.Name)
	if env.Tag != "" {
		c.Distinct("operator_choices", op.Name+":"+env.Tag)
	}
	fi := fileIndex(s, st.File)
	c.Nontrivial(fmt.Sprintf("%s|%s|depth=%d|file=%d|noise=%d", op.Name, st.Kind, st.Depth, min(fi, 3), len(noise)))
	for _, n := range noise {
		c.Distinct("noise_operators", n)
	}

	results := map[c03Cfg][]c03Ann{}
	cfgs := c03PickConfigs(c, exp)
	for _, k := range cfgs {
		anns, err := c03Breaking(k, newImg, oldImg)
		c.Eval(1)
		if err != nil {
			c.Violation("breaking-error", fmt.Sprintf("op=%s cfg=%s", op.Name, c03CfgKind(k)), fmt.Sprintf("Breaking returned an operational error instead of annotations: %v [%s]", err, where), nil)
			continue
		}
		results[k] = anns
		for _, a := range anns {
			if strings.Contains(a.Message, "%!") {
				c.Violation("message-garbled", "rule="+a.Rule, fmt.Sprintf("annotation message carries a fmt error marker: %q [%s]", a.Message, where), nil)
			}
		}
		for _, ex := range exp {
			if !c03Active(k, ex.Rule) {
				continue
			}
			ok, class, why := c03Match(ex, anns, nr)
			c.Count("expectations_checked", 1)
			c.Count("rule:"+ex.Rule, 1)
			c.Distinct("rule_config", ex.Rule+"@"+c03CfgKind(k))
			if ok {
				continue
			}
			for _, key := range ex.Spans {
				if nr.Spans[key] == nil {
					c.Violation("catalogue-error", "op="+op.Name, fmt.Sprintf("expectation refers to span %q that the new rendering does not have [%s]", key, where), nil)
				}
			}
			c.Violation(class, fmt.Sprintf("op=%s rule=%s cfg=%s", op.Name, ex.Rule, c03CfgKind(k)),
				fmt.Sprintf("%s under %s [%s]", why, k, where),
				map[string]any{"expect": ex, "old_file": c03FileTexts(oldR, st.File), "new_file": c03FileTexts(nr, st.File), "config": k.YAML()})
		}
	}
	// the same comparison through the CLI for a sample (exit status path)
	if len(cfgs) > 0 && c.Rand.IntN(20) == 0 {
		c03CLI(c, s, oldR, ns, nr, cfgs[c.Rand.IntN(len(cfgs))], exp, op, where)
	}
}

func c03CLI(c *core.C, s *gen.Schema, oldR *gen.Rendered, ns *gen.Schema, nr *gen.Rendered, k c03Cfg, exp []c03Expect, op *c03Op, where string) {
	base := filepath.Join(c.Tmp, "c03cli")
	os.RemoveAll(base)
	defer os.RemoveAll(base)
	breaking := ""
	if k.Use != "" {
		breaking = "use:\n  - " + k.Use + "\n"
	}
	oldDir, newDir := filepath.Join(base, "old"), filepath.Join(base, "new")
	run.WriteTree(oldDir, s.WorkspaceFiles(oldR, gen.WorkspaceOpts{Version: k.Version, Breaking: breaking}))
	run.WriteTree(newDir, ns.WorkspaceFiles(nr, gen.WorkspaceOpts{Version: k.Version, Breaking: breaking}))
	env := run.BufEnv(filepath.Join(c.Tmp, "home"), nil)
	o := run.Buf(newDir, env, nil, "breaking", ".", "--against", oldDir, "--error-format=json")
	c.Eval(1)
	c.Count("cli_comparisons", 1)
	key := fmt.Sprintf("op=%s cfg=%s", op.Name, c03CfgKind(k))
	if o.Code != 100 {
		c.Violation("cli-exit-status", key, fmt.Sprintf("`buf breaking` exit %d (want 100) for a documented breaking edit; stderr=%s [%s]", o.Code, clip(o.Stderr), where), nil)
		return
	}
	raw, err := parseAnns(o.Stdout)
	if err != nil {
		c.Violation("cli-json", key, err.Error(), nil)
		return
	}
	var anns []c03Ann
	for _, a := range raw {
		p := a.Path
		for _, m := range ns.Modules {
			if strings.HasPrefix(p, m.Dir+"/") {
				p = strings.TrimPrefix(p, m.Dir+"/")
				break
			}
		}
		anns = append(anns, c03Ann{Rule: a.Type, Path: p, Line: a.Line, EndLine: a.EndLine, Message: a.Message})
	}
	for _, ex := range exp {
		if !c03Active(k, ex.Rule) {
			continue
		}
		if ok, class, why := c03Match(ex, anns, nr); !ok {
			c.Violation("cli-"+class, fmt.Sprintf("op=%s rule=%s cfg=%s", op.Name, ex.Rule, c03CfgKind(k)), fmt.Sprintf("through the CLI: %s under %s [%s]", why, k, where), nil)
		}
		c.Count("cli_expectations_checked", 1)
	}
}

func init() {
	var required []string
	for _, r := range c03AllRuleIDs {
		required = append(required, "rule:"+r)
	}
	required = append(required, "applications", "cases_on_parallel_file_conversion", "expectations_checked", "cli_comparisons", "cli_expectations_checked")
	core.Register(&core.Check{
		ID:    "C03",
		Level: "exploration",
		Rule: "per PRNG-generated schema (1–2 modules, proto2/proto3/editions, nesting ≤3, maps, oneofs, groups, extensions, services; enriched with required fields, defaults, ctype/jstype, aliases, tracked file options …): " +
			"every operator of the edit catalogue (≥1 per non-deprecated breaking rule ID of v1beta1/v1/v2) applied at ≤2 (quick) / ≤4 (thorough) sampled applicable elements (distinct kind/depth/file first), each followed by 0–3 additive edits; " +
			"old and new compiled by the real BuildImage, compared by the real Breaking under configs parsed from buf.yaml texts: quick = for one rotating buf.yaml version every category (and the default config) in which an expected rule is active + one `use: [RULE]`, for the other versions one sampled configuration half of the time; thorough = all of them; scalar type changes (field and map value) follow a matrix: one site per source kind per schema, target kind rotating so that all 210 ordered pairs recur; 5% of applications also via `buf breaking --error-format=json`. " +
			"distinct/non-trivial = distinct (operator, element kind, depth, file index, #noise edits) classes whose edited version compiled; counters rule:<ID> (all Required) = expectations checked per rule; rule_config = distinct (rule, version/category) pairs checked",
		Assumptions: []string{
			"category membership per buf.yaml version and the wire / wire+JSON compatibility groups are pinned extracts of the documentation (c03build.go, c03edits3.go), not read from the code under test",
			"an expectation demands: rule ID; message contains the element's name or number; path = the file holding the element (none if that file is deleted); start line inside the edited element, or inside its nearest surviving ancestor when deleted; file-level changes: any line of that file",
			"edited versions that do not compile are outside the domain (counted as edit_not_buildable, operators listed in unbuildable_operators)",
			"deprecated rule IDs are C06's subject; ignore/ignore_only/ignore_unstable_packages are not configured",
		},
		Cases:    func(tier string) int { return c03Schemas(tier) * c03Groups },
		Run:      c03Run,
		Required: required,
	})
}
