package checks

import (
	"fmt"
	"sort"
	"strconv"
	"strings"

	"github.com/bufbuild/verifharness/core"
	"github.com/bufbuild/verifharness/run"
	"google.golang.org/protobuf/proto"
	"google.golang.org/protobuf/types/descriptorpb"
)

// Development aids:
//
//	verif helper c12dump <seed> <case> <tier> <dir>          write the sources of a case
//	verif helper c12filter <seed> <case> <tier> [-i a,b] [-e c,d] [-noopts] [-noext] [-inplace] [-allow] [-v]
//	                                                     apply one filter to the image of a case and judge it
func init() {
	core.RegisterHelper("c12dump", func(args []string) int {
		w := c12Workload4(args)
		for mi, m := range w.schema.Modules {
			files := map[string]string{}
			for p, t := range w.texts[mi] {
				files[m.Dir+"/"+p] = t
			}
			run.WriteTree(args[3], files)
			fmt.Printf("module %s targeted=%v\n", m.Dir, !w.notTargeted[mi])
		}
		fmt.Println(w.featureList())
		return 0
	})
	core.RegisterHelper("c12filter", func(args []string) int {
		w := c12Workload4(args)
		img, err := c12BuildImage(w)
		if err != nil {
			fmt.Println("build:", err)
			return 1
		}
		var orig []*descriptorpb.FileDescriptorProto
		imp := map[string]bool{}
		for _, f := range img.Files() {
			orig = append(orig, proto.Clone(f.FileDescriptorProto()).(*descriptorpb.FileDescriptorProto))
			imp[f.Path()] = f.IsImport()
		}
		ix, err := c12BuildIndex(orig, imp, true)
		if err != nil {
			fmt.Println(err)
			return 1
		}
		f := &c12Filter{customOptions: true, knownExt: true}
		verbose := false
		for i := 3; i < len(args); i++ {
			switch args[i] {
			case "-i":
				i++
				f.inc = strings.Split(args[i], ",")
			case "-e":
				i++
				f.exc = strings.Split(args[i], ",")
			case "-noopts":
				f.customOptions = false
			case "-noext":
				f.knownExt = false
			case "-inplace":
				f.inPlace = true
			case "-allow":
				f.allowImported = true
			case "-v":
				verbose = true
			}
		}
		p := c12MakePlan(ix, f)
		res, ferr, _ := c12Apply(img, f, f.inPlace)
		fmt.Println("filter:", f, "error:", ferr, "strict:", p.strict)
		var rfds []*descriptorpb.FileDescriptorProto
		rimp := map[string]bool{}
		if ferr == nil {
			rfds, rimp = c12Files(res)
		}
		out := c12Judge(p, rfds, rimp, ferr, func(class, key, msg string) { fmt.Printf("VIOLATION %s [%s]\n   %s\n", class, key, msg) })
		if verbose && out.rix != nil {
			var names []string
			for n := range out.rix.els {
				names = append(names, n)
			}
			sort.Strings(names)
			fmt.Println("result files:", out.rix.order)
			fmt.Println("result elements:", names)
			fmt.Println("lower:", p.lower.names())
			fmt.Println("upper:", p.upper.names())
		}
		if ferr == nil && len(f.inc) > 0 {
			f2 := *f
			f2.exc = nil
			res2, err2, _ := c12Apply(res, &f2, false)
			if err2 != nil {
				fmt.Println("second application:", err2)
			} else if d := c12SameImage(res, res2); d != "" {
				fmt.Println("second application differs:", d)
			}
		}
		return 0
	})
}

func c12Workload4(args []string) *c12Workload {
	seed, _ := strconv.ParseUint(args[0], 10, 64)
	idx, _ := strconv.Atoi(args[1])
	r := core.RandFor(seed, "C12", idx, "case")
	return c12Generate(r, args[2] == "thorough", idx%4 == 0)
}
