package checks

import (
	"encoding/json"
	"fmt"
	"strconv"
	"time"

	"github.com/bufbuild/verifharness/core"
	"github.com/bufbuild/verifharness/gen"
)

// `verif helper c03probe <n>`: timing of the in-process build and Breaking calls (development aid).
func init() {
	// `verif helper c03catalog`: the edit catalogue as JSON (operator -> rule IDs; rule -> operators; uncovered rules).
	core.RegisterHelper("c03catalog", func(args []string) int {
		byRule := map[string][]string{}
		ops := map[string][]string{}
		for _, op := range c03Catalogue {
			ops[op.Name] = op.Rules
			for _, r := range op.Rules {
				byRule[r] = append(byRule[r], op.Name)
			}
		}
		var uncovered []string
		for _, r := range c03AllRuleIDs {
			if len(byRule[r]) == 0 {
				uncovered = append(uncovered, r)
			}
		}
		var additive []string
		for _, a := range c04Additive {
			additive = append(additive, a.Name)
		}
		data, _ := json.MarshalIndent(map[string]any{"operators": ops, "operators_per_rule": byRule, "uncovered_rules": uncovered, "additive_operators": additive, "rule_tables": c03RuleTables}, "", " ")
		fmt.Println(string(data))
		return 0
	})
	core.RegisterHelper("c03probe", func(args []string) int {
		n := 5
		if len(args) > 0 {
			n, _ = strconv.Atoi(args[0])
		}
		for i := 0; i < n; i++ {
			c := core.NewDetachedC("C03", 1, i)
			s := gen.Generate(c.Rand, c03GenConfig(c.Rand))
			t0 := time.Now()
			r := s.Render()
			t1 := time.Now()
			old, err := c03Build(s, r)
			t2 := time.Now()
			if err != nil {
				fmt.Println("build error:", err)
				continue
			}
			s2 := s.Clone()
			edits := c11BreakingEdits(c, s2)
			img2, err := c03Build(s2, s2.Render())
			if err != nil {
				fmt.Println("build2 error:", err)
				continue
			}
			t3 := time.Now()
			var nann int
			for _, v := range c03Versions {
				for _, cat := range c03Categories {
					anns, err := c03Breaking(c03Cfg{v, cat}, img2, old)
					if err != nil {
						fmt.Println("breaking error:", err)
					}
					nann += len(anns)
					if i == 0 && v == "v2" && cat == "FILE" {
						for _, a := range anns {
							fmt.Println("  ", a)
						}
					}
				}
			}
			t4 := time.Now()
			fmt.Printf("%s edits=%d render=%v build=%v 12 breaking calls=%v anns=%d\n", s.Describe(), len(edits), t1.Sub(t0), t2.Sub(t1), t4.Sub(t3), nann)
		}
		return 0
	})
}
