package checks

import (
	"fmt"
	"math/rand/v2"
	"sort"
	"strconv"
	"strings"
)

// C18 configuration workload: random managed sections in v2 vocabulary (disable / override
// rule lists) and in v1 vocabulary (per-option blocks with default / except / override plus
// per-file overrides), rendered as buf.gen.yaml text for the real bufconfig reader.

var c18AllConfigOptions = func() []string {
	var out []string
	for _, o := range c18FileOptions {
		out = append(out, o.Name)
	}
	for _, p := range c18PrefixOf {
		out = append(out, p)
	}
	for _, s := range c18SuffixOf {
		out = append(out, s)
	}
	sort.Strings(out)
	return out
}()

func c18Pick(r *rand.Rand, pool []string, fallback string) string {
	if len(pool) == 0 {
		return fallback
	}
	return pool[r.IntN(len(pool))]
}

// c18Scope picks the file scope of a rule: nothing, a path (file, directory, ".", WKT file,
// unknown), a module (present, unknown), or both.
func c18Scope(r *rand.Rand, p *c18Pools) (path, module string) {
	pickPath := func() string {
		switch r.IntN(10) {
		case 0:
			return "."
		case 1:
			return "nope/none.proto"
		case 2:
			return c18Pick(r, p.wktFiles, "google/protobuf")
		case 3:
			if r.IntN(2) == 0 {
				// a string prefix of a real path that is not a path-wise ancestor
				f := c18Pick(r, p.files, "a.proto")
				if cut := 1 + r.IntN(6); len(f) > cut+1 && f[len(f)-cut-1] != '/' {
					return f[:len(f)-cut]
				}
			}
			return "google/protobuf"
		case 4, 5, 6:
			return c18Pick(r, p.dirs, "acme")
		default:
			return c18Pick(r, p.files, "a.proto")
		}
	}
	pickModule := func() string {
		if r.IntN(6) == 0 || len(p.modules) == 0 {
			return "buf.test/acme/absent"
		}
		return p.modules[r.IntN(len(p.modules))]
	}
	switch r.IntN(8) {
	case 0, 1, 2:
		return "", ""
	case 3, 4, 5:
		return pickPath(), ""
	case 6:
		return "", pickModule()
	default:
		return pickPath(), pickModule()
	}
}

func c18PickField(r *rand.Rand, p *c18Pools) string {
	switch r.IntN(8) {
	case 0:
		return "acme.none.v1.Missing.field"
	case 1:
		return c18Pick(r, p.fieldsOther, "acme.none.v1.Missing.other")
	default:
		return c18Pick(r, p.fields64, "acme.none.v1.Missing.big")
	}
}

func c18OptionValue(r *rand.Rand, opt string) any {
	switch opt {
	case "java_multiple_files", "java_string_check_utf8", "cc_enable_arenas":
		return r.IntN(2) == 0
	}
	pool := c18ValuePool[opt]
	return pool[r.IntN(len(pool))]
}

func c18GenV2(r *rand.Rand, p *c18Pools, deep bool) *c18Config {
	cfg := &c18Config{Enabled: r.IntN(7) != 0}
	nd := []int{0, 0, 1, 1, 2, 3, 4, 6}[r.IntN(8)]
	no := []int{0, 1, 2, 3, 4, 6, 8, 12}[r.IntN(8)]
	if deep && r.IntN(3) == 0 {
		nd, no = r.IntN(11), r.IntN(25)
	}
	// a configuration often concentrates on a few options, so that rules interact
	focus := c18AllConfigOptions
	if r.IntN(2) == 0 {
		focus = nil
		base := c18FileOptions[r.IntN(len(c18FileOptions))].Name
		focus = append(focus, base)
		if pre := c18PrefixOf[base]; pre != "" {
			focus = append(focus, pre)
		}
		if suf := c18SuffixOf[base]; suf != "" {
			focus = append(focus, suf)
		}
		focus = append(focus, c18AllConfigOptions[r.IntN(len(c18AllConfigOptions))])
	}
	for i := 0; i < nd; i++ {
		d := c18Rule{}
		d.Path, d.Module = c18Scope(r, p)
		switch r.IntN(10) {
		case 0, 1, 2, 3:
			d.FileOption = focus[r.IntN(len(focus))]
		case 4:
			d.FieldOption = "jstype"
		case 5:
			d.Field = c18PickField(r, p)
		case 6:
			d.Field = c18PickField(r, p)
			d.FieldOption = "jstype"
		default: // whole-file rule
		}
		if d == (c18Rule{}) {
			d.Path = c18Pick(r, p.dirs, ".")
		}
		cfg.Disables = append(cfg.Disables, d)
	}
	for i := 0; i < no; i++ {
		o := c18Rule{}
		o.Path, o.Module = c18Scope(r, p)
		if r.IntN(4) == 0 {
			o.FieldOption = "jstype"
			o.Value = []string{"JS_NORMAL", "JS_STRING", "JS_NUMBER"}[r.IntN(3)]
			if r.IntN(2) == 0 {
				o.Field = c18PickField(r, p)
			}
		} else {
			o.FileOption = focus[r.IntN(len(focus))]
			o.Value = c18OptionValue(r, o.FileOption)
		}
		cfg.Overrides = append(cfg.Overrides, o)
	}
	return cfg
}

func c18Q(s string) string { return strconv.Quote(s) }

func c18SpellOption(r *rand.Rand, opt string) string {
	switch r.IntN(6) {
	case 0:
		return strings.ToUpper(opt)
	case 1:
		return c18Q(" " + opt + " ")
	}
	return opt
}

func c18YAMLValue(v any) string {
	switch t := v.(type) {
	case bool:
		return strconv.FormatBool(t)
	case string:
		return c18Q(t)
	}
	return fmt.Sprint(v)
}

// yamlV2 renders the configuration as a v2 buf.gen.yaml; plugin is the YAML of the plugins list items.
func (cfg *c18Config) yamlV2(r *rand.Rand, plugin string) string {
	var sb strings.Builder
	sb.WriteString("version: v2\nmanaged:\n")
	fmt.Fprintf(&sb, "  enabled: %v\n", cfg.Enabled)
	rule := func(ru c18Rule, override bool) {
		first := true
		item := func(k, v string) {
			if first {
				sb.WriteString("    - ")
				first = false
			} else {
				sb.WriteString("      ")
			}
			sb.WriteString(k + ": " + v + "\n")
		}
		if ru.FileOption != "" {
			item("file_option", c18SpellOption(r, ru.FileOption))
		}
		if ru.FieldOption != "" {
			item("field_option", c18SpellOption(r, ru.FieldOption))
		}
		if ru.Module != "" {
			item("module", ru.Module)
		}
		if ru.Path != "" {
			item("path", c18Q(ru.Path))
		}
		if ru.Field != "" {
			item("field", ru.Field)
		}
		if override {
			item("value", c18YAMLValue(ru.Value))
		}
	}
	if len(cfg.Disables) > 0 {
		sb.WriteString("  disable:\n")
		for _, d := range cfg.Disables {
			rule(d, false)
		}
	}
	if len(cfg.Overrides) > 0 {
		sb.WriteString("  override:\n")
		for _, o := range cfg.Overrides {
			rule(o, true)
		}
	}
	sb.WriteString("plugins:\n" + plugin)
	return sb.String()
}

// ---- v1 -------------------------------------------------------------------------------------

func c18GenV1(r *rand.Rand, p *c18Pools) *c18V1Config {
	v := &c18V1Config{Enabled: r.IntN(7) != 0}
	b := func() *bool { x := r.IntN(2) == 0; return &x }
	if r.IntN(3) == 0 {
		v.CcEnableArenas = b()
	}
	if r.IntN(3) == 0 {
		v.JavaMultipleFiles = b()
	}
	if r.IntN(3) == 0 {
		v.JavaStringCheckUtf8 = b()
	}
	mods := func() []string {
		var out []string
		n := r.IntN(3)
		seen := map[string]bool{}
		for i := 0; i < n; i++ {
			m := "buf.test/acme/absent"
			if len(p.modules) > 0 && r.IntN(5) != 0 {
				m = p.modules[r.IntN(len(p.modules))]
			}
			if !seen[m] {
				seen[m] = true
				out = append(out, m)
			}
		}
		return out
	}
	block := func(knob string, needDefault, hasDefault, plainOK bool) c18V1Block {
		if r.IntN(2) == 0 {
			return c18V1Block{}
		}
		bl := c18V1Block{Set: true}
		pool := c18ValuePool[knob]
		if hasDefault && (needDefault || r.IntN(2) == 0) {
			bl.Default = pool[r.IntN(len(pool))]
		}
		if plainOK && r.IntN(3) == 0 {
			bl.Plain = true
			return bl
		}
		bl.Except = mods()
		ex := map[string]bool{}
		for _, m := range bl.Except {
			ex[m] = true
		}
		for _, m := range mods() {
			if !ex[m] { // the reader rejects a module listed in both
				if bl.Override == nil {
					bl.Override = map[string]string{}
				}
				bl.Override[m] = pool[r.IntN(len(pool))]
			}
		}
		if bl.Default == "" && len(bl.Except) == 0 && len(bl.Override) == 0 {
			return c18V1Block{}
		}
		return bl
	}
	v.JavaPackagePrefix = block("java_package_prefix", true, true, true)
	v.CsharpNamespace = block("csharp_namespace", false, false, false)
	v.OptimizeFor = block("optimize_for", true, true, true)
	v.GoPackagePrefix = block("go_package_prefix", true, true, false)
	v.ObjcClassPrefix = block("objc_class_prefix", false, true, false)
	v.RubyPackage = block("ruby_package", false, false, false)
	if r.IntN(2) == 0 {
		v.PerFile = map[string]map[string]string{}
		n := 1 + r.IntN(4)
		for i := 0; i < n; i++ {
			o := c18FileOptions[r.IntN(len(c18FileOptions))]
			key := strings.ToUpper(o.Name)
			if r.IntN(4) == 0 {
				key = o.Name
			}
			for k := range v.PerFile { // one spelling per option
				if strings.EqualFold(k, key) {
					key = k
				}
			}
			if v.PerFile[key] == nil {
				v.PerFile[key] = map[string]string{}
			}
			path := c18Pick(r, p.files, "a.proto")
			if r.IntN(8) == 0 {
				path = c18Pick(r, p.wktFiles, "nope.proto")
			}
			v.PerFile[key][path] = c18ValString(c18OptionValue(r, o.Name))
		}
	}
	return v
}

func (v *c18V1Config) yaml(plugin string) string {
	var sb strings.Builder
	sb.WriteString("version: v1\nmanaged:\n")
	fmt.Fprintf(&sb, "  enabled: %v\n", v.Enabled)
	pb := func(k string, b *bool) {
		if b != nil {
			fmt.Fprintf(&sb, "  %s: %v\n", k, *b)
		}
	}
	pb("cc_enable_arenas", v.CcEnableArenas)
	pb("java_multiple_files", v.JavaMultipleFiles)
	pb("java_string_check_utf8", v.JavaStringCheckUtf8)
	block := func(k string, b c18V1Block) {
		if !b.Set {
			return
		}
		if b.Plain {
			fmt.Fprintf(&sb, "  %s: %s\n", k, c18Q(b.Default))
			return
		}
		fmt.Fprintf(&sb, "  %s:\n", k)
		if b.Default != "" {
			fmt.Fprintf(&sb, "    default: %s\n", c18Q(b.Default))
		}
		if len(b.Except) > 0 {
			sb.WriteString("    except:\n")
			for _, m := range b.Except {
				sb.WriteString("      - " + m + "\n")
			}
		}
		if len(b.Override) > 0 {
			sb.WriteString("    override:\n")
			var ms []string
			for m := range b.Override {
				ms = append(ms, m)
			}
			sort.Strings(ms)
			for _, m := range ms {
				fmt.Fprintf(&sb, "      %s: %s\n", m, c18Q(b.Override[m]))
			}
		}
	}
	block("java_package_prefix", v.JavaPackagePrefix)
	block("csharp_namespace", v.CsharpNamespace)
	block("optimize_for", v.OptimizeFor)
	block("go_package_prefix", v.GoPackagePrefix)
	block("objc_class_prefix", v.ObjcClassPrefix)
	block("ruby_package", v.RubyPackage)
	if len(v.PerFile) > 0 {
		sb.WriteString("  override:\n")
		var ks []string
		for k := range v.PerFile {
			ks = append(ks, k)
		}
		sort.Strings(ks)
		for _, k := range ks {
			fmt.Fprintf(&sb, "    %s:\n", k)
			var ps []string
			for p := range v.PerFile[k] {
				ps = append(ps, p)
			}
			sort.Strings(ps)
			for _, p := range ps {
				fmt.Fprintf(&sb, "      %s: %s\n", c18Q(p), c18Q(v.PerFile[k][p]))
			}
		}
	}
	sb.WriteString("plugins:\n" + plugin)
	return sb.String()
}
