package checks

import (
	"fmt"
	"github.com/bufbuild/buf/private/pkg/thread"
	"strings"

	"github.com/bufbuild/buf/private/bufpkg/bufimage"
	"github.com/bufbuild/verifharness/core"
	"github.com/bufbuild/verifharness/gen"
)

// C04 — compatible changes are never reported; breaking categories are ordered.
//
// Part 1 (chains): S0 -> S1 -> … -> S6, every step applies 1–3 additive / comment operators
// (c04additive.go); every Si is compared with every earlier Sj, with itself, and a text-level re-layout
// of a version with the original (both directions): the result must be empty under every category of
// every buf.yaml version. Part 2 (hierarchy): arbitrary pairs built from mixes of the C03 catalogue and
// additive operators; clean(FILE) ⇒ clean(PACKAGE) ⇒ clean(WIRE_JSON) ⇒ clean(WIRE) per version.

const c04ChainLen = 6

func c04Chains(tier string) int {
	if tier == "thorough" {
		return 240
	}
	return 48
}

func c04HierCases(tier string) int {
	if tier == "thorough" {
		return 160
	}
	return 32
}

const c04PairsPerHierCase = 10

// c04MatrixPerHierCase: scalar kind pairs applied alone per hierarchy case (32 quick cases × 7 ≥ the 210 ordered pairs)
const c04MatrixPerHierCase = 7

// c04SingleStride: every c04SingleStride-th operator of the catalogue (rotating with the case number) is applied alone.
const c04SingleStride = 24

var c04AllCfgs = func() []c03Cfg {
	var out []c03Cfg
	for _, v := range c03Versions {
		for _, cat := range c03Categories {
			out = append(out, c03Cfg{v, cat})
		}
		out = append(out, c03Cfg{v, ""})
	}
	return out
}()

func c04Schema(c *core.C) *gen.Schema {
	cfg := c03GenConfig(c.Rand)
	if c.Idx%5 == 4 {
		// a wide schema under a lowered parallelism: the chunked, parallel file conversion of bufprotosource
		// (see c03Wide) must give both sides of a comparison the same files
		cfg.Modules, cfg.MinFiles, cfg.MaxFiles, cfg.CustomOptions = 2, 10, 12, false
		thread.SetParallelism(2 + (c.Idx/5)%2)
		c.Count("cases_under_lowered_parallelism", 1)
	} else {
		thread.SetParallelism(c04DefaultParallelism)
	}
	s := gen.Generate(c.Rand, cfg)
	c03Enrich(c.Rand, s)
	// valid but unusual: proto2 files without a syntax statement (present on both sides of every comparison)
	for _, f := range s.AllFiles() {
		if f.Syntax == "proto2" && c.Rand.IntN(3) == 0 {
			f.Syntax = ""
		}
	}
	return s
}

// c04DefaultParallelism is the parallelism of the process at start (cases of one worker run one after another).
var c04DefaultParallelism = thread.Parallelism()

type c04Version struct {
	S     *gen.Schema
	R     *gen.Rendered
	Img   bufimage.Image
	Steps []string // operators applied to obtain it from its predecessor
}

// c04Compare demands an empty result for (newer, older) under the given configurations.
func c04Compare(c *core.C, newer, older bufimage.Image, cfgs []c03Cfg, what, where string, detail func() map[string]any) {
	for _, k := range cfgs {
		anns, err := c03Breaking(k, newer, older)
		c.Eval(1)
		c.Count("clean_comparisons", 1)
		c.Distinct("configs", k.String())
		if err != nil {
			c.Violation("breaking-error", fmt.Sprintf("%s cfg=%s", what, k), fmt.Sprintf("operational error for a compatible comparison: %v [%s]", err, where), nil)
			continue
		}
		if len(anns) == 0 {
			continue
		}
		rules := map[string]bool{}
		for _, a := range anns {
			rules[a.Rule] = true
		}
		var first []string
		for i, a := range anns {
			if i < 4 {
				first = append(first, a.String())
			}
		}
		for _, r := range sortedKeys(rules) {
			var d map[string]any
			if detail != nil {
				d = detail()
			}
			c.Violation("false-positive", fmt.Sprintf("%s rule=%s", what, r),
				fmt.Sprintf("%d annotation(s) for a compatible change under %s: %v [%s]", len(anns), k, first, where), d)
		}
	}
}

func c04Chain(c *core.C, idx int) {
	s0 := c04Schema(c)
	r0 := s0.Render()
	img0, err := c03Build(s0, r0)
	c.Eval(1)
	if err != nil {
		c.Note("chain %d: schema does not build: %s", idx, clip([]byte(err.Error())))
		c.Count("generator_rejects", 1)
		return
	}
	vs := []*c04Version{{S: s0, R: r0, Img: img0}}
	ops := map[string]bool{}
	for i := 1; i <= c04ChainLen; i++ {
		prev := vs[len(vs)-1]
		var built *c04Version
		for attempt := 0; attempt < 4 && built == nil; attempt++ {
			ns := prev.S.Clone()
			env := &c03Env{R: c.Rand, Old: c03Index(prev.S), seq: i * 1000, Hint: -1}
			var steps []string
			for k := 1 + c.Rand.IntN(3); k > 0; k-- {
				env.New = c03Index(ns)
				a := c04Additive[c.Rand.IntN(len(c04Additive))]
				if a.Apply(env) {
					steps = append(steps, a.Name)
				}
			}
			if len(steps) == 0 {
				continue
			}
			nr := ns.Render()
			img, err := c03Build(ns, nr)
			c.Eval(1)
			if err != nil {
				c.Count("additive_step_not_buildable", 1)
				c.Distinct("unbuildable_additive", strings.Join(steps, "+"))
				if c.Replay {
					c.Note("additive step not buildable %v: %s", steps, clip([]byte(err.Error())))
				}
				continue
			}
			built = &c04Version{S: ns, R: nr, Img: img, Steps: steps}
		}
		if built == nil {
			break
		}
		for _, st := range built.Steps {
			ops[st] = true
			c.Distinct("additive_operators", st)
		}
		vs = append(vs, built)
	}
	where := func(i, j int) string {
		var steps []string
		for k := j + 1; k <= i; k++ {
			steps = append(steps, fmt.Sprintf("S%d:%v", k, vs[k].Steps))
		}
		return fmt.Sprintf("seed=%d chain=%d S%d against S%d steps=%v", c.Seed, idx, i, j, steps)
	}
	// every version against every earlier one and against itself
	pair := 0
	for i := 0; i < len(vs); i++ {
		for j := 0; j <= i; j++ {
			cfgs := c04AllCfgs
			if !c.Thorough() && !(i == len(vs)-1 && j == 0) && !(i == j && i == 0) {
				// quick: 4 of the 15 configurations per pair, rotating
				cfgs = nil
				for k := 0; k < 4; k++ {
					cfgs = append(cfgs, c04AllCfgs[(pair*4+k)%len(c04AllCfgs)])
				}
			}
			pair++
			what := "chain"
			if i == j {
				what = "self"
			}
			i, j := i, j
			c04Compare(c, vs[i].Img, vs[j].Img, cfgs, what, where(i, j), func() map[string]any {
				return map[string]any{"steps": where(i, j)}
			})
			c.Count(what+"_pairs", 1)
		}
	}
	// text-level re-layout / re-commenting of one version against the original, both directions
	vi := c.Rand.IntN(len(vs))
	for _, mode := range []int{c.Rand.IntN(5), c.Rand.IntN(5)} {
		files := c04Cosmetic(vs[vi].R.Files, mode)
		img, err := c03BuildFiles(vs[vi].S, files)
		c.Eval(1)
		if err != nil {
			c.Violation("catalogue-error", fmt.Sprintf("cosmetic mode=%d", mode), "re-laid-out text does not compile: "+err.Error(), nil)
			continue
		}
		w := fmt.Sprintf("seed=%d chain=%d S%d re-laid-out (mode %d)", c.Seed, idx, vi, mode)
		c04Compare(c, img, vs[vi].Img, c04AllCfgs, "relayout", w, nil)
		c04Compare(c, vs[vi].Img, img, c04AllCfgs, "relayout", w, nil)
		c.Count("relayout_pairs", 2)
		c.Distinct("relayout_modes", fmt.Sprint(mode))
	}
	c.Nontrivial(fmt.Sprintf("chain len=%d ops=%s", len(vs)-1, strings.Join(sortedKeys(ops), ",")))
	if idx < 2 {
		var steps [][]string
		for _, v := range vs[1:] {
			steps = append(steps, v.Steps)
		}
		c.Sample(map[string]any{"schema": s0.Describe(), "chain_steps": steps})
	}
}

// laxestCategory of an operator per the pinned v1 table: how far down the hierarchy its rules reach.
func c04OpReach(op *c03Op) int {
	reach := 0
	for _, r := range op.Rules {
		for _, v := range []string{"v1", "v2"} {
			for _, cat := range c03RuleTables[v][r] {
				for i, cc := range c03Categories {
					if cc == cat && i+1 > reach {
						reach = i + 1
					}
				}
			}
		}
	}
	return reach // 1 = FILE only … 4 = down to WIRE
}

func c04Hierarchy(c *core.C, idx int) {
	s := c04Schema(c)
	r := s.Render()
	oldImg, err := c03Build(s, r)
	c.Eval(1)
	if err != nil {
		c.Count("generator_rejects", 1)
		return
	}
	oldIdx := c03Index(s)
	byReach := map[int][]*c03Op{}
	for _, op := range c03Catalogue {
		byReach[c04OpReach(op)] = append(byReach[c04OpReach(op)], op)
	}
	// the reservation-sensitive operators are where the categories differ (a deletion with the name
	// or the number reserved is clean under some categories and dirty under others): each of them is
	// also applied alone, so that no other edit of the pair masks a hole in the implication chain
	var singles []*c03Op
	for oi, op := range c03Catalogue {
		// and every other operator alone in turn (about six per case, all of them over a quick run): the rules that
		// make the categories differ are spread over the whole catalogue (type rules by kind, e.g. a delimited field)
		if strings.Contains(op.Name, "reserved") || strings.HasPrefix(op.Name, "field-type-message") || (oi+idx)%c04SingleStride == 0 {
			singles = append(singles, op)
		}
	}
	// the scalar type-change matrix, one ordered pair of kinds at a time and alone: the categories differ exactly
	// in which pairs they tolerate (wire groups vs wire+JSON groups vs identity), so a pair that one table
	// tolerates and a laxer one does not is a hole in the implication chain that mixed edits mask
	nPairsOfKinds := len(c03Scalars) * (len(c03Scalars) - 1)
	var scalarOp *c03Op
	for _, op := range c03Catalogue {
		if op.Name == "field-type-scalar-to-scalar" {
			scalarOp = op
		}
	}
	for p := 0; p < c04PairsPerHierCase+len(singles)+c04MatrixPerHierCase; p++ {
		ns := s.Clone()
		env := &c03Env{R: c.Rand, Old: oldIdx, Hint: -1}
		var applied []string
		if p >= c04PairsPerHierCase+len(singles) {
			if scalarOp == nil {
				continue
			}
			q := (idx*c04MatrixPerHierCase + p - c04PairsPerHierCase - len(singles)) % nPairsOfKinds
			from := c03Scalars[q/(len(c03Scalars)-1)]
			env.New, env.Hint = c03Index(ns), q%(len(c03Scalars)-1)
			var sites []c03Site
			for _, f := range env.New.Fields() {
				if !isWKTCopy(f.Msg.File) && f.F.Kind == "scalar" && f.F.Type == from {
					sites = append(sites, fieldSite(f))
				}
			}
			if len(sites) == 0 {
				c.Count("hierarchy_matrix_no_site", 1)
				continue
			}
			if exp := scalarOp.Apply(env, sites[c.Rand.IntN(len(sites))]); len(exp) == 0 {
				continue
			}
			applied = append(applied, "type:"+env.Tag)
			c.Count("hierarchy_matrix_pairs", 1)
			c.Distinct("hierarchy_type_pairs", env.Tag)
		}
		// stratified: aim at a reach class (0 = additive only) so that every implication meets clean antecedents
		target := c.Rand.IntN(5)
		rounds := 1 + c.Rand.IntN(3)
		if p >= c04PairsPerHierCase+len(singles) {
			rounds = 0
		} else if p >= c04PairsPerHierCase {
			rounds = 0
			op := singles[p-c04PairsPerHierCase]
			env.New = c03Index(ns)
			if sites := op.Sites(env.New); len(sites) > 0 {
				// message-typed fields with delimited (group-like) encoding are a kind of their own in the type rules
				var delimited []c03Site
				for _, st := range sites {
					if m := env.New.Msg(st.A); m != nil {
						if fl := m.Field(st.B); fl != nil {
							if _, ok := hasOpt(fl.Options, "features.message_encoding"); ok {
								delimited = append(delimited, st)
							}
						}
					}
				}
				if len(delimited) > 0 && c.Rand.IntN(2) == 0 {
					sites = delimited
					c.Count("hierarchy_single_ops_on_delimited_fields", 1)
				}
				snapshot := ns.Clone()
				if exp := op.Apply(env, sites[c.Rand.IntN(len(sites))]); len(exp) == 0 {
					ns = snapshot
				} else {
					applied = append(applied, op.Name)
					c.Count("hierarchy_single_reservation_ops", 1)
				}
			}
		}
		for k := rounds; k > 0; k-- {
			env.New = c03Index(ns)
			if target == 0 || c.Rand.IntN(3) == 0 {
				a := c04Additive[c.Rand.IntN(len(c04Additive))]
				if a.Apply(env) {
					applied = append(applied, a.Name)
				}
				continue
			}
			pool := byReach[target]
			if c.Rand.IntN(4) == 0 {
				pool = c03Catalogue
			}
			op := pool[c.Rand.IntN(len(pool))]
			sites := op.Sites(env.New)
			if len(sites) == 0 {
				continue
			}
			snapshot := ns.Clone()
			if exp := op.Apply(env, sites[c.Rand.IntN(len(sites))]); len(exp) == 0 {
				ns = snapshot // a declined operator may have left a partial edit behind
				continue
			}
			applied = append(applied, op.Name)
		}
		if len(applied) == 0 {
			continue
		}
		newImg, err := c03Build(ns, ns.Render())
		c.Eval(1)
		if err != nil {
			c.Count("pair_not_buildable", 1)
			continue
		}
		where := fmt.Sprintf("seed=%d case=%d pair=%d edits=%v", c.Seed, idx, p, applied)
		for _, v := range c03Versions {
			pattern := ""
			dirtyRules := map[string][]string{}
			failed := false
			for _, cat := range c03Categories {
				anns, err := c03Breaking(c03Cfg{v, cat}, newImg, oldImg)
				c.Eval(1)
				if err != nil {
					c.Violation("breaking-error", fmt.Sprintf("hierarchy cfg=%s/%s", v, cat), fmt.Sprintf("operational error: %v [%s]", err, where), nil)
					failed = true
					break
				}
				if len(anns) == 0 {
					pattern += "-"
				} else {
					pattern += cat[:1]
					if cat == "WIRE_JSON" {
						pattern = pattern[:len(pattern)-1] + "J"
					}
					seen := map[string]bool{}
					for _, a := range anns {
						if !seen[a.Rule] {
							seen[a.Rule] = true
							dirtyRules[cat] = append(dirtyRules[cat], a.Rule)
						}
					}
				}
			}
			if failed {
				continue
			}
			c.Count("hierarchy_pairs", 1)
			c.Count("hier:"+pattern, 1)
			c.Distinct("hierarchy_patterns", v+":"+pattern)
			for i := 0; i+1 < len(c03Categories); i++ {
				strict, lax := c03Categories[i], c03Categories[i+1]
				if pattern[i] == '-' {
					c.Count("implication_nonvacuous:"+strict+"=>"+lax, 1)
					if pattern[i+1] != '-' {
						c.Violation("hierarchy", fmt.Sprintf("version=%s %s-clean-but-%s-dirty rule=%s", v, strict, lax, dirtyRules[lax][0]),
							fmt.Sprintf("clean under %s but %s reports %v (pattern %s over FILE,PACKAGE,WIRE_JSON,WIRE) [%s]", strict, lax, dirtyRules[lax], pattern, where), nil)
					}
				}
			}
		}
		c.Nontrivial("hier edits=" + strings.Join(applied, "+"))
	}
}

func c04Run(c *core.C, idx int) {
	if n := c04Chains(c.Tier); idx < n {
		c04Chain(c, idx)
	} else {
		c04Hierarchy(c, idx-n)
	}
}

func init() {
	core.Register(&core.Check{
		ID:    "C04",
		Level: "exploration",
		Rule: "chains S0→…→S6 over PRNG-generated (enriched) schemas, each step 1–3 operators of the additive set (new file in an existing / a new package, top-level and nested message and enum, service, RPC, field, oneof of new fields, field in an existing oneof, enum value, reserved range / name for messages and enums, unused import, comment edits), every number and name fresh in the edited and in the previous version; " +
			"each Si vs every earlier Sj and vs itself (quick: 4 rotating of the 15 configurations per pair, all 15 for S6/S0 and S0/S0; thorough: all), plus two text-level re-layouts (tabs, blank lines, comments stripped, block comments, trailing spaces) of one version vs the original in both directions under all 15 configurations (4 categories + default × v1beta1/v1/v2); result must be empty. " +
			"Hierarchy: 10 pairs per case from 1–3 edits mixing the C03 catalogue (stratified by how far down the categories the operator's rules reach) and additive operators; the four categories run per version and clean(FILE)⇒clean(PACKAGE)⇒clean(WIRE_JSON)⇒clean(WIRE) asserted. " +
			"distinct/non-trivial = distinct chains by operator set + distinct hierarchy edit mixes; hier:<pattern> counts pairs per dirtiness pattern, implication_nonvacuous:<A=>B> counts pairs whose antecedent held",
		Assumptions: []string{
			"'adds things' is read as: the added element's number and name are unused (also not reserved, not inside an extension range) in both versions; new fields are never required; adding a field to an existing oneof counts as adding a non-required field",
			"re-layout is text-level on the canonical rendering (one declaration per line); token-level reformatting by `buf format` is C07's subject",
			"pairs whose edited version does not compile are outside the domain (counted)",
		},
		Cases: func(tier string) int { return c04Chains(tier) + c04HierCases(tier) },
		Run:   c04Run,
		Required: []string{"cases_under_lowered_parallelism", "hierarchy_single_reservation_ops", "hierarchy_matrix_pairs", "chain_pairs", "self_pairs", "relayout_pairs", "hierarchy_pairs", "hier:----", "hier:F---", "hier:FP--", "hier:FPJ-", "hier:FPJW",
			"implication_nonvacuous:FILE=>PACKAGE", "implication_nonvacuous:PACKAGE=>WIRE_JSON", "implication_nonvacuous:WIRE_JSON=>WIRE", "additive_operators"},
	})
}
