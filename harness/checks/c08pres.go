package checks

import (
	"bytes"
	"context"
	"errors"
	"fmt"
	"os"
	"path"
	"path/filepath"
	"sort"
	"sync/atomic"

	"github.com/bufbuild/buf/private/bufpkg/bufcas"
	"github.com/bufbuild/buf/private/bufpkg/bufmodule"
	"github.com/bufbuild/buf/private/bufpkg/bufmodule/bufmodulecache"
	"github.com/bufbuild/buf/private/bufpkg/bufmodule/bufmodulestore"
	"github.com/bufbuild/buf/private/bufpkg/bufmodule/bufmoduletesting"
	"github.com/bufbuild/buf/private/bufpkg/bufparse"
	"github.com/bufbuild/buf/private/pkg/filelock"
	"github.com/bufbuild/buf/private/pkg/slogext"
	"github.com/bufbuild/buf/private/pkg/storage"
	"github.com/bufbuild/buf/private/pkg/storage/storagearchive"
	"github.com/bufbuild/buf/private/pkg/storage/storagemem"
	"github.com/bufbuild/buf/private/pkg/storage/storageos"
	"github.com/bufbuild/verifharness/core"
	"github.com/bufbuild/verifharness/model"
	"github.com/google/uuid"
)

// Presentations of one universe: a storage backend per module bucket × a "frame" (how the module
// set is assembled: names, targeting, locality, cache).

type c08Env struct {
	c    *core.C
	ctx  context.Context
	dir  string
	uniq int
}

func (e *c08Env) tmpDir(label string) (string, error) {
	e.uniq++
	d := filepath.Join(e.dir, fmt.Sprintf("%s-%d", label, e.uniq))
	return d, os.MkdirAll(d, 0o755)
}

type c08Backend struct {
	name string
	mk   func(e *c08Env, label string, files map[string][]byte) (storage.ReadBucket, error)
}

// c08OrderBucket replays Walk in a permuted order.
type c08OrderBucket struct {
	storage.ReadBucket
	perm func(n int) []int
}

func (b *c08OrderBucket) Walk(ctx context.Context, prefix string, f func(storage.ObjectInfo) error) error {
	var infos []storage.ObjectInfo
	if err := b.ReadBucket.Walk(ctx, prefix, func(oi storage.ObjectInfo) error {
		infos = append(infos, oi)
		return nil
	}); err != nil {
		return err
	}
	for _, i := range b.perm(len(infos)) {
		if err := f(infos[i]); err != nil {
			return err
		}
	}
	return nil
}

func c08SortedPaths(files map[string][]byte) []string {
	ps := make([]string, 0, len(files))
	for p := range files {
		ps = append(ps, p)
	}
	sort.Strings(ps)
	return ps
}

func c08MemRW(e *c08Env, files map[string][]byte) (storage.ReadWriteBucket, error) {
	b := storagemem.NewReadWriteBucket()
	ps := c08SortedPaths(files)
	e.c.Rand.Shuffle(len(ps), func(i, j int) { ps[i], ps[j] = ps[j], ps[i] })
	for _, p := range ps {
		if err := storage.PutPath(e.ctx, b, p, files[p]); err != nil {
			return nil, err
		}
	}
	return b, nil
}

func c08Disk(symlinks bool) func(e *c08Env, label string, files map[string][]byte) (storage.ReadBucket, error) {
	return func(e *c08Env, label string, files map[string][]byte) (storage.ReadBucket, error) {
		d, err := e.tmpDir("disk-" + label)
		if err != nil {
			return nil, err
		}
		for p, data := range files {
			full := filepath.Join(d, filepath.FromSlash(p))
			if err := os.MkdirAll(filepath.Dir(full), 0o755); err != nil {
				return nil, err
			}
			if err := os.WriteFile(full, data, 0o644); err != nil {
				return nil, err
			}
		}
		if symlinks {
			return storageos.NewProvider(storageos.ProviderWithSymlinks()).NewReadWriteBucket(d, storageos.ReadWriteBucketWithSymlinksIfSupported())
		}
		return storageos.NewProvider().NewReadWriteBucket(d)
	}
}

var c08Backends = []c08Backend{
	{"mem", func(e *c08Env, label string, files map[string][]byte) (storage.ReadBucket, error) {
		return storagemem.NewReadBucket(files)
	}},
	{"mem-rw", func(e *c08Env, label string, files map[string][]byte) (storage.ReadBucket, error) {
		return c08MemRW(e, files)
	}},
	{"disk", c08Disk(false)},
	{"disk+symlinks", c08Disk(true)},
	{"tar", func(e *c08Env, label string, files map[string][]byte) (storage.ReadBucket, error) {
		src, err := storagemem.NewReadBucket(files)
		if err != nil {
			return nil, err
		}
		var buf bytes.Buffer
		if err := storagearchive.Tar(e.ctx, src, &buf); err != nil {
			return nil, err
		}
		dst := storagemem.NewReadWriteBucket()
		if err := storagearchive.Untar(e.ctx, bytes.NewReader(buf.Bytes()), dst); err != nil {
			return nil, err
		}
		return dst, nil
	}},
	{"zip", func(e *c08Env, label string, files map[string][]byte) (storage.ReadBucket, error) {
		src, err := storagemem.NewReadBucket(files)
		if err != nil {
			return nil, err
		}
		var buf bytes.Buffer
		if err := storagearchive.Zip(e.ctx, src, &buf, e.c.Rand.IntN(2) == 0); err != nil {
			return nil, err
		}
		dst := storagemem.NewReadWriteBucket()
		if err := storagearchive.Unzip(e.ctx, bytes.NewReader(buf.Bytes()), int64(buf.Len()), dst); err != nil {
			return nil, err
		}
		return dst, nil
	}},
	{"shuffled-walk", func(e *c08Env, label string, files map[string][]byte) (storage.ReadBucket, error) {
		src, err := storagemem.NewReadBucket(files)
		if err != nil {
			return nil, err
		}
		r := core.RandFor(e.c.Seed, "C08", e.c.Idx, "shuffle-"+label)
		return &c08OrderBucket{ReadBucket: src, perm: func(n int) []int { return r.Perm(n) }}, nil
	}},
	{"reversed-walk", func(e *c08Env, label string, files map[string][]byte) (storage.ReadBucket, error) {
		src, err := storagemem.NewReadBucket(files)
		if err != nil {
			return nil, err
		}
		return &c08OrderBucket{ReadBucket: src, perm: func(n int) []int {
			p := make([]int, n)
			for i := range p {
				p[i] = n - 1 - i
			}
			return p
		}}, nil
	}},
	{"prefix-mapped", func(e *c08Env, label string, files map[string][]byte) (storage.ReadBucket, error) {
		all := map[string][]byte{
			"ws/junk.proto":                []byte("outside"),
			"ws/" + label + "x/junk.proto": []byte("outside"),
			"ws/LICENSE":                   []byte("outside"),
			"LICENSE":                      []byte("outside"),
			"buf.md":                       []byte("outside"),
		}
		for p, d := range files {
			all["ws/"+label+"/"+p] = d
		}
		src, err := storagemem.NewReadBucket(all)
		if err != nil {
			return nil, err
		}
		return storage.MapReadBucket(src, storage.MapOnPrefix("ws/"+label)), nil
	}},
	{"storage-copy", func(e *c08Env, label string, files map[string][]byte) (storage.ReadBucket, error) {
		src, err := storagemem.NewReadBucket(files)
		if err != nil {
			return nil, err
		}
		dst := storagemem.NewReadWriteBucket()
		if _, err := storage.Copy(e.ctx, src, dst); err != nil {
			return nil, err
		}
		return dst, nil
	}},
	{"cas-fileset", func(e *c08Env, label string, files map[string][]byte) (storage.ReadBucket, error) {
		src, err := storagemem.NewReadBucket(files)
		if err != nil {
			return nil, err
		}
		fs, err := bufcas.NewFileSetForBucket(e.ctx, src)
		if err != nil {
			return nil, err
		}
		dst := storagemem.NewReadWriteBucket()
		if err := bufcas.PutFileSetToBucket(e.ctx, fs, dst); err != nil {
			return nil, err
		}
		return dst, nil
	}},
}

type c08Frame struct {
	name string
	kind int
}

const (
	c08FrameLocal = iota
	c08FrameNamed
	c08FrameOtherNames
	c08FrameOneTarget
	c08FramePathTargets
	c08FrameRetargeted
	c08FrameStripped
	c08FrameExtra
	c08FrameRemoteOmni
	c08FrameCacheDir
	c08FrameCacheTar
	c08FrameMixed
)

var c08Frames = []c08Frame{
	{"local-all-targets", c08FrameLocal},
	{"named+commits", c08FrameNamed},
	{"other-names", c08FrameOtherNames},
	{"one-target-shuffled-add-order", c08FrameOneTarget},
	{"path-targeting", c08FramePathTargets},
	{"retargeted-copy", c08FrameRetargeted},
	{"non-module-files-stripped", c08FrameStripped},
	{"extra-non-module-files", c08FrameExtra},
	{"remote-omni", c08FrameRemoteOmni},
	{"remote-cache-dir", c08FrameCacheDir},
	{"remote-cache-tar", c08FrameCacheTar},
	{"mixed-local-remote", c08FrameMixed},
}

type c08Digests struct {
	b5, b4    []string
	cacheHits int
	remote    int
}

func c08UUID(e *c08Env) uuid.UUID {
	var b [16]byte
	for i := range b {
		b[i] = byte(e.c.Rand.IntN(256))
	}
	b[6] = (b[6] & 0x0f) | 0x40
	b[8] = (b[8] & 0x3f) | 0x80
	return uuid.UUID(b)
}

type c08CountingProvider struct {
	bufmodule.ModuleDataProvider
	calls atomic.Int64
}

func (p *c08CountingProvider) GetModuleDatasForModuleKeys(ctx context.Context, keys []bufmodule.ModuleKey) ([]bufmodule.ModuleData, error) {
	p.calls.Add(int64(len(keys)))
	return p.ModuleDataProvider.GetModuleDatasForModuleKeys(ctx, keys)
}

func c08ReadDigests(mod bufmodule.Module) (string, string, error) {
	if mod == nil {
		return "", "", errors.New("module not found in the built module set")
	}
	d5, err := mod.Digest(bufmodule.DigestTypeB5)
	if err != nil {
		return "", "", fmt.Errorf("Digest(b5): %w", err)
	}
	d4, err := mod.Digest(bufmodule.DigestTypeB4)
	if err != nil {
		return "", "", fmt.Errorf("Digest(b4): %w", err)
	}
	// a second call must agree (memoised or not)
	d5b, err := mod.Digest(bufmodule.DigestTypeB5)
	if err != nil || d5b.String() != d5.String() {
		return "", "", fmt.Errorf("second Digest(b5) call: %v, err=%v; first %v", d5b, err, d5)
	}
	return d5.String(), d4.String(), nil
}

// digests builds the universe under one presentation and returns every module's digests.
func (e *c08Env) digests(u *c08Universe, b c08Backend, f c08Frame) (*c08Digests, error) {
	c := e.c
	n := len(u.Mods)
	out := &c08Digests{b5: make([]string, n), b4: make([]string, n)}
	e.uniq++
	gen := e.uniq

	fileSets := make([]map[string][]byte, n)
	for i, m := range u.Mods {
		files := m.files()
		switch f.kind {
		case c08FrameStripped:
			files = model.ModuleFiles(files)
		case c08FrameExtra:
			for _, p := range []string{"extra.txt", "extra/README.md", "extra/LICENSE", "Extra.Proto", "buf.yaml"} {
				if _, ok := files[p]; !ok {
					files[p] = []byte(fmt.Sprintf("extra %d %d", i, c.Rand.IntN(1000)))
				}
			}
		}
		fileSets[i] = files
	}
	buckets := make([]storage.ReadBucket, n)
	for i := range u.Mods {
		rb, err := b.mk(e, fmt.Sprintf("g%dm%d", gen, i), fileSets[i])
		if err != nil {
			return nil, fmt.Errorf("backend %s module %d: %w", b.name, i, err)
		}
		buckets[i] = rb
	}

	names := make([]bufparse.FullName, n)
	commits := make([]uuid.UUID, n)
	needNames := f.kind == c08FrameNamed || f.kind == c08FrameOtherNames || f.kind >= c08FrameRemoteOmni
	if needNames {
		for i := range u.Mods {
			var err error
			if f.kind == c08FrameOtherNames {
				names[i], err = bufparse.NewFullName("example.com", fmt.Sprintf("owner%d", c.Rand.IntN(1000)), fmt.Sprintf("zz%d-%d", n-i, i))
			} else {
				names[i], err = bufparse.NewFullName("buf.build", "acme", fmt.Sprintf("m%d", i))
			}
			if err != nil {
				return nil, err
			}
			if f.kind != c08FrameOtherNames || c.Rand.IntN(2) == 0 {
				commits[i] = c08UUID(e)
			}
		}
	}
	bucketID := func(i int) string {
		if f.kind == c08FrameOneTarget {
			return fmt.Sprintf("some/dir %d/x", n-i)
		}
		return fmt.Sprintf("m%d", i)
	}

	if f.kind < c08FrameRemoteOmni {
		target := c.Rand.IntN(n)
		order := make([]int, n)
		for i := range order {
			order[i] = i
		}
		if f.kind == c08FrameOneTarget || f.kind == c08FramePathTargets {
			c.Rand.Shuffle(n, func(i, j int) { order[i], order[j] = order[j], order[i] })
		}
		builder := bufmodule.NewModuleSetBuilder(e.ctx, slogext.NopLogger, bufmodule.NopModuleDataProvider, bufmodule.NopCommitProvider)
		for _, i := range order {
			var opts []bufmodule.LocalModuleOption
			if names[i] != nil {
				if commits[i] != uuid.Nil {
					opts = append(opts, bufmodule.LocalModuleWithFullNameAndCommitID(names[i], commits[i]))
				} else {
					opts = append(opts, bufmodule.LocalModuleWithFullName(names[i]))
				}
			}
			isTarget := true
			switch f.kind {
			case c08FrameOneTarget:
				isTarget = i == target
				opts = append(opts, bufmodule.LocalModuleWithDescription(fmt.Sprintf("description of %d", i)))
			case c08FramePathTargets:
				isTarget = i == target || c.Rand.IntN(2) == 0
				if isTarget {
					protos := u.Mods[i].Protos
					p := protos[c.Rand.IntN(len(protos))].Path
					if c.Rand.IntN(2) == 0 {
						opts = append(opts, bufmodule.LocalModuleWithProtoFileTargetPath(p, c.Rand.IntN(2) == 0))
					} else {
						tp := p
						if d := path.Dir(p); d != "." && c.Rand.IntN(2) == 0 {
							tp = d
						}
						var ex []string
						if q := protos[c.Rand.IntN(len(protos))].Path; q != p && c.Rand.IntN(2) == 0 {
							ex = append(ex, q)
						}
						opts = append(opts, bufmodule.LocalModuleWithTargetPaths([]string{tp}, ex))
					}
				}
			}
			builder.AddLocalModule(buckets[i], bucketID(i), isTarget, opts...)
		}
		ms, err := builder.Build()
		if err != nil {
			return nil, fmt.Errorf("Build: %w", err)
		}
		if f.kind == c08FrameRetargeted {
			ms, err = ms.WithTargetOpaqueIDs(ms.GetModuleForBucketID(bucketID(target)).OpaqueID())
			if err != nil {
				return nil, fmt.Errorf("WithTargetOpaqueIDs: %w", err)
			}
		}
		for i := range u.Mods {
			out.b5[i], out.b4[i], err = c08ReadDigests(ms.GetModuleForBucketID(bucketID(i)))
			if err != nil {
				return nil, fmt.Errorf("module %d: %w", i, err)
			}
		}
		return out, nil
	}

	// remote frames: an OmniProvider plays the registry
	datas := make([]bufmoduletesting.ModuleData, n)
	for i := range u.Mods {
		datas[i] = bufmoduletesting.ModuleData{Name: names[i].String(), CommitID: commits[i], Bucket: buckets[i]}
	}
	omni, err := bufmoduletesting.NewOmniProvider(datas...)
	if err != nil {
		return nil, fmt.Errorf("NewOmniProvider: %w", err)
	}
	keys := make([]bufmodule.ModuleKey, n)
	for i := range u.Mods {
		mod := omni.GetModuleForFullName(names[i])
		if mod == nil {
			return nil, fmt.Errorf("omni: module %d missing", i)
		}
		keys[i], err = bufmodule.ModuleToModuleKey(mod, bufmodule.DigestTypeB5)
		if err != nil {
			return nil, err
		}
	}
	counting := &c08CountingProvider{ModuleDataProvider: omni}
	var provider bufmodule.ModuleDataProvider = counting
	rounds := 1
	switch f.kind {
	case c08FrameCacheDir:
		d, err := e.tmpDir("cache")
		if err != nil {
			return nil, err
		}
		cb, err := storageos.NewProvider().NewReadWriteBucket(d)
		if err != nil {
			return nil, err
		}
		provider = bufmodulecache.NewModuleDataProvider(slogext.NopLogger, counting, bufmodulestore.NewModuleDataStore(slogext.NopLogger, cb, filelock.NewNopLocker()))
		rounds = 2
	case c08FrameCacheTar:
		provider = bufmodulecache.NewModuleDataProvider(slogext.NopLogger, counting,
			bufmodulestore.NewModuleDataStore(slogext.NopLogger, storagemem.NewReadWriteBucket(), filelock.NewNopLocker(), bufmodulestore.ModuleDataStoreWithTar()))
		rounds = 2
	}
	split := 0 // modules < split are remote
	if f.kind == c08FrameMixed {
		split = c.Rand.IntN(n + 1)
	} else {
		split = n
	}
	var prev *c08Digests
	for round := 0; round < rounds; round++ {
		before := counting.calls.Load()
		builder := bufmodule.NewModuleSetBuilder(e.ctx, slogext.NopLogger, provider, omni)
		target := c.Rand.IntN(n)
		for i := range u.Mods {
			if i < split {
				builder.AddRemoteModule(keys[i], i == target || c.Rand.IntN(2) == 0)
			} else {
				builder.AddLocalModule(buckets[i], bucketID(i), true, bufmodule.LocalModuleWithFullNameAndCommitID(names[i], commits[i]))
			}
		}
		ms, err := builder.Build()
		if err != nil {
			return nil, fmt.Errorf("Build (round %d): %w", round, err)
		}
		cur := &c08Digests{b5: make([]string, n), b4: make([]string, n)}
		for i := range u.Mods {
			mod := ms.GetModuleForFullName(names[i])
			if mod != nil && mod.IsLocal() != (i >= split) {
				return nil, fmt.Errorf("module %d: IsLocal=%v in frame %s split=%d", i, mod.IsLocal(), f.name, split)
			}
			cur.b5[i], cur.b4[i], err = c08ReadDigests(mod)
			if err != nil {
				return nil, fmt.Errorf("module %d (round %d): %w", i, round, err)
			}
		}
		if round == 1 {
			if counting.calls.Load() == before {
				cur.cacheHits = split
			}
			for i := range u.Mods {
				if prev.b5[i] != cur.b5[i] || prev.b4[i] != cur.b4[i] {
					c.Violation("digest-differs-across-presentations", "pres="+b.name+"/"+f.name+" cache-miss-vs-hit",
						fmt.Sprintf("module %d: first fetch b5=%s b4=%s, read back from the cache b5=%s b4=%s\n%s", i, prev.b5[i], prev.b4[i], cur.b5[i], cur.b4[i], c08Describe(u)), nil)
				}
			}
		}
		prev = cur
	}
	prev.remote = split
	return prev, nil
}
