package checks

import (
	"context"
	"encoding/json"
	"fmt"
	"math/rand/v2"
	"os"
	"path"
	"path/filepath"
	"sort"
	"strings"

	"buf.build/go/bufplugin/check"
	"buf.build/go/bufplugin/check/checkutil"
	"github.com/bufbuild/buf/private/bufpkg/bufcheck"
	"github.com/bufbuild/buf/private/bufpkg/bufconfig"
	"github.com/bufbuild/buf/private/bufpkg/bufimage"
	"github.com/bufbuild/verifharness/core"
	"github.com/bufbuild/verifharness/gen"
	"github.com/bufbuild/verifharness/run"
	"google.golang.org/protobuf/reflect/protoreflect"
	"pluginrpc.com/pluginrpc"
)

// C06 — rule selection and suppression compose set-theoretically.
//
// Per case: one generated workspace made dirty with many simultaneous catalogue plants (in target
// and in import-only files), comment directives placed on offending elements, on enclosing
// declarations, on unrelated siblings and on package statements; one config version.
// Oracle, per module image:
//   B(r)    = what `use:[r]` alone reports (real code, comment ignores off), once per rule;
//   sel(c)  = rulesmodel over the pinned tables (+ the in-process plugin's own spec);
//   supp(c) = ignore / ignore_only paths, and (comment ignores allowed) a leading-comment line
//             that starts with "buf:lint:ignore <rule ID>" on the declaration the annotation points
//             into or on an enclosing message/enum/service;
//   R(c) must equal ⋃_{r∈sel(c)} B(r) ∖ supp(c); ConfiguredRules(c) must equal sel(c); an unknown ID
//   must be rejected; no annotation may lie in an import-only file (breaking: under
//   BreakingWithExcludeImports); adding one suppression must only remove annotations in its scope.

// ---- the in-process check plugin (so that multi_client splits requests over two delegates) ----

const (
	c06PluginName       = "buf-plugin-verif"
	c06PluginLintRule   = "VERIF_FIELD_NO_TMP"
	c06PluginLintRule2  = "VERIF_MESSAGE_NO_SCRATCH"
	c06PluginDeprecated = "VERIF_FIELD_NO_TEMP"
	c06PluginCategory   = "VERIF_PLUGIN"
	c06PluginBreaking   = "VERIF_FIELD_SAME_NAME_STRICT"
)

var c06PluginSpec = &check.Spec{
	Rules: []*check.RuleSpec{
		{
			ID: c06PluginLintRule, Default: true, CategoryIDs: []string{c06PluginCategory}, Type: check.RuleTypeLint,
			Purpose: "Checks that no field name starts with tmp_.",
			Handler: checkutil.NewFieldRuleHandler(func(_ context.Context, w check.ResponseWriter, _ check.Request, fd protoreflect.FieldDescriptor) error {
				if strings.HasPrefix(string(fd.Name()), "tmp_") {
					w.AddAnnotation(check.WithDescriptor(fd), check.WithMessagef("Field %q must not start with tmp_.", fd.Name()))
				}
				return nil
			}, checkutil.WithoutImports()),
		},
		{
			ID: c06PluginLintRule2, Default: false, CategoryIDs: []string{c06PluginCategory}, Type: check.RuleTypeLint,
			Purpose: "Checks that no message name ends with Scratch.",
			Handler: checkutil.NewMessageRuleHandler(func(_ context.Context, w check.ResponseWriter, _ check.Request, md protoreflect.MessageDescriptor) error {
				if strings.HasSuffix(string(md.Name()), "Scratch") {
					w.AddAnnotation(check.WithDescriptor(md), check.WithMessagef("Message %q must not end with Scratch.", md.Name()))
				}
				return nil
			}, checkutil.WithoutImports()),
		},
		{
			ID: c06PluginDeprecated, Deprecated: true, ReplacementIDs: []string{c06PluginLintRule}, Type: check.RuleTypeLint,
			Purpose: "Checks that no field name starts with tmp_ (old name).",
			Handler: check.RuleHandlerFunc(func(context.Context, check.ResponseWriter, check.Request) error { return nil }),
		},
		{
			ID: c06PluginBreaking, Default: true, CategoryIDs: []string{c06PluginCategory}, Type: check.RuleTypeBreaking,
			Purpose: "Checks that fields keep their names.",
			Handler: checkutil.NewFieldPairRuleHandler(func(_ context.Context, w check.ResponseWriter, _ check.Request, fd, against protoreflect.FieldDescriptor) error {
				if fd.Name() != against.Name() {
					w.AddAnnotation(check.WithDescriptor(fd), check.WithAgainstDescriptor(against), check.WithMessagef("Field %d changed name from %q to %q.", fd.Number(), against.Name(), fd.Name()))
				}
				return nil
			}),
		},
	},
	Categories: []*check.CategorySpec{{ID: c06PluginCategory, Purpose: "Checks of the verification plugin."}},
}

// c06PluginRules is the plugin's part of the rules model (written from the spec above).
func c06PluginRules() ([]c06Rule, []c06Category) {
	return []c06Rule{
			{ID: c06PluginLintRule, Type: "lint", Categories: []string{c06PluginCategory}, Default: true},
			{ID: c06PluginLintRule2, Type: "lint", Categories: []string{c06PluginCategory}},
			{ID: c06PluginDeprecated, Type: "lint", Categories: []string{}, Deprecated: true, Replacements: []string{c06PluginLintRule}},
			{ID: c06PluginBreaking, Type: "breaking", Categories: []string{c06PluginCategory}, Default: true},
		},
		[]c06Category{{ID: c06PluginCategory}}
}

func (t *c06Table) withPlugin() *c06Table {
	out := &c06Table{Version: t.Version}
	out.Rules = append(out.Rules, t.Rules...)
	out.Categories = append(out.Categories, t.Categories...)
	rs, cs := c06PluginRules()
	out.Rules = append(out.Rules, rs...)
	out.Categories = append(out.Categories, cs...)
	sort.Slice(out.Rules, func(i, j int) bool {
		if out.Rules[i].Type != out.Rules[j].Type {
			return out.Rules[i].Type > out.Rules[j].Type
		}
		return out.Rules[i].ID < out.Rules[j].ID
	})
	sort.Slice(out.Categories, func(i, j int) bool { return out.Categories[i].ID < out.Categories[j].ID })
	return out
}

func c06NewClientWithPlugin() (bufcheck.Client, bufconfig.PluginConfig, error) {
	server, err := check.NewServer(c06PluginSpec)
	if err != nil {
		return nil, nil, err
	}
	runner := pluginrpc.NewServerRunner(server)
	client, err := bufcheck.NewClient(c09Logger, bufcheck.RunnerProviderFunc(func(bufconfig.PluginConfig) (pluginrpc.Runner, error) { return runner, nil }))
	if err != nil {
		return nil, nil, err
	}
	pc, err := bufconfig.NewLocalPluginConfig(c06PluginName, nil, []string{c06PluginName})
	if err != nil {
		return nil, nil, err
	}
	return client, pc, nil
}

// ---- comment directives: placement knowledge -----------------------------------------------------

const c06DirectivePrefix = "buf:lint:ignore"

type c06Scope struct {
	r     *gen.Rendered
	lines map[string][]string
}

func newC06Scope(s *gen.Schema, r *gen.Rendered) *c06Scope {
	sc := &c06Scope{r: r, lines: map[string][]string{}}
	for _, m := range s.Modules {
		for p, text := range r.Files[m.Dir] {
			sc.lines[p] = strings.Split(text, "\n")
		}
	}
	return sc
}

// commentLines returns the trimmed lines of the leading comment written before the span.
func (sc *c06Scope) commentLines(sp *gen.Span) []string {
	if sp.CommentLine == 0 {
		return nil
	}
	var out []string
	ls := sc.lines[sp.File]
	for l := sp.CommentLine; l < sp.StartLine && l-1 < len(ls); l++ {
		t := strings.TrimSpace(ls[l-1])
		t = strings.TrimSpace(strings.TrimPrefix(t, "//"))
		if t != "" {
			out = append(out, t)
		}
	}
	return out
}

// chain: the declaration the position lies in, and every enclosing message / enum / service.
func (sc *c06Scope) chain(file string, line int) []*gen.Span {
	inner := sc.r.Innermost(file, line)
	if inner == nil {
		return nil
	}
	out := []*gen.Span{inner}
	for _, sp := range sc.r.Spans {
		if sp == inner || sp.File != file {
			continue
		}
		switch sp.Kind {
		case "message", "enum", "service":
			if sp.StartLine <= inner.StartLine && sp.EndLine >= inner.EndLine {
				out = append(out, sp)
			}
		}
	}
	return out
}

func c06HasLocation(a lintAnn) bool {
	return a.Line > 0 && !(a.Line == a.EndLine && a.Col == a.EndCol)
}

// suppressedByComment: documented semantics — a line of the leading comment of the declaration
// (or of an enclosing one) that starts with "buf:lint:ignore " + the rule ID.
func (sc *c06Scope) suppressedByComment(a lintAnn) bool {
	if !c06HasLocation(a) {
		return false
	}
	for _, sp := range sc.chain(a.Path, a.Line) {
		for _, l := range sc.commentLines(sp) {
			if strings.HasPrefix(l, c06DirectivePrefix+" "+a.Rule) {
				return true
			}
		}
	}
	return false
}

// ---- dirty workspaces -------------------------------------------------------------------------------

// plants that compose: each edits one element (or file) and leaves the rest of the schema alone
var c06ComposablePlants = []string{
	"message-snake-case", "message-camel-case", "enum-snake-case", "enum-camel-case", "service-camel-case", "service-snake-case",
	"rpc-camel-case", "rpc-snake-case", "field-camel-case", "field-upper-case", "oneof-camel-case", "oneof-upper-case",
	"enum-value-lower-case", "enum-value-zero-lower-case", "enum-value-no-prefix", "enum-zero-value-suffix", "enum-first-value-nonzero", "enum-allow-alias",
	"service-no-suffix", "rpc-request-nonstandard-name", "rpc-response-nonstandard-name", "rpc-same-request-two-rpcs",
	"rpc-client-streaming", "rpc-server-streaming", "field-required-proto2", "field-required-editions", "field-named-descriptor",
	"comment-message-removed", "comment-message-directive-only", "comment-enum-removed", "comment-enum-value-removed", "comment-field-removed", "comment-field-directive-only",
	"comment-service-removed", "comment-rpc-removed", "comment-oneof-removed", "comment-field-blank",
	"file-upper-case-name", "syntax-unspecified", "import-unused-wkt", "import-unused-local", "import-public",
	"package-no-version", "package-upper-case", "file-moved-to-own-directory", "directory-second-package-new-file", "package-undefined-new-file",
	"package-option-differs-go-package", "package-option-one-sided-java-package", "package-import-cycle", "stable-package-imports-unstable",
}

type c06Dirty struct {
	S       *gen.Schema
	R       *gen.Rendered
	Applied []string
}

func c06AllTargetsImage(ctx context.Context, s *gen.Schema, r *gen.Rendered) error {
	_, err := c05ModuleImage(ctx, s, r, -1, nil)
	return err
}

// c06MakeDirty applies up to n composable plants and plugin-specific renames; every step is kept
// only if the workspace still compiles.
func c06MakeDirty(ctx context.Context, c *core.C, s *gen.Schema, table *c06Table, n int) *c06Dirty {
	plants, _ := c05Plants()
	byID := map[string]*c05Plant{}
	for _, p := range plants {
		byID[p.Spec.ID] = p
	}
	cur := s
	var applied []string
	try := func(id string, edit func(x *c05Ctx) bool) {
		x := &c05Ctx{S: cur.Clone(), Version: table.Version, Table: table, Rand: c.Rand}
		x.n = len(applied) * 10
		if !edit(x) {
			return
		}
		if err := c06AllTargetsImage(ctx, x.S, x.S.Render()); err != nil {
			c.Count("dirty_steps_rejected_by_compiler", 1)
			return
		}
		cur = x.S
		applied = append(applied, id)
	}
	for i := 0; i < n; i++ {
		switch k := c.Rand.IntN(10); {
		case k == 0:
			try("plugin-tmp-field", func(x *c05Ctx) bool {
				es := c05Elems(x.S, func(e *c05Elem) bool { return e.Kind == "field" && e.Field.Kind != "group" })
				if len(es) == 0 {
					return false
				}
				es[x.Rand.IntN(len(es))].Field.Name = fmt.Sprintf("tmp_value_%d", x.fresh())
				return true
			})
		case k == 1:
			try("plugin-scratch-message", func(x *c05Ctx) bool {
				rt := rpcTypes(x.S)
				es := c05Elems(x.S, func(e *c05Elem) bool {
					return e.Kind == "message" && !rt[joinName(e.Scope, e.Msg.Name)] && !declaresOptionExtension(e.Msg)
				})
				if len(es) == 0 {
					return false
				}
				renameMessage(x, es[x.Rand.IntN(len(es))], fmt.Sprintf("Probe%dScratch", x.fresh()))
				return true
			})
		default:
			id := c06ComposablePlants[c.Rand.IntN(len(c06ComposablePlants))]
			p := byID[id]
			if p == nil {
				continue
			}
			try(id, func(x *c05Ctx) bool {
				sites := p.Sites(x)
				if len(sites) == 0 {
					return false
				}
				sites[x.Rand.IntN(len(sites))].Apply(x)
				// options are fixed per case: plants that rely on an option are not in the list
				return true
			})
		}
	}
	return &c06Dirty{S: cur, R: cur.Render(), Applied: applied}
}

// c06SetComment appends a directive line to the leading comment of the declaration with the span key.
func c06SetComment(s *gen.Schema, key, line string) bool {
	add := func(c *string) {
		if *c == "" {
			*c = line
		} else {
			*c = *c + "\n" + line
		}
	}
	kind, name, _ := strings.Cut(key, ":")
	switch kind {
	case "package":
		if f := s.FileByPath(name); f != nil && f.Package != "" {
			add(&f.PackageComment)
			return true
		}
		return false
	case "import":
		for _, f := range s.AllFiles() {
			if strings.HasPrefix(name, f.Path+":") {
				if f.ImportComments == nil {
					f.ImportComments = map[string]string{}
				}
				p := strings.TrimPrefix(name, f.Path+":")
				cm := f.ImportComments[p]
				add(&cm)
				f.ImportComments[p] = cm
				return true
			}
		}
		return false
	case "option":
		for _, f := range s.AllFiles() {
			if strings.HasPrefix(name, f.Path+":") {
				if f.OptionComments == nil {
					f.OptionComments = map[string]string{}
				}
				o := strings.TrimPrefix(name, f.Path+":")
				cm := f.OptionComments[o]
				add(&cm)
				f.OptionComments[o] = cm
				return true
			}
		}
		return false
	}
	done := false
	c05Walk(s, func(e *c05Elem) {
		if done || e.key() != key {
			return
		}
		switch e.Kind {
		case "message":
			add(&e.Msg.Comment)
		case "enum":
			add(&e.Enum.Comment)
		case "enumvalue":
			add(&e.Val.Comment)
		case "field", "extension":
			add(&e.Field.Comment)
		case "service":
			add(&e.Svc.Comment)
		case "rpc":
			add(&e.Rpc.Comment)
		case "oneof":
			if e.Msg.OneofComments == nil {
				e.Msg.OneofComments = map[string]string{}
			}
			cm := e.Msg.OneofComments[e.Oneof]
			add(&cm)
			e.Msg.OneofComments[e.Oneof] = cm
		default:
			return
		}
		done = true
	})
	return done
}

// c06DirectiveText draws one spelling of a directive for the rule.
func c06DirectiveText(r *rand.Rand, rule string, allRules []string) (text, kind string) {
	switch r.IntN(12) {
	case 0:
		return c06DirectivePrefix + " " + rule + " because of legacy clients", "with-reason"
	case 1:
		return c06DirectivePrefix + " " + rule + ", " + allRules[r.IntN(len(allRules))], "two-ids"
	case 2:
		return c06DirectivePrefix + " " + rule + "_EXTRA", "longer-id" // starts with the ID: documented to match
	case 3:
		if i := strings.LastIndex(rule, "_"); i > 0 {
			return c06DirectivePrefix + " " + rule[:i], "shorter-id" // does not match
		}
	case 4:
		return c06DirectivePrefix + rule, "no-space" // does not match
	case 5:
		return c06DirectivePrefix + " " + strings.ToLower(rule), "lower-case" // does not match
	case 6:
		return c06DirectivePrefix + " STANDARD", "category" // categories are not rule IDs: does not match
	case 7:
		return "see " + c06DirectivePrefix + " " + rule, "not-at-line-start"
	}
	return c06DirectivePrefix + " " + rule, "exact"
}

// c06PlaceDirectives adds directives relative to the annotations of the undirected workspace.
func c06PlaceDirectives(c *core.C, d *c06Dirty, anns []lintAnn, allRules []string, n int) {
	sc := newC06Scope(d.S, d.R)
	if len(anns) == 0 {
		return
	}
	perm := c.Rand.Perm(len(anns))
	placed := 0
	for _, i := range perm {
		if placed >= n {
			break
		}
		a := anns[i]
		if !c06HasLocation(a) {
			continue
		}
		chain := sc.chain(a.Path, a.Line)
		if len(chain) == 0 {
			continue
		}
		text, tkind := c06DirectiveText(c.Rand, a.Rule, allRules)
		var key, where string
		switch k := c.Rand.IntN(10); {
		case k < 4:
			key, where = chain[0].Kind+":"+chain[0].Name, "self"
		case k < 7 && len(chain) > 1:
			sp := chain[1+c.Rand.IntN(len(chain)-1)]
			key, where = sp.Kind+":"+sp.Name, "enclosing-"+sp.Kind
		case k < 8:
			key, where = "package:"+a.Path, "package-statement"
		default:
			// an unrelated sibling: another declaration of the same kind in the same file
			var sibs []*gen.Span
			for _, sp := range sc.r.Spans {
				if sp.File == a.Path && sp.Kind == chain[0].Kind && sp != chain[0] && (sp.EndLine < chain[0].StartLine || sp.StartLine > chain[0].EndLine) {
					sibs = append(sibs, sp)
				}
			}
			if len(sibs) == 0 {
				continue
			}
			sort.Slice(sibs, func(i, j int) bool { return sibs[i].StartLine < sibs[j].StartLine })
			sp := sibs[c.Rand.IntN(len(sibs))]
			key, where = sp.Kind+":"+sp.Name, "sibling"
		}
		if c06SetComment(d.S, key, text) {
			placed++
			c.Distinct("directive_placements", where+"/"+tkind)
		}
	}
	d.R = d.S.Render()
}

// ---- configurations ---------------------------------------------------------------------------------

type c06Cfg struct {
	c05CheckCfg
	Plugin   bool
	Module   int
	Features []string
	Bogus    string // "" or where the unknown ID was put
}

func (cfg *c06Cfg) feature(f string) { cfg.Features = append(cfg.Features, f) }

func (cfg *c06Cfg) vector() string {
	fs := append([]string{}, cfg.Features...)
	sort.Strings(fs)
	return cfg.Version + ":" + strings.Join(dedup(fs), "+")
}

// c06PathPool: ignore path candidates of one module: its files, every ancestor directory, a
// non-existent path, and paths that are string prefixes (not ancestors) of real ones.
func c06PathPool(m *gen.Module) []string {
	seen := map[string]bool{}
	var out []string
	add := func(p string) {
		if p != "" && p != "." && !seen[p] {
			seen[p] = true
			out = append(out, p)
		}
	}
	for _, f := range m.Files {
		add(f.Path)
		for d := path.Dir(f.Path); d != "."; d = path.Dir(d) {
			add(d)
		}
		add(strings.TrimSuffix(f.Path, ".proto")) // "a/b/c" vs file "a/b/c.proto"
		if d := path.Dir(f.Path); d != "." {
			add(d[:len(d)-1]) // "a/b/v" vs directory "a/b/v1"
		}
	}
	add("does/not/exist")
	sort.Strings(out)
	return out
}

func underPath(p string, roots []string) bool {
	for _, r := range roots {
		r = path.Clean(r)
		if p == r || strings.HasPrefix(p, r+"/") {
			return true
		}
	}
	return false
}

type c06IDPools struct {
	rules      []string // non-deprecated rules of the type
	deprecated []string
	categories []string
	otherType  []string // IDs valid only for the other rule type
}

func c06Pools(t *c06Table, typ string) c06IDPools {
	var p c06IDPools
	other := "breaking"
	if typ == "breaking" {
		other = "lint"
	}
	for _, r := range t.rulesOfType(typ) {
		if r.Deprecated {
			p.deprecated = append(p.deprecated, r.ID)
		} else {
			p.rules = append(p.rules, r.ID)
		}
	}
	p.categories = t.categoriesOfType(typ)
	mine := toSet(append(append([]string{}, p.rules...), p.deprecated...))
	for _, r := range t.rulesOfType(other) {
		if !mine[r.ID] {
			p.otherType = append(p.otherType, r.ID)
		}
	}
	cats := toSet(p.categories)
	for _, cat := range t.categoriesOfType(other) {
		if !cats[cat] {
			p.otherType = append(p.otherType, cat)
		}
	}
	return p
}

// antichain drops every path that lies within another path of the list (bufconfig rejects such
// lists: `ignore "a/b" is within ignore "a"`).
func antichain(paths []string) []string {
	var out []string
	for _, p := range dedup(paths) {
		within := false
		for _, q := range paths {
			if q != p && underPath(p, []string{q}) {
				within = true
			}
		}
		if !within {
			out = append(out, p)
		}
	}
	return out
}

// addPath adds p to an antichain, replacing the paths p contains; ok=false if p is already covered.
func addPath(paths []string, p string) ([]string, bool) {
	if underPath(p, paths) {
		return paths, false
	}
	var out []string
	for _, q := range paths {
		if !underPath(q, []string{p}) {
			out = append(out, q)
		}
	}
	return append(out, p), true
}

func pickN(r *rand.Rand, pool []string, n int) []string {
	if len(pool) == 0 {
		return nil
	}
	var out []string
	for i := 0; i < n; i++ {
		out = append(out, pool[r.IntN(len(pool))])
	}
	return dedup(out)
}

// c06GenConfig draws one configuration.
func c06GenConfig(r *rand.Rand, t *c06Table, typ string, version string, s *gen.Schema, nModules int, plugin bool, heavy string) *c06Cfg {
	cfg := &c06Cfg{Plugin: plugin, Module: r.IntN(nModules)}
	cfg.Version = version
	pools := c06Pools(t, typ)
	// use
	switch k := r.IntN(10); {
	case k < 2:
		cfg.feature("use-default")
	case k < 4:
		cfg.Use = pickN(r, pools.categories, 1+r.IntN(2))
		cfg.feature("use-categories")
	case k < 6:
		cfg.Use = append(pickN(r, pools.categories, 1), pickN(r, pools.rules, 1+r.IntN(4))...)
		cfg.feature("use-categories+rules")
	case k < 9:
		cfg.Use = pickN(r, pools.rules, 1+r.IntN(8))
		cfg.feature("use-rules")
	default:
		cfg.Use = append([]string{}, pools.rules...)
		cfg.feature("use-all-rules")
	}
	if len(pools.deprecated) > 0 && r.IntN(5) == 0 {
		cfg.Use = append(cfg.Use, pools.deprecated[r.IntN(len(pools.deprecated))])
		cfg.feature("use-deprecated-rule")
	}
	for _, id := range cfg.Use {
		if c := t.category(id); c != nil && c.Deprecated {
			cfg.feature("use-deprecated-category")
		}
	}
	// except
	selected, _ := t.selection(typ, cfg.Use, nil)
	switch k := r.IntN(10); {
	case k < 4:
	case k < 7:
		cfg.Except = pickN(r, selected, 1+r.IntN(3))
		cfg.feature("except-rules")
	case k < 9:
		cfg.Except = pickN(r, pools.categories, 1)
		cfg.feature("except-category")
	default:
		cfg.Except = pickN(r, append(append([]string{}, pools.deprecated...), pools.rules...), 1+r.IntN(3))
		cfg.feature("except-any")
	}
	if heavy != "" && r.IntN(10) < 7 {
		if sel, _ := t.selection(typ, cfg.Use, cfg.Except); toSet(sel)[heavy] {
			cfg.Except = append(cfg.Except, heavy)
		}
	}
	// ignore / ignore_only
	paths := c06PathPool(s.Modules[cfg.Module])
	if r.IntN(10) < 4 {
		cfg.Ignore = antichain(pickN(r, paths, 1+r.IntN(3)))
		cfg.feature("ignore")
	}
	if r.IntN(10) < 4 {
		cfg.IgnoreOnly = map[string][]string{}
		for i := 0; i < 1+r.IntN(3); i++ {
			var id string
			switch k := r.IntN(10); {
			case k < 5 && len(selected) > 0:
				id = selected[r.IntN(len(selected))]
				cfg.feature("ignore_only-rule")
			case k < 8:
				id = pools.categories[r.IntN(len(pools.categories))]
				cfg.feature("ignore_only-category")
			case k < 9 && len(pools.deprecated) > 0:
				id = pools.deprecated[r.IntN(len(pools.deprecated))]
				cfg.feature("ignore_only-deprecated")
			default:
				id = pools.rules[r.IntN(len(pools.rules))]
				cfg.feature("ignore_only-rule")
			}
			cfg.IgnoreOnly[id] = antichain(append(cfg.IgnoreOnly[id], pickN(r, paths, 1+r.IntN(2))...))
		}
		// keys that overlap: a key standing for several rules (a category, a deprecated ID with several
		// replacements) next to one of those rules under its own key and with its own paths — the path sets
		// of the two keys are merged per rule, and must not leak to the key's other rules
		for _, id := range sortedKeys(cfg.IgnoreOnly) {
			stands, err := t.expand(typ, []string{id})
			if err != nil || len(stands) < 2 || r.IntN(2) != 0 {
				continue
			}
			member := sortedKeys(stands)[r.IntN(len(stands))]
			cfg.IgnoreOnly[member] = antichain(append(cfg.IgnoreOnly[member], pickN(r, paths, 1+r.IntN(2))...))
			cfg.feature("ignore_only-overlapping-keys")
		}
	}
	if r.IntN(8) == 0 {
		// designed: every rule selected, a deprecated ID with several replacements and one of the replacements
		// as keys with different paths
		var multi []string
		for _, d := range pools.deprecated {
			if stands, err := t.expand(typ, []string{d}); err == nil && len(stands) >= 2 {
				multi = append(multi, d)
			}
		}
		if len(multi) > 0 && len(paths) >= 2 {
			d := multi[r.IntN(len(multi))]
			stands, _ := t.expand(typ, []string{d})
			member := sortedKeys(stands)[r.IntN(len(stands))]
			pp := pickN(r, paths, 2)
			if len(pp) == 2 {
				cfg.Use, cfg.Except = append([]string{}, pools.rules...), nil
				cfg.IgnoreOnly = map[string][]string{d: {pp[0]}, member: {pp[1]}}
				cfg.Features = nil
				cfg.feature("use-all-rules")
				cfg.feature("ignore_only-deprecated")
				cfg.feature("ignore_only-overlapping-keys")
				if len(cfg.Ignore) > 0 {
					cfg.feature("ignore")
				}
			}
		}
	}
	if typ == "lint" {
		cfg.Opts.AllowCommentIgnores = r.IntN(2) == 0
		if cfg.Opts.AllowCommentIgnores {
			cfg.feature("comment-ignores")
		}
	}
	if plugin {
		cfg.feature("plugin")
	}
	return cfg
}

// c06Bogus turns a configuration into one with an unknown ID.
func c06Bogus(r *rand.Rand, cfg *c06Cfg, pools c06IDPools) {
	id := "NOT_A_RULE_OR_CATEGORY"
	if len(pools.otherType) > 0 && r.IntN(2) == 0 {
		id = pools.otherType[r.IntN(len(pools.otherType))]
	}
	switch r.IntN(3) {
	case 0:
		cfg.Use = append(cfg.Use, id)
		cfg.Bogus = "use:" + id
	case 1:
		cfg.Except = append(cfg.Except, id)
		cfg.Bogus = "except:" + id
	default:
		if cfg.IgnoreOnly == nil {
			cfg.IgnoreOnly = map[string][]string{}
		}
		cfg.IgnoreOnly[id] = []string{"does/not/exist"}
		cfg.Bogus = "ignore_only:" + id
	}
	cfg.feature("unknown-id")
}

// c06Expected computes ⋃ B(r) ∖ supp(c).
func c06Expected(t *c06Table, typ string, cfg *c06Cfg, sel []string, base map[string][]lintAnn, sc *c06Scope, importOnly map[string]bool, excludeImports bool, against ...*c06Against) (map[string]lintAnn, error) {
	// ignore_only: key -> rules it stands for
	ioRules := map[string][]string{}
	for id, paths := range cfg.IgnoreOnly {
		rs, err := t.expand(typ, []string{id})
		if err != nil {
			return nil, err
		}
		for r := range rs {
			ioRules[r] = append(ioRules[r], paths...)
		}
	}
	out := map[string]lintAnn{}
	for _, r := range sel {
		for _, a := range base[r] {
			if a.Path != "" && (underPath(a.Path, cfg.Ignore) || underPath(a.Path, ioRules[r])) {
				continue
			}
			// breaking: paths and the import exclusion apply to the against-location as well (bufcheck client, ignoreAnnotation)
			if len(against) > 0 && against[0] != nil {
				if ap := against[0].Path(a); ap != "" {
					if underPath(ap, cfg.Ignore) || underPath(ap, ioRules[r]) || (excludeImports && against[0].ImportOnly[ap]) {
						// A few rules attach an against-location only sometimes (ENUM_VALUE_SAME_NAME: only when the
						// new name existed before; MESSAGE_SAME_REQUIRED_FIELDS: never): for those, an annotation that
						// only its against-location would suppress may legitimately be reported or not.
						if c06OptionalAgainst[a.Rule] && a.Path != "" && against[0].Optional != nil {
							against[0].Optional[a.key()] = true
							out[a.key()] = a
						}
						continue
					}
				}
			}
			if excludeImports && importOnly[a.Path] {
				continue
			}
			if typ == "lint" && cfg.Opts.AllowCommentIgnores && sc != nil && sc.suppressedByComment(a) {
				continue
			}
			out[a.key()] = a
		}
	}
	return out, nil
}

// c06Against describes the against-side of breaking annotations where it differs from the annotation's own file.
type c06Against struct {
	// Path returns the file of the against-location ("" = the annotation's own file).
	Path func(lintAnn) string
	// ImportOnly: files that are only imports in the against image.
	ImportOnly map[string]bool
	// Optional (output): annotations of rules in c06OptionalAgainst that only an against-location would suppress;
	// they are in the expected set, and their absence is accepted as well.
	Optional map[string]bool
}

// c06OptionalAgainst: breaking rules whose handler does not always pass a previous location
// (bufcheckserverhandle/breaking.go: handleBreakingEnumValueSameName, handleBreakingMessageSameRequiredFields).
var c06OptionalAgainst = map[string]bool{"ENUM_VALUE_SAME_NAME": true, "MESSAGE_SAME_REQUIRED_FIELDS": true}

func diffAnnSets(want, got map[string]lintAnn) (missing, extra []string) {
	for k, a := range want {
		if _, ok := got[k]; !ok {
			missing = append(missing, a.String())
		}
	}
	for k, a := range got {
		if _, ok := want[k]; !ok {
			extra = append(extra, a.String())
		}
	}
	sort.Strings(missing)
	sort.Strings(extra)
	return
}

func ruleIDs(rules []bufcheck.Rule) []string {
	var out []string
	for _, r := range rules {
		out = append(out, r.ID())
	}
	sort.Strings(out)
	return out
}

type c06Env struct {
	c       *core.C
	ctx     context.Context
	version string
	plain   bufcheck.Client
	plug    bufcheck.Client
	pc      bufconfig.PluginConfig
	table   *c06Table // pinned
	tableP  *c06Table // pinned + plugin
}

func (e *c06Env) tableFor(plugin bool) *c06Table {
	if plugin {
		return e.tableP
	}
	return e.table
}

func c06Run(c *core.C, idx int) {
	ctx := context.Background()
	if idx == 0 {
		c06Static(c, ctx)
		return
	}
	version := c06Versions[idx%3]
	table, err := c06LoadTable(version)
	if err != nil {
		c.Violation("harness-catalogue", "table", err.Error(), nil)
		return
	}
	plain, err := c06NewClient()
	if err != nil {
		c.Violation("library-failed", "client", err.Error(), nil)
		return
	}
	plug, pc, err := c06NewClientWithPlugin()
	if err != nil {
		c.Violation("library-failed", "plugin-client", err.Error(), nil)
		return
	}
	env := &c06Env{c: c, ctx: ctx, version: version, plain: plain, plug: plug, pc: pc, table: table, tableP: table.withPlugin()}
	gcfg := gen.DefaultConfig()
	gcfg.Modules = 2 + c.Rand.IntN(2)
	gcfg.MinFiles, gcfg.MaxFiles = 2, 4
	gcfg.MaxDepth = 2 + c.Rand.IntN(2)
	s := gen.Generate(c.Rand, gcfg)
	c05Decorate(c.Rand, s)
	c06Lint(env, s, idx)
	c06BreakingPart(env, s, idx)
}

// c06Lint is the lint half of a case.
func c06Lint(env *c06Env, clean *gen.Schema, idx int) {
	c, ctx, version := env.c, env.ctx, env.version
	d := c06MakeDirty(ctx, c, clean, env.tableP, c.Pick(22, 30))
	if len(d.Applied) < 3 {
		c.Count("dirty_workspaces_too_clean", 1)
		return
	}
	nMod := len(d.S.Modules)
	allLint := func(t *c06Table) []string {
		var out []string
		for _, r := range t.rulesOfType("lint") {
			if !r.Deprecated {
				out = append(out, r.ID)
			}
		}
		return out
	}
	pluginOpt := bufcheck.WithPluginConfigs(env.pc)
	build := func() ([]bufimage.Image, bool) {
		images := make([]bufimage.Image, nMod)
		for mi := range d.S.Modules {
			img, err := c05ModuleImage(ctx, d.S, d.R, mi, nil)
			if err != nil {
				c.Note("case %d: dirty workspace does not build: %v", idx, firstLine(err.Error()))
				c.Count("generator_rejects", 1)
				return nil, false
			}
			images[mi] = img
		}
		return images, true
	}
	// phase 1: where are the annotations (to aim directives at them)
	images, ok := build()
	if !ok {
		return
	}
	var phase1 []lintAnn
	for mi := range d.S.Modules {
		anns, err := c05Lint(ctx, env.plug, c05CheckCfg{Version: version, Use: allLint(env.tableP)}, images[mi], pluginOpt)
		c.Eval(1)
		if err != nil {
			c.Violation("lint-failed", fmt.Sprintf("version=%s all-rules", version), fmt.Sprintf("lint with every rule failed: %v", err), map[string]any{"applied": d.Applied})
			return
		}
		phase1 = append(phase1, anns...)
	}
	c06PlaceDirectives(c, d, phase1, allLint(env.table), c.Pick(14, 24))
	images, ok = build()
	if !ok {
		return
	}
	sc := newC06Scope(d.S, d.R)
	importOnly := make([]map[string]bool, nMod)
	for mi := range images {
		importOnly[mi] = importOnlyPaths(images[mi])
	}

	// baselines B(r), lazily per module
	base := make([]map[string][]lintAnn, nMod)
	baseline := func(mi int) map[string][]lintAnn {
		if base[mi] != nil {
			return base[mi]
		}
		b := map[string][]lintAnn{}
		for _, r := range env.tableP.rulesOfType("lint") {
			if r.Deprecated {
				continue
			}
			client, opts := env.plain, []bufcheck.LintOption(nil)
			if env.table.rule(r.ID) == nil {
				client, opts = env.plug, []bufcheck.LintOption{pluginOpt}
			}
			anns, err := c05Lint(ctx, client, c05CheckCfg{Version: version, Use: []string{r.ID}}, images[mi], opts...)
			c.Eval(1)
			c.Count("baselines", 1)
			if err != nil {
				c.Violation("lint-failed", fmt.Sprintf("version=%s use=%s", version, r.ID), fmt.Sprintf("lint with use:[%s] failed: %v", r.ID, err), nil)
				continue
			}
			for _, a := range anns {
				if a.Rule != r.ID {
					c.Violation("baseline-foreign-rule", fmt.Sprintf("version=%s use=%s reported=%s", version, r.ID, a.Rule), fmt.Sprintf("use:[%s] alone reported an annotation of rule %s: %s", r.ID, a.Rule, a), nil)
				}
				if importOnly[mi][a.Path] {
					c.Violation("import-file-reported", fmt.Sprintf("lint version=%s rule=%s", version, a.Rule), fmt.Sprintf("annotation in a file that is only an import of the linted module: %s", a), nil)
				}
			}
			if len(anns) > 0 {
				b[r.ID] = anns
				c.Distinct("rules_with_annotations", r.ID)
			}
		}
		base[mi] = b
		return b
	}

	nCfg := c.Pick(60, 160)
	heavy := ""
	if env.table.rule("PROTOVALIDATE") != nil {
		heavy = "PROTOVALIDATE"
	}
	cliBudget := c.Pick(2, 5)
	for ci := 0; ci < nCfg; ci++ {
		plugin := c.Rand.IntN(3) == 0
		t := env.tableFor(plugin)
		cfg := c06GenConfig(c.Rand, t, "lint", version, d.S, nMod, plugin, heavy)
		if ci%20 == 7 {
			c06Bogus(c.Rand, cfg, c06Pools(t, "lint"))
		}
		c06OneLintConfig(env, d, sc, images, importOnly, baseline, cfg, ci, &cliBudget)
	}
	c.Nontrivial(fmt.Sprintf("lint/%s/plants=%d", version, len(dedup(d.Applied))))
	c.Sample(map[string]any{"version": version, "applied_plants": d.Applied, "modules": nMod})
}

func c06OneLintConfig(env *c06Env, d *c06Dirty, sc *c06Scope, images []bufimage.Image, importOnly []map[string]bool,
	baseline func(int) map[string][]lintAnn, cfg *c06Cfg, ci int, cliBudget *int) {
	c, ctx := env.c, env.ctx
	t := env.tableFor(cfg.Plugin)
	client := env.plain
	var lintOpts []bufcheck.LintOption
	var crOpts []bufcheck.ConfiguredRulesOption
	if cfg.Plugin {
		client = env.plug
		lintOpts = append(lintOpts, bufcheck.WithPluginConfigs(env.pc))
		crOpts = append(crOpts, bufcheck.WithPluginConfigs(env.pc))
	}
	key := "lint " + cfg.vector()
	detail := func() map[string]any {
		return map[string]any{"use": cfg.Use, "except": cfg.Except, "ignore": cfg.Ignore, "ignore_only": cfg.IgnoreOnly, "allow_comment_ignores": cfg.Opts.AllowCommentIgnores,
			"plugin": cfg.Plugin, "module": d.S.Modules[cfg.Module].Dir, "sources": d.R.Files[d.S.Modules[cfg.Module].Dir], "applied": d.Applied}
	}
	describe := fmt.Sprintf("config{version=%s use=%v except=%v ignore=%v ignore_only=%v comment_ignores=%v plugin=%v}", cfg.Version, cfg.Use, cfg.Except, cfg.Ignore, cfg.IgnoreOnly, cfg.Opts.AllowCommentIgnores, cfg.Plugin)

	sel, selErr := t.selection("lint", cfg.Use, cfg.Except)
	if selErr == nil {
		var ids []string
		for id := range cfg.IgnoreOnly {
			ids = append(ids, id)
		}
		_, selErr = t.expand("lint", ids)
	}
	lc, err := cfg.lintConfig()
	if err != nil {
		c.Violation("config-rejected", key, fmt.Sprintf("%s: bufconfig rejected the configuration: %v", describe, err), detail())
		return
	}
	configured, crErr := client.ConfiguredRules(ctx, check.RuleTypeLint, lc, crOpts...)
	anns, lintErr := c05FileAnnotations(client.Lint(ctx, lc, images[cfg.Module], lintOpts...))
	c.Eval(2)
	c.Count("configs", 1)
	c.Distinct("config_vectors", cfg.vector())
	if selErr != nil {
		// (5) unknown ID ⇒ rejected
		c.Count("unknown_id_configs", 1)
		if crErr == nil {
			c.Violation("unknown-id-accepted", "lint ConfiguredRules "+cfg.Bogus, fmt.Sprintf("%s: ConfiguredRules accepted an unknown ID (%v) and returned %v", describe, selErr, ruleIDs(configured)), detail())
		}
		if lintErr == nil {
			c.Violation("unknown-id-accepted", "lint Lint "+cfg.Bogus, fmt.Sprintf("%s: Lint accepted an unknown ID (%v)", describe, selErr), detail())
		}
		return
	}
	if crErr != nil {
		c.Violation("configured-rules-failed", key, fmt.Sprintf("%s: ConfiguredRules failed: %v (the model selects %v)", describe, crErr, sel), detail())
	} else if got := ruleIDs(configured); strings.Join(got, ",") != strings.Join(sel, ",") {
		c.Violation("selection-differs", key, fmt.Sprintf("%s: ConfiguredRules = %v, documented expansion = %v", describe, got, sel), detail())
	}
	if lintErr != nil {
		c.Violation("lint-failed", key, fmt.Sprintf("%s: Lint failed: %v (the model selects %d rules)", describe, lintErr, len(sel)), detail())
		return
	}
	if len(sel) == 0 {
		c.Count("empty_selections", 1)
	}
	want, err := c06Expected(t, "lint", cfg, sel, baseline(cfg.Module), sc, importOnly[cfg.Module], false)
	if err != nil {
		c.Violation("harness-catalogue", key, err.Error(), nil)
		return
	}
	got := annKeys(anns)
	for _, a := range anns {
		if importOnly[cfg.Module][a.Path] {
			c.Violation("import-file-reported", fmt.Sprintf("lint version=%s rule=%s", cfg.Version, a.Rule), fmt.Sprintf("%s: annotation in a file that is only an import: %s", describe, a), detail())
		}
	}
	missing, extra := diffAnnSets(want, got)
	if len(missing) > 0 {
		c.Violation("annotation-lost", key, fmt.Sprintf("%s: missing from the result although selected and not suppressed: %v", describe, clipList(missing, 6)), detail())
	}
	if len(extra) > 0 {
		c.Violation("annotation-not-in-union", key, fmt.Sprintf("%s: reported although not in ⋃B(r)∖supp: %v", describe, clipList(extra, 6)), detail())
	}
	if len(want) > 0 {
		c.Count("configs_with_annotations", 1)
		c.Nontrivial("lint/" + cfg.vector())
	}
	// which suppression kinds actually removed something
	full, _ := c06Expected(t, "lint", &c06Cfg{c05CheckCfg: c05CheckCfg{Version: cfg.Version}}, sel, baseline(cfg.Module), nil, nil, false)
	if len(full) > len(want) {
		c.Count("configs_with_effective_suppression", 1)
		for k, a := range full {
			if _, kept := want[k]; kept {
				continue
			}
			switch {
			case underPath(a.Path, cfg.Ignore):
				c.Distinct("suppression_kinds", "ignore")
			case cfg.Opts.AllowCommentIgnores && sc.suppressedByComment(a):
				c.Distinct("suppression_kinds", "comment")
			default:
				c.Distinct("suppression_kinds", "ignore_only")
			}
		}
	}

	// (4) one more suppression: R(c′) ⊆ R(c), and what disappears lies in the added scope
	if c.Rand.IntN(2) == 0 {
		c06LintLaw(env, d, sc, images, cfg, got, describe)
	}
	// a sample through the CLI
	if !cfg.Plugin && *cliBudget > 0 && c.Rand.IntN(8) == 0 {
		*cliBudget--
		c06CLILint(env, d, cfg, anns, sel, describe)
	}
}

func clipN(b []byte, n int) string {
	if len(b) > n {
		return string(b[:n]) + "…"
	}
	return string(b)
}

func clipList(l []string, n int) []string {
	if len(l) > n {
		return append(append([]string{}, l[:n]...), fmt.Sprintf("… %d more", len(l)-n))
	}
	return l
}

func c06LintLaw(env *c06Env, d *c06Dirty, sc *c06Scope, images []bufimage.Image, cfg *c06Cfg, r map[string]lintAnn, describe string) {
	c, ctx := env.c, env.ctx
	t := env.tableFor(cfg.Plugin)
	c2 := *cfg
	c2.Except = append([]string{}, cfg.Except...)
	c2.Ignore = append([]string{}, cfg.Ignore...)
	c2.IgnoreOnly = map[string][]string{}
	for k, v := range cfg.IgnoreOnly {
		c2.IgnoreOnly[k] = append([]string{}, v...)
	}
	var rs []lintAnn
	for _, a := range r {
		rs = append(rs, a)
	}
	sort.Slice(rs, func(i, j int) bool { return rs[i].key() < rs[j].key() })
	var kind string
	inScope := func(a lintAnn) bool { return false }
	pools := c06Pools(t, "lint")
	paths := c06PathPool(d.S.Modules[cfg.Module])
	switch k := c.Rand.IntN(4); {
	case k == 0:
		id := pools.rules[c.Rand.IntN(len(pools.rules))]
		if len(rs) > 0 && c.Rand.IntN(3) > 0 {
			id = rs[c.Rand.IntN(len(rs))].Rule
		} else if c.Rand.IntN(3) == 0 {
			id = pools.categories[c.Rand.IntN(len(pools.categories))]
		}
		exp, err := t.expand("lint", []string{id})
		if err != nil {
			return
		}
		c2.Except = append(c2.Except, id)
		kind = "except"
		inScope = func(a lintAnn) bool { return exp[a.Rule] }
	case k == 1:
		p := paths[c.Rand.IntN(len(paths))]
		if len(rs) > 0 && c.Rand.IntN(3) > 0 {
			p = rs[c.Rand.IntN(len(rs))].Path
			if c.Rand.IntN(2) == 0 && path.Dir(p) != "." {
				p = path.Dir(p)
			}
		}
		if p == "" {
			return
		}
		var fresh bool
		if c2.Ignore, fresh = addPath(c2.Ignore, p); !fresh {
			return
		}
		kind = "ignore"
		inScope = func(a lintAnn) bool { return underPath(a.Path, []string{p}) }
	case k == 2:
		id := pools.rules[c.Rand.IntN(len(pools.rules))]
		p := paths[c.Rand.IntN(len(paths))]
		if len(rs) > 0 && c.Rand.IntN(3) > 0 {
			a := rs[c.Rand.IntN(len(rs))]
			id, p = a.Rule, a.Path
		}
		if p == "" {
			return
		}
		exp, err := t.expand("lint", []string{id})
		if err != nil {
			return
		}
		var fresh bool
		if c2.IgnoreOnly[id], fresh = addPath(c2.IgnoreOnly[id], p); !fresh {
			return
		}
		kind = "ignore_only"
		inScope = func(a lintAnn) bool { return exp[a.Rule] && underPath(a.Path, []string{p}) }
	default:
		if cfg.Opts.AllowCommentIgnores {
			return
		}
		c2.Opts.AllowCommentIgnores = true
		kind = "comment-ignores-on"
		inScope = func(a lintAnn) bool { return sc.suppressedByComment(a) }
	}
	// the selection must stay non-degenerate for the law to be about suppression
	if _, err := t.selection("lint", c2.Use, c2.Except); err != nil {
		return
	}
	var opts []bufcheck.LintOption
	client := env.plain
	if cfg.Plugin {
		client = env.plug
		opts = append(opts, bufcheck.WithPluginConfigs(env.pc))
	}
	anns2, err := c05Lint(ctx, client, c2.c05CheckCfg, images[cfg.Module], opts...)
	c.Eval(1)
	c.Count("laws_evaluated", 1)
	key := "lint law=" + kind + " version=" + cfg.Version
	if err != nil {
		c.Violation("lint-failed", key, fmt.Sprintf("%s + one more suppression (%s): Lint failed: %v", describe, kind, err), map[string]any{"except": c2.Except, "ignore": c2.Ignore, "ignore_only": c2.IgnoreOnly})
		return
	}
	r2 := annKeys(anns2)
	for k, a := range r2 {
		if _, ok := r[k]; !ok {
			c.Violation("suppression-added-annotation", key, fmt.Sprintf("%s: adding a suppression (%s: except=%v ignore=%v ignore_only=%v) made a new annotation appear: %s", describe, kind, c2.Except, c2.Ignore, c2.IgnoreOnly, a), nil)
		}
	}
	removed := 0
	for k, a := range r {
		if _, ok := r2[k]; ok {
			continue
		}
		removed++
		if !inScope(a) {
			c.Violation("suppression-out-of-scope", key, fmt.Sprintf("%s: adding a suppression (%s: except=%v ignore=%v ignore_only=%v) removed an annotation outside its scope: %s", describe, kind, c2.Except, c2.Ignore, c2.IgnoreOnly, a), nil)
		}
	}
	if removed > 0 {
		c.Count("laws_nonvacuous", 1)
		c.Distinct("law_kinds_nonvacuous", kind)
	}
}

// c06CLILint: the same configuration through buf.yaml + `buf lint` and `buf config ls-lint-rules`.
func c06CLILint(env *c06Env, d *c06Dirty, cfg *c06Cfg, lib []lintAnn, sel []string, describe string) {
	c := env.c
	base := filepath.Join(c.Tmp, "c06")
	os.RemoveAll(base)
	defer os.RemoveAll(base)
	wsDir := filepath.Join(base, "ws")
	files := d.R.Flat()
	target := d.S.Modules[cfg.Module]
	switch cfg.Version {
	case "v2":
		var sb strings.Builder
		sb.WriteString("version: v2\nmodules:\n")
		for mi, m := range d.S.Modules {
			sb.WriteString("  - path: " + m.Dir + "\n")
			if m.Name != "" {
				sb.WriteString("    name: " + m.Name + "\n")
			}
			if mi == cfg.Module {
				sb.WriteString("    lint:\n" + indentLines(cfg.lintYAML(m.Dir+"/"), "      "))
			}
		}
		files["buf.yaml"] = sb.String()
	default:
		var sb strings.Builder
		sb.WriteString("version: v1\ndirectories:\n")
		for _, m := range d.S.Modules {
			sb.WriteString("  - " + m.Dir + "\n")
		}
		files["buf.work.yaml"] = sb.String()
		for mi, m := range d.S.Modules {
			y := "version: " + cfg.Version + "\n"
			if m.Name != "" {
				y += "name: " + m.Name + "\n"
			}
			if mi == cfg.Module {
				y += "lint:\n" + indentLines(cfg.lintYAML(""), "  ")
			}
			files[m.Dir+"/buf.yaml"] = y
		}
	}
	if err := run.WriteTree(wsDir, files); err != nil {
		return
	}
	benv := run.BufEnv(filepath.Join(base, "home"), nil)
	o := run.Buf(wsDir, benv, nil, "lint", target.Dir, "--error-format=json")
	c.Eval(1)
	c.Count("cli_comparisons", 1)
	key := "cli lint version=" + cfg.Version
	det := map[string]any{"buf.yaml": files["buf.yaml"], "module buf.yaml": files[target.Dir+"/buf.yaml"]}
	if o.Code != 0 && o.Code != 100 {
		c.Violation("cli-lint-failed", key, fmt.Sprintf("%s: buf lint exited %d: %s", describe, o.Code, clipN(o.Stderr, 400)), det)
		return
	}
	parsed, err := parseAnns(o.Stdout)
	if err != nil {
		c.Violation("cli-output-unparseable", key, err.Error(), det)
		return
	}
	var cli []lintAnn
	for _, a := range parsed {
		cli = append(cli, lintAnn{Rule: a.Type, Path: a.Path, Line: a.Line, Col: a.Col, EndLine: a.EndLine, EndCol: a.EndCol, Msg: a.Message})
	}
	missing, extra := diffAnnSets(annKeys(annsWithPrefix(lib, target.Dir)), annKeys(cli))
	if len(missing)+len(extra) > 0 {
		c.Violation("cli-differs-from-library", key, fmt.Sprintf("%s: `buf lint %s` differs from Client.Lint: library-only %v, cli-only %v", describe, target.Dir, clipList(missing, 5), clipList(extra, 5)), det)
	}
	// buf config ls-lint-rules --configured-only
	args := []string{"config", "ls-lint-rules", "--configured-only", "--format", "json"}
	dir := wsDir
	if cfg.Version == "v2" {
		args = append(args, "--module-path", target.Dir)
	} else {
		dir = filepath.Join(wsDir, target.Dir)
	}
	o = run.Buf(dir, benv, nil, args...)
	c.Eval(1)
	if o.Code != 0 {
		c.Violation("cli-ls-rules-failed", key, fmt.Sprintf("%s: buf config ls-lint-rules exited %d: %s", describe, o.Code, clipN(o.Stderr, 400)), det)
		return
	}
	var ids []string
	for _, line := range strings.Split(strings.TrimSpace(string(o.Stdout)), "\n") {
		if strings.TrimSpace(line) == "" {
			continue
		}
		var row struct {
			ID string `json:"id"`
		}
		if err := json.Unmarshal([]byte(line), &row); err != nil {
			c.Violation("cli-output-unparseable", key, fmt.Sprintf("ls-lint-rules: %v: %q", err, line), det)
			return
		}
		ids = append(ids, row.ID)
	}
	sort.Strings(ids)
	if strings.Join(ids, ",") != strings.Join(sel, ",") {
		c.Violation("selection-differs", key+" ls-lint-rules", fmt.Sprintf("%s: `buf config ls-lint-rules --configured-only` = %v, documented expansion = %v", describe, ids, sel), det)
	}
	c.Count("cli_ls_rules", 1)
}

func indentLines(s, pad string) string {
	var out []string
	for _, l := range strings.Split(strings.TrimRight(s, "\n"), "\n") {
		if l == "" {
			continue
		}
		out = append(out, pad+l)
	}
	if len(out) == 0 {
		return pad + "{}\n"
	}
	return strings.Join(out, "\n") + "\n"
}

// c06Static: tables (pinned vs live, documented structure), with and without the plugin delegate.
func c06Static(c *core.C, ctx context.Context) {
	plain, err := c06NewClient()
	if err != nil {
		c.Violation("library-failed", "client", err.Error(), nil)
		return
	}
	plug, pc, err := c06NewClientWithPlugin()
	if err != nil {
		c.Violation("library-failed", "plugin-client", err.Error(), nil)
		return
	}
	for _, v := range c06Versions {
		pinned, err := c06LoadTable(v)
		if err != nil {
			c.Violation("harness-catalogue", "table "+v, err.Error(), nil)
			continue
		}
		for _, b := range c06ReviewTable(pinned) {
			c.Violation("pinned-table-not-as-documented", "version="+v, b, nil)
		}
		live, err := c06LiveTable(ctx, plain, v)
		c.Eval(1)
		if err != nil {
			c.Violation("library-failed", "tables "+v, err.Error(), nil)
			continue
		}
		if d := c06DiffTables(pinned, live); len(d) > 0 {
			c.Violation("rule-table-changed", "version="+v, fmt.Sprintf("the rule/category tables of %s differ from the pinned, reviewed tables: %s", v, strings.Join(d, "; ")), nil)
		}
		liveP, err := c06LiveTable(ctx, plug, v, bufcheck.WithPluginConfigs(pc))
		c.Eval(1)
		if err != nil {
			c.Violation("library-failed", "tables+plugin "+v, err.Error(), nil)
			continue
		}
		if d := c06DiffTables(pinned.withPlugin(), liveP); len(d) > 0 {
			c.Violation("rule-table-changed", "version="+v+" plugin", fmt.Sprintf("with the plugin delegate the tables of %s are not builtin ∪ plugin: %s", v, strings.Join(d, "; ")), nil)
		}
		c.Count("tables_compared", 2)
		c.Nontrivial("static/" + v)
	}
}

func init() {
	core.Register(&core.Check{
		ID:    "C06",
		Level: "exploration",
		Rule: "case 0: pinned rule tables vs Client.AllRules/AllCategories (with and without a plugin delegate) and their documented structure (MINIMAL⊂BASIC⊂STANDARD, DEFAULT≡STANDARD, defaults). " +
			"Every other case: a generated 2–3 module workspace in config version v1beta1|v1|v2, made dirty by ≤22|30 simultaneous catalogue plants and plugin-rule plants in target and import-only files, with ≤14|24 `buf:lint:ignore` directives (9 spellings) aimed at offending elements, enclosing declarations, package statements and unrelated siblings; " +
			"baselines B(r) from `use:[r]` per rule and module; 60|160 PRNG configurations over use/except (rules, categories, deprecated IDs, defaults, all), ignore (files, directories, string-prefix non-ancestors, missing paths), ignore_only (rule/category/deprecated keys), allow_comment_ignores, an in-process check plugin as second multi_client delegate (1/3), one unknown-ID configuration per 20; " +
			"for half of them one added suppression (except | ignore | ignore_only | comment ignores on) for the subset/scope laws; a sample through `buf lint` and `buf config ls-lint-rules --configured-only`. " +
			"Breaking half: the same algebra over against/current image pairs produced by path-preserving model edits, with and without BreakingWithExcludeImports. A case class is distinct per configuration feature vector",
		Assumptions: []string{
			"comment directives follow the documented prefix semantics (a leading-comment line starting with `buf:lint:ignore ` + rule ID) on the declaration containing the reported position or an enclosing message/enum/service; annotations without a source location cannot be comment-ignored",
			"ignore paths are module-relative and match a file equal to or under the path (component-wise)",
			"breaking annotations are located in files that keep their path between the two images (the edits never move or delete files), so path suppression is decided on the reported path",
			"default `buf breaking` does report import-only files; the never-reported clause is checked for lint and for BreakingWithExcludeImports",
			"trusted: pinned tables catalog/rules_<version>.json (compared with the live tables in case 0), the plugin spec written in this file, gen renderer spans",
		},
		Cases: func(tier string) int {
			if tier == "thorough" {
				return 193
			}
			return 33
		},
		Run:      c06Run,
		Required: []string{"configs", "configs_with_annotations", "configs_with_effective_suppression", "unknown_id_configs", "laws_nonvacuous", "cli_comparisons", "breaking_configs", "breaking_laws_nonvacuous"},
	})
}
