package checks

import (
	"bytes"
	"encoding/json"
	"fmt"
	"os"
	"path/filepath"
	"sort"
	"strings"
	"time"

	"github.com/bufbuild/verifharness/core"
	"github.com/bufbuild/verifharness/gen"
	"github.com/bufbuild/verifharness/ref"
	"github.com/bufbuild/verifharness/run"
)

// C20 — exit status and every diagnostic format tell the same verdict.
//
// Workload: generated workspaces with 0..n planted lint, breaking and compile problems, unformatted
// and formatted files, module directories, file names, parent directories and option texts that
// contain quotes, <>&, commas, %, ':' and non-ASCII (and line terminators in paths), in three
// spellings of the input; plus a catalogue of operational errors.
// Monitor: build, lint, breaking and `format --exit-code [-d]` under each of the five
// --error-format values, in-process (exit status = app.GetExitCode) and, for a quarter of the
// workspaces and every operational error, as a real subprocess of the freshly built buf binary.
// Oracle: the decoders of c20dec.go turn every format into (file, position, rule ID, message)
// tuples; JSON is the reference list; same length, same order, agreeing fields; JSON lines and the
// JUnit document are well-formed; status 0 ⇔ nothing reported, status 100 ⇔ annotations ∨
// import-not-found ∨ format difference, operational ⇒ another non-zero status with a message.

func c20Clip(b []byte) string {
	if len(b) > 500 {
		return string(b[:500]) + "…"
	}
	return string(b)
}

// ---- hostile texts ----------------------------------------------------------------------------

// fragments for file and directory names; every one is a legal POSIX name component
var c20NameFrags = []struct{ class, text string }{
	{"dquote", `we"ird`},
	{"squote", `it's`},
	{"angle-amp", `<x>&y`},
	{"comma", `a,b`},
	{"percent", `100%`},
	{"percent-escape", `p%25q%0Ar`},
	{"percent-hex", `z%41`},
	{"double-colon", `k::v`},
	{"non-ascii", `é日本`},
	{"space", `sp ace`},
	{"cdata-end", `]]>`},
	{"entity", `&amp;`},
	{"semicolon-eq", `a=b;c`},
}

var c20NewlineFrags = []struct{ class, text string }{
	{"newline", "new\nline"},
	{"carriage-return", "cr\rlf"},
	{"crlf", "cr\r\nlf"},
}

// texts for string options (go_package, java_package, json_name …)
var c20OptionTexts = []struct{ class, text string }{
	{"dquote", `a"b`},
	{"angle-amp", `<c>&d`},
	{"comma-percent", `e,f%g`},
	{"newline", "h\ni"},
	{"non-ascii", `jé日本`},
	{"percent-escape", `k%0Al%25m`},
	{"cdata-entity", `]]>&lt;`},
	{"backslash", `n\o`},
	{"double-colon", `p::q`},
}

// c20ProtoString renders s as a Protobuf string literal.
func c20ProtoString(s string) string {
	var sb strings.Builder
	sb.WriteByte('"')
	for _, r := range s {
		switch r {
		case '"':
			sb.WriteString(`\"`)
		case '\\':
			sb.WriteString(`\\`)
		case '\n':
			sb.WriteString(`\n`)
		case '\r':
			sb.WriteString(`\r`)
		default:
			sb.WriteRune(r)
		}
	}
	sb.WriteByte('"')
	return sb.String()
}

// c20YAMLString renders s as a YAML double-quoted scalar (JSON strings are YAML).
func c20YAMLString(s string) string {
	var buf bytes.Buffer
	enc := json.NewEncoder(&buf)
	enc.SetEscapeHTML(false)
	enc.Encode(s)
	return strings.TrimSpace(buf.String())
}

type c20Hostility struct {
	Dirs, Names, Options, Parent, Newline bool
	classes                               map[string]bool
	usedNewline                           bool
}

func (h *c20Hostility) String() string {
	var parts []string
	for _, p := range []struct {
		on   bool
		name string
	}{{h.Dirs, "dirs"}, {h.Names, "names"}, {h.Options, "options"}, {h.Parent, "parent"}, {h.Newline, "newline"}} {
		if p.on {
			parts = append(parts, p.name)
		}
	}
	if len(parts) == 0 {
		return "none"
	}
	return strings.Join(parts, "+")
}

func (h *c20Hostility) frag(c *core.C) string {
	// with Newline set, the first fragment and every second one after it carries a line terminator
	if h.Newline && (!h.usedNewline || c.Rand.IntN(2) == 0) {
		f := c20NewlineFrags[c.Rand.IntN(len(c20NewlineFrags))]
		h.classes[f.class] = true
		h.usedNewline = true
		return f.text
	}
	f := c20NameFrags[c.Rand.IntN(len(c20NameFrags))]
	h.classes[f.class] = true
	return f.text
}

// c20Hostilize renames module directories and adds leaf files with hostile names (old and new
// version share them); returns the added files.
func c20Hostilize(c *core.C, s *gen.Schema, h *c20Hostility) []*gen.File {
	if h.Dirs {
		for i, m := range s.Modules {
			if i == 0 || c.Rand.IntN(3) != 0 {
				m.Dir = m.Dir + " " + h.frag(c)
			}
		}
	}
	var added []*gen.File
	if h.Names {
		n := 1 + c.Rand.IntN(3)
		for i := 0; i < n; i++ {
			m := s.Modules[c.Rand.IntN(len(s.Modules))]
			if len(m.Files) == 0 {
				continue
			}
			host := m.Files[c.Rand.IntN(len(m.Files))]
			if strings.HasPrefix(host.Path, "google/") {
				continue
			}
			dir := host.Path[:strings.LastIndex(host.Path, "/")+1]
			f := &gen.File{
				Path: dir + h.frag(c) + fmt.Sprintf("%d.proto", i), Syntax: "proto3", Package: host.Package,
				Messages: []*gen.Message{{Name: fmt.Sprintf("Hostile%d", i), Comment: "Hostile.", Fields: []*gen.Field{
					{Name: "value", Number: 1, Kind: "scalar", Type: "string", Comment: "Value."}}}},
			}
			m.Files = append(m.Files, f)
			added = append(added, f)
		}
	}
	return added
}

var c20StringFileOptions = []string{"go_package", "java_package", "csharp_namespace", "ruby_package", "php_namespace", "swift_prefix", "objc_class_prefix", "java_outer_classname"}

func c20SetFileOption(f *gen.File, name, literal string) {
	for i := range f.Options {
		if f.Options[i].Name == name {
			f.Options[i].Value = literal
			return
		}
	}
	f.Options = append(f.Options, gen.Opt{Name: name, Value: literal})
}

// c20HostileOptions gives a few files string options with hostile texts (lint PACKAGE_SAME_*, breaking
// FILE_SAME_*) and a few fields hostile JSON names (breaking FIELD_SAME_JSON_NAME).
func c20HostileOptions(c *core.C, s *gen.Schema, h *c20Hostility, salt string) int {
	n := 0
	for _, f := range s.AllFiles() {
		if strings.HasPrefix(f.Path, "google/") {
			continue
		}
		if c.Rand.IntN(2) == 0 {
			t := c20OptionTexts[c.Rand.IntN(len(c20OptionTexts))]
			h.classes["opt-"+t.class] = true
			c20SetFileOption(f, c20StringFileOptions[c.Rand.IntN(len(c20StringFileOptions))], c20ProtoString(salt+t.text))
			n++
		}
		for _, m := range f.Messages {
			for _, fl := range m.Fields {
				if fl.Kind == "scalar" && fl.JSONName == "" && c.Rand.IntN(10) == 0 {
					t := c20OptionTexts[c.Rand.IntN(len(c20OptionTexts))]
					h.classes["json-"+t.class] = true
					fl.JSONName = salt + fl.Name + t.text
					n++
				}
			}
		}
	}
	return n
}

// ---- workspace writing -----------------------------------------------------------------------

func c20WorkspaceFiles(s *gen.Schema, r *gen.Rendered, version, lint, breaking string) map[string]string {
	out := r.Flat()
	if version == "v1" {
		var sb strings.Builder
		sb.WriteString("version: v1\ndirectories:\n")
		for _, m := range s.Modules {
			sb.WriteString("  - " + c20YAMLString(m.Dir) + "\n")
		}
		out["buf.work.yaml"] = sb.String()
		for _, m := range s.Modules {
			var mb strings.Builder
			mb.WriteString("version: v1\n")
			if m.Name != "" {
				mb.WriteString("name: " + m.Name + "\n")
			}
			mb.WriteString("lint:\n" + lint + "breaking:\n" + breaking)
			out[m.Dir+"/buf.yaml"] = mb.String()
		}
		return out
	}
	var sb strings.Builder
	sb.WriteString("version: v2\nmodules:\n")
	for _, m := range s.Modules {
		sb.WriteString("  - path: " + c20YAMLString(m.Dir) + "\n")
		if m.Name != "" {
			sb.WriteString("    name: " + m.Name + "\n")
		}
	}
	sb.WriteString("lint:\n" + lint + "breaking:\n" + breaking)
	out["buf.yaml"] = sb.String()
	return out
}

// ---- one observed run ---------------------------------------------------------------------------

type c20Obs struct {
	cmd    string   // build | lint | breaking | format-d | format
	args   []string // full argument list (with --error-format)
	format string
	stream string // where this command prints annotations: stdout | stderr
	out    run.Out
}

// c20SplitFailure separates the trailing "Failure: …" message from a stderr stream.
func c20SplitFailure(stderr []byte) (before, failure []byte) {
	if bytes.HasPrefix(stderr, []byte("Failure: ")) {
		return nil, stderr
	}
	if i := bytes.Index(stderr, []byte("\nFailure: ")); i >= 0 {
		return stderr[:i+1], stderr[i+1:]
	}
	return stderr, nil
}

func (r *c20Obs) annotationBytes() (ann, failure []byte) {
	if r.stream == "stdout" {
		return r.out.Stdout, r.out.Stderr
	}
	return c20SplitFailure(r.out.Stderr)
}

func c20ImportNotFound(failure []byte) bool {
	return bytes.Contains(failure, []byte(`import "`)) && bytes.Contains(failure, []byte("file does not exist"))
}

// c20CheckStatus applies the status clauses to one run. reported: annotations were printed;
// diff: nil if the command is not `format --exit-code` (or the difference is unknown).
func c20CheckStatus(c *core.C, key string, r *c20Obs, reported bool, diff *bool) {
	_, failure := r.annotationBytes()
	code := r.out.Code
	hasFailure := len(bytes.TrimSpace(failure)) > 0
	importNF := c20ImportNotFound(failure)
	hasDiff := diff != nil && *diff
	switch {
	case code < 0 || code > 255:
		c.Violation("abnormal-termination", key, fmt.Sprintf("buf %s ended abnormally (code %d): %s", strings.Join(r.args, " "), code, c20Clip(r.out.Stderr)), nil)
		return
	case code == 0:
		if reported || hasFailure || hasDiff {
			c.Violation("status-0-with-report", key, fmt.Sprintf("buf %s exited 0 although annotations=%v failure=%q format-diff=%v", strings.Join(r.args, " "), reported, c20Clip(failure), hasDiff), nil)
		}
		c.Count("status_0_runs", 1)
	case code == 100:
		if !reported && !importNF && !hasDiff {
			c.Violation("status-100-without-cause", key, fmt.Sprintf("buf %s exited 100 without annotations, import-not-found or format difference; stdout=%q stderr=%q", strings.Join(r.args, " "), c20Clip(r.out.Stdout), c20Clip(r.out.Stderr)), nil)
		}
		if hasFailure && !importNF {
			c.Violation("status-100-with-failure", key, fmt.Sprintf("buf %s exited 100 (the status of problems in the sources) but printed an operational failure: %s", strings.Join(r.args, " "), c20Clip(failure)), nil)
		}
		c.Count("status_100_runs", 1)
	default:
		if !hasFailure && len(bytes.TrimSpace(r.out.Stderr)) == 0 {
			c.Violation("status-nonzero-silent", key, fmt.Sprintf("buf %s exited %d with nothing reported and no failure message", strings.Join(r.args, " "), code), nil)
		}
		c.Count("status_other_runs", 1)
	}
	if code != 100 && code >= 0 && (reported || importNF || (hasDiff && !hasFailure)) {
		c.Violation("report-without-status-100", key, fmt.Sprintf("buf %s: annotations=%v import-not-found=%v format-diff=%v but exit status %d; stderr=%s", strings.Join(r.args, " "), reported, importNF, hasDiff, code, c20Clip(r.out.Stderr)), nil)
	}
}

// c20CheckFormats decodes the five runs of one command and compares every format with JSON.
// Returns the JSON tuples (nil if JSON itself is malformed).
// c20Disagreement decodes ann as format f and compares it with the JSON reference; class "" = agreement.
func c20Disagreement(f string, refT []c20Tuple, ann []byte, args []string) (class, keySuffix, msg string) {
	got, derr := c20Decode(f, ann)
	if derr != nil {
		return f + "-malformed", "", fmt.Sprintf("buf %s: output does not follow the %s grammar: %v; json reference has %d annotation(s), first: %v", strings.Join(args, " "), f, derr, len(refT), c20First(refT))
	}
	if len(got) != len(refT) {
		return "annotation-count-differs", "", fmt.Sprintf("buf %s: %s carries %d annotation(s), json %d", strings.Join(args, " "), f, len(got), len(refT))
	}
	for i := range refT {
		if d := c20Compare(f, refT[i], got[i]); d != "" {
			field, _, _ := strings.Cut(d, ":")
			return "formats-disagree", fmt.Sprintf(" field=%s #%d", field, i), fmt.Sprintf("buf %s: annotation #%d differs, %s; json=%v %s=%v", strings.Join(args, " "), i, d, refT[i], f, got[i])
		}
	}
	return "", "", ""
}

// rerun (optional) repeats the command under a format. It is given only for workspaces that do not
// compile: which of several independent compile errors buf reports varies from run to run (files
// are compiled concurrently and compilation stops early), and formats can only be observed in
// separate runs. A disagreement is then reported only if it persists over three fresh
// (json, format) run pairs; a printer defect is deterministic and does persist.
func c20CheckFormats(c *core.C, keyBase string, runs map[string]*c20Obs, diff *bool, rerun func(format string) *c20Obs) []c20Tuple {
	jr := runs["json"]
	annJSON, _ := jr.annotationBytes()
	refT, err := c20Decode("json", annJSON)
	c.Eval(1)
	if err != nil {
		c.Violation("json-malformed", keyBase+" fmt=json", fmt.Sprintf("buf %s: a JSON line does not parse: %v", strings.Join(jr.args, " "), err), nil)
		refT = nil
	}
	lineTerm := false
	for _, t := range refT {
		if c20HasLineTerminator(t.Path) || c20HasLineTerminator(t.Message) {
			lineTerm = true
		}
		if !t.HasPath {
			c.Count("tuples_without_file", 1)
		}
		if t.Path != "" && strings.ContainsAny(t.Path, "\"<>&,%':;= ") || c20NonASCII(t.Path) {
			c.Count("tuples_hostile_path", 1)
		}
		if c20HasLineTerminator(t.Path) {
			c.Count("tuples_line_terminator_in_path", 1)
		}
		if strings.ContainsAny(t.Message, "<>&,%") || c20NonASCII(t.Message) {
			c.Count("tuples_hostile_message", 1)
		}
		if t.HasType {
			c.Distinct("rule_ids", t.Type)
		}
	}
	c.Count("tuples_json", len(refT))
	codes := map[int][]string{}
	for _, f := range c20Formats {
		r := runs[f]
		if r == nil {
			continue
		}
		key := keyBase + " fmt=" + f
		ann, _ := r.annotationBytes()
		reported := len(bytes.TrimSpace(ann)) > 0
		codes[r.out.Code] = append(codes[r.out.Code], f)
		c20CheckStatus(c, key, r, reported, diff)
		if f == "json" || err != nil {
			continue
		}
		if (f == "text" || f == "msvs") && lineTerm {
			// a one-line-per-annotation format without an escape mechanism cannot carry a line terminator
			c.Count("line_format_skipped_for_line_terminator", 1)
			continue
		}
		class, suffix, msg := c20Disagreement(f, refT, ann, r.args)
		c.Eval(1)
		if class != "" && rerun != nil {
			// Which compile errors buf reports varies from run to run (each format needs a run of its own). A
			// disagreement counts only if NO run of this format renders what SOME json run reported: up to eight
			// more runs of each are collected and every pair is compared. A format that really renders the
			// annotations differently never matches any json run.
			refs := [][]c20Tuple{refT}
			outs := []*c20Obs{r}
			for try := 0; try < 8 && class != ""; try++ {
				if j2 := rerun("json"); j2 != nil {
					a2, _ := j2.annotationBytes()
					if ref2, err2 := c20Decode("json", a2); err2 == nil {
						refs = append(refs, ref2)
					}
				}
				if f2 := rerun(f); f2 != nil {
					outs = append(outs, f2)
				}
				for _, rf := range refs {
					for _, o2 := range outs {
						b2, _ := o2.annotationBytes()
						if cl, _, _ := c20Disagreement(f, rf, b2, o2.args); cl == "" {
							class = ""
						}
					}
				}
			}
			if class == "" {
				c.Count("reported_compile_errors_varied_between_runs", 1)
			}
		}
		if class != "" {
			c.Violation(class, key+suffix, msg, nil)
			continue
		}
		c.Count("compared_"+f, len(refT))
		if len(refT) > 0 {
			c.Count("compared_nonempty_"+f, 1)
			if lineTerm {
				c.Count("compared_line_terminator_"+f, 1)
			}
		}
	}
	if len(codes) > 1 {
		c.Violation("status-differs-between-formats", keyBase, fmt.Sprintf("the same input exits with different statuses depending on --error-format: %v", codes), nil)
	}
	return refT
}

func c20First(t []c20Tuple) string {
	if len(t) == 0 {
		return "(none)"
	}
	return t[0].String()
}

func c20NonASCII(s string) bool {
	for i := 0; i < len(s); i++ {
		if s[i] >= 0x80 {
			return true
		}
	}
	return false
}

// ---- workspace case ----------------------------------------------------------------------------

// c20SubprocessTimeout only guards against a hung child; reaching it is not a verdict.
const c20SubprocessTimeout = 30 * time.Minute

var c20Kinds = []string{"clean", "lint-dirty", "hostile-dirty", "compile-broken"}

func c20WorkspaceCases(tier string) int {
	if tier == "thorough" {
		return 640
	}
	return 80
}

func c20RemoveSemicolon(c *core.C, v *wsView) string {
	files := v.S.AllFiles()
	for tries := 0; tries < 30; tries++ {
		f := files[c.Rand.IntN(len(files))]
		mod := v.ModOf[f.Path]
		text := v.R.Files[mod.Dir][f.Path]
		lines := strings.Split(text, "\n")
		var cands []int
		for i, l := range lines {
			if strings.HasSuffix(l, ";") && !strings.Contains(l, "//") && !strings.HasPrefix(l, "syntax") && !strings.HasPrefix(l, "edition") {
				cands = append(cands, i)
			}
		}
		if len(cands) == 0 {
			continue
		}
		i := cands[c.Rand.IntN(len(cands))]
		lines[i] = strings.TrimSuffix(lines[i], ";")
		text = strings.Join(lines, "\n")
		v.R.Files[mod.Dir][f.Path] = text
		v.Sources[f.Path] = text
		return f.Path
	}
	return ""
}

func c20Workspace(c *core.C, idx int) {
	kind := c20Kinds[idx%len(c20Kinds)]
	// a quarter of the workspaces, every kind equally often, rotating over the workers' shards
	subprocess := (idx/len(c20Kinds))%4 == (idx/16)%4
	cfg := gen.DefaultConfig()
	cfg.Modules = 1 + c.Rand.IntN(c.Pick(3, 4))
	cfg.MinFiles, cfg.MaxFiles = 2, 2+c.Rand.IntN(c.Pick(2, 4))
	cfg.Groups = true
	cfg.Named = c.Rand.IntN(3) != 0
	h := &c20Hostility{classes: map[string]bool{}}
	switch kind {
	case "clean":
		h.Dirs, h.Parent = c.Rand.IntN(2) == 0, c.Rand.IntN(2) == 0
	case "lint-dirty":
		h.Dirs, h.Parent, h.Names, h.Options = c.Rand.IntN(3) == 0, c.Rand.IntN(3) == 0, c.Rand.IntN(2) == 0, c.Rand.IntN(2) == 0
	default:
		h.Dirs, h.Parent, h.Names, h.Options = c.Rand.IntN(3) != 0, c.Rand.IntN(2) == 0, c.Rand.IntN(4) != 0, c.Rand.IntN(4) != 0
	}
	h.Newline = (h.Dirs || h.Names) && c.Rand.IntN(5) < 2
	version := []string{"v2", "v2", "v1"}[c.Rand.IntN(3)]

	// old version
	sOld := gen.Generate(c.Rand, cfg)
	if kind != "clean" {
		c01Decorate(c, sOld)
	}
	hostileFiles := c20Hostilize(c, sOld, h)
	if h.Options {
		c20HostileOptions(c, sOld, h, "")
	}
	// new version
	sNew := sOld.Clone()
	var edits []string
	lintPlanted := false
	if kind != "clean" {
		before, _ := json.Marshal(sNew)
		c11Dirty(c, sNew)
		after, _ := json.Marshal(sNew)
		lintPlanted = !bytes.Equal(before, after)
		edits = c11BreakingEdits(c, sNew)
		if h.Options {
			if n := c20HostileOptions(c, sNew, h, "n"); n > 0 {
				edits = append(edits, fmt.Sprintf("hostile-options:%d", n))
			}
		}
		if len(hostileFiles) > 0 && c.Rand.IntN(2) == 0 {
			// delete a (leaf) hostile file: FILE_NO_DELETE carries no file and quotes the path in its message
			del := hostileFiles[c.Rand.IntN(len(hostileFiles))].Path
			for _, m := range sNew.Modules {
				for i, f := range m.Files {
					if f.Path == del {
						m.Files = append(m.Files[:i:i], m.Files[i+1:]...)
						edits = append(edits, "delete-file")
						break
					}
				}
			}
		}
	}
	var plants []string
	if kind == "compile-broken" {
		n := 1 + c.Rand.IntN(3)
		for i := 0; i < n; i++ {
			p := c01Plants[c.Rand.IntN(len(c01Plants))]
			if p.apply == nil {
				plants = append(plants, p.name) // text-level, applied after rendering
				continue
			}
			if f, _, _ := p.apply(c, sNew); f != nil {
				plants = append(plants, p.name)
			}
		}
	}
	vOld, vNew := newWSView(sOld), newWSView(sNew)
	for _, p := range plants {
		if p == "missing-semicolon" {
			c20RemoveSemicolon(c, vNew)
		}
	}
	// the compiler's own verdict on the new version
	var roots []string
	for _, f := range vNew.Files {
		roots = append(roots, f.Path)
	}
	sort.Strings(roots)
	rc := ref.Compile(vNew.Sources, roots, false)
	compileFails := len(rc.Errors) > 0
	if kind != "compile-broken" && compileFails {
		c.Note("case %d (%s): generated workspace does not compile: %v", idx, kind, rc.Errors[0])
		c.Count("generator_rejects", 1)
		return
	}

	lintCfg := "  use:\n    - STANDARD\n    - COMMENTS\n"
	breakingCfg := "  use:\n    - " + []string{"FILE", "FILE", "PACKAGE", "WIRE_JSON"}[c.Rand.IntN(4)] + "\n"
	base := filepath.Join(c.Tmp, "c20")
	os.RemoveAll(base)
	if keep := os.Getenv("VERIF_C20_KEEP"); keep != "" && c.Replay {
		base = keep // replay only: leave the workspaces behind for inspection
	} else {
		defer os.RemoveAll(base)
	}
	parent := filepath.Join(base, "plain")
	if h.Parent {
		// no '#' (input options), no ':' (would read as a URL-ish reference), no line terminator
		parent = filepath.Join(base, `par"ent <p>&,%41 é`)
		h.classes["parent"] = true
	}
	oldDir, newDir := filepath.Join(parent, "old"), filepath.Join(parent, "new")
	if err := run.WriteTree(oldDir, c20WorkspaceFiles(sOld, vOld.R, version, lintCfg, breakingCfg)); err != nil {
		c.Note("write: %v", err)
		c.Count("write_failures", 1)
		return
	}
	if err := run.WriteTree(newDir, c20WorkspaceFiles(sNew, vNew.R, version, lintCfg, breakingCfg)); err != nil {
		c.Note("write: %v", err)
		c.Count("write_failures", 1)
		return
	}
	env := run.BufEnv(filepath.Join(c.Tmp, "home"), nil)

	// spelling of the input
	type spelling struct{ name, cwd, input, against string }
	sp := []spelling{
		{"cwd", newDir, "", "../old"},
		{"relative", parent, "new", "old"},
		{"absolute", base, newDir, oldDir},
	}[c.Rand.IntN(3)]
	withInput := func(cmd string, rest ...string) []string {
		args := []string{cmd}
		if sp.input != "" {
			args = append(args, sp.input)
		}
		return append(args, rest...)
	}
	keyBase := fmt.Sprintf("case=%d kind=%s hostile=%s", idx, kind, h)
	bufBin := filepath.Join(core.BinDir(), "buf")

	exec := func(cmd, stream string, args []string, format string) *c20Obs {
		// --timeout=0: buf's default 2-minute deadline would make the verdict depend on the machine's load
		full := append(append([]string{}, args...), "--error-format="+format, "--timeout=0")
		o := run.Buf(sp.cwd, env, nil, full...)
		c.Eval(1)
		r := &c20Obs{cmd: cmd, args: full, format: format, stream: stream, out: o}
		if subprocess {
			started := time.Now()
			so := run.BufExec(bufBin, sp.cwd, env, nil, c20SubprocessTimeout, full...)
			c.Eval(1)
			key := fmt.Sprintf("%s cmd=%s fmt=%s", keyBase, cmd, format)
			if so.Code == -9 && time.Since(started) >= c20SubprocessTimeout {
				// killed by the harness' own guard, not a verdict: keep the in-process observation
				c.Count("subprocess_guard_kills", 1)
				c.Note("subprocess of case %d (%s) killed by the %v guard", idx, strings.Join(full, " "), c20SubprocessTimeout)
				return r
			}
			c.Count("subprocess_runs", 1)
			if so.Code != o.Code {
				c.Violation("subprocess-status-differs", key, fmt.Sprintf("buf %s: the process exits %d, app.GetExitCode of the same command gives %d; stderr=%s", strings.Join(full, " "), so.Code, o.Code, c20Clip(so.Stderr)), nil)
			} else if !strings.HasPrefix(cmd, "format") && (!bytes.Equal(so.Stdout, o.Stdout) || !bytes.Equal(so.Stderr, o.Stderr)) {
				if compileFails {
					// which compile errors are reported varies between runs (see c20CheckFormats)
					c.Count("subprocess_output_varied_compile_errors", 1)
					if c.Replay {
						fmt.Printf("note: buf %s: process printed %q, in-process run printed %q\n", strings.Join(full, " "), c20Clip(append(so.Stdout, so.Stderr...)), c20Clip(append(o.Stdout, o.Stderr...)))
					}
				} else {
					c.Violation("subprocess-output-differs", key, fmt.Sprintf("buf %s: process and in-process output differ: stdout %q vs %q; stderr %q vs %q", strings.Join(full, " "), c20Clip(so.Stdout), c20Clip(o.Stdout), c20Clip(so.Stderr), c20Clip(o.Stderr)), nil)
				}
			}
			// the verdict is decided on what the real process did
			r.out = so
		}
		return r
	}
	all := func(cmd, stream string, args []string) map[string]*c20Obs {
		m := map[string]*c20Obs{}
		for _, f := range c20Formats {
			m[f] = exec(cmd, stream, args, f)
		}
		return m
	}

	// ---- build -------------------------------------------------------------------------------
	buildRuns := all("build", "stderr", withInput("build"))
	var rerunOf func(cmd, stream string, args []string) func(string) *c20Obs
	if compileFails {
		rerunOf = func(cmd, stream string, args []string) func(string) *c20Obs {
			return func(format string) *c20Obs { return exec(cmd, stream, args, format) }
		}
	} else {
		rerunOf = func(string, string, []string) func(string) *c20Obs { return nil }
	}
	buildT := c20CheckFormats(c, keyBase+" cmd=build", buildRuns, nil, rerunOf("build", "stderr", withInput("build")))
	if compileFails && buildRuns["json"].out.Code == 0 {
		c.Violation("compile-error-not-reported", keyBase+" cmd=build", fmt.Sprintf("the compiler rejects the workspace (%v) but buf build exits 0", rc.Errors[0]), nil)
	}
	if !compileFails && buildRuns["json"].out.Code != 0 {
		c.Violation("clean-build-reported", keyBase+" cmd=build", fmt.Sprintf("the compiler accepts the workspace but buf build exits %d: %s", buildRuns["json"].out.Code, c20Clip(buildRuns["json"].out.Stderr)), nil)
	}
	if len(buildT) > 0 {
		c.Count("build_nonempty", 1)
	} else {
		c.Count("build_empty", 1)
	}

	// ---- lint --------------------------------------------------------------------------------
	lintRuns := all("lint", "stdout", withInput("lint"))
	lintT := c20CheckFormats(c, keyBase+" cmd=lint", lintRuns, nil, rerunOf("lint", "stdout", withInput("lint")))
	if compileFails && lintRuns["json"].out.Code == 0 {
		c.Violation("compile-error-not-reported", keyBase+" cmd=lint", fmt.Sprintf("the compiler rejects the workspace (%v) but buf lint exits 0", rc.Errors[0]), nil)
	}
	if len(lintT) > 0 {
		c.Count("lint_nonempty", 1)
	} else {
		c.Count("lint_empty", 1)
	}
	if lintPlanted && !compileFails {
		c.Count("lint_plants_cases", 1)
		if len(lintT) > 0 {
			c.Count("lint_plants_reported", 1)
		}
	}

	// ---- breaking ----------------------------------------------------------------------------
	breakingRuns := all("breaking", "stdout", withInput("breaking", "--against", sp.against))
	breakingT := c20CheckFormats(c, keyBase+" cmd=breaking", breakingRuns, nil, rerunOf("breaking", "stdout", withInput("breaking", "--against", sp.against)))
	if len(breakingT) > 0 {
		c.Count("breaking_nonempty", 1)
	} else {
		c.Count("breaking_empty", 1)
	}

	// ---- format --exit-code ------------------------------------------------------------------
	// ground truth: the harness' own byte comparison of every source with `buf format -o <dir>`
	diffOf := func(srcDir string, v *wsView, tag string) *bool {
		outDir := filepath.Join(base, "fmt-out-"+tag)
		os.RemoveAll(outDir)
		o := run.Buf(base, env, nil, "format", srcDir, "-o", outDir, "--timeout=0")
		c.Eval(1)
		if o.Code != 0 {
			return nil
		}
		d := false
		for p, text := range v.Sources {
			got, err := os.ReadFile(filepath.Join(outDir, filepath.FromSlash(p)))
			if err != nil || string(got) != text {
				d = true
			}
		}
		return &d
	}
	formatBoth := func(tag string, diff *bool, args func(rest ...string) []string) {
		key := keyBase + " cmd=format tree=" + tag
		fmts := c20Formats
		if !c.Thorough() {
			fmts = []string{"text", c20Formats[1+c.Rand.IntN(4)]}
		}
		var statuses []int
		for _, variant := range []string{"format-d", "format"} {
			a := args("--exit-code")
			if variant == "format-d" {
				a = append(a, "-d")
			}
			for _, f := range fmts {
				r := exec(variant, "stderr", a, f)
				ann, _ := r.annotationBytes()
				reported := len(bytes.TrimSpace(ann)) > 0
				c20CheckStatus(c, key+" variant="+variant+" fmt="+f, r, reported, diff)
				statuses = append(statuses, r.out.Code)
				if variant == "format-d" && diff != nil && r.out.Code >= 0 {
					// with -d the difference is the output: status 100 ⇔ a diff was printed
					if printed := len(r.out.Stdout) > 0; printed != *diff {
						c.Violation("format-diff-output", key+" fmt="+f, fmt.Sprintf("buf %s: diff printed=%v but formatted output differs from the sources=%v", strings.Join(r.args, " "), printed, *diff), nil)
					}
				}
				if reported {
					tuples, err := c20Decode(f, ann)
					if err != nil && !((f == "text" || f == "msvs") && h.Newline) {
						c.Violation(f+"-malformed", key+" fmt="+f, fmt.Sprintf("buf %s: stderr annotations do not follow the %s grammar: %v", strings.Join(r.args, " "), f, err), nil)
					}
					c.Count("format_annotations", len(tuples))
				}
			}
		}
		for _, st := range statuses {
			if st != statuses[0] {
				c.Violation("status-differs-between-formats", key, fmt.Sprintf("format --exit-code with and without -d / across --error-format values exits with different statuses: %v", statuses), nil)
				break
			}
		}
		if diff == nil {
			c.Count("format_failed_runs", 1)
		} else if *diff {
			c.Count("format_diff_cases", 1)
		} else {
			c.Count("format_nodiff_cases", 1)
		}
	}
	dNew := diffOf(newDir, vNew, "new")
	formatBoth("as-written", dNew, func(rest ...string) []string { return withInput("format", rest...) })
	if dNew != nil {
		// the formatted tree: sources replaced by the formatter's output; then one file de-formatted again
		fmtDir := filepath.Join(parent, "fmt")
		files := c20WorkspaceFiles(sNew, vNew.R, version, lintCfg, breakingCfg)
		vFmt := &wsView{Sources: map[string]string{}}
		for _, f := range vNew.Files {
			got, err := os.ReadFile(filepath.Join(base, "fmt-out-new", filepath.FromSlash(f.Path)))
			if err != nil {
				continue
			}
			files[f.WSPath()] = string(got)
			vFmt.Sources[f.Path] = string(got)
		}
		mode := c.Rand.IntN(4)
		deformat := mode == 0
		if deformat {
			f := vNew.Files[c.Rand.IntN(len(vNew.Files))]
			text := strings.Replace(files[f.WSPath()], " = ", "   =  ", 1) + "\n\n"
			files[f.WSPath()] = text
			vFmt.Sources[f.Path] = text
		}
		crlf := mode == 1
		if crlf {
			// laid out exactly as the formatter would, but with CRLF line endings: the formatter writes LF, so
			// there IS a difference (the ground truth below is a byte comparison), visible only in the line ends
			f := vNew.Files[c.Rand.IntN(len(vNew.Files))]
			if text := files[f.WSPath()]; !strings.Contains(text, "\r") {
				text = strings.ReplaceAll(text, "\n", "\r\n")
				files[f.WSPath()] = text
				vFmt.Sources[f.Path] = text
				c.Count("format_crlf_cases", 1)
			} else {
				crlf = false
			}
		}
		if err := run.WriteTree(fmtDir, files); err == nil {
			dFmt := diffOf(fmtDir, vFmt, "fmt")
			spf := map[string][2]string{"cwd": {fmtDir, ""}, "relative": {parent, "fmt"}, "absolute": {base, fmtDir}}[sp.name]
			saveCwd := sp.cwd
			sp.cwd = spf[0]
			treeTag := map[bool]string{true: "deformatted", false: "formatted"}[deformat]
			if crlf {
				treeTag = "formatted-crlf"
			}
			formatBoth(treeTag, dFmt, func(rest ...string) []string {
				args := []string{"format"}
				if spf[1] != "" {
					args = append(args, spf[1])
				}
				return append(args, rest...)
			})
			sp.cwd = saveCwd
		}
	}

	bucket := func(n int) string {
		switch {
		case n == 0:
			return "0"
		case n == 1:
			return "1"
		case n < 10:
			return "2-9"
		}
		return "10+"
	}
	var cls []string
	for k := range h.classes {
		cls = append(cls, k)
		c.Distinct("hostile_classes", k)
	}
	sort.Strings(cls)
	c.Nontrivial(fmt.Sprintf("%s %s spell=%s hostile=%s build=%s lint=%s breaking=%s fmtdiff=%v sub=%v", kind, version, sp.name, h, bucket(len(buildT)), bucket(len(lintT)), bucket(len(breakingT)), dNew != nil && *dNew, subprocess))
	c.Distinct("spellings", sp.name+"/"+version)
	if idx < 8 && kind != "clean" {
		sample := map[string]any{"kind": kind, "hostile": h.String(), "classes": cls, "edits": edits, "compile_plants": plants, "spelling": sp.name,
			"build": len(buildT), "lint": len(lintT), "breaking": len(breakingT), "status": map[string]int{"build": buildRuns["json"].out.Code, "lint": lintRuns["json"].out.Code, "breaking": breakingRuns["json"].out.Code}}
		if len(lintT) > 0 {
			sample["first_lint"] = lintT[0].String()
		}
		if len(breakingT) > 0 {
			sample["first_breaking"] = breakingT[0].String()
		}
		c.Sample(sample)
	}
}

func c20Run(c *core.C, idx int) {
	if n := c20WorkspaceCases(c.Tier); idx < n {
		c20Workspace(c, idx)
		return
	} else if m := c20OperationalCases(c.Tier); idx-n < m {
		c20Operational(c, idx-n)
	} else if fr := c20FileRefCases(c.Tier); idx-n-m < fr {
		c20FileRef(c, idx-n-m)
	} else {
		c20FormatWrite(c, idx-n-m-fr)
	}
}

func init() {
	core.Register(&core.Check{
		ID:    "C20",
		Level: "exploration",
		Rule: "PRNG-generated pairs (old, new) of workspaces (1–4 modules, v2 buf.yaml or v1 buf.work.yaml) in four kinds — clean, lint-dirty, hostile-dirty, compile-broken — with 0..n planted lint problems (C11 plants, hostile file names, diverging string options), " +
			"breaking edits (deleted fields/values/files, retyped fields, changed string options and JSON names) and 1–3 compile-error plants (C01 plants incl. missing import, text-level missing ';'); module directories, file names, parent directory, option texts and JSON names drawn from hostile fragments " +
			"(quotes, <>&, comma, %, %-escapes, '::', ]]>, non-ASCII, space; \\n, \\r, \\r\\n in paths); three spellings of the input (cwd, relative, absolute). Every workspace: build, lint, breaking --against old under all five --error-format values, and format --exit-code with and without -d on the tree as written, on the formatter's own output and on a de-formatted copy; " +
			"a quarter of the workspaces additionally as subprocess of the freshly built buf (status and output compared with the in-process run, verdict taken from the process). Then the operational-error catalogue (fault × command, format rotating; thorough: × every format), always as subprocess and in-process. " +
			"distinct/non-trivial = distinct (kind, config version, spelling, hostility set, annotation-count buckets per command, format-diff, subprocess) classes plus distinct (fault, command) pairs",
		Assumptions: []string{
			"encoding/json and encoding/xml (strict mode) are the well-formedness judges; the GitHub Actions decoder re-implements the runner's documented parser (command ends at the first '::', properties split on ',' and '=', unescape %25 %0D %0A %3A %2C)",
			"JSON is the reference list; a field a format does not carry is a wild-card: text has no rule ID, JUnit's testsuite name is the path without '.proto', JUnit/github-actions omit unknown positions, JSON omits the path of a file-less annotation where the others print <input>",
			"text and msvs are compared only when no path/message of the run contains \\n or \\r (one line per annotation, no escape mechanism); github-actions, json and junit are compared for every text",
			"status oracle follows the statement's parenthesis: 100 ⇔ annotations printed ∨ import-not-found ∨ `format --exit-code` found a difference; a syntax error met by `buf format` is reported as `Failure:` with status 1 and counts as 'another non-zero status' (recorded in counter format_failed_runs)",
			"ground truth for 'the compiler rejects the workspace' is a direct protocompile run (harness/ref); for 'format found a difference' the harness' own byte comparison of every source with `buf format -o`",
			"plugins are not exercised (the ' (plugin)' message suffix is modelled in the comparison but no plugin runs)",
		},
		Cases: func(tier string) int {
			return c20WorkspaceCases(tier) + c20OperationalCases(tier) + c20FileRefCases(tier) + c20FormatWriteCases(tier)
		},
		Run:   c20Run,
		Needs: []string{"buf"},
		Required: []string{"build_nonempty", "build_empty", "lint_nonempty", "lint_empty", "breaking_nonempty", "breaking_empty", "format_diff_cases", "format_nodiff_cases", "format_crlf_cases", "fileref_annotations", "format_write_runs",
			"compared_text", "compared_msvs", "compared_junit", "compared_github-actions", "compared_line_terminator_github-actions", "compared_line_terminator_junit",
			"tuples_hostile_path", "tuples_hostile_message", "tuples_without_file", "tuples_line_terminator_in_path",
			"status_0_runs", "status_100_runs", "status_other_runs", "subprocess_runs", "operational_runs", "lint_plants_reported"},
	})
}
