package checks

import (
	"strings"

	"github.com/bufbuild/verifharness/gen"
)

// Catalogue part 4: message / enum options, RPCs, file-level changes (package, syntax, tracked options).

// c03FileOptions: the tracked file options with (set value, changed value, implicit default).
var c03FileOptions = []struct{ Name, Rule, Set, Change, Default string }{
	{"cc_enable_arenas", "FILE_SAME_CC_ENABLE_ARENAS", "false", "true", "true"},
	{"cc_generic_services", "FILE_SAME_CC_GENERIC_SERVICES", "true", "false", "false"},
	{"java_generic_services", "FILE_SAME_JAVA_GENERIC_SERVICES", "true", "false", "false"},
	{"py_generic_services", "FILE_SAME_PY_GENERIC_SERVICES", "true", "false", "false"},
	{"csharp_namespace", "FILE_SAME_CSHARP_NAMESPACE", `"Acme.Set"`, `"Acme.Changed"`, ""},
	{"go_package", "FILE_SAME_GO_PACKAGE", `"example.com/set/setpb"`, `"example.com/changed/changedpb"`, ""},
	{"java_multiple_files", "FILE_SAME_JAVA_MULTIPLE_FILES", "true", "false", "false"},
	{"java_outer_classname", "FILE_SAME_JAVA_OUTER_CLASSNAME", `"SetOuterProto"`, `"ChangedOuterProto"`, ""},
	{"java_package", "FILE_SAME_JAVA_PACKAGE", `"com.acme.set"`, `"com.acme.changed"`, ""},
	{"objc_class_prefix", "FILE_SAME_OBJC_CLASS_PREFIX", `"SET"`, `"CHG"`, ""},
	{"optimize_for", "FILE_SAME_OPTIMIZE_FOR", "CODE_SIZE", "SPEED", "SPEED"},
	{"php_class_prefix", "FILE_SAME_PHP_CLASS_PREFIX", `"Set"`, `"Chg"`, ""},
	{"php_metadata_namespace", "FILE_SAME_PHP_METADATA_NAMESPACE", `"Acme\\Set\\Meta"`, `"Acme\\Chg\\Meta"`, ""},
	{"php_namespace", "FILE_SAME_PHP_NAMESPACE", `"Acme\\Set"`, `"Acme\\Chg"`, ""},
	{"ruby_package", "FILE_SAME_RUBY_PACKAGE", `"Acme::Set"`, `"Acme::Chg"`, ""},
	{"swift_prefix", "FILE_SAME_SWIFT_PREFIX", `"SET"`, `"CHG"`, ""},
}

func fileHasStringField(x *c03Idx, f *gen.File) *c03Field {
	for _, fl := range x.Fields() {
		if _, preset := hasOpt(fl.F.Options, "features.utf8_validation"); fl.Msg.File == f && fl.F.Kind == "scalar" && fl.F.Type == "string" && !preset {
			return &fl
		}
	}
	return nil
}

// renameTypes rewrites every type reference of the schema.
func renameTypes(s *gen.Schema, ren func(string) string) {
	var walkM func(m *gen.Message)
	fixF := func(fl *gen.Field) {
		if fl.Kind == "message" || fl.Kind == "enum" {
			fl.Type = ren(fl.Type)
		}
		if fl.Kind == "map" && fl.MapValK != "scalar" {
			fl.MapVal = ren(fl.MapVal)
		}
	}
	fixX := func(xs []*gen.Extend) {
		for _, x := range xs {
			x.Extendee = ren(x.Extendee)
			for _, fl := range x.Fields {
				fixF(fl)
			}
		}
	}
	walkM = func(m *gen.Message) {
		for _, fl := range m.Fields {
			fixF(fl)
			if fl.Group != nil {
				walkM(fl.Group)
			}
		}
		for _, n := range m.Nested {
			walkM(n)
		}
		fixX(m.Extends)
	}
	for _, f := range s.AllFiles() {
		for _, m := range f.Messages {
			walkM(m)
		}
		fixX(f.Extends)
		for _, sv := range f.Services {
			for _, m := range sv.Methods {
				m.In, m.Out = ren(m.In), ren(m.Out)
			}
		}
	}
}

// enumUsedFromProto3: a proto3 field may only refer to open enums, so such an enum cannot become closed.
func enumUsedFromProto3(x *c03Idx, enumFull string) bool {
	for _, f := range x.Fields() {
		if f.Msg.File.Syntax != "proto3" {
			continue
		}
		if (f.F.Kind == "enum" && f.F.Type == enumFull) || (f.F.Kind == "map" && f.F.MapValK == "enum" && f.F.MapVal == enumFull) {
			return true
		}
	}
	return false
}

func anyEnumOfFileUsedFromProto3(x *c03Idx, f *gen.File) bool {
	for _, en := range x.Enums {
		if en.File == f && enumUsedFromProto3(x, en.Full) {
			return true
		}
	}
	return false
}

// convertSyntax rewrites a file to another syntax, keeping the declarations; ok=false if the file uses
// something the target syntax cannot express (the operator is then not applicable).
func convertSyntax(x *c03Idx, f *gen.File, to string) bool {
	from := f.Syntax
	if from == "" {
		from = "proto2"
	}
	if from == to {
		return false
	}
	ok := true
	if to == "proto2" {
		// the file's enums become closed; other proto3 files (this one no longer is) must not use them
		f.Syntax = to
		if anyEnumOfFileUsedFromProto3(x, f) {
			f.Syntax = from
			return false
		}
	}
	var walk func(m *gen.Message, top bool)
	fixField := func(fl *gen.Field, inExtend bool) {
		var keep []gen.Opt
		for _, o := range fl.Options {
			if strings.HasPrefix(o.Name, "features.") || (o.Name == "packed" && to == "editions") {
				continue
			}
			keep = append(keep, o)
		}
		fl.Options = keep
		if fl.Kind == "group" || fl.Label == "required" {
			ok = ok && to == "proto2"
		}
		if fl.Default != "" && to == "proto3" {
			ok = false
		}
		if fl.Kind == "enum" && to == "proto3" {
			if en := x.Enum(fl.Type); en != nil && en.File != f && (en.File.Syntax == "proto2" || en.File.Syntax == "") {
				ok = false // proto3 may not refer to a closed enum
			}
		}
		if fl.Kind == "map" && fl.MapValK == "enum" && to == "proto3" {
			if en := x.Enum(fl.MapVal); en != nil && en.File != f && (en.File.Syntax == "proto2" || en.File.Syntax == "") {
				ok = false
			}
		}
		if fl.Kind == "map" || fl.Label == "repeated" || fl.Label == "required" || fl.Oneof != "" {
			return
		}
		switch to {
		case "proto2":
			fl.Label = "optional"
		case "proto3":
			if fl.Kind == "message" || inExtend {
				fl.Label = ""
			} else {
				fl.Label = "optional"
			}
		case "editions":
			fl.Label = ""
		}
	}
	fixOpts := func(opts []gen.Opt) []gen.Opt {
		var keep []gen.Opt
		for _, o := range opts {
			if !strings.HasPrefix(o.Name, "features.") {
				keep = append(keep, o)
			}
		}
		return keep
	}
	walk = func(m *gen.Message, top bool) {
		m.Options = fixOpts(m.Options)
		if to == "proto3" && (len(m.ExtRanges) > 0 || len(m.Extends) > 0) {
			ok = false
		}
		for _, fl := range m.Fields {
			fixField(fl, false)
			if fl.Group != nil {
				walk(fl.Group, false)
			}
		}
		for _, n := range m.Nested {
			walk(n, false)
		}
		for _, en := range m.Enums {
			en.Options = fixOpts(en.Options)
		}
		for _, ex := range m.Extends {
			for _, fl := range ex.Fields {
				fixField(fl, true)
			}
		}
	}
	for _, m := range f.Messages {
		walk(m, true)
	}
	for _, en := range f.Enums {
		en.Options = fixOpts(en.Options)
	}
	if len(f.Extends) > 0 && to == "proto3" {
		ok = false
	}
	for _, ex := range f.Extends {
		for _, fl := range ex.Fields {
			fixField(fl, true)
		}
	}
	f.Options = fixOpts(f.Options)
	if to == "editions" {
		f.Options = delOpt(f.Options, "java_string_check_utf8")
	}
	f.Syntax = to
	return ok
}

func init() {
	proto2File := func(f *gen.File) bool { return f.Syntax == "proto2" || f.Syntax == "" }

	// required fields -----------------------------------------------------------------------------
	c03Reg("required-field-add", []string{"MESSAGE_SAME_REQUIRED_FIELDS"}, msgSites(func(x *c03Idx, m *c03Msg) bool { return proto2File(m.File) }),
		func(e *c03Env, st c03Site) []c03Expect {
			m := e.New.Msg(st.A)
			var oldM *gen.Message
			if om := e.Old.Msg(st.A); om != nil {
				oldM = om.M
			}
			num := freshFieldNumber(50+e.R.IntN(50), m.M, oldM)
			name := freshFieldName("new_required", m.M, oldM)
			m.M.Fields = append(m.M.Fields, &gen.Field{Name: name, Number: num, Label: "required", Kind: "scalar", Type: "int32", Comment: "Newly required."})
			return []c03Expect{{Rule: "MESSAGE_SAME_REQUIRED_FIELDS", AnyOf: []string{m.M.Name, q(num)}, File: m.File.Path, Spans: []string{msgSpanKey(e.New, m.Full)}}}
		})
	c03Reg("required-field-delete-number-reserved", []string{"MESSAGE_SAME_REQUIRED_FIELDS", "FIELD_NO_DELETE"}, fieldSites(func(f c03Field) bool { return f.F.Label == "required" && f.F.Kind != "group" }),
		func(e *c03Env, st c03Site) []c03Expect {
			m := e.New.Msg(st.A)
			fl := m.Field(st.B)
			removeField(m.M, fl.Name)
			m.M.ReservedRanges = append(m.M.ReservedRanges, gen.Range{Lo: fl.Number, Hi: fl.Number})
			sp := []string{msgSpanKey(e.New, m.Full)}
			return []c03Expect{{Rule: "MESSAGE_SAME_REQUIRED_FIELDS", AnyOf: []string{m.M.Name, q(fl.Number)}, File: m.File.Path, Spans: sp},
				{Rule: "FIELD_NO_DELETE", AnyOf: []string{fl.Name, q(fl.Number)}, File: m.File.Path, Spans: sp}}
		})

	// message / enum options ----------------------------------------------------------------------
	c03Reg("message-no-standard-descriptor-accessor", []string{"MESSAGE_NO_REMOVE_STANDARD_DESCRIPTOR_ACCESSOR"},
		msgSites(func(x *c03Idx, m *c03Msg) bool {
			_, ok := hasOpt(m.M.Options, "no_standard_descriptor_accessor")
			return !m.Group && !ok
		}),
		func(e *c03Env, st c03Site) []c03Expect {
			m := e.New.Msg(st.A)
			m.M.Options = setOpt(m.M.Options, "no_standard_descriptor_accessor", "true")
			return []c03Expect{{Rule: "MESSAGE_NO_REMOVE_STANDARD_DESCRIPTOR_ACCESSOR", AnyOf: []string{m.M.Name, "no_standard_descriptor_accessor"}, File: m.File.Path, Spans: []string{msgSpanKey(e.New, m.Full)}}}
		})
	editions := func(f *gen.File) bool { return f.Syntax == "editions" }
	c03Reg("message-json-format-legacy", []string{"MESSAGE_SAME_JSON_FORMAT"}, msgSites(func(x *c03Idx, m *c03Msg) bool { return editions(m.File) && !m.Group }),
		func(e *c03Env, st c03Site) []c03Expect {
			m := e.New.Msg(st.A)
			m.M.Options = setOpt(m.M.Options, "features.json_format", "LEGACY_BEST_EFFORT")
			return []c03Expect{{Rule: "MESSAGE_SAME_JSON_FORMAT", AnyOf: []string{m.M.Name}, File: m.File.Path, Spans: []string{msgSpanKey(e.New, m.Full)}}}
		})
	c03Reg("enum-json-format-legacy", []string{"ENUM_SAME_JSON_FORMAT"}, enumSites(func(x *c03Idx, en *c03Enum) bool { return editions(en.File) }),
		func(e *c03Env, st c03Site) []c03Expect {
			en := e.New.Enum(st.A)
			en.E.Options = setOpt(en.E.Options, "features.json_format", "LEGACY_BEST_EFFORT")
			return []c03Expect{{Rule: "ENUM_SAME_JSON_FORMAT", AnyOf: []string{en.E.Name}, File: en.File.Path, Spans: []string{"enum:" + en.Full}}}
		})
	c03Reg("enum-type-closed", []string{"ENUM_SAME_TYPE"}, enumSites(func(x *c03Idx, en *c03Enum) bool { return editions(en.File) && !enumUsedFromProto3(x, en.Full) }),
		func(e *c03Env, st c03Site) []c03Expect {
			en := e.New.Enum(st.A)
			en.E.Options = setOpt(en.E.Options, "features.enum_type", "CLOSED")
			return []c03Expect{{Rule: "ENUM_SAME_TYPE", AnyOf: []string{en.E.Name}, File: en.File.Path, Spans: []string{"enum:" + en.Full}}}
		})
	// the same features set for the whole file
	fileFeature := func(name, feature, value string, rules []string) {
		c03Reg(name, rules, fileSites(func(x *c03Idx, f *gen.File) bool { return editions(f) }), func(e *c03Env, st c03Site) []c03Expect {
			f := e.New.S.FileByPath(st.A)
			if value == "CLOSED" && anyEnumOfFileUsedFromProto3(e.New, f) {
				return nil
			}
			f.Options = setOpt(f.Options, feature, value)
			var exp []c03Expect
			for _, r := range rules {
				switch r {
				case "MESSAGE_SAME_JSON_FORMAT":
					for _, m := range e.New.Msgs {
						if m.File == f && !m.Group {
							exp = append(exp, c03Expect{Rule: r, AnyOf: []string{m.M.Name}, File: f.Path, Spans: []string{"message:" + m.Full}, FileLevel: true})
						}
					}
				case "ENUM_SAME_JSON_FORMAT", "ENUM_SAME_TYPE":
					for _, en := range e.New.Enums {
						if en.File == f {
							exp = append(exp, c03Expect{Rule: r, AnyOf: []string{en.E.Name}, File: f.Path, Spans: []string{"enum:" + en.Full}, FileLevel: true})
						}
					}
				case "FIELD_SAME_UTF8_VALIDATION":
					if fl := fileHasStringField(e.New, f); fl != nil {
						exp = append(exp, c03Expect{Rule: r, AnyOf: []string{fl.F.Name, q(fl.F.Number)}, File: f.Path, FileLevel: true})
					}
				}
			}
			if len(exp) > 6 {
				exp = exp[:6]
			}
			return exp
		})
	}
	fileFeature("file-json-format-legacy", "features.json_format", "LEGACY_BEST_EFFORT", []string{"MESSAGE_SAME_JSON_FORMAT", "ENUM_SAME_JSON_FORMAT"})
	fileFeature("file-enum-type-closed", "features.enum_type", "CLOSED", []string{"ENUM_SAME_TYPE"})
	fileFeature("file-utf8-validation-none", "features.utf8_validation", "NONE", []string{"FIELD_SAME_UTF8_VALIDATION"})

	// java_string_check_utf8 (proto2 files: proto3 strings are always verified) -----------------------
	c03Reg("file-java-string-check-utf8-flip", []string{"FIELD_SAME_JAVA_UTF8_VALIDATION"},
		fileSites(func(x *c03Idx, f *gen.File) bool { return proto2File(f) && fileHasStringField(x, f) != nil }),
		func(e *c03Env, st c03Site) []c03Expect {
			f := e.New.S.FileByPath(st.A)
			if v, ok := hasOpt(f.Options, "java_string_check_utf8"); ok && v == "true" {
				f.Options = delOpt(f.Options, "java_string_check_utf8")
			} else {
				f.Options = setOpt(f.Options, "java_string_check_utf8", "true")
			}
			fl := fileHasStringField(e.New, f)
			return []c03Expect{{Rule: "FIELD_SAME_JAVA_UTF8_VALIDATION", AnyOf: []string{fl.F.Name, q(fl.F.Number)}, File: f.Path, FileLevel: true}}
		})

	// RPCs ----------------------------------------------------------------------------------------
	rpcExp := func(rule string, f *gen.File, st c03Site) []c03Expect {
		return []c03Expect{{Rule: rule, AnyOf: []string{st.B}, File: f.Path, Spans: []string{"rpc:" + st.A + "." + st.B}}}
	}
	otherMsgInFile := func(x *c03Idx, f *gen.File, not ...string) string {
		for _, m := range x.Msgs {
			if m.File == f && !m.Group && m.Full != not[0] && m.Full != not[1] {
				return m.Full
			}
		}
		return ""
	}
	c03Reg("rpc-request-type", []string{"RPC_SAME_REQUEST_TYPE"}, rpcSites(nil), func(e *c03Env, st c03Site) []c03Expect {
		f, _, m := findRPC(e.New.S, st)
		to := otherMsgInFile(e.New, f, m.In, m.Out)
		if to == "" {
			return nil
		}
		m.In = to
		return rpcExp("RPC_SAME_REQUEST_TYPE", f, st)
	})
	c03Reg("rpc-response-type", []string{"RPC_SAME_RESPONSE_TYPE"}, rpcSites(nil), func(e *c03Env, st c03Site) []c03Expect {
		f, _, m := findRPC(e.New.S, st)
		to := otherMsgInFile(e.New, f, m.In, m.Out)
		if to == "" {
			return nil
		}
		m.Out = to
		return rpcExp("RPC_SAME_RESPONSE_TYPE", f, st)
	})
	c03Reg("rpc-client-streaming-toggle", []string{"RPC_SAME_CLIENT_STREAMING"}, rpcSites(nil), func(e *c03Env, st c03Site) []c03Expect {
		f, _, m := findRPC(e.New.S, st)
		m.ClientStream = !m.ClientStream
		return rpcExp("RPC_SAME_CLIENT_STREAMING", f, st)
	})
	c03Reg("rpc-server-streaming-toggle", []string{"RPC_SAME_SERVER_STREAMING"}, rpcSites(nil), func(e *c03Env, st c03Site) []c03Expect {
		f, _, m := findRPC(e.New.S, st)
		m.ServerStream = !m.ServerStream
		return rpcExp("RPC_SAME_SERVER_STREAMING", f, st)
	})
	hasIdem := func(m *gen.Method) bool { _, ok := hasOpt(m.Options, "idempotency_level"); return ok }
	c03Reg("rpc-idempotency-set", []string{"RPC_SAME_IDEMPOTENCY_LEVEL"}, rpcSites(func(m *gen.Method) bool { return !hasIdem(m) }), func(e *c03Env, st c03Site) []c03Expect {
		f, _, m := findRPC(e.New.S, st)
		m.Options = setOpt(m.Options, "idempotency_level", []string{"NO_SIDE_EFFECTS", "IDEMPOTENT"}[e.R.IntN(2)])
		return rpcExp("RPC_SAME_IDEMPOTENCY_LEVEL", f, st)
	})
	c03Reg("rpc-idempotency-change", []string{"RPC_SAME_IDEMPOTENCY_LEVEL"}, rpcSites(hasIdem), func(e *c03Env, st c03Site) []c03Expect {
		f, _, m := findRPC(e.New.S, st)
		v, _ := hasOpt(m.Options, "idempotency_level")
		nv := "IDEMPOTENT"
		if v == "IDEMPOTENT" {
			nv = "NO_SIDE_EFFECTS"
		}
		m.Options = setOpt(m.Options, "idempotency_level", nv)
		return rpcExp("RPC_SAME_IDEMPOTENCY_LEVEL", f, st)
	})
	c03Reg("rpc-idempotency-clear", []string{"RPC_SAME_IDEMPOTENCY_LEVEL"}, rpcSites(func(m *gen.Method) bool {
		v, ok := hasOpt(m.Options, "idempotency_level")
		return ok && v != "IDEMPOTENCY_UNKNOWN"
	}), func(e *c03Env, st c03Site) []c03Expect {
		f, _, m := findRPC(e.New.S, st)
		m.Options = delOpt(m.Options, "idempotency_level")
		return rpcExp("RPC_SAME_IDEMPOTENCY_LEVEL", f, st)
	})

	// package -----------------------------------------------------------------------------------------
	declaresOptionExt := func(f *gen.File) bool {
		for _, ex := range f.Extends {
			if strings.HasPrefix(ex.Extendee, "google.protobuf.") {
				return true
			}
		}
		return false
	}
	c03Reg("file-package-change", []string{"FILE_SAME_PACKAGE"}, fileSites(func(x *c03Idx, f *gen.File) bool { return f.Package != "" && !declaresOptionExt(f) }),
		func(e *c03Env, st c03Site) []c03Expect {
			f := e.New.S.FileByPath(st.A)
			oldPkg := f.Package
			newPkg := oldPkg + "moved"
			top := map[string]bool{}
			for _, m := range f.Messages {
				top[m.Name] = true
			}
			for _, en := range f.Enums {
				top[en.Name] = true
			}
			ren := func(t string) string {
				if !strings.HasPrefix(t, oldPkg+".") {
					return t
				}
				rest := strings.TrimPrefix(t, oldPkg+".")
				first, _, _ := strings.Cut(rest, ".")
				if top[first] {
					return newPkg + "." + rest
				}
				return t
			}
			renameTypes(e.New.S, ren)
			f.Package = newPkg
			if !importGraphAcyclic(e.New.S) {
				return nil
			}
			return []c03Expect{{Rule: "FILE_SAME_PACKAGE", AnyOf: []string{newPkg, oldPkg}, File: f.Path, FileLevel: true}}
		})

	// syntax -------------------------------------------------------------------------------------------
	for _, to := range []string{"proto2", "proto3", "editions"} {
		to := to
		c03Reg("file-syntax-to-"+to, []string{"FILE_SAME_SYNTAX", "ENUM_SAME_TYPE", "FIELD_SAME_UTF8_VALIDATION"},
			fileSites(func(x *c03Idx, f *gen.File) bool {
				from := f.Syntax
				if from == "" {
					from = "proto2"
				}
				return from != to
			}),
			func(e *c03Env, st c03Site) []c03Expect {
				f := e.New.S.FileByPath(st.A)
				from := f.Syntax
				if from == "" {
					from = "proto2"
				}
				strField := fileHasStringField(e.New, f) // chosen before the conversion strips feature options
				if !convertSyntax(e.New, f, to) {
					return nil
				}
				e.Tag = from + "->" + to
				exp := []c03Expect{{Rule: "FILE_SAME_SYNTAX", AnyOf: []string{"syntax", to}, File: f.Path, FileLevel: true}}
				if (from == "proto2") != (to == "proto2") {
					// proto2 enums are closed and proto2 strings unverified; proto3 / edition 2023 defaults are open and verified
					n := 0
					for _, en := range e.New.Enums {
						if en.File == f && n < 3 {
							exp = append(exp, c03Expect{Rule: "ENUM_SAME_TYPE", AnyOf: []string{en.E.Name}, File: f.Path, Spans: []string{"enum:" + en.Full}, FileLevel: true})
							n++
						}
					}
					if fl := strField; fl != nil {
						exp = append(exp, c03Expect{Rule: "FIELD_SAME_UTF8_VALIDATION", AnyOf: []string{fl.F.Name, q(fl.F.Number)}, File: f.Path, FileLevel: true})
					}
				}
				return exp
			})
	}

	// tracked file options: set, change, clear ------------------------------------------------------------
	for _, fo := range c03FileOptions {
		fo := fo
		exp := func(f *gen.File) []c03Expect {
			return []c03Expect{{Rule: fo.Rule, AnyOf: []string{fo.Name}, File: f.Path, FileLevel: true}}
		}
		has := func(f *gen.File) (string, bool) { return hasOpt(f.Options, fo.Name) }
		c03Reg("file-option-"+fo.Name+"-set", []string{fo.Rule}, fileSites(func(x *c03Idx, f *gen.File) bool { _, ok := has(f); return !ok }),
			func(e *c03Env, st c03Site) []c03Expect {
				f := e.New.S.FileByPath(st.A)
				f.Options = setOpt(f.Options, fo.Name, fo.Set)
				return exp(f)
			})
		c03Reg("file-option-"+fo.Name+"-change", []string{fo.Rule}, fileSites(func(x *c03Idx, f *gen.File) bool { _, ok := has(f); return ok }),
			func(e *c03Env, st c03Site) []c03Expect {
				f := e.New.S.FileByPath(st.A)
				v, _ := has(f)
				nv := fo.Change
				if v == nv {
					nv = fo.Set
				}
				f.Options = setOpt(f.Options, fo.Name, nv)
				return exp(f)
			})
		c03Reg("file-option-"+fo.Name+"-clear", []string{fo.Rule}, fileSites(func(x *c03Idx, f *gen.File) bool { v, ok := has(f); return ok && v != fo.Default }),
			func(e *c03Env, st c03Site) []c03Expect {
				f := e.New.S.FileByPath(st.A)
				f.Options = delOpt(f.Options, fo.Name)
				return exp(f)
			})
	}
}
