package checks

import (
	_ "embed"
	"encoding/json"
	"fmt"
	"path"
	"sort"
	"strings"

	"github.com/bufbuild/verifharness/gen"
)

// The lint-plant catalogue. catalog/lint_plants.json states, per plant, the rules it is designed
// to trip (its *stated* set); the operators below implement the edits. A plant enumerates its
// applicable sites on a schema; applying it at one site edits the schema and returns the exact
// expected annotations of the element-level rules. What the file-/package-level rules must then
// report is computed by c05GlobalExpect on the edited schema.

//go:embed catalog/validate.proto
var c05ValidateProto string

type c05PlantSpec struct {
	ID    string   `json:"id"`
	Rules []string `json:"rules"` // stated set ([] for a conforming edit that must stay silent)
	Note  string   `json:"note,omitempty"`
}

type c05Site struct {
	Desc  string
	Apply func(x *c05Ctx) []c05Expect
}

type c05Plant struct {
	Spec  c05PlantSpec
	Sites func(x *c05Ctx) []c05Site
}

func c05LoadPlantSpecs() ([]c05PlantSpec, error) {
	data, err := c06Catalog.ReadFile("catalog/lint_plants.json")
	if err != nil {
		return nil, err
	}
	var specs []c05PlantSpec
	if err := json.Unmarshal(data, &specs); err != nil {
		return nil, err
	}
	return specs, nil
}

var c05Operators = map[string]func(x *c05Ctx) []c05Site{}

func c05Plants() ([]*c05Plant, error) {
	specs, err := c05LoadPlantSpecs()
	if err != nil {
		return nil, err
	}
	var out []*c05Plant
	seen := map[string]bool{}
	for _, sp := range specs {
		op := c05Operators[sp.ID]
		if op == nil {
			return nil, fmt.Errorf("catalogue plant %q has no operator", sp.ID)
		}
		seen[sp.ID] = true
		out = append(out, &c05Plant{Spec: sp, Sites: op})
	}
	for id := range c05Operators {
		if !seen[id] {
			return nil, fmt.Errorf("operator %q is not in the catalogue", id)
		}
	}
	return out, nil
}

// ---- helpers -----------------------------------------------------------------------------

func exp1(rule string, e *c05Elem) c05Expect { return c05Expect{rule, e.File.Path, e.key()} }

// elemOp builds an operator from an element filter and an edit.
func elemOp(keep func(x *c05Ctx, e *c05Elem) bool, apply func(x *c05Ctx, e *c05Elem) []c05Expect) func(x *c05Ctx) []c05Site {
	return func(x *c05Ctx) []c05Site {
		var sites []c05Site
		for _, e := range c05Elems(x.S, func(e *c05Elem) bool { return keep(x, e) }) {
			e := e
			sites = append(sites, c05Site{Desc: e.desc(), Apply: func(x *c05Ctx) []c05Expect { return apply(x, e) }})
		}
		return sites
	}
}

func rpcTypes(s *gen.Schema) map[string]bool {
	out := map[string]bool{}
	for _, f := range s.AllFiles() {
		for _, sv := range f.Services {
			for _, m := range sv.Methods {
				out[m.In], out[m.Out] = true, true
			}
		}
	}
	return out
}

func c05IsOptionExtension(e *c05Elem) bool {
	return e.Kind == "extension" && strings.HasPrefix(e.Ext.Extendee, "google.protobuf.") && strings.HasSuffix(e.Ext.Extendee, "Options")
}

// declaresOptionExtension: the message (or a nested one) declares an extension of a descriptor
// options message; such extensions are referred to by their full name in option statements, so
// the message is not renamed.
func declaresOptionExtension(m *gen.Message) bool {
	for _, x := range m.Extends {
		if strings.HasPrefix(x.Extendee, "google.protobuf.") && strings.HasSuffix(x.Extendee, "Options") {
			return true
		}
	}
	for _, n := range m.Nested {
		if declaresOptionExtension(n) {
			return true
		}
	}
	return false
}

func fileDeclaresOptionExtension(f *gen.File) bool {
	for _, x := range f.Extends {
		if strings.HasPrefix(x.Extendee, "google.protobuf.") && strings.HasSuffix(x.Extendee, "Options") {
			return true
		}
	}
	for _, m := range f.Messages {
		if declaresOptionExtension(m) {
			return true
		}
	}
	return false
}

func renameMessage(x *c05Ctx, e *c05Elem, newName string) {
	old := joinName(e.Scope, e.Msg.Name)
	e.Msg.Name = newName
	c05RenameType(x.S, old, joinName(e.Scope, newName))
}

func renameEnum(x *c05Ctx, e *c05Elem, newName string) {
	old := joinName(e.Scope, e.Enum.Name)
	e.Enum.Name = newName
	c05RenameType(x.S, old, joinName(e.Scope, newName))
}

func typeLeaf(t string) string {
	if i := strings.LastIndex(t, "."); i >= 0 {
		return t[i+1:]
	}
	return t
}

// findMessage returns the element of the message with the given full name.
func findMessage(s *gen.Schema, full string) *c05Elem {
	var out *c05Elem
	c05Walk(s, func(e *c05Elem) {
		if e.Kind == "message" && joinName(e.Scope, e.Msg.Name) == full {
			cp := *e
			out = &cp
		}
	})
	return out
}

func rpcElemsOf(s *gen.Schema, sv *gen.Service) []*c05Elem {
	return c05Elems(s, func(e *c05Elem) bool { return e.Kind == "rpc" && e.Svc == sv })
}

func filesOfPackage(m *gen.Module, pkg string) []*gen.File {
	var out []*gen.File
	for _, f := range m.Files {
		if f.Package == pkg {
			out = append(out, f)
		}
	}
	return out
}

type pkgSite struct {
	Mod   int
	Pkg   string
	Files []*gen.File
}

func packageSites(s *gen.Schema) []pkgSite {
	var out []pkgSite
	for mi, m := range s.Modules {
		seen := map[string]bool{}
		for _, f := range m.Files {
			if f.Package == "" || seen[f.Package] {
				continue
			}
			seen[f.Package] = true
			out = append(out, pkgSite{mi, f.Package, filesOfPackage(m, f.Package)})
		}
	}
	return out
}

func pkgDesc(p pkgSite) string {
	mc := "m0"
	if p.Mod > 0 {
		mc = "mN"
	}
	n := "1file"
	if len(p.Files) > 1 {
		n = "Nfiles"
	}
	return fmt.Sprintf("package/%s/%s", mc, n)
}

func fileDesc(s *gen.Schema, f *gen.File) string {
	for mi, m := range s.Modules {
		for fi, g := range m.Files {
			if g == f {
				mc, fc := "m0", "f0"
				if mi > 0 {
					mc = "mN"
				}
				if fi > 0 {
					fc = "fN"
				}
				hdr := ""
				if f.Header != "" {
					hdr = "/after-header"
				}
				return fmt.Sprintf("file/%s%s/%s%s", mc, fc, f.Syntax, hdr)
			}
		}
	}
	return "file/?"
}

// pkgOp builds an operator over the packages of each module.
func pkgOp(keep func(x *c05Ctx, p pkgSite) bool, apply func(x *c05Ctx, p pkgSite) []c05Expect) func(x *c05Ctx) []c05Site {
	return func(x *c05Ctx) []c05Site {
		var sites []c05Site
		for _, p := range packageSites(x.S) {
			if !keep(x, p) {
				continue
			}
			p := p
			sites = append(sites, c05Site{Desc: pkgDesc(p), Apply: func(x *c05Ctx) []c05Expect { return apply(x, p) }})
		}
		return sites
	}
}

func fileOp(keep func(x *c05Ctx, f *gen.File) bool, apply func(x *c05Ctx, f *gen.File) []c05Expect) func(x *c05Ctx) []c05Site {
	return func(x *c05Ctx) []c05Site {
		var sites []c05Site
		for _, f := range x.S.AllFiles() {
			if !keep(x, f) {
				continue
			}
			f := f
			sites = append(sites, c05Site{Desc: fileDesc(x.S, f), Apply: func(x *c05Ctx) []c05Expect { return apply(x, f) }})
		}
		return sites
	}
}

func anyPkg(*c05Ctx, pkgSite) bool { return true }

// newSmallFile adds a lint-clean file with one message to a module.
func newSmallFile(x *c05Ctx, mod int, filePath, pkg, syntax string, opts []gen.Opt) (*gen.File, *gen.Message) {
	n := x.fresh()
	m := &gen.Message{Name: fmt.Sprintf("Probe%d", n), Comment: "Probe message.", OneofComments: map[string]string{},
		Fields: []*gen.Field{{Name: "probe_value", Number: 1, Kind: "scalar", Type: "string", Comment: "The probe value."}}}
	if syntax == "proto2" {
		m.Fields[0].Label = "optional"
	}
	f := &gen.File{Path: filePath, Syntax: syntax, Package: pkg, Messages: []*gen.Message{m}, Options: append([]gen.Opt{}, opts...)}
	x.S.Modules[mod].Files = append(x.S.Modules[mod].Files, f)
	return f, m
}

// importsTransitively reports whether file a (transitively) imports file path b.
func importsTransitively(s *gen.Schema, a *gen.File, b string) bool {
	seen := map[string]bool{}
	var dfs func(f *gen.File) bool
	dfs = func(f *gen.File) bool {
		if f == nil || seen[f.Path] {
			return false
		}
		seen[f.Path] = true
		for _, im := range s.ImportsOf(f) {
			if im.Path == b || dfs(s.FileByPath(im.Path)) {
				return true
			}
		}
		return false
	}
	return dfs(a)
}

func moduleIndexOf(s *gen.Schema, f *gen.File) int {
	for i, m := range s.Modules {
		for _, g := range m.Files {
			if g == f {
				return i
			}
		}
	}
	return -1
}

// moduleDependsOn: module a has a file importing a file of module b (transitively over modules).
func moduleDependsOn(s *gen.Schema, a, b int) bool {
	dep := map[int]map[int]bool{}
	for i, m := range s.Modules {
		dep[i] = map[int]bool{}
		for _, f := range m.Files {
			for _, im := range s.ImportsOf(f) {
				if g := s.FileByPath(im.Path); g != nil {
					if j := moduleIndexOf(s, g); j != i {
						dep[i][j] = true
					}
				}
			}
		}
	}
	seen := map[int]bool{}
	var dfs func(i int) bool
	dfs = func(i int) bool {
		if i == b {
			return true
		}
		if seen[i] {
			return false
		}
		seen[i] = true
		for j := range dep[i] {
			if dfs(j) {
				return true
			}
		}
		return false
	}
	for j := range dep[a] {
		if dfs(j) {
			return true
		}
	}
	return false
}

func firstMessageFull(f *gen.File) string {
	if len(f.Messages) == 0 {
		return ""
	}
	return joinName(f.Package, f.Messages[0].Name)
}

func isPlainSingular(e *c05Elem) bool {
	fl := e.Field
	return e.Kind == "field" && fl.Oneof == "" && fl.Kind != "map" && fl.Kind != "group" && fl.Label != "repeated"
}

const c05Directive = "buf:lint:ignore ENUM_PASCAL_CASE"

func commentOps(kind, rule string, get func(e *c05Elem) *string) {
	keep := func(x *c05Ctx, e *c05Elem) bool {
		if kind == "field" {
			return (e.Kind == "field" || e.Kind == "extension") && e.Field.Kind != "group"
		}
		return e.Kind == kind
	}
	name := kind
	if kind == "enumvalue" {
		name = "enum-value"
	}
	c05Operators["comment-"+name+"-removed"] = elemOp(keep, func(x *c05Ctx, e *c05Elem) []c05Expect {
		*get(e) = ""
		return []c05Expect{exp1(rule, e)}
	})
	c05Operators["comment-"+name+"-directive-only"] = elemOp(keep, func(x *c05Ctx, e *c05Elem) []c05Expect {
		*get(e) = c05Directive
		return []c05Expect{exp1(rule, e)}
	})
	c05Operators["comment-"+name+"-blank"] = elemOp(keep, func(x *c05Ctx, e *c05Elem) []c05Expect {
		*get(e) = "\n"
		return []c05Expect{exp1(rule, e)}
	})
}

func init() {
	ops := c05Operators

	// ---- case of names --------------------------------------------------------------------
	notRPCMessage := func(x *c05Ctx, e *c05Elem) bool {
		return e.Kind == "message" && !rpcTypes(x.S)[joinName(e.Scope, e.Msg.Name)] && !declaresOptionExtension(e.Msg)
	}
	ops["message-snake-case"] = elemOp(notRPCMessage, func(x *c05Ctx, e *c05Elem) []c05Expect {
		renameMessage(x, e, fmt.Sprintf("bad_message_%d", x.fresh()))
		return []c05Expect{exp1("MESSAGE_PASCAL_CASE", e)}
	})
	ops["message-camel-case"] = elemOp(notRPCMessage, func(x *c05Ctx, e *c05Elem) []c05Expect {
		renameMessage(x, e, fmt.Sprintf("badMessage%d", x.fresh()))
		return []c05Expect{exp1("MESSAGE_PASCAL_CASE", e)}
	})
	ops["message-rpc-request-snake-case"] = func(x *c05Ctx) []c05Site {
		var sites []c05Site
		for _, r := range c05Elems(x.S, func(e *c05Elem) bool { return e.Kind == "rpc" }) {
			r := r
			if me := findMessage(x.S, r.Rpc.In); me != nil {
				sites = append(sites, c05Site{Desc: "rpc-request-message/" + r.desc(), Apply: func(x *c05Ctx) []c05Expect {
					renameMessage(x, me, snakeOf(me.Msg.Name))
					return []c05Expect{exp1("MESSAGE_PASCAL_CASE", me), exp1("RPC_REQUEST_STANDARD_NAME", r)}
				}})
			}
		}
		return sites
	}
	isEnum := func(x *c05Ctx, e *c05Elem) bool { return e.Kind == "enum" }
	ops["enum-snake-case"] = elemOp(func(x *c05Ctx, e *c05Elem) bool {
		if e.Kind != "enum" {
			return false
		}
		if e.Msg != nil {
			// a nested enum shares its scope with the message's fields and oneofs
			for _, fl := range e.Msg.Fields {
				if fl.Name == snakeOf(e.Enum.Name) || fl.Oneof == snakeOf(e.Enum.Name) {
					return false
				}
			}
		}
		return true
	}, func(x *c05Ctx, e *c05Elem) []c05Expect {
		renameEnum(x, e, snakeOf(e.Enum.Name))
		return []c05Expect{exp1("ENUM_PASCAL_CASE", e)}
	})
	ops["enum-camel-case"] = elemOp(isEnum, func(x *c05Ctx, e *c05Elem) []c05Expect {
		renameEnum(x, e, lowerFirst(e.Enum.Name))
		return []c05Expect{exp1("ENUM_PASCAL_CASE", e)}
	})
	isService := func(x *c05Ctx, e *c05Elem) bool { return e.Kind == "service" }
	ops["service-camel-case"] = elemOp(isService, func(x *c05Ctx, e *c05Elem) []c05Expect {
		e.Svc.Name = lowerFirst(e.Svc.Name)
		return []c05Expect{exp1("SERVICE_PASCAL_CASE", e)}
	})
	ops["service-snake-case"] = elemOp(isService, func(x *c05Ctx, e *c05Elem) []c05Expect {
		e.Svc.Name = snakeOf(e.Svc.Name)
		return []c05Expect{exp1("SERVICE_PASCAL_CASE", e), exp1("SERVICE_SUFFIX", e)}
	})
	isRPC := func(x *c05Ctx, e *c05Elem) bool { return e.Kind == "rpc" }
	ops["rpc-camel-case"] = elemOp(isRPC, func(x *c05Ctx, e *c05Elem) []c05Expect {
		e.Rpc.Name = lowerFirst(e.Rpc.Name)
		return []c05Expect{exp1("RPC_PASCAL_CASE", e)}
	})
	ops["rpc-snake-case"] = elemOp(isRPC, func(x *c05Ctx, e *c05Elem) []c05Expect {
		e.Rpc.Name = snakeOf(e.Rpc.Name)
		return []c05Expect{exp1("RPC_PASCAL_CASE", e)}
	})
	renamableField := func(x *c05Ctx, e *c05Elem) bool {
		return (e.Kind == "field" || e.Kind == "extension") && e.Field.Kind != "group" && !c05IsOptionExtension(e)
	}
	ops["field-camel-case"] = elemOp(renamableField, func(x *c05Ctx, e *c05Elem) []c05Expect {
		e.Field.Name = fmt.Sprintf("badField%d", x.fresh())
		return []c05Expect{exp1("FIELD_LOWER_SNAKE_CASE", e)}
	})
	ops["field-upper-case"] = elemOp(renamableField, func(x *c05Ctx, e *c05Elem) []c05Expect {
		e.Field.Name = fmt.Sprintf("BAD_FIELD_%d", x.fresh())
		return []c05Expect{exp1("FIELD_LOWER_SNAKE_CASE", e)}
	})
	ops["field-name-with-digits-conforming"] = elemOp(renamableField, func(x *c05Ctx, e *c05Elem) []c05Expect {
		e.Field.Name = fmt.Sprintf("item%d_name", x.fresh())
		return nil
	})
	renameOneof := func(e *c05Elem, newName string) {
		old := e.Oneof
		for _, fl := range e.Msg.Fields {
			if fl.Oneof == old {
				fl.Oneof = newName
			}
		}
		if c, ok := e.Msg.OneofComments[old]; ok {
			delete(e.Msg.OneofComments, old)
			e.Msg.OneofComments[newName] = c
		}
		e.Oneof = newName
	}
	isOneof := func(x *c05Ctx, e *c05Elem) bool { return e.Kind == "oneof" }
	ops["oneof-camel-case"] = elemOp(isOneof, func(x *c05Ctx, e *c05Elem) []c05Expect {
		renameOneof(e, fmt.Sprintf("badChoice%d", x.fresh()))
		return []c05Expect{exp1("ONEOF_LOWER_SNAKE_CASE", e)}
	})
	ops["oneof-upper-case"] = elemOp(isOneof, func(x *c05Ctx, e *c05Elem) []c05Expect {
		renameOneof(e, fmt.Sprintf("BAD_CHOICE_%d", x.fresh()))
		return []c05Expect{exp1("ONEOF_LOWER_SNAKE_CASE", e)}
	})

	// ---- enum values ----------------------------------------------------------------------
	prefixOf := func(e *c05Elem) string { return gen.UpperSnake(e.Enum.Name) + "_" }
	nonZero := func(x *c05Ctx, e *c05Elem) bool { return e.Kind == "enumvalue" && e.Val.Number != 0 }
	zero := func(x *c05Ctx, e *c05Elem) bool { return e.Kind == "enumvalue" && e.Val.Number == 0 }
	ops["enum-value-lower-case"] = elemOp(nonZero, func(x *c05Ctx, e *c05Elem) []c05Expect {
		e.Val.Name = fmt.Sprintf("%sbadCase%d", prefixOf(e), x.fresh())
		return []c05Expect{exp1("ENUM_VALUE_UPPER_SNAKE_CASE", e)}
	})
	ops["enum-value-zero-lower-case"] = elemOp(zero, func(x *c05Ctx, e *c05Elem) []c05Expect {
		e.Val.Name = prefixOf(e) + "unspecified"
		return []c05Expect{exp1("ENUM_VALUE_UPPER_SNAKE_CASE", e), exp1("ENUM_ZERO_VALUE_SUFFIX", e)}
	})
	ops["enum-value-no-prefix"] = elemOp(nonZero, func(x *c05Ctx, e *c05Elem) []c05Expect {
		e.Val.Name = fmt.Sprintf("ZZ%d_%s", x.fresh(), e.Val.Name)
		return []c05Expect{exp1("ENUM_VALUE_PREFIX", e)}
	})
	ops["enum-value-zero-no-prefix"] = elemOp(zero, func(x *c05Ctx, e *c05Elem) []c05Expect {
		e.Val.Name = fmt.Sprintf("ZZ%d_UNSPECIFIED", x.fresh())
		return []c05Expect{exp1("ENUM_VALUE_PREFIX", e)}
	})
	ops["enum-zero-value-suffix"] = elemOp(zero, func(x *c05Ctx, e *c05Elem) []c05Expect {
		e.Val.Name = prefixOf(e) + "UNKNOWN"
		return []c05Expect{exp1("ENUM_ZERO_VALUE_SUFFIX", e)}
	})
	ops["enum-zero-value-suffix-custom"] = elemOp(zero, func(x *c05Ctx, e *c05Elem) []c05Expect {
		// the configured suffix is _NONE: every enum conforms to it except the one at the site,
		// which keeps the default suffix
		x.Opts.EnumZeroValueSuffix = "_NONE"
		c05Walk(x.S, func(o *c05Elem) {
			if o.Kind == "enumvalue" && o.Val.Number == 0 && o.Val != e.Val {
				o.Val.Name = gen.UpperSnake(o.Enum.Name) + "_NONE"
			}
		})
		return []c05Expect{exp1("ENUM_ZERO_VALUE_SUFFIX", e)}
	})
	closedEnum := func(x *c05Ctx, e *c05Elem) bool {
		if e.Kind != "enum" {
			return false
		}
		// protoc requires the first value of an enum used as a map value to be zero
		full0 := joinName(e.Scope, e.Enum.Name)
		mapValue := false
		c05ForEachField(x.S, func(fl *gen.Field) {
			if fl.Kind == "map" && fl.MapVal == full0 {
				mapValue = true
			}
		})
		if mapValue {
			return false
		}
		switch e.File.Syntax {
		case "proto2", "":
			return true
		case "editions":
			// closing an editions enum is only legal if no proto3 file uses it
			full := joinName(e.Scope, e.Enum.Name)
			used := false
			for _, f := range x.S.AllFiles() {
				if f.Syntax != "proto3" {
					continue
				}
				for _, m := range f.Messages {
					for _, t := range refsOfMessageC05(m) {
						if t == full {
							used = true
						}
					}
				}
			}
			return !used
		}
		return false
	}
	ops["enum-first-value-nonzero"] = elemOp(closedEnum, func(x *c05Ctx, e *c05Elem) []c05Expect {
		if e.File.Syntax == "editions" {
			e.Enum.Options = append(e.Enum.Options, gen.Opt{Name: "features.enum_type", Value: "CLOSED"})
		}
		maxN := 0
		for _, v := range e.Enum.Values {
			maxN = max(maxN, v.Number)
		}
		for _, r := range e.Enum.ReservedRanges {
			maxN = max(maxN, r.Hi)
		}
		e.Enum.Values[0].Number = maxN + 3
		v := &c05Elem{Kind: "enumvalue", File: e.File, Scope: joinName(e.Scope, e.Enum.Name), Enum: e.Enum, Val: e.Enum.Values[0]}
		return []c05Expect{exp1("ENUM_FIRST_VALUE_ZERO", v)}
	})
	ops["enum-allow-alias"] = elemOp(isEnum, func(x *c05Ctx, e *c05Elem) []c05Expect {
		e.Enum.AllowAlias = true
		last := e.Enum.Values[len(e.Enum.Values)-1]
		e.Enum.Values = append(e.Enum.Values, &gen.EnumValue{Name: fmt.Sprintf("%sALIAS%d", prefixOf(e), x.fresh()), Number: last.Number, Comment: "An alias."})
		return []c05Expect{exp1("ENUM_NO_ALLOW_ALIAS", e)}
	})

	// ---- services and RPCs ------------------------------------------------------------------
	ops["service-no-suffix"] = elemOp(isService, func(x *c05Ctx, e *c05Elem) []c05Expect {
		e.Svc.Name = strings.TrimSuffix(e.Svc.Name, "Service") + "Endpoint"
		return []c05Expect{exp1("SERVICE_SUFFIX", e)}
	})
	ops["service-suffix-custom"] = elemOp(isService, func(x *c05Ctx, e *c05Elem) []c05Expect {
		x.Opts.ServiceSuffix = "Endpoint"
		c05Walk(x.S, func(o *c05Elem) {
			if o.Kind == "service" && o.Svc != e.Svc {
				o.Svc.Name = strings.TrimSuffix(o.Svc.Name, "Service") + "Endpoint"
			}
		})
		return []c05Expect{exp1("SERVICE_SUFFIX", e)}
	})
	ops["rpc-request-nonstandard-name"] = elemOp(isRPC, func(x *c05Ctx, e *c05Elem) []c05Expect {
		me := findMessage(x.S, e.Rpc.In)
		if me == nil {
			return nil
		}
		renameMessage(x, me, fmt.Sprintf("Payload%d", x.fresh()))
		return []c05Expect{exp1("RPC_REQUEST_STANDARD_NAME", e)}
	})
	ops["rpc-response-nonstandard-name"] = elemOp(isRPC, func(x *c05Ctx, e *c05Elem) []c05Expect {
		me := findMessage(x.S, e.Rpc.Out)
		if me == nil {
			return nil
		}
		renameMessage(x, me, fmt.Sprintf("Outcome%d", x.fresh()))
		return []c05Expect{exp1("RPC_RESPONSE_STANDARD_NAME", e)}
	})
	ops["rpc-service-prefixed-names-conforming"] = elemOp(isRPC, func(x *c05Ctx, e *c05Elem) []c05Expect {
		if me := findMessage(x.S, e.Rpc.In); me != nil {
			renameMessage(x, me, e.Svc.Name+e.Rpc.Name+"Request")
		}
		if me := findMessage(x.S, e.Rpc.Out); me != nil {
			renameMessage(x, me, e.Svc.Name+e.Rpc.Name+"Response")
		}
		return nil
	})
	twoRPCs := func(x *c05Ctx, e *c05Elem) bool { return e.Kind == "service" && len(e.Svc.Methods) >= 2 }
	ops["rpc-same-request-two-rpcs"] = elemOp(twoRPCs, func(x *c05Ctx, e *c05Elem) []c05Expect {
		rs := rpcElemsOf(x.S, e.Svc)
		rs[1].Rpc.In = rs[0].Rpc.In
		return []c05Expect{exp1("RPC_REQUEST_RESPONSE_UNIQUE", rs[0]), exp1("RPC_REQUEST_RESPONSE_UNIQUE", rs[1]), exp1("RPC_REQUEST_STANDARD_NAME", rs[1])}
	})
	ops["rpc-same-request-response"] = elemOp(isRPC, func(x *c05Ctx, e *c05Elem) []c05Expect {
		e.Rpc.Out = e.Rpc.In
		x.Opts.AllowSameReqResp = x.Rand.IntN(2) == 0
		out := []c05Expect{exp1("RPC_RESPONSE_STANDARD_NAME", e)}
		if !x.Opts.AllowSameReqResp {
			out = append(out, exp1("RPC_REQUEST_RESPONSE_UNIQUE", e))
		}
		return out
	})
	// the same service name and RPC names in a sibling package (…v1 → …v1x2), reusing the original
	// request and response messages: the reuse spans two packages and two files
	ops["rpc-reuse-across-packages-same-names"] = elemOp(func(x *c05Ctx, e *c05Elem) bool {
		return e.Kind == "service" && len(e.Svc.Methods) >= 1 && strings.HasSuffix(e.File.Package, ".v1") && len(e.File.Options) == 0
	}, func(x *c05Ctx, e *c05Elem) []c05Expect {
		pkg := strings.TrimSuffix(e.File.Package, ".v1") + ".v2"
		for _, f := range x.S.AllFiles() {
			if f.Package == pkg {
				return nil
			}
		}
		clone := &gen.Service{Name: e.Svc.Name, Comment: e.Svc.Comment}
		for _, m := range e.Svc.Methods {
			if m.ClientStream || m.ServerStream {
				return nil
			}
			cm := *m
			cm.Options = nil
			clone.Methods = append(clone.Methods, &cm)
		}
		f, _ := newSmallFile(x, e.Mod, strings.ReplaceAll(pkg, ".", "/")+fmt.Sprintf("/clone_%d.proto", x.fresh()), pkg, "proto3", nil)
		f.Services = append(f.Services, clone)
		var out []c05Expect
		for _, r := range rpcElemsOf(x.S, e.Svc) {
			out = append(out, exp1("RPC_REQUEST_RESPONSE_UNIQUE", r))
		}
		for _, r := range rpcElemsOf(x.S, clone) {
			out = append(out, exp1("RPC_REQUEST_RESPONSE_UNIQUE", r))
		}
		return out
	})
	const empty = "google.protobuf.Empty"
	ops["rpc-empty-request-two-rpcs"] = elemOp(twoRPCs, func(x *c05Ctx, e *c05Elem) []c05Expect {
		rs := rpcElemsOf(x.S, e.Svc)
		rs[0].Rpc.In, rs[1].Rpc.In = empty, empty
		x.Opts.AllowEmptyRequests = x.Rand.IntN(3) == 0
		x.Opts.AllowEmptyResponses = x.Rand.IntN(3) == 0
		if x.Opts.AllowEmptyRequests {
			return nil
		}
		return []c05Expect{exp1("RPC_REQUEST_RESPONSE_UNIQUE", rs[0]), exp1("RPC_REQUEST_RESPONSE_UNIQUE", rs[1]),
			exp1("RPC_REQUEST_STANDARD_NAME", rs[0]), exp1("RPC_REQUEST_STANDARD_NAME", rs[1])}
	})
	ops["rpc-empty-response-two-rpcs"] = elemOp(twoRPCs, func(x *c05Ctx, e *c05Elem) []c05Expect {
		rs := rpcElemsOf(x.S, e.Svc)
		rs[0].Rpc.Out, rs[1].Rpc.Out = empty, empty
		x.Opts.AllowEmptyRequests = x.Rand.IntN(3) == 0
		x.Opts.AllowEmptyResponses = x.Rand.IntN(3) == 0
		if x.Opts.AllowEmptyResponses {
			return nil
		}
		return []c05Expect{exp1("RPC_REQUEST_RESPONSE_UNIQUE", rs[0]), exp1("RPC_REQUEST_RESPONSE_UNIQUE", rs[1]),
			exp1("RPC_RESPONSE_STANDARD_NAME", rs[0]), exp1("RPC_RESPONSE_STANDARD_NAME", rs[1])}
	})
	ops["rpc-client-streaming"] = elemOp(isRPC, func(x *c05Ctx, e *c05Elem) []c05Expect {
		e.Rpc.ClientStream = true
		return []c05Expect{exp1("RPC_NO_CLIENT_STREAMING", e)}
	})
	ops["rpc-server-streaming"] = elemOp(isRPC, func(x *c05Ctx, e *c05Elem) []c05Expect {
		e.Rpc.ServerStream = true
		return []c05Expect{exp1("RPC_NO_SERVER_STREAMING", e)}
	})
	ops["rpc-bidi-streaming"] = elemOp(isRPC, func(x *c05Ctx, e *c05Elem) []c05Expect {
		e.Rpc.ClientStream, e.Rpc.ServerStream = true, true
		return []c05Expect{exp1("RPC_NO_CLIENT_STREAMING", e), exp1("RPC_NO_SERVER_STREAMING", e)}
	})

	// ---- fields ---------------------------------------------------------------------------
	ops["field-required-proto2"] = elemOp(func(x *c05Ctx, e *c05Elem) bool {
		return isPlainSingular(e) && (e.File.Syntax == "proto2" || e.File.Syntax == "") && e.Field.Label == "optional"
	}, func(x *c05Ctx, e *c05Elem) []c05Expect {
		e.Field.Label = "required"
		return []c05Expect{exp1("FIELD_NOT_REQUIRED", e)}
	})
	ops["field-required-editions"] = elemOp(func(x *c05Ctx, e *c05Elem) bool {
		return isPlainSingular(e) && e.File.Syntax == "editions" && e.Field.Label == ""
	}, func(x *c05Ctx, e *c05Elem) []c05Expect {
		e.Field.Options = append(e.Field.Options, gen.Opt{Name: "features.field_presence", Value: "LEGACY_REQUIRED"})
		return []c05Expect{exp1("FIELD_NOT_REQUIRED", e)}
	})
	noDescriptorSibling := func(x *c05Ctx, e *c05Elem) bool {
		if !renamableField(x, e) {
			return false
		}
		if e.Kind == "extension" {
			return false
		}
		for _, fl := range e.Msg.Fields {
			if strings.ToLower(strings.Trim(fl.Name, "_")) == "descriptor" {
				return false
			}
		}
		return true
	}
	ops["field-named-descriptor"] = elemOp(noDescriptorSibling, func(x *c05Ctx, e *c05Elem) []c05Expect {
		e.Field.Name = "descriptor"
		return []c05Expect{exp1("FIELD_NO_DESCRIPTOR", e)}
	})
	ops["field-named-descriptor-capitalised"] = elemOp(noDescriptorSibling, func(x *c05Ctx, e *c05Elem) []c05Expect {
		e.Field.Name = "_Descriptor_"
		return []c05Expect{exp1("FIELD_NO_DESCRIPTOR", e), exp1("FIELD_LOWER_SNAKE_CASE", e)}
	})

	// ---- comments ---------------------------------------------------------------------------
	commentOps("message", "COMMENT_MESSAGE", func(e *c05Elem) *string { return &e.Msg.Comment })
	commentOps("enum", "COMMENT_ENUM", func(e *c05Elem) *string { return &e.Enum.Comment })
	commentOps("enumvalue", "COMMENT_ENUM_VALUE", func(e *c05Elem) *string { return &e.Val.Comment })
	commentOps("field", "COMMENT_FIELD", func(e *c05Elem) *string { return &e.Field.Comment })
	commentOps("service", "COMMENT_SERVICE", func(e *c05Elem) *string { return &e.Svc.Comment })
	commentOps("rpc", "COMMENT_RPC", func(e *c05Elem) *string { return &e.Rpc.Comment })
	oneofComment := func(e *c05Elem, c string) {
		if e.Msg.OneofComments == nil {
			e.Msg.OneofComments = map[string]string{}
		}
		e.Msg.OneofComments[e.Oneof] = c
	}
	ops["comment-oneof-removed"] = elemOp(isOneof, func(x *c05Ctx, e *c05Elem) []c05Expect {
		oneofComment(e, "")
		return []c05Expect{exp1("COMMENT_ONEOF", e)}
	})
	ops["comment-oneof-directive-only"] = elemOp(isOneof, func(x *c05Ctx, e *c05Elem) []c05Expect {
		oneofComment(e, c05Directive)
		return []c05Expect{exp1("COMMENT_ONEOF", e)}
	})
	ops["comment-oneof-blank"] = elemOp(isOneof, func(x *c05Ctx, e *c05Elem) []c05Expect {
		oneofComment(e, "\n")
		return []c05Expect{exp1("COMMENT_ONEOF", e)}
	})
	ops["comment-field-trailing-only"] = elemOp(func(x *c05Ctx, e *c05Elem) bool {
		return (e.Kind == "field" || e.Kind == "extension") && e.Field.Kind != "group"
	}, func(x *c05Ctx, e *c05Elem) []c05Expect {
		e.Field.Comment, e.Field.Trailing = "", "only a trailing comment"
		return []c05Expect{exp1("COMMENT_FIELD", e)}
	})
	ops["comment-message-block-style-conforming"] = elemOp(func(x *c05Ctx, e *c05Elem) bool { return e.Kind == "message" }, func(x *c05Ctx, e *c05Elem) []c05Expect {
		e.Msg.Comment = "/* A block comment documents this message. */"
		return nil
	})

	// ---- files: names, syntax, imports ----------------------------------------------------------
	anyFile := func(x *c05Ctx, f *gen.File) bool { return true }
	ops["file-upper-case-name"] = fileOp(anyFile, func(x *c05Ctx, f *gen.File) []c05Expect {
		c05MoveFile(x.S, f, path.Join(path.Dir(f.Path), fmt.Sprintf("BadName%d.proto", x.fresh())))
		return []c05Expect{{"FILE_LOWER_SNAKE_CASE", f.Path, "file"}}
	})
	ops["file-camel-case-name"] = fileOp(anyFile, func(x *c05Ctx, f *gen.File) []c05Expect {
		c05MoveFile(x.S, f, path.Join(path.Dir(f.Path), fmt.Sprintf("badName%d.proto", x.fresh())))
		return []c05Expect{{"FILE_LOWER_SNAKE_CASE", f.Path, "file"}}
	})
	ops["syntax-unspecified"] = fileOp(func(x *c05Ctx, f *gen.File) bool { return f.Syntax == "proto2" }, func(x *c05Ctx, f *gen.File) []c05Expect {
		f.Syntax = ""
		return []c05Expect{{"SYNTAX_SPECIFIED", f.Path, "file"}}
	})
	ops["import-unused-wkt"] = fileOp(func(x *c05Ctx, f *gen.File) bool {
		return !x.S.UsedImportPaths(f)["google/protobuf/empty.proto"]
	}, func(x *c05Ctx, f *gen.File) []c05Expect {
		f.ExtraImports = append(f.ExtraImports, gen.Import{Path: "google/protobuf/empty.proto"})
		return []c05Expect{{"IMPORT_USED", f.Path, "import:" + f.Path + ":google/protobuf/empty.proto"}}
	})
	ops["import-unused-local"] = func(x *c05Ctx) []c05Site {
		var sites []c05Site
		for _, f := range x.S.AllFiles() {
			f := f
			fm := moduleIndexOf(x.S, f)
			used := x.S.UsedImportPaths(f)
			var cands []*gen.File
			for _, g := range x.S.AllFiles() {
				gm := moduleIndexOf(x.S, g)
				// no file cycle, no module cycle
				if g == f || used[g.Path] || importsTransitively(x.S, g, f.Path) || (gm != fm && moduleDependsOn(x.S, gm, fm)) {
					continue
				}
				cands = append(cands, g)
			}
			if len(cands) == 0 {
				continue
			}
			sites = append(sites, c05Site{Desc: fileDesc(x.S, f), Apply: func(x *c05Ctx) []c05Expect {
				g := cands[x.Rand.IntN(len(cands))]
				f.ExtraImports = append(f.ExtraImports, gen.Import{Path: g.Path})
				return []c05Expect{{"IMPORT_USED", f.Path, "import:" + f.Path + ":" + g.Path}}
			}})
		}
		return sites
	}
	usedImportOp := func(mark func(f *gen.File, p string), rule string) func(x *c05Ctx) []c05Site {
		return func(x *c05Ctx) []c05Site {
			var sites []c05Site
			for _, f := range x.S.AllFiles() {
				f := f
				var used []string
				for p := range x.S.UsedImportPaths(f) {
					used = append(used, p)
				}
				sort.Strings(used)
				for _, p := range used {
					p := p
					kind := "local"
					if strings.HasPrefix(p, "google/protobuf/") {
						kind = "wkt"
					}
					sites = append(sites, c05Site{Desc: fileDesc(x.S, f) + "/" + kind, Apply: func(x *c05Ctx) []c05Expect {
						mark(f, p)
						if rule == "" {
							return nil
						}
						return []c05Expect{{rule, f.Path, "import:" + f.Path + ":" + p}}
					}})
				}
			}
			return sites
		}
	}
	ops["import-public"] = usedImportOp(func(f *gen.File, p string) { f.PublicImports = append(f.PublicImports, p) }, "IMPORT_NO_PUBLIC")
	ops["import-weak"] = usedImportOp(func(f *gen.File, p string) { f.WeakImports = append(f.WeakImports, p) }, "")

	// ---- packages and directories ------------------------------------------------------------
	pkgExpect := func(rule string, fs []*gen.File) []c05Expect {
		var out []c05Expect
		for _, f := range fs {
			out = append(out, c05Expect{rule, f.Path, c05PkgElem(f)})
		}
		return out
	}
	ops["package-undefined-new-file"] = func(x *c05Ctx) []c05Site {
		var sites []c05Site
		for mi := range x.S.Modules {
			mi := mi
			sites = append(sites, c05Site{Desc: fmt.Sprintf("new-file/own-dir/m%d", min(mi, 1)), Apply: func(x *c05Ctx) []c05Expect {
				n := x.fresh()
				newSmallFile(x, mi, fmt.Sprintf("nopkg%d/probe_%d.proto", n, n), "", "proto3", nil)
				return nil // PACKAGE_DEFINED comes from the model of the file-level rules
			}})
			sites = append(sites, c05Site{Desc: fmt.Sprintf("new-file/shared-dir/m%d", min(mi, 1)), Apply: func(x *c05Ctx) []c05Expect {
				n := x.fresh()
				dir := path.Dir(x.S.Modules[mi].Files[x.Rand.IntN(len(x.S.Modules[mi].Files))].Path)
				newSmallFile(x, mi, fmt.Sprintf("%s/probe_%d.proto", dir, n), "", "proto3", nil)
				return nil
			}})
		}
		return sites
	}
	ops["package-undefined-existing-file"] = fileOp(func(x *c05Ctx, f *gen.File) bool {
		// file-level extensions of option messages are referred to by name in option statements
		return f.Package != "" && len(f.Extends) == 0 && !fileDeclaresOptionExtension(f)
	}, func(x *c05Ctx, f *gen.File) []c05Expect {
		pkg := f.Package
		for _, m := range f.Messages {
			c05RenameType(x.S, joinName(pkg, m.Name), m.Name)
		}
		for _, e := range f.Enums {
			c05RenameType(x.S, joinName(pkg, e.Name), e.Name)
		}
		f.Package = ""
		f.PackageComment = ""
		return nil
	})
	ops["package-upper-case"] = pkgOp(anyPkg, func(x *c05Ctx, p pkgSite) []c05Expect {
		parts := strings.Split(p.Pkg, ".")
		parts[0] = strings.ToUpper(parts[0][:1]) + parts[0][1:]
		c05RenamePackage(x.S, p.Pkg, strings.Join(parts, "."), true)
		return pkgExpect("PACKAGE_LOWER_SNAKE_CASE", p.Files)
	})
	ops["package-camel-case-component"] = pkgOp(func(x *c05Ctx, p pkgSite) bool { return strings.Count(p.Pkg, ".") >= 2 }, func(x *c05Ctx, p pkgSite) []c05Expect {
		parts := strings.Split(p.Pkg, ".")
		i := len(parts) - 2
		parts[i] = parts[i] + "Info"
		c05RenamePackage(x.S, p.Pkg, strings.Join(parts, "."), true)
		return pkgExpect("PACKAGE_LOWER_SNAKE_CASE", p.Files)
	})
	versioned := func(x *c05Ctx, p pkgSite) bool { return pkgStability(p.Pkg) != "" }
	ops["package-no-version"] = pkgOp(versioned, func(x *c05Ctx, p pkgSite) []c05Expect {
		c05RenamePackage(x.S, p.Pkg, p.Pkg[:strings.LastIndex(p.Pkg, ".")]+fmt.Sprintf(".unversioned%d", x.fresh()), true)
		return pkgExpect("PACKAGE_VERSION_SUFFIX", p.Files)
	})
	ops["package-malformed-version"] = pkgOp(versioned, func(x *c05Ctx, p pkgSite) []c05Expect {
		c05RenamePackage(x.S, p.Pkg, p.Pkg[:strings.LastIndex(p.Pkg, ".")]+fmt.Sprintf(".vone%d", x.fresh()), true)
		return pkgExpect("PACKAGE_VERSION_SUFFIX", p.Files)
	})
	ops["package-directory-mismatch-all-files"] = pkgOp(anyPkg, func(x *c05Ctx, p pkgSite) []c05Expect {
		dir := fmt.Sprintf("misplaced%d/dir", x.fresh())
		for _, f := range p.Files {
			c05MoveFile(x.S, f, path.Join(dir, path.Base(f.Path)))
		}
		return nil
	})
	ops["file-moved-to-own-directory"] = fileOp(func(x *c05Ctx, f *gen.File) bool { return f.Package != "" }, func(x *c05Ctx, f *gen.File) []c05Expect {
		c05MoveFile(x.S, f, path.Join(fmt.Sprintf("elsewhere%d", x.fresh()), path.Base(f.Path)))
		return nil
	})
	ops["file-moved-into-other-package-directory"] = func(x *c05Ctx) []c05Site {
		var sites []c05Site
		for _, m := range x.S.Modules {
			m := m
			for _, f := range m.Files {
				f := f
				var dirs []string
				seen := map[string]bool{path.Dir(f.Path): true}
				for _, g := range m.Files {
					if d := path.Dir(g.Path); !seen[d] && g.Package != f.Package {
						seen[d] = true
						dirs = append(dirs, d)
					}
				}
				if len(dirs) == 0 || f.Package == "" {
					continue
				}
				sites = append(sites, c05Site{Desc: fileDesc(x.S, f), Apply: func(x *c05Ctx) []c05Expect {
					c05MoveFile(x.S, f, path.Join(dirs[x.Rand.IntN(len(dirs))], fmt.Sprintf("moved_%d.proto", x.fresh())))
					return nil
				}})
			}
		}
		return sites
	}
	ops["directory-second-package-new-file"] = pkgOp(anyPkg, func(x *c05Ctx, p pkgSite) []c05Expect {
		n := x.fresh()
		dir := path.Dir(p.Files[0].Path)
		newSmallFile(x, p.Mod, fmt.Sprintf("%s/intruder_%d.proto", dir, n), fmt.Sprintf("intruder%d.v1", n), "proto3", nil)
		return nil
	})
	optValues := map[string][2]string{
		"csharp_namespace":    {`"Acme.One"`, `"Acme.Two"`},
		"go_package":          {`"example.com/gen/one"`, `"example.com/gen/two"`},
		"java_multiple_files": {"true", "false"},
		"java_package":        {`"com.acme.one"`, `"com.acme.two"`},
		"php_namespace":       {`"Acme\\One"`, `"Acme\\Two"`},
		"ruby_package":        {`"Acme::One"`, `"Acme::Two"`},
		"swift_prefix":        {`"AO"`, `"AT"`},
	}
	setOpt := func(f *gen.File, name, val string) {
		for i := range f.Options {
			if f.Options[i].Name == name {
				f.Options[i].Value = val
				return
			}
		}
		f.Options = append(f.Options, gen.Opt{Name: name, Value: val})
	}
	dropOpt := func(f *gen.File, name string) {
		var out []gen.Opt
		for _, o := range f.Options {
			if o.Name != name {
				out = append(out, o)
			}
		}
		f.Options = out
	}
	// ensureTwoFiles returns the files of the package after making sure there are at least two
	ensureTwoFiles := func(x *c05Ctx, p pkgSite) []*gen.File {
		fs := p.Files
		if len(fs) < 2 {
			n := x.fresh()
			syntax := fs[0].Syntax
			if syntax == "" || syntax == "editions" {
				syntax = "proto3"
			}
			// the companion carries the same values of the options the package already agrees on
			f, _ := newSmallFile(x, p.Mod, fmt.Sprintf("%s/companion_%d.proto", path.Dir(fs[0].Path), n), p.Pkg, syntax, nil)
			for _, o := range fs[0].Options {
				if !strings.HasPrefix(o.Name, "(") {
					f.Options = append(f.Options, o)
				}
			}
			fs = append(fs, f)
		}
		return fs
	}
	for rule, opt := range c05SameOptionRules {
		rule, opt := rule, opt
		_ = rule
		id := strings.ReplaceAll(opt, "_", "-")
		ops["package-option-differs-"+id] = pkgOp(anyPkg, func(x *c05Ctx, p pkgSite) []c05Expect {
			fs := ensureTwoFiles(x, p)
			odd := x.Rand.IntN(len(fs))
			for i, f := range fs {
				v := optValues[opt][0]
				if i == odd {
					v = optValues[opt][1]
				}
				setOpt(f, opt, v)
			}
			return nil
		})
		ops["package-option-one-sided-"+id] = pkgOp(anyPkg, func(x *c05Ctx, p pkgSite) []c05Expect {
			fs := ensureTwoFiles(x, p)
			odd := x.Rand.IntN(len(fs))
			with := x.Rand.IntN(2) == 0 // the odd file is the only one with / without the option
			for i, f := range fs {
				if (i == odd) == with {
					setOpt(f, opt, optValues[opt][0])
				} else {
					dropOpt(f, opt)
				}
			}
			return nil
		})
	}
	ops["package-import-cycle"] = func(x *c05Ctx) []c05Site {
		var sites []c05Site
		for mi, m := range x.S.Modules {
			mi, m := mi, m
			var pkgs []string
			seen := map[string]bool{}
			for _, f := range m.Files {
				if f.Package != "" && !seen[f.Package] && len(f.Messages) > 0 {
					seen[f.Package] = true
					pkgs = append(pkgs, f.Package)
				}
			}
			if len(pkgs) < 2 {
				continue
			}
			sites = append(sites, c05Site{Desc: fmt.Sprintf("two-packages/m%d", min(mi, 1)), Apply: func(x *c05Ctx) []c05Expect {
				i := x.Rand.IntN(len(pkgs))
				j := (i + 1 + x.Rand.IntN(len(pkgs)-1)) % len(pkgs)
				link := func(from, to string) {
					var target *gen.File
					for _, f := range m.Files {
						if f.Package == to && len(f.Messages) > 0 {
							target = f
							break
						}
					}
					n := x.fresh()
					f, msg := newSmallFile(x, mi, fmt.Sprintf("%s/cycle_%d.proto", strings.ReplaceAll(from, ".", "/"), n), from, "proto3", nil)
					for _, o := range filesOfPackage(m, from)[0].Options {
						if !strings.HasPrefix(o.Name, "(") {
							f.Options = append(f.Options, o)
						}
					}
					msg.Fields = append(msg.Fields, &gen.Field{Name: "link", Number: 2, Kind: "message", Type: firstMessageFull(target), Comment: "The link."})
				}
				link(pkgs[i], pkgs[j])
				link(pkgs[j], pkgs[i])
				return nil
			}})
		}
		return sites
	}
	stableImports := func(stableFirst bool) func(x *c05Ctx) []c05Site {
		return fileOp(func(x *c05Ctx, f *gen.File) bool {
			return pkgStability(f.Package) == "stable" && len(f.Messages) > 0 && f.Syntax != ""
		}, func(x *c05Ctx, f *gen.File) []c05Expect {
			n := x.fresh()
			mi := moduleIndexOf(x.S, f)
			upkg := f.Package[:strings.LastIndex(f.Package, ".")] + fmt.Sprintf(".v%dalpha1", n)
			uf, um := newSmallFile(x, mi, fmt.Sprintf("%s/unstable_%d.proto", strings.ReplaceAll(upkg, ".", "/"), n), upkg, "proto3", nil)
			if stableFirst {
				// the stable file refers to the unstable package
				fl := &gen.Field{Name: fmt.Sprintf("preview_%d", n), Number: 18000 + n, Kind: "message", Type: joinName(upkg, um.Name), Comment: "A preview."}
				if f.Syntax == "proto2" {
					fl.Label = "optional"
				}
				f.Messages[0].Fields = append(f.Messages[0].Fields, fl)
			} else {
				// the unstable file refers to the stable package: allowed
				um.Fields = append(um.Fields, &gen.Field{Name: "settled", Number: 2, Kind: "message", Type: firstMessageFull(f), Comment: "Settled."})
			}
			_ = uf
			return nil
		})
	}
	ops["stable-package-imports-unstable"] = stableImports(true)
	ops["unstable-package-imports-stable-conforming"] = stableImports(false)

	// ---- protovalidate ---------------------------------------------------------------------------
	pvOp := func(keep func(e *c05Elem) bool, opts func(e *c05Elem) []gen.Opt, fires bool) func(x *c05Ctx) []c05Site {
		return elemOp(func(x *c05Ctx, e *c05Elem) bool {
			return e.Kind == "field" && e.Field.Kind == "scalar" && e.Field.Oneof == "" && e.Field.Label != "repeated" && keep(e)
		}, func(x *c05Ctx, e *c05Elem) []c05Expect {
			e.Field.Options = append(e.Field.Options, opts(e)...)
			has := false
			for _, im := range e.File.ExtraImports {
				if im.Path == "buf/validate/validate.proto" {
					has = true
				}
			}
			if !has {
				e.File.ExtraImports = append(e.File.ExtraImports, gen.Import{Path: "buf/validate/validate.proto"})
			}
			x.Extra = []c05ExtraModule{{Name: "buf.build/bufbuild/protovalidate", Files: map[string]string{"buf/validate/validate.proto": c05ValidateProto}}}
			if !fires {
				return nil
			}
			return []c05Expect{exp1("PROTOVALIDATE", e)}
		})
	}
	isInt32 := func(e *c05Elem) bool { return e.Field.Type == "int32" }
	ops["protovalidate-contradictory-bounds"] = pvOp(isInt32, func(e *c05Elem) []gen.Opt {
		return []gen.Opt{{Name: "(buf.validate.field).int32.lt", Value: "10"}, {Name: "(buf.validate.field).int32.gte", Value: "10"}}
	}, true)
	ops["protovalidate-rule-type-mismatch"] = pvOp(isInt32, func(e *c05Elem) []gen.Opt {
		return []gen.Opt{{Name: "(buf.validate.field).string.min_len", Value: "1"}}
	}, true)
	ops["protovalidate-cel-does-not-compile"] = pvOp(func(e *c05Elem) bool { return true }, func(e *c05Elem) []gen.Opt {
		return []gen.Opt{{Name: "(buf.validate.field).cel", Value: `{id: "probe.cel", message: "never", expression: "this +"}`}}
	}, true)
	ops["protovalidate-valid-rule-conforming"] = pvOp(isInt32, func(e *c05Elem) []gen.Opt {
		return []gen.Opt{{Name: "(buf.validate.field).int32.gt", Value: "0"}}
	}, false)
}

// refsOfMessageC05 lists the enum/message type names a message's fields refer to (recursively).
func refsOfMessageC05(m *gen.Message) []string {
	var out []string
	for _, fl := range m.Fields {
		switch fl.Kind {
		case "message", "enum":
			out = append(out, fl.Type)
		case "map":
			if fl.MapValK != "scalar" {
				out = append(out, fl.MapVal)
			}
		}
	}
	for _, n := range m.Nested {
		out = append(out, refsOfMessageC05(n)...)
	}
	return out
}
