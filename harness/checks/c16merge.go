package checks

import (
	"fmt"
	"math/rand/v2"
	"path"
	"strings"

	"github.com/bufbuild/verifharness/gen"
	"gopkg.in/yaml.v3"
)

// C16 part B, merging ignore_only keys.
//
// The migration rewrites the keys of ignore_only: a category that v2 does not have (or whose
// membership differs) is replaced by its member rules, a deprecated id by its replacements. Two
// source keys can thereby end up as the SAME v2 rule id, and their path lists are merged; a v2
// config may not list a path within another path of the same list, so one of two nested paths
// has to go — and it must be the nested one, or the rule comes back for part of the tree.
//
// A merge plan makes that situation certain instead of a matter of luck: the section of one unit
// is replaced by a focused one (`use` = a category that contains the merged rule R, no `except`,
// no `ignore`) whose ignore_only has two keys that both translate to R, one with a path OUTER that
// contains the planted file and one with a path INNER nested in OUTER that does not contain it;
// and tree B gets an edit in that file that violates R. Before the migration R is ignored for the
// file through the OUTER key, so the oracle (equal lint/breaking results) needs no adjustment.

type c16MergeVariant struct {
	Kind     string   // lint | breaking
	Versions []string // source versions in which the two keys merge
	KeyA     string   // gets OUTER (or INNER when flipped)
	KeyB     string
	Rule     string // the v2 rule id both keys translate to
	Use      []string
	Plant    string // camel | repeated
	Name     string
}

var c16MergeVariants = []c16MergeVariant{
	// category unknown to v2 + one of its member rules
	{Kind: "lint", Versions: []string{"v1beta1"}, KeyA: "STYLE_BASIC", KeyB: "FIELD_LOWER_SNAKE_CASE", Rule: "FIELD_LOWER_SNAKE_CASE", Use: []string{"STYLE_BASIC"}, Plant: "camel", Name: "unknown-category+member"},
	{Kind: "lint", Versions: []string{"v1beta1"}, KeyA: "STYLE_DEFAULT", KeyB: "FIELD_LOWER_SNAKE_CASE", Rule: "FIELD_LOWER_SNAKE_CASE", Use: []string{"BASIC"}, Plant: "camel", Name: "unknown-category+member"},
	// two categories unknown to v2 that share the rule
	{Kind: "lint", Versions: []string{"v1beta1"}, KeyA: "STYLE_BASIC", KeyB: "STYLE_DEFAULT", Rule: "FIELD_LOWER_SNAKE_CASE", Use: []string{"DEFAULT"}, Plant: "camel", Name: "two-unknown-categories"},
	// category present in both versions with different membership (expanded) + member rule
	{Kind: "breaking", Versions: []string{"v1beta1"}, KeyA: "WIRE_JSON", KeyB: "FIELD_SAME_NAME", Rule: "FIELD_SAME_NAME", Use: []string{"FILE"}, Plant: "camel", Name: "category-membership-differs+member"},
	{Kind: "breaking", Versions: []string{"v1beta1"}, KeyA: "WIRE", KeyB: "FIELD_SAME_CARDINALITY", Rule: "FIELD_SAME_CARDINALITY", Use: []string{"WIRE_JSON"}, Plant: "repeated", Name: "category-membership-differs+member"},
	{Kind: "breaking", Versions: []string{"v1beta1"}, KeyA: "WIRE", KeyB: "WIRE_JSON", Rule: "FIELD_SAME_CARDINALITY", Use: []string{"PACKAGE"}, Plant: "repeated", Name: "two-categories-membership-differs"},
	// deprecated id + its replacement
	{Kind: "breaking", Versions: []string{"v1beta1", "v1"}, KeyA: "FIELD_SAME_LABEL", KeyB: "FIELD_SAME_CARDINALITY", Rule: "FIELD_SAME_CARDINALITY", Use: []string{"FILE"}, Plant: "repeated", Name: "deprecated-id+replacement"},
	{Kind: "breaking", Versions: []string{"v1beta1", "v1"}, KeyA: "FIELD_SAME_LABEL", KeyB: "FIELD_SAME_CARDINALITY", Rule: "FIELD_SAME_CARDINALITY", Use: []string{"PACKAGE", "FIELD_SAME_LABEL"}, Plant: "repeated", Name: "deprecated-id+replacement"},
}

type c16MergePlan struct {
	Unit    *c16Unit
	Variant c16MergeVariant
	Mod     int // index into Schema.Modules
	File    int // index into Module.Files
	Path    string
	Outer   string
	Inner   string
	Flipped bool // KeyB carries OUTER
	Planted bool
}

func (p *c16MergePlan) String() string {
	a, b := p.Outer, p.Inner
	if p.Flipped {
		a, b = b, a
	}
	return fmt.Sprintf("%s %s: %s:[%s] %s:[%s] → %s, violation planted in %s", p.Variant.Kind, p.Variant.Name, p.Variant.KeyA, a, p.Variant.KeyB, b, p.Variant.Rule, p.Path)
}

// c16Plantable reports whether the file has a field the plant can be applied to.
func c16Plantable(f *gen.File, plant string) bool {
	return c16PlantField(f, plant) != nil
}

func c16PlantField(f *gen.File, plant string) *gen.Field {
	var found *gen.Field
	var walk func(ms []*gen.Message)
	walk = func(ms []*gen.Message) {
		for _, m := range ms {
			for _, fl := range m.Fields {
				if found != nil || !plainField(fl) || fl.Oneof != "" || strings.HasPrefix(fl.Name, "camelName") || strings.HasPrefix(fl.Name, "plantedName") {
					continue
				}
				if strings.Contains(fl.Comment, "buf:lint:ignore") {
					continue
				}
				if plant == "repeated" && (fl.Label == "repeated" || fl.Label == "required") {
					continue
				}
				found = fl
			}
			walk(m.Nested)
		}
	}
	walk(f.Messages)
	return found
}

// c16PlanMerges chooses merge plans (at most one per unit) and replaces the unit's section.
func c16PlanMerges(r *rand.Rand, ws *c16Workspace, s *gen.Schema, modIndex map[*gen.Module]int) []*c16MergePlan {
	var plans []*c16MergePlan
	for _, u := range ws.Units {
		if u.Version == "" || r.IntN(2) == 0 {
			continue
		}
		var variants []c16MergeVariant
		for _, v := range c16MergeVariants {
			for _, ver := range v.Versions {
				if ver == u.Version {
					variants = append(variants, v)
				}
			}
		}
		if len(variants) == 0 {
			continue
		}
		v := variants[r.IntN(len(variants))]
		// a file of the unit the violation can be planted in
		type cand struct{ mod, file int }
		var cands []cand
		for _, m := range u.Mods {
			for fi, f := range m.Files {
				if c16Plantable(f, v.Plant) {
					cands = append(cands, cand{modIndex[m], fi})
				}
			}
		}
		if len(cands) == 0 {
			continue
		}
		ch := cands[r.IntN(len(cands))]
		f := s.Modules[ch.mod].Files[ch.file]
		// OUTER: a directory above the file; INNER: nested in OUTER, not containing the file
		parts := strings.Split(path.Dir(f.Path), "/")
		depth := 1 + r.IntN(len(parts))
		outer := strings.Join(parts[:depth], "/")
		var inners []string
		inners = append(inners, outer+"/zz_inner", outer+"/zz/deeper/inner")
		for _, m := range u.Mods {
			for _, g := range m.Files {
				if g == f || !strings.HasPrefix(g.Path, outer+"/") {
					continue
				}
				inners = append(inners, g.Path) // another file under OUTER
				if d := path.Dir(g.Path); d != outer && !strings.HasPrefix(f.Path, d+"/") {
					inners = append(inners, d) // a directory under OUTER that does not contain the file
				}
			}
		}
		plan := &c16MergePlan{Unit: u, Variant: v, Mod: ch.mod, File: ch.file, Path: f.Path, Outer: outer, Inner: inners[r.IntN(len(inners))], Flipped: r.IntN(2) == 0}
		a, b := plan.Outer, plan.Inner
		if plan.Flipped {
			a, b = b, a
		}
		sec := map[string]any{
			"use":         strs(v.Use),
			"ignore_only": map[string]any{v.KeyA: []any{a}, v.KeyB: []any{b}},
		}
		if r.IntN(3) == 0 {
			// an unrelated key with its own nested-free list must survive unchanged
			io := sec["ignore_only"].(map[string]any)
			if v.Kind == "lint" {
				io["ENUM_PASCAL_CASE"] = []any{plan.Inner}
			} else {
				io["ENUM_NO_DELETE"] = []any{plan.Inner}
			}
		}
		if v.Kind == "lint" {
			u.Lint = sec
		} else {
			u.Breaking = sec
		}
		plans = append(plans, plan)
	}
	return plans
}

// c16PlantMerges applies the planted violations to the edited schema.
func c16PlantMerges(plans []*c16MergePlan, sb *gen.Schema, n int) {
	for i, p := range plans {
		fl := c16PlantField(sb.Modules[p.Mod].Files[p.File], p.Variant.Plant)
		if fl == nil {
			continue
		}
		switch p.Variant.Plant {
		case "camel":
			fl.Name = fmt.Sprintf("plantedName%d", n+i)
		case "repeated":
			fl.Label = "repeated"
		}
		p.Planted = true
	}
}

// c16MergeObserved reports (for evidence only) whether the migrated buf.yaml lists the merged rule
// as an ignore_only key of the section of some module.
func c16MergeObserved(migrated []byte, p *c16MergePlan) bool {
	var doc map[string]any
	if yaml.Unmarshal(migrated, &doc) != nil {
		return false
	}
	has := func(sec any) bool {
		m, _ := sec.(map[string]any)
		k, _ := m[p.Variant.Kind].(map[string]any)
		io, _ := k["ignore_only"].(map[string]any)
		_, ok := io[p.Variant.Rule]
		return ok
	}
	if has(doc) {
		return true
	}
	mods, _ := doc["modules"].([]any)
	for _, m := range mods {
		if has(m) {
			return true
		}
	}
	return false
}
