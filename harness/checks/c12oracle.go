package checks

import (
	"bytes"
	"fmt"
	"regexp"
	"sort"
	"strings"

	"google.golang.org/protobuf/encoding/protowire"
	"google.golang.org/protobuf/proto"
	"google.golang.org/protobuf/reflect/protodesc"
	"google.golang.org/protobuf/reflect/protoreflect"
	"google.golang.org/protobuf/types/descriptorpb"
)

// Oracle of C12: clauses of the property statement evaluated on (original image, filter,
// result or error).

var c12Quoted = regexp.MustCompile(`"[^"]*"`)

// c12NormErr replaces the quoted names of an error message by a placeholder (stable finding keys).
func c12NormErr(err error) string {
	s := c12Quoted.ReplaceAllString(err.Error(), `"…"`)
	if len(s) > 160 {
		s = s[:160]
	}
	return s
}

type c12Report func(class, key, msg string)

type c12Outcome struct {
	legalError bool
	effects    map[string]bool
	// comment locations compared
	comments int
	rix      *c12Index
}

type c12OptField struct {
	num int32
	raw []byte
}

// c12OptFields lists the fields set in an options message (wire level: independent of whether
// an extension is known to the Go runtime).
func c12OptFields(o proto.Message) []c12OptField {
	if o == nil {
		return nil
	}
	raw, err := proto.MarshalOptions{Deterministic: true}.Marshal(o)
	if err != nil {
		return nil
	}
	var out []c12OptField
	for len(raw) > 0 {
		num, typ, n := protowire.ConsumeTag(raw)
		if n < 0 {
			break
		}
		m := protowire.ConsumeFieldValue(num, typ, raw[n:])
		if m < 0 {
			break
		}
		out = append(out, c12OptField{num: int32(num), raw: append([]byte{}, raw[:n+m]...)})
		raw = raw[n+m:]
	}
	sort.SliceStable(out, func(i, j int) bool { return out[i].num < out[j].num })
	return out
}

func c12OptTypeName(o proto.Message) string {
	return string(o.ProtoReflect().Descriptor().FullName())
}

// c12NormOpts projects an options message onto the part the filter has to preserve: values of
// excluded (or unsatisfiable) custom options are removed; without custom-option retention all
// custom option values are left out of the comparison (keeping or dropping them are both
// accepted).
func c12NormOpts(p *c12Plan, o proto.Message) string {
	if o == nil {
		return ""
	}
	tn := c12OptTypeName(o)
	fields := o.ProtoReflect().Descriptor().Fields()
	var sb strings.Builder
	for _, f := range c12OptFields(o) {
		builtin := fields.ByNumber(protowire.Number(f.num)) != nil
		if !builtin {
			if !p.f.customOptions {
				continue
			}
			if ext := p.ix.optExt[tn][f.num]; ext != "" && p.gone(ext) {
				continue
			}
		}
		fmt.Fprintf(&sb, "%d:%x;", f.num, f.raw)
	}
	return sb.String()
}

func c12Judge(p *c12Plan, res []*descriptorpb.FileDescriptorProto, resImport map[string]bool, ferr error, report c12Report) *c12Outcome {
	ix, f := p.ix, p.f
	out := &c12Outcome{effects: map[string]bool{}}
	mode := f.mode()
	if ferr != nil {
		if len(p.strict) > 0 || len(p.lenient) > 0 || p.nothingLeft {
			out.legalError = true
			return out
		}
		report("unexpected-error", fmt.Sprintf("mode=%s err=%s", mode, c12NormErr(ferr)),
			fmt.Sprintf("a filter made only of names that exist in the image, without a documented contradiction, failed: %v\n  filter: %s\n  names: %s", ferr, f, strings.Join(f.tags, " ")))
		return out
	}
	// ---- links -----------------------------------------------------------------------------
	if _, err := protodesc.NewFiles(&descriptorpb.FileDescriptorSet{File: res}); err != nil {
		report("does-not-link", fmt.Sprintf("mode=%s err=%s", mode, c12NormErr(err)),
			fmt.Sprintf("the filtered image does not link: %v\n  filter: %s\n  names: %s", err, f, strings.Join(f.tags, " ")))
	}
	rix, _ := c12BuildIndex(res, resImport, false)
	out.rix = rix
	for _, path := range rix.order {
		if ix.files[path] == nil {
			report("invented-element", "file", fmt.Sprintf("file %q of the result is not in the original image; filter: %s", path, f))
		}
	}
	var rnames []string
	for n := range rix.els {
		rnames = append(rnames, n)
	}
	sort.Strings(rnames)
	// ---- included ⊆ result -------------------------------------------------------------
	for _, n := range f.inc {
		if p.lenient[n] {
			out.effects["contradictory-include-dropped"] = true
			continue
		}
		if el := ix.els[n]; el != nil {
			if rix.els[n] == nil && len(p.strict) == 0 {
				report("included-missing", el.kind, fmt.Sprintf("included %s %q is not in the result; filter: %s", el.kind, n, f))
			}
			continue
		}
		for _, path := range ix.pkgFiles[n] {
			for _, m := range ix.allOf[path] {
				if !p.gone(m) && rix.els[m] == nil && len(p.strict) == 0 {
					report("included-missing", "package-member", fmt.Sprintf("%q of included package %q is not in the result; filter: %s", m, n, f))
				}
			}
		}
	}
	// ---- closure ⊆ result ---------------------------------------------------------------
	if len(p.strict) == 0 {
		for _, n := range p.lower.names() {
			if rix.els[n] == nil {
				why := p.lower.why[n]
				report("needed-missing", ix.els[n].kind+":"+c12WhyKind(why), fmt.Sprintf("%s %q is needed (%s) but is not in the result; filter: %s", ix.els[n].kind, n, why, f))
			}
		}
	}
	// ---- minimality (include filters) ---------------------------------------------------
	if len(f.inc) > 0 && len(p.strict) == 0 {
		for _, n := range rnames {
			if ix.els[n] != nil && !p.upper.has(n) {
				report("not-minimal", ix.els[n].kind, fmt.Sprintf("%s %q is in the result but nothing included needs it; filter: %s", ix.els[n].kind, n, f))
			}
		}
		for _, path := range rix.order {
			if !p.upper.files[path] {
				report("not-minimal", "file", fmt.Sprintf("file %q is in the result but holds nothing that is needed; filter: %s", path, f))
			}
		}
	}
	// ---- no excluded element, no reference to one ------------------------------------------
	for _, n := range rnames {
		el := ix.els[n]
		if el == nil {
			report("invented-element", rix.els[n].kind, fmt.Sprintf("%s %q of the result is not in the original image; filter: %s", rix.els[n].kind, n, f))
			continue
		}
		if p.excluded[n] {
			report("excluded-present", el.kind, fmt.Sprintf("excluded %s %q is in the result; filter: %s", el.kind, n, f))
		}
		rel := rix.els[n]
		ref := func(kind, t string) {
			if t = c12Trim(t); t != "" && p.excluded[t] {
				report("reference-to-excluded", kind, fmt.Sprintf("%s %q of the result refers to excluded %q through %s; filter: %s", el.kind, n, t, kind, f))
			}
		}
		switch rel.kind {
		case "message":
			for _, fl := range rel.msg.GetField() {
				ref("type_name", fl.GetTypeName())
			}
		case "method":
			ref("input_type", rel.mth.GetInputType())
			ref("output_type", rel.mth.GetOutputType())
		case "extension":
			ref("extendee", rel.ext.GetExtendee())
			ref("type_name", rel.ext.GetTypeName())
		}
	}
	for _, fd := range res {
		c12WalkOptionCarriers(fd, func(carrier, o proto.Message) {
			tn := c12OptTypeName(o)
			builtin := o.ProtoReflect().Descriptor().Fields()
			for _, of := range c12OptFields(o) {
				if builtin.ByNumber(protowire.Number(of.num)) != nil {
					continue
				}
				ext := ix.optExt[tn][of.num]
				if ext == "" {
					continue
				}
				switch {
				case p.excluded[ext]:
					report("excluded-option-present", tn, fmt.Sprintf("a %s in %q still carries a value of the excluded custom option %q; filter: %s", tn, fd.GetName(), ext, f))
				case f.customOptions && rix.els[ext] == nil:
					report("option-definition-missing", tn, fmt.Sprintf("a %s in %q carries a value of custom option %q whose definition is not in the result; filter: %s", tn, fd.GetName(), ext, f))
				}
			}
		})
	}
	// ---- surviving elements unchanged ------------------------------------------------------
	for _, rfd := range res {
		ofd := ix.files[rfd.GetName()]
		if ofd == nil {
			continue
		}
		if rfd == ofd || proto.Equal(rfd, ofd) {
			out.effects["file-untouched"] = true
			continue
		}
		c12CompareFile(p, ofd, rfd, out, func(key, msg string) {
			report("element-changed", key, fmt.Sprintf("%s (file %q); filter: %s", msg, rfd.GetName(), f))
		})
		out.comments += c12CompareSourceInfo(p, ofd, rfd, func(class, key, msg string) {
			report(class, key, fmt.Sprintf("%s (file %q); filter: %s", msg, rfd.GetName(), f))
		})
	}
	if len(res) < len(ix.order) {
		out.effects["file-dropped"] = true
	}
	return out
}

func c12WhyKind(why string) string {
	for _, k := range []string{"type of field", "type of extension", "request of", "response of", "method of", "extendee of", "option used by", "Any payload", "known extension of", "encloses", "named by the filter"} {
		if strings.HasPrefix(why, k) {
			return strings.ReplaceAll(k, " ", "-")
		}
	}
	return "other"
}

// publicReach lists the files reachable from path through its direct imports and, from there,
// chains of public imports (what a file can see).
func c12Visible(ix *c12Index, path string) map[string]bool {
	seen := map[string]bool{}
	var pub func(p string)
	pub = func(p string) {
		if seen[p] {
			return
		}
		seen[p] = true
		fd := ix.files[p]
		if fd == nil {
			return
		}
		for _, i := range fd.GetPublicDependency() {
			if int(i) < len(fd.GetDependency()) {
				pub(fd.GetDependency()[i])
			}
		}
	}
	if fd := ix.files[path]; fd != nil {
		for _, d := range fd.GetDependency() {
			pub(d)
		}
	}
	return seen
}

func c12CompareFile(p *c12Plan, o, r *descriptorpb.FileDescriptorProto, out *c12Outcome, diff func(key, msg string)) {
	if o.GetPackage() != r.GetPackage() || o.GetSyntax() != r.GetSyntax() || o.GetEdition() != r.GetEdition() {
		diff("file:header", "package/syntax/edition of the file changed")
	}
	if c12NormOpts(p, c12OptionsOf(o)) != c12NormOpts(p, c12OptionsOf(r)) {
		diff("file:options", "file options changed")
	}
	vis := c12Visible(p.ix, o.GetName())
	for _, d := range r.GetDependency() {
		if !vis[d] {
			diff("file:dependency-invented", fmt.Sprintf("dependency %q was not visible to the original file", d))
		}
	}
	if !equalStrings(o.GetDependency(), r.GetDependency()) {
		out.effects["dependencies-rewritten"] = true
		if len(o.GetPublicDependency()) > 0 {
			out.effects["public-imports-flattened"] = true
		}
	}
	pfx := ""
	if o.GetPackage() != "" {
		pfx = o.GetPackage() + "."
	}
	c12CompareMessages(p, pfx, o.GetMessageType(), r.GetMessageType(), out, diff)
	c12CompareEnums(p, pfx, o.GetEnumType(), r.GetEnumType(), diff)
	c12CompareExts(p, pfx, o.GetExtension(), r.GetExtension(), diff)
	// services
	om := map[string]*descriptorpb.ServiceDescriptorProto{}
	pos := map[string]int{}
	for i, s := range o.GetService() {
		om[s.GetName()] = s
		pos[s.GetName()] = i
	}
	last := -1
	for _, rs := range r.GetService() {
		os := om[rs.GetName()]
		if os == nil {
			continue // reported as invented
		}
		if pos[rs.GetName()] < last {
			diff("service:order", "services were reordered")
		}
		last = pos[rs.GetName()]
		full := pfx + rs.GetName()
		if c12NormOpts(p, c12OptionsOf(os)) != c12NormOpts(p, c12OptionsOf(rs)) {
			diff("service:options", fmt.Sprintf("options of service %q changed", full))
		}
		mm := map[string]*descriptorpb.MethodDescriptorProto{}
		mpos := map[string]int{}
		for i, m := range os.GetMethod() {
			mm[m.GetName()] = m
			mpos[m.GetName()] = i
		}
		ml := -1
		for _, rm := range rs.GetMethod() {
			omth := mm[rm.GetName()]
			if omth == nil {
				continue
			}
			if mpos[rm.GetName()] < ml {
				diff("method:order", fmt.Sprintf("methods of %q were reordered", full))
			}
			ml = mpos[rm.GetName()]
			a, b := proto.Clone(omth).(*descriptorpb.MethodDescriptorProto), proto.Clone(rm).(*descriptorpb.MethodDescriptorProto)
			a.Options, b.Options = nil, nil
			if !proto.Equal(a, b) {
				diff("method:differs", fmt.Sprintf("method %q changed", full+"."+rm.GetName()))
			}
			if c12NormOpts(p, c12OptionsOf(omth)) != c12NormOpts(p, c12OptionsOf(rm)) {
				diff("method:options", fmt.Sprintf("options of method %q changed", full+"."+rm.GetName()))
			}
		}
		if len(rs.GetMethod()) < len(os.GetMethod()) {
			out.effects["method-dropped"] = true
		}
	}
}

func equalStrings(a, b []string) bool {
	if len(a) != len(b) {
		return false
	}
	for i := range a {
		if a[i] != b[i] {
			return false
		}
	}
	return true
}

func c12CompareEnums(p *c12Plan, scope string, o, r []*descriptorpb.EnumDescriptorProto, diff func(key, msg string)) {
	om := map[string]*descriptorpb.EnumDescriptorProto{}
	pos := map[string]int{}
	for i, e := range o {
		om[e.GetName()] = e
		pos[e.GetName()] = i
	}
	last := -1
	for _, re := range r {
		oe := om[re.GetName()]
		if oe == nil {
			continue
		}
		if pos[re.GetName()] < last {
			diff("enum:order", "enums were reordered in "+scope)
		}
		last = pos[re.GetName()]
		full := scope + re.GetName()
		a, b := proto.Clone(oe).(*descriptorpb.EnumDescriptorProto), proto.Clone(re).(*descriptorpb.EnumDescriptorProto)
		a.Options, b.Options = nil, nil
		if len(a.Value) == len(b.Value) {
			for i := range a.Value {
				if c12NormOpts(p, c12OptionsOf(a.Value[i])) != c12NormOpts(p, c12OptionsOf(b.Value[i])) {
					diff("enumvalue:options", fmt.Sprintf("options of a value of enum %q changed", full))
				}
				a.Value[i].Options, b.Value[i].Options = nil, nil
			}
		}
		if !proto.Equal(a, b) {
			diff("enum:differs", fmt.Sprintf("enum %q changed", full))
		}
		if c12NormOpts(p, c12OptionsOf(oe)) != c12NormOpts(p, c12OptionsOf(re)) {
			diff("enum:options", fmt.Sprintf("options of enum %q changed", full))
		}
	}
}

func c12CompareExts(p *c12Plan, scope string, o, r []*descriptorpb.FieldDescriptorProto, diff func(key, msg string)) {
	om := map[string]*descriptorpb.FieldDescriptorProto{}
	pos := map[string]int{}
	for i, e := range o {
		om[e.GetName()] = e
		pos[e.GetName()] = i
	}
	last := -1
	for _, re := range r {
		oe := om[re.GetName()]
		if oe == nil {
			continue
		}
		if pos[re.GetName()] < last {
			diff("extension:order", "extensions were reordered in "+scope)
		}
		last = pos[re.GetName()]
		a, b := proto.Clone(oe).(*descriptorpb.FieldDescriptorProto), proto.Clone(re).(*descriptorpb.FieldDescriptorProto)
		a.Options, b.Options = nil, nil
		if !proto.Equal(a, b) {
			diff("extension:differs", fmt.Sprintf("extension %q changed", scope+re.GetName()))
		}
		if c12NormOpts(p, c12OptionsOf(oe)) != c12NormOpts(p, c12OptionsOf(re)) {
			diff("extension:options", fmt.Sprintf("options of extension %q changed", scope+re.GetName()))
		}
	}
}

func c12CompareMessages(p *c12Plan, scope string, o, r []*descriptorpb.DescriptorProto, out *c12Outcome, diff func(key, msg string)) {
	om := map[string]*descriptorpb.DescriptorProto{}
	pos := map[string]int{}
	for i, m := range o {
		om[m.GetName()] = m
		pos[m.GetName()] = i
	}
	last := -1
	for _, rm := range r {
		omsg := om[rm.GetName()]
		if omsg == nil {
			continue
		}
		if pos[rm.GetName()] < last {
			diff("message:order", "messages were reordered in "+scope)
		}
		last = pos[rm.GetName()]
		c12CompareMessage(p, scope+rm.GetName(), omsg, rm, out, diff)
	}
}

func c12CompareMessage(p *c12Plan, full string, o, r *descriptorpb.DescriptorProto, out *c12Outcome, diff func(key, msg string)) {
	if c12NormOpts(p, c12OptionsOf(o)) != c12NormOpts(p, c12OptionsOf(r)) {
		diff("message:options", fmt.Sprintf("options of message %q changed", full))
	}
	hadBody := len(o.GetField()) > 0 || len(o.GetOneofDecl()) > 0 || len(o.GetExtensionRange()) > 0 || len(o.GetReservedRange()) > 0 || len(o.GetReservedName()) > 0
	emptyBody := len(r.GetField()) == 0 && len(r.GetOneofDecl()) == 0 && len(r.GetExtensionRange()) == 0 && len(r.GetReservedRange()) == 0 && len(r.GetReservedName()) == 0
	// without includes every targeted file is kept whole; imported files may be pruned
	el := p.ix.els[full]
	needWhole := p.lower.whole[full] || p.lower.implied[full] || (len(p.f.inc) == 0 && el != nil && !p.ix.isImport[el.file])
	namespaceOnly := hadBody && emptyBody && !needWhole
	if namespaceOnly {
		out.effects["namespace-only-enclosing-message"] = true
	} else {
		// fields: a subsequence of the original ones; only fields whose type is gone may be missing
		of := map[string]*descriptorpb.FieldDescriptorProto{}
		for _, fl := range o.GetField() {
			of[fl.GetName()] = fl
		}
		present := map[string]bool{}
		oneofUsed := map[string]int{}
		for _, rf := range r.GetField() {
			present[rf.GetName()] = true
			ofl := of[rf.GetName()]
			if ofl == nil {
				diff("field:invented", fmt.Sprintf("field %q of %q is not in the original", rf.GetName(), full))
				continue
			}
			a, b := proto.Clone(ofl).(*descriptorpb.FieldDescriptorProto), proto.Clone(rf).(*descriptorpb.FieldDescriptorProto)
			a.Options, b.Options, a.OneofIndex, b.OneofIndex = nil, nil, nil, nil
			if !proto.Equal(a, b) {
				diff("field:differs", fmt.Sprintf("field %q of %q changed", rf.GetName(), full))
			}
			if c12NormOpts(p, c12OptionsOf(ofl)) != c12NormOpts(p, c12OptionsOf(rf)) {
				diff("field:options", fmt.Sprintf("options of field %q of %q changed", rf.GetName(), full))
			}
			oo, ro := "", ""
			if ofl.OneofIndex != nil && int(ofl.GetOneofIndex()) < len(o.GetOneofDecl()) {
				oo = o.GetOneofDecl()[ofl.GetOneofIndex()].GetName()
			}
			if rf.OneofIndex != nil {
				if int(rf.GetOneofIndex()) < len(r.GetOneofDecl()) {
					ro = r.GetOneofDecl()[rf.GetOneofIndex()].GetName()
				} else {
					ro = fmt.Sprintf("<index %d out of range>", rf.GetOneofIndex())
				}
			}
			if oo != ro {
				diff("field:oneof-membership", fmt.Sprintf("field %q of %q was in oneof %q and now is in %q", rf.GetName(), full, oo, ro))
			}
			if ro != "" {
				oneofUsed[ro]++
			}
		}
		idx := -1
		opos := map[string]int{}
		for i, fl := range o.GetField() {
			opos[fl.GetName()] = i
		}
		for _, rf := range r.GetField() {
			if i, ok := opos[rf.GetName()]; ok {
				if i < idx {
					diff("field:order", fmt.Sprintf("fields of %q were reordered", full))
				}
				idx = i
			}
		}
		for _, fl := range o.GetField() {
			if present[fl.GetName()] {
				continue
			}
			t := c12Trim(fl.GetTypeName())
			if t != "" && p.gone(t) {
				out.effects["field-of-excluded-type-dropped"] = true
				if el := p.ix.els[t]; el != nil && el.mapEntry {
					out.effects["map-field-dropped"] = true
				}
				continue
			}
			diff("field:missing", fmt.Sprintf("field %q of %q is missing although its type is not excluded", fl.GetName(), full))
		}
		// oneofs
		oon := map[string]*descriptorpb.OneofDescriptorProto{}
		for _, od := range o.GetOneofDecl() {
			oon[od.GetName()] = od
		}
		for _, rd := range r.GetOneofDecl() {
			od := oon[rd.GetName()]
			if od == nil {
				diff("oneof:invented", fmt.Sprintf("oneof %q of %q is not in the original", rd.GetName(), full))
				continue
			}
			if c12NormOpts(p, c12OptionsOf(od)) != c12NormOpts(p, c12OptionsOf(rd)) {
				diff("oneof:options", fmt.Sprintf("options of oneof %q of %q changed", rd.GetName(), full))
			}
			if oneofUsed[rd.GetName()] == 0 {
				diff("oneof:empty", fmt.Sprintf("oneof %q of %q has no field left", rd.GetName(), full))
			}
		}
		if len(r.GetOneofDecl()) < len(o.GetOneofDecl()) {
			out.effects["oneof-dropped"] = true
		}
		a := &descriptorpb.DescriptorProto{ExtensionRange: o.GetExtensionRange(), ReservedRange: o.GetReservedRange(), ReservedName: o.GetReservedName()}
		b := &descriptorpb.DescriptorProto{ExtensionRange: r.GetExtensionRange(), ReservedRange: r.GetReservedRange(), ReservedName: r.GetReservedName()}
		a, b = proto.Clone(a).(*descriptorpb.DescriptorProto), proto.Clone(b).(*descriptorpb.DescriptorProto)
		if len(a.ExtensionRange) == len(b.ExtensionRange) {
			for i := range a.ExtensionRange {
				if c12NormOpts(p, c12OptionsOf(a.ExtensionRange[i])) != c12NormOpts(p, c12OptionsOf(b.ExtensionRange[i])) {
					diff("extension-range:options", fmt.Sprintf("options of an extension range of %q changed", full))
				}
				a.ExtensionRange[i].Options, b.ExtensionRange[i].Options = nil, nil
			}
		}
		if !proto.Equal(a, b) {
			diff("message:ranges", fmt.Sprintf("extension ranges / reserved ranges / reserved names of %q changed", full))
		}
	}
	c12CompareMessages(p, full+".", o.GetNestedType(), r.GetNestedType(), out, diff)
	c12CompareEnums(p, full+".", o.GetEnumType(), r.GetEnumType(), diff)
	c12CompareExts(p, full+".", o.GetExtension(), r.GetExtension(), diff)
	if len(r.GetNestedType()) < len(o.GetNestedType()) || len(r.GetEnumType()) < len(o.GetEnumType()) {
		out.effects["nested-type-dropped"] = true
	}
}

// ---- source info ---------------------------------------------------------------------------------

type c12Loc struct {
	span                      string
	leading, trailing, detach string
}

func (l c12Loc) hasComment() bool { return l.leading != "" || l.trailing != "" || l.detach != "" }

func c12LocOf(l *descriptorpb.SourceCodeInfo_Location) c12Loc {
	return c12Loc{span: fmt.Sprint(l.GetSpan()), leading: l.GetLeadingComments(), trailing: l.GetTrailingComments(), detach: strings.Join(l.GetLeadingDetachedComments(), "\x00")}
}

// c12NamePath turns a source-info path into a path of names ("message_type[Foo]/field[bar]"),
// which identifies the same element in the original and in the filtered file whatever the
// indexes are. ok=false: the path points at nothing.
func c12NamePath(fd *descriptorpb.FileDescriptorProto, path []int32) (np string, isElement bool, ok bool) {
	var sb bytes.Buffer
	m := fd.ProtoReflect()
	i := 0
	for i < len(path) {
		f := m.Descriptor().Fields().ByNumber(protowire.Number(path[i]))
		if f == nil {
			// an extension of an options message (or deeper): identified by numbers
			fmt.Fprintf(&sb, "/#%v", path[i:])
			return sb.String(), false, true
		}
		i++
		sb.WriteString("/" + string(f.Name()))
		if f.IsList() {
			l := m.Get(f).List()
			if i == len(path) {
				return sb.String(), false, l.Len() > 0
			}
			idx := int(path[i])
			i++
			if idx < 0 || idx >= l.Len() {
				return "", false, false
			}
			if f.Message() != nil {
				em := l.Get(idx).Message()
				key := ""
				if nf := em.Descriptor().Fields().ByName("name"); nf != nil && nf.Kind().String() == "string" {
					key = em.Get(nf).String()
				} else if f1, f2 := em.Descriptor().Fields().ByNumber(1), em.Descriptor().Fields().ByNumber(2); f1 != nil && f2 != nil {
					key = fmt.Sprintf("%v-%v", em.Get(f1), em.Get(f2)) // ranges: start-end
				} else {
					key = fmt.Sprintf("#%d", idx)
				}
				sb.WriteString("[" + key + "]")
				m = em
				if i == len(path) {
					return sb.String(), true, true
				}
				continue
			}
			v := l.Get(idx)
			switch f.Name() {
			case "public_dependency", "weak_dependency":
				deps := fd.GetDependency()
				if int(v.Int()) < len(deps) {
					sb.WriteString("[" + deps[v.Int()] + "]")
				} else {
					return "", false, false
				}
			default:
				sb.WriteString("[" + v.String() + "]")
			}
			return sb.String(), false, i == len(path)
		}
		if f.Message() != nil {
			if !m.Has(f) {
				return "", false, false
			}
			m = m.Get(f).Message()
			continue
		}
		return sb.String(), false, i == len(path)
	}
	return sb.String(), false, true
}

// c12CompareSourceInfo: every location of the filtered file must carry exactly what the
// original carried for the element of the same name path (nothing moved, nothing altered), and
// every comment of a surviving element must still be there.
func c12CompareSourceInfo(p *c12Plan, o, r *descriptorpb.FileDescriptorProto, report c12Report) int {
	if len(o.GetSourceCodeInfo().GetLocation()) == 0 {
		return 0
	}
	orig := map[string][]c12Loc{}
	for _, l := range o.GetSourceCodeInfo().GetLocation() {
		np, _, ok := c12NamePath(o, l.GetPath())
		if !ok {
			continue
		}
		orig[np] = append(orig[np], c12LocOf(l))
	}
	compared := 0
	got := map[string][]c12Loc{}
	for _, l := range r.GetSourceCodeInfo().GetLocation() {
		loc := c12LocOf(l)
		np, isEl, ok := c12NamePath(r, l.GetPath())
		if !ok {
			if loc.hasComment() {
				report("comment-detached", "dangling-location", fmt.Sprintf("a location with comments (%q) has path %v, which points at nothing in the filtered file", loc.leading+loc.trailing, l.GetPath()))
			}
			continue
		}
		got[np] = append(got[np], loc)
		found, foundSpan := false, false
		for _, ol := range orig[np] {
			if ol == loc {
				found = true
			}
			if ol.span == loc.span {
				foundSpan = true
			}
		}
		if loc.hasComment() {
			compared++
		}
		if found {
			continue
		}
		// a message kept only as a namespace may lose its own comments
		if isEl && !loc.hasComment() && foundSpan && c12IsNamespaceOnly(p, o, r, np) {
			continue
		}
		switch {
		case len(orig[np]) == 0:
			report("comment-moved", "location-invented", fmt.Sprintf("location %s (path %v) does not exist in the original", np, l.GetPath()))
		case !foundSpan:
			report("comment-moved", "span-changed", fmt.Sprintf("location %s has span %s, the original has %v", np, loc.span, orig[np]))
		default:
			report("comment-moved", "comment-changed", fmt.Sprintf("location %s carries comments %q/%q, the original carries %v", np, loc.leading, loc.trailing, orig[np]))
		}
	}
	// comments of surviving elements are still there
	for _, l := range o.GetSourceCodeInfo().GetLocation() {
		loc := c12LocOf(l)
		if !loc.hasComment() {
			continue
		}
		np, isEl, ok := c12NamePath(o, l.GetPath())
		if !ok || !isEl {
			continue
		}
		if !c12NamePathExists(r, np) {
			continue
		}
		kept := false
		for _, gl := range got[np] {
			if gl == loc {
				kept = true
			}
		}
		if kept {
			continue
		}
		if c12IsNamespaceOnly(p, o, r, np) {
			continue
		}
		report("comment-lost", elementKind(np), fmt.Sprintf("the comment %q of %s is not attached to it any more (locations there now: %v)", loc.leading+loc.trailing, np, got[np]))
	}
	return compared
}

func lastSeg(np string) string {
	if i := strings.LastIndex(np, "/"); i >= 0 {
		return np[i+1:]
	}
	return np
}

func elementKind(np string) string {
	s := lastSeg(np)
	if i := strings.Index(s, "["); i >= 0 {
		return s[:i]
	}
	return s
}

// c12Descend follows a name path in a file descriptor.
func c12Descend(fd *descriptorpb.FileDescriptorProto, np string) (proto.Message, bool) {
	m := fd.ProtoReflect()
	for _, seg := range strings.Split(strings.TrimPrefix(np, "/"), "/") {
		if strings.HasPrefix(seg, "#") {
			return nil, false
		}
		name, key, hasKey := strings.Cut(seg, "[")
		key = strings.TrimSuffix(key, "]")
		f := m.Descriptor().Fields().ByName(protoreflect.Name(name))
		if f == nil {
			return nil, false
		}
		if !hasKey {
			if f.Message() != nil && !f.IsList() {
				if !m.Has(f) {
					return nil, false
				}
				m = m.Get(f).Message()
				continue
			}
			return nil, false
		}
		if !f.IsList() || f.Message() == nil {
			return nil, false
		}
		l := m.Get(f).List()
		var next protoreflect.Message
		for i := 0; i < l.Len(); i++ {
			em := l.Get(i).Message()
			if nf := em.Descriptor().Fields().ByName("name"); nf != nil && em.Get(nf).String() == key {
				next = em
				break
			}
		}
		if next == nil {
			return nil, false
		}
		m = next
	}
	return m.Interface(), true
}

func c12NamePathExists(fd *descriptorpb.FileDescriptorProto, np string) bool {
	_, ok := c12Descend(fd, np)
	return ok
}

// c12IsNamespaceOnly: np names a message that the filter kept only as a namespace (body removed).
func c12IsNamespaceOnly(p *c12Plan, o, r *descriptorpb.FileDescriptorProto, np string) bool {
	om, ok1 := c12Descend(o, np)
	rm, ok2 := c12Descend(r, np)
	if !ok1 || !ok2 {
		return false
	}
	od, ok1 := om.(*descriptorpb.DescriptorProto)
	rd, ok2 := rm.(*descriptorpb.DescriptorProto)
	if !ok1 || !ok2 {
		return false
	}
	hadBody := len(od.GetField()) > 0 || len(od.GetOneofDecl()) > 0 || len(od.GetExtensionRange()) > 0 || len(od.GetReservedRange()) > 0 || len(od.GetReservedName()) > 0
	emptyBody := len(rd.GetField()) == 0 && len(rd.GetOneofDecl()) == 0 && len(rd.GetExtensionRange()) == 0 && len(rd.GetReservedRange()) == 0 && len(rd.GetReservedName()) == 0
	return hadBody && emptyBody && (len(p.f.inc) > 0 || p.ix.isImport[o.GetName()])
}
