package checks

import (
	"bytes"
	"context"
	"encoding/json"
	"errors"
	"fmt"
	"io"
	"io/fs"
	"log/slog"
	"os"
	"os/exec"
	"path/filepath"
	"sort"
	"strconv"
	"strings"
	"syscall"
	"time"

	"github.com/bufbuild/buf/private/bufpkg/bufmodule"
	"github.com/bufbuild/buf/private/bufpkg/bufmodule/bufmodulecache"
	"github.com/bufbuild/buf/private/bufpkg/bufmodule/bufmodulestore"
	"github.com/bufbuild/buf/private/bufpkg/bufparse"
	"github.com/bufbuild/buf/private/pkg/filelock"
	"github.com/bufbuild/buf/private/pkg/storage"
	"github.com/bufbuild/buf/private/pkg/storage/storagemem"
	"github.com/bufbuild/buf/private/pkg/storage/storageos"
	"github.com/bufbuild/buf/private/pkg/verifhook"
	"github.com/bufbuild/verifharness/core"
	"github.com/bufbuild/verifharness/model"
	"github.com/google/uuid"
)

// C09 — the module cache never serves wrong content.
//
// Histories of one cache entry under (a) SIGKILL at every hook hit of a store, (b) every injected
// write/close failure, (c) every single-file tampering of a complete entry, (d) concurrent
// store/load by several clients. Oracle over every read outcome: not-found, or found with content
// whose independently computed b5 digest (model.B5) equals the key's, or an error; success with
// wrong content is the refutation. Tampered module files must yield DigestMismatchError; an
// interrupted store must not leave a complete marker over incomplete content; one fault-free
// store afterwards must make the entry readable and correct.

type c09Spec struct {
	Name    string            `json:"name"`
	Commit  string            `json:"commit"`
	Files   map[string]string `json:"files"`
	Deps    []c09Spec         `json:"deps"`
	BufYAML string            `json:"buf_yaml"`
	BufLock string            `json:"buf_lock"`
	// B4: the module key pins the legacy digest, which covers the v1 buf.yaml / buf.lock side files
	B4 bool `json:"b4,omitempty"`
	// YAMLName: the name the v1 configuration object carries ("" = buf.yaml; buf.mod is the legacy spelling)
	YAMLName string `json:"buf_yaml_name,omitempty"`
}

func (s c09Spec) yamlName() string {
	if s.YAMLName == "" {
		return "buf.yaml"
	}
	return s.YAMLName
}

func (s c09Spec) filesBytes() map[string][]byte {
	out := map[string][]byte{}
	for p, d := range s.Files {
		out[p] = []byte(d)
	}
	return out
}

func (s c09Spec) b5() string {
	var deps []string
	for _, d := range s.Deps {
		deps = append(deps, d.b5())
	}
	return model.B5(s.filesBytes(), deps)
}

func c09Key(s c09Spec) bufmodule.ModuleKey {
	fn, err := bufparse.ParseFullName(s.Name)
	if err != nil {
		panic(err)
	}
	id := uuid.MustParse(s.Commit)
	digestString := s.b5()
	if s.B4 {
		var y, l []byte
		if s.BufYAML != "" {
			y = []byte(s.BufYAML)
		}
		if s.BufLock != "" {
			l = []byte(s.BufLock)
		}
		digestString = model.B4Named(s.filesBytes(), s.yamlName(), y, l)
	}
	key, err := bufmodule.NewModuleKey(fn, id, func() (bufmodule.Digest, error) { return bufmodule.ParseDigest(digestString) })
	if err != nil {
		panic(err)
	}
	return key
}

func c09Data(ctx context.Context, s c09Spec) bufmodule.ModuleData {
	return bufmodule.NewModuleData(ctx, c09Key(s),
		func() (storage.ReadBucket, error) { return storagemem.NewReadBucket(s.filesBytes()) },
		func() ([]bufmodule.ModuleKey, error) {
			var keys []bufmodule.ModuleKey
			for _, d := range s.Deps {
				keys = append(keys, c09Key(d))
			}
			return keys, nil
		},
		func() (bufmodule.ObjectData, error) {
			if s.BufYAML == "" {
				return nil, nil
			}
			return bufmodule.NewObjectData(s.yamlName(), []byte(s.BufYAML))
		},
		func() (bufmodule.ObjectData, error) {
			if s.BufLock == "" {
				return nil, nil
			}
			return bufmodule.NewObjectData("buf.lock", []byte(s.BufLock))
		},
	)
}

func c09Spec_(seed uint64, mi int) c09Spec {
	r := core.RandFor(seed, "C09", mi, "module")
	nfiles := []int{1, 2, 3, 5, 8, 4}[mi%6]
	if mi >= 6 {
		nfiles = 1 + r.IntN(8)
	}
	names := []string{"a/v1/a.proto", "a/v1/b.proto", "c.proto", "LICENSE", "buf.md", "d/e/f.proto", "x y/z.proto", "README.md", "g/h.proto", "i.proto"}
	s := c09Spec{
		Name:   fmt.Sprintf("buf.test/acme/m%d", mi),
		Commit: uuid.NewSHA1(uuid.NameSpaceOID, []byte(fmt.Sprintf("c09-%d-%d", seed, mi))).String(),
		Files:  map[string]string{},
	}
	for i := 0; i < nfiles; i++ {
		content := fmt.Sprintf("syntax = \"proto3\";\npackage p%d;\nmessage M%d { int32 f = %d; }\n", i, i, 1+r.IntN(100))
		switch r.IntN(6) {
		case 0:
			content = ""
		case 1:
			content += strings.Repeat("// padding\n", 5000)
		}
		s.Files[names[i]] = content
	}
	if mi%2 == 1 {
		s.BufYAML = "version: v1\nname: " + s.Name + "\n"
		s.BufLock = "version: v1\ndeps: []\n"
		s.B4 = mi%4 == 1
		if (mi/2)%3 == 2 {
			// the legacy spelling of the configuration file's name; the name is covered by the b4 digest
			s.YAMLName = "buf.mod"
		}
	}
	if mi%3 != 0 {
		dep := c09Spec{Name: fmt.Sprintf("buf.test/acme/dep%d", mi), Commit: uuid.NewSHA1(uuid.NameSpaceOID, []byte(fmt.Sprintf("c09dep-%d", mi))).String(),
			Files: map[string]string{"dep.proto": "syntax = \"proto3\";\npackage dep;\n"}}
		s.Deps = append(s.Deps, dep)
		if mi%4 == 3 {
			dep2 := dep
			dep2.Name += "b"
			dep2.Files = map[string]string{"dep2.proto": "syntax = \"proto3\";\npackage dep2;\n"}
			s.Deps = append(s.Deps, dep2)
		}
	}
	return s
}

// c09SideFilesTampered is set by the tamper part (one case at a time per worker process) while it reads an entry
// whose key pins a b5 digest: the side files are outside that digest, so their content is not judged then.
var c09SideFilesTampered bool

// c09SlowReader widens the window between the digest verification of an entry and the reading of its files.
var c09SlowReader time.Duration

var c09Logger = slog.New(slog.NewTextHandler(io.Discard, nil))

type c09Store struct {
	store  bufmodulestore.ModuleDataStore
	bucket storage.ReadWriteBucket
	dir    string // <cache>/v3/modules
}

// c09Open wires the store exactly as bufcli does: disk bucket without symlinks + file locker on a sibling directory.
func c09Open(cacheDir string, tar bool, wrap func(storage.ReadWriteBucket) storage.ReadWriteBucket) (*c09Store, error) {
	modDir := filepath.Join(cacheDir, "v3", "modules")
	lockDir := filepath.Join(cacheDir, "v3", "modulelocks")
	if err := os.MkdirAll(modDir, 0o755); err != nil {
		return nil, err
	}
	if err := os.MkdirAll(lockDir, 0o755); err != nil {
		return nil, err
	}
	bucket, err := storageos.NewProvider().NewReadWriteBucket(modDir)
	if err != nil {
		return nil, err
	}
	locker, err := filelock.NewLocker(lockDir)
	if err != nil {
		return nil, err
	}
	var b storage.ReadWriteBucket = bucket
	if wrap != nil {
		b = wrap(bucket)
	}
	var opts []bufmodulestore.ModuleDataStoreOption
	if tar {
		opts = append(opts, bufmodulestore.ModuleDataStoreWithTar())
	}
	return &c09Store{store: bufmodulestore.NewModuleDataStore(c09Logger, b, locker, opts...), bucket: bucket, dir: modDir}, nil
}

type c09Outcome struct {
	Kind   string // notfound | found | mismatch | error
	Detail string
}

// c09Read reads the entry through a fresh store and classifies the outcome. A "found" outcome
// with content that does not hash to the key's digest is recorded as a violation.
func c09Read(c *core.C, cacheDir string, tar bool, s c09Spec, key string) c09Outcome {
	st, err := c09Open(cacheDir, tar, nil)
	if err != nil {
		return c09Outcome{"error", err.Error()}
	}
	return c09ReadWith(c, st.store, s, key)
}

func c09ReadWith(c *core.C, store bufmodulestore.ModuleDataStore, s c09Spec, key string) c09Outcome {
	ctx := context.Background()
	c.Eval(1)
	found, notFound, err := store.GetModuleDatasForModuleKeys(ctx, []bufmodule.ModuleKey{c09Key(s)})
	if err != nil {
		return c09Outcome{"error", err.Error()}
	}
	if len(notFound) == 1 && len(found) == 0 {
		c.Count("reads_notfound", 1)
		return c09Outcome{"notfound", ""}
	}
	if len(found) != 1 {
		c.Violation("get-result-shape", key, fmt.Sprintf("GetModuleDatasForModuleKeys returned %d found and %d not found for one key", len(found), len(notFound)), nil)
		return c09Outcome{"error", "shape"}
	}
	return c09VerifyData(c, found[0], s, key)
}

// c09VerifyData classifies one ModuleData handed out for the module s: usable content must hash to
// the key's digest (independent construction) and equal the stored module's files.
func c09VerifyData(c *core.C, md bufmodule.ModuleData, s c09Spec, key string) c09Outcome {
	ctx := context.Background()
	bucket, err := md.Bucket()
	if err != nil {
		var dm *bufmodule.DigestMismatchError
		if errors.As(err, &dm) {
			c.Count("reads_mismatch", 1)
			return c09Outcome{"mismatch", err.Error()}
		}
		c.Count("reads_error", 1)
		return c09Outcome{"error", err.Error()}
	}
	deps, derr := md.DepModuleKeys()
	if derr != nil {
		var dm *bufmodule.DigestMismatchError
		if errors.As(derr, &dm) {
			return c09Outcome{"mismatch", derr.Error()}
		}
		return c09Outcome{"error", derr.Error()}
	}
	// a slow reader (hist clients): the digest was verified by Bucket(); the files are read a little later
	if c09SlowReader > 0 {
		time.Sleep(c09SlowReader)
	}
	// independent content check
	content := map[string][]byte{}
	werr := bucket.Walk(ctx, "", func(oi storage.ObjectInfo) error {
		data, err := storage.ReadPath(ctx, bucket, oi.Path())
		if err != nil {
			return err
		}
		content[oi.Path()] = data
		return nil
	})
	if werr != nil {
		return c09Outcome{"error", werr.Error()}
	}
	var depDigests []string
	for _, d := range deps {
		dg, err := d.Digest()
		if err != nil {
			return c09Outcome{"error", err.Error()}
		}
		depDigests = append(depDigests, dg.String())
	}
	got := model.B5(content, depDigests)
	want := s.b5()
	if got != want {
		var names []string
		for p, d := range content {
			names = append(names, fmt.Sprintf("%s(%dB)", p, len(d)))
		}
		sort.Strings(names)
		c.Violation("served-wrong-content", key, fmt.Sprintf("cache returned content with digest %s… for a key pinned to %s…: files=%v deps=%d", got[:19], want[:19], names, len(deps)), nil)
		return c09Outcome{"found-wrong", ""}
	}
	// and the module files equal the stored module's, byte for byte
	wantFiles := model.ModuleFiles(s.filesBytes())
	for p, d := range wantFiles {
		if !bytes.Equal(content[p], d) {
			c.Violation("served-wrong-content", key, "digest equal but file "+p+" differs", nil)
		}
	}
	// and so do the v1 side files, which a b5 digest does not cover
	for _, side := range []struct {
		name string
		want string
		get  func() (bufmodule.ObjectData, error)
	}{{"buf.yaml", s.BufYAML, md.V1Beta1OrV1BufYAMLObjectData}, {"buf.lock", s.BufLock, md.V1Beta1OrV1BufLockObjectData}} {
		od, err := side.get()
		if err != nil {
			var dm *bufmodule.DigestMismatchError
			if errors.As(err, &dm) {
				return c09Outcome{"mismatch", err.Error()}
			}
			return c09Outcome{"error", err.Error()}
		}
		got := ""
		if od != nil {
			got = string(od.Data())
			if wantName := map[string]string{"buf.yaml": s.yamlName(), "buf.lock": "buf.lock"}[side.name]; od.Name() != wantName && !c09SideFilesTampered {
				c.Violation("served-wrong-content", key+" side="+side.name+" name", fmt.Sprintf("the v1 %s object was stored under the name %q and is served under the name %q", side.name, wantName, od.Name()), nil)
				return c09Outcome{"found-wrong", ""}
			}
			c.Distinct("side_file_names", od.Name())
		}
		if got != side.want && c09SideFilesTampered {
			c.Count("tampered_side_file_of_b5_entry_served", 1)
			continue
		}
		if got != side.want {
			c.Violation("served-wrong-content", key+" side="+side.name, fmt.Sprintf("the entry is served without its v1 %s: stored %q, served %q", side.name, side.want, got), nil)
			return c09Outcome{"found-wrong", ""}
		}
		if side.want != "" {
			c.Count("side_files_verified", 1)
		}
	}
	c.Count("reads_found_correct", 1)
	if s.B4 {
		c.Count("reads_found_correct_b4", 1)
	}
	return c09Outcome{"found", ""}
}

func c09ListDir(dir string) []string {
	var out []string
	filepath.Walk(dir, func(p string, info os.FileInfo, err error) error {
		if err == nil && !info.IsDir() {
			rel, _ := filepath.Rel(dir, p)
			out = append(out, rel)
		}
		return nil
	})
	sort.Strings(out)
	return out
}

func init() {
	core.RegisterHelper("c09put", func(args []string) int {
		// c09put <cacheDir> <tar 0|1> <spec json>
		var s c09Spec
		// args[2] is the path of a file holding the spec (a spec can exceed the kernel's per-argument limit)
		specData, err := os.ReadFile(args[2])
		if err != nil {
			fmt.Fprintln(os.Stderr, err)
			return 3
		}
		if err := json.Unmarshal(specData, &s); err != nil {
			fmt.Fprintln(os.Stderr, err)
			return 3
		}
		st, err := c09Open(args[0], args[1] == "1", nil)
		if err != nil {
			fmt.Fprintln(os.Stderr, err)
			return 3
		}
		ctx := context.Background()
		if err := st.store.PutModuleDatas(ctx, []bufmodule.ModuleData{c09Data(ctx, s)}); err != nil {
			fmt.Fprintln(os.Stderr, "put:", err)
			return 4
		}
		fmt.Println(verifhook.TotalHits())
		return 0
	})
}

// c09SpecFile writes the module spec to a scratch file and returns its path.
func c09SpecFile(c *core.C, specJSON []byte) string {
	p := filepath.Join(c.Tmp, "c09spec.json")
	os.WriteFile(p, specJSON, 0o644)
	return p
}

func c09Repair(c *core.C, cacheDir string, tar bool, s c09Spec, key string) {
	ctx := context.Background()
	st, err := c09Open(cacheDir, tar, nil)
	if err != nil {
		c.Violation("repair-failed", key, "open: "+err.Error(), nil)
		return
	}
	if err := st.store.PutModuleDatas(ctx, []bufmodule.ModuleData{c09Data(ctx, s)}); err != nil {
		c.Violation("repair-failed", key, "a fault-free store after the fault failed: "+err.Error(), nil)
		return
	}
	out := c09ReadWith(c, st.store, s, key+" phase=after-repair")
	if out.Kind != "found" {
		c.Violation("repair-failed", key, fmt.Sprintf("after a fault-free store of the same module the entry is %s (%s); listing=%v", out.Kind, out.Detail, c09ListDir(st.dir)), nil)
	}
	c.Count("repairs_checked", 1)
}

// ---- (a) crash enumeration -----------------------------------------------------------------

func c09Crash(c *core.C, mi int, tar bool) {
	s := c09Spec_(c.Seed, mi)
	specJSON, _ := json.Marshal(s)
	cache := filepath.Join(c.Tmp, "c09crash")
	defer os.RemoveAll(cache)
	tarArg := "0"
	if tar {
		tarArg = "1"
	}
	runChild := func(kill string) (killed bool, out string, code int) {
		cmd := exec.Command(core.SelfExe(), "helper", "c09put", cache, tarArg, c09SpecFile(c, specJSON))
		cmd.Env = os.Environ()
		if kill != "" {
			cmd.Env = append(cmd.Env, "VERIF_KILL="+kill)
		}
		var stdout, stderr bytes.Buffer
		cmd.Stdout, cmd.Stderr = &stdout, &stderr
		err := cmd.Run()
		if ee, ok := err.(*exec.ExitError); ok {
			if ws, ok := ee.Sys().(syscall.WaitStatus); ok && ws.Signaled() {
				return true, stderr.String(), -1
			}
			return false, stderr.String(), ee.ExitCode()
		}
		return false, strings.TrimSpace(stdout.String()), 0
	}
	os.RemoveAll(cache)
	_, out, code := runChild("")
	total, _ := strconv.Atoi(out)
	if code != 0 || total == 0 {
		c.Violation("fault-free-run-failed", fmt.Sprintf("module=%d tar=%v", mi, tar), fmt.Sprintf("store child failed: code=%d out=%s", code, out), nil)
		return
	}
	if o := c09Read(c, cache, tar, s, fmt.Sprintf("module=%d tar=%v phase=dry", mi, tar)); o.Kind != "found" {
		c.Violation("fault-free-run-failed", fmt.Sprintf("module=%d tar=%v", mi, tar), "entry not readable after a fault-free store: "+o.Kind+" "+o.Detail, nil)
		return
	}
	crashAt := func(n int, fresh bool) bool {
		if fresh {
			os.RemoveAll(cache)
		}
		killed, _, _ := runChild(fmt.Sprintf("*:%d", n))
		c.Count("crash_runs", 1)
		if killed {
			c.Count("kills_delivered", 1)
		}
		return killed
	}
	for n := 1; n <= total; n++ {
		key := fmt.Sprintf("module=%d tar=%v crash=*:%d", mi, tar, n)
		killed := crashAt(n, true)
		listing := c09ListDir(filepath.Join(cache, "v3", "modules"))
		o := c09Read(c, cache, tar, s, key)
		c.Distinct("crash_points", fmt.Sprintf("m%d/tar=%v/%d", mi, tar, n))
		c.Distinct("post_crash_outcomes", o.Kind)
		if killed && o.Kind == "found" {
			c.Count("found_after_crash", 1)
		}
		if o.Kind == "error" && o.Detail != "" {
			c.Distinct("post_crash_errors", o.Detail[:min(len(o.Detail), 60)])
		}
		_ = listing
		c09Repair(c, cache, tar, s, key)
		if c.Thorough() && n%3 == 1 {
			// pairs: crash at n, then crash again at every m on the same directory
			for m := 1; m <= total; m += 2 {
				crashAt(n, true)
				crashAt(m, false)
				key2 := fmt.Sprintf("module=%d tar=%v crash=*:%d,*:%d", mi, tar, n, m)
				c09Read(c, cache, tar, s, key2)
				c09Repair(c, cache, tar, s, key2)
				c.Count("crash_pairs", 1)
			}
		}
	}
	c.Nontrivial(fmt.Sprintf("crash module=%d files=%d deps=%d sidefiles=%v tar=%v hook_hits=%d", mi, len(s.Files), len(s.Deps), s.BufYAML != "", tar, total))
	if mi == 0 && !tar {
		c.Sample(map[string]any{"crash_enumeration": map[string]any{"module_files": len(s.Files), "hook_hits_in_one_store": total, "kill": "VERIF_KILL=*:n for n=1..hits, then fresh-process read, then fault-free store + read"}})
	}
}

// ---- (b) fault enumeration -------------------------------------------------------------------

func c09Fault(c *core.C, mi int, tar bool) {
	ctx := context.Background()
	s := c09Spec_(c.Seed, mi)
	cache := filepath.Join(c.Tmp, "c09fault")
	defer os.RemoveAll(cache)
	runPut := func(plan *c15Plan) error {
		st, err := c09Open(cache, tar, func(b storage.ReadWriteBucket) storage.ReadWriteBucket {
			return &c15Bucket{ReadWriteBucket: b, plan: plan}
		})
		if err != nil {
			return err
		}
		return st.store.PutModuleDatas(ctx, []bufmodule.ModuleData{c09Data(ctx, s)})
	}
	os.RemoveAll(cache)
	verifhook.Reset()
	dry := &c15Plan{}
	if err := runPut(dry); err != nil {
		c.Violation("fault-free-run-failed", fmt.Sprintf("module=%d tar=%v", mi, tar), "store failed without faults: "+err.Error(), nil)
		return
	}
	hookHits := verifhook.Hits()
	type pos struct {
		kind  string
		k     int
		short bool
		hook  string
	}
	var positions []pos
	for k := 1; k <= dry.puts; k++ {
		positions = append(positions, pos{kind: "put", k: k})
	}
	for k := 1; k <= dry.writes; k++ {
		// no short-write variant here: a wrapper above the atomic disk writer that forwards half of
		// the bytes and then lets Close commit would manufacture a partial module.yaml that the real
		// writer (which remembers the write error and discards the temp file) can never produce;
		// short writes are injected inside the real writer through the os.write hook instead
		positions = append(positions, pos{kind: "write", k: k})
	}
	for k := 1; k <= dry.closes; k++ {
		positions = append(positions, pos{kind: "close", k: k})
	}
	for _, hp := range []string{"os.write", "os.close"} {
		for k := 1; k <= hookHits[hp]; k++ {
			positions = append(positions, pos{hook: hp, k: k})
			if hp == "os.write" {
				positions = append(positions, pos{hook: hp, k: k, short: true})
			}
		}
	}
	apply := func(p pos, plan *c15Plan) string {
		if p.hook != "" {
			verifhook.Arm(p.hook, verifhook.Action{Nth: p.k, Fault: true, Short: p.short})
			return fmt.Sprintf("%s#%d short=%v", p.hook, p.k, p.short)
		}
		plan.short = plan.short || p.short
		switch p.kind {
		case "put":
			if plan.failPut == 0 {
				plan.failPut = p.k
			} else {
				plan.failPut2 = p.k
			}
		case "write":
			if plan.failWrite == 0 {
				plan.failWrite = p.k
			} else {
				plan.failWrite2 = p.k
			}
		default:
			if plan.failClose == 0 {
				plan.failClose = p.k
			} else {
				plan.failClos2 = p.k
			}
		}
		l := fmt.Sprintf("%s#%d", p.kind, p.k)
		if p.short {
			l += "short"
		}
		return l
	}
	one := func(ps ...pos) {
		os.RemoveAll(cache)
		verifhook.Reset()
		plan := &c15Plan{}
		var labels []string
		for _, p := range ps {
			labels = append(labels, apply(p, plan))
		}
		label := strings.Join(labels, "+")
		key := fmt.Sprintf("module=%d tar=%v fault=%s", mi, tar, label)
		err := runPut(plan)
		fired := len(plan.fired)
		for _, n := range verifhook.Fired() {
			fired += n
		}
		verifhook.Reset()
		c.Eval(1)
		c.Count("fault_runs", 1)
		c.Distinct("fault_positions", fmt.Sprintf("m%d/tar=%v/%s", mi, tar, label))
		if fired > 0 {
			c.Count("faults_fired", fired)
		}
		o := c09Read(c, cache, tar, s, key)
		c.Distinct("post_fault_outcomes", o.Kind)
		if fired > 0 && err == nil && o.Kind != "found" {
			c.Violation("store-reported-success-incomplete", key, fmt.Sprintf("PutModuleDatas returned nil although injected fault(s) fired and the entry reads as %s (%s)", o.Kind, o.Detail), nil)
		}
		if fired > 0 && err != nil && o.Kind == "found" {
			c.Count("found_after_failed_store", 1)
			// Faults injected inside the real disk writer (hook points): the commit marker is put
			// atomically and last, so a store that reported failure cannot have published it.
			// (Wrapper faults sit above the atomic writer: a failing wrapper Close has already
			// committed the object underneath, which is an artefact of the wrapper, not of buf.)
			hookOnly := len(plan.fired) == 0
			if hookOnly {
				c.Violation("failed-store-marked-complete", key, "PutModuleDatas returned an error ("+err.Error()+") but the entry is marked complete and served", nil)
			}
		}
		if fired > 0 && err != nil {
			c.Count("failed_store_not_complete_checked", 1)
		}
		c09Repair(c, cache, tar, s, key)
	}
	for _, p := range positions {
		one(p)
	}
	if c.Thorough() {
		for i := 0; i < len(positions); i++ {
			for j := i + 1; j < len(positions); j++ {
				if positions[i].short || positions[j].short {
					continue
				}
				one(positions[i], positions[j])
				c.Count("fault_pairs", 1)
			}
		}
	}
	c.Nontrivial(fmt.Sprintf("fault module=%d files=%d tar=%v positions=%d", mi, len(s.Files), tar, len(positions)))
}

// ---- (c) tamper enumeration --------------------------------------------------------------------

func c09Tamper(c *core.C, mi int, tar bool) {
	ctx := context.Background()
	s := c09Spec_(c.Seed, mi)
	cache := filepath.Join(c.Tmp, "c09tamper")
	defer os.RemoveAll(cache)
	build := func() bool {
		os.RemoveAll(cache)
		st, err := c09Open(cache, tar, nil)
		if err != nil {
			return false
		}
		return st.store.PutModuleDatas(ctx, []bufmodule.ModuleData{c09Data(ctx, s)}) == nil
	}
	if !build() {
		c.Violation("fault-free-run-failed", fmt.Sprintf("module=%d tar=%v", mi, tar), "store failed", nil)
		return
	}
	modDir := filepath.Join(cache, "v3", "modules")
	files := c09ListDir(modDir)
	type tamper struct {
		name string
		do   func(full string) bool // returns false if not applicable
	}
	tampers := []tamper{
		{"flip-first", func(full string) bool {
			d, _ := os.ReadFile(full)
			if len(d) == 0 {
				return false
			}
			d[0] ^= 0x20
			return os.WriteFile(full, d, 0o644) == nil
		}},
		{"flip-last", func(full string) bool {
			d, _ := os.ReadFile(full)
			if len(d) == 0 {
				return false
			}
			d[len(d)-1] ^= 0x01
			return os.WriteFile(full, d, 0o644) == nil
		}},
		{"flip-middle", func(full string) bool {
			d, _ := os.ReadFile(full)
			if len(d) < 3 {
				return false
			}
			d[len(d)/2] ^= 0x04
			return os.WriteFile(full, d, 0o644) == nil
		}},
		{"truncate-half", func(full string) bool {
			d, _ := os.ReadFile(full)
			if len(d) < 2 {
				return false
			}
			return os.WriteFile(full, d[:len(d)/2], 0o644) == nil
		}},
		{"truncate-zero", func(full string) bool {
			d, _ := os.ReadFile(full)
			if len(d) == 0 {
				return false
			}
			return os.WriteFile(full, nil, 0o644) == nil
		}},
		{"append-byte", func(full string) bool {
			d, _ := os.ReadFile(full)
			return os.WriteFile(full, append(d, '\n'), 0o644) == nil
		}},
		{"delete", func(full string) bool { return os.Remove(full) == nil }},
		{"rename", func(full string) bool {
			ext := filepath.Ext(full)
			return os.Rename(full, strings.TrimSuffix(full, ext)+"_renamed"+ext) == nil
		}},
		{"add-module-file-beside", func(full string) bool {
			return os.WriteFile(filepath.Join(filepath.Dir(full), "zz_added.proto"), []byte("syntax = \"proto3\";\n"), 0o644) == nil
		}},
		{"add-non-module-file-beside", func(full string) bool {
			return os.WriteFile(filepath.Join(filepath.Dir(full), "zz_added.txt"), []byte("hello"), 0o644) == nil
		}},
	}
	for _, rel := range files {
		for _, t := range tampers {
			if !build() {
				return
			}
			full := filepath.Join(modDir, rel)
			if !t.do(full) {
				continue
			}
			key := fmt.Sprintf("module=%d tar=%v tamper=%s file=%s", mi, tar, t.name, rel[strings.Index(rel, "/m")+1:])
			// a b5 digest does not cover the v1 side files: tampering with them cannot be noticed through it
			c09SideFilesTampered = !s.B4
			o := c09Read(c, cache, tar, s, key)
			c09SideFilesTampered = false
			c.Count("tamper_runs", 1)
			c.Distinct("tampers", t.name+"@"+c09FileClass(rel))
			c.Distinct("post_tamper_outcomes", t.name+"@"+c09FileClass(rel)+"→"+o.Kind)
			class := c09FileClass(rel)
			// content tampers of module files must be detected as digest mismatch specifically
			moduleFileTamper := class == "files" && t.name != "add-non-module-file-beside"
			if class == "files" && !strings.HasSuffix(rel, ".proto") && filepath.Base(rel) != "LICENSE" && t.name == "rename" {
				moduleFileTamper = true // doc file renamed away
			}
			if moduleFileTamper && !tar {
				if o.Kind != "mismatch" {
					c.Violation("tamper-not-digest-mismatch", key, fmt.Sprintf("tampering a cached module file (%s) must surface as DigestMismatchError; got %s (%s)", t.name, o.Kind, o.Detail), nil)
				}
				c.Count("tamper_mismatch_required", 1)
			}
			// c09Read already flags found-with-wrong-content for every class
		}
	}
	c.Nontrivial(fmt.Sprintf("tamper module=%d files=%d tar=%v entries=%d", mi, len(s.Files), tar, len(files)))
}

func c09FileClass(rel string) string {
	switch {
	case strings.HasSuffix(rel, ".tar"):
		return "tar"
	case strings.Contains(rel, "/files/"):
		return "files"
	case strings.Contains(rel, "/v1_buf_yaml/"):
		return "v1_buf_yaml"
	case strings.Contains(rel, "/v1_buf_lock/"):
		return "v1_buf_lock"
	case strings.HasSuffix(rel, "module.yaml"):
		return "module.yaml"
	}
	return "other"
}

// ---- (e) crash of a writer that lost the race -----------------------------------------------
//
// Writer B passes the shared-lock check, releases the lock and is delayed at store.unlocked;
// writer A stores the entry completely; B then proceeds and is SIGKILLed at its n-th hook hit.
// Whatever B did before dying, the entry A completed must stay readable and correct, and a
// later store must leave it readable and correct.
func c09LostRace(c *core.C, mi int) {
	s := c09Spec_(c.Seed, mi)
	specJSON, _ := json.Marshal(s)
	cache := filepath.Join(c.Tmp, "c09lostrace")
	defer os.RemoveAll(cache)
	child := func(env ...string) *exec.Cmd {
		cmd := exec.Command(core.SelfExe(), "helper", "c09put", cache, "0", c09SpecFile(c, specJSON))
		cmd.Env = append(os.Environ(), env...)
		return cmd
	}
	os.RemoveAll(cache)
	out, err := child().Output()
	total, _ := strconv.Atoi(strings.TrimSpace(string(out)))
	if err != nil || total == 0 {
		c.Violation("fault-free-run-failed", fmt.Sprintf("lostrace module=%d", mi), fmt.Sprintf("store child failed: %v", err), nil)
		return
	}
	step := 1
	if !c.Thorough() && total > 14 {
		step = (total + 13) / 14
	}
	for n := 2; n <= total; n += step {
		os.RemoveAll(cache)
		b := child("VERIF_SLEEP=store.unlocked:350000", fmt.Sprintf("VERIF_KILL=*:%d", n))
		if err := b.Start(); err != nil {
			continue
		}
		// give B time to reach store.unlocked, then let A run to completion while B sleeps
		time.Sleep(120 * time.Millisecond)
		aErr := child().Run()
		b.Wait()
		key := fmt.Sprintf("lostrace module=%d killB=*:%d", mi, n)
		c.Count("lostrace_runs", 1)
		c.Distinct("crash_points", fmt.Sprintf("lostrace/m%d/%d", mi, n))
		o := c09Read(c, cache, false, s, key)
		if aErr == nil && o.Kind != "found" {
			c.Violation("entry-damaged-by-late-writer", key, fmt.Sprintf("writer A stored the entry successfully; after late writer B was killed the entry reads as %s (%s)", o.Kind, o.Detail), nil)
		}
		c09Repair(c, cache, false, s, key)
	}
	c.Nontrivial(fmt.Sprintf("lostrace module=%d files=%d hits=%d", mi, len(s.Files), total))
}

// ---- (f) the cache provider in front of the store ------------------------------------------------
//
// bufmodulecache.NewModuleDataProvider(delegate, store): values missing from the store are fetched
// from the delegate, stored, and read back from the store. Under every injected store fault the call
// must either fail or hand out, in key order, data for exactly the requested keys whose content
// hashes to the key's digest; a delegate that serves wrong content must never be believed.
type c09Delegate struct {
	specs map[uuid.UUID]c09Spec
	lie   uuid.UUID // commit whose content is served altered
	calls int
}

func (d *c09Delegate) GetModuleDatasForModuleKeys(ctx context.Context, keys []bufmodule.ModuleKey) ([]bufmodule.ModuleData, error) {
	var out []bufmodule.ModuleData
	for _, k := range keys {
		d.calls++
		s, ok := d.specs[k.CommitID()]
		if !ok {
			return nil, &fs.PathError{Op: "read", Path: k.String(), Err: fs.ErrNotExist}
		}
		served := s
		if k.CommitID() == d.lie {
			served.Files = map[string]string{}
			for p, v := range s.Files {
				served.Files[p] = v + "// altered by the delegate\n"
			}
		}
		// the key stays the requested one (pinned digest of the honest content)
		out = append(out, bufmodule.NewModuleData(ctx, k,
			func() (storage.ReadBucket, error) { return storagemem.NewReadBucket(served.filesBytes()) },
			func() ([]bufmodule.ModuleKey, error) {
				var ks []bufmodule.ModuleKey
				for _, dd := range s.Deps {
					ks = append(ks, c09Key(dd))
				}
				return ks, nil
			},
			func() (bufmodule.ObjectData, error) { return nil, nil },
			func() (bufmodule.ObjectData, error) { return nil, nil },
		))
	}
	return out, nil
}

func c09Provider(c *core.C, idx int) {
	ctx := context.Background()
	tar := idx%2 == 1
	cache := filepath.Join(c.Tmp, "c09provider")
	defer os.RemoveAll(cache)
	n := 2 + c.Rand.IntN(3)
	var specs []c09Spec
	deleg := &c09Delegate{specs: map[uuid.UUID]c09Spec{}}
	for i := 0; i < n; i++ {
		s := c09Spec_(c.Seed, (idx*5+i)%24)
		s.Name = fmt.Sprintf("buf.test/acme/p%d", i)
		s.Commit = uuid.NewSHA1(uuid.NameSpaceOID, []byte(fmt.Sprintf("c09prov-%d-%d-%d", c.Seed, idx, i))).String()
		s.BufYAML, s.BufLock = "", ""
		specs = append(specs, s)
		deleg.specs[uuid.MustParse(s.Commit)] = s
	}
	keysOf := func() []bufmodule.ModuleKey {
		var ks []bufmodule.ModuleKey
		for _, s := range specs {
			ks = append(ks, c09Key(s))
		}
		return ks
	}
	call := func(plan *c15Plan, preCached int, label string) {
		os.RemoveAll(cache)
		if preCached > 0 {
			if st, err := c09Open(cache, tar, nil); err == nil {
				var mds []bufmodule.ModuleData
				for _, s := range specs[:preCached] {
					mds = append(mds, c09Data(ctx, s))
				}
				st.store.PutModuleDatas(ctx, mds)
			}
		}
		st, err := c09Open(cache, tar, func(b storage.ReadWriteBucket) storage.ReadWriteBucket {
			return &c15Bucket{ReadWriteBucket: b, plan: plan}
		})
		if err != nil {
			return
		}
		provider := bufmodulecache.NewModuleDataProvider(c09Logger, deleg, st.store)
		keys := keysOf()
		mds, err := provider.GetModuleDatasForModuleKeys(ctx, keys)
		c.Eval(1)
		c.Count("provider_calls", 1)
		key := fmt.Sprintf("provider case=%d tar=%v %s", idx, tar, label)
		c.Distinct("provider_scenarios", fmt.Sprintf("tar=%v precached=%d %s", tar, preCached, strings.SplitN(label, "#", 2)[0]))
		if err != nil {
			c.Count("provider_errors", 1)
			if deleg.lie != uuid.Nil {
				// the altered content is rejected when it is stored (tamper proofing of the delegate's data)
				c.Count("provider_lies_detected", 1)
			}
			return
		}
		if len(mds) != len(keys) {
			c.Violation("provider-result-shape", key, fmt.Sprintf("%d values for %d keys", len(mds), len(keys)), nil)
			return
		}
		for i, md := range mds {
			if md.ModuleKey().CommitID() != keys[i].CommitID() || md.ModuleKey().FullName().String() != keys[i].FullName().String() {
				c.Violation("provider-wrong-order", key, fmt.Sprintf("value %d is for %s, requested %s", i, md.ModuleKey().String(), keys[i].String()), nil)
				continue
			}
			o := c09VerifyData(c, md, specs[i], fmt.Sprintf("%s value=%d", key, i))
			lied := uuid.MustParse(specs[i].Commit) == deleg.lie && i >= preCached
			if lied && o.Kind != "mismatch" {
				c.Violation("lying-delegate-believed", key, fmt.Sprintf("the delegate served altered content for value %d and the provider's data reads as %s", i, o.Kind), nil)
			}
			if lied {
				c.Count("provider_lies_detected", 1)
			}
			if !lied && o.Kind != "found" {
				c.Violation("provider-unusable-value", key, fmt.Sprintf("provider returned success but value %d reads as %s (%s)", i, o.Kind, o.Detail), nil)
			}
			c.Count("provider_values_checked", 1)
		}
	}
	dry := &c15Plan{}
	deleg.lie = uuid.Nil
	call(dry, 0, "fault=none")
	for pre := 0; pre <= n; pre += max(1, n-1) {
		call(&c15Plan{}, pre, fmt.Sprintf("fault=none precached=%d", pre))
	}
	// one module's content altered by the delegate
	deleg.lie = uuid.MustParse(specs[c.Rand.IntN(n)].Commit)
	call(&c15Plan{}, 0, "lying-delegate")
	call(&c15Plan{}, 1, "lying-delegate precached=1")
	deleg.lie = uuid.Nil
	// every single store fault position
	step := 1
	if !c.Thorough() && dry.puts > 10 {
		step = 2
	}
	for k := 1; k <= dry.puts; k += step {
		call(&c15Plan{failPut: k}, 0, fmt.Sprintf("put#%d", k))
	}
	for k := 1; k <= dry.writes; k += step {
		call(&c15Plan{failWrite: k}, 0, fmt.Sprintf("write#%d", k))
	}
	for k := 1; k <= dry.closes; k += step {
		call(&c15Plan{failClose: k}, 0, fmt.Sprintf("close#%d", k))
	}
	c.Nontrivial(fmt.Sprintf("provider modules=%d tar=%v puts=%d", n, tar, dry.puts))
}

func c09ProviderCases(tier string) int {
	if tier == "thorough" {
		return 24
	}
	return 6
}

func c09NumModules(tier string) int {
	if tier == "thorough" {
		return 24
	}
	return 6
}

func c09LostRaceCases(tier string) int {
	if tier == "thorough" {
		return 12
	}
	return 4
}

func c09Cases(tier string) int {
	return c09NumModules(tier)*2*3 + c09HistCases(tier) + c09LostRaceCases(tier) + c09ProviderCases(tier)
}

func c09Run(c *core.C, idx int) {
	n := c09NumModules(c.Tier) * 2 * 3
	if idx >= n+c09HistCases(c.Tier)+c09LostRaceCases(c.Tier) {
		c09Provider(c, idx-n-c09HistCases(c.Tier)-c09LostRaceCases(c.Tier))
		return
	}
	if idx >= n+c09HistCases(c.Tier) {
		c09LostRace(c, idx-n-c09HistCases(c.Tier)+2)
		return
	}
	if idx >= n {
		c09Hist(c, idx-n, false)
		return
	}
	mi := idx / 6
	tar := idx%2 == 1
	switch (idx % 6) / 2 {
	case 0:
		c09Crash(c, mi, tar)
	case 1:
		c09Fault(c, mi, tar)
	default:
		c09Tamper(c, mi, tar)
	}
}

func init() {
	core.Register(&core.Check{
		ID:    "C09",
		Level: "fault_enumeration",
		Rule: "per generated module (1..8 files incl. empty and 50 kB files, LICENSE/doc files, 0..2 deps, with/without v1 buf.yaml+buf.lock side files) and per layout (directory, tar), with the production wiring (storageos bucket + filelock): " +
			"(a) SIGKILL of a storing child process at every hook hit n=1..N (N from a dry run; thorough: pairs), fresh-process read, then fault-free store + read; " +
			"(b) every k-th Put/Write/short-write/Close failure through a wrapper bucket and every k-th os.write/os.close hook failure (thorough: pairs), read, repair, read; " +
			"(c) every single-file tampering (flip first/middle/last byte, truncate, append, delete, rename, add module / non-module file) of every file of a complete entry, read; " +
			"(f) the cache provider (delegate → store → re-read) under every store fault position and with a delegate that serves altered content; (d) concurrent put/get histories by 2–6 clients (processes in the plain build incl. killed clients, goroutines in the -race build) with widened lock windows, checked with porcupine and a content invariant. " +
			"distinct/non-trivial = distinct (part, module shape, layout) classes; crash_points / fault_positions / tampers count the enumerated points",
		Assumptions: []string{
			"crash = SIGKILL at hook-point granularity (between and inside storage operations); power loss is not modelled",
			"content is checked with an independent SHAKE256 b5 construction (harness/model/digestmodel.go)",
			"a read that reports not-found after a completed store is not counted as a violation (the property allows 'not cached'); it is counted in evidence",
			"tar layout: tampering is checked for 'never wrong content' only, since a corrupted tar is treated as a miss by design",
		},
		Exhaustive:  true,
		Cases:       c09Cases,
		Run:         c09Run,
		RaceCases:   func(tier string) int { return c09HistCases(tier) },
		RunRace:     func(c *core.C, idx int) { c09Hist(c, idx, true) },
		Required:    []string{"crash_runs", "kills_delivered", "faults_fired", "tamper_runs", "tamper_mismatch_required", "repairs_checked", "exclusive_sections_observed", "reads_found_correct", "reads_found_correct_b4", "side_files_verified", "reads_notfound", "reads_mismatch", "hist_histories", "lostrace_runs", "provider_values_checked", "provider_errors", "provider_lies_detected"},
		WatchdogSec: map[string]int{"quick": 1500, "thorough": 3 * 3600},
	})
}
