package checks

import (
	"errors"
	"fmt"
	"os/exec"
	"reflect"
	"sort"
	"strings"

	"github.com/bufbuild/buf/private/bufpkg/bufconfig"
	"github.com/bufbuild/buf/private/bufpkg/bufparse"
)

// C16 snapshot: a generic walk over the exported zero-argument accessor methods of a configuration
// object into a comparable tree (maps with string keys, lists, scalars rendered as strings).
//
// The walk is driven by reflection so that every accessor of BufYAMLFile / BufLockFile /
// BufGenYAMLFile / BufWorkYAMLFile and of the objects they return (ModuleConfig, LintConfig,
// BreakingConfig, PluginConfig, GeneratePluginConfig, GenerateManagedConfig, ManagedOverrideRule,
// InputConfig, ModuleKey, PluginKey, Digest, …) is part of the compared configuration without the
// monitor enumerating them; only the exceptions below are named.

// c16SkipMethods are accessors that are not part of "the configuration" the property talks about.
var c16SkipMethods = map[string]bool{
	// the raw bytes/name of the document the object was read from
	"ObjectData": true,
	// v2 top-level lint/breaking: the property speaks of the *effective per-module* settings; the
	// writer legitimately re-derives the top-level section from the modules (hoisting)
	"TopLevelLintConfig":     true,
	"TopLevelBreakingConfig": true,
}

type c16Snapper struct {
	// normalizeGen: buf.gen.yaml documents are always written in v2 form (documented on the writer),
	// so the snapshot abstracts from what a v1→v2 rewrite may legitimately change: the file version,
	// the display name of a local plugin, and the late binding of "local or protoc builtin" plugins.
	normalizeGen bool
}

func (s *c16Snapper) snap(v any) any {
	return s.value(reflect.ValueOf(v), 0)
}

var (
	c16ErrorType    = reflect.TypeOf((*error)(nil)).Elem()
	c16StringerType = reflect.TypeOf((*fmt.Stringer)(nil)).Elem()
	c16FullNameType = reflect.TypeOf((*bufparse.FullName)(nil)).Elem()
	c16RefType      = reflect.TypeOf((*bufparse.Ref)(nil)).Elem()
)

func (s *c16Snapper) value(v reflect.Value, depth int) any {
	if depth > 12 {
		return "<depth>"
	}
	if !v.IsValid() {
		return nil
	}
	switch v.Kind() {
	case reflect.Interface:
		if v.IsNil() {
			return nil
		}
		return s.value(v.Elem(), depth)
	case reflect.Ptr:
		if v.IsNil() {
			return nil
		}
		if v.Type().NumMethod() == 0 || v.Elem().Kind() != reflect.Struct {
			return s.value(v.Elem(), depth)
		}
		return s.object(v, depth)
	case reflect.Struct:
		if v.Type().NumMethod() > 0 {
			return s.object(v, depth)
		}
		return fmt.Sprintf("%v", v.Interface())
	case reflect.Slice, reflect.Array:
		if v.Kind() == reflect.Array && v.Type().Implements(c16StringerType) { // uuid.UUID
			return v.Interface().(fmt.Stringer).String()
		}
		if v.Kind() == reflect.Slice && v.Type().Elem().Kind() == reflect.Uint8 {
			return fmt.Sprintf("bytes:%x", v.Bytes())
		}
		if v.Len() == 0 {
			return nil // nil and empty lists are the same configuration
		}
		out := make([]any, v.Len())
		for i := range out {
			out[i] = s.value(v.Index(i), depth+1)
		}
		return out
	case reflect.Map:
		if v.Len() == 0 {
			return nil
		}
		out := c16DataMap{}
		for _, k := range v.MapKeys() {
			out[fmt.Sprintf("%v", k.Interface())] = s.value(v.MapIndex(k), depth+1)
		}
		return out
	case reflect.String:
		return v.String()
	case reflect.Bool:
		return v.Bool()
	case reflect.Int, reflect.Int8, reflect.Int16, reflect.Int32, reflect.Int64:
		if v.Type().Implements(c16StringerType) && v.Type().PkgPath() != "" {
			return v.Interface().(fmt.Stringer).String() // FileVersion, option enums, descriptor enums
		}
		if v.Type().PkgPath() != "" {
			return fmt.Sprintf("%s(%d)", v.Type().Name(), v.Int())
		}
		return fmt.Sprintf("%d", v.Int())
	case reflect.Uint, reflect.Uint8, reflect.Uint16, reflect.Uint32, reflect.Uint64:
		return fmt.Sprintf("%d", v.Uint())
	case reflect.Float32, reflect.Float64:
		return fmt.Sprintf("%v", v.Float())
	default:
		return fmt.Sprintf("<%s>", v.Kind())
	}
}

// c16DataMap is a map whose keys are data (rule ids, option names), as opposed to accessor names.
type c16DataMap map[string]any

// object walks the exported zero-argument methods of v.
func (s *c16Snapper) object(v reflect.Value, depth int) any {
	t := v.Type()
	// names and references are compared by their canonical string
	if t.Implements(c16RefType) {
		return "ref:" + v.Interface().(bufparse.Ref).String()
	}
	if t.Implements(c16FullNameType) {
		return "name:" + v.Interface().(bufparse.FullName).String()
	}
	out := map[string]any{}
	for i := 0; i < t.NumMethod(); i++ {
		m := t.Method(i)
		if c16SkipMethods[m.Name] || m.Type.NumIn() != 1 || m.Name == "String" || m.Name == "Error" {
			continue
		}
		no := m.Type.NumOut()
		if no == 0 || no > 2 || (no == 2 && !m.Type.Out(1).Implements(c16ErrorType)) {
			continue
		}
		res := v.Method(i).Call(nil)
		if no == 2 && !res[1].IsNil() {
			out[m.Name] = "error:" + res[1].Interface().(error).Error()
			continue
		}
		out[m.Name] = s.value(res[0], depth+1)
	}
	if s.normalizeGen {
		s.normalizeGenObject(v, out)
	}
	if t.Implements(c16StringerType) {
		// e.g. Digest: keep the canonical text as well (Type/Value are walked too)
		out["String"] = v.Interface().(fmt.Stringer).String()
	}
	return out
}

// c16ResolveLocalOrBuiltin is the documented late binding of a v1 plugin given only by name:
// a binary protoc-gen-<name> on PATH wins, then protoc's builtin generators, else the binary name.
func c16ResolveLocalOrBuiltin(name string) (kind string, resolved string) {
	bin := "protoc-gen-" + name
	if _, err := exec.LookPath(bin); err == nil || errors.Is(err, exec.ErrDot) {
		return "local", bin
	}
	if _, ok := bufconfig.ProtocProxyPluginNames[name]; ok {
		return "protoc_builtin", name
	}
	return "local", bin
}

func (s *c16Snapper) normalizeGenObject(v reflect.Value, out map[string]any) {
	switch o := v.Interface().(type) {
	case bufconfig.BufGenYAMLFile:
		delete(out, "FileVersion")
	case bufconfig.GeneratePluginConfig:
		switch o.Type() {
		case bufconfig.GeneratePluginConfigTypeLocalOrProtocBuiltin:
			kind, resolved := c16ResolveLocalOrBuiltin(o.Name())
			if kind == "local" {
				out["Type"] = "local"
				out["Path"] = []any{resolved}
				delete(out, "Name")
			} else {
				out["Type"] = "protoc_builtin"
				out["Name"] = resolved
			}
		case bufconfig.GeneratePluginConfigTypeLocal:
			out["Type"] = "local"
			delete(out, "Name") // display name only; Path is what is executed
		case bufconfig.GeneratePluginConfigTypeProtocBuiltin:
			out["Type"] = "protoc_builtin"
		case bufconfig.GeneratePluginConfigTypeRemote:
			out["Type"] = "remote"
		}
	}
}

// c16Diff lists the paths at which two snapshot trees differ (at most max entries).
func c16Diff(a, b any, max int) []string {
	var out []string
	var walk func(path string, a, b any)
	walk = func(path string, a, b any) {
		if len(out) >= max {
			return
		}
		if dm, ok := a.(c16DataMap); ok {
			a = map[string]any(dm)
			if y, ok := b.(c16DataMap); ok {
				b = map[string]any(y)
			}
			path += "{}"
		} else if y, ok := b.(c16DataMap); ok && a == nil {
			a, b = map[string]any{}, map[string]any(y)
			path += "{}"
		}
		switch x := a.(type) {
		case map[string]any:
			y, ok := b.(map[string]any)
			if b == nil {
				y, ok = map[string]any{}, true
			}
			if !ok {
				out = append(out, fmt.Sprintf("%s: %s != %s", path, c16Short(a), c16Short(b)))
				return
			}
			keys := map[string]bool{}
			for k := range x {
				keys[k] = true
			}
			for k := range y {
				keys[k] = true
			}
			var ks []string
			for k := range keys {
				ks = append(ks, k)
			}
			sort.Strings(ks)
			for _, k := range ks {
				if strings.HasSuffix(path, "{}") {
					walk(strings.TrimSuffix(path, "{}")+"{"+k+"}", x[k], y[k])
				} else {
					walk(path+"."+k, x[k], y[k])
				}
			}
		case []any:
			y, ok := b.([]any)
			if !ok || len(x) != len(y) {
				out = append(out, fmt.Sprintf("%s: %s != %s", path, c16Short(a), c16Short(b)))
				return
			}
			for i := range x {
				walk(fmt.Sprintf("%s[%d]", path, i), x[i], y[i])
			}
		default:
			if !reflect.DeepEqual(a, b) {
				out = append(out, fmt.Sprintf("%s: %s != %s", path, c16Short(a), c16Short(b)))
			}
		}
	}
	walk("", a, b)
	return out
}

func c16Short(v any) string {
	s := fmt.Sprintf("%v", v)
	if v == nil {
		s = "∅"
	}
	if len(s) > 160 {
		s = s[:160] + "…"
	}
	return s
}

// c16DiffKey turns a diff path into a stable key: indices and map keys that are data are removed.
func c16DiffKey(d string) string {
	p, _, _ := strings.Cut(d, ":")
	var sb strings.Builder
	skip := false
	for _, r := range p {
		switch {
		case r == '[' || r == '{':
			skip = true
		case r == ']' || r == '}':
			skip = false
		case !skip:
			sb.WriteRune(r)
		}
	}
	return strings.TrimPrefix(sb.String(), ".")
}
