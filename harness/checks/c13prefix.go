package checks

import (
	"context"
	"fmt"
	"io"

	"github.com/bufbuild/buf/private/pkg/storage"
	"github.com/bufbuild/buf/private/pkg/storage/storageos"
	"github.com/bufbuild/verifharness/core"
	"github.com/bufbuild/verifharness/model"
)

// c13Prefix uses the string p not as the name handed to an operation but as the MAPPING PREFIX of a view
// ("a directory name taken from a configuration file"): a view mapped on p over a view whose root is the
// bucket root. Operations with harmless names through such a view must not reach anything outside the inner
// view's root; when p escapes, each of them must fail.
func c13Prefix(ctx context.Context, c *core.C, w *c13World, p string, info model.PathInfo) {
	prov := storageos.NewProvider()
	rootB, err := prov.NewReadWriteBucket(w.rootDir)
	if err != nil {
		return
	}
	l1B, err := prov.NewReadWriteBucket(w.l1Dir)
	if err != nil {
		return
	}
	l2B, err := prov.NewReadWriteBucket(w.l2Dir)
	if err != nil {
		return
	}
	on := storage.MapOnPrefix
	type view struct {
		name      string
		r         storage.ReadBucket
		wr        storage.WriteBucket
		disk, mem bool
	}
	rwv := func(name string, b storage.ReadWriteBucket, disk bool) view {
		return view{name: name, r: b, wr: b, disk: disk, mem: !disk}
	}
	views := []view{
		rwv("map(disk,P)", storage.MapReadWriteBucket(rootB, on(p)), true),
		{name: "mapR(mapR(disk@l1,root),P)", r: storage.MapReadBucket(storage.MapReadBucket(l1B, on("root")), on(p)), disk: true},
		{name: "mapW(mapW(disk@l1,root),P)", wr: storage.MapWriteBucket(storage.MapWriteBucket(l1B, on("root")), on(p)), disk: true},
		rwv("map(map(disk@l1,root),P)", storage.MapReadWriteBucket(storage.MapReadWriteBucket(l1B, on("root")), on(p)), true),
		{name: "mapR(mapR(mapR(disk@l2,l1),root),P)", r: storage.MapReadBucket(storage.MapReadBucket(storage.MapReadBucket(l2B, on("l1")), on("root")), on(p)), disk: true},
		{name: "mapR(filter(mapR(disk@l1,root)),P)", r: storage.MapReadBucket(storage.FilterReadBucket(storage.MapReadBucket(l1B, on("root")), storage.MatchNot(storage.MatchPathExt(".none"))), on(p)), disk: true},
		{name: "mapR(mapR(mem,root),P)", r: storage.MapReadBucket(storage.MapReadBucket(w.mem, on("root")), on(p)), mem: true},
		{name: "mapW(mapW(mem,x/root),P)", wr: storage.MapWriteBucket(storage.MapWriteBucket(w.mem, on("x/root")), on(p)), mem: true},
		rwv("map(map(mem,x/root),P)", storage.MapReadWriteBucket(storage.MapReadWriteBucket(w.mem, on("x/root")), on(p)), false),
	}
	for vi := range views {
		v := &views[vi]
		k := &c13Kind{name: v.name, disk: v.disk, mem: v.mem, hasWorld: true}
		demand := info
		if v.r != nil {
			for _, name := range []string{"in.proto", "b.proto", "a/b.proto", "root.txt"} {
				obj, err := v.r.Get(ctx, name)
				if err == nil {
					data, _ := io.ReadAll(obj)
					obj.Close()
					c13CheckRead(c, k, "get "+name+" through prefix", p, data)
				}
				c13After(c, w, k, "get "+name+" through prefix", p, demand, err, false)
				_, err = v.r.Stat(ctx, name)
				c13After(c, w, k, "stat "+name+" through prefix", p, demand, err, false)
			}
			for _, pre := range []string{"", "a"} {
				var seen []string
				err := v.r.Walk(ctx, pre, func(oi storage.ObjectInfo) error {
					seen = append(seen, oi.Path())
					return nil
				})
				for _, sp := range seen {
					if data, rerr := storage.ReadPath(ctx, v.r, sp); rerr == nil {
						c13CheckRead(c, k, "walk+get through prefix", p, data)
					}
				}
				c13After(c, w, k, fmt.Sprintf("walk %q through prefix", pre), p, demand, err, false)
			}
		}
		if v.wr != nil {
			for _, atomic := range []bool{false, true} {
				var opts []storage.PutOption
				if atomic {
					opts = append(opts, storage.PutWithAtomic())
				}
				wo, err := v.wr.Put(ctx, "b.proto", opts...)
				if err == nil {
					_, werr := wo.Write([]byte("NEW"))
					cerr := wo.Close()
					if werr != nil {
						err = werr
					} else if cerr != nil {
						err = cerr
					}
				}
				c13After(c, w, k, fmt.Sprintf("put(atomic=%v) b.proto through prefix", atomic), p, demand, err, true)
			}
			err := v.wr.Delete(ctx, "root.txt")
			c13After(c, w, k, "delete root.txt through prefix", p, demand, err, true)
			err = v.wr.DeleteAll(ctx, "a")
			c13After(c, w, k, "deleteall a through prefix", p, demand, err, true)
			err = v.wr.DeleteAll(ctx, "")
			c13After(c, w, k, "deleteall '' through prefix", p, demand, err, true)
			c13ResetRoot(w)
			c13ResetMemInside(w)
		}
		c.Count("prefix_views", 1)
	}
}
