package checks

import (
	"fmt"
	"sort"
	"strings"

	"google.golang.org/protobuf/encoding/protowire"
	"google.golang.org/protobuf/proto"
	"google.golang.org/protobuf/reflect/protodesc"
	"google.golang.org/protobuf/reflect/protoreflect"
	"google.golang.org/protobuf/reflect/protoregistry"
	"google.golang.org/protobuf/types/descriptorpb"
	"google.golang.org/protobuf/types/dynamicpb"
)

// Reference model of C12, written against descriptors only (it shares no code with
// bufimageutil): an index of the named elements of an image, what each element needs, the
// closure of a set of roots under "needs", and the projection comparison of a filtered image
// with the original.

type c12El struct {
	kind     string // message enum service method extension
	full     string
	file     string
	parent   string // enclosing message / service ("" = top level)
	msg      *descriptorpb.DescriptorProto
	enum     *descriptorpb.EnumDescriptorProto
	svc      *descriptorpb.ServiceDescriptorProto
	mth      *descriptorpb.MethodDescriptorProto
	ext      *descriptorpb.FieldDescriptorProto
	mapEntry bool
	group    bool
	children []string
}

// optUse is one option field set on a descriptor.
type c12OptUse struct {
	ext  string   // full name of the custom option ("" for a built-in option field)
	num  int32    // field number inside the options message
	anys []string // message names found in google.protobuf.Any type URLs inside the value
}

type c12Index struct {
	order    []string
	files    map[string]*descriptorpb.FileDescriptorProto
	isImport map[string]bool
	els      map[string]*c12El
	topOf    map[string][]string // file -> top-level element names
	allOf    map[string][]string // file -> all element names
	pkgFiles map[string][]string
	extsOf   map[string][]string         // extendee -> extensions
	optExt   map[string]map[int32]string // options message name -> field number -> extension
	// option uses per descriptor (key: pointer of the descriptor that carries the options)
	uses map[proto.Message][]c12OptUse
}

func c12Trim(s string) string { return strings.TrimPrefix(s, ".") }

func c12IsOptionsType(n string) bool {
	switch n {
	case "google.protobuf.FileOptions", "google.protobuf.MessageOptions", "google.protobuf.FieldOptions", "google.protobuf.OneofOptions",
		"google.protobuf.ExtensionRangeOptions", "google.protobuf.EnumOptions", "google.protobuf.EnumValueOptions",
		"google.protobuf.ServiceOptions", "google.protobuf.MethodOptions":
		return true
	}
	return false
}

// c12BuildIndex indexes the files (in image order). withUses also decodes the option values
// (needs a linkable set of files).
func c12BuildIndex(fds []*descriptorpb.FileDescriptorProto, isImport map[string]bool, withUses bool) (*c12Index, error) {
	ix := &c12Index{files: map[string]*descriptorpb.FileDescriptorProto{}, isImport: isImport, els: map[string]*c12El{}, topOf: map[string][]string{}, allOf: map[string][]string{},
		pkgFiles: map[string][]string{}, extsOf: map[string][]string{}, optExt: map[string]map[int32]string{}, uses: map[proto.Message][]c12OptUse{}}
	for _, fd := range fds {
		path := fd.GetName()
		ix.order = append(ix.order, path)
		ix.files[path] = fd
		ix.pkgFiles[fd.GetPackage()] = append(ix.pkgFiles[fd.GetPackage()], path)
		pfx := ""
		if fd.GetPackage() != "" {
			pfx = fd.GetPackage() + "."
		}
		add := func(el *c12El) {
			el.file = path
			ix.els[el.full] = el
			ix.allOf[path] = append(ix.allOf[path], el.full)
			if el.parent == "" {
				ix.topOf[path] = append(ix.topOf[path], el.full)
			} else if p := ix.els[el.parent]; p != nil {
				p.children = append(p.children, el.full)
			}
		}
		addExt := func(scope, parent string, x *descriptorpb.FieldDescriptorProto) {
			full := scope + x.GetName()
			add(&c12El{kind: "extension", full: full, parent: parent, ext: x})
			ee := c12Trim(x.GetExtendee())
			ix.extsOf[ee] = append(ix.extsOf[ee], full)
			if c12IsOptionsType(ee) {
				if ix.optExt[ee] == nil {
					ix.optExt[ee] = map[int32]string{}
				}
				ix.optExt[ee][x.GetNumber()] = full
			}
		}
		var addMsg func(scope, parent string, m *descriptorpb.DescriptorProto, group bool)
		addMsg = func(scope, parent string, m *descriptorpb.DescriptorProto, group bool) {
			full := scope + m.GetName()
			add(&c12El{kind: "message", full: full, parent: parent, msg: m, mapEntry: m.GetOptions().GetMapEntry(), group: group})
			groups := map[string]bool{}
			for _, f := range m.GetField() {
				if f.GetType() == descriptorpb.FieldDescriptorProto_TYPE_GROUP {
					groups[c12Trim(f.GetTypeName())] = true
				}
			}
			for _, n := range m.GetNestedType() {
				addMsg(full+".", full, n, groups[full+"."+n.GetName()])
			}
			for _, e := range m.GetEnumType() {
				add(&c12El{kind: "enum", full: full + "." + e.GetName(), parent: full, enum: e})
			}
			for _, x := range m.GetExtension() {
				addExt(full+".", full, x)
			}
		}
		for _, m := range fd.GetMessageType() {
			addMsg(pfx, "", m, false)
		}
		for _, e := range fd.GetEnumType() {
			add(&c12El{kind: "enum", full: pfx + e.GetName(), enum: e})
		}
		for _, sv := range fd.GetService() {
			full := pfx + sv.GetName()
			add(&c12El{kind: "service", full: full, svc: sv})
			for _, m := range sv.GetMethod() {
				add(&c12El{kind: "method", full: full + "." + m.GetName(), parent: full, mth: m})
			}
		}
		for _, x := range fd.GetExtension() {
			addExt(pfx, "", x)
		}
	}
	if !withUses {
		return ix, nil
	}
	reg, err := protodesc.NewFiles(&descriptorpb.FileDescriptorSet{File: fds})
	if err != nil {
		return nil, fmt.Errorf("original image does not link: %w", err)
	}
	types := dynamicpb.NewTypes(reg)
	for _, fd := range fds {
		c12WalkOptionCarriers(fd, func(carrier proto.Message, options proto.Message) {
			ix.uses[carrier] = c12DecodeUses(ix, reg, types, options)
		})
	}
	return ix, nil
}

// c12OptionsOf returns the options message of a descriptor (nil interface if unset).
func c12OptionsOf(d proto.Message) proto.Message {
	switch d := d.(type) {
	case *descriptorpb.FileDescriptorProto:
		if d.Options != nil {
			return d.Options
		}
	case *descriptorpb.DescriptorProto:
		if d.Options != nil {
			return d.Options
		}
	case *descriptorpb.FieldDescriptorProto:
		if d.Options != nil {
			return d.Options
		}
	case *descriptorpb.OneofDescriptorProto:
		if d.Options != nil {
			return d.Options
		}
	case *descriptorpb.EnumDescriptorProto:
		if d.Options != nil {
			return d.Options
		}
	case *descriptorpb.EnumValueDescriptorProto:
		if d.Options != nil {
			return d.Options
		}
	case *descriptorpb.ServiceDescriptorProto:
		if d.Options != nil {
			return d.Options
		}
	case *descriptorpb.MethodDescriptorProto:
		if d.Options != nil {
			return d.Options
		}
	case *descriptorpb.DescriptorProto_ExtensionRange:
		if d.Options != nil {
			return d.Options
		}
	}
	return nil
}

// c12WalkOptionCarriers visits every descriptor of the file that has options set.
func c12WalkOptionCarriers(fd *descriptorpb.FileDescriptorProto, visit func(carrier, options proto.Message)) {
	see := func(d proto.Message) {
		if o := c12OptionsOf(d); o != nil {
			visit(d, o)
		}
	}
	see(fd)
	var msg func(m *descriptorpb.DescriptorProto)
	enum := func(e *descriptorpb.EnumDescriptorProto) {
		see(e)
		for _, v := range e.GetValue() {
			see(v)
		}
	}
	msg = func(m *descriptorpb.DescriptorProto) {
		see(m)
		for _, f := range m.GetField() {
			see(f)
		}
		for _, o := range m.GetOneofDecl() {
			see(o)
		}
		for _, r := range m.GetExtensionRange() {
			see(r)
		}
		for _, x := range m.GetExtension() {
			see(x)
		}
		for _, e := range m.GetEnumType() {
			enum(e)
		}
		for _, n := range m.GetNestedType() {
			msg(n)
		}
	}
	for _, m := range fd.GetMessageType() {
		msg(m)
	}
	for _, e := range fd.GetEnumType() {
		enum(e)
	}
	for _, x := range fd.GetExtension() {
		see(x)
	}
	for _, sv := range fd.GetService() {
		see(sv)
		for _, m := range sv.GetMethod() {
			see(m)
		}
	}
}

// c12DecodeUses re-decodes an options message against the image's own descriptors and lists
// the option fields that are set, with the Any payload types inside their values.
func c12DecodeUses(ix *c12Index, reg *protoregistry.Files, types *dynamicpb.Types, options proto.Message) []c12OptUse {
	name := options.ProtoReflect().Descriptor().FullName()
	raw, err := proto.MarshalOptions{Deterministic: true}.Marshal(options)
	if err != nil {
		return nil
	}
	var md protoreflect.MessageDescriptor
	if d, err := reg.FindDescriptorByName(name); err == nil {
		md, _ = d.(protoreflect.MessageDescriptor)
	}
	if md == nil {
		md = options.ProtoReflect().Descriptor()
	}
	dm := dynamicpb.NewMessage(md)
	if err := (proto.UnmarshalOptions{Resolver: types}).Unmarshal(raw, dm); err != nil {
		return nil
	}
	var out []c12OptUse
	dm.Range(func(fd protoreflect.FieldDescriptor, v protoreflect.Value) bool {
		u := c12OptUse{num: int32(fd.Number())}
		if fd.IsExtension() {
			u.ext = string(fd.FullName())
		}
		c12CollectAnys(fd, v, &u.anys)
		out = append(out, u)
		return true
	})
	// option fields whose definition is not part of the image stay unknown
	for b := dm.GetUnknown(); len(b) > 0; {
		num, typ, n := protowire.ConsumeTag(b)
		if n < 0 {
			break
		}
		m := protowire.ConsumeFieldValue(num, typ, b[n:])
		if m < 0 {
			break
		}
		b = b[n+m:]
		out = append(out, c12OptUse{num: int32(num), ext: ix.optExt[string(name)][int32(num)]})
	}
	sort.Slice(out, func(i, j int) bool { return out[i].num < out[j].num })
	return out
}

func c12CollectAnys(fd protoreflect.FieldDescriptor, v protoreflect.Value, out *[]string) {
	isMsg := func(k protoreflect.Kind) bool { return k == protoreflect.MessageKind || k == protoreflect.GroupKind }
	switch {
	case fd.IsMap():
		if isMsg(fd.MapValue().Kind()) {
			v.Map().Range(func(_ protoreflect.MapKey, mv protoreflect.Value) bool {
				c12CollectAnysMsg(mv.Message(), out)
				return true
			})
		}
	case isMsg(fd.Kind()):
		if fd.IsList() {
			l := v.List()
			for i := 0; i < l.Len(); i++ {
				c12CollectAnysMsg(l.Get(i).Message(), out)
			}
		} else {
			c12CollectAnysMsg(v.Message(), out)
		}
	}
}

func c12CollectAnysMsg(m protoreflect.Message, out *[]string) {
	if m.Descriptor().FullName() == "google.protobuf.Any" {
		if f := m.Descriptor().Fields().ByNumber(1); f != nil && f.Kind() == protoreflect.StringKind {
			url := m.Get(f).String()
			*out = append(*out, url[strings.LastIndexByte(url, '/')+1:])
		}
		return
	}
	m.Range(func(fd protoreflect.FieldDescriptor, v protoreflect.Value) bool {
		c12CollectAnys(fd, v, out)
		return true
	})
}

// ---- filters --------------------------------------------------------------------------------

type c12Filter struct {
	inc, exc      []string
	customOptions bool // keep custom options
	knownExt      bool // keep known extensions
	inPlace       bool
	allowImported bool
	tags          []string // what the names denote (evidence, finding keys)
}

func (f *c12Filter) mode() string {
	switch {
	case len(f.inc) > 0 && len(f.exc) > 0:
		return "mixed"
	case len(f.inc) > 0:
		return "include-only"
	default:
		return "exclude-only"
	}
}

func (f *c12Filter) String() string {
	return fmt.Sprintf("include=%v exclude=%v customOptions=%v knownExtensions=%v inPlace=%v allowImported=%v", f.inc, f.exc, f.customOptions, f.knownExt, f.inPlace, f.allowImported)
}

// c12Plan is what the model derives from (image, filter) before looking at the result.
type c12Plan struct {
	ix *c12Index
	f  *c12Filter
	// excluded: named in exclude, or declared inside something named there
	excluded map[string]bool
	// dropped: cannot survive because it needs an excluded element (map entry whose value type
	// is excluded, method whose request/response is excluded, extension whose extendee or type
	// is excluded)
	dropped map[string]bool
	// contradictions the statement documents (an error is legal), and lenient ones (an error
	// or dropping the element are both accepted)
	strict  []string
	lenient map[string]bool
	roots   []string
	rootPkg []string
	// nothingLeft: the filter removes every file; an image cannot be empty, so an error is legal
	nothingLeft bool
	// lower: what must be present; upper: what may be present under an include filter
	lower, upper *c12Closure
}

func (p *c12Plan) gone(n string) bool { return p.excluded[n] || p.dropped[n] }

func c12MakePlan(ix *c12Index, f *c12Filter) *c12Plan {
	p := &c12Plan{ix: ix, f: f, excluded: map[string]bool{}, dropped: map[string]bool{}, lenient: map[string]bool{}}
	var mark func(n string)
	mark = func(n string) {
		if p.excluded[n] {
			return
		}
		p.excluded[n] = true
		for _, c := range ix.els[n].children {
			mark(c)
		}
	}
	excPkg := map[string]bool{}
	for _, n := range f.exc {
		if ix.els[n] != nil {
			mark(n)
			continue
		}
		excPkg[n] = true
		for _, path := range ix.pkgFiles[n] {
			for _, t := range ix.topOf[path] {
				mark(t)
			}
		}
	}
	// derived drops
	for n, el := range ix.els {
		if el.mapEntry && !p.excluded[n] {
			for _, fl := range el.msg.GetField() {
				if fl.GetTypeName() != "" && p.excluded[c12Trim(fl.GetTypeName())] {
					p.dropped[n] = true
				}
			}
		}
	}
	for n, el := range ix.els {
		if p.excluded[n] {
			continue
		}
		switch el.kind {
		case "method":
			if p.gone(c12Trim(el.mth.GetInputType())) || p.gone(c12Trim(el.mth.GetOutputType())) {
				p.dropped[n] = true
			}
		case "extension":
			if p.gone(c12Trim(el.ext.GetExtendee())) || (el.ext.GetTypeName() != "" && p.gone(c12Trim(el.ext.GetTypeName()))) {
				p.dropped[n] = true
			}
		}
	}
	// includes: contradictions and roots
	for _, n := range f.inc {
		el := ix.els[n]
		if el == nil {
			// a package
			if excPkg[n] {
				p.strict = append(p.strict, "include-of-excluded-package")
			}
			onlyImports := true
			for _, path := range ix.pkgFiles[n] {
				if !ix.isImport[path] {
					onlyImports = false
				}
			}
			if onlyImports && !f.allowImported {
				p.strict = append(p.strict, "include-of-imported-package")
			}
			p.rootPkg = append(p.rootPkg, n)
			for _, path := range ix.pkgFiles[n] {
				p.roots = append(p.roots, ix.allOf[path]...)
			}
			continue
		}
		if ix.isImport[el.file] && !f.allowImported {
			p.strict = append(p.strict, "include-of-imported-type")
		}
		switch {
		case p.excluded[n]:
			p.strict = append(p.strict, "include-of-excluded")
		case p.dropped[n] && el.kind == "method":
			p.strict = append(p.strict, "include-of-method-with-excluded-request-or-response")
		case p.dropped[n] && el.kind == "extension" && p.gone(c12Trim(el.ext.GetExtendee())):
			p.strict = append(p.strict, "include-of-extension-with-excluded-extendee")
		case p.dropped[n]:
			p.lenient[n] = true
		}
		p.roots = append(p.roots, n)
	}
	if len(f.inc) == 0 {
		for _, path := range ix.order {
			if !ix.isImport[path] {
				p.roots = append(p.roots, ix.allOf[path]...)
			}
		}
	}
	sort.Strings(p.strict)
	p.lower = c12Close(p, false)
	p.upper = c12Close(p, true)
	p.nothingLeft = len(p.lower.names()) == 0 && len(p.lower.files) == 0
	return p
}

// ---- closure ----------------------------------------------------------------------------------

type c12Closure struct {
	// whole: needed with its full body; implied: an options message (or the like) needed only as
	// the extendee of a custom option that is used; enclosing: needed as a namespace only
	whole, implied, enclosing map[string]bool
	files                     map[string]bool // files that hold something of the closure
	why                       map[string]string
}

func (c *c12Closure) has(n string) bool { return c.whole[n] || c.implied[n] || c.enclosing[n] }

func (c *c12Closure) names() []string {
	var out []string
	for _, m := range []map[string]bool{c.whole, c.implied, c.enclosing} {
		for n := range m {
			out = append(out, n)
		}
	}
	sort.Strings(out)
	return out
}

// c12Close computes the closure of the plan's roots. generous=false gives the guaranteed part
// (known extensions of the messages reached from the roots, one round; none for options
// messages that are only extendees of used options); generous=true the largest admissible one
// (known extensions to the fixpoint, for every message reached).
func c12Close(p *c12Plan, generous bool) *c12Closure {
	ix, f := p.ix, p.f
	c := &c12Closure{whole: map[string]bool{}, implied: map[string]bool{}, enclosing: map[string]bool{}, files: map[string]bool{}, why: map[string]string{}}
	var add func(n string, implied bool, why string)
	var options func(carrier proto.Message, why string)
	options = func(carrier proto.Message, why string) {
		if !f.customOptions {
			return
		}
		for _, u := range ix.uses[carrier] {
			if u.ext != "" {
				if p.gone(u.ext) {
					continue
				}
				add(u.ext, true, "option used by "+why)
			}
			for _, a := range u.anys {
				if el := ix.els[a]; el != nil && el.kind == "message" {
					add(a, false, "Any payload in an option of "+why)
				}
			}
		}
	}
	fileSeen := map[string]bool{}
	touchFile := func(path string) {
		c.files[path] = true
		if !fileSeen[path] {
			fileSeen[path] = true
			options(ix.files[path], "file "+path)
		}
	}
	var enclose func(n string)
	enclose = func(n string) {
		for n != "" {
			if c.has(n) {
				return
			}
			el := ix.els[n]
			c.enclosing[n] = true
			c.why[n] = "encloses a needed element"
			switch el.kind {
			case "message":
				options(el.msg, n)
			case "service":
				options(el.svc, n)
			}
			n = el.parent
		}
	}
	add = func(n string, implied bool, why string) {
		el := ix.els[n]
		if el == nil || p.gone(n) {
			return
		}
		if c.whole[n] {
			return
		}
		if implied {
			if c.implied[n] {
				return
			}
			if c.enclosing[n] {
				delete(c.enclosing, n)
			}
			c.implied[n] = true
		} else {
			already := c.implied[n]
			delete(c.implied, n)
			delete(c.enclosing, n)
			c.whole[n] = true
			if already && el.kind != "extension" {
				c.why[n] = why
				return // body already explored
			}
		}
		c.why[n] = why
		touchFile(el.file)
		switch el.kind {
		case "message":
			kept := map[int32]int{}
			for _, fl := range el.msg.GetField() {
				if t := c12Trim(fl.GetTypeName()); t != "" {
					if p.gone(t) {
						continue
					}
					add(t, false, "type of field "+n+"."+fl.GetName())
				}
				if fl.OneofIndex != nil {
					kept[fl.GetOneofIndex()]++
				}
				options(fl, n+"."+fl.GetName())
			}
			for i, o := range el.msg.GetOneofDecl() {
				if kept[int32(i)] > 0 {
					options(o, n+"."+o.GetName())
				}
			}
			for _, r := range el.msg.GetExtensionRange() {
				options(r, n)
			}
			options(el.msg, n)
		case "enum":
			options(el.enum, n)
			for _, v := range el.enum.GetValue() {
				options(v, n+"."+v.GetName())
			}
		case "service":
			options(el.svc, n)
			for _, m := range el.children {
				add(m, false, "method of "+n)
			}
		case "method":
			add(c12Trim(el.mth.GetInputType()), false, "request of "+n)
			add(c12Trim(el.mth.GetOutputType()), false, "response of "+n)
			options(el.mth, n)
		case "extension":
			add(c12Trim(el.ext.GetExtendee()), implied, "extendee of "+n)
			if t := c12Trim(el.ext.GetTypeName()); t != "" {
				add(t, false, "type of extension "+n)
			}
			options(el.ext, n)
		}
		enclose(el.parent)
	}
	for _, n := range p.roots {
		add(n, false, "named by the filter")
	}
	for _, pkg := range p.rootPkg {
		for _, path := range ix.pkgFiles[pkg] {
			touchFile(path)
		}
	}
	if len(f.inc) == 0 {
		for _, path := range ix.order {
			if !ix.isImport[path] {
				excludedPkg := false
				for _, n := range f.exc {
					if ix.els[n] == nil && n == ix.files[path].GetPackage() {
						excludedPkg = true
					}
				}
				if !excludedPkg {
					touchFile(path)
				}
			}
		}
	}
	if f.knownExt {
		round := func() bool {
			grew := false
			var msgs []string
			for n := range c.whole {
				if ix.els[n].kind == "message" {
					msgs = append(msgs, n)
				}
			}
			if generous {
				for n := range c.implied {
					if ix.els[n].kind == "message" {
						msgs = append(msgs, n)
					}
				}
			}
			sort.Strings(msgs)
			rooted := map[string]bool{}
			for _, r := range p.roots {
				rooted[r] = true
			}
			for _, m := range msgs {
				if !generous && c12IsOptionsType(m) && !rooted[m] {
					continue
				}
				for _, x := range ix.extsOf[m] {
					if !c.whole[x] && !p.gone(x) {
						add(x, false, "known extension of "+m)
						grew = grew || c.whole[x]
					}
				}
			}
			return grew
		}
		if generous {
			for round() {
			}
		} else {
			round()
		}
	}
	return c
}
