package checks

import (
	"archive/zip"
	"fmt"
	"io"
	"os"
	"path"
	"path/filepath"
	"regexp"
	"sort"
	"strings"

	"github.com/bufbuild/verifharness/core"
	"github.com/bufbuild/verifharness/model"
	"github.com/bufbuild/verifharness/run"
)

// ---- response side: confinement, insertion points, duplicates, all-or-nothing ----------------------

// c17Outcome is what the script-derived model says about one run. The model consumes the answers
// the plugins actually gave (recorded by the plugin), in configuration order.
type c17Outcome struct {
	// expectErr: the statement requires an error; reason names the clause.
	expectErr string
	errRel    string // for duplicates: how the two out spellings relate (same-spelling | equivalent-spelling | alias)
	// loose: reasons why only confinement (and all-or-nothing) can be demanded.
	loose []string
	// conflict: a file would have to be a directory as well; a flush may then fail half-way.
	conflict bool
	// buckets: out location -> clean name -> content.
	buckets  map[string]map[string]string
	inserted map[string]bool // location + "\x00" + name that received an insertion
	counts   map[string]int
	escaping []string
}

func c17NameClass(name string) string {
	if name == "" {
		return "empty"
	}
	info := model.AnalyzePath(name)
	switch {
	case info.Absolute:
		return "absolute"
	case info.Escapes:
		return "climbs-out"
	case info.Clean == ".":
		return "names-the-root"
	case strings.Contains(name, "\\"):
		return "backslash"
	case info.Clean != name:
		return "unnormalized"
	}
	return "plain"
}

// c17ApplyInsertion is the plugin.proto rule: the content goes immediately above the line holding
// the marker, every line indented like that line.
func c17ApplyInsertion(cur, ip, content string) (string, bool) {
	marker := "@@protoc_insertion_point(" + ip + ")"
	var clines []string
	if content != "" {
		clines = strings.Split(strings.TrimSuffix(content, "\n"), "\n")
	}
	var out []string
	found := false
	for _, l := range strings.Split(cur, "\n") {
		if strings.Contains(l, marker) {
			found = true
			ws := l[:len(l)-len(strings.TrimLeft(l, " \t"))]
			for _, cl := range clines {
				out = append(out, ws+cl)
			}
		}
		out = append(out, l)
	}
	return strings.Join(out, "\n"), found
}

// c17NormText: lines without trailing blanks, no trailing empty lines (the statement says nothing
// about the final newline or the indentation of empty lines).
func c17NormText(s string) string {
	lines := strings.Split(s, "\n")
	for i := range lines {
		lines[i] = strings.TrimRight(lines[i], " \t\r")
	}
	for len(lines) > 0 && lines[len(lines)-1] == "" {
		lines = lines[:len(lines)-1]
	}
	return strings.Join(lines, "\n")
}

func c17Model(r *c17Run, ex map[string][]c17Exchange) *c17Outcome {
	o := &c17Outcome{buckets: map[string]map[string]string{}, inserted: map[string]bool{}, counts: map[string]int{}}
	producer := map[string]int{}   // loc\x00name -> plugin index
	finalOwner := map[string]int{} // sandbox path of a produced file -> plugin index
	// names every plugin will produce in this run, per location (to tell "not yet" from "never")
	everProduced := map[string]bool{}
	for _, p := range r.Plugins {
		for _, x := range ex[p.ID] {
			if x.Resp == nil {
				continue
			}
			for _, f := range x.Resp.GetFile() {
				if f.GetInsertionPoint() == "" {
					if info := model.AnalyzePath(f.GetName()); !info.Escapes {
						everProduced[p.Loc+"\x00"+info.Clean] = true
					}
				}
			}
		}
	}
	for i, p := range r.Plugins {
		b := o.buckets[p.Loc]
		if b == nil {
			b = map[string]string{}
			o.buckets[p.Loc] = b
			if p.Kind == "jar" {
				b["META-INF/MANIFEST.MF"] = "\x00manifest"
			}
		}
		for _, x := range ex[p.ID] {
			if x.Resp == nil {
				o.loose = append(o.loose, "response-not-recorded")
				continue
			}
			if x.Resp.GetError() != "" && o.expectErr == "" {
				o.expectErr = "plugin-error"
			}
			for k, f := range x.Resp.GetFile() {
				name := f.GetName()
				cl := c17NameClass(name)
				o.counts["name:"+cl]++
				switch cl {
				case "empty":
					if k == 0 && o.expectErr == "" {
						o.expectErr = "first-file-without-name"
					}
					o.loose = append(o.loose, "empty-name")
					continue
				case "absolute", "climbs-out":
					o.escaping = append(o.escaping, name)
					continue
				case "names-the-root":
					o.loose = append(o.loose, "name-is-out-root")
					continue
				}
				clean := model.AnalyzePath(name).Clean
				key := p.Loc + "\x00" + clean
				if f.GetInsertionPoint() == "" {
					if prev, ok := producer[key]; ok {
						if prev != i {
							if o.expectErr == "" {
								o.expectErr = "duplicate-same-out"
								o.errRel = c17SpellRel(r.Plugins[prev].Out, p.Out)
							}
						} else {
							o.loose = append(o.loose, "same-plugin-duplicate")
						}
					}
					if p.Kind == "dir" {
						fp := path.Join(p.Loc, clean)
						if prev, ok := finalOwner[fp]; ok && prev != i && o.expectErr == "" {
							o.expectErr = "duplicate-nested-out"
							o.errRel = "nested"
						}
						finalOwner[fp] = i
					}
					producer[key] = i
					b[clean] = f.GetContent()
					continue
				}
				cur, ok := b[clean]
				switch {
				case !ok && everProduced[key]:
					o.loose = append(o.loose, "insertion-before-producer")
				case !ok:
					if o.expectErr == "" {
						o.expectErr = "insertion-target-not-produced"
					}
				default:
					if r.Plugins[producer[key]].Out != p.Out {
						o.loose = append(o.loose, "insertion-across-out-spellings")
					}
					res, found := c17ApplyInsertion(cur, f.GetInsertionPoint(), f.GetContent())
					if !found {
						o.loose = append(o.loose, "marker-missing")
					} else {
						b[clean] = res
						o.inserted[key] = true
						o.counts["insertions"]++
					}
				}
			}
		}
	}
	// file/directory conflicts: a produced file that is (an ancestor of) another produced file, an
	// out directory or an archive; an archive that is an ancestor of a produced file
	var files []string
	for fp := range finalOwner {
		files = append(files, fp)
	}
	for _, p := range r.Plugins {
		for _, fp := range files {
			if fp != p.Loc && model.ContainsPath(fp, p.Loc) || fp == p.Loc {
				o.conflict = true
			}
			if p.Kind != "dir" && fp != p.Loc && model.ContainsPath(p.Loc, fp) {
				o.conflict = true
			}
		}
	}
	sort.Strings(files)
	for i := 0; i+1 < len(files); i++ {
		if model.ContainsPath(files[i], files[i+1]) {
			o.conflict = true
		}
	}
	for i := range files {
		for j := range files {
			if i != j && model.ContainsPath(files[i], files[j]) {
				o.conflict = true
			}
		}
	}
	for loc, b := range o.buckets {
		if c17KindOf(loc) == "dir" {
			continue
		}
		var names []string
		for n := range b {
			names = append(names, n)
		}
		for i := range names {
			for j := range names {
				if i != j && model.ContainsPath(names[i], names[j]) {
					o.conflict = true
				}
			}
		}
	}
	return o
}

func c17SpellRel(a, b string) string {
	switch {
	case a == b:
		return "same-spelling"
	case path.Clean(a) == path.Clean(b):
		return "equivalent-spelling"
	}
	return "alias-through-parent"
}

type c17Change struct {
	kind string // added | changed | removed
	path string
	dir  bool
}

func c17Diff(before, after map[string]string) []c17Change {
	var out []c17Change
	for k, v := range before {
		w, ok := after[k]
		switch {
		case !ok:
			out = append(out, c17Change{"removed", k, v == "dir"})
		case w != v:
			out = append(out, c17Change{"changed", k, w == "dir"})
		}
	}
	for k, w := range after {
		if _, ok := before[k]; !ok {
			out = append(out, c17Change{"added", k, w == "dir"})
		}
	}
	sort.Slice(out, func(i, j int) bool { return out[i].path < out[j].path })
	return out
}

var c17PathRe = regexp.MustCompile(`(/[^\s:"']+)+`)

func c17ErrClass(stderr []byte) string {
	s := strings.TrimSpace(string(stderr))
	if i := strings.LastIndex(s, "\n"); i >= 0 {
		s = s[i+1:]
	}
	s = c17PathRe.ReplaceAllString(s, "<path>")
	s = regexp.MustCompile(`\d+`).ReplaceAllString(s, "N")
	if len(s) > 90 {
		s = s[:90]
	}
	return s
}

type c17RespTally struct {
	filesVerified, zipEntries, insertionsVerified, confinedRuns, errorRunsNothingWritten int
}

// c17CheckResponses judges the file system effect of one run.
func c17CheckResponses(c *core.C, sb string, r *c17Run, ex map[string][]c17Exchange, o run.Out, before, after map[string]string, witness func(string) string) {
	m := c17Model(r, ex)
	changes := c17Diff(before, after)
	for k, n := range m.counts {
		c.Count("response_"+k, n)
	}
	hostile := "none"
	if len(m.escaping) > 0 {
		hostile = c17NameClass(m.escaping[0])
	}
	// 1. confinement — always
	underOut := func(e string, removal bool) bool {
		for _, p := range r.Plugins {
			if p.Kind == "dir" && model.ContainsPath(p.Loc, e) {
				return true
			}
			if p.Kind != "dir" && e == p.Loc {
				return true
			}
		}
		return false
	}
	ancestorOfOut := func(e string) bool {
		for _, p := range r.Plugins {
			if model.ContainsPath(e, p.Loc) {
				return true
			}
		}
		return false
	}
	confined := true
	for _, ch := range changes {
		switch {
		case ch.kind == "removed":
			if !(r.Clean && underOut(ch.path, true)) {
				confined = false
				c.Violation("write-outside-out", "removed scenario="+r.Scenario+" name="+hostile, witness(fmt.Sprintf("%s was removed (clean=%v); it is not beneath an output location that --clean may empty", ch.path, r.Clean)), nil)
			}
		case underOut(ch.path, false):
		case ch.dir && ch.kind == "added" && ancestorOfOut(ch.path):
		default:
			confined = false
			c.Violation("write-outside-out", ch.kind+" scenario="+r.Scenario+" name="+hostile, witness(fmt.Sprintf("%s was %s, which is not beneath any plugin's output location %v (names returned that climb out: %q)", ch.path, ch.kind, c17Locs(r), m.escaping)), nil)
		}
	}
	if confined {
		c.Count("runs_confined", 1)
		if len(m.escaping) > 0 {
			c.Count("escaping_names_contained", len(m.escaping))
		}
	}
	written := func() []string {
		var w []string
		for _, ch := range changes {
			if ch.kind != "removed" && !ch.dir {
				w = append(w, ch.kind+":"+ch.path)
			}
		}
		return w
	}
	loose := len(m.loose) > 0 || len(m.escaping) > 0
	for _, l := range m.loose {
		c.Distinct("lenient_reasons", l)
	}
	if m.conflict {
		c.Distinct("lenient_reasons", "file-directory-conflict")
	}
	if len(m.escaping) > 0 {
		c.Distinct("lenient_reasons", "escaping-name")
		if o.Code != 0 {
			c.Count("escaping_names_rejected", len(m.escaping))
		} else {
			c.Count("escaping_names_accepted_but_contained", len(m.escaping))
		}
	}
	// 2. failure ⇒ nothing written
	if o.Code != 0 {
		c.Count("runs_failed", 1)
		if w := written(); len(w) > 0 && !m.conflict {
			reason := m.expectErr
			if reason == "" {
				reason = "other-failure"
			}
			c.Violation("written-despite-error", reason, witness(fmt.Sprintf("buf generate failed (exit %d: %s) yet files were written: %v", o.Code, c17Clip(o.Stderr, 300), w)), nil)
		} else if len(w) == 0 {
			c.Count("failed_runs_nothing_written", 1)
		}
		switch {
		case m.expectErr != "":
			c.Count("expected_error_"+m.expectErr, 1)
		case loose || m.conflict:
			c.Count("lenient_failures", 1)
		default:
			kinds := map[string]bool{}
			for _, p := range r.Plugins {
				kinds[p.Kind] = true
			}
			c.Violation("generate-failed", "outs="+model.JoinSorted(kinds)+" stderr="+c17ErrClass(o.Stderr), witness(fmt.Sprintf("a configuration whose plugins answered nothing objectionable was rejected: exit %d: %s", o.Code, c17Clip(o.Stderr, 400))), nil)
		}
		return
	}
	// 3. success although the statement demands an error
	if m.expectErr != "" {
		switch m.expectErr {
		case "duplicate-same-out", "duplicate-nested-out":
			c.Violation("duplicate-no-error", m.errRel, witness(fmt.Sprintf("two plugins produced the same output path (%s, out spellings related as %s) and buf generate succeeded; written: %v", m.expectErr, m.errRel, written())), nil)
		case "insertion-target-not-produced":
			c.Violation("insertion-into-unproduced-file", r.Scenario, witness(fmt.Sprintf("an insertion point named a file no plugin produced in this run (beneath that out) and buf generate succeeded; written: %v", written())), nil)
		default:
			c.Violation("error-swallowed", m.expectErr, witness(fmt.Sprintf("expected failure (%s) but buf generate succeeded; written: %v", m.expectErr, written())), nil)
		}
		return
	}
	if loose || m.conflict {
		c.Count("lenient_successes", 1)
		return
	}
	// 4. strict: disk = model
	explained := map[string]bool{}
	for _, p := range r.Plugins {
		if p.Kind != "dir" {
			explained[p.Loc] = true
		}
	}
	for loc, b := range m.buckets {
		if c17KindOf(loc) != "dir" {
			entries, err := c17ReadZip(filepath.Join(sb, filepath.FromSlash(loc)))
			if err != nil {
				if len(b) > 0 {
					c.Violation("output-mismatch", "archive-unreadable", witness(fmt.Sprintf("archive %s: %v", loc, err)), nil)
				}
				continue
			}
			for name, want := range b {
				got, ok := entries[name]
				switch {
				case !ok:
					c.Violation("output-mismatch", "archive-entry-missing", witness(fmt.Sprintf("archive %s lacks the entry %q; entries: %v", loc, name, c17Keys(entries))), nil)
				case want == "\x00manifest":
					c.Count("jar_manifests_verified", 1)
				case m.inserted[loc+"\x00"+name]:
					if c17NormText(got) != c17NormText(want) {
						c.Violation("output-mismatch", "insertion-content", witness(fmt.Sprintf("archive %s entry %q after insertion:\n%q\nexpected:\n%q", loc, name, got, want)), nil)
					} else {
						c.Count("insertions_verified", 1)
					}
				case got != want:
					c.Violation("output-mismatch", "archive-entry-content", witness(fmt.Sprintf("archive %s entry %q holds %q, the plugin returned %q", loc, name, c17Clip([]byte(got), 200), c17Clip([]byte(want), 200))), nil)
				default:
					c.Count("archive_entries_verified", 1)
				}
			}
			for name := range entries {
				if _, ok := b[name]; !ok {
					c.Violation("unexplained-output", "archive-entry", witness(fmt.Sprintf("archive %s holds the entry %q which no plugin writing there returned", loc, name)), nil)
				}
			}
			continue
		}
		for name, want := range b {
			rel := path.Join(loc, name)
			explained[rel] = true
			data, err := os.ReadFile(filepath.Join(sb, filepath.FromSlash(rel)))
			switch {
			case err != nil:
				c.Violation("output-mismatch", "file-missing", witness(fmt.Sprintf("%s was returned by a plugin writing to %s but is not on disk: %v", name, loc, err)), nil)
			case m.inserted[loc+"\x00"+name]:
				if c17NormText(string(data)) != c17NormText(want) {
					c.Violation("output-mismatch", "insertion-content", witness(fmt.Sprintf("%s after insertion:\n%q\nexpected:\n%q", rel, data, want)), nil)
				} else {
					c.Count("insertions_verified", 1)
				}
			case string(data) != want:
				c.Violation("output-mismatch", "file-content", witness(fmt.Sprintf("%s holds %q, the plugin returned %q", rel, c17Clip(data, 200), c17Clip([]byte(want), 200))), nil)
			default:
				c.Count("output_files_verified", 1)
			}
		}
	}
	for _, ch := range changes {
		if ch.kind == "removed" || ch.dir {
			continue
		}
		if !explained[ch.path] {
			c.Violation("unexplained-output", "file", witness(fmt.Sprintf("%s was %s although no plugin whose output location contains it returned that name", ch.path, ch.kind)), nil)
		}
	}
	// files that existed in an out directory and were not produced again must be untouched (unless cleaned)
	for _, pre := range r.PreExist {
		if explained[pre] || r.Clean {
			continue
		}
		if before[pre] != after[pre] {
			c.Violation("preexisting-file-modified", r.Scenario, witness(fmt.Sprintf("%s existed before the run, was not produced by any plugin, and changed", pre)), nil)
		} else {
			c.Count("preexisting_files_untouched", 1)
		}
	}
}

func c17Locs(r *c17Run) []string {
	var out []string
	for _, p := range r.Plugins {
		out = append(out, p.Loc)
	}
	return out
}

func c17Keys(m map[string]string) []string {
	var out []string
	for k := range m {
		out = append(out, k)
	}
	sort.Strings(out)
	return out
}

func c17ReadZip(file string) (map[string]string, error) {
	zr, err := zip.OpenReader(file)
	if err != nil {
		return nil, err
	}
	defer zr.Close()
	out := map[string]string{}
	for _, f := range zr.File {
		rc, err := f.Open()
		if err != nil {
			return nil, err
		}
		data, err := io.ReadAll(rc)
		rc.Close()
		if err != nil {
			return nil, err
		}
		if _, dup := out[f.Name]; dup {
			return nil, fmt.Errorf("entry %q twice", f.Name)
		}
		out[f.Name] = string(data)
	}
	return out, nil
}

func c17Clip(b []byte, n int) string {
	if len(b) > n {
		return string(b[:n]) + "…"
	}
	return string(b)
}
