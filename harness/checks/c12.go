package checks

import (
	"bytes"
	"context"
	"encoding/base64"
	"fmt"
	"io"
	"log/slog"
	"math/rand/v2"
	"os"
	"path/filepath"
	"sort"
	"strings"

	"github.com/bufbuild/buf/private/bufpkg/bufimage"
	"github.com/bufbuild/buf/private/bufpkg/bufimage/bufimageutil"
	"github.com/bufbuild/buf/private/bufpkg/bufmodule"
	"github.com/bufbuild/buf/private/bufpkg/bufmodule/bufmoduletesting"
	imagev1 "github.com/bufbuild/buf/private/gen/proto/go/buf/alpha/image/v1"
	"github.com/bufbuild/verifharness/core"
	"github.com/bufbuild/verifharness/run"
	"google.golang.org/protobuf/proto"
	"google.golang.org/protobuf/types/descriptorpb"
	"google.golang.org/protobuf/types/pluginpb"
)

// C12 — type filtering yields a self-contained, minimal, otherwise unchanged image.
//
// One case = one generated image (c12gen.go) and a list of filters over the names that exist in
// it. Every filter is applied with the real bufimageutil.FilterImage (copying on the shared
// image, or WithMutateInPlace on a clone); the outcome is judged by the reference model and the
// clause oracle in c12model.go / c12oracle.go; then idempotence, input preservation and the
// agreement of the two modes are checked. Some cases additionally drive the same filters
// through `buf build --type`, `buf generate --type/--exclude-type` and per-plugin
// `types`/`exclude_types` of buf.gen.yaml with a recording plugin.

func c12Cases(tier string) int {
	if tier == "thorough" {
		return 420
	}
	return 64
}

func c12FiltersPerImage(tier string) int {
	if tier == "thorough" {
		return 300
	}
	return 60
}

type c12Image struct {
	img      bufimage.Image
	pristine [][]byte // deterministic serialisation of every file, image order
	paths    []string
}

func c12Canon(fd *descriptorpb.FileDescriptorProto) []byte {
	b, err := proto.MarshalOptions{Deterministic: true}.Marshal(fd)
	if err != nil {
		return []byte("marshal-error:" + err.Error())
	}
	return b
}

// c12Canon2 is the representation-independent form used to compare images that went through
// different decoders (CLI output against API result): custom options become unknown fields.
func c12Canon2(fd *descriptorpb.FileDescriptorProto) []byte {
	plain := &descriptorpb.FileDescriptorProto{}
	if err := proto.Unmarshal(c12Canon(fd), plain); err != nil {
		return []byte("unmarshal-error:" + err.Error())
	}
	return c12Canon(plain)
}

func c12BuildImage(w *c12Workload) (bufimage.Image, error) {
	var mds []bufmoduletesting.ModuleData
	for mi, m := range w.schema.Modules {
		data := map[string][]byte{}
		for p, t := range w.texts[mi] {
			data[p] = []byte(t)
		}
		mds = append(mds, bufmoduletesting.ModuleData{Name: m.Name, PathToData: data, NotTargeted: w.notTargeted[mi]})
	}
	ms, err := bufmoduletesting.NewModuleSet(mds...)
	if err != nil {
		return nil, err
	}
	return bufimage.BuildImage(context.Background(), slog.New(slog.NewTextHandler(io.Discard, nil)), bufmodule.ModuleSetToModuleReadBucketWithOnlyProtoFiles(ms))
}

func c12Files(img bufimage.Image) ([]*descriptorpb.FileDescriptorProto, map[string]bool) {
	var fds []*descriptorpb.FileDescriptorProto
	imp := map[string]bool{}
	for _, f := range img.Files() {
		fds = append(fds, f.FileDescriptorProto())
		imp[f.Path()] = f.IsImport()
	}
	return fds, imp
}

// c12Apply runs the real filter; a panic becomes an error value marked as such.
func c12Apply(img bufimage.Image, f *c12Filter, inPlace bool) (res bufimage.Image, err error, panicked bool) {
	defer func() {
		if r := recover(); r != nil {
			err, panicked = fmt.Errorf("panic: %v", r), true
		}
	}()
	var opts []bufimageutil.ImageFilterOption
	if len(f.inc) > 0 {
		opts = append(opts, bufimageutil.WithIncludeTypes(f.inc...))
	}
	if len(f.exc) > 0 {
		opts = append(opts, bufimageutil.WithExcludeTypes(f.exc...))
	}
	if !f.customOptions {
		opts = append(opts, bufimageutil.WithExcludeCustomOptions())
	}
	if !f.knownExt {
		opts = append(opts, bufimageutil.WithExcludeKnownExtensions())
	}
	if f.allowImported {
		opts = append(opts, bufimageutil.WithAllowIncludeOfImportedType())
	}
	if inPlace {
		opts = append(opts, bufimageutil.WithMutateInPlace())
	}
	res, err = bufimageutil.FilterImage(img, opts...)
	return res, err, false
}

func c12SameImage(a, b bufimage.Image) string {
	af, bf := a.Files(), b.Files()
	if len(af) != len(bf) {
		var an, bn []string
		for _, f := range af {
			an = append(an, f.Path())
		}
		for _, f := range bf {
			bn = append(bn, f.Path())
		}
		return fmt.Sprintf("files %v vs %v", an, bn)
	}
	for i := range af {
		if af[i].Path() != bf[i].Path() {
			return fmt.Sprintf("file #%d is %q vs %q", i, af[i].Path(), bf[i].Path())
		}
		if af[i].IsImport() != bf[i].IsImport() {
			return fmt.Sprintf("file %q import flag differs", af[i].Path())
		}
		if !bytes.Equal(c12Canon(af[i].FileDescriptorProto()), c12Canon(bf[i].FileDescriptorProto())) {
			return fmt.Sprintf("file %q differs: %s", af[i].Path(), c12FirstDiff(af[i].FileDescriptorProto(), bf[i].FileDescriptorProto()))
		}
	}
	return ""
}

// c12FirstDiff names the first top-level difference of two file descriptors.
func c12FirstDiff(a, b *descriptorpb.FileDescriptorProto) string {
	names := func(fd *descriptorpb.FileDescriptorProto) []string {
		ix, _ := c12BuildIndex([]*descriptorpb.FileDescriptorProto{fd}, nil, false)
		var out []string
		for n := range ix.els {
			out = append(out, n)
		}
		sort.Strings(out)
		return out
	}
	an, bn := names(a), names(b)
	if !equalStrings(an, bn) {
		as, bs := map[string]bool{}, map[string]bool{}
		for _, n := range an {
			as[n] = true
		}
		for _, n := range bn {
			bs[n] = true
		}
		var onlyA, onlyB []string
		for _, n := range an {
			if !bs[n] {
				onlyA = append(onlyA, n)
			}
		}
		for _, n := range bn {
			if !as[n] {
				onlyB = append(onlyB, n)
			}
		}
		return fmt.Sprintf("only in first %v, only in second %v", onlyA, onlyB)
	}
	if !equalStrings(a.GetDependency(), b.GetDependency()) {
		return fmt.Sprintf("dependencies %v vs %v", a.GetDependency(), b.GetDependency())
	}
	ac, bc := proto.Clone(a).(*descriptorpb.FileDescriptorProto), proto.Clone(b).(*descriptorpb.FileDescriptorProto)
	ac.SourceCodeInfo, bc.SourceCodeInfo = nil, nil
	if proto.Equal(ac, bc) {
		return "source code info differs"
	}
	return "same names and dependencies, bodies differ"
}

func c12Run(c *core.C, idx int) {
	if idx == 0 {
		c12RunWitnesses(c)
	}
	cli := idx%4 == 0
	w := c12Generate(c.Rand, c.Thorough(), cli)
	img, err := c12BuildImage(w)
	if err != nil {
		c.Violation("harness-workload-invalid", "build", fmt.Sprintf("the generated workload does not build: %v (features %v)", err, w.featureList()), nil)
		return
	}
	c.Count("images", 1)
	for _, ft := range w.featureList() {
		c.Distinct("image_features", ft)
		c.Count("image_feature:"+ft, 1)
	}
	// the model works on an independent copy of the descriptors
	var orig []*descriptorpb.FileDescriptorProto
	origImport := map[string]bool{}
	ci := &c12Image{img: img}
	for _, f := range img.Files() {
		orig = append(orig, proto.Clone(f.FileDescriptorProto()).(*descriptorpb.FileDescriptorProto))
		origImport[f.Path()] = f.IsImport()
		ci.pristine = append(ci.pristine, c12Canon(f.FileDescriptorProto()))
		ci.paths = append(ci.paths, f.Path())
	}
	ix, err := c12BuildIndex(orig, origImport, true)
	if err != nil {
		c.Violation("harness-workload-invalid", "link", err.Error(), nil)
		return
	}
	for _, p := range w.typeless {
		if ix.files[p] != nil {
			c.Count("images_with_typeless_file", 1)
			break
		}
	}
	nf := c12FiltersPerImage(c.Tier)
	filters := c12MakeFilters(c.Rand, ix, nf)
	for fi, f := range filters {
		c12One(c, ci, ix, w, f, fi)
		// a copying filter must leave its input alone; if it did not, repair the shared image
		if !c12InputIntact(ci) {
			c.Violation("input-mutated", "copying-mode", fmt.Sprintf("FilterImage without WithMutateInPlace changed its input image; filter: %s", f), nil)
			img2, err := c12BuildImage(w)
			if err != nil {
				return
			}
			ci.img = img2
		}
	}
	if cli {
		c12CLI(c, ci, ix, w)
	}
	if idx < 2 {
		var sample []string
		for _, f := range filters[:min(4, len(filters))] {
			sample = append(sample, f.String())
		}
		c.Sample(map[string]any{"image": w.schema.Describe(), "features": w.featureList(), "filters": sample})
	}
}

func c12InputIntact(ci *c12Image) bool {
	files := ci.img.Files()
	if len(files) != len(ci.pristine) {
		return false
	}
	for i, f := range files {
		if f.Path() != ci.paths[i] || !bytes.Equal(c12Canon(f.FileDescriptorProto()), ci.pristine[i]) {
			return false
		}
	}
	return true
}

func c12One(c *core.C, ci *c12Image, ix *c12Index, w *c12Workload, f *c12Filter, fi int) *c12Plan {
	p := c12MakePlan(ix, f)
	in := ci.img
	if f.inPlace {
		cl, err := bufimage.CloneImage(ci.img)
		if err != nil {
			c.Violation("harness-workload-invalid", "clone", err.Error(), nil)
			return p
		}
		in = cl
	}
	res, ferr, panicked := c12Apply(in, f, f.inPlace)
	c.Eval(1)
	mode := f.mode()
	c.Count("filters_"+mode, 1)
	if f.inPlace {
		c.Count("filters_in_place", 1)
	} else {
		c.Count("filters_copying", 1)
	}
	for _, t := range f.tags {
		c.Distinct("named_roles", t)
		switch {
		case mode == "exclude-only" && strings.Contains(t, "rpc-request"):
			c.Count("exclude_only_naming_rpc_request_type", 1)
		case mode == "exclude-only" && strings.Contains(t, "rpc-response"):
			c.Count("exclude_only_naming_rpc_response_type", 1)
		}
		if mode == "exclude-only" && strings.Contains(t, "map-value") {
			c.Count("exclude_only_naming_map_value_type", 1)
		}
	}
	report := func(class, key, msg string) {
		c.Violation(class, key, msg, map[string]any{"filter": f.String(), "names": f.tags, "image": w.schema.Describe(), "features": w.featureList()})
	}
	if panicked {
		report("panic", "mode="+mode+" err="+c12NormErr(ferr), fmt.Sprintf("FilterImage panicked: %v; filter: %s", ferr, f))
		return p
	}
	var rfds []*descriptorpb.FileDescriptorProto
	rimp := map[string]bool{}
	if ferr == nil {
		rfds, rimp = c12Files(res)
	}
	out := c12Judge(p, rfds, rimp, ferr, report)
	c.Count("comment_locations_compared", out.comments)
	if out.legalError {
		c.Count("legal_errors", 1)
		kind := "lenient"
		if len(p.strict) > 0 {
			kind = p.strict[0]
		} else if p.nothingLeft {
			kind = "nothing-left"
		}
		c.Distinct("legal_error_kinds", kind)
		c.Nontrivial(fmt.Sprintf("%s error=%s", mode, kind))
		for _, k := range p.strict {
			c.Count("contradiction_rejected:"+k, 1)
		}
		return p
	}
	if ferr != nil {
		c.Count("illegal_errors", 1)
		return p
	}
	c.Count("filters_ok", 1)
	if len(p.strict) > 0 {
		c.Count("contradictions_not_rejected", 1)
		for _, k := range p.strict {
			c.Count("contradiction_accepted:"+k, 1)
		}
		// The filter includes an element and excludes it, its container, or something it cannot exist without:
		// "contains every included element" and "contains no excluded element nor any reference to one" cannot
		// both hold, so the only outcome consistent with the statement is a refusal. A result that quietly
		// lacks the included element breaks the first clause.
		c.Violation("contradiction-not-rejected", "kind="+p.strict[0],
			fmt.Sprintf("FilterImage accepted a contradictory filter (%s) and returned an image; filter: %s\n  names: %s", strings.Join(p.strict, ", "), f, strings.Join(f.tags, " ")), nil)
	}
	// ---- the other mode gives the same image -------------------------------------------------
	// (not for a filter that includes something whose own type is excluded: failing and
	// dropping are both accepted there, and which one happens may depend on map order)
	if fi%2 == 0 && len(p.lenient) == 0 {
		in2 := ci.img
		if !f.inPlace {
			if cl, err := bufimage.CloneImage(ci.img); err == nil {
				in2 = cl
			}
		}
		res2, err2, pan2 := c12Apply(in2, f, !f.inPlace)
		c.Eval(1)
		switch {
		case pan2 || err2 != nil:
			report("modes-disagree", "error-in-one-mode", fmt.Sprintf("the filter succeeds with inPlace=%v and fails with inPlace=%v: %v; filter: %s", f.inPlace, !f.inPlace, err2, f))
		default:
			if d := c12SameImage(res, res2); d != "" {
				report("modes-disagree", "different-image", fmt.Sprintf("copying and in-place filtering give different images: %s; filter: %s", d, f))
			}
			c.Count("mode_pairs_compared", 1)
		}
	}
	// ---- idempotence ----------------------------------------------------------------------------
	if len(f.inc) == 0 {
		// every excluded name is absent from the result and the API rejects absent names: the
		// clause is vacuous for exclude-only filters
		c.Count("idempotence_vacuous_exclude_only", 1)
	} else if len(p.strict) == 0 && len(p.lenient) == 0 {
		f2 := *f
		f2.exc = nil
		res2, err2, pan2 := c12Apply(res, &f2, false)
		c.Eval(1)
		switch {
		case pan2 || err2 != nil:
			report("not-idempotent", "second-application-fails err="+c12NormErr(err2), fmt.Sprintf("applying the include part of the filter to its own result fails: %v; filter: %s", err2, f))
		default:
			if d := c12SameImage(res, res2); d != "" {
				kinds := map[string]bool{}
				for _, n := range f.inc {
					if el := ix.els[n]; el != nil {
						kinds[el.kind] = true
					} else {
						kinds["package"] = true
					}
				}
				report("not-idempotent", "second-application-differs include="+strings.Join(sortedKeys(kinds), "+"), fmt.Sprintf("filter(filter(x)) != filter(x): %s; filter: %s", d, f))
			}
		}
		c.Count("idempotence_checked", 1)
	}
	var eff []string
	for e := range out.effects {
		eff = append(eff, e)
		c.Count("effect:"+e, 1)
	}
	sort.Strings(eff)
	var roles []string
	seen := map[string]bool{}
	for _, t := range f.tags {
		k := t[:strings.Index(t, ":")+1] + strings.Split(t[strings.Index(t, ":")+1:], "[")[0]
		if !seen[k] {
			seen[k] = true
			roles = append(roles, k)
		}
	}
	sort.Strings(roles)
	c.Nontrivial(fmt.Sprintf("%s names=%s opts=%v ext=%v inplace=%v effects=%s", mode, strings.Join(roles, ","), f.customOptions, f.knownExt, f.inPlace, strings.Join(eff, ",")))
	return p
}

// ---- filter generation ----------------------------------------------------------------------

type c12Catalog struct {
	ix                                                         *c12Index
	msgs, nested, groups, entries, enums, svcs, mths           []string
	exts, optExts, pkgs                                        []string
	rpcReq, rpcResp, mapVals, optTypes, anyPayloads, extendees []string
	imported                                                   []string
	soleUsers                                                  []string // top-level messages that are the only user of an imported file
	fieldTypes                                                 []string
	all                                                        []string
	roles                                                      map[string][]string
}

func c12MakeCatalog(ix *c12Index) *c12Catalog {
	cat := &c12Catalog{ix: ix, roles: map[string][]string{}}
	role := func(n, r string) {
		for _, x := range cat.roles[n] {
			if x == r {
				return
			}
		}
		cat.roles[n] = append(cat.roles[n], r)
	}
	uniq := func(l *[]string, n string) {
		for _, x := range *l {
			if x == n {
				return
			}
		}
		*l = append(*l, n)
	}
	var names []string
	for n := range ix.els {
		names = append(names, n)
	}
	sort.Strings(names)
	pkgSeen := map[string]bool{}
	for _, path := range ix.order {
		if pk := ix.files[path].GetPackage(); !pkgSeen[pk] && pk != "" && !strings.HasPrefix(pk, "google.protobuf") {
			pkgSeen[pk] = true
			cat.pkgs = append(cat.pkgs, pk)
		}
	}
	for _, n := range names {
		el := ix.els[n]
		if ix.isImport[el.file] {
			if el.kind == "message" || el.kind == "enum" {
				cat.imported = append(cat.imported, n)
			}
			role(n, "imported")
			if strings.HasPrefix(n, "google.protobuf.") {
				continue
			}
		}
		switch el.kind {
		case "message":
			switch {
			case el.mapEntry:
				cat.entries = append(cat.entries, n)
				role(n, "map-entry")
			case el.group:
				cat.groups = append(cat.groups, n)
				role(n, "group")
			case el.parent != "":
				cat.nested = append(cat.nested, n)
				role(n, "nested")
			default:
				cat.msgs = append(cat.msgs, n)
			}
			if len(el.children) > 0 {
				role(n, "enclosing")
			}
		case "enum":
			cat.enums = append(cat.enums, n)
			if el.parent != "" {
				role(n, "nested")
			}
		case "service":
			cat.svcs = append(cat.svcs, n)
		case "method":
			cat.mths = append(cat.mths, n)
		case "extension":
			if c12IsOptionsType(c12Trim(el.ext.GetExtendee())) {
				cat.optExts = append(cat.optExts, n)
				role(n, "custom-option")
			} else {
				cat.exts = append(cat.exts, n)
			}
			if el.parent != "" {
				role(n, "nested")
			}
		}
		cat.all = append(cat.all, n)
	}
	for _, n := range names {
		el := ix.els[n]
		switch el.kind {
		case "method":
			in, out := c12Trim(el.mth.GetInputType()), c12Trim(el.mth.GetOutputType())
			uniq(&cat.rpcReq, in)
			role(in, "rpc-request")
			uniq(&cat.rpcResp, out)
			role(out, "rpc-response")
		case "message":
			for _, fl := range el.msg.GetField() {
				t := c12Trim(fl.GetTypeName())
				if t == "" {
					continue
				}
				if el.mapEntry {
					if !strings.HasPrefix(n, "google.protobuf.") {
						uniq(&cat.mapVals, t)
						role(t, "map-value")
					}
				} else if ix.els[t] != nil && !ix.els[t].mapEntry && !ix.els[t].group && !ix.isImport[el.file] {
					uniq(&cat.fieldTypes, t)
					role(t, "field-type")
					if fl.OneofIndex != nil {
						role(t, "oneof-member-type")
					}
				}
			}
		case "extension":
			ee := c12Trim(el.ext.GetExtendee())
			if !c12IsOptionsType(ee) {
				uniq(&cat.extendees, ee)
				role(ee, "extendee")
			}
			if t := c12Trim(el.ext.GetTypeName()); t != "" {
				if c12IsOptionsType(ee) {
					uniq(&cat.optTypes, t)
					role(t, "custom-option-type")
				} else {
					role(t, "extension-type")
				}
			}
		}
	}
	for _, us := range ix.uses {
		for _, u := range us {
			for _, a := range u.anys {
				if ix.els[a] != nil {
					uniq(&cat.anyPayloads, a)
					role(a, "any-payload")
				}
			}
		}
	}
	sort.Strings(cat.anyPayloads)
	// the only top-level element of the targets that refers to an imported (non-WKT) file
	users := map[string]map[string]bool{}
	topLevel := func(n string) string {
		for ix.els[n] != nil && ix.els[n].parent != "" {
			n = ix.els[n].parent
		}
		return n
	}
	use := func(user, typ string) {
		t := ix.els[c12Trim(typ)]
		if t == nil || !ix.isImport[t.file] || strings.HasPrefix(t.full, "google.protobuf.") {
			return
		}
		if users[t.file] == nil {
			users[t.file] = map[string]bool{}
		}
		users[t.file][topLevel(user)] = true
	}
	for _, n := range names {
		el := ix.els[n]
		if ix.isImport[el.file] {
			continue
		}
		switch el.kind {
		case "message":
			for _, fl := range el.msg.GetField() {
				use(n, fl.GetTypeName())
			}
		case "method":
			use(n, el.mth.GetInputType())
			use(n, el.mth.GetOutputType())
		case "extension":
			use(n, el.ext.GetExtendee())
			use(n, el.ext.GetTypeName())
		}
	}
	for _, f := range sortedKeys(users) {
		if len(users[f]) == 1 {
			for u := range users[f] {
				if el := ix.els[u]; el != nil && el.kind == "message" {
					uniq(&cat.soleUsers, u)
					role(u, "sole-user-of-imported-file")
				}
			}
		}
	}
	return cat
}

func (cat *c12Catalog) tag(side, n string) string {
	kind := "package"
	if el := cat.ix.els[n]; el != nil {
		kind = el.kind
	}
	r := append([]string{}, cat.roles[n]...)
	sort.Strings(r)
	if len(r) == 0 {
		return side + ":" + kind
	}
	return side + ":" + kind + "[" + strings.Join(r, ",") + "]"
}

func c12Pick(r *rand.Rand, l []string) string {
	if len(l) == 0 {
		return ""
	}
	return l[r.IntN(len(l))]
}

// c12MakeFilters: the first slots are the shapes the design names (so every image sees them if
// it has the material), the rest are random subsets of all names.
func c12MakeFilters(r *rand.Rand, ix *c12Index, n int) []*c12Filter {
	cat := c12MakeCatalog(ix)
	var out []*c12Filter
	mk := func(inc, exc []string) *c12Filter {
		f := &c12Filter{customOptions: r.IntN(10) < 7, knownExt: r.IntN(10) < 7, inPlace: r.IntN(2) == 0, allowImported: r.IntN(10) < 3}
		seen := map[string]bool{}
		for _, x := range inc {
			if x != "" && !seen["i"+x] {
				seen["i"+x] = true
				f.inc = append(f.inc, x)
				f.tags = append(f.tags, cat.tag("inc", x))
			}
		}
		for _, x := range exc {
			if x != "" && !seen["e"+x] {
				seen["e"+x] = true
				f.exc = append(f.exc, x)
				f.tags = append(f.tags, cat.tag("exc", x))
			}
		}
		if len(f.inc)+len(f.exc) == 0 {
			return nil
		}
		for _, x := range f.inc {
			if el := ix.els[x]; el != nil && ix.isImport[el.file] && r.IntN(4) != 0 {
				f.allowImported = true
			}
		}
		return f
	}
	pk := func(l []string) string { return c12Pick(r, l) }
	one := func(s string) []string {
		if s == "" {
			return nil
		}
		return []string{s}
	}
	parentOf := func(n string) string {
		if el := ix.els[n]; el != nil {
			return el.parent
		}
		return ""
	}
	methodOf := func(t string, input bool) string {
		var c []string
		for _, m := range cat.mths {
			el := ix.els[m]
			if (input && c12Trim(el.mth.GetInputType()) == t) || (!input && c12Trim(el.mth.GetOutputType()) == t) {
				c = append(c, m)
			}
		}
		return pk(c)
	}
	userOf := func(t string) string {
		var c []string
		for _, m := range append(append([]string{}, cat.msgs...), cat.nested...) {
			for _, fl := range ix.els[m].msg.GetField() {
				if c12Trim(fl.GetTypeName()) == t {
					c = append(c, m)
				}
			}
		}
		return pk(c)
	}
	shapes := []func() *c12Filter{
		func() *c12Filter { return mk(nil, one(pk(cat.rpcReq))) },
		func() *c12Filter { return mk(nil, one(pk(cat.rpcResp))) },
		func() *c12Filter { return mk(nil, one(pk(cat.mapVals))) },
		func() *c12Filter { return mk(nil, one(pk(cat.optExts))) },
		func() *c12Filter { return mk(nil, one(pk(cat.optTypes))) },
		func() *c12Filter { return mk(nil, one(pk(cat.extendees))) },
		func() *c12Filter { return mk(nil, one(pk(cat.pkgs))) },
		func() *c12Filter { return mk(nil, one(pk(cat.nested))) },
		func() *c12Filter { return mk(nil, one(parentOf(pk(cat.nested)))) },
		func() *c12Filter { return mk(nil, one(pk(cat.svcs))) },
		func() *c12Filter { return mk(nil, one(pk(cat.mths))) },
		func() *c12Filter { return mk(nil, one(pk(cat.fieldTypes))) },
		func() *c12Filter { return mk(nil, one(pk(cat.enums))) },
		func() *c12Filter { return mk(nil, one(pk(cat.anyPayloads))) },
		func() *c12Filter { return mk(nil, one(pk(cat.imported))) },
		func() *c12Filter {
			f := mk(nil, one(pk(cat.soleUsers)))
			if f != nil {
				f.knownExt = true
			}
			return f
		},
		func() *c12Filter { return mk(nil, one(pk(cat.exts))) },
		func() *c12Filter { return mk(nil, one(pk(cat.groups))) },
		func() *c12Filter { return mk(nil, one(pk(cat.entries))) },
		func() *c12Filter { return mk(one(pk(cat.msgs)), nil) },
		func() *c12Filter { return mk(one(pk(cat.nested)), nil) },
		func() *c12Filter { return mk(one(pk(cat.enums)), nil) },
		func() *c12Filter { return mk(one(pk(cat.mths)), nil) },
		func() *c12Filter { return mk(one(pk(cat.svcs)), nil) },
		func() *c12Filter { return mk(one(pk(cat.exts)), nil) },
		func() *c12Filter { return mk(one(pk(cat.optExts)), nil) },
		func() *c12Filter { return mk(one(pk(cat.pkgs)), nil) },
		func() *c12Filter { return mk([]string{pk(cat.exts), pk(cat.msgs)}, nil) },
		func() *c12Filter { return mk([]string{pk(cat.optExts), pk(cat.msgs)}, nil) },
		func() *c12Filter { return mk(one(pk(cat.extendees)), nil) },
		func() *c12Filter { return mk(one(pk(cat.imported)), nil) },
		func() *c12Filter { return mk(one(pk(cat.groups)), nil) },
		func() *c12Filter { return mk(one(pk(cat.anyPayloads)), nil) },
		// mixed
		func() *c12Filter { m := pk(cat.mths); return mk(one(parentOf(m)), one(m)) },
		func() *c12Filter { t := pk(cat.rpcReq); return mk(one(parentOf(methodOf(t, true))), one(t)) },
		func() *c12Filter { t := pk(cat.rpcResp); return mk(one(methodOf(t, false)), one(t)) }, // contradiction
		func() *c12Filter { t := pk(cat.rpcReq); return mk(one(methodOf(t, true)), one(t)) },   // contradiction
		func() *c12Filter { t := pk(cat.fieldTypes); return mk(one(userOf(t)), one(t)) },
		func() *c12Filter { t := pk(cat.mapVals); return mk(one(userOf(t)), one(t)) },
		func() *c12Filter { n := pk(cat.nested); return mk(one(n), one(parentOf(n))) }, // contradiction
		func() *c12Filter { n := pk(cat.nested); return mk(one(parentOf(n)), one(n)) },
		func() *c12Filter {
			x := pk(cat.exts)
			if x == "" {
				return nil
			}
			return mk(one(x), one(c12Trim(ix.els[x].ext.GetExtendee()))) // contradiction
		},
		func() *c12Filter { return mk(one(pk(cat.pkgs)), one(pk(cat.optExts))) },
		func() *c12Filter { return mk(one(pk(cat.msgs)), one(pk(cat.optTypes))) },
		func() *c12Filter { p := pk(cat.pkgs); return mk(one(p), one(p)) }, // contradiction
	}
	for _, s := range shapes {
		if len(out) >= n {
			break
		}
		if f := s(); f != nil {
			out = append(out, f)
		}
	}
	// random subsets
	pools := [][]string{cat.msgs, cat.msgs, cat.nested, cat.enums, cat.svcs, cat.mths, cat.exts, cat.optExts, cat.pkgs, cat.groups, cat.rpcReq, cat.rpcResp, cat.mapVals, cat.fieldTypes, cat.fieldTypes, cat.optTypes, cat.anyPayloads, cat.extendees, cat.imported, cat.entries}
	draw := func(k int) []string {
		var l []string
		for i := 0; i < k; i++ {
			pool := pools[r.IntN(len(pools))]
			if len(pool) == 0 {
				pool = cat.all
			}
			l = append(l, pk(pool))
		}
		return l
	}
	for tries := 0; len(out) < n && tries < 10*n; tries++ {
		var f *c12Filter
		switch r.IntN(3) {
		case 0:
			f = mk(nil, draw(1+r.IntN(4)))
		case 1:
			f = mk(draw(1+r.IntN(4)), nil)
		default:
			f = mk(draw(1+r.IntN(3)), draw(1+r.IntN(3)))
		}
		if f != nil {
			out = append(out, f)
		}
	}
	return out
}

// ---- CLI sampling --------------------------------------------------------------------------------

func c12CLI(c *core.C, ci *c12Image, ix *c12Index, w *c12Workload) {
	ws := filepath.Join(c.Tmp, "c12ws")
	home := filepath.Join(c.Tmp, "c12home")
	os.RemoveAll(ws)
	defer os.RemoveAll(ws)
	defer os.RemoveAll(home)
	files := map[string]string{}
	var sb strings.Builder
	sb.WriteString("version: v2\nmodules:\n")
	for mi, m := range w.schema.Modules {
		sb.WriteString("  - path: " + m.Dir + "\n")
		if m.Name != "" {
			sb.WriteString("    name: " + m.Name + "\n")
		}
		for p, t := range w.texts[mi] {
			files[m.Dir+"/"+p] = t
		}
	}
	files["buf.yaml"] = sb.String()
	if err := run.WriteTree(ws, files); err != nil {
		c.Violation("harness-workload-invalid", "write", err.Error(), nil)
		return
	}
	env := run.BufEnv(home, nil)
	cat := c12MakeCatalog(ix)
	r := c.Rand
	defaults := func(f *c12Filter, inPlace bool) *c12Filter {
		if f == nil {
			return nil
		}
		f.customOptions, f.knownExt, f.allowImported, f.inPlace = true, true, false, inPlace
		return f
	}
	mk := func(inc, exc []string) *c12Filter {
		f := &c12Filter{}
		for _, x := range inc {
			if x != "" {
				f.inc = append(f.inc, x)
				f.tags = append(f.tags, cat.tag("inc", x))
			}
		}
		for _, x := range exc {
			if x != "" {
				f.exc = append(f.exc, x)
				f.tags = append(f.tags, cat.tag("exc", x))
			}
		}
		if len(f.inc)+len(f.exc) == 0 {
			return nil
		}
		return f
	}
	compare := func(what string, f *c12Filter, got []*descriptorpb.FileDescriptorProto, cliFailed bool, stderr string) {
		p := c12One(c, ci, ix, w, f, 1)
		in := ci.img
		if f.inPlace {
			in, _ = bufimage.CloneImage(ci.img)
		}
		res, ferr, _ := c12Apply(in, f, f.inPlace)
		_ = p
		switch {
		case ferr != nil && !cliFailed:
			c.Violation("cli-disagrees", what+":cli-succeeds-api-fails", fmt.Sprintf("%s succeeded but FilterImage fails with %v; filter: %s", what, ferr, f), nil)
		case ferr == nil && cliFailed:
			c.Violation("cli-disagrees", what+":cli-fails-api-succeeds", fmt.Sprintf("%s failed (%s) but FilterImage succeeds; filter: %s", what, strings.TrimSpace(stderr), f), nil)
		case ferr == nil:
			if strings.HasPrefix(what, "generate") {
				// a plugin is handed files without their source-retention options (descriptor.proto has some)
				if stripped, err := bufimageutil.StripSourceRetentionOptions(res); err == nil {
					res = stripped
				}
			}
			want, _ := c12Files(res)
			if len(want) != len(got) {
				c.Violation("cli-disagrees", what+":files", fmt.Sprintf("%s gives %d files, FilterImage %d; filter: %s", what, len(got), len(want), f), nil)
				return
			}
			for i := range want {
				if !bytes.Equal(c12Canon2(want[i]), c12Canon2(got[i])) {
					c.Violation("cli-disagrees", what+":content", fmt.Sprintf("%s and FilterImage differ in %q (%s); filter: %s", what, want[i].GetName(), c12FirstDiff(want[i], got[i]), f), nil)
					return
				}
			}
		}
		c.Count("cli_samples_"+what, 1)
	}
	// `buf build --type` (include-only, in-place in the controller)
	// the same filter applied to the image read back from a file (binary, then json): the alternative form of
	// the input — its options arrive as unrecognised fields and are re-interpreted with the image's own resolver
	imgInputs := []string{"", "", filepath.Join(c.Tmp, "c12full.binpb"), filepath.Join(c.Tmp, "c12full.json")}
	for _, in := range imgInputs[2:] {
		defer os.Remove(in)
	}
	for k := 0; k < 4; k++ {
		var f *c12Filter
		if k < 2 {
			f = defaults(mk([]string{c12Pick(r, cat.msgs), c12Pick(r, cat.mths), c12Pick(r, cat.exts)}[:1+r.IntN(3)], nil), true)
		} else {
			rr := core.RandFor(c.Seed, "C12", c.Idx, fmt.Sprintf("imginput%d", k))
			f = defaults(mk([]string{c12Pick(rr, cat.msgs), c12Pick(rr, cat.mths), c12Pick(rr, cat.exts)}[:1+rr.IntN(3)], nil), true)
		}
		if f == nil {
			continue
		}
		args := []string{"build", "-o", "-#format=binpb"}
		what := "build"
		if in := imgInputs[k]; in != "" {
			w := run.Buf(ws, env, nil, "build", "-o", in)
			c.Eval(1)
			if w.Code != 0 {
				c.Violation("cli-disagrees", "build:image-not-written", fmt.Sprintf("buf build -o %s exits %d: %s", filepath.Base(in), w.Code, clip(w.Stderr)), nil)
				continue
			}
			args = []string{"build", in, "-o", "-#format=binpb"}
			what = "build-from-image" + filepath.Ext(in)
		}
		for _, n := range f.inc {
			args = append(args, "--type", n)
		}
		o := run.Buf(ws, env, nil, args...)
		c.Eval(1)
		var got []*descriptorpb.FileDescriptorProto
		if o.Code == 0 {
			pi := &imagev1.Image{}
			if err := proto.Unmarshal(o.Stdout, pi); err != nil {
				c.Violation("cli-disagrees", "build:unreadable", err.Error(), nil)
				continue
			}
			for _, pf := range pi.GetFile() {
				fd := &descriptorpb.FileDescriptorProto{}
				b, _ := proto.Marshal(pf)
				proto.Unmarshal(b, fd)
				fd.ProtoReflect().SetUnknown(nil) // the buf extension of an image file
				got = append(got, fd)
			}
		}
		compare(what, f, got, o.Code != 0, string(o.Stderr))
	}
	// `buf generate --type/--exclude-type` (controller, in place) and per-plugin types/exclude_types (copying)
	for k := 0; k < 2; k++ {
		var f *c12Filter
		switch r.IntN(3) {
		case 0:
			f = mk(nil, []string{c12Pick(r, cat.fieldTypes), c12Pick(r, cat.optExts)}[:1+r.IntN(2)])
		case 1:
			f = mk([]string{c12Pick(r, cat.svcs), c12Pick(r, cat.msgs)}, nil)
		default:
			f = mk([]string{c12Pick(r, cat.pkgs)}, []string{c12Pick(r, cat.nested), c12Pick(r, cat.enums)})
		}
		perPlugin := k == 1
		f = defaults(f, !perPlugin)
		if f == nil {
			continue
		}
		os.RemoveAll(filepath.Join(ws, "gen"))
		var y strings.Builder
		fmt.Fprintf(&y, "version: v2\nplugins:\n  - local: [%q, \"helper\", \"c12plugin\"]\n    out: gen\n    strategy: all\n    include_imports: true\n    include_wkt: true\n", core.SelfExe())
		args := []string{"generate", "--template", "buf.gen.yaml"}
		if perPlugin {
			if len(f.inc) > 0 {
				y.WriteString("    types:\n")
				for _, n := range f.inc {
					y.WriteString("      - " + n + "\n")
				}
			}
			if len(f.exc) > 0 {
				y.WriteString("    exclude_types:\n")
				for _, n := range f.exc {
					y.WriteString("      - " + n + "\n")
				}
			}
		} else {
			for _, n := range f.inc {
				args = append(args, "--type", n)
			}
			for _, n := range f.exc {
				args = append(args, "--exclude-type", n)
			}
		}
		os.WriteFile(filepath.Join(ws, "buf.gen.yaml"), []byte(y.String()), 0o644)
		o := run.Buf(ws, env, nil, args...)
		c.Eval(1)
		what := "generate-flags"
		if perPlugin {
			what = "generate-plugin-types"
		}
		var got []*descriptorpb.FileDescriptorProto
		if o.Code == 0 {
			data, err := os.ReadFile(filepath.Join(ws, "gen", "request.b64"))
			if err != nil {
				c.Count("cli_generate_no_plugin_call", 1)
				continue
			}
			raw, _ := base64.StdEncoding.DecodeString(strings.TrimSpace(string(data)))
			set := &descriptorpb.FileDescriptorSet{}
			if err := proto.Unmarshal(raw, set); err != nil {
				c.Violation("cli-disagrees", what+":unreadable", err.Error(), nil)
				continue
			}
			got = set.GetFile()
		}
		compare(what, f, got, o.Code != 0, string(o.Stderr))
	}
}

func init() {
	// the recording plugin: writes the files of the request it receives
	core.RegisterHelper("c12plugin", func(args []string) int {
		data, err := io.ReadAll(os.Stdin)
		if err != nil {
			return 1
		}
		req := &pluginpb.CodeGeneratorRequest{}
		if err := proto.Unmarshal(data, req); err != nil {
			return 1
		}
		raw, _ := proto.MarshalOptions{Deterministic: true}.Marshal(&descriptorpb.FileDescriptorSet{File: req.GetProtoFile()})
		resp := &pluginpb.CodeGeneratorResponse{
			SupportedFeatures: proto.Uint64(uint64(pluginpb.CodeGeneratorResponse_FEATURE_PROTO3_OPTIONAL) | uint64(pluginpb.CodeGeneratorResponse_FEATURE_SUPPORTS_EDITIONS)),
			MinimumEdition:    proto.Int32(int32(descriptorpb.Edition_EDITION_PROTO2)),
			MaximumEdition:    proto.Int32(int32(descriptorpb.Edition_EDITION_2023)),
			File:              []*pluginpb.CodeGeneratorResponse_File{{Name: proto.String("request.b64"), Content: proto.String(base64.StdEncoding.EncodeToString(raw))}},
		}
		out, _ := proto.Marshal(resp)
		os.Stdout.Write(out)
		return 0
	})
	core.Register(&core.Check{
		ID:    "C12",
		Level: "exploration",
		Rule: "PRNG-generated images (1–3 modules; nested types, maps, oneofs, proto3-optional, groups, services with streaming, proto2/editions extensions incl. message/enum-typed and message-nested ones, " +
			"custom options of scalar/enum/message type with google.protobuf.Any payloads (singular, repeated, nested, map), recursive types, files without any type, public imports relayed through ordinary and type-less files, weak imports, non-targeted modules) " +
			"× per image a fixed list of filters over the names existing in it: 43 designed shapes (exclude-only naming an RPC request/response type, a map value type, a custom option, its type, an extendee, a package, nested/enclosing, service, method, enum, Any payload, imported type, group, map entry; " +
			"include-only of each kind; mixed incl. the documented contradictions) then random subsets (1–4 names per side) × {custom options kept/dropped} × {known extensions kept/dropped} × {copying, in place on a clone} × {allow imported}; " +
			"each application of bufimageutil.FilterImage is judged by a reference closure model on descriptors plus projection, source-info, idempotence, input-preservation and mode-agreement clauses; every 4th image is also driven through `buf build --type`, `buf generate --type/--exclude-type` and buf.gen.yaml types/exclude_types with a recording plugin; " +
			"a case is distinct/non-trivial per (mode, kinds+roles of the named elements, flags, observed effects such as dropped fields/methods/oneofs, namespace-only enclosing messages, dropped files, rewritten or flattened dependencies)",
		Assumptions: []string{
			"filter names are the message/enum/service/method/extension names and the packages of files of the image (pure prefix packages and field/oneof/enum-value names are outside the quantified domain)",
			"the only legal errors are the documented contradictions: an included name that is excluded (itself, its enclosing element or its package), an included method whose request/response is excluded, an included extension whose extendee is excluded, an included imported type without the allow option; an included extension whose own type is excluded may fail or be dropped",
			"idempotence is checked with the include part of the filter (excluded names are absent from the result and absent names are rejected by the API); for exclude-only filters the clause is vacuous and counted as such",
			"minimality is demanded of include filters only: result ⊆ closure ∪ enclosing ∪ option definitions, where known extensions may be followed to the fixpoint; without custom-option retention keeping or dropping option values are both accepted",
			"a message kept only as a namespace may lose its body and its own comments; everything else must equal the original projected onto the surviving elements",
			"google.protobuf.Any type URLs inside option values are not counted as references to excluded elements",
			"trusted: protodesc.NewFiles as the linker, protocompile/bufimage.BuildImage for producing the input image",
		},
		Cases: c12Cases,
		Run:   c12Run,
		Required: []string{"images", "filters_ok", "legal_errors", "filters_exclude-only", "filters_include-only", "filters_mixed", "filters_in_place", "filters_copying",
			"exclude_only_naming_rpc_request_type", "exclude_only_naming_rpc_response_type", "exclude_only_naming_map_value_type", "images_with_typeless_file", "image_feature:dep-file-behind-known-extension:unused-import", "image_feature:dep-file-behind-known-extension:sole-user",
			"idempotence_checked", "mode_pairs_compared", "witness_filters", "comment_locations_compared", "cli_samples_build", "cli_samples_generate-flags", "cli_samples_generate-plugin-types",
			"effect:field-of-excluded-type-dropped", "effect:method-dropped", "effect:namespace-only-enclosing-message", "effect:file-dropped", "effect:public-imports-flattened", "effect:map-field-dropped"},
	})
}
