package checks

import (
	"bufio"
	"context"
	"encoding/json"
	"fmt"
	"os"
	"os/exec"
	"path/filepath"
	"strconv"
	"strings"
	"sync"
	"time"

	"github.com/anishathalye/porcupine"
	"github.com/bufbuild/buf/private/bufpkg/bufmodule"
	"github.com/bufbuild/buf/private/pkg/verifhook"
	"github.com/bufbuild/verifharness/core"
	"golang.org/x/sys/unix"
)

// Concurrent store/load histories on one cache entry (part (d) of C09).

func monoNow() int64 {
	var ts unix.Timespec
	unix.ClockGettime(unix.CLOCK_MONOTONIC, &ts)
	return ts.Nano()
}

type c09Ev struct {
	Client int    `json:"c"`
	Seq    int    `json:"s"`
	Op     string `json:"op"` // put | get
	Phase  string `json:"ph"` // call | ret
	T      int64  `json:"t"`
	Out    string `json:"out"` // ok | err | found | notfound | mismatch | error | found-wrong
}

type c09Client struct {
	c     *core.C
	id    int
	nops  int
	cache string
	tar   bool
	spec  c09Spec
	log   func(c09Ev)
	seq   int // the operation in progress (read by the store.writing hook of a process client)
	// firstPut: the first operation is a store (all clients of a stampede case store into the cold cache at once)
	firstPut bool
}

func (cl *c09Client) run(seed uint64, idx int) {
	ctx := context.Background()
	rnd := core.RandFor(seed, "C09hist", idx, fmt.Sprintf("client%d", cl.id))
	st, err := c09Open(cl.cache, cl.tar, nil)
	if err != nil {
		return
	}
	for i := 0; i < cl.nops; i++ {
		cl.seq = i
		// stampede cases: every client begins by storing into the cold cache
		if (cl.firstPut && i == 0) || rnd.IntN(3) == 0 {
			cl.log(c09Ev{Client: cl.id, Seq: i, Op: "put", Phase: "call", T: monoNow()})
			err := st.store.PutModuleDatas(ctx, []bufmodule.ModuleData{c09Data(ctx, cl.spec)})
			out := "ok"
			if err != nil {
				out = "err"
			}
			cl.log(c09Ev{Client: cl.id, Seq: i, Op: "put", Phase: "ret", T: monoNow(), Out: out})
		} else {
			cl.log(c09Ev{Client: cl.id, Seq: i, Op: "get", Phase: "call", T: monoNow()})
			o := c09ReadWith(cl.c, st.store, cl.spec, fmt.Sprintf("hist case=%d client=%d op=%d", idx, cl.id, i))
			cl.log(c09Ev{Client: cl.id, Seq: i, Op: "get", Phase: "ret", T: monoNow(), Out: o.Kind})
		}
	}
}

func init() {
	core.RegisterHelper("c09client", func(args []string) int {
		// c09client <cache> <tar> <specjson> <clientId> <nops> <seed> <idx> <logfile>
		var s c09Spec
		specData, err := os.ReadFile(args[2])
		if err != nil {
			return 3
		}
		if err := json.Unmarshal(specData, &s); err != nil {
			return 3
		}
		id, _ := strconv.Atoi(args[3])
		nops, _ := strconv.Atoi(args[4])
		seed, _ := strconv.ParseUint(args[5], 10, 64)
		idx, _ := strconv.Atoi(args[6])
		f, err := os.OpenFile(args[7], os.O_CREATE|os.O_WRONLY|os.O_APPEND, 0o644)
		if err != nil {
			return 3
		}
		defer f.Close()
		// the child has no result channel for violations: a wrong-content read is logged as the outcome "found-wrong"
		c := core.NewDetachedC("C09", seed, idx)
		cl := &c09Client{c: c, id: id, nops: nops, cache: args[0], tar: args[1] == "1", spec: s, firstPut: os.Getenv("C09_FIRST_PUT") == "1", log: func(ev c09Ev) {
			data, _ := json.Marshal(ev)
			f.Write(append(data, '\n'))
		}}
		// mutual-exclusion monitor: the moment this process is inside the exclusive write section of the store
		// (exclusive lock held, re-check done) is logged; the section ends when PutModuleDatas returns
		verifhook.Arm("store.writing", verifhook.Action{Func: func(string, int) {
			cl.log(c09Ev{Client: cl.id, Seq: cl.seq, Op: "cs", Phase: "enter", T: monoNow()})
		}})
		// a slow reader: between the digest verification of an entry and the reading of its files
		if us, _ := strconv.Atoi(os.Getenv("C09_SLOW_READER_US")); us > 0 {
			c09SlowReader = time.Duration(us) * time.Microsecond
		}
		cl.run(seed, idx)
		return 0
	})
}

var c09HistModel = porcupine.Model{
	Init: func() any { return false },
	Step: func(state, input, output any) (bool, any) {
		present := state.(bool)
		op := input.(string)
		out := output.(string)
		switch op {
		case "put":
			if out == "ok" {
				return true, true
			}
			return true, present
		default:
			switch out {
			case "found":
				return present, present
			default: // notfound / mismatch / error: "not cached" is always an allowed answer
				return true, present
			}
		}
	},
	DescribeOperation: func(input, output any) string { return fmt.Sprintf("%v->%v", input, output) },
}

func c09HistCases(tier string) int {
	if tier == "thorough" {
		return 160
	}
	return 24
}

func c09Hist(c *core.C, idx int, race bool) {
	mi := idx % 6
	s := c09Spec_(c.Seed, mi)
	tar := idx%4 == 3
	cache := filepath.Join(c.Tmp, fmt.Sprintf("c09hist-%v", race))
	os.RemoveAll(cache)
	defer os.RemoveAll(cache)
	clients := 2 + c.Rand.IntN(5)
	nops := 2 + c.Rand.IntN(4)
	sleepUS := []int{0, 200, 2000, 20000}[c.Rand.IntN(4)]
	stampede := idx%2 == 1
	if stampede {
		c.Count("hist_stampede_cases", 1)
	}
	var events []c09Ev
	if race {
		// goroutine clients in the -race build
		verifhook.Reset()
		if sleepUS > 0 {
			for _, p := range []string{"store.unlocked", "store.writing", "store.files.copied", "os.close.closed"} {
				verifhook.Arm(p, verifhook.Action{Sleep: time.Duration(sleepUS) * time.Microsecond})
			}
		}
		verifhook.SetYieldSeed(c.Seed*1000 + uint64(idx))
		var mu sync.Mutex
		var wg sync.WaitGroup
		for i := 0; i < clients; i++ {
			cl := &c09Client{c: c, id: i, nops: nops, cache: cache, tar: tar, spec: s, firstPut: stampede, log: func(ev c09Ev) {
				mu.Lock()
				events = append(events, ev)
				mu.Unlock()
			}}
			wg.Add(1)
			go func() {
				defer wg.Done()
				cl.run(c.Seed, idx)
			}()
		}
		wg.Wait()
		verifhook.Reset()
	} else {
		specJSON, _ := json.Marshal(s)
		logDir := filepath.Join(c.Tmp, "c09histlogs")
		os.RemoveAll(logDir)
		os.MkdirAll(logDir, 0o755)
		defer os.RemoveAll(logDir)
		var cmds []*exec.Cmd
		tarArg := "0"
		if tar {
			tarArg = "1"
		}
		for i := 0; i < clients; i++ {
			cmd := exec.Command(core.SelfExe(), "helper", "c09client", cache, tarArg, c09SpecFile(c, specJSON), strconv.Itoa(i), strconv.Itoa(nops), strconv.FormatUint(c.Seed, 10), strconv.Itoa(idx), filepath.Join(logDir, fmt.Sprintf("c%d.log", i)))
			cmd.Env = os.Environ()
			if stampede {
				cmd.Env = append(cmd.Env, "C09_FIRST_PUT=1")
			}
			if sleepUS > 0 {
				cmd.Env = append(cmd.Env, fmt.Sprintf("VERIF_SLEEP=store.unlocked:%d,store.writing:%d,store.files.copied:%d,os.close.closed:%d", sleepUS, sleepUS, sleepUS, sleepUS))
				if i%2 == 1 {
					cmd.Env = append(cmd.Env, fmt.Sprintf("C09_SLOW_READER_US=%d", sleepUS))
				}
			}
			if c.Rand.IntN(4) == 0 {
				// this client dies somewhere inside its work
				cmd.Env = append(cmd.Env, fmt.Sprintf("VERIF_KILL=*:%d", 1+c.Rand.IntN(30)))
				c.Count("hist_clients_armed_to_die", 1)
			}
			if err := cmd.Start(); err == nil {
				cmds = append(cmds, cmd)
			}
		}
		for _, cmd := range cmds {
			cmd.Wait()
		}
		files, _ := filepath.Glob(filepath.Join(logDir, "*.log"))
		for _, f := range files {
			fh, err := os.Open(f)
			if err != nil {
				continue
			}
			sc := bufio.NewScanner(fh)
			for sc.Scan() {
				var ev c09Ev
				if json.Unmarshal(sc.Bytes(), &ev) == nil {
					events = append(events, ev)
				}
			}
			fh.Close()
		}
	}
	// assemble operations; an operation without a return stays open to the end of the history
	type opKey struct{ c, s int }
	calls := map[opKey]c09Ev{}
	rets := map[opKey]c09Ev{}
	var maxT int64
	enters := map[opKey]int64{}
	for _, ev := range events {
		k := opKey{ev.Client, ev.Seq}
		if ev.Op == "cs" {
			if _, ok := enters[k]; !ok {
				enters[k] = ev.T
			}
			continue
		}
		if ev.Phase == "call" {
			calls[k] = ev
		} else {
			rets[k] = ev
		}
		if ev.T > maxT {
			maxT = ev.T
		}
	}
	var history []porcupine.Operation
	anyPutOK := false
	open := 0
	for k, call := range calls {
		ret, ok := rets[k]
		if !ok {
			open++
			if call.Op != "put" {
				continue // an unobserved read constrains nothing
			}
			history = append(history, porcupine.Operation{ClientId: k.c, Input: "put", Call: call.T, Output: "ok", Return: maxT + 1})
			continue
		}
		if ret.Out == "found-wrong" {
			c.Violation("served-wrong-content", fmt.Sprintf("hist case=%d client=%d op=%d", idx, k.c, k.s), "a concurrent client read content that does not hash to the key's digest", nil)
		}
		if call.Op == "put" && ret.Out == "ok" {
			anyPutOK = true
		}
		history = append(history, porcupine.Operation{ClientId: k.c, Input: call.Op, Call: call.T, Output: ret.Out, Return: ret.T})
		c.Distinct("hist_outcomes", call.Op+"→"+ret.Out)
	}
	// mutual exclusion of the write section (directory layout; the tar layout builds the entry without a lock
	// and publishes it with one atomic put): the intervals [store.writing, return of PutModuleDatas] of two
	// processes must not overlap — both would be holding the "exclusive" lock of the entry
	if !race && !tar {
		type section struct {
			k        opKey
			from, to int64
		}
		var secs []section
		for k, from := range enters {
			if ret, ok := rets[k]; ok {
				secs = append(secs, section{k, from, ret.T})
			}
		}
		c.Count("exclusive_sections_observed", len(secs))
		for i := range secs {
			for j := i + 1; j < len(secs); j++ {
				a, b := secs[i], secs[j]
				if a.k.c != b.k.c && a.from < b.to && b.from < a.to {
					c.Violation("exclusive-write-section-overlap", fmt.Sprintf("hist sleep=%d", sleepUS),
						fmt.Sprintf("case %d: clients %d and %d were inside the exclusive write section of the same entry at the same time: [%d,%d] and [%d,%d] (monotonic ns relative to the first)", idx, a.k.c, b.k.c, 0, a.to-a.from, b.from-a.from, b.to-a.from), nil)
				}
			}
		}
	}
	c.Eval(len(history))
	c.Count("hist_ops", len(history))
	c.Count("hist_open_ops", open)
	overlaps := 0
	for i := range history {
		for j := i + 1; j < len(history); j++ {
			if history[i].ClientId != history[j].ClientId && history[i].Call < history[j].Return && history[j].Call < history[i].Return {
				overlaps++
			}
		}
	}
	c.Count("hist_overlapping_pairs", overlaps)
	res, _ := porcupine.CheckOperationsVerbose(c09HistModel, history, 60*time.Second)
	switch res {
	case porcupine.Ok:
		c.Count("hist_histories", 1)
	case porcupine.Illegal:
		var lines []string
		for _, op := range history {
			lines = append(lines, fmt.Sprintf("c%d [%d,%d] %v->%v", op.ClientId, op.Call, op.Return, op.Input, op.Output))
		}
		c.Violation("history-illegal", fmt.Sprintf("hist case=%d race=%v", idx, race), "a read found the entry although no store had begun: "+strings.Join(lines, "; "), nil)
	default:
		c.Count("hist_unknown", 1)
	}
	// bounded progress: after everything stopped, a successful store implies the entry is readable and correct
	o := c09Read(c, cache, tar, s, fmt.Sprintf("hist case=%d race=%v phase=quiescent", idx, race))
	if anyPutOK && o.Kind != "found" {
		c.Violation("entry-lost-after-successful-store", fmt.Sprintf("hist case=%d race=%v", idx, race), fmt.Sprintf("a store returned success but the quiescent read is %s (%s)", o.Kind, o.Detail), nil)
	}
	// and a later store always leaves the entry readable and correct
	c09Repair(c, cache, tar, s, fmt.Sprintf("hist case=%d race=%v", idx, race))
	if overlaps > 0 {
		c.Nontrivial(fmt.Sprintf("hist race=%v clients=%d nops=%d sleep=%d tar=%v module=%d", race, clients, nops, sleepUS, tar, mi))
	}
	if idx == 0 {
		var lines []string
		for _, op := range history[:min(8, len(history))] {
			lines = append(lines, fmt.Sprintf("c%d [%d,%d] %v->%v", op.ClientId, op.Call-history[0].Call, op.Return-history[0].Call, op.Input, op.Output))
		}
		c.Sample(map[string]any{"history": lines, "clients": clients, "race_build": race})
	}
}
