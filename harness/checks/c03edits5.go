package checks

import (
	"strings"

	"github.com/bufbuild/verifharness/gen"
)

// Catalogue part 5: language-specific editions features and changes of extension fields.

func addExtraImport(f *gen.File, path string) {
	for _, im := range f.ExtraImports {
		if im.Path == path {
			return
		}
	}
	f.ExtraImports = append(f.ExtraImports, gen.Import{Path: path})
}

func init() {
	get := func(e *c03Env, st c03Site) (*c03Msg, *gen.Field) {
		m := e.New.Msg(st.A)
		return m, m.Field(st.B)
	}
	edStr := func(bytesToo bool) func(f c03Field) bool {
		return func(f c03Field) bool {
			return f.Msg.File.Syntax == "editions" && f.F.Kind == "scalar" && (f.F.Type == "string" || (bytesToo && f.F.Type == "bytes")) && f.F.Label != "repeated"
		}
	}
	c03Reg("field-cpp-string-type-feature", []string{"FIELD_SAME_CPP_STRING_TYPE"},
		fieldSites(func(f c03Field) bool { _, has := hasOpt(f.F.Options, "ctype"); return edStr(true)(f) && !has }),
		func(e *c03Env, st c03Site) []c03Expect {
			m, fl := get(e, st)
			fl.Options = setOpt(fl.Options, "features.(pb.cpp).string_type", "CORD")
			addExtraImport(m.File, "google/protobuf/cpp_features.proto")
			return fieldExp([]string{"FIELD_SAME_CPP_STRING_TYPE"}, m, fl)
		})
	c03Reg("field-java-utf8-validation-feature", []string{"FIELD_SAME_JAVA_UTF8_VALIDATION"},
		fieldSites(func(f c03Field) bool {
			v, has := hasOpt(f.F.Options, "features.utf8_validation")
			return edStr(false)(f) && has && v == "NONE"
		}),
		func(e *c03Env, st c03Site) []c03Expect {
			m, fl := get(e, st)
			fl.Options = setOpt(fl.Options, "features.(pb.java).utf8_validation", "VERIFY")
			addExtraImport(m.File, "google/protobuf/java_features.proto")
			return fieldExp([]string{"FIELD_SAME_JAVA_UTF8_VALIDATION"}, m, fl)
		})
	c03Reg("field-utf8-validation-clear", []string{"FIELD_SAME_UTF8_VALIDATION"},
		fieldSites(func(f c03Field) bool {
			v, has := hasOpt(f.F.Options, "features.utf8_validation")
			return edStr(false)(f) && has && v == "NONE"
		}),
		func(e *c03Env, st c03Site) []c03Expect {
			m, fl := get(e, st)
			if v, ok := hasOpt(m.File.Options, "features.utf8_validation"); ok && v == "NONE" {
				return nil
			}
			fl.Options = delOpt(fl.Options, "features.utf8_validation")
			return fieldExp([]string{"FIELD_SAME_UTF8_VALIDATION"}, m, fl)
		})

	// extension fields are paired by (extendee, number): a second code path of every field rule
	extSites := func(pred func(ex *c03Ext) bool) func(x *c03Idx) []c03Site {
		return func(x *c03Idx) []c03Site {
			var out []c03Site
			for _, ex := range x.Exts {
				if !isOptionExtension(ex) && !isWKTCopy(ex.File) && pred(ex) {
					st := c03Site{Key: "extension:" + ex.Full, Kind: "extension", File: ex.File.Path, A: ex.Full}
					if ex.Parent != nil {
						st.Kind, st.Depth = "nested-extension", ex.Parent.Depth+1
					}
					out = append(out, st)
				}
			}
			return out
		}
	}
	extExp := func(rules []string, ex *c03Ext) []c03Expect {
		var exp []c03Expect
		for _, r := range rules {
			exp = append(exp, c03Expect{Rule: r, AnyOf: []string{ex.F.Name, q(ex.F.Number)}, File: ex.File.Path, Spans: []string{"extension:" + ex.Full}})
		}
		return exp
	}
	c03Reg("extension-type-scalar-to-scalar", allTypeRules, extSites(func(ex *c03Ext) bool { return ex.F.Kind == "scalar" }),
		func(e *c03Env, st c03Site) []c03Expect {
			ex := findExt(e.New, st.A)
			from := ex.F.Type
			to := otherScalar(e, from)
			retype(ex.F, "scalar", to)
			e.Tag = "extension:" + from + "->" + to
			return extExp(typeRulesScalar(from, to), ex)
		})
	c03Reg("extension-singular-to-repeated", allCardRules, extSites(func(ex *c03Ext) bool { return ex.F.Label != "repeated" && ex.F.Kind == "scalar" }),
		func(e *c03Env, st c03Site) []c03Expect {
			ex := findExt(e.New, st.A)
			ex.F.Label, ex.F.Default = "repeated", ""
			return extExp(allCardRules, ex)
		})
	_ = strings.TrimSpace
}
