package checks

import (
	"bytes"
	"fmt"
	"io/fs"
	"math/rand/v2"
	"os"
	"path"
	"path/filepath"
	"sort"
	"strings"
	"sync"

	"github.com/bufbuild/protocompile/ast"
	"github.com/bufbuild/verifharness/core"
	"github.com/bufbuild/verifharness/gen"
	"github.com/bufbuild/verifharness/run"
)

// C07 — formatting preserves meaning and comments and is idempotent.
//
// Workload: a base text (a canonically rendered generated file, or one of the .proto files of the
// repository) plus a list of lexical edits (comments with unique markers in token gaps, whitespace
// layouts, empty statements, respelled string / numeric literals, message-literal punctuation
// variants), or a statement-level permutation of the header. Monitor: bufformat.FormatFileNode on the
// parsed AST (what `buf format` calls), a sample through the CLI. Oracle: c07Evaluate (c07oracle.go).
// A failing case is minimised (edits dropped while the same clause keeps failing, then declarations
// pruned), and reported under key = the feature labels of the edits that remain.

// c07KnownFinding: a defect that is not repaired. Its features are removed from the random stream, its
// pinned witness is evaluated on every run and reported under (Class, Key).
type c07KnownFinding struct {
	ID      string
	Disable []string // feature labels (trailing * = prefix)
	Class   string
	Key     string
	Path    string
	Witness string
	Deps    map[string]string
}

var c07Known = []c07KnownFinding{
	{
		ID: "C07-F1", Disable: []string{"cmt-on-empty-stmt@*", "empty-captures-comment@*"},
		Class: "comment-lost", Key: "comment-attached-to-empty-statement", Path: "f1.proto",
		Witness: `syntax = "proto3";

message M {
  int32 a = 1;; // zq1qz
}
`,
	},
	{
		ID: "C07-F2", Disable: []string{"cmt-before-msglit-sep@*"},
		Class: "comment-lost", Key: "comment-on-message-literal-separator", Path: "f2.proto",
		Witness: `syntax = "proto3";

import "google/protobuf/descriptor.proto";

message Inner {
  string s = 1;
  int32 n = 2;
}

extend google.protobuf.FileOptions {
  Inner file_msg = 51001;
}

option (file_msg) = {
  s: "x" /* zq1qz */,
  n: 1
};
`,
	},
	{
		ID: "C07-F3", Disable: []string{"cmt@ArrayLiteral:}|]*", "cmt@ArrayLiteral:>|]*"},
		Class: "not-idempotent", Key: "comment-after-last-compact-message-in-array", Path: "f3.proto",
		Witness: `syntax = "proto3";

import "google/protobuf/descriptor.proto";

message Inner {
  repeated Inner kids = 1;
}

extend google.protobuf.FileOptions {
  Inner file_msg = 51001;
}

option (file_msg) = {
  kids: [
    {},
    {} /* zq1qz */
  ]
};
`,
	},
	{
		ID: "C07-F4", Disable: []string{"cmt-below-header-stmt@*"},
		Class: "comment-moved", Key: "trailing-comment-below-header-statement", Path: "f4.proto",
		Witness: `syntax = "proto3";

option java_package = "com.example";
// zq1qz

option java_multiple_files = true;

message M {}
`,
	},
	{
		ID: "C07-F5", Disable: []string{"cmt-blank-after-open-brace@*"},
		Class: "comment-moved", Key: "detached-comment-after-open-brace", Path: "f5.proto",
		Witness: `syntax = "proto3";

enum E {

  // zq1qz

  // Unspecified value.
  E_UNSPECIFIED = 0;
}
`,
	},
}

// ---- corpus ---------------------------------------------------------------------------------------------

type c07CorpusT struct {
	root  string
	paths []string // repo-relative, sorted
}

var (
	c07CorpusOnce sync.Once
	c07Corpus     c07CorpusT
)

func c07RepoDir() string {
	if d := os.Getenv("VERIF_REPO"); d != "" {
		return d
	}
	return "/repo"
}

func c07LoadCorpus() *c07CorpusT {
	c07CorpusOnce.Do(func() {
		root := c07RepoDir()
		c07Corpus.root = root
		filepath.WalkDir(root, func(p string, d fs.DirEntry, err error) error {
			if err != nil {
				return nil
			}
			if d.IsDir() && (d.Name() == ".git" || d.Name() == "node_modules" || d.Name() == ".tmp") {
				return filepath.SkipDir
			}
			if !d.IsDir() && strings.HasSuffix(p, ".proto") {
				rel, _ := filepath.Rel(root, p)
				c07Corpus.paths = append(c07Corpus.paths, filepath.ToSlash(rel))
			}
			return nil
		})
		sort.Strings(c07Corpus.paths)
	})
	return &c07Corpus
}

var c07ImportCache = map[string][]string{}

func c07ImportsOf(p string, text []byte) []string {
	c07Mu.Lock()
	v, ok := c07ImportCache[p]
	c07Mu.Unlock()
	if ok {
		return v
	}
	var out []string
	if fn, err := c07Parse(p, text); err == nil {
		for _, d := range fn.Decls {
			if im, ok := d.(*ast.ImportNode); ok {
				out = append(out, im.Name.AsString())
			}
		}
	}
	c07Mu.Lock()
	c07ImportCache[p] = out
	c07Mu.Unlock()
	return out
}

// c07CorpusDeps resolves the imports of a corpus file against the corpus: an import "a/b.proto" of a
// file at d1/d2/f.proto resolves to the corpus file ending in /a/b.proto that shares the longest
// directory prefix with the importer. Unresolvable imports are left to the WKT fallback of ref.Compile.
func c07CorpusDeps(cp *c07CorpusT, rel string, text []byte) map[string]string {
	deps := map[string]string{}
	var resolve func(from string, imports []string, depth int)
	resolve = func(from string, imports []string, depth int) {
		if depth > 8 {
			return
		}
		for _, imp := range imports {
			if _, ok := deps[imp]; ok {
				continue
			}
			best, bestLen := "", -1
			for _, cand := range cp.paths {
				if cand == imp || strings.HasSuffix(cand, "/"+imp) {
					k := 0
					for k < len(cand) && k < len(from) && cand[k] == from[k] {
						k++
					}
					if k > bestLen {
						best, bestLen = cand, k
					}
				}
			}
			if best == "" {
				continue
			}
			data, err := os.ReadFile(filepath.Join(cp.root, best))
			if err != nil {
				continue
			}
			deps[imp] = string(data)
			resolve(best, c07ImportsOf(best, data), depth+1)
		}
	}
	resolve(rel, c07ImportsOf(rel, text), 0)
	return deps
}

// ---- case plan -------------------------------------------------------------------------------------------

func c07GenCases(tier string) int {
	if tier == "thorough" {
		return 30000
	}
	return 2000
}

func c07CorpusVariants(tier string) int {
	if tier == "thorough" {
		return 40
	}
	return 3
}

func c07Cases(tier string) int {
	return len(c07Known) + c07GenCases(tier) + len(c07LoadCorpus().paths)*c07CorpusVariants(tier)
}

type c07Density struct {
	name                       string
	comment, space, rewrite    float64
	msglit                     float64
	emptyMax, commentsExactMin int
	commentsExactMax           int
}

var c07Densities = []c07Density{
	{name: "sparse", commentsExactMin: 1, commentsExactMax: 3},
	{name: "sparse+space", space: 0.10, commentsExactMin: 1, commentsExactMax: 2, emptyMax: 1},
	{name: "medium", comment: 0.02, space: 0.15, rewrite: 0.3, msglit: 0.3, emptyMax: 2},
	{name: "dense", comment: 0.08, space: 0.5, rewrite: 0.6, msglit: 0.5, emptyMax: 4},
	{name: "respell", rewrite: 0.8, msglit: 0.8, space: 0.05},
	{name: "empty-statements", emptyMax: 6, commentsExactMin: 0, commentsExactMax: 1},
}

// c07Saturated is used by the thorough tier only.
var c07Saturated = c07Density{name: "saturated", comment: 0.25, space: 0.6, rewrite: 0.9, msglit: 0.9, emptyMax: 6}

// c07BuildEdits draws the lexical edits of one case.
func c07BuildEdits(r *rand.Rand, b *c07Base, d c07Density) []c07Edit {
	var edits []c07Edit
	marker := 0
	nextMarker := func() string {
		marker++
		return fmt.Sprintf("zq%dqz", marker)
	}
	group := 0
	// empty statements first: they are insertions at the start of a gap and must precede a
	// replacement of the same gap
	usedGap := map[int]bool{}
	if d.emptyMax > 0 {
		cands := b.emptyStmtGaps()
		n := r.IntN(d.emptyMax + 1)
		for k := 0; k < n && len(cands) > 0; k++ {
			g := cands[r.IntN(len(cands))]
			if usedGap[g] {
				continue
			}
			if e, ok := c07EmptyStmtEdit(r, b, g); ok {
				usedGap[g] = true
				edits = append(edits, e)
			}
		}
	}
	emptyGaps := map[int]bool{}
	for g := range usedGap {
		emptyGaps[g] = true
	}
	gapEdit := map[int]bool{}
	style := func() string { return c07CommentStyles[r.IntN(len(c07CommentStyles))] }
	if d.commentsExactMax > 0 {
		n := d.commentsExactMin + r.IntN(d.commentsExactMax-d.commentsExactMin+1)
		for k := 0; k < n; k++ {
			for try := 0; try < 6; try++ {
				g := r.IntN(len(b.Toks))
				if gapEdit[g] {
					continue
				}
				if e, ok := c07CommentEdit(r, b, g, nextMarker(), style()); ok {
					if emptyGaps[g] {
						e.Feature = "cmt-on-empty-stmt@" + strings.SplitN(e.Feature, "@", 2)[1]
						if c07FeatureDisabled(e.Feature) {
							continue
						}
					}
					gapEdit[g] = true
					edits = append(edits, e)
					break
				}
			}
		}
	}
	for g := range b.Toks {
		if gapEdit[g] {
			continue
		}
		u := r.Float64()
		switch {
		case u < d.comment:
			if e, ok := c07CommentEdit(r, b, g, nextMarker(), style()); ok {
				if emptyGaps[g] {
					e.Feature = "cmt-on-empty-stmt@" + strings.SplitN(e.Feature, "@", 2)[1]
					if c07FeatureDisabled(e.Feature) {
						continue
					}
				}
				gapEdit[g] = true
				edits = append(edits, e)
			}
		case u < d.comment+d.space:
			if e, ok := c07SpaceEdit(r, b, g); ok {
				gapEdit[g] = true
				edits = append(edits, e)
			}
		}
	}
	if d.rewrite > 0 {
		for i := range b.Toks {
			if r.Float64() < d.rewrite {
				if e, ok := c07RewriteEdit(r, b, i); ok {
					edits = append(edits, e)
				}
			}
		}
	}
	if d.msglit > 0 {
		commented := map[int]bool{} // start offsets of the gaps that carry a comment or an empty statement
		for g := range gapEdit {
			lo, _ := b.gapBounds(g)
			commented[lo] = true
		}
		for g := range emptyGaps {
			lo, _ := b.gapBounds(g)
			commented[lo] = true
		}
		for _, e := range c07MessageLiteralEdits(r, b, d.msglit, &group) {
			if e.Del == 0 && commented[e.Pos] {
				continue // an inserted separator would capture the comment of that gap (another feature family)
			}
			edits = append(edits, e)
		}
	}
	return edits
}

// ---- one evaluated input ---------------------------------------------------------------------------------

type c07Input struct {
	Origin   string // "gen" | "corpus:<path>" | "known:<id>"
	Path     string
	Base     *c07Base
	Edits    []c07Edit
	BaseFeat []string // statement-level features baked into the base
	Deps     map[string]string
	Density  string
}

var c07TextualClasses = map[string]bool{"format-panic": true, "format-error": true, "output-unparseable": true, "not-idempotent": true, "comment-lost": true, "comment-duplicated": true}

func c07ConstructVector(fn *ast.FileNode) string {
	seen := map[string]bool{}
	_ = ast.Walk(fn, &ast.SimpleVisitor{DoVisitNode: func(n ast.Node) error {
		switch v := n.(type) {
		case *ast.SyntaxNode:
			seen["syntax="+v.Syntax.AsString()] = true
		case *ast.EditionNode:
			seen["edition"] = true
		case *ast.GroupNode:
			seen["group"] = true
		case *ast.MapFieldNode:
			seen["map"] = true
		case *ast.OneofNode:
			seen["oneof"] = true
		case *ast.ExtendNode:
			seen["extend"] = true
		case *ast.ServiceNode:
			seen["service"] = true
		case *ast.RPCNode:
			if v.OpenBrace != nil {
				seen["rpc-body"] = true
			}
		case *ast.MessageLiteralNode:
			seen["msglit"] = true
			if v.Open.Rune == '<' {
				seen["msglit<>"] = true
			}
		case *ast.ArrayLiteralNode:
			seen["array"] = true
		case *ast.CompactOptionsNode:
			if len(v.Options) > 1 {
				seen["compact-multi"] = true
			} else {
				seen["compact"] = true
			}
		case *ast.CompoundStringLiteralNode:
			seen["str-concat"] = true
		case *ast.ReservedNode:
			seen["reserved"] = true
		case *ast.ExtensionRangeNode:
			seen["ext-range"] = true
		case *ast.EmptyDeclNode:
			seen["empty-stmt"] = true
		case *ast.ImportNode:
			switch {
			case v.Public != nil:
				seen["import-public"] = true
			case v.Weak != nil:
				seen["import-weak"] = true
			default:
				seen["import"] = true
			}
		case *ast.OptionNode:
			if v.Keyword != nil {
				seen["option-stmt"] = true
			}
		case *ast.NegativeIntLiteralNode, *ast.SignedFloatLiteralNode:
			seen["signed"] = true
		case *ast.SpecialFloatLiteralNode:
			seen["inf-nan"] = true
		case *ast.EnumNode:
			seen["enum"] = true
		case *ast.MessageNode:
			seen["message"] = true
		}
		return nil
	}})
	var ks []string
	for k := range seen {
		ks = append(ks, k)
	}
	sort.Strings(ks)
	return strings.Join(ks, ",")
}

func c07Clip(s string, n int) string {
	if len(s) > n {
		return s[:n] + "…"
	}
	return s
}

// c07PruneDecls removes declarations while the failure persists; returns the reduced text.
func c07PruneDecls(p string, x []byte, stillFails func([]byte) bool) []byte {
	budget := c07PruneBudget
	for progress := true; progress && budget > 0; {
		progress = false
		fn, err := c07Parse(p, x)
		if err != nil {
			return x
		}
		type rng struct{ lo, hi int }
		var cands []rng
		add := func(n ast.Node) {
			info := fn.NodeInfo(n)
			lo, hi := info.Start().Offset, info.End().Offset+1
			if lc := info.LeadingComments(); lc.Len() > 0 {
				lo = lc.Index(0).Start().Offset
			}
			if tc := info.TrailingComments(); tc.Len() > 0 {
				last := tc.Index(tc.Len() - 1)
				hi = last.Start().Offset + len(last.RawText())
			}
			if lo < hi && hi <= len(x) {
				cands = append(cands, rng{lo, hi})
			}
		}
		_ = ast.Walk(fn, &ast.SimpleVisitor{DoVisitNode: func(n ast.Node) error {
			switch v := n.(type) {
			case *ast.FileNode:
				for _, d := range v.Decls {
					add(d)
				}
			case *ast.MessageNode:
				for _, d := range v.Decls {
					add(d)
				}
			case *ast.GroupNode:
				for _, d := range v.Decls {
					add(d)
				}
			case *ast.EnumNode:
				for _, d := range v.Decls {
					add(d)
				}
			case *ast.ServiceNode:
				for _, d := range v.Decls {
					add(d)
				}
			case *ast.OneofNode:
				for _, d := range v.Decls {
					add(d)
				}
			case *ast.ExtendNode:
				for _, d := range v.Decls {
					add(d)
				}
			case *ast.RPCNode:
				for _, d := range v.Decls {
					add(d)
				}
			case *ast.CompactOptionsNode:
				if len(v.Options) == 1 {
					add(v)
				}
			}
			return nil
		}})
		// larger ranges first
		sort.SliceStable(cands, func(i, j int) bool { return cands[i].hi-cands[i].lo > cands[j].hi-cands[j].lo })
		for _, c := range cands {
			if budget <= 0 {
				break
			}
			budget--
			cand := append(append([]byte{}, x[:c.lo]...), x[c.hi:]...)
			if _, err := c07Parse(p, cand); err != nil {
				continue
			}
			if stillFails(cand) {
				x = cand
				progress = true
				break // offsets changed: re-parse
			}
		}
	}
	return x
}

var c07Minimised = map[string]int{}

var c07MinimiseCap = 40

var c07PruneBudget = 400

// c07OnViolation: development hook (survey helper) observing every reported violation.
var c07OnViolation func(class, key, msg string)

var c07Mu sync.Mutex

func c07Report(c *core.C, class, key, msg string, detail map[string]any) {
	if c07OnViolation != nil {
		c07OnViolation(class, key, msg)
	}
	c.Violation(class, key, msg, detail)
}

// c07RunInput evaluates one input and reports.
func c07RunInput(c *core.C, in *c07Input) *c07Outcome {
	x := c07Apply(in.Base.Text, in.Edits)
	markers := c07Markers(in.Edits)
	o := c07Evaluate(in.Path, x, in.Deps, c07Opts{Markers: markers})
	if !o.Parsed {
		c.Count("inputs_unparseable_after_edit", 1)
		return o
	}
	c.Eval(o.Evals)
	c.Count("inputs", 1)
	c.Count("comments_checked", o.Comments)
	c.Count("markers_checked", len(markers))
	c.Count("attributed_comments_checked", o.Attributed)
	c.Count("attributed_comment_role_changes", o.RoleChanges)
	if o.Compiled {
		c.Count("inputs_compiled", 1)
	}
	for _, e := range in.Edits {
		f := e.Feature
		c.Distinct("features", f)
		if e.GapClass != "" {
			c.Distinct("gap_classes", e.GapClass)
			c.Count("comments_inserted", 1)
		}
	}
	for _, f := range in.BaseFeat {
		c.Distinct("features", f)
	}
	if xn, err := c07Parse(in.Path, x); err == nil {
		vec := c07ConstructVector(xn)
		c.Distinct("construct_vectors", vec)
		c.Nontrivial(in.Density + "|" + vec)
	}
	if len(o.Fails) == 0 {
		return o
	}
	// one report per failing clause, minimised
	done := map[string]bool{}
	for _, f := range o.Fails {
		if done[f.Class] {
			continue
		}
		done[f.Class] = true
		class := f.Class
		textual := c07TextualClasses[class]
		fails := func(x []byte, markers []string) bool {
			r := c07Evaluate(in.Path, x, in.Deps, c07Opts{Markers: markers, SkipCompile: textual})
			return r.Parsed && r.has(class)
		}
		edits := in.Edits
		minX := x
		msg := f.Msg
		c07Mu.Lock()
		doMin := c07Minimised[class] < c07MinimiseCap
		c07Minimised[class]++
		c07Mu.Unlock()
		if doMin {
			edits = c07Minimise(in.Edits, func(es []c07Edit) bool {
				return fails(c07Apply(in.Base.Text, es), c07Markers(es))
			})
			minX = c07Apply(in.Base.Text, edits)
			ms := c07Markers(edits)
			minX = c07PruneDecls(in.Path, minX, func(t []byte) bool { return fails(t, ms) })
			r := c07Evaluate(in.Path, minX, in.Deps, c07Opts{Markers: ms, SkipCompile: textual})
			for _, g := range r.Fails {
				if g.Class == class {
					msg = g.Msg
				}
			}
			o2 := r.Out1
			key := c07Features(edits)
			if len(in.BaseFeat) > 0 {
				if key != "" {
					key += " + "
				}
				key += strings.Join(in.BaseFeat, " + ")
			}
			if key == "" {
				key = "unedited:" + strings.TrimPrefix(in.Origin, "corpus:")
			}
			detail := map[string]any{"origin": in.Origin, "path": in.Path, "input": string(minX), "formatted": string(o2), "density": in.Density}
			if len(in.Deps) > 0 && !textual {
				detail["deps"] = in.Deps
			}
			c07Report(c, class, key, fmt.Sprintf("%s\n--- minimal input (%s, %s) ---\n%s\n--- formatted ---\n%s", msg, in.Origin, in.Path, c07Clip(string(minX), 1200), c07Clip(string(o2), 1200)), detail)
		} else {
			key := c07Features(edits)
			c.Count("violations_not_minimised", 1)
			c07Report(c, class, "unminimised:"+c07Clip(key, 80), msg, nil)
		}
	}
	return o
}

// ---- drivers -----------------------------------------------------------------------------------------------

func c07RunGen(c *core.C, idx int) {
	r := c.Rand
	cfg := gen.DefaultConfig()
	cfg.Modules = 1
	cfg.MinFiles, cfg.MaxFiles = 2, 4
	cfg.Groups = true
	cfg.Streaming = true
	cfg.Rich = r.IntN(3) == 0
	cfg.MaxDepth = 1 + r.IntN(3)
	if c.Thorough() {
		// larger bounds, not only more cases
		cfg.MaxFiles = 5
		cfg.Rich = r.IntN(2) == 0
	}
	s := gen.Generate(r, cfg)
	c07Enrich(r, s)
	rd := s.Render()
	sources := map[string]string{c07OptsPath: c07OptsProto}
	for _, m := range s.Modules {
		for p, t := range rd.Files[m.Dir] {
			sources[p] = t
		}
	}
	files := s.AllFiles()
	sort.Slice(files, func(i, j int) bool { return files[i].Path < files[j].Path })
	cliSample := idx%40 == 0 && !c07SurveyMode
	cliFiles := map[string]string{}
	cliWant := map[string][]byte{}
	idempotentAll := true
	for fi, f := range files {
		text := sources[f.Path]
		var baseFeat []string
		densities := c07Densities
		if c.Thorough() {
			densities = append(append([]c07Density{}, c07Densities...), c07Saturated)
		}
		d := densities[(idx+fi)%len(densities)]
		if r.IntN(7) == 0 {
			// statement-level permutation of the header, no lexical edits
			text, baseFeat = c07ShuffleHeader(r, text)
			d = c07Density{name: "header-permutation"}
		}
		b, err := c07Tokenize(f.Path, []byte(text))
		if err != nil {
			c.Violation("harness-generated-file-unparseable", f.Path, fmt.Sprintf("the canonical rendering does not parse: %v\n%s", err, c07Clip(text, 800)), nil)
			continue
		}
		deps := map[string]string{}
		for p, t := range sources {
			if p != f.Path {
				deps[p] = t
			}
		}
		var edits []c07Edit
		var in *c07Input
		for try := 0; try < 4; try++ {
			edits = c07BuildEdits(r, b, d)
			in = &c07Input{Origin: "gen", Path: f.Path, Base: b, Edits: edits, BaseFeat: baseFeat, Deps: deps, Density: d.name}
			if _, err := c07Parse(f.Path, c07Apply(b.Text, edits)); err == nil {
				break
			}
			c.Count("edit_sets_rejected_unparseable", 1)
			in = nil
		}
		if in == nil {
			continue
		}
		o := c07RunInput(c, in)
		c.Count("gen_files", 1)
		c.Distinct("densities", d.name)
		if o.Parsed && len(o.Fails) == 0 {
			cliFiles[f.Path] = string(c07Apply(b.Text, edits))
			cliWant[f.Path] = o.Out1
		} else {
			idempotentAll = false
		}
		if idx < 3 && fi == 0 {
			c.Sample(map[string]any{"origin": "gen", "path": f.Path, "density": d.name, "edits": len(edits), "features": c07Clip(c07Features(edits), 300), "input_head": c07Clip(string(c07Apply(b.Text, edits)), 400)})
		}
	}
	if cliSample && len(cliFiles) > 0 && idempotentAll {
		c07CLISample(c, cliFiles, cliWant)
	}
}

// c07CLISample: `buf format -o` must write exactly what FormatFileNode produced, and
// `buf format --exit-code -d` on that output must report no difference.
func c07CLISample(c *core.C, files map[string]string, want map[string][]byte) {
	dir := filepath.Join(c.Tmp, "c07cli")
	os.RemoveAll(dir)
	defer os.RemoveAll(dir)
	in, out := filepath.Join(dir, "in"), filepath.Join(dir, "out")
	if err := run.WriteTree(in, files); err != nil {
		c.Note("cli sample: %v", err)
		return
	}
	env := run.BufEnv(filepath.Join(dir, "home"), nil)
	o := run.Buf(in, env, nil, "format", "-o", out)
	c.Eval(1)
	c.Count("cli_format_runs", 1)
	if o.Code != 0 {
		c.Violation("cli-format-failed", "buf format -o", fmt.Sprintf("buf format -o failed (exit %d) on files FormatFileNode accepts: %s", o.Code, c07Clip(string(o.Stderr), 600)), nil)
		return
	}
	for p, w := range want {
		got, err := os.ReadFile(filepath.Join(out, p))
		if err != nil {
			c.Violation("cli-format-differs", "missing:"+p, fmt.Sprintf("buf format -o did not write %s: %v", p, err), nil)
			continue
		}
		if !bytes.Equal(got, w) {
			c.Violation("cli-format-differs", "content", fmt.Sprintf("buf format -o wrote something else than FormatFileNode for %s: %s", p, c07FirstDiff(w, got)), nil)
		}
		c.Count("cli_files_compared", 1)
	}
	o = run.Buf(out, env, nil, "format", "-d", "--exit-code")
	c.Eval(1)
	if o.Code != 0 || len(bytes.TrimSpace(o.Stdout)) != 0 {
		c.Violation("not-idempotent", "cli --exit-code", fmt.Sprintf("`buf format -d --exit-code` on formatted output: exit %d, diff:\n%s%s", o.Code, c07Clip(string(o.Stdout), 800), c07Clip(string(o.Stderr), 300)), nil)
	}
	// and on the unformatted input it must signal a difference exactly when the text differs
	differs := false
	for p, w := range want {
		if files[p] != string(w) {
			differs = true
		}
	}
	o = run.Buf(in, env, nil, "format", "--exit-code")
	c.Eval(1)
	if differs != (o.Code == 100) || (!differs && o.Code != 0) {
		c.Violation("cli-exit-code", "buf format --exit-code", fmt.Sprintf("inputs differ from formatted output = %v but exit code = %d; stderr=%s", differs, o.Code, c07Clip(string(o.Stderr), 300)), nil)
	}
}

func c07RunCorpus(c *core.C, k int) {
	cp := c07LoadCorpus()
	n := len(cp.paths)
	if n == 0 {
		c.Note("corpus empty under %s", cp.root)
		return
	}
	fileIdx, variant := k%n, k/n
	rel := cp.paths[fileIdx]
	data, err := os.ReadFile(filepath.Join(cp.root, rel))
	if err != nil {
		return
	}
	b, err := c07Tokenize(rel, data)
	if err != nil {
		c.Count("corpus_files_unparseable", 1) // deliberately broken test data: outside the domain
		return
	}
	// the variant decides the density; random choices come from a stream per (file, variant)
	r := core.RandFor(c.Seed, "C07", variant, "corpus/"+rel)
	var d c07Density
	switch {
	case variant == 0:
		d = c07Density{name: "unedited"}
	case variant%8 == 5:
		d = c07Densities[2]
	case variant%8 == 6:
		d = c07Densities[5]
	case variant%8 == 7:
		d = c07Densities[4]
	case variant%16 == 12:
		d = c07Densities[3]
	case variant%16 == 4:
		d = c07Saturated
	default:
		d = c07Densities[variant%2]
	}
	deps := c07CorpusDeps(cp, rel, data)
	var in *c07Input
	for try := 0; try < 4; try++ {
		edits := c07BuildEdits(r, b, d)
		in = &c07Input{Origin: "corpus:" + rel, Path: rel, Base: b, Edits: edits, Deps: deps, Density: "corpus-" + d.name}
		if _, err := c07Parse(rel, c07Apply(b.Text, edits)); err == nil {
			break
		}
		c.Count("edit_sets_rejected_unparseable", 1)
		in = nil
	}
	if in == nil {
		return
	}
	c07RunInput(c, in)
	c.Count("corpus_inputs", 1)
	c.Distinct("corpus_files", rel)
	c.Distinct("densities", "corpus-"+d.name)
}

func c07RunKnown(c *core.C, k c07KnownFinding) {
	o := c07Evaluate(k.Path, []byte(k.Witness), k.Deps, c07Opts{Markers: c07MarkersIn(k.Witness)})
	c.Eval(o.Evals)
	c.Count("known_witnesses_replayed", 1)
	if !o.Parsed {
		c.Violation("harness-known-witness-unparseable", k.ID, "the pinned witness of "+k.ID+" does not parse", nil)
		return
	}
	hit := false
	for _, f := range o.Fails {
		if f.Class == k.Class {
			hit = true
			c.Violation(k.Class, k.Key, fmt.Sprintf("[pinned witness of %s] %s\n--- input ---\n%s\n--- formatted ---\n%s", k.ID, f.Msg, k.Witness, c07Clip(string(o.Out1), 800)), nil)
		} else {
			c.Violation(f.Class, "known-witness:"+k.ID, fmt.Sprintf("[pinned witness of %s fails another clause] %s", k.ID, f.Msg), nil)
		}
	}
	if !hit {
		c.Note("known finding %s no longer reproduces on its pinned witness: re-enable its features %v", k.ID, k.Disable)
		c.Count("known_findings_not_reproduced", 1)
	}
}

func c07MarkersIn(text string) []string {
	var out []string
	seen := map[string]bool{}
	for i := 0; i+2 < len(text); i++ {
		if text[i] == 'z' && text[i+1] == 'q' {
			j := i + 2
			for j < len(text) && text[j] >= '0' && text[j] <= '9' {
				j++
			}
			if j > i+2 && j+1 < len(text) && text[j] == 'q' && text[j+1] == 'z' {
				m := text[i : j+2]
				if !seen[m] {
					seen[m] = true
					out = append(out, m)
				}
			}
		}
	}
	return out
}

func c07Run(c *core.C, idx int) {
	if idx < len(c07Known) {
		c07RunKnown(c, c07Known[idx])
		return
	}
	idx -= len(c07Known)
	if g := c07GenCases(c.Tier); idx < g {
		c07RunGen(c, idx)
		return
	} else {
		c07RunCorpus(c, idx-g)
	}
}

func init() {
	core.Register(&core.Check{
		ID:    "C07",
		Level: "exploration",
		Rule: "input = base text + lexical edits. Bases: (a) canonical renderings of PRNG-generated multi-file schemas (proto2/proto3/editions; groups, maps, oneofs, extensions, services, " +
			"message-literal/array/repeated custom options, >12 file options), (b) every .proto file of the repository. Edits, drawn per case from the seeded stream at six densities: comments carrying unique markers " +
			"(11 styles × 16 layouts) in token gaps, whitespace layouts (none/blank/newline/empty line/CRLF), empty statements, respelled string literals (escapes, quotes, concatenation) and numeric literals (hex/octal/exponent), " +
			"message-literal punctuation (<>/{}; ','/';'/no separator; optional ':'), header statement permutation/duplication/relocation. Every input that parses is formatted with bufformat.FormatFileNode and judged by the oracle " +
			"(parses; idempotent; compiles to the same canonical descriptor; compiler-attributed comments equal per declaration; every comment token kept; every marker exactly once); 1/40 of the generated cases also go through `buf format -o/-d/--exit-code`. " +
			"A case is distinct/non-trivial per (edit density, construct vector of the input = set of AST construct kinds present); gap classes = (enclosing AST node, token kind before, token kind after, parent node) are measured separately",
		Assumptions: []string{
			"the reference compiler is protocompile driven directly (harness/ref), the same library buf builds images with; it defines 'compiles to' and the attribution of comments to declarations",
			"comment identity is the comment text with delimiters and layout removed (the formatter may re-indent, turn // into /* */ and join the lines of a block comment printed in-line)",
			"descriptor equality is judged on a canonical dump: source_code_info dropped, dependency lists compared as sets of names, options decoded with the extensions of the compiled files",
			"inputs that do not parse after an edit are outside the domain and only counted (inputs_unparseable_after_edit / edit_sets_rejected_unparseable)",
			"corpus files are compiled with imports resolved inside the repository by longest common directory prefix; files whose imports cannot be resolved only get the textual clauses",
		},
		Cases:    c07Cases,
		Run:      c07Run,
		Required: []string{"inputs", "inputs_compiled", "markers_checked", "comments_checked", "attributed_comments_checked", "gen_files", "corpus_inputs", "cli_files_compared", "gap_classes"},
		WatchdogSec: map[string]int{
			"quick": 900, "thorough": 3 * 3600,
		},
	})
	core.RegisterHelper("c07probe", c07ProbeHelper)
	core.RegisterHelper("c07survey", c07SurveyHelper)
}

// c07ProbeHelper: development aid — `verif helper c07probe <file.proto> [importpath=file …]` applies the oracle to one file.
func c07ProbeHelper(args []string) int {
	if len(args) < 1 {
		fmt.Println("usage: c07probe <file> [import=path…]")
		return 2
	}
	data, err := os.ReadFile(args[0])
	if err != nil {
		fmt.Println(err)
		return 2
	}
	deps := map[string]string{c07OptsPath: c07OptsProto}
	for _, a := range args[1:] {
		k, v, _ := strings.Cut(a, "=")
		d, err := os.ReadFile(v)
		if err != nil {
			fmt.Println(err)
			return 2
		}
		deps[k] = string(d)
	}
	p := path.Base(args[0])
	o := c07Evaluate(p, data, deps, c07Opts{Markers: c07MarkersIn(string(data))})
	fmt.Printf("parsed=%v compiled=%v comments=%d attributed=%d\n", o.Parsed, o.Compiled, o.Comments, o.Attributed)
	fmt.Printf("--- formatted ---\n%s", o.Out1)
	if o.Parsed {
		out2, _, _, _ := c07Format(p, o.Out1)
		if !bytes.Equal(out2, o.Out1) {
			fmt.Printf("--- formatted twice ---\n%s", out2)
		}
	}
	for _, f := range o.Fails {
		fmt.Printf("FAIL %s: %s\n", f.Class, f.Msg)
	}
	if len(o.Fails) > 0 {
		return 1
	}
	return 0
}

// c07SurveyHelper: development aid — `verif helper c07survey <tier> <from> <to> [strip]` runs cases in-process on all
// CPUs (no CLI sample) and prints violation counts per (class, key); with "strip" the style/layout part of comment features is removed.
func c07SurveyHelper(args []string) int {
	if len(args) < 3 {
		fmt.Println("usage: c07survey <tier> <from> <to> [strip]")
		return 2
	}
	tier := args[0]
	var from, to int
	fmt.Sscan(args[1], &from)
	fmt.Sscan(args[2], &to)
	strip := len(args) > 3 && args[3] == "strip"
	seed := uint64(1)
	if s := os.Getenv("VERIF_SEED"); s != "" {
		fmt.Sscan(s, &seed)
	}
	c07MinimiseCap = 1 << 30
	c07PruneBudget = 0
	type rec struct {
		n      int
		sample string
	}
	tally := map[string]*rec{}
	var mu sync.Mutex
	c07OnViolation = func(class, key, msg string) {
		if strip {
			var parts []string
			for _, f := range strings.Split(key, " + ") {
				if strings.HasPrefix(f, "cmt") {
					fs := strings.Split(f, "/")
					// cmt@par / enc:a|b / style / layout [/beside-comment]   (a or b may be "/")
					for k := len(fs) - 1; k >= 2; k-- {
						if len(fs[k]) == 2 && strings.Trim(fs[k], "jsnb") == "" {
							f = strings.Join(fs[:k-1], "/")
							break
						}
					}
				}
				parts = append(parts, f)
			}
			key = strings.Join(parts, " + ")
		}
		mu.Lock()
		k := class + "\t" + key
		if tally[k] == nil {
			tally[k] = &rec{sample: msg}
		}
		tally[k].n++
		mu.Unlock()
	}
	var wg sync.WaitGroup
	jobs := make(chan int)
	for w := 0; w < 16; w++ {
		wg.Add(1)
		go func() {
			defer wg.Done()
			for idx := range jobs {
				c := core.NewDetachedC("C07", seed, idx)
				c.Tier = tier
				c.Rand = core.RandFor(seed, "C07", idx, "case")
				func() {
					defer func() {
						if r := recover(); r != nil {
							c07OnViolation("harness-panic", fmt.Sprint(idx), fmt.Sprint(r))
						}
					}()
					c07SurveyMode = true
					c07Run(c, idx)
				}()
			}
		}()
	}
	for i := from; i < to; i++ {
		jobs <- i
	}
	close(jobs)
	wg.Wait()
	var keys []string
	for k := range tally {
		keys = append(keys, k)
	}
	sort.Strings(keys)
	for _, k := range keys {
		fmt.Printf("%5d  %s\n", tally[k].n, k)
	}
	if len(args) > 4 {
		// dump samples
		var sb strings.Builder
		for _, k := range keys {
			fmt.Fprintf(&sb, "=================== %s (%d)\n%s\n", k, tally[k].n, tally[k].sample)
		}
		os.WriteFile(args[4], []byte(sb.String()), 0o644)
	}
	return 0
}

var c07SurveyMode bool
