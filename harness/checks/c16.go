package checks

import (
	"bytes"
	"context"
	"fmt"
	"os"
	"path/filepath"
	"reflect"
	"strings"

	"github.com/bufbuild/buf/private/bufpkg/bufconfig"
	"github.com/bufbuild/buf/private/pkg/storage"
	"github.com/bufbuild/buf/private/pkg/storage/storagemem"
	"github.com/bufbuild/verifharness/core"
)

// C16 — configuration files round-trip; migration to v2 preserves behaviour.
//
// Part A (documents): a random document d of one of the four file types is read with the real
// reader. If the reader accepts it: f1 = read(d); w1 = write(f1); f2 = read(w1); w2 = write(f2);
// f3 = read(w2); w3 = write(f3). Oracle: every step succeeds; snapshot(f1) == snapshot(f2) ==
// snapshot(f3) where the snapshot is a reflective walk over all exported accessors; w1 == w2 == w3
// byte for byte. Both API pairs are driven: Read*/Write* on io streams (YAML or JSON text) and
// Get*/Put*ForPrefix on a bucket (including the legacy file names buf.mod / buf.work).
//
// Part B (migration): see c16migrate.go.

type c16Codec struct {
	read  func(data []byte) (any, error)
	write func(f any) ([]byte, error)
	label string
}

// c16StreamCodec uses the Read*/Write* functions.
func c16StreamCodec(kind string) c16Codec {
	ctx := context.Background()
	switch kind {
	case "buf.yaml":
		return c16Codec{label: "stream",
			read: func(d []byte) (any, error) { return bufconfig.ReadBufYAMLFile(bytes.NewReader(d), "buf.yaml") },
			write: func(f any) ([]byte, error) {
				var b bytes.Buffer
				err := bufconfig.WriteBufYAMLFile(&b, f.(bufconfig.BufYAMLFile))
				return b.Bytes(), err
			}}
	case "buf.lock":
		return c16Codec{label: "stream",
			read: func(d []byte) (any, error) { return bufconfig.ReadBufLockFile(ctx, bytes.NewReader(d), "buf.lock") },
			write: func(f any) ([]byte, error) {
				var b bytes.Buffer
				err := bufconfig.WriteBufLockFile(&b, f.(bufconfig.BufLockFile))
				return b.Bytes(), err
			}}
	case "buf.gen.yaml":
		return c16Codec{label: "stream",
			read: func(d []byte) (any, error) { return bufconfig.ReadBufGenYAMLFile(bytes.NewReader(d)) },
			write: func(f any) ([]byte, error) {
				var b bytes.Buffer
				err := bufconfig.WriteBufGenYAMLFile(&b, f.(bufconfig.BufGenYAMLFile))
				return b.Bytes(), err
			}}
	default:
		return c16Codec{label: "stream",
			read: func(d []byte) (any, error) { return bufconfig.ReadBufWorkYAMLFile(bytes.NewReader(d), "buf.work.yaml") },
			write: func(f any) ([]byte, error) {
				var b bytes.Buffer
				err := bufconfig.WriteBufWorkYAMLFile(&b, f.(bufconfig.BufWorkYAMLFile))
				return b.Bytes(), err
			}}
	}
}

// c16BucketCodec uses Get*ForPrefix / Put*ForPrefix on a memory bucket. readName is the file name
// the document is stored under before the first read (legacy names are accepted by the readers).
func c16BucketCodec(kind, prefix, readName string) c16Codec {
	ctx := context.Background()
	first := true
	put := func(d []byte) (storage.ReadWriteBucket, error) {
		b := storagemem.NewReadWriteBucket()
		name := map[string]string{"buf.yaml": "buf.yaml", "buf.lock": "buf.lock", "buf.gen.yaml": "buf.gen.yaml", "buf.work.yaml": "buf.work.yaml"}[kind]
		if first {
			name = readName
			first = false
		}
		p := name
		if prefix != "." {
			p = prefix + "/" + name
		}
		return b, storage.PutPath(ctx, b, p, d)
	}
	get := func(b storage.ReadWriteBucket) ([]byte, error) {
		name := kind
		p := name
		if prefix != "." {
			p = prefix + "/" + name
		}
		return storage.ReadPath(ctx, b, p)
	}
	c := c16Codec{label: "bucket:" + readName}
	switch kind {
	case "buf.yaml":
		c.read = func(d []byte) (any, error) {
			b, err := put(d)
			if err != nil {
				return nil, err
			}
			return bufconfig.GetBufYAMLFileForPrefix(ctx, b, prefix)
		}
		c.write = func(f any) ([]byte, error) {
			b := storagemem.NewReadWriteBucket()
			if err := bufconfig.PutBufYAMLFileForPrefix(ctx, b, prefix, f.(bufconfig.BufYAMLFile)); err != nil {
				return nil, err
			}
			return get(b)
		}
	case "buf.lock":
		c.read = func(d []byte) (any, error) {
			b, err := put(d)
			if err != nil {
				return nil, err
			}
			return bufconfig.GetBufLockFileForPrefix(ctx, b, prefix)
		}
		c.write = func(f any) ([]byte, error) {
			b := storagemem.NewReadWriteBucket()
			if err := bufconfig.PutBufLockFileForPrefix(ctx, b, prefix, f.(bufconfig.BufLockFile)); err != nil {
				return nil, err
			}
			return get(b)
		}
	case "buf.gen.yaml":
		c.read = func(d []byte) (any, error) {
			b, err := put(d)
			if err != nil {
				return nil, err
			}
			return bufconfig.GetBufGenYAMLFileForPrefix(ctx, b, prefix)
		}
		c.write = func(f any) ([]byte, error) {
			b := storagemem.NewReadWriteBucket()
			if err := bufconfig.PutBufGenYAMLFileForPrefix(ctx, b, prefix, f.(bufconfig.BufGenYAMLFile)); err != nil {
				return nil, err
			}
			return get(b)
		}
	default:
		c.read = func(d []byte) (any, error) {
			b, err := put(d)
			if err != nil {
				return nil, err
			}
			return bufconfig.GetBufWorkYAMLFileForPrefix(ctx, b, prefix)
		}
		c.write = func(f any) ([]byte, error) {
			b := storagemem.NewReadWriteBucket()
			if err := bufconfig.PutBufWorkYAMLFileForPrefix(ctx, b, prefix, f.(bufconfig.BufWorkYAMLFile)); err != nil {
				return nil, err
			}
			return get(b)
		}
	}
	return c
}

func c16Excerpt(b []byte, n int) string {
	s := string(b)
	if len(s) > n {
		s = s[:n] + "…"
	}
	return s
}

// c16RoundTrip runs the oracle of part A on one document with one codec. It returns false if the
// reader rejected the document (outside the quantified domain).
func c16RoundTrip(c *core.C, doc *c16Doc, codec c16Codec) bool {
	tag := doc.Kind + "/" + doc.Version
	if doc.Version == "" {
		tag = doc.Kind + "/unversioned"
	}
	snapper := &c16Snapper{normalizeGen: doc.Kind == "buf.gen.yaml"}
	f1, err := codec.read(doc.Text)
	if err != nil {
		c.Count("docs_rejected", 1)
		c.Distinct("rejected", tag+": "+c16ErrClass(err))
		return false
	}
	c.Count("docs_accepted", 1)
	c.Count("accepted_"+doc.Kind, 1)
	c.Eval(1)
	detail := func() map[string]any {
		return map[string]any{"document": string(doc.Text), "features": doc.featureList(), "api": codec.label}
	}
	w1, err := codec.write(f1)
	if err != nil {
		c.Violation("write-error", tag+":"+c16ErrClass(err), fmt.Sprintf("%s accepted by the reader cannot be written back: %v\n--- document ---\n%s", tag, err, c16Excerpt(doc.Text, 1500)), detail())
		return true
	}
	f2, err := codec.read(w1)
	if err != nil {
		c.Violation("reread-error", tag+":"+c16ErrClass(err), fmt.Sprintf("the writer's output for an accepted %s is rejected by the reader: %v\n--- document ---\n%s\n--- written ---\n%s", tag, err, c16Excerpt(doc.Text, 1200), c16Excerpt(w1, 1200)), detail())
		return true
	}
	s1, s2 := snapper.snap(f1), snapper.snap(f2)
	c.Eval(1)
	if !reflect.DeepEqual(s1, s2) {
		diffs := c16Diff(s1, s2, 6)
		seen := map[string]bool{}
		for _, d := range diffs {
			k := c16DiffKey(d)
			if seen[k] {
				continue
			}
			seen[k] = true
			c.Violation("roundtrip-snapshot", tag+":"+k,
				fmt.Sprintf("read→write→read changes the configuration of a %s at %s (before != after)\nall differences: %s\n--- document ---\n%s\n--- written ---\n%s",
					tag, d, strings.Join(diffs, " | "), c16Excerpt(doc.Text, 1200), c16Excerpt(w1, 1200)), detail())
		}
	}
	w2, err := codec.write(f2)
	if err != nil {
		c.Violation("write-error", tag+":second:"+c16ErrClass(err), fmt.Sprintf("second write of %s fails: %v\n--- written ---\n%s", tag, err, c16Excerpt(w1, 1500)), detail())
		return true
	}
	c.Eval(1)
	if !bytes.Equal(w1, w2) {
		c.Violation("write-not-idempotent", tag+":w1!=w2", fmt.Sprintf("write(read(w1)) differs from w1 for a %s\n--- document ---\n%s\n--- w1 ---\n%s\n--- w2 ---\n%s", tag, c16Excerpt(doc.Text, 1000), c16Excerpt(w1, 1000), c16Excerpt(w2, 1000)), detail())
	}
	f3, err := codec.read(w2)
	if err != nil {
		c.Violation("reread-error", tag+":third:"+c16ErrClass(err), fmt.Sprintf("third read of %s fails: %v\n--- w2 ---\n%s", tag, err, c16Excerpt(w2, 1500)), detail())
		return true
	}
	w3, err := codec.write(f3)
	if err != nil {
		c.Violation("write-error", tag+":third:"+c16ErrClass(err), fmt.Sprintf("third write of %s fails: %v", tag, err), detail())
		return true
	}
	c.Eval(1)
	if !bytes.Equal(w2, w3) {
		c.Violation("write-not-idempotent", tag+":w2!=w3", fmt.Sprintf("third write differs from second for a %s\n--- w2 ---\n%s\n--- w3 ---\n%s", tag, c16Excerpt(w2, 1200), c16Excerpt(w3, 1200)), detail())
	}
	if s3 := snapper.snap(f3); !reflect.DeepEqual(s2, s3) {
		diffs := c16Diff(s2, s3, 4)
		c.Violation("roundtrip-snapshot", tag+":second-trip:"+c16DiffKey(diffs[0]), fmt.Sprintf("the second read→write→read of a %s still changes the configuration: %s\n--- w1 ---\n%s", tag, strings.Join(diffs, " | "), c16Excerpt(w1, 1500)), detail())
	}
	c.Count("roundtrips", 1)
	// evidence: what the accepted document exercised
	feats := doc.featureList()
	for _, f := range feats {
		c.Distinct("features", tag+":"+f)
	}
	if len(feats) > 0 {
		c.Nontrivial(tag + " " + codec.label[:1] + " " + strings.Join(feats, ","))
	}
	c16ObserveShape(c, tag, f1)
	if c.Idx%97 == 0 {
		c.Sample(map[string]any{"kind": tag, "api": codec.label, "features": feats, "document": c16Excerpt(doc.Text, 600), "written": c16Excerpt(w1, 600)})
	}
	return true
}

// c16ObserveShape measures (from the object the reader returned, not from the generator's
// intent) which of the quantified shapes the accepted documents really had.
func c16ObserveShape(c *core.C, tag string, f any) {
	y, ok := f.(bufconfig.BufYAMLFile)
	if !ok {
		return
	}
	mods := y.ModuleConfigs()
	dirs := map[string]int{}
	for _, m := range mods {
		dirs[m.DirPath()]++
		if m.LintConfig().Disabled() {
			c.Count("observed_lint_disabled_modules", 1)
		}
		if m.BreakingConfig().Disabled() {
			c.Count("observed_breaking_disabled_modules", 1)
		}
		for _, inc := range m.RootToIncludes() {
			if len(inc) > 0 {
				c.Count("observed_modules_with_includes", 1)
				if len(mods) == 1 && m.DirPath() == "." {
					c.Count("observed_single_root_module_with_includes", 1)
				}
			}
		}
		if len(m.RootToExcludes()) > 1 {
			c.Count("observed_multi_root_modules", 1)
		}
	}
	for _, n := range dirs {
		if n > 1 {
			c.Count("observed_same_dir_module_groups", 1)
		}
	}
	if len(mods) > 1 {
		c.Count("observed_multi_module_files", 1)
	}
	if len(y.PluginConfigs()) > 0 {
		c.Count("observed_files_with_plugins", 1)
	}
}

// c16ErrClass reduces an error message to a stable class (quoted data and numbers removed).
func c16ErrClass(err error) string {
	s := err.Error()
	var sb strings.Builder
	inq := false
	for _, r := range s {
		switch {
		case r == '"':
			inq = !inq
			if inq {
				sb.WriteString("\"…\"")
			}
		case inq:
		case r >= '0' && r <= '9':
			sb.WriteByte('#')
		case r == '\n':
			sb.WriteByte(' ')
		default:
			sb.WriteRune(r)
		}
	}
	out := sb.String()
	if len(out) > 110 {
		out = out[:110]
	}
	return out
}

func c16DocCase(c *core.C, di int) {
	// an empty working directory: plugin references are classified by os.Stat of their first word
	wd := filepath.Join(c.Tmp, "c16cwd")
	os.MkdirAll(wd, 0o755)
	old, _ := os.Getwd()
	os.Chdir(wd)
	defer os.Chdir(old)

	doc := c16GenDoc(c.Rand, di, c.Thorough())
	var codec c16Codec
	switch m := c.Rand.IntN(4); {
	case m < 2:
		codec = c16StreamCodec(doc.Kind)
	default:
		prefix := []string{".", "sub/dir"}[c.Rand.IntN(2)]
		name := doc.Kind
		if c.Rand.IntN(3) == 0 {
			if doc.Kind == "buf.yaml" && doc.Version != "v2" {
				name = "buf.mod"
			} else if doc.Kind == "buf.work.yaml" {
				name = "buf.work"
			}
		}
		codec = c16BucketCodec(doc.Kind, prefix, name)
	}
	c16RoundTrip(c, doc, codec)
}

const (
	c16MigQuick, c16MigThorough   = 40, 400
	c16DocsQuick, c16DocsThorough = 1500, 20000
)

func c16Counts(tier string) (mig, docs int) {
	if tier == "thorough" {
		return c16MigThorough, c16DocsThorough
	}
	return c16MigQuick, c16DocsQuick
}

func init() {
	core.Register(&core.Check{
		ID:    "C16",
		Level: "exploration",
		Rule: "part A: PRNG-generated configuration documents (buf.yaml v1beta1 {roots, excludes} / v1 / v2 {0–8 modules, same and nested module directories, includes/excludes, top-level and per-module lint/breaking, " +
			"ignore lists naming a module directory (= checks off), deprecated and duplicate rule ids, plugins with args/options, deps with labels}; buf.lock v1beta1/v1/unversioned (b4) and v2 (b5 + plugin p1 digests); " +
			"buf.gen.yaml v1beta1/v1/v2 {all plugin kinds, managed sections in every spelling, all ten input kinds with their options}; buf.work.yaml), in YAML or JSON text with random equivalent path spellings, " +
			"read→write→read→write→read→write through the stream API or the bucket API (legacy file names included); only documents the real reader accepts count; distinct/non-trivial = (file type, version, API, set of generator features present); " +
			"part B: PRNG-generated v1 / v1beta1 workspaces (gen/proto schemas with lint-dirty and breaking edits, buf.work.yaml or single module, roots, excludes with excluded junk files, per-module lint/breaking configs incl. " +
			"deprecated ids, ignore/ignore_only, comment ignores, checks switched off, directories without buf.yaml, deps on sibling modules) migrated with `buf config migrate`; per module the built file set, descriptors, lint and breaking annotations before and after are compared",
		Assumptions: []string{
			"the compared configuration is everything reachable through exported accessors of the file objects except ObjectData (raw source bytes) and TopLevelLintConfig/TopLevelBreakingConfig (the property speaks of the effective per-module settings; the v2 writer re-derives top-level sections by hoisting)",
			"buf.gen.yaml: the writer is documented to always emit the v2 form, so the snapshot abstracts from FileVersion, from the display name of local plugins (Path is compared) and binds 'local or protoc builtin' plugins the way the writer and the executor do (PATH lookup, then protoc builtin names); PATH is constant during a case",
			"documents rejected by the reader are outside the quantified domain (counted in docs_rejected / distinct set 'rejected')",
			"migration: no buf.lock with dependencies and no remote deps (resolving them needs the BSR; offline) — lock merging is not exercised; generation templates are covered by part A only",
			"migration equality is judged on CLI observables: image files (proto.Equal incl. source info), lint/breaking annotations as sets of (path, position, rule, message), exit codes",
		},
		Cases: func(tier string) int {
			m, d := c16Counts(tier)
			return m + d
		},
		Run: func(c *core.C, idx int) {
			m, _ := c16Counts(c.Tier)
			if idx < m {
				c16MigrationCase(c, idx)
			} else {
				c16DocCase(c, idx-m)
			}
		},
		Required: []string{"docs_accepted", "roundtrips", "accepted_buf.yaml", "accepted_buf.lock", "accepted_buf.gen.yaml", "accepted_buf.work.yaml",
			"observed_lint_disabled_modules", "observed_single_root_module_with_includes", "observed_multi_root_modules", "observed_same_dir_module_groups",
			"migrations", "mig_modules_compared", "mig_lint_annotations", "mig_breaking_annotations", "mig_files_compared",
			"mig_layouts", "mig_edits", "lint_rules_seen", "breaking_rules_seen", "mig_merge_plans", "mig_merged_keys_observed"},
		WatchdogSec: map[string]int{"quick": 600, "thorough": 3 * 3600},
	})
}
