package checks

import (
	"archive/tar"
	"archive/zip"
	"bytes"
	"compress/gzip"
	"encoding/json"
	"fmt"
	"os"
	"path"
	"path/filepath"
	"sort"
	"strings"

	imagev1 "github.com/bufbuild/buf/private/gen/proto/go/buf/alpha/image/v1"
	"github.com/bufbuild/verifharness/core"
	"github.com/bufbuild/verifharness/gen"
	"github.com/bufbuild/verifharness/img"
	"github.com/bufbuild/verifharness/model"
	"github.com/bufbuild/verifharness/run"
	"google.golang.org/protobuf/proto"
)

// C11 — an image faithfully stands in for its sources, in every encoding.
//
// Boundary property, observed through the in-process CLI only:
//  (1) write an image in every format × compression × flag subset, read it back, compare with the
//      projection π(original) computed independently on the proto message;
//  (2) every packaging of one tree (dir, tar, tar.gz, zip, `buf export` output) builds the same bytes;
//  (3) build --path/--exclude-path on the image vs on the sources: same files, flags, descriptors;
//  (4) lint / breaking on the image vs on the sources: same annotations and exit status.

type c11Ann struct {
	Path    string `json:"path"`
	Line    int    `json:"start_line"`
	Col     int    `json:"start_column"`
	EndLine int    `json:"end_line"`
	EndCol  int    `json:"end_column"`
	Type    string `json:"type"`
	Message string `json:"message"`
}

func parseAnns(out []byte) ([]c11Ann, error) {
	var anns []c11Ann
	for _, line := range strings.Split(strings.TrimSpace(string(out)), "\n") {
		if strings.TrimSpace(line) == "" {
			continue
		}
		var a c11Ann
		if err := json.Unmarshal([]byte(line), &a); err != nil {
			return nil, fmt.Errorf("line %q: %v", line, err)
		}
		anns = append(anns, a)
	}
	return anns, nil
}

func annKey(a c11Ann, stripPrefixes []string) string {
	p := a.Path
	for _, pre := range stripPrefixes {
		if strings.HasPrefix(p, pre+"/") {
			p = strings.TrimPrefix(p, pre+"/")
			break
		}
	}
	return fmt.Sprintf("%s|%d:%d-%d:%d|%s|%s", p, a.Line, a.Col, a.EndLine, a.EndCol, a.Type, a.Message)
}

func c11Config(c *core.C) gen.Config {
	cfg := gen.DefaultConfig()
	cfg.Modules = 1 + c.Rand.IntN(3)
	cfg.MinFiles, cfg.MaxFiles = 2, 2+c.Rand.IntN(3)
	cfg.Groups = true
	cfg.Streaming = true
	return cfg
}

// c11Dirty plants a few lint problems at the model level so that lint has something to say.
func c11Dirty(c *core.C, s *gen.Schema) {
	for _, f := range s.AllFiles() {
		for _, m := range f.Messages {
			if c.Rand.IntN(4) == 0 {
				m.Comment = ""
			}
			for _, fl := range m.Fields {
				if c.Rand.IntN(6) == 0 && fl.Kind != "group" && !strings.HasPrefix(strings.ToLower(fl.Name), "dup") {
					fl.Name = "bad" + gen.Pascal(fl.Name)
				}
				if c.Rand.IntN(8) == 0 {
					fl.Comment = ""
				}
			}
		}
		for _, e := range f.Enums {
			if c.Rand.IntN(3) == 0 && len(e.Values) > 1 {
				e.Values[1].Name = strings.ToLower(e.Values[1].Name)
			}
		}
	}
}

func c11Tar(root string, gz bool) ([]byte, error) {
	var buf bytes.Buffer
	var w *tar.Writer
	var gzw *gzip.Writer
	if gz {
		gzw = gzip.NewWriter(&buf)
		w = tar.NewWriter(gzw)
	} else {
		w = tar.NewWriter(&buf)
	}
	var paths []string
	filepath.Walk(root, func(p string, info os.FileInfo, err error) error {
		if err == nil && !info.IsDir() {
			paths = append(paths, p)
		}
		return nil
	})
	sort.Strings(paths)
	for _, p := range paths {
		data, err := os.ReadFile(p)
		if err != nil {
			return nil, err
		}
		rel, _ := filepath.Rel(root, p)
		if err := w.WriteHeader(&tar.Header{Name: filepath.ToSlash(rel), Mode: 0o644, Size: int64(len(data)), Typeflag: tar.TypeReg}); err != nil {
			return nil, err
		}
		w.Write(data)
	}
	if err := w.Close(); err != nil {
		return nil, err
	}
	if gzw != nil {
		gzw.Close()
	}
	return buf.Bytes(), nil
}

func c11Zip(root string) ([]byte, error) {
	var buf bytes.Buffer
	w := zip.NewWriter(&buf)
	var paths []string
	filepath.Walk(root, func(p string, info os.FileInfo, err error) error {
		if err == nil && !info.IsDir() {
			paths = append(paths, p)
		}
		return nil
	})
	sort.Strings(paths)
	for _, p := range paths {
		data, _ := os.ReadFile(p)
		rel, _ := filepath.Rel(root, p)
		f, err := w.Create(filepath.ToSlash(rel))
		if err != nil {
			return nil, err
		}
		f.Write(data)
	}
	if err := w.Close(); err != nil {
		return nil, err
	}
	return buf.Bytes(), nil
}

// c11Project computes π(original) on the proto message, independently of buf's own projection code.
func c11Project(orig *imagev1.Image, excludeImports, excludeSourceInfo bool) *imagev1.Image {
	out := &imagev1.Image{}
	var files []*imagev1.ImageFile
	for _, f := range orig.GetFile() {
		if excludeImports && f.GetBufExtension().GetIsImport() {
			continue
		}
		cl := proto.Clone(f).(*imagev1.ImageFile)
		if excludeSourceInfo {
			cl.ClearSourceCodeInfo()
		}
		files = append(files, cl)
	}
	out.SetFile(files)
	return out
}

func c11Run(c *core.C, idx int) {
	s := gen.Generate(c.Rand, c11Config(c))
	c01Decorate(c, s)
	// A legacy construct in the scope that declares the custom options: an extension of a message-set message with
	// a tag above 2^29-1 (legal only there), declared AFTER the option extensions of the same scope. `buf build`
	// accepts it; `buf lint` and `buf breaking` refuse any schema with a message set (protobuf-go: "MessageSet …
	// no longer supported", reported as a system error), so part (4) is skipped for these cases.
	messageSet := false
	if c.Rand.IntN(4) == 0 {
		for _, f := range s.AllFiles() {
			if strings.HasSuffix(f.Path, "/opts.proto") && f.Syntax == "proto2" && len(f.Extends) > 0 {
				f.Messages = append(f.Messages,
					&gen.Message{Name: "LegacySet", Comment: "LegacySet is a message set.", Options: []gen.Opt{{Name: "message_set_wire_format", Value: "true"}},
						ExtRanges: []gen.Range{{Lo: 4, Hi: 2147483646}}},
					&gen.Message{Name: "LegacyItem", Comment: "LegacyItem is a message-set item.", Fields: []*gen.Field{
						{Name: "note", Number: 1, Label: "optional", Kind: "scalar", Type: "string", Comment: "Note."}}})
				f.Extends = append(f.Extends, &gen.Extend{Extendee: f.Package + ".LegacySet", Fields: []*gen.Field{
					{Name: "legacy_item", Number: 536870999, Label: "optional", Kind: "message", Type: f.Package + ".LegacyItem", Comment: "A message-set extension."}}})
				messageSet = true
				c.Count("workspaces_with_message_set_extension", 1)
				break
			}
		}
	}
	dirty := c.Rand.IntN(2) == 0
	if dirty {
		c11Dirty(c, s)
	}
	v := newWSView(s)
	base := filepath.Join(c.Tmp, "c11")
	os.RemoveAll(base)
	defer os.RemoveAll(base)
	wsDir := filepath.Join(base, "ws")
	lintCfg := "use:\n  - STANDARD\n  - COMMENTS\n  - UNARY_RPC\n"
	breakingCfg := "use:\n  - " + []string{"FILE", "PACKAGE", "WIRE_JSON", "WIRE"}[c.Rand.IntN(4)] + "\n"
	// one workspace in four is a buf.work.yaml workspace of v1 modules (same paths, other configuration files)
	wsVersion := "v2"
	if idx%4 == 3 {
		wsVersion = "v1"
	}
	c.Count("workspaces_"+wsVersion, 1)
	run.WriteTree(wsDir, s.WorkspaceFiles(v.R, gen.WorkspaceOpts{Version: wsVersion, Lint: lintCfg, Breaking: breakingCfg}))
	// bystanders that are no module content but sort between a directory name and "<name>/": next to every
	// module directory and next to its first package directory (archives are unpacked into a memory bucket,
	// whose walk order sees them; a directory input never does)
	{
		by := map[string]string{}
		for _, m := range s.Modules {
			by[m.Dir+"-docs/notes.txt"] = "notes\n"
			by[m.Dir+".md"] = "# about " + m.Dir + "\n"
			if len(m.Files) > 0 {
				if i := strings.Index(m.Files[0].Path, "/"); i > 0 {
					top := m.Files[0].Path[:i]
					by[m.Dir+"/"+top+"-notes/readme.txt"] = "readme\n"
					by[m.Dir+"/"+top+".txt"] = "txt\n"
				}
			}
		}
		run.WriteTree(wsDir, by)
		c.Count("bystander_files", len(by))
	}
	env := run.BufEnv(filepath.Join(c.Tmp, "home"), nil)
	o := run.Buf(wsDir, env, nil, "build", "-o", "-#format=binpb")
	c.Eval(1)
	if o.Code != 0 {
		c.Note("case %d: generated workspace does not build: %s", idx, clip(o.Stderr))
		c.Count("generator_rejects", 1)
		return
	}
	origBytes := o.Stdout
	orig, err := img.Parse(origBytes)
	if err != nil {
		c.Violation("image-unparseable", fmt.Sprintf("case=%d", idx), err.Error(), nil)
		return
	}
	keyBase := fmt.Sprintf("case=%d", idx)

	// ---- (1) encodings ------------------------------------------------------------------
	formats := []string{"binpb", "json", "txtpb", "yaml"}
	comps := []string{"none", "gzip", "zstd"}
	type flagSet struct{ exclImports, exclSrc, fds bool }
	var flagSets []flagSet
	for m := 0; m < 8; m++ {
		flagSets = append(flagSets, flagSet{m&1 != 0, m&2 != 0, m&4 != 0})
	}
	nEnc := c.Pick(10, 96)
	for e := 0; e < nEnc; e++ {
		var ft, cp string
		var fs flagSet
		if c.Thorough() {
			ft, cp, fs = formats[e%4], comps[(e/4)%3], flagSets[(e/12)%8]
		} else {
			ft, cp, fs = formats[c.Rand.IntN(4)], comps[c.Rand.IntN(3)], flagSets[c.Rand.IntN(8)]
		}
		outFile := filepath.Join(base, fmt.Sprintf("img%d", e))
		ref := fmt.Sprintf("%s#format=%s,compression=%s", outFile, ft, cp)
		args := []string{"build", "-o", ref}
		if fs.exclImports {
			args = append(args, "--exclude-imports")
		}
		if fs.exclSrc {
			args = append(args, "--exclude-source-info")
		}
		if fs.fds {
			args = append(args, "--as-file-descriptor-set")
		}
		key := fmt.Sprintf("%s enc=%s/%s flags=%+v", keyBase, ft, cp, fs)
		w := run.Buf(wsDir, env, nil, args...)
		c.Eval(1)
		if w.Code != 0 {
			c.Violation("encode-failed", key, fmt.Sprintf("writing the image failed: exit %d %s", w.Code, clip(w.Stderr)), nil)
			continue
		}
		r := run.Buf(wsDir, env, nil, "build", ref, "-o", "-#format=binpb")
		c.Eval(1)
		os.Remove(outFile)
		if r.Code != 0 {
			c.Violation("decode-failed", key, fmt.Sprintf("reading the written image back failed: exit %d %s", r.Code, string(r.Stderr)), nil)
			continue
		}
		back, err := img.Parse(r.Stdout)
		if err != nil {
			c.Violation("decode-failed", key, err.Error(), nil)
			continue
		}
		want, _ := img.FromProto(c11Project(orig.Raw, fs.exclImports, fs.exclSrc))
		c11CompareImages(c, want, back, key, !fs.fds, "round-trip")
		c.Distinct("encodings", fmt.Sprintf("%s/%s/imp=%v/src=%v/fds=%v", ft, cp, fs.exclImports, fs.exclSrc, fs.fds))
		c.Count("roundtrips", 1)
	}

	// ---- (2) packagings -----------------------------------------------------------------
	if tarBytes, err := c11Tar(wsDir, false); err == nil {
		os.WriteFile(filepath.Join(base, "ws.tar"), tarBytes, 0o644)
		c11Packaging(c, base, env, "tar", filepath.Join(base, "ws.tar"), origBytes, keyBase)
	}
	if tgz, err := c11Tar(wsDir, true); err == nil {
		os.WriteFile(filepath.Join(base, "ws.tar.gz"), tgz, 0o644)
		c11Packaging(c, base, env, "tar.gz", filepath.Join(base, "ws.tar.gz"), origBytes, keyBase)
	}
	if zb, err := c11Zip(wsDir); err == nil {
		os.WriteFile(filepath.Join(base, "ws.zip"), zb, 0o644)
		c11Packaging(c, base, env, "zip", filepath.Join(base, "ws.zip"), origBytes, keyBase)
	}
	{
		exp := filepath.Join(base, "export")
		e := run.Buf(wsDir, env, nil, "export", ".", "-o", exp)
		c.Eval(1)
		if e.Code != 0 {
			c.Violation("export-failed", keyBase, fmt.Sprintf("buf export failed: %d %s", e.Code, clip(e.Stderr)), nil)
		} else {
			b := run.Buf(base, env, nil, "build", exp, "-o", "-#format=binpb")
			c.Eval(1)
			if b.Code != 0 {
				c.Violation("packaging-build-failed", keyBase+" packaging=export", fmt.Sprintf("building the exported tree failed: %d %s", b.Code, clip(b.Stderr)), nil)
			} else if ex, err := img.Parse(b.Stdout); err == nil {
				// an exported tree is one flat directory: module boundaries (name/commit) are not part of it
				c11CompareImages(c, orig, ex, keyBase+" packaging=export", false, "packaging")
				c.Count("packagings", 1)
				c.Distinct("packaging_kinds", "export")
			}
		}
	}

	// ---- (3) path selections on image vs sources ---------------------------------------
	imgFile := filepath.Join(base, "full.binpb")
	os.WriteFile(imgFile, origBytes, 0o644)
	nSel := c.Pick(4, 12)
	for si := 0; si < nSel; si++ {
		_, paths, excludes, kind := c01Selection(c, v)
		if si == 0 && len(v.Files) > 0 {
			// designed: a selection of existing paths that leaves no file — a directory with every file in it
			// excluded (the excludes lie inside the path, which the stated domain allows), or every module excluded
			f := v.Files[c.Rand.IntN(len(v.Files))]
			d := path.Dir(f.WSPath())
			paths, excludes, kind = []string{d}, nil, "empty:path-with-all-files-excluded"
			for _, g := range v.Files {
				if path.Dir(g.WSPath()) == d || model.ContainsPath(d, g.WSPath()) {
					excludes = append(excludes, g.WSPath())
				}
			}
			if c.Rand.IntN(2) == 0 {
				paths, excludes, kind = nil, nil, "empty:every-module-excluded"
				for _, m := range s.Modules {
					excludes = append(excludes, m.Dir)
				}
			}
		}
		if kind == "all" {
			continue
		}
		srcArgs := []string{"build", ".", "-o", "-#format=binpb"}
		imgArgs := []string{"build", imgFile, "-o", "-#format=binpb"}
		toImport := func(ws string) string {
			for _, m := range s.Modules {
				if strings.HasPrefix(ws, m.Dir+"/") {
					return strings.TrimPrefix(ws, m.Dir+"/")
				}
			}
			return ws
		}
		for _, p := range paths {
			srcArgs = append(srcArgs, "--path", p)
			imgArgs = append(imgArgs, "--path", toImport(p))
		}
		for _, e := range excludes {
			srcArgs = append(srcArgs, "--exclude-path", e)
			imgArgs = append(imgArgs, "--exclude-path", toImport(e))
		}
		emptySelection := len(model.Targets(v.Files, ".", paths, excludes)) == 0
		// a workspace-relative path and its module-relative spelling must denote the same files:
		// directories such as "acme" exist in several modules and are ambiguous at the image level
		ambiguous := false
		for _, p := range append(append([]string{}, paths...), excludes...) {
			q := toImport(p)
			for _, f := range v.Files {
				if model.ContainsPath(q, f.Path) != model.ContainsPath(p, f.WSPath()) {
					ambiguous = true
				}
			}
		}
		for _, p := range append(append([]string{}, paths...), excludes...) {
			q := toImport(p)
			for _, ip := range orig.Paths() {
				if _, inWS := v.Sources[ip]; !inWS && model.ContainsPath(q, ip) {
					ambiguous = true // also matches a built-in well-known type
				}
			}
		}
		if ambiguous {
			c.Count("selections_skipped_ambiguous_at_image_level", 1)
			continue
		}
		key := fmt.Sprintf("%s paths=%v excludes=%v", keyBase, paths, excludes)
		if c.Rand.IntN(3) == 0 {
			// the same selection with --exclude-imports: only the targeted files remain, on both sides
			srcArgs = append(srcArgs, "--exclude-imports")
			imgArgs = append(imgArgs, "--exclude-imports")
			key += " --exclude-imports"
			c.Count("selections_with_exclude_imports", 1)
		}
		a := run.Buf(wsDir, env, nil, srcArgs...)
		b := run.Buf(wsDir, env, nil, imgArgs...)
		c.Eval(2)
		if emptySelection {
			// nothing is selected: neither side can produce an image; the image must not "succeed" where the sources refuse
			c.Count("empty_selections_compared", 1)
			c.Distinct("selection_kinds", kind)
			if (a.Code == 0) != (b.Code == 0) {
				c.Violation("selection-exit-differs", key+" (selects no file)", fmt.Sprintf("a selection that leaves no file: build on sources exit %d (%s) vs on image exit %d (%s, %d bytes written)", a.Code, clip(a.Stderr), b.Code, clip(b.Stderr), len(b.Stdout)), nil)
			}
			continue
		}
		if a.Code != b.Code {
			c.Violation("selection-exit-differs", key, fmt.Sprintf("build on sources exit %d (%s) vs on image exit %d (%s)", a.Code, clip(a.Stderr), b.Code, clip(b.Stderr)), nil)
			continue
		}
		if a.Code != 0 {
			continue
		}
		ia, err1 := img.Parse(a.Stdout)
		ib, err2 := img.Parse(b.Stdout)
		if err1 != nil || err2 != nil {
			c.Violation("image-unparseable", key, fmt.Sprint(err1, err2), nil)
			continue
		}
		c11CompareImages(c, ia, ib, key, true, "selection")
		c.Count("selections_compared", 1)
		c.Distinct("selection_kinds", kind)
	}

	// ---- (4) lint and breaking on image vs sources --------------------------------------
	if messageSet {
		c.Nontrivial(fmt.Sprintf("%s dirty=%v message-set", s.Describe(), dirty))
		return
	}
	var modDirs []string
	for _, m := range s.Modules {
		modDirs = append(modDirs, m.Dir)
	}
	{
		a := run.Buf(wsDir, env, nil, "lint", "--error-format=json")
		// an image carries no configuration: in a v2 workspace buf.yaml in the working directory applies to it, in a
		// buf.work.yaml workspace the (identical) configuration of the modules has to be named
		var imgCfg []string
		if wsVersion == "v1" {
			imgCfg = []string{"--config", filepath.Join(s.Modules[0].Dir, "buf.yaml")}
		}
		b := run.Buf(wsDir, env, nil, append([]string{"lint", imgFile, "--error-format=json"}, imgCfg...)...)
		c.Eval(2)
		c11CompareAnns(c, a, b, modDirs, keyBase+" cmd=lint", "lint")
	}
	{
		// an edited copy as the new version, the original as --against
		s2 := s.Clone()
		edits := c11BreakingEdits(c, s2)
		v2 := newWSView(s2)
		ws2 := filepath.Join(base, "ws2")
		run.WriteTree(ws2, s2.WorkspaceFiles(v2.R, gen.WorkspaceOpts{Version: wsVersion, Lint: lintCfg, Breaking: breakingCfg}))
		b2 := run.Buf(ws2, env, nil, "build", "-o", filepath.Join(base, "new.binpb"))
		c.Eval(1)
		if b2.Code == 0 {
			// workspaces are compared module by module; so are the images: one module per comparison
			md := s.Modules[c.Rand.IntN(len(s.Modules))].Dir
			oldImg, newImg := filepath.Join(base, "old-mod.binpb"), filepath.Join(base, "new-mod.binpb")
			b1 := run.Buf(wsDir, env, nil, "build", md, "-o", oldImg)
			b3 := run.Buf(ws2, env, nil, "build", md, "-o", newImg)
			if b1.Code == 0 && b3.Code == 0 {
				a := run.Buf(ws2, env, nil, "breaking", md, "--against", filepath.Join(wsDir, md), "--error-format=json")
				bargs := []string{"breaking", newImg, "--against", oldImg, "--error-format=json"}
				if wsVersion == "v1" {
					bargs = append(bargs, "--config", filepath.Join(md, "buf.yaml"))
				}
				b := run.Buf(ws2, env, nil, bargs...)
				c.Eval(4)
				c11CompareAnns(c, a, b, modDirs, fmt.Sprintf("%s cmd=breaking module=%s edits=%v", keyBase, md, edits), "breaking")
			}
		} else {
			c.Count("breaking_edit_not_buildable", 1)
		}
	}
	c.Nontrivial(fmt.Sprintf("%s dirty=%v", s.Describe(), dirty))
	if idx < 2 {
		c.Sample(map[string]any{"workspace": s.Describe(), "image_files": orig.Paths(), "encodings": "format×compression×{exclude-imports,exclude-source-info,as-file-descriptor-set}", "packagings": []string{"dir", "tar", "tar.gz", "zip", "export"}})
	}
}

// c11BreakingEdits applies a few simple breaking edits (delete a field, change a scalar type, delete a message).
func c11BreakingEdits(c *core.C, s *gen.Schema) []string {
	var edits []string
	for _, f := range s.AllFiles() {
		for _, m := range f.Messages {
			if len(m.Fields) > 1 && c.Rand.IntN(3) == 0 {
				last := m.Fields[len(m.Fields)-1]
				if last.Oneof == "" && last.Kind != "group" {
					m.Fields = m.Fields[:len(m.Fields)-1]
					edits = append(edits, "delete-field:"+m.Name+"."+last.Name)
				}
			}
			for _, fl := range m.Fields {
				if fl.Kind == "scalar" && fl.Type == "int32" && c.Rand.IntN(2) == 0 {
					fl.Type = "string"
					fl.Default = ""
					fl.Options = nil
					edits = append(edits, "retype:"+m.Name+"."+fl.Name)
				}
			}
		}
		for _, e := range f.Enums {
			if len(e.Values) > 2 && c.Rand.IntN(3) == 0 {
				e.Values = e.Values[:len(e.Values)-1]
				edits = append(edits, "delete-enum-value:"+e.Name)
			}
		}
	}
	return edits
}

func c11Packaging(c *core.C, base string, env map[string]string, kind, file string, origBytes []byte, keyBase string) {
	o := run.Buf(base, env, nil, "build", file, "-o", "-#format=binpb")
	c.Eval(1)
	key := keyBase + " packaging=" + kind
	if o.Code != 0 {
		c.Violation("packaging-build-failed", key, fmt.Sprintf("building the %s packaging failed: %d %s", kind, o.Code, clip(o.Stderr)), nil)
		return
	}
	if !bytes.Equal(o.Stdout, origBytes) {
		a, _ := img.Parse(origBytes)
		b, err := img.Parse(o.Stdout)
		detail := "bytes differ"
		if err == nil && a != nil {
			detail = fmt.Sprintf("paths dir=%v %s=%v", a.Paths(), kind, b.Paths())
		}
		c.Violation("packaging-differs", key, fmt.Sprintf("the %s packaging of the same tree builds a different image: %s", kind, detail), nil)
	}
	c.Count("packagings", 1)
	c.Distinct("packaging_kinds", kind)
}

// c11CompareImages: same files in the same order, same import flags and markers (if withMeta), equal descriptors.
func c11CompareImages(c *core.C, want, got *img.Image, key string, withMeta bool, clause string) {
	wp, gp := want.Paths(), got.Paths()
	if strings.Join(wp, ",") != strings.Join(gp, ",") {
		ws, gs := append([]string{}, wp...), append([]string{}, gp...)
		sort.Strings(ws)
		sort.Strings(gs)
		if strings.Join(ws, ",") != strings.Join(gs, ",") {
			c.Violation(clause+"-file-set", key, fmt.Sprintf("file sets differ: want %v got %v", wp, gp), nil)
			return
		}
		// order is only constrained by "imports first" (C01); not an alarm here
		c.Count("order_differs_but_set_equal", 1)
	}
	gb := got.ByPath()
	for _, wf := range want.Files {
		gf := gb[wf.Path]
		if d := img.DiffFD(wf.FD, gf.FD); d != "" {
			c.Violation(clause+"-descriptor", key+" path="+wf.Path, fmt.Sprintf("descriptor of %s differs: %s", wf.Path, d), nil)
		}
		c.Count("descriptors_compared", 1)
		if withMeta {
			// unused-import markers exist only for files the compiler was asked to compile (targets);
			// for files that are imports in both results they are not part of "the same result"
			unusedDiffers := !wf.IsImport && fmt.Sprint(wf.UnusedDeps) != fmt.Sprint(gf.UnusedDeps)
			if wf.IsImport != gf.IsImport || wf.SyntaxUnspecified != gf.SyntaxUnspecified || unusedDiffers || wf.ModuleName != gf.ModuleName || wf.Commit != gf.Commit {
				c.Violation(clause+"-metadata", key+" path="+wf.Path, fmt.Sprintf("%s: want import=%v nosyntax=%v unused=%v module=%q; got import=%v nosyntax=%v unused=%v module=%q", wf.Path, wf.IsImport, wf.SyntaxUnspecified, wf.UnusedDeps, wf.ModuleName, gf.IsImport, gf.SyntaxUnspecified, gf.UnusedDeps, gf.ModuleName), nil)
			}
		}
	}
}

func c11CompareAnns(c *core.C, a, b run.Out, modDirs []string, key, what string) {
	if a.Code != b.Code {
		c.Violation(what+"-exit-differs", key, fmt.Sprintf("on sources exit %d, on image exit %d; stderr src=%s img=%s", a.Code, b.Code, clip(a.Stderr), clip(b.Stderr)), nil)
		return
	}
	if a.Code != 0 && a.Code != 100 {
		c.Violation(what+"-operational-error", key, fmt.Sprintf("exit %d: %s", a.Code, clip(a.Stderr)), nil)
		return
	}
	aa, err1 := parseAnns(a.Stdout)
	bb, err2 := parseAnns(b.Stdout)
	if err1 != nil || err2 != nil {
		c.Violation(what+"-json-unparseable", key, fmt.Sprint(err1, err2), nil)
		return
	}
	var ka, kb []string
	for _, x := range aa {
		ka = append(ka, annKey(x, modDirs))
	}
	for _, x := range bb {
		kb = append(kb, annKey(x, nil))
	}
	sort.Strings(ka)
	sort.Strings(kb)
	if strings.Join(ka, "\n") != strings.Join(kb, "\n") {
		onlyA, onlyB := diffStrings(ka, kb)
		c.Violation(what+"-results-differ", key, fmt.Sprintf("%s on sources and on the image disagree: only-sources=%v only-image=%v", what, onlyA, onlyB), nil)
	}
	c.Count(what+"_compared", 1)
	if len(aa) > 0 {
		c.Count(what+"_compared_nonempty", 1)
	}
}

func diffStrings(a, b []string) (onlyA, onlyB []string) {
	ma, mb := map[string]int{}, map[string]int{}
	for _, x := range a {
		ma[x]++
	}
	for _, x := range b {
		mb[x]++
	}
	for x, n := range ma {
		if mb[x] < n {
			onlyA = append(onlyA, x)
		}
	}
	for x, n := range mb {
		if ma[x] < n {
			onlyB = append(onlyB, x)
		}
	}
	sort.Strings(onlyA)
	sort.Strings(onlyB)
	if len(onlyA) > 4 {
		onlyA = onlyA[:4]
	}
	if len(onlyB) > 4 {
		onlyB = onlyB[:4]
	}
	return
}

func init() {
	core.Register(&core.Check{
		ID:    "C11",
		Level: "exploration",
		Rule: "per PRNG-generated workspace (1–3 named modules, custom options, extensions, groups, unused/public imports, optional lint plants): (1) image written as {binpb,json,txtpb,yaml}×{none,gzip,zstd}×subsets of {--exclude-imports,--exclude-source-info,--as-file-descriptor-set} (quick: 10 sampled, thorough: all 96) and read back; " +
			"(2) dir ≡ tar ≡ tar.gz ≡ zip (byte-equal `build -o -`) ≡ buf export output (modulo module metadata); (3) build --path/--exclude-path on the image vs on the sources for random selections in the stated domain; " +
			"(4) lint and breaking (original vs an edited copy) on images vs on sources, --error-format=json. distinct/non-trivial = distinct workspace shape classes; 'encodings' counts distinct (format, compression, flags) combinations exercised",
		Assumptions: []string{
			"π(original) is computed on the decoded proto message by the harness (drop is_import files, clear source_code_info); for --as-file-descriptor-set only file set and descriptors are compared (the set carries no buf extension)",
			"`buf export` output is compared with module name/commit ignored: an exported tree no longer has module boundaries",
			"image-level --path values are the module-relative spellings of the workspace-relative source paths",
		},
		Cases: func(tier string) int {
			if tier == "thorough" {
				return 400
			}
			return 64
		},
		Run:      c11Run,
		Required: []string{"roundtrips", "packagings", "selections_compared", "selections_with_exclude_imports", "lint_compared_nonempty", "breaking_compared_nonempty", "descriptors_compared"},
	})
}
