package checks

import (
	"bytes"
	"context"
	"errors"
	"fmt"
	"os"
	"os/exec"
	"path/filepath"
	"regexp"
	"sort"
	"strings"
	"syscall"
	"time"

	"github.com/bufbuild/verifharness/core"
	"github.com/bufbuild/verifharness/run"
)

// C15, system-call part: the freshly built buf binary runs every command that writes something (image files
// in several encodings and compressions, stdout redirected to a file, exported trees, formatted files in place
// and to a directory, generated files into a directory / zip / jar, buf.yaml from `config init`, the files
// `config migrate` rewrites) under strace, which makes one system call on one output path fail:
// the first write (ENOSPC), the close (EIO), the rename onto it (EIO), the open (EMFILE), the mkdir (EACCES).
// Nothing of buf is instrumented here; the kernel boundary is where the fault is injected and the process
// boundary (exit status, the files left behind) is where the outcome is observed.
//
//   O1  a failed write / rename / mkdir, a failed close or open of a descriptor opened for writing
//       ⇒ exit status ≠ 0 ("fault-swallowed")
//   O2  exit status 0 ⇒ every output equals the output of the fault-free run ("success-with-missing-output")
//   O3  a failed rename onto P (the last step of an atomic put) ⇒ P keeps its previous state and the directory
//       holds no new entry ("failed-atomic-put-published" / "failed-atomic-put-leftover")
//
// strace counts `when=` per thread, so positions are addressed by (path, system call) with -P <path>, first
// occurrence, instead of by a global ordinal.

type c15SysCmd struct {
	name  string
	files map[string]string // tree below the scratch root
	cwd   string            // relative to the scratch root
	args  func(root string) []string
	// stdoutTo: relative path that receives the standard output ("" = discarded)
	stdoutTo string
	env      map[string]string
}

const c15SysProtoA = "syntax = \"proto3\";\n\npackage a.v1;\n\nimport \"b/v1/b.proto\";\n\n// A is a message.\nmessage A {\n  b.v1.B b = 1;\n  string name = 2;\n}\n"
const c15SysProtoB = "syntax = \"proto3\";\n\npackage b.v1;\n\n// B is a message.\nmessage B {\n  string s = 1;\n}\n\n// E is an enum.\nenum E {\n  E_UNSPECIFIED = 0;\n}\n"

func c15SysUgly(s string) string {
	return strings.ReplaceAll(strings.ReplaceAll(s, " = ", "   =  "), "{\n", "{\n\n\n")
}

func c15SysCmds(idx int) []c15SysCmd {
	pad := strings.Repeat("// padding padding padding padding padding padding padding padding\n", 30*(idx+1))
	ws := map[string]string{
		"ws/buf.yaml":           "version: v2\nmodules:\n  - path: proto\n",
		"ws/proto/a/v1/a.proto": c15SysProtoA,
		"ws/proto/b/v1/b.proto": c15SysProtoB + pad,
		"out/.keep":             "",
	}
	with := func(extra map[string]string) map[string]string {
		m := map[string]string{}
		for k, v := range ws {
			m[k] = v
		}
		for k, v := range extra {
			m[k] = v
		}
		return m
	}
	plugin := filepath.Join(core.BinDir(), "protoc-gen-verifrec")
	genYAML := func(out string) string {
		return fmt.Sprintf("version: v2\nplugins:\n  - local: %s\n    out: %s\n    opt: id=p0\n", plugin, out)
	}
	build := func(name, target string) c15SysCmd {
		return c15SysCmd{name: name, files: ws, cwd: "ws", args: func(root string) []string {
			return []string{"build", "-o", filepath.Join(root, "out", target)}
		}}
	}
	return []c15SysCmd{
		build("build -o image.binpb", "image.binpb"),
		build("build -o image.json.gz", "image.json.gz"),
		build("build -o image.txtpb.zst", "image.txtpb.zst"),
		build("build -o image.yaml", "image.yaml"),
		{name: "build -o - >file", files: ws, cwd: "ws", stdoutTo: "out/stdout.binpb", args: func(root string) []string { return []string{"build", "-o", "-#format=binpb"} }},
		{name: "export -o dir", files: ws, cwd: "ws", args: func(root string) []string { return []string{"export", ".", "-o", filepath.Join(root, "out", "exp")} }},
		{name: "format -w", files: with(map[string]string{"ws/proto/a/v1/a.proto": c15SysUgly(c15SysProtoA), "ws/proto/b/v1/b.proto": c15SysUgly(c15SysProtoB + pad)}), cwd: "ws",
			args: func(root string) []string { return []string{"format", "-w"} }},
		{name: "format -o dir", files: with(map[string]string{"ws/proto/a/v1/a.proto": c15SysUgly(c15SysProtoA)}), cwd: "ws",
			args: func(root string) []string { return []string{"format", "-o", filepath.Join(root, "out", "fmt")} }},
		{name: "format -o file", files: with(map[string]string{"ws/proto/a/v1/a.proto": c15SysUgly(c15SysProtoA)}), cwd: "ws",
			args: func(root string) []string {
				return []string{"format", "proto/a/v1/a.proto", "-o", filepath.Join(root, "out", "a.formatted.proto")}
			}},
		{name: "generate out=dir", files: with(map[string]string{"ws/buf.gen.yaml": genYAML("../out/gen"), "rec/.keep": ""}), cwd: "ws", env: map[string]string{"VERIF_REC_DIR": "rec"},
			args: func(root string) []string { return []string{"generate"} }},
		{name: "generate out=zip", files: with(map[string]string{"ws/buf.gen.yaml": genYAML("../out/gen.zip"), "rec/.keep": ""}), cwd: "ws", env: map[string]string{"VERIF_REC_DIR": "rec"},
			args: func(root string) []string { return []string{"generate"} }},
		{name: "generate out=jar", files: with(map[string]string{"ws/buf.gen.yaml": genYAML("../out/gen.jar"), "rec/.keep": ""}), cwd: "ws", env: map[string]string{"VERIF_REC_DIR": "rec"},
			args: func(root string) []string { return []string{"generate"} }},
		{name: "config init", files: map[string]string{"empty/.keep": ""}, cwd: "empty", args: func(root string) []string { return []string{"config", "init"} }},
		{name: "config migrate", files: map[string]string{
			"v1/buf.work.yaml":      "version: v1\ndirectories:\n  - proto\n  - other\n",
			"v1/proto/buf.yaml":     "version: v1\nlint:\n  use:\n    - BASIC\n",
			"v1/proto/a/v1/a.proto": "syntax = \"proto3\";\npackage a.v1;\nmessage A {}\n",
			"v1/other/buf.yaml":     "version: v1\nbreaking:\n  use:\n    - WIRE\n",
			"v1/other/c/v1/c.proto": "syntax = \"proto3\";\npackage c.v1;\nmessage C {}\n",
		}, cwd: "v1", args: func(root string) []string { return []string{"config", "migrate"} }},
		{name: "convert --to file", files: with(map[string]string{"in/a.json": "{\"name\":\"n\",\"b\":{\"s\":\"x\"}}"}), cwd: "ws",
			args: func(root string) []string {
				return []string{"convert", ".", "--type", "a.v1.A", "--from", filepath.Join(root, "in", "a.json") + "#format=json", "--to", filepath.Join(root, "out", "a.binpb")}
			}},
	}
}

type c15SysOut struct {
	code   int
	stderr string
	log    string
}

// c15SysExec runs buf (optionally under strace with one injection) and returns exit status and strace log.
func c15SysExec(root string, cmd c15SysCmd, tracePaths []string, inject string) c15SysOut {
	bufBin := filepath.Join(core.BinDir(), "buf")
	home := filepath.Join(root, ".home")
	env := run.BufEnv(home, nil)
	for k, v := range cmd.env {
		if k == "VERIF_REC_DIR" {
			v = filepath.Join(root, v)
		}
		env[k] = v
	}
	args := append(cmd.args(root), "--timeout=0")
	argv := append([]string{bufBin}, args...)
	logPath := filepath.Join(root, ".strace.log")
	os.Remove(logPath)
	if inject != "" {
		st := []string{"strace", "-f", "-qq", "-e", "signal=none", "-o", logPath, "-s", "0", "-e", "trace=write,close,openat,rename,renameat,renameat2,mkdir,mkdirat", "-e", "inject=" + inject}
		for _, p := range tracePaths {
			st = append(st, "-P", p)
		}
		argv = append(st, argv...)
	}
	ctx, cancel := context.WithTimeout(context.Background(), 5*time.Minute)
	defer cancel()
	c := exec.CommandContext(ctx, argv[0], argv[1:]...)
	c.Dir = filepath.Join(root, cmd.cwd)
	for k, v := range env {
		c.Env = append(c.Env, k+"="+v)
	}
	sort.Strings(c.Env)
	var stderr bytes.Buffer
	c.Stderr = &stderr
	if cmd.stdoutTo != "" {
		f, err := os.Create(filepath.Join(root, cmd.stdoutTo))
		if err != nil {
			return c15SysOut{code: -1000, stderr: err.Error()}
		}
		defer f.Close()
		c.Stdout = f
	}
	err := c.Run()
	code := 0
	if err != nil {
		var ee *exec.ExitError
		if errors.As(err, &ee) {
			code = ee.ExitCode()
			if ws, ok := ee.Sys().(syscall.WaitStatus); ok && ws.Signaled() {
				code = -int(ws.Signal())
			}
		} else {
			code = -1000
			stderr.WriteString("\nexec: " + err.Error())
		}
	}
	logData, _ := os.ReadFile(logPath)
	return c15SysOut{code: code, stderr: stderr.String(), log: string(logData)}
}

var (
	c15SysUnfinished = regexp.MustCompile(`^(\d+)\s+(.*) <unfinished \.\.\.>$`)
	c15SysResumed    = regexp.MustCompile(`^(\d+)\s+<\.\.\. \w+ resumed>(.*)$`)
	c15SysCall       = regexp.MustCompile(`^(\d+)\s+(\w+)\((.*)$`)
	c15SysOpenRet    = regexp.MustCompile(`= (\d+)\s*$`)
	c15SysFd         = regexp.MustCompile(`^(\d+)`)
)

type c15SysEvent struct {
	call     string
	rest     string
	injected bool
}

// c15SysParse merges unfinished/resumed pairs and lists the traced calls in log order.
func c15SysParse(log string) []c15SysEvent {
	pending := map[string]string{}
	var out []c15SysEvent
	for _, line := range strings.Split(log, "\n") {
		if m := c15SysUnfinished.FindStringSubmatch(line); m != nil {
			pending[m[1]] = m[2]
			continue
		}
		if m := c15SysResumed.FindStringSubmatch(line); m != nil {
			line = m[1] + " " + pending[m[1]] + m[2]
			delete(pending, m[1])
		}
		if m := c15SysCall.FindStringSubmatch(line); m != nil {
			out = append(out, c15SysEvent{call: m[2], rest: m[3], injected: strings.Contains(line, "(INJECTED)")})
		}
	}
	return out
}

// c15SysInjected reports whether a fault fired and whether it hit the write side (see O1).
func c15SysInjected(events []c15SysEvent) (fired bool, writeSide bool, what string) {
	writeFd := map[string]bool{}
	for _, ev := range events {
		switch ev.call {
		case "openat":
			forWrite := strings.Contains(ev.rest, "O_WRONLY") || strings.Contains(ev.rest, "O_RDWR") || strings.Contains(ev.rest, "O_CREAT")
			if ev.injected {
				return true, forWrite, "openat(" + map[bool]string{true: "for writing", false: "read-only"}[forWrite] + ")"
			}
			if m := c15SysOpenRet.FindStringSubmatch(ev.rest); m != nil {
				writeFd[m[1]] = forWrite
			}
		case "write", "close":
			fd := ""
			if m := c15SysFd.FindStringSubmatch(ev.rest); m != nil {
				fd = m[1]
			}
			if ev.injected {
				if ev.call == "write" {
					return true, true, "write"
				}
				// standard output redirected to a file is a descriptor buf did not open: it is written
				w, known := writeFd[fd]
				if !known {
					w = fd == "1"
				}
				return true, w, "close(" + map[bool]string{true: "written descriptor", false: "read-only descriptor"}[w] + ")"
			}
			if ev.call == "close" {
				delete(writeFd, fd)
			}
		default: // rename*, mkdir*
			if ev.injected {
				return true, true, ev.call
			}
		}
	}
	return false, false, ""
}

func c15SysSetup(root string, cmd c15SysCmd) error {
	os.RemoveAll(root)
	return run.WriteTree(root, cmd.files)
}

func c15SysSnap(root string) map[string]string {
	return run.Snapshot(root, ".home", ".strace.log", "rec")
}

func c15SysCases(tier string) int {
	if tier == "thorough" {
		return 3 * len(c15SysCmds(0))
	}
	return len(c15SysCmds(0))
}

func c15Sys(c *core.C, idx int) {
	if why := c15SysProbe(c.Tmp); why != "" {
		// no verdict without a working injector: the required sys_* counters stay at zero (inconclusive)
		c.Note("system-call part skipped, strace cannot inject here: %s", why)
		return
	}
	cmds := c15SysCmds(idx / len(c15SysCmds(0)))
	cmd := cmds[idx%len(cmds)]
	root := filepath.Join(c.Tmp, "c15sys")
	defer os.RemoveAll(root)
	if err := c15SysSetup(root, cmd); err != nil {
		c.Note("setup: %v", err)
		return
	}
	before := c15SysSnap(root)
	o := c15SysExec(root, cmd, nil, "")
	c.Eval(1)
	if o.code != 0 {
		c.Violation("fault-free-run-failed", "sys cmd="+cmd.name, fmt.Sprintf("buf %s failed without any fault: exit %d, stderr=%s", cmd.name, o.code, clip([]byte(o.stderr))), nil)
		return
	}
	want := c15SysSnap(root)
	// output paths: everything the command created, changed or removed
	var files, dirs []string
	for p, v := range want {
		if before[p] != v {
			if v == "dir" {
				dirs = append(dirs, p)
			} else {
				files = append(files, p)
			}
		}
	}
	for p := range before {
		if _, ok := want[p]; !ok {
			files = append(files, p)
		}
	}
	sort.Strings(files)
	sort.Strings(dirs)
	if len(files) == 0 {
		c.Violation("harness-workload-invalid", "sys cmd="+cmd.name, "the command changed nothing", nil)
		return
	}
	c.Count("sys_commands", 1)
	c.Distinct("sys_commands", cmd.name)
	type pos struct{ path, inject, kind string }
	var positions []pos
	for _, p := range files {
		positions = append(positions,
			pos{p, "write:error=ENOSPC:when=1", "write"},
			pos{p, "close:error=EIO:when=1", "close"},
			pos{p, "openat:error=EMFILE:when=1", "openat"},
			pos{p, "rename,renameat,renameat2:error=EIO:when=1", "rename"},
			pos{p, "write:error=ENOSPC:when=2", "write#2"},
		)
	}
	for _, p := range dirs {
		positions = append(positions, pos{p, "mkdir,mkdirat:error=EACCES:when=1", "mkdir"})
	}
	fired := 0
	for _, ps := range positions {
		if err := c15SysSetup(root, cmd); err != nil {
			c.Note("setup: %v", err)
			return
		}
		// strace matches path arguments textually: the absolute spelling and the one relative to the working directory
		tp := []string{filepath.Join(root, ps.path)}
		if rel, err := filepath.Rel(filepath.Join(root, cmd.cwd), filepath.Join(root, ps.path)); err == nil {
			tp = append(tp, rel, "./"+rel)
		}
		o := c15SysExec(root, cmd, tp, ps.inject)
		c.Eval(1)
		c.Count("sys_runs", 1)
		events := c15SysParse(o.log)
		did, writeSide, what := c15SysInjected(events)
		got := c15SysSnap(root)
		key := fmt.Sprintf("sys cmd=%s fault=%s file=%s", cmd.name, ps.kind, c15SysFileClass(ps.path))
		detail := map[string]any{"command": cmd.name, "path": ps.path, "inject": ps.inject, "exit": o.code, "stderr": clip([]byte(o.stderr)), "strace": clip([]byte(o.log))}
		if o.code < 0 {
			// killed by a signal or not started: neither success nor a reported error
			c.Violation("crash-on-fault", key, fmt.Sprintf("buf %s died (status %d) when %s on %s failed; stderr=%s", cmd.name, o.code, what, ps.path, clip([]byte(o.stderr))), detail)
			continue
		}
		if did {
			fired++
			c.Count("sys_faults_fired", 1)
			c.Distinct("fault_positions", "sys/"+cmd.name+"/"+ps.kind+"/"+c15SysFileClass(ps.path))
			c.Distinct("sys_fault_kinds", what)
			if writeSide && o.code == 0 {
				c.Violation("fault-swallowed", key, fmt.Sprintf("buf %s exited 0 although %s on its output %s failed (injected at the system call)", cmd.name, what, ps.path), detail)
			}
			if ps.kind == "rename" {
				if got[ps.path] != before[ps.path] {
					c.Violation("failed-atomic-put-published", key, fmt.Sprintf("buf %s: the rename onto %s failed, yet the path changed from %q to %q", cmd.name, ps.path, before[ps.path], got[ps.path]), detail)
				}
				dir := filepath.ToSlash(filepath.Dir(ps.path))
				for p := range got {
					if filepath.ToSlash(filepath.Dir(p)) == dir {
						if _, was := before[p]; !was {
							if _, expected := want[p]; !expected {
								c.Violation("failed-atomic-put-leftover", key, fmt.Sprintf("buf %s: after the failed rename onto %s the directory holds a new entry %s", cmd.name, ps.path, p), detail)
							}
						}
					}
				}
				c.Count("sys_atomic_rename_failures", 1)
			}
		} else {
			c.Count("sys_positions_not_reached", 1)
		}
		if o.code == 0 {
			if d := run.DiffSnap(want, got); d != "" {
				c.Violation("success-with-missing-output", key, fmt.Sprintf("buf %s exited 0 but its output differs from the fault-free run: %s (fault: %s, fired=%v)", cmd.name, d, ps.inject, did), detail)
			}
			c.Count("sys_success_outputs_compared", 1)
		}
	}
	if fired == 0 {
		c.Violation("harness-workload-invalid", "sys cmd="+cmd.name, "no injected fault fired for any output path", nil)
	}
	c.Nontrivial(fmt.Sprintf("sys %s outputs=%d pad=%d", cmd.name, len(files), idx/len(cmds)))
	if idx == 0 {
		c.Sample(map[string]any{"command": cmd.name, "outputs": files, "positions": len(positions), "fired": fired})
	}
}

// c15SysFileClass keeps violation keys stable across padding sizes: the extension and depth of the output.
func c15SysFileClass(p string) string {
	base := filepath.Base(p)
	if i := strings.Index(base, "."); i > 0 {
		base = "*" + base[i:]
	}
	return fmt.Sprintf("%s@%d", base, strings.Count(p, "/"))
}

// c15SysProbe checks that strace can trace a child and inject a failing write on a given path in this sandbox.
func c15SysProbe(tmp string) string {
	if _, err := exec.LookPath("strace"); err != nil {
		return err.Error()
	}
	dir := filepath.Join(tmp, "c15probe")
	os.MkdirAll(dir, 0o755)
	defer os.RemoveAll(dir)
	target, log := filepath.Join(dir, "t"), filepath.Join(dir, "log")
	cmd := exec.Command("strace", "-f", "-qq", "-o", log, "-e", "trace=write", "-e", "inject=write:error=ENOSPC:when=1", "-P", target, "sh", "-c", "echo x > "+target)
	out, _ := cmd.CombinedOutput()
	data, _ := os.ReadFile(log)
	if !strings.Contains(string(data), "(INJECTED)") {
		return "probe did not inject: " + clip(out)
	}
	return ""
}
