package checks

import (
	"bytes"
	"fmt"
	"os"
	"path/filepath"
	"strings"

	"github.com/bufbuild/verifharness/core"
	"github.com/bufbuild/verifharness/run"
)

// C20, file-reference inputs: `buf build|lint <file>#include_package_files=true` scans the import and package
// statements of the sibling files BEFORE anything is compiled (the fast scanner of the module layer). A statement
// that this pre-scan rejects is a problem of the user's sources like any compile error: status 100 and an
// annotation in every --error-format, on the stream of the command. Statement-level plants that the pre-scan
// sees (import without ';', package with an empty component, import of an unterminated string) are put into a
// sibling of the referenced file, into the referenced file itself, or into a file of another package (control:
// not scanned, compile error of the ordinary kind only when that file is built).

type c20FRPlant struct {
	name string
	edit func(text string) string
}

var c20FRPlants = []c20FRPlant{
	{"import-without-semicolon", func(t string) string {
		return strings.Replace(t, "import \"acme/fr/v1/a.proto\";", "import \"acme/fr/v1/a.proto\"", 1)
	}},
	{"package-with-empty-component", func(t string) string { return strings.Replace(t, "package acme.fr.v1;", "package acme..fr.v1;", 1) }},
	{"package-without-semicolon", func(t string) string { return strings.Replace(t, "package acme.fr.v1;", "package acme.fr.v1", 1) }},
	{"import-of-a-number", func(t string) string {
		return strings.Replace(t, "import \"acme/fr/v1/a.proto\";", "import 42;", 1)
	}},
}

func c20FileRefCases(tier string) int {
	if tier == "thorough" {
		return len(c20FRPlants) * 6
	}
	return len(c20FRPlants) * 2
}

func c20FileRef(c *core.C, k int) {
	plant := c20FRPlants[k%len(c20FRPlants)]
	where := []string{"sibling", "referenced-file"}[(k/len(c20FRPlants))%2]
	cmdName := []string{"build", "lint", "build"}[(k/(2*len(c20FRPlants)))%3]
	base := filepath.Join(c.Tmp, "c20fr")
	os.RemoveAll(base)
	defer os.RemoveAll(base)
	a := "syntax = \"proto3\";\n\npackage acme.fr.v1;\n\n// A is a message.\nmessage A {\n  // S.\n  string s = 1;\n}\n"
	b := "syntax = \"proto3\";\n\npackage acme.fr.v1;\n\nimport \"acme/fr/v1/a.proto\";\n\n// B is a message.\nmessage B {\n  // A.\n  A a = 1;\n}\n"
	cc := "syntax = \"proto3\";\n\npackage acme.fr.v1;\n\n// C is a message.\nmessage C {}\n"
	ref := "proto/acme/fr/v1/c.proto"
	if where == "referenced-file" {
		ref = "proto/acme/fr/v1/b.proto"
	}
	files := map[string]string{
		"buf.yaml":                 "version: v2\nmodules:\n  - path: proto\n",
		"proto/acme/fr/v1/a.proto": a,
		"proto/acme/fr/v1/b.proto": plant.edit(b),
		"proto/acme/fr/v1/c.proto": cc,
	}
	if files["proto/acme/fr/v1/b.proto"] == b {
		c.Violation("harness-workload-invalid", "fileref plant="+plant.name, "the plant did not change the file", nil)
		return
	}
	if err := run.WriteTree(base, files); err != nil {
		c.Note("write: %v", err)
		return
	}
	env := run.BufEnv(filepath.Join(c.Tmp, "home"), nil)
	stream := map[string]string{"build": "stderr", "lint": "stdout"}[cmdName]
	key := fmt.Sprintf("fileref cmd=%s plant=%s in=%s", cmdName, plant.name, where)
	var refTuples []c20Tuple
	for fi, f := range c20Formats {
		args := []string{cmdName, ref + "#include_package_files=true", "--error-format=" + f}
		if cmdName == "build" {
			args = append(args, "-o", os.DevNull)
		}
		o := run.Buf(base, env, nil, args...)
		c.Eval(1)
		c.Count("fileref_runs", 1)
		ann := o.Stderr
		if stream == "stdout" {
			ann = o.Stdout
		}
		if o.Code != 100 {
			c.Violation("source-problem-without-status-100", key+" fmt="+f,
				fmt.Sprintf("buf %s: a statement of a package file is malformed (%s in b.proto), status %d instead of 100; stdout=%s stderr=%s", strings.Join(args, " "), plant.name, o.Code, c20Clip(o.Stdout), c20Clip(o.Stderr)), nil)
			continue
		}
		if len(bytes.TrimSpace(ann)) == 0 {
			c.Violation("status-100-without-report", key+" fmt="+f, fmt.Sprintf("buf %s: status 100 but nothing on %s; other stream: %s", strings.Join(args, " "), stream, c20Clip(append(o.Stdout, o.Stderr...))), nil)
			continue
		}
		tuples, err := c20Decode(f, ann)
		if err != nil || len(tuples) == 0 {
			c.Violation(f+"-malformed", key+" fmt="+f, fmt.Sprintf("buf %s: the %s output does not follow the %s grammar: %v; output=%s", strings.Join(args, " "), stream, f, err, c20Clip(ann)), nil)
			continue
		}
		c.Count("fileref_annotations", len(tuples))
		if fi == 0 {
			refTuples = tuples
			continue
		}
		if len(tuples) != len(refTuples) {
			c.Violation("formats-disagree", key+" fmt="+f+" field=count", fmt.Sprintf("%d annotation(s) in %s, %d in %s", len(tuples), f, len(refTuples), c20Formats[0]), nil)
			continue
		}
		for i := range tuples {
			g, w := tuples[i], refTuples[i]
			if g.Line >= 0 && w.Line >= 0 && (g.Line != w.Line || (g.Col >= 0 && w.Col >= 0 && g.Col != w.Col)) {
				c.Violation("formats-disagree", key+" fmt="+f+" field=position", fmt.Sprintf("annotation #%d: %s says %d:%d, %s says %d:%d", i, f, g.Line, g.Col, c20Formats[0], w.Line, w.Col), nil)
			}
			if g.Message != "" && w.Message != "" && g.Message != w.Message {
				c.Violation("formats-disagree", key+" fmt="+f+" field=message", fmt.Sprintf("annotation #%d: %s says %q, %s says %q", i, f, g.Message, c20Formats[0], w.Message), nil)
			}
		}
	}
	c.Nontrivial(key)
	c.Distinct("fileref_plants", plant.name+"/"+where+"/"+cmdName)
}

// ---- format -w --exit-code ---------------------------------------------------------------------------------------
// The rewriting variant of `buf format --exit-code`: status 100 exactly when a file was (had to be) rewritten, the
// files on disk afterwards equal the formatter's own output, and a second run over the rewritten tree exits 0.

func c20FormatWriteCases(tier string) int {
	if tier == "thorough" {
		return 12
	}
	return 4
}

func c20FormatWrite(c *core.C, k int) {
	base := filepath.Join(c.Tmp, "c20fw")
	os.RemoveAll(base)
	defer os.RemoveAll(base)
	formatted := "syntax = \"proto3\";\n\npackage acme.fw.v1;\n\n// A is a message.\nmessage A {\n  // S.\n  string s = 1;\n}\n"
	ugly := "syntax = \"proto3\";\npackage acme.fw.v1;\n\n\n// B is a message.\nmessage B {\n\n\n  // T.\n  string   t   =   1;\n}\n"
	dirty := k%2 == 0
	withDiff := (k/2)%2 == 1
	files := map[string]string{
		"buf.yaml":                 "version: v2\nmodules:\n  - path: proto\n",
		"proto/acme/fw/v1/a.proto": formatted,
	}
	if dirty {
		files["proto/acme/fw/v1/b.proto"] = ugly
	} else {
		files["proto/acme/fw/v1/b.proto"] = strings.Replace(formatted, "A", "B", -1)
	}
	ws, ref := filepath.Join(base, "ws"), filepath.Join(base, "ref")
	if err := run.WriteTree(ws, files); err != nil {
		c.Note("write: %v", err)
		return
	}
	env := run.BufEnv(filepath.Join(c.Tmp, "home"), nil)
	// ground truth: the formatter's output into another directory
	if o := run.Buf(ws, env, nil, "format", "-o", ref); o.Code != 0 {
		c.Violation("format-failed", "format-write setup", fmt.Sprintf("buf format -o failed: %d %s", o.Code, c20Clip(o.Stderr)), nil)
		return
	}
	want := run.Snapshot(ref) // `format -o <dir>` writes module-relative paths
	differs := run.DiffSnap(run.Snapshot(filepath.Join(ws, "proto")), want) != ""
	if differs != dirty {
		c.Violation("harness-workload-invalid", "format-write", fmt.Sprintf("dirty=%v but byte comparison says differs=%v", dirty, differs), nil)
		return
	}
	args := []string{"format", "-w", "--exit-code"}
	if withDiff {
		args = append(args, "-d")
	}
	key := fmt.Sprintf("format-write dirty=%v diff=%v", dirty, withDiff)
	o := run.Buf(ws, env, nil, args...)
	c.Eval(1)
	c.Count("format_write_runs", 1)
	wantCode := 0
	if dirty {
		wantCode = 100
	}
	if o.Code != wantCode {
		c.Violation(map[bool]string{true: "report-without-status-100", false: "status-100-without-report"}[dirty], key,
			fmt.Sprintf("buf %s exited %d, want %d (the tree %s the formatter's output); stdout=%s stderr=%s", strings.Join(args, " "), o.Code, wantCode,
				map[bool]string{true: "differs from", false: "equals"}[dirty], c20Clip(o.Stdout), c20Clip(o.Stderr)), nil)
	}
	if withDiff && dirty != (len(bytes.TrimSpace(o.Stdout)) > 0) {
		c.Violation("format-diff-output", key, fmt.Sprintf("buf %s: diff printed=%v, tree differs=%v", strings.Join(args, " "), len(o.Stdout) > 0, dirty), nil)
	}
	if d := run.DiffSnap(want, run.Snapshot(filepath.Join(ws, "proto"))); d != "" {
		c.Violation("format-write-result", key, fmt.Sprintf("after buf %s the files differ from the formatter's output: %s", strings.Join(args, " "), d), nil)
	}
	o2 := run.Buf(ws, env, nil, args...)
	c.Eval(1)
	if o2.Code != 0 {
		c.Violation("status-100-without-report", key+" second-run", fmt.Sprintf("a second buf %s over the rewritten tree exited %d, want 0; stdout=%s", strings.Join(args, " "), o2.Code, c20Clip(o2.Stdout)), nil)
	}
	c.Nontrivial(key)
}
