package checks

import (
	"context"
	"fmt"
	"os"
	"path/filepath"
	"sort"
	"strings"

	"github.com/bufbuild/buf/private/bufpkg/bufcheck"
	"github.com/bufbuild/verifharness/core"
	"github.com/bufbuild/verifharness/gen"
	"github.com/bufbuild/verifharness/run"
)

// c05OptionsOnly: the plant's lint options as the ONLY content of the lint section (no use / except: the default
// rules), read from buf.yaml of the workspace's version, and the same schema linted in its two input forms — the
// directory and the built image. The library result under the same configuration is the reference for the
// directory; the image must give what the directory gives (paths made module-relative).
func c05OptionsOnly(c *core.C, ctx context.Context, client bufcheck.Client, s *gen.Schema, r *gen.Rendered, cfg c05CheckCfg, ctxKey, what string) {
	cfg.Use, cfg.Except, cfg.Ignore, cfg.IgnoreOnly = nil, nil, nil, nil
	if cfg.Version == "v2" {
		// nothing is written for it in a v2 file (the key there is disallow_comment_ignores)
		cfg.Opts.AllowCommentIgnores = true
	} else if cfg.Opts == (c05LintOpts{AllowCommentIgnores: true}) {
		return
	}
	yaml := cfg.lintYAML("")
	if yaml == "" {
		return
	}
	var lib []lintAnn
	for mi, m := range s.Modules {
		img, err := c05ModuleImage(ctx, s, r, mi, nil)
		if err != nil {
			return
		}
		anns, err := c05Lint(ctx, client, cfg, img)
		if err != nil {
			c.Violation("lint-failed", ctxKey, fmt.Sprintf("%s: lint with only the options configured failed: %v", what, err), nil)
			return
		}
		lib = append(lib, annsWithPrefix(anns, m.Dir)...)
	}
	base := filepath.Join(c.Tmp, "c05o")
	os.RemoveAll(base)
	defer os.RemoveAll(base)
	wsDir := filepath.Join(base, "ws")
	files := s.WorkspaceFiles(r, gen.WorkspaceOpts{Version: cfg.Version, Lint: yaml})
	if err := run.WriteTree(wsDir, files); err != nil {
		return
	}
	env := run.BufEnv(filepath.Join(base, "home"), nil)
	dir := run.Buf(wsDir, env, nil, "lint", "--error-format=json")
	imgFile := filepath.Join(base, "image.binpb")
	b := run.Buf(wsDir, env, nil, "build", "-o", imgFile)
	c.Eval(2)
	if dir.Code != 0 && dir.Code != 100 || b.Code != 0 {
		c.Violation("cli-lint-failed", ctxKey, fmt.Sprintf("%s: options-only configuration: buf lint exited %d, buf build %d: %s %s", what, dir.Code, b.Code, clipN(dir.Stderr, 300), clipN(b.Stderr, 300)), map[string]any{"files": files})
		return
	}
	keysOf := func(o run.Out, strip []string) ([]string, error) {
		anns, err := parseAnns(o.Stdout)
		if err != nil {
			return nil, err
		}
		var ks []string
		for _, a := range anns {
			ks = append(ks, annKey(a, strip))
		}
		sort.Strings(ks)
		return ks, nil
	}
	var modDirs []string
	for _, m := range s.Modules {
		modDirs = append(modDirs, m.Dir)
	}
	// library vs directory (workspace-relative paths)
	{
		anns, err := parseAnns(dir.Stdout)
		if err != nil {
			c.Violation("cli-output-unparseable", ctxKey, err.Error(), nil)
			return
		}
		var cli []lintAnn
		for _, a := range anns {
			cli = append(cli, lintAnn{Rule: a.Type, Path: a.Path, Line: a.Line, Col: a.Col, EndLine: a.EndLine, EndCol: a.EndCol, Msg: a.Message})
		}
		a, bb := annKeys(lib), annKeys(cli)
		var diff []string
		for k := range a {
			if _, ok := bb[k]; !ok {
				diff = append(diff, "library-only: "+k)
			}
		}
		for k := range bb {
			if _, ok := a[k]; !ok {
				diff = append(diff, "cli-only: "+k)
			}
		}
		if len(diff) > 0 {
			sort.Strings(diff)
			c.Violation("cli-differs-from-library", ctxKey+" options-only", fmt.Sprintf("%s: with only the options in the lint section `buf lint` and Client.Lint disagree: %s", what, strings.Join(diff, "; ")), map[string]any{"files": files})
		}
	}
	// directory vs image
	args := []string{"lint", imgFile, "--error-format=json"}
	if cfg.Version != "v2" {
		args = append(args, "--config", filepath.Join(s.Modules[0].Dir, "buf.yaml"))
	}
	img := run.Buf(wsDir, env, nil, args...)
	c.Eval(1)
	kd, err1 := keysOf(dir, modDirs)
	ki, err2 := keysOf(img, nil)
	if err1 != nil || err2 != nil || img.Code != dir.Code {
		c.Violation("image-input-differs-from-directory", ctxKey, fmt.Sprintf("%s: lint of the built image exits %d, of the directory %d (%v %v): %s", what, img.Code, dir.Code, err1, err2, clipN(img.Stderr, 300)), map[string]any{"files": files})
		return
	}
	if strings.Join(kd, "\n") != strings.Join(ki, "\n") {
		onlyD, onlyI := diffStrings(kd, ki)
		c.Violation("image-input-differs-from-directory", ctxKey, fmt.Sprintf("%s: the same schema under the same buf.yaml (lint section: %q) lints differently as a directory and as an image: only-directory=%v only-image=%v", what, yaml, onlyD, onlyI), map[string]any{"files": files})
	}
	c.Count("options_only_comparisons", 1)
	c.Distinct("options_only_configs", cfg.Version+"/"+cfg.Opts.String())
}
