package checks

import (
	"encoding/json"
	"fmt"
	"os"
	"path/filepath"

	"github.com/bufbuild/verifharness/core"
	"github.com/bufbuild/verifharness/gen"
	"github.com/bufbuild/verifharness/run"
)

func jsonMarshal(v any) ([]byte, error) { return json.MarshalIndent(v, "", " ") }

// ---- regression witnesses of repaired defects ----------------------------------------------------

// c17Witness is a fixed run (independent of VERIF_SEED) over a fixed small workspace.
type c17Witness struct {
	name      string
	plugins   []*c17Plugin
	wantError bool
	// mustExist: sandbox-relative files that must exist after a successful run.
	mustExist []string
}

func c17WitnessPlugin(id, out string, extras ...c17Extra) *c17Plugin {
	return &c17Plugin{ID: id, Out: out, Strategy: "directory", Script: c17Script{Suffix: "." + id + ".txt", Extras: extras}}
}

var c17Witnesses = []c17Witness{
	{
		// writeZip created the missing directory of an archive out and then returned the stat error anyway
		name:      "archive-out-in-missing-directory",
		plugins:   []*c17Plugin{c17WitnessPlugin("p0", "out/deep/er/y.jar"), c17WitnessPlugin("p1", "fresh/x.zip")},
		mustExist: []string{"ws/out/deep/er/y.jar", "ws/fresh/x.zip"},
	},
	{
		// duplicate detection compared out+name lexically: an alias of the same directory went unnoticed
		name: "duplicate-through-alias-of-out",
		plugins: []*c17Plugin{
			c17WitnessPlugin("p0", "gen/b", c17Extra{Anchor: "*", Name: "a/b/c/dup.gen.go", Content: "first\n"}),
			c17WitnessPlugin("p1", "../ws/gen/b", c17Extra{Anchor: "*", Name: "a/b/c/dup.gen.go", Content: "second\n"}),
		},
		wantError: true,
	},
	{
		name: "duplicate-through-alias-of-nested-out",
		plugins: []*c17Plugin{
			c17WitnessPlugin("p0", "gen/a", c17Extra{Anchor: "*", Name: "sub/n/x.txt", Content: "outer\n"}),
			c17WitnessPlugin("p1", "../ws/gen/a/sub", c17Extra{Anchor: "*", Name: "n/x.txt", Content: "inner\n"}),
		},
		wantError: true,
	},
	{
		name: "duplicate-in-archive-through-alias",
		plugins: []*c17Plugin{
			c17WitnessPlugin("p0", "out/x.zip", c17Extra{Anchor: "*", Name: "dup.txt", Content: "first\n"}),
			c17WitnessPlugin("p1", "tmpx/../../ws/out/x.zip", c17Extra{Anchor: "*", Name: "dup.txt", Content: "second\n"}),
		},
		wantError: true,
	},
}

func c17RunWitness(c *core.C, n int) {
	wt := c17Witnesses[n]
	r := core.RandFor(1, "C17", n, "witness")
	cfg := gen.DefaultConfig()
	cfg.Modules, cfg.MinFiles, cfg.MaxFiles = 1, 2, 3
	s := gen.Generate(r, cfg)
	c17Decorate(r, s)
	w, err := c17NewWorld(c, s)
	if err != nil {
		c.Violation("harness-workload", "witness", fmt.Sprintf("witness %s unusable: %v", wt.name, err), nil)
		return
	}
	sb := filepath.Join(c.Tmp, "c17sb")
	rec := filepath.Join(c.Tmp, "c17rec")
	home := filepath.Join(c.Tmp, "c17home")
	os.RemoveAll(sb)
	defer os.RemoveAll(sb)
	defer os.RemoveAll(rec)
	defer os.RemoveAll(home)
	if err := run.WriteTree(filepath.Join(sb, c17WSName), s.WorkspaceFiles(w.v.R, gen.WorkspaceOpts{Version: "v2"})); err != nil {
		c.Note("write: %v", err)
		return
	}
	anchor := w.v.Files[len(w.v.Files)-1].Path
	rn := &c17Run{Version: "v2", Input: ".", SelKind: "all", Scenario: "witness:" + wt.name}
	for _, p := range wt.plugins {
		q := *p
		q.Script.Extras = append([]c17Extra{}, p.Script.Extras...)
		for i := range q.Script.Extras {
			q.Script.Extras[i].Anchor = anchor
		}
		q.Loc = c17SandboxRel("", q.Out)
		q.Kind = c17KindOf(q.Loc)
		rn.Plugins = append(rn.Plugins, &q)
	}
	rn.render(c17PluginCommand())
	o, ok := c17Execute(c, w, rn, sb, rec, home, "regression witness "+wt.name, "witness:"+wt.name+" ")
	if !ok {
		return
	}
	switch {
	case wt.wantError && o.Code == 0:
		c.Violation("regression", wt.name, fmt.Sprintf("witness %s: buf generate succeeded, an error was required\n%s", wt.name, rn.YAML), nil)
	case !wt.wantError && o.Code != 0:
		c.Violation("regression", wt.name, fmt.Sprintf("witness %s: buf generate failed: %s\n%s", wt.name, o.Stderr, rn.YAML), nil)
	default:
		for _, f := range wt.mustExist {
			if _, err := os.Stat(filepath.Join(sb, filepath.FromSlash(f))); err != nil {
				c.Violation("regression", wt.name, fmt.Sprintf("witness %s: %s is missing after a successful run\n%s", wt.name, f, rn.YAML), nil)
			}
		}
		c.Count("regression_witnesses", 1)
		c.Nontrivial("witness " + wt.name)
	}
}
