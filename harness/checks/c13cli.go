package checks

import "github.com/bufbuild/verifharness/core"

func c13CLICases(tier string) int { return 0 }

func c13CLI(c *core.C, idx int) {}
