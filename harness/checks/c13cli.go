package checks

import (
	"fmt"
	"os"
	"path/filepath"
	"strings"

	"github.com/bufbuild/verifharness/core"
	"github.com/bufbuild/verifharness/model"
	"github.com/bufbuild/verifharness/run"
)

// CLI boundary of C13 (the "consequently" clause): configuration-supplied directories and --path
// values drawn from the same component alphabet must not let a command read, list, rewrite or
// export anything outside the workspace directory it is confined to.
//
// Layout: X/ws (workspace, cwd) next to X/outside/o.proto, X/o.proto and X/ws-sibling/o.proto
// (all with a marker message). Oracle: an escaping value ⇒ non-zero exit; in every case the
// outside is unchanged and no output names or contains the outside files.

var c13CLIValues = []string{
	"..", "../outside", "../", "./..", "proto/../..", "proto/../../outside", "/", "/etc", "../ws-sibling", "proto/../../ws-sibling",
	"../../", "a/../../outside", "..//outside", "./../outside/.", "../outside/o.proto", "proto/../../outside/o.proto", "....//outside", "proto/..", ".", "proto/.", "proto//", "./proto",
}

const c13Marker = "OutsideMarkerMessage"

func c13CLICases(tier string) int { return len(c13CLIValues) }

func c13CLI(c *core.C, idx int) {
	val := c13CLIValues[idx%len(c13CLIValues)]
	x := filepath.Join(c.Tmp, "c13cli")
	os.RemoveAll(x)
	defer os.RemoveAll(x)
	outsideProto := "syntax = \"proto3\";\npackage outside;\nmessage " + c13Marker + " {}\n"
	insideProto := "syntax = \"proto3\";\npackage in.v1;\nmessage   Inside   {   string   a=1; }\n"
	base := map[string]string{
		"outside/o.proto":         outsideProto,
		"o.proto":                 outsideProto,
		"ws-sibling/o.proto":      outsideProto,
		"ws/proto/in/v1/in.proto": insideProto,
	}
	env := run.BufEnv(filepath.Join(c.Tmp, "home"), nil)
	type scenario struct {
		name  string
		files map[string]string
		cmds  [][]string
		// composed is the value as buf sees it (includes/excludes are written below the module directory)
		composed string
	}
	scenarios := []scenario{
		{"v2-module-path", map[string]string{"ws/buf.yaml": "version: v2\nmodules:\n  - path: proto\n  - path: " + yamlStr(val) + "\n"},
			[][]string{{"ls-files"}, {"build", "-o", "-#format=json"}, {"format", "-w"}, {"export", ".", "-o", "../exported"}}, val},
		{"v2-includes", map[string]string{"ws/buf.yaml": "version: v2\nmodules:\n  - path: proto\n    includes:\n      - " + yamlStr("proto/"+val) + "\n"},
			[][]string{{"ls-files"}, {"build", "-o", "-#format=json"}}, "proto/" + val},
		{"v2-excludes", map[string]string{"ws/buf.yaml": "version: v2\nmodules:\n  - path: proto\n    excludes:\n      - " + yamlStr("proto/"+val) + "\n"},
			[][]string{{"ls-files"}, {"build", "-o", "-#format=json"}}, "proto/" + val},
		{"v1beta1-roots", map[string]string{"ws/buf.yaml": "version: v1beta1\nbuild:\n  roots:\n    - proto\n    - " + yamlStr(val) + "\n"},
			[][]string{{"ls-files"}, {"build", "-o", "-#format=json"}, {"format", "-w"}}, val},
		{"v1-work-directories", map[string]string{"ws/buf.work.yaml": "version: v1\ndirectories:\n  - proto\n  - " + yamlStr(val) + "\n"},
			[][]string{{"ls-files"}, {"build", "-o", "-#format=json"}}, val},
		{"lint-ignore", map[string]string{"ws/buf.yaml": "version: v2\nmodules:\n  - path: proto\nlint:\n  ignore:\n    - " + yamlStr(val) + "\n"},
			[][]string{{"lint"}}, val},
		{"flag-path", map[string]string{"ws/buf.yaml": "version: v2\nmodules:\n  - path: proto\n"},
			[][]string{{"ls-files", "--path", val}, {"build", "-o", "-#format=json", "--path", val}, {"build", "-o", "-#format=json", "--exclude-path", val}, {"format", "-w", "--path", val}}, val},
	}
	for _, sc := range scenarios {
		for _, cmd := range sc.cmds {
			os.RemoveAll(x)
			files := map[string]string{}
			for k, v := range base {
				files[k] = v
			}
			for k, v := range sc.files {
				files[k] = v
			}
			run.WriteTree(x, files)
			before := run.Snapshot(x, "ws", "exported")
			o := run.Buf(filepath.Join(x, "ws"), env, nil, cmd...)
			c.Eval(1)
			c.Count("cli_runs", 1)
			after := run.Snapshot(x, "ws", "exported")
			key := fmt.Sprintf("cli scenario=%s value=%q cmd=%s", sc.name, val, strings.Join(cmd, " "))
			c.Nontrivial(fmt.Sprintf("cli %s value=%q", sc.name, val))
			if d := run.DiffSnap(before, after); d != "" {
				c.Violation("cli-outside-modified", key, fmt.Sprintf("`buf %s` changed files outside the workspace: %s", strings.Join(cmd, " "), d), nil)
			}
			out := string(o.Stdout) + string(o.Stderr)
			if strings.Contains(out, c13Marker) {
				c.Violation("cli-outside-read", key, fmt.Sprintf("`buf %s` output contains the content of a file outside the workspace", strings.Join(cmd, " ")), nil)
			}
			if o.Code == 0 {
				for _, l := range strings.Split(string(o.Stdout), "\n") {
					if strings.Contains(l, "outside/o.proto") || strings.Contains(l, "ws-sibling/o.proto") || l == "../o.proto" || l == "o.proto" {
						c.Violation("cli-outside-listed", key, fmt.Sprintf("`buf %s` lists a file outside the workspace: %q", strings.Join(cmd, " "), l), nil)
					}
				}
			}
			// exported tree must not contain the outside files
			if exp := run.Snapshot(filepath.Join(x, "exported")); len(exp) > 0 {
				for p := range exp {
					if strings.HasSuffix(p, "o.proto") && !strings.Contains(p, "in/v1") {
						c.Violation("cli-outside-exported", key, "buf export copied a file from outside the workspace: "+p, nil)
					}
				}
			}
			// an escaping configuration value must be rejected (lint ignore / exclude values that
			// merely match nothing are rejected too when they escape)
			info := model.AnalyzePath(sc.composed)
			if info.Escapes && sc.name != "flag-path" && o.Code == 0 {
				c.Violation("cli-escape-accepted", key, fmt.Sprintf("escaping value %q accepted by `buf %s` (exit 0)", val, strings.Join(cmd, " ")), nil)
			}
			if info.Escapes {
				c.Count("cli_escaping_runs", 1)
			}
		}
	}
	if idx == 0 {
		c.Sample(map[string]any{"cli_boundary": map[string]any{"value": val, "scenarios": []string{"v2 module path", "v2 includes", "v2 excludes", "v1beta1 roots", "buf.work.yaml directories", "lint ignore", "--path/--exclude-path"}}})
	}
}

func yamlStr(s string) string { return fmt.Sprintf("%q", s) }
