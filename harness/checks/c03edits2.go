package checks

import (
	"strings"

	"github.com/bufbuild/verifharness/gen"
)

// Catalogue part 2: deletions inside messages and enums (fields, enum values, oneofs, ranges, reserved).

// msgSpanKey is the span key of a message in a rendering (groups are rendered by their field).
func msgSpanKey(x *c03Idx, full string) string {
	m := x.Msg(full)
	if m != nil && m.Group {
		parent := strings.TrimSuffix(full, "."+m.M.Name)
		return "field:" + parent + "." + strings.ToLower(m.M.Name)
	}
	return "message:" + full
}

func enumValueUsedAsDefault(x *c03Idx, enumFull, value string) bool {
	for _, f := range x.Fields() {
		if f.F.Kind == "enum" && f.F.Type == enumFull && f.F.Default == value {
			return true
		}
	}
	for _, ex := range x.Exts {
		if ex.F.Kind == "enum" && ex.F.Type == enumFull && ex.F.Default == value {
			return true
		}
	}
	return false
}

func countNumber(e *gen.Enum, n int) int {
	k := 0
	for _, v := range e.Values {
		if v.Number == n {
			k++
		}
	}
	return k
}

func fixAlias(e *gen.Enum) {
	seen := map[int]bool{}
	alias := false
	for _, v := range e.Values {
		if seen[v.Number] {
			alias = true
		}
		seen[v.Number] = true
	}
	e.AllowAlias = alias
}

func init() {
	// fields: delete with nothing / name / number / both reserved -----------------------------
	delField := func(f c03Field) bool {
		if f.F.Kind == "group" {
			return false
		}
		if f.F.Oneof != "" && len(oneofMembers(f.Msg.M, f.F.Oneof)) < 2 {
			return false // deleting the last member deletes the oneof: see oneof-delete-with-fields
		}
		return true
	}
	for _, v := range []struct {
		name        string
		rName, rNum bool
	}{{"field-delete", false, false}, {"field-delete-name-reserved", true, false}, {"field-delete-number-reserved", false, true}, {"field-delete-both-reserved", true, true}} {
		v := v
		rules := []string{"FIELD_NO_DELETE"}
		if !v.rName {
			rules = append(rules, "FIELD_NO_DELETE_UNLESS_NAME_RESERVED")
		}
		if !v.rNum {
			rules = append(rules, "FIELD_NO_DELETE_UNLESS_NUMBER_RESERVED")
		}
		c03Reg(v.name, rules, fieldSites(delField), func(e *c03Env, st c03Site) []c03Expect {
			m := e.New.Msg(st.A)
			fl := m.Field(st.B)
			removeField(m.M, fl.Name)
			if v.rName {
				m.M.ReservedNames = append(m.M.ReservedNames, fl.Name)
			}
			if v.rNum {
				m.M.ReservedRanges = append(m.M.ReservedRanges, gen.Range{Lo: fl.Number, Hi: fl.Number})
			}
			var exp []c03Expect
			for _, r := range rules {
				exp = append(exp, c03Expect{Rule: r, AnyOf: []string{fl.Name, q(fl.Number)}, File: m.File.Path, Spans: []string{msgSpanKey(e.New, m.Full)}})
			}
			if fl.Label == "required" {
				exp = append(exp, c03Expect{Rule: "MESSAGE_SAME_REQUIRED_FIELDS", AnyOf: []string{m.M.Name, q(fl.Number)}, File: m.File.Path, Spans: []string{msgSpanKey(e.New, m.Full)}})
			}
			return exp
		})
	}

	// enum values --------------------------------------------------------------------------------
	valueSites := func(pred func(x *c03Idx, en *c03Enum, i int) bool) func(x *c03Idx) []c03Site {
		return func(x *c03Idx) []c03Site {
			var out []c03Site
			for _, en := range x.Enums {
				if isWKTCopy(en.File) {
					continue
				}
				for i, v := range en.E.Values {
					if pred(x, en, i) {
						out = append(out, c03Site{Key: "enumvalue:" + en.Full + "." + v.Name, Kind: "enumvalue", Depth: en.Depth, File: en.File.Path, A: en.Full, B: v.Name})
					}
				}
			}
			return out
		}
	}
	uniqueNonFirst := func(x *c03Idx, en *c03Enum, i int) bool {
		v := en.E.Values[i]
		return i > 0 && countNumber(en.E, v.Number) == 1 && !enumValueUsedAsDefault(x, en.Full, v.Name)
	}
	for _, v := range []struct {
		name        string
		rName, rNum bool
	}{{"enum-value-delete", false, false}, {"enum-value-delete-name-reserved", true, false}, {"enum-value-delete-number-reserved", false, true}, {"enum-value-delete-both-reserved", true, true}} {
		v := v
		rules := []string{"ENUM_VALUE_NO_DELETE"}
		if !v.rName {
			rules = append(rules, "ENUM_VALUE_NO_DELETE_UNLESS_NAME_RESERVED")
		}
		if !v.rNum {
			rules = append(rules, "ENUM_VALUE_NO_DELETE_UNLESS_NUMBER_RESERVED")
		}
		c03Reg(v.name, rules, valueSites(uniqueNonFirst), func(e *c03Env, st c03Site) []c03Expect {
			en := e.New.Enum(st.A)
			var val *gen.EnumValue
			var out []*gen.EnumValue
			for _, x := range en.E.Values {
				if x.Name == st.B {
					val = x
				} else {
					out = append(out, x)
				}
			}
			en.E.Values = out
			if v.rName {
				en.E.ReservedNames = append(en.E.ReservedNames, val.Name)
			}
			if v.rNum {
				en.E.ReservedRanges = append(en.E.ReservedRanges, gen.Range{Lo: val.Number, Hi: val.Number})
			}
			var exp []c03Expect
			for _, r := range rules {
				exp = append(exp, c03Expect{Rule: r, AnyOf: []string{val.Name, q(val.Number)}, File: en.File.Path, Spans: []string{"enum:" + en.Full}})
			}
			return exp
		})
	}
	aliasedNonFirst := func(x *c03Idx, en *c03Enum, i int) bool {
		v := en.E.Values[i]
		if i == 0 || v.Number == en.E.Values[0].Number || countNumber(en.E, v.Number) < 2 {
			return false
		}
		for _, w := range en.E.Values {
			if w.Number == v.Number && enumValueUsedAsDefault(x, en.Full, w.Name) {
				return false
			}
		}
		return true
	}
	c03Reg("enum-value-delete-all-aliases", []string{"ENUM_VALUE_NO_DELETE", "ENUM_VALUE_NO_DELETE_UNLESS_NAME_RESERVED", "ENUM_VALUE_NO_DELETE_UNLESS_NUMBER_RESERVED"},
		valueSites(aliasedNonFirst), func(e *c03Env, st c03Site) []c03Expect {
			en := e.New.Enum(st.A)
			num := -1
			for _, x := range en.E.Values {
				if x.Name == st.B {
					num = x.Number
				}
			}
			var out []*gen.EnumValue
			var names []string
			for _, x := range en.E.Values {
				if x.Number == num {
					names = append(names, x.Name)
				} else {
					out = append(out, x)
				}
			}
			en.E.Values = out
			fixAlias(en.E)
			var exp []c03Expect
			for _, r := range []string{"ENUM_VALUE_NO_DELETE", "ENUM_VALUE_NO_DELETE_UNLESS_NAME_RESERVED", "ENUM_VALUE_NO_DELETE_UNLESS_NUMBER_RESERVED"} {
				exp = append(exp, c03Expect{Rule: r, AnyOf: append([]string{q(num)}, names...), File: en.File.Path, Spans: []string{"enum:" + en.Full}})
			}
			return exp
		})
	// all names of an aliased number are deleted, but only a proper subset of them is reserved:
	// the names that are not reserved were deleted without the reservation the rule demands
	c03Reg("enum-value-delete-all-aliases-one-name-reserved", []string{"ENUM_VALUE_NO_DELETE", "ENUM_VALUE_NO_DELETE_UNLESS_NAME_RESERVED", "ENUM_VALUE_NO_DELETE_UNLESS_NUMBER_RESERVED"},
		valueSites(aliasedNonFirst), func(e *c03Env, st c03Site) []c03Expect {
			en := e.New.Enum(st.A)
			num := -1
			for _, x := range en.E.Values {
				if x.Name == st.B {
					num = x.Number
				}
			}
			var out []*gen.EnumValue
			var names []string
			for _, x := range en.E.Values {
				if x.Number == num {
					names = append(names, x.Name)
				} else {
					out = append(out, x)
				}
			}
			if len(names) < 2 {
				return nil
			}
			en.E.Values = out
			fixAlias(en.E)
			en.E.ReservedNames = append(en.E.ReservedNames, names[0])
			var exp []c03Expect
			for _, r := range []string{"ENUM_VALUE_NO_DELETE", "ENUM_VALUE_NO_DELETE_UNLESS_NAME_RESERVED", "ENUM_VALUE_NO_DELETE_UNLESS_NUMBER_RESERVED"} {
				exp = append(exp, c03Expect{Rule: r, AnyOf: append([]string{q(num)}, names...), File: en.File.Path, Spans: []string{"enum:" + en.Full}})
			}
			return exp
		})
	c03Reg("enum-value-rename", []string{"ENUM_VALUE_SAME_NAME"},
		valueSites(func(x *c03Idx, en *c03Enum, i int) bool {
			return countNumber(en.E, en.E.Values[i].Number) == 1 && !enumValueUsedAsDefault(x, en.Full, en.E.Values[i].Name)
		}),
		func(e *c03Env, st c03Site) []c03Expect {
			en := e.New.Enum(st.A)
			for _, x := range en.E.Values {
				if x.Name == st.B {
					x.Name = st.B + "_RENAMED"
					return []c03Expect{{Rule: "ENUM_VALUE_SAME_NAME", AnyOf: []string{x.Name, q(x.Number)}, File: en.File.Path, Spans: []string{"enumvalue:" + en.Full + "." + x.Name}}}
				}
			}
			return nil
		})
	c03Reg("enum-alias-delete-one", []string{"ENUM_VALUE_SAME_NAME"},
		valueSites(func(x *c03Idx, en *c03Enum, i int) bool {
			v := en.E.Values[i]
			return i > 0 && countNumber(en.E, v.Number) >= 2 && !enumValueUsedAsDefault(x, en.Full, v.Name)
		}),
		func(e *c03Env, st c03Site) []c03Expect {
			en := e.New.Enum(st.A)
			var out []*gen.EnumValue
			num := 0
			for _, x := range en.E.Values {
				if x.Name == st.B {
					num = x.Number
				} else {
					out = append(out, x)
				}
			}
			en.E.Values = out
			fixAlias(en.E)
			exp := c03Expect{Rule: "ENUM_VALUE_SAME_NAME", AnyOf: []string{st.B, q(num)}, File: en.File.Path}
			for _, x := range out {
				if x.Number == num {
					exp.Spans = append(exp.Spans, "enumvalue:"+en.Full+"."+x.Name)
				}
			}
			return []c03Expect{exp}
		})

	// oneofs -----------------------------------------------------------------------------------
	oneofSites := func(x *c03Idx) []c03Site {
		var out []c03Site
		for _, m := range x.Msgs {
			if isWKTCopy(m.File) {
				continue
			}
			for _, o := range oneofNames(m.M) {
				out = append(out, c03Site{Key: "oneof:" + m.Full + "." + o, Kind: "oneof", Depth: m.Depth, File: m.File.Path, A: m.Full, B: o})
			}
		}
		return out
	}
	c03Reg("oneof-delete-keep-fields", []string{"ONEOF_NO_DELETE", "FIELD_SAME_ONEOF"}, oneofSites, func(e *c03Env, st c03Site) []c03Expect {
		m := e.New.Msg(st.A)
		exp := []c03Expect{{Rule: "ONEOF_NO_DELETE", AnyOf: []string{st.B}, File: m.File.Path, Spans: []string{msgSpanKey(e.New, m.Full)}}}
		for _, fl := range oneofMembers(m.M, st.B) {
			fl.Oneof = ""
			if fl.Kind != "group" {
				fl.Label = singularLabel(m.File.Syntax)
			} else {
				fl.Label = "optional"
			}
			exp = append(exp, c03Expect{Rule: "FIELD_SAME_ONEOF", AnyOf: []string{fl.Name, q(fl.Number)}, File: m.File.Path, Spans: []string{"field:" + m.Full + "." + fl.Name}})
		}
		delete(m.M.OneofComments, st.B)
		return exp
	})
	c03Reg("oneof-delete-with-fields", []string{"ONEOF_NO_DELETE", "FIELD_NO_DELETE"}, oneofSites, func(e *c03Env, st c03Site) []c03Expect {
		m := e.New.Msg(st.A)
		exp := []c03Expect{{Rule: "ONEOF_NO_DELETE", AnyOf: []string{st.B}, File: m.File.Path, Spans: []string{msgSpanKey(e.New, m.Full)}}}
		for _, fl := range oneofMembers(m.M, st.B) {
			if fl.Kind == "group" {
				return nil
			}
			removeField(m.M, fl.Name)
			exp = append(exp, c03Expect{Rule: "FIELD_NO_DELETE", AnyOf: []string{fl.Name, q(fl.Number)}, File: m.File.Path, Spans: []string{msgSpanKey(e.New, m.Full)}})
		}
		delete(m.M.OneofComments, st.B)
		return exp
	})

	// a oneof disappears while the message gains as many oneofs as it loses (a renamed oneof; a new oneof; in proto3 a
	// new `optional` field, whose synthetic oneof counts as one): the deletion is reported all the same
	c03Reg("oneof-rename", []string{"ONEOF_NO_DELETE"}, oneofSites, func(e *c03Env, st c03Site) []c03Expect {
		m := e.New.Msg(st.A)
		newName := freshFieldName(st.B+"_renamed", m.M)
		for _, fl := range oneofMembers(m.M, st.B) {
			fl.Oneof = newName
		}
		if cmt, ok := m.M.OneofComments[st.B]; ok {
			delete(m.M.OneofComments, st.B)
			m.M.OneofComments[newName] = cmt
		}
		return []c03Expect{{Rule: "ONEOF_NO_DELETE", AnyOf: []string{st.B}, File: m.File.Path, Spans: []string{msgSpanKey(e.New, m.Full)}}}
	})
	c03Reg("oneof-delete-while-adding-oneof", []string{"ONEOF_NO_DELETE", "FIELD_SAME_ONEOF"}, oneofSites, func(e *c03Env, st c03Site) []c03Expect {
		m := e.New.Msg(st.A)
		exp := []c03Expect{{Rule: "ONEOF_NO_DELETE", AnyOf: []string{st.B}, File: m.File.Path, Spans: []string{msgSpanKey(e.New, m.Full)}}}
		for _, fl := range oneofMembers(m.M, st.B) {
			if fl.Kind == "group" {
				return nil
			}
			fl.Oneof = ""
			fl.Label = singularLabel(m.File.Syntax)
			exp = append(exp, c03Expect{Rule: "FIELD_SAME_ONEOF", AnyOf: []string{fl.Name, q(fl.Number)}, File: m.File.Path, Spans: []string{"field:" + m.Full + "." + fl.Name}})
		}
		delete(m.M.OneofComments, st.B)
		oldM := (*gen.Message)(nil)
		if om := e.Old.Msg(st.A); om != nil {
			oldM = om.M
		}
		if m.File.Syntax == "proto3" && e.R.IntN(2) == 0 {
			// proto3 optional: a synthetic oneof
			n := freshFieldNumber(900, m.M, oldM)
			m.M.Fields = append(m.M.Fields, &gen.Field{Name: freshFieldName("added_optional", m.M, oldM), Number: n, Label: "optional", Kind: "scalar", Type: "string", Comment: "Added."})
			e.Tag = "proto3-optional"
		} else {
			on := freshFieldName("added_choice", m.M, oldM)
			n := freshFieldNumber(900, m.M, oldM)
			m.M.Fields = append(m.M.Fields,
				&gen.Field{Name: freshFieldName(on+"_a", m.M, oldM), Number: n, Kind: "scalar", Type: "string", Oneof: on, Comment: "Added."},
				&gen.Field{Name: freshFieldName(on+"_b", m.M, oldM), Number: freshFieldNumber(n+1, m.M, oldM), Kind: "scalar", Type: "int32", Oneof: on, Comment: "Added."})
			if m.M.OneofComments == nil {
				m.M.OneofComments = map[string]string{}
			}
			m.M.OneofComments[on] = "Added choice."
			e.Tag = "new-oneof"
		}
		return exp
	})

	// extension ranges --------------------------------------------------------------------------
	usedExtTags := func(x *c03Idx, full string) []int {
		var out []int
		for _, ex := range x.Exts {
			if ex.X.Extendee == full {
				out = append(out, ex.F.Number)
			}
		}
		return out
	}
	rangeSites := func(get func(m *c03Msg) []gen.Range, kind string) func(x *c03Idx) []c03Site {
		return func(x *c03Idx) []c03Site {
			var out []c03Site
			for _, m := range x.Msgs {
				if isWKTCopy(m.File) {
					continue
				}
				for i := range get(m) {
					out = append(out, c03Site{Key: kind + ":" + m.Full, Kind: kind, Depth: m.Depth, File: m.File.Path, A: m.Full, N: i})
				}
			}
			return out
		}
	}
	extRanges := func(m *c03Msg) []gen.Range { return m.M.ExtRanges }
	for _, mode := range []string{"delete", "shrink", "split"} {
		mode := mode
		c03Reg("extension-range-"+mode, []string{"EXTENSION_MESSAGE_NO_DELETE"}, rangeSites(extRanges, "extrange"), func(e *c03Env, st c03Site) []c03Expect {
			m := e.New.Msg(st.A)
			rg := m.M.ExtRanges[st.N]
			used := map[int]bool{}
			for _, t := range usedExtTags(e.New, m.Full) {
				if t >= rg.Lo && t <= rg.Hi {
					used[t] = true
				}
			}
			var repl []gen.Range
			switch mode {
			case "delete":
				if len(used) > 0 {
					return nil
				}
			case "shrink":
				// drop the highest unused tail (or head)
				hi := rg.Hi
				for hi > rg.Lo && !used[hi] && hi > rg.Lo+(rg.Hi-rg.Lo)/2 {
					hi--
				}
				if hi == rg.Hi {
					return nil
				}
				repl = []gen.Range{{Lo: rg.Lo, Hi: hi}}
			case "split":
				if rg.Hi-rg.Lo < 2 {
					return nil
				}
				gap := -1
				for t := rg.Lo + 1; t < rg.Hi; t++ {
					if !used[t] {
						gap = t
						if e.R.IntN(4) == 0 {
							break
						}
					}
				}
				if gap < 0 {
					return nil
				}
				repl = []gen.Range{{Lo: rg.Lo, Hi: gap - 1}, {Lo: gap + 1, Hi: rg.Hi}}
			}
			m.M.ExtRanges = append(append(append([]gen.Range{}, m.M.ExtRanges[:st.N]...), repl...), m.M.ExtRanges[st.N+1:]...)
			return []c03Expect{{Rule: "EXTENSION_MESSAGE_NO_DELETE", AnyOf: []string{m.M.Name}, File: m.File.Path, Spans: []string{msgSpanKey(e.New, m.Full)}}}
		})
	}

	// reserved ranges and names --------------------------------------------------------------------
	resRanges := func(m *c03Msg) []gen.Range { return m.M.ReservedRanges }
	for _, mode := range []string{"delete", "shrink"} {
		mode := mode
		c03Reg("message-reserved-range-"+mode, []string{"RESERVED_MESSAGE_NO_DELETE"}, rangeSites(resRanges, "reserved-range"), func(e *c03Env, st c03Site) []c03Expect {
			m := e.New.Msg(st.A)
			rg := m.M.ReservedRanges[st.N]
			var repl []gen.Range
			if mode == "shrink" {
				if rg.Hi == rg.Lo {
					return nil
				}
				if e.R.IntN(2) == 0 {
					repl = []gen.Range{{Lo: rg.Lo + 1, Hi: rg.Hi}}
				} else {
					repl = []gen.Range{{Lo: rg.Lo, Hi: rg.Hi - 1}}
				}
			}
			m.M.ReservedRanges = append(append(append([]gen.Range{}, m.M.ReservedRanges[:st.N]...), repl...), m.M.ReservedRanges[st.N+1:]...)
			return []c03Expect{{Rule: "RESERVED_MESSAGE_NO_DELETE", AnyOf: []string{m.M.Name}, File: m.File.Path, Spans: []string{msgSpanKey(e.New, m.Full)}}}
		})
	}
	c03Reg("message-reserved-name-delete", []string{"RESERVED_MESSAGE_NO_DELETE"},
		rangeSites(func(m *c03Msg) []gen.Range { return make([]gen.Range, len(m.M.ReservedNames)) }, "reserved-name"),
		func(e *c03Env, st c03Site) []c03Expect {
			m := e.New.Msg(st.A)
			name := m.M.ReservedNames[st.N]
			m.M.ReservedNames = append(append([]string{}, m.M.ReservedNames[:st.N]...), m.M.ReservedNames[st.N+1:]...)
			return []c03Expect{{Rule: "RESERVED_MESSAGE_NO_DELETE", AnyOf: []string{name, m.M.Name}, File: m.File.Path, Spans: []string{msgSpanKey(e.New, m.Full)}}}
		})
	enumRangeSites := func(names bool) func(x *c03Idx) []c03Site {
		return func(x *c03Idx) []c03Site {
			var out []c03Site
			for _, en := range x.Enums {
				if isWKTCopy(en.File) {
					continue
				}
				n := len(en.E.ReservedRanges)
				if names {
					n = len(en.E.ReservedNames)
				}
				for i := 0; i < n; i++ {
					out = append(out, c03Site{Key: "enum-reserved:" + en.Full, Kind: "enum-reserved", Depth: en.Depth, File: en.File.Path, A: en.Full, N: i})
				}
			}
			return out
		}
	}
	for _, mode := range []string{"delete", "shrink"} {
		mode := mode
		c03Reg("enum-reserved-range-"+mode, []string{"RESERVED_ENUM_NO_DELETE"}, enumRangeSites(false), func(e *c03Env, st c03Site) []c03Expect {
			en := e.New.Enum(st.A)
			rg := en.E.ReservedRanges[st.N]
			var repl []gen.Range
			if mode == "shrink" {
				if rg.Hi == rg.Lo {
					return nil
				}
				repl = []gen.Range{{Lo: rg.Lo, Hi: rg.Hi - 1}}
			}
			en.E.ReservedRanges = append(append(append([]gen.Range{}, en.E.ReservedRanges[:st.N]...), repl...), en.E.ReservedRanges[st.N+1:]...)
			return []c03Expect{{Rule: "RESERVED_ENUM_NO_DELETE", AnyOf: []string{en.E.Name}, File: en.File.Path, Spans: []string{"enum:" + en.Full}}}
		})
	}
	c03Reg("enum-reserved-name-delete", []string{"RESERVED_ENUM_NO_DELETE"}, enumRangeSites(true), func(e *c03Env, st c03Site) []c03Expect {
		en := e.New.Enum(st.A)
		name := en.E.ReservedNames[st.N]
		en.E.ReservedNames = append(append([]string{}, en.E.ReservedNames[:st.N]...), en.E.ReservedNames[st.N+1:]...)
		return []c03Expect{{Rule: "RESERVED_ENUM_NO_DELETE", AnyOf: []string{name, en.E.Name}, File: en.File.Path, Spans: []string{"enum:" + en.Full}}}
	})
}
