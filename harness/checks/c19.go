package checks

import (
	"context"
	"fmt"
	"io"
	"log/slog"
	"os"
	"path/filepath"
	"sort"
	"strings"

	"connectrpc.com/connect"
	"github.com/bufbuild/buf/private/bufpkg/bufconnect"
	registryv1alpha1 "github.com/bufbuild/buf/private/gen/proto/go/buf/alpha/registry/v1alpha1"
	"github.com/bufbuild/buf/private/pkg/app"
	"github.com/bufbuild/buf/private/pkg/app/appext"
	"github.com/bufbuild/buf/private/pkg/netrc"
	"github.com/bufbuild/verifharness/core"
	"github.com/bufbuild/verifharness/model"
	"github.com/bufbuild/verifharness/run"
)

// C19 — credentials are only sent to the registry they were configured for.
//
// Workload: (A) every BUF_TOKEN string over the symbol alphabet {t1 t2 @ , : H1 H2 H3} up to
// 7 | 9 symbols at the provider boundary; (B) every .netrc structure with 0..3 | 0..4 machines
// over {H1,H2,H3}, optional passwords, an optional default entry in several positions and several
// layouts, alone and combined with a list of BUF_TOKEN strings through the real authorization
// interceptor; (C) the real client stack (bufcli.NewConnectClientConfig → connectclient.Make →
// unary RPC) against three loopback servers for every string up to 5 | 6 symbols and for one
// representative of every behaviour class found in (A); (D) `buf registry whoami <host>` in-process.
//
// Monitor: RemoteToken(h) / the Authorization header the interceptor sets / the Authorization
// header the loopback servers receive (plus every other received header and the URL).
//
// Oracle: model.TokenParser (independent parse of the string) + the structured .netrc the file was
// rendered from. Clauses: token-leak, unconfigured-token-sent, malformed-partially-applied,
// wellformed-rejected, source-order, token-missing, wrong-token, boundaries-disagree,
// nondeterministic, wire-misrouted, token-in-other-header.

// Concrete token values: distinctive enough to be searched for in every received header.
const (
	c19T1 = "Tk1q"
	c19T2 = "Tk2z"
)

type c19Sym struct{ name, val string }

// c19Stats aggregates evidence locally (the enumeration visits >10^8 strings; c.Count locks).
type c19Stats struct {
	evals    int
	counters map[string]int
}

func newC19Stats() *c19Stats { return &c19Stats{counters: map[string]int{}} }

func (s *c19Stats) flush(c *core.C) {
	c.Eval(s.evals)
	for k, v := range s.counters {
		c.Count(k, v)
	}
	s.evals = 0
	s.counters = map[string]int{}
}

// c19EnvContainer is an app.EnvContainer holding just BUF_TOKEN (the provider boundary reads
// nothing else from it).
type c19EnvContainer struct{ token string }

func (e *c19EnvContainer) Env(key string) string {
	if key == bufconnect.TokenEnvKey {
		return e.token
	}
	return ""
}

func (e *c19EnvContainer) ForEachEnv(f func(string, string)) {
	if e.token != "" {
		f(bufconnect.TokenEnvKey, e.token)
	}
}

// ---- .netrc model -------------------------------------------------------------------------

type c19Machine struct {
	def   bool
	host  string // concrete address
	hname string // symbolic name
	login string
	pw    string // "" = the entry has no password
}

type c19Netrc struct {
	ms     []c19Machine
	layout int
	viaEnv bool // located through $NETRC instead of $HOME/.netrc
}

func (n *c19Netrc) String() string {
	if n == nil {
		return "none"
	}
	var parts []string
	for _, m := range n.ms {
		name := m.hname
		if m.def {
			name = "default"
		}
		if m.pw == "" {
			name += "(nopw)"
		}
		if c19IsKeyword(m.login) {
			name += "{login=" + m.login + "}"
		}
		parts = append(parts, name)
	}
	via := "home"
	if n.viaEnv {
		via = "NETRC"
	}
	return fmt.Sprintf("[%s] layout=%d via=%s", strings.Join(parts, " "), n.layout, via)
}

func c19IsKeyword(s string) bool { return s == "default" || s == "machine" }

// keywordLogin returns the machine whose login value is a netrc keyword (generator feature
// netrc-keyword-login), or nil.
func (n *c19Netrc) keywordLogin() *c19Machine {
	if n == nil {
		return nil
	}
	for i := range n.ms {
		if c19IsKeyword(n.ms[i].login) {
			return &n.ms[i]
		}
	}
	return nil
}

// shape abstracts the structure for distinct-class counting.
func (n *c19Netrc) shape() string {
	if n == nil {
		return "none"
	}
	s := n.String()
	return s[:strings.Index(s, "]")+1]
}

const c19Layouts = 5

func (n *c19Netrc) render() string {
	var sb strings.Builder
	switch n.layout {
	case 3:
		sb.WriteString("# credentials\n\n")
	}
	for i, m := range n.ms {
		head := "machine " + m.host
		if m.def {
			head = "default"
		}
		login, pw := "", ""
		if m.login != "" {
			login = "login " + m.login
		}
		if m.pw != "" {
			pw = "password " + m.pw
		}
		switch n.layout {
		case 0:
			sb.WriteString(head + "\n")
			if login != "" {
				sb.WriteString("  " + login + "\n")
			}
			if pw != "" {
				sb.WriteString("  " + pw + "\n")
			}
		case 1:
			sb.WriteString(strings.Join(c19NonEmpty(head, login, pw), " ") + "\n")
		case 2:
			if i > 0 {
				sb.WriteString(" ")
			}
			sb.WriteString(strings.Join(c19NonEmpty(head, login, pw), " "))
		case 3:
			sb.WriteString(head + "\n")
			if pw != "" {
				sb.WriteString("\t" + pw + "\n")
			}
			if login != "" {
				sb.WriteString("\t" + login + "\n")
			}
			sb.WriteString("\n# next\n")
		default: // password only, CRLF
			sb.WriteString(head + "\r\n")
			if pw != "" {
				sb.WriteString("    " + pw + "\r\n")
			}
		}
	}
	return sb.String()
}

func c19NonEmpty(parts ...string) []string {
	var out []string
	for _, p := range parts {
		if p != "" {
			out = append(out, p)
		}
	}
	return out
}

// lookup returns what the file associates with host h: the primary expectation (first machine
// named h, else the default entry), the other acceptable outcomes where the statement leaves a
// choice, and a role label.
func (n *c19Netrc) lookup(h string) (primary string, alts []string, role string) {
	if n == nil {
		return "", nil, "none"
	}
	mi, di := -1, -1
	for i, m := range n.ms {
		if m.def && di < 0 {
			di = i
		}
		if !m.def && m.host == h && mi < 0 {
			mi = i
		}
	}
	switch {
	case mi >= 0:
		primary = n.ms[mi].pw
		role = "machine"
		if primary == "" {
			role = "machine-nopw"
			// the machine entry names the host but carries no password: sending nothing, or
			// falling back to the default entry (which by design applies to every host), are both
			// within the statement
			if di >= 0 {
				alts = append(alts, n.ms[di].pw)
			}
		} else if di >= 0 && di < mi {
			// classic netrc semantics: a default entry ends the search
			alts = append(alts, n.ms[di].pw)
			role = "machine-after-default"
		}
	case di >= 0:
		primary = n.ms[di].pw
		role = "default"
		if primary == "" {
			role = "default-nopw"
		}
	default:
		role = "none"
	}
	return primary, alts, role
}

// assoc says how the file relates token to host h.
func (n *c19Netrc) assoc(token, h string) string {
	if n == nil {
		return "unconfigured"
	}
	other := ""
	for _, m := range n.ms {
		if m.pw != token {
			continue
		}
		if m.def {
			return "default"
		}
		if m.host == h {
			return "host"
		}
		other = "other:" + m.hname
	}
	if other != "" {
		return other
	}
	return "unconfigured"
}

func (n *c19Netrc) secrets() []string {
	if n == nil {
		return nil
	}
	var out []string
	for _, m := range n.ms {
		if m.pw != "" {
			out = append(out, m.pw)
		}
	}
	return out
}

// ---- verdicts -----------------------------------------------------------------------------

// c19Obs is one observation: the token attached to a request for host h under (s, nrc).
type c19Obs struct {
	boundary string
	s, sym   string // concrete and symbolic BUF_TOKEN
	cfg      *model.TokenConfig
	nrc      *c19Netrc
	hname, h string
	got      string // "" = no Authorization header
}

func (o *c19Obs) key() string {
	if m := o.nrc.keywordLogin(); m != nil {
		// generator feature: one stable key per (keyword, boundary, relation of the request host to
		// the affected machine entry); the concrete file is in the message
		rel := "another-host"
		if m.host == o.h {
			rel = "the-machine-with-that-login"
		}
		return fmt.Sprintf("feature=netrc-keyword-login login=%s boundary=%s request-to=%s", m.login, o.boundary, rel)
	}
	return fmt.Sprintf("boundary=%s BUF_TOKEN=%q netrc=%s host=%s", o.boundary, o.sym, o.nrc.String(), o.hname)
}

// c19Judge applies the oracle to one observation and returns the role the observed token plays
// (for evidence).
func c19Judge(c *core.C, st *c19Stats, w *c19World, o *c19Obs) string {
	st.evals++
	primaryN, altsN, roleN := o.nrc.lookup(o.h)
	gotSym := w.symbolic(o.got)
	// a clearly malformed string was accepted: any token taken from it is a partial application
	if o.cfg.Kind == model.TokMalformed && o.got != "" {
		if na := o.nrc.assoc(o.got, o.h); na != "host" && na != "default" {
			c.Violation("malformed-partially-applied", o.key(), fmt.Sprintf("malformed BUF_TOKEN %q (%s) was accepted and %q attached to the request for %s",
				o.sym, o.cfg.Reason, gotSym, o.hname), nil)
			return "violation"
		}
	}
	// non-leak invariant: holds for every string, whatever its grammar class
	if o.got != "" {
		ea := model.Association(o.s, o.got, o.h)
		na := o.nrc.assoc(o.got, o.h)
		ok := ea == "hostless" || ea == "host" || na == "host" || na == "default"
		if !ok {
			if strings.HasPrefix(ea, "other:") || strings.HasPrefix(na, "other:") {
				where := ea
				if !strings.HasPrefix(ea, "other:") {
					where = na
				}
				c.Violation("token-leak", o.key(), fmt.Sprintf("request to %s carries token %q, which the configuration associates only with another host (%s); BUF_TOKEN=%q netrc=%s",
					o.hname, gotSym, w.symbolic(where), o.sym, o.nrc.String()), nil)
			} else {
				c.Violation("unconfigured-token-sent", o.key(), fmt.Sprintf("request to %s carries %q, which is not a token of the configuration (a fragment of a string was applied); BUF_TOKEN=%q netrc=%s",
					o.hname, gotSym, o.sym, o.nrc.String()), nil)
			}
			return "violation"
		}
	}
	switch o.cfg.Kind {
	case model.TokMalformed:
		// accepted although malformed, but nothing of it reached this request
		st.counters["malformed_accepted_but_inert"]++
		return "malformed-inert"
	case model.TokCorner:
		// statement leaves the grammar open here: only the non-leak invariant (above)
		st.counters["corner_accepted_observations"]++
		return "corner"
	}
	envTok := o.cfg.Expect(o.h)
	if envTok != "" {
		role := "env-map"
		if o.cfg.Kind == model.TokSingle {
			role = "env-single"
		}
		if o.got == envTok {
			if primaryN != "" {
				st.counters["env_wins_over_netrc"]++
			}
			return role
		}
		class := "wrong-token"
		switch {
		case o.got == "":
			class = "token-missing"
		case o.got == primaryN || c19In(altsN, o.got):
			class = "source-order"
		}
		c.Violation(class, o.key(), fmt.Sprintf("request to %s: BUF_TOKEN=%q configures %q for this host (first source), observed %q; netrc=%s",
			o.hname, o.sym, w.symbolic(envTok), gotSym, o.nrc.String()), nil)
		return "violation"
	}
	// the environment has nothing for h: the .netrc decides
	if o.cfg.Kind == model.TokMap && len(o.cfg.Entries) > 0 {
		st.counters["env_token_of_other_host_withheld"]++
	}
	if o.got == primaryN || c19In(altsN, o.got) {
		if o.got == "" {
			return "none(" + roleN + ")"
		}
		if o.got != primaryN {
			st.counters["netrc_alternative_outcome"]++
		}
		return "netrc-" + roleN
	}
	class := "wrong-token"
	if o.got == "" {
		class = "token-missing"
	}
	c.Violation(class, o.key(), fmt.Sprintf("request to %s: expected %q from the .netrc (%s), observed %q; BUF_TOKEN=%q netrc=%s",
		o.hname, primaryN, roleN, gotSym, o.sym, o.nrc.String()), nil)
	return "violation"
}

func c19In(list []string, s string) bool {
	for _, x := range list {
		if x == s {
			return true
		}
	}
	return false
}

// c19JudgeRejected handles a construction error for s.
func c19JudgeRejected(c *core.C, st *c19Stats, boundary, sym string, cfg *model.TokenConfig, err error) {
	st.evals++
	switch {
	case cfg.WellFormed():
		c.Violation("wellformed-rejected", fmt.Sprintf("boundary=%s BUF_TOKEN=%q", boundary, sym),
			fmt.Sprintf("well-formed BUF_TOKEN %q (%s) was rejected: %v", sym, cfg.Kind, err), nil)
	case cfg.Kind == model.TokMalformed:
		st.counters["malformed_rejected"]++
	default:
		st.counters["corner_rejected"]++
	}
}

// ---- part A: provider boundary, exhaustive strings ------------------------------------------

const c19PrefixLen = 2

func c19MaxLen(tier string) int {
	if tier == "thorough" {
		return 9
	}
	return 7
}

func c19ACases(tier string) int {
	n := 1
	for i := 0; i < c19PrefixLen; i++ {
		n *= 8
	}
	return n + 1 // + the shard of strings shorter than the prefix
}

type c19Class struct {
	key       string
	s, sym    string
	nontrival bool
}

func c19RunA(c *core.C, shard int) {
	w := c19GetWorld()
	st := newC19Stats()
	defer st.flush(c)
	syms := w.syms
	maxLen := c19MaxLen(c.Tier)
	var stack []int
	nShards := c19ACases(c.Tier) - 1
	startDepth := 0
	if shard < nShards {
		x := shard
		for i := 0; i < c19PrefixLen; i++ {
			stack = append([]int{x % 8}, stack...)
			x /= 8
		}
		startDepth = c19PrefixLen
	} else {
		maxLen = c19PrefixLen - 1
	}
	hosts := []string{w.h1, w.h2, w.h3, w.h0}
	hnames := []string{"H1", "H2", "H3", "H0"}
	envc := &c19EnvContainer{}
	var parser model.TokenParser
	classes := map[int]*c19Class{}
	var classOrder []int
	buf := make([]byte, 0, 256)
	symOf := func(st []int) string {
		var sb strings.Builder
		for i, k := range st {
			if i > 0 {
				sb.WriteByte(' ')
			}
			sb.WriteString(syms[k].name)
		}
		return sb.String()
	}
	reasonIdx := map[string]int{}
	var strs, hostq, attached, rejected int
	visit := func() {
		s := string(buf)
		cfg := parser.Parse(s)
		envc.token = s
		tp, err := bufconnect.NewTokenProviderFromContainer(envc)
		strs++
		ri, ok := reasonIdx[cfg.Reason]
		if !ok {
			ri = len(reasonIdx)
			reasonIdx[cfg.Reason] = ri
		}
		classID := (int(cfg.Kind)*16+ri)*8 + min(len(cfg.Entries), 5)
		classID *= 2
		roles := 0
		if err != nil {
			rejected++
			c19JudgeRejected(c, st, "provider", symOf(stack), cfg, err)
		} else {
			classID++
			for hi, h := range hosts {
				got := tp.RemoteToken(h)
				hostq++
				role := 0
				if got != "" {
					attached++
					role = 1
				}
				roles = roles*2 + role
				// fast path: agreement with the model needs no formatting
				if cfg.WellFormed() {
					want := cfg.Expect(h)
					if got == want {
						st.evals++
						if want == "" && cfg.Kind == model.TokMap {
							st.counters["env_token_of_other_host_withheld"]++
						}
						continue
					}
				}
				c19Judge(c, st, w, &c19Obs{boundary: "provider", s: s, sym: symOf(stack), cfg: cfg, hname: hnames[hi], h: h, got: got})
			}
			if len(stack) <= 5 {
				// deterministic: a second construction answers identically
				tp2, err2 := bufconnect.NewTokenProviderFromContainer(envc)
				if err2 != nil {
					c.Violation("nondeterministic", fmt.Sprintf("boundary=provider BUF_TOKEN=%q", symOf(stack)), fmt.Sprintf("second construction failed: %v", err2), nil)
				} else {
					for hi, h := range hosts {
						if a, b := tp.RemoteToken(h), tp2.RemoteToken(h); a != b {
							c.Violation("nondeterministic", fmt.Sprintf("boundary=provider BUF_TOKEN=%q host=%s", symOf(stack), hnames[hi]),
								fmt.Sprintf("two constructions from the same string answer %q and %q", w.symbolic(a), w.symbolic(b)), nil)
						}
					}
				}
				st.evals++
			}
		}
		classID = classID*16 + roles
		if _, seen := classes[classID]; !seen {
			impl := "accepted"
			if err != nil {
				impl = "rejected"
			}
			roleStr := ""
			for hi := range hosts {
				if roles&(1<<(len(hosts)-1-hi)) != 0 {
					roleStr += hnames[hi] + "+"
				}
			}
			if roleStr == "" {
				roleStr = "nobody"
			}
			reason := cfg.Reason
			if reason != "" {
				reason = "/" + reason
			}
			classes[classID] = &c19Class{
				key: fmt.Sprintf("%s%s entries=%d %s token-for=%s", cfg.Kind, reason, min(len(cfg.Entries), 5), impl, strings.TrimSuffix(roleStr, "+")),
				s:   s, sym: symOf(stack), nontrival: s != "",
			}
			classOrder = append(classOrder, classID)
		}
	}
	var rec func(depth int)
	rec = func(depth int) {
		visit()
		if depth == maxLen {
			return
		}
		for k := range syms {
			n := len(buf)
			buf = append(buf, syms[k].val...)
			stack = append(stack, k)
			rec(depth + 1)
			stack = stack[:len(stack)-1]
			buf = buf[:n]
		}
	}
	for _, k := range stack {
		buf = append(buf, syms[k].val...)
	}
	rec(startDepth)
	st.counters["provider_strings"] += strs
	st.counters["provider_host_queries"] += hostq
	st.counters["provider_tokens_attached"] += attached
	st.counters["provider_rejected"] += rejected

	// Where the statement leaves the grammar open (a ':' inside a token, a host keyed twice) either answer is
	// accepted — but one answer per class: accepting some spellings of a class and rejecting others means the
	// validation looks at only part of the string.
	if shard == nShards {
		panels := map[string][][]string{
			"colon-in-keyed-token":    {{":", "t1", "@", "H1"}, {"t1", ":", "@", "H1"}, {"t1", ":", "t2", "@", "H1"}, {":", "@", "H1"}, {"t2", "@", "H2", ",", ":", "t1", "@", "H1"}, {"t2", "@", "H2", ",", "t1", ":", "@", "H1"}},
			"colon-in-hostless-token": {{":", "t1"}, {"t1", ":"}, {"t1", ":", "t2"}, {":"}},
			"host-keyed-twice":        {{"t1", "@", "H1", ",", "t2", "@", "H1"}, {"t1", "@", "H1", ",", "t1", "@", "H1"}, {"t1", "@", "H2", ",", "t2", "@", "H3", ",", "t1", "@", "H2"}},
		}
		for _, reason := range []string{"colon-in-keyed-token", "colon-in-hostless-token", "host-keyed-twice"} {
			var accepted, rejected []string
			for _, l := range panels[reason] {
				str := ""
				for _, n := range l {
					str += w.symVal(n)
				}
				if cfg := parser.Parse(str); cfg.Kind != model.TokCorner || cfg.Reason != reason {
					continue // the model files this spelling elsewhere
				}
				envc.token = str
				if _, err := bufconnect.NewTokenProviderFromContainer(envc); err != nil {
					rejected = append(rejected, strings.Join(l, " "))
				} else {
					accepted = append(accepted, strings.Join(l, " "))
				}
				st.evals++
			}
			st.counters["corner_panels_checked"]++
			if len(accepted) > 0 && len(rejected) > 0 {
				c.Violation("corner-class-not-uniform", "reason="+reason,
					fmt.Sprintf("BUF_TOKEN strings of one class (%s) are treated differently: accepted %q, rejected %q — the validation covers only part of the string", reason, accepted, rejected), nil)
			}
		}
	}

	// wire boundary for one representative of every class found in this shard
	home := c19Home(c)
	defer os.RemoveAll(home)
	variants := c19WireVariants(w)
	for i, id := range classOrder {
		cl := classes[id]
		c.Distinct("parse_classes", cl.key)
		if cl.nontrival {
			c.Nontrivial("env " + cl.key)
		}
		c19Wire(c, st, w, home, cl.s, cl.sym, nil, i)
		c19Wire(c, st, w, home, cl.s, cl.sym, variants[1+(i+shard)%(len(variants)-1)], i+1)
		st.counters["wire_class_representatives"]++
	}
	if shard == 9 {
		c.Sample(map[string]any{"part": "A provider boundary", "shard_prefix": symOf(stack), "strings": strs, "host_queries": hostq,
			"classes_in_shard": len(classOrder), "alphabet": "t1 t2 @ , : H1 H2 H3 (H3 is a proper prefix of H1; H0 is a live server no configuration mentions)"})
	}
}

// ---- part B: .netrc structures, alone and combined with BUF_TOKEN ------------------------------

func c19NetrcStructures(w *c19World, tier string) []*c19Netrc {
	maxM := 3
	defOpts := 4
	if tier == "thorough" {
		maxM = 4
		defOpts = 5
	}
	hosts := []c19Sym{{"H1", w.h1}, {"H2", w.h2}, {"H3", w.h3}}
	var out []*c19Netrc
	for k := 0; k <= maxM; k++ {
		total := 1
		for i := 0; i < k; i++ {
			total *= 3
		}
		for names := 0; names < total; names++ {
			for mask := 0; mask < 1<<k; mask++ {
				var ms []c19Machine
				x := names
				for i := 0; i < k; i++ {
					h := hosts[x%3]
					x /= 3
					m := c19Machine{host: h.val, hname: h.name, login: fmt.Sprintf("u%d", i)}
					if mask&(1<<i) != 0 {
						m.pw = fmt.Sprintf("Nw%dp", i)
					}
					ms = append(ms, m)
				}
				for d := 0; d < defOpts; d++ {
					all := append([]c19Machine{}, ms...)
					def := c19Machine{def: true, login: "ud", pw: "NwDp"}
					switch d {
					case 1: // default last (the conventional place)
						all = append(all, def)
					case 2: // default first
						all = append([]c19Machine{def}, all...)
					case 3: // default without password, last
						def.pw = ""
						all = append(all, def)
					case 4: // default in the middle
						if k < 2 {
							continue
						}
						all = append(append(append([]c19Machine{}, ms[:1]...), def), ms[1:]...)
					}
					out = append(out, &c19Netrc{ms: all})
				}
			}
		}
	}
	return out
}

const c19BChunk = 14

var c19BCount = map[string]int{}

func c19BCases(tier string) int {
	// the count does not depend on the addresses
	n, ok := c19BCount[tier]
	if !ok {
		n = len(c19NetrcStructures(&c19World{}, tier))
		c19BCount[tier] = n
	}
	return (n + c19BChunk - 1) / c19BChunk
}

type c19EnvRep struct{ s, sym string }

// c19EnvReps: BUF_TOKEN strings combined with .netrc files.
func c19EnvReps(w *c19World, tier string) []c19EnvRep {
	lists := [][]string{
		{}, {"t1"}, {"t1", "@", "H1"}, {"t2", "@", "H2"}, {"t1", "@", "H3"},
		{"t1", "@", "H1", ",", "t2", "@", "H2"}, {"t2", "@", "H2", ",", "t1", "@", "H1"},
		{"t1", "@", "H1", ",", "t2", "@", "H3"}, {"t1", "@", "H2", ",", "t2", "@", "H3"},
		{"t1", "@", "H1", ":"}, {"t1", ":", "t2"}, {"t1", ":", "@", "H1"},
		{"t1", ",", "t2"}, {"t1", "@", "H1", ","}, {",", "t1", "@", "H1"}, {"t1", "@", "H1", "@", "H2"},
		{"@", "H1"}, {"t1", "@"}, {"t1", ",", "t2", "@", "H1"}, {"t1", "@", "H1", ",", "t2"},
		{"t1", "@", "H1", ",", "t2", "@", "H1"}, {"t1", "@", "H1", ",", "@", "H2"},
	}
	if tier == "thorough" {
		names := []string{"t1", "t2", "@", ",", ":", "H1", "H2", "H3"}
		for _, a := range names {
			for _, b := range names {
				lists = append(lists, []string{a, b})
			}
		}
	}
	var out []c19EnvRep
	seen := map[string]bool{}
	for _, l := range lists {
		r := c19EnvRep{sym: strings.Join(l, " ")}
		for _, n := range l {
			r.s += w.symVal(n)
		}
		if !seen[r.sym] {
			seen[r.sym] = true
			out = append(out, r)
		}
	}
	return out
}

var c19DiscardLogger = slog.New(slog.NewTextHandler(io.Discard, nil))

func c19Home(c *core.C) string {
	home := filepath.Join(c.Tmp, "c19home")
	os.RemoveAll(home)
	os.MkdirAll(filepath.Join(home, ".config"), 0o755)
	os.MkdirAll(filepath.Join(home, "alt"), 0o755)
	// plain HTTP towards the loopback servers
	os.WriteFile(filepath.Join(home, ".config", "config.yaml"), []byte("version: v1\ntls:\n  use: false\n"), 0o644)
	return home
}

// c19Env writes the .netrc (or removes it) and returns the environment of one configuration.
func c19Env(home, token string, nrc *c19Netrc) map[string]string {
	env := run.BufEnv(home, map[string]string{})
	if token != "" {
		env[bufconnect.TokenEnvKey] = token
	}
	def := filepath.Join(home, netrc.Filename)
	alt := filepath.Join(home, "alt", "netrc-file")
	os.Remove(def)
	os.Remove(alt)
	if nrc != nil {
		p := def
		if nrc.viaEnv {
			p = alt
			env["NETRC"] = alt
		}
		if err := os.WriteFile(p, []byte(nrc.render()), 0o600); err != nil {
			panic(err)
		}
	}
	return env
}

func c19AppContainer(env map[string]string) appext.Container {
	base := app.NewContainer(env, strings.NewReader(""), io.Discard, io.Discard, "buf")
	nc, err := appext.NewNameContainer(base, "buf")
	if err != nil {
		panic(err)
	}
	return appext.NewContainer(nc, c19DiscardLogger)
}

// c19Bearer extracts the token of an Authorization header set ("" if absent); a value that is
// not "Bearer <token>" is returned verbatim and will not match any expectation.
func c19Bearer(values []string) string {
	if len(values) == 0 {
		return ""
	}
	if len(values) > 1 {
		return "<several Authorization headers: " + strings.Join(values, " | ") + ">"
	}
	if t, ok := strings.CutPrefix(values[0], bufconnect.AuthenticationTokenPrefix); ok && t != "" {
		return t
	}
	return "<" + values[0] + ">"
}

// c19Chain runs the real authorization interceptor for address h with the real providers and a
// terminal stub, and returns the token it attached.
func c19Chain(envProv, netrcProv bufconnect.TokenProvider, h string) string {
	icpt := bufconnect.NewAuthorizationInterceptorProvider(envProv, netrcProv)(h)
	var values []string
	fn := icpt(func(_ context.Context, req connect.AnyRequest) (connect.AnyResponse, error) {
		values = append([]string{}, req.Header().Values(bufconnect.AuthenticationHeader)...)
		return nil, nil
	})
	fn(context.Background(), connect.NewRequest(&registryv1alpha1.GetCurrentUserRequest{}))
	return c19Bearer(values)
}

func c19RunB(c *core.C, chunk int) {
	w := c19GetWorld()
	st := newC19Stats()
	defer st.flush(c)
	home := c19Home(c)
	defer os.RemoveAll(home)
	structures := c19NetrcStructures(w, c.Tier)
	reps := c19EnvReps(w, c.Tier)
	hosts := []string{w.h1, w.h2, w.h3, w.h0}
	hnames := []string{"H1", "H2", "H3", "H0"}
	layouts := 4
	if c.Thorough() {
		layouts = c19Layouts
	}
	var parser model.TokenParser
	emptyCfg := *parser.Parse("")
	emptyCfg.Entries = nil
	for si := chunk * c19BChunk; si < (chunk+1)*c19BChunk && si < len(structures); si++ {
		for layout := 0; layout < layouts; layout++ {
			nrc := &c19Netrc{ms: structures[si].ms, layout: layout, viaEnv: (si+layout+int(c.Seed))%2 == 0}
			env := c19Env(home, "", nrc)
			container := c19AppContainer(env)
			st.counters["netrc_files"]++
			c.Nontrivial("netrc " + nrc.shape())
			c.Distinct("netrc_layouts", fmt.Sprintf("layout=%d via-NETRC=%v", nrc.layout, nrc.viaEnv))
			// the .netrc provider alone
			netrcProv := bufconnect.NewNetrcTokenProvider(container, netrc.GetMachineForName)
			for hi, h := range hosts {
				got := netrcProv.RemoteToken(h)
				role := c19Judge(c, st, w, &c19Obs{boundary: "netrc-provider", cfg: &emptyCfg, nrc: nrc, hname: hnames[hi], h: h, got: got})
				st.counters["netrc_queries"]++
				st.counters["netrc_role_"+role]++
			}
			// combined with BUF_TOKEN through the real interceptor
			for _, rep := range reps {
				cfg := parser.Parse(rep.s)
				envc := app.NewEnvContainerWithOverrides(container, map[string]string{bufconnect.TokenEnvKey: rep.s})
				envProv, err := bufconnect.NewTokenProviderFromContainer(envc)
				if err != nil {
					c19JudgeRejected(c, st, "interceptor", rep.sym, cfg, err)
					continue
				}
				for hi, h := range hosts {
					got := c19Chain(envProv, netrcProv, h)
					role := c19Judge(c, st, w, &c19Obs{boundary: "interceptor", s: rep.s, sym: rep.sym, cfg: cfg, nrc: nrc, hname: hnames[hi], h: h, got: got})
					st.counters["chain_evals"]++
					c.Distinct("chain_classes", fmt.Sprintf("env=%s%s netrc-role=%s -> %s", cfg.Kind, c19Slash(cfg.Reason), c19NetrcRole(nrc, h), role))
					if layout == 0 && si%7 == 0 {
						if again := c19Chain(envProv, netrcProv, h); again != got {
							c.Violation("nondeterministic", fmt.Sprintf("boundary=interceptor BUF_TOKEN=%q netrc=%s host=%s", rep.sym, nrc.String(), hnames[hi]),
								fmt.Sprintf("two invocations attached %q and %q", w.symbolic(got), w.symbolic(again)), nil)
						}
					}
				}
			}
		}
	}
	if chunk == 20 {
		nrc := &c19Netrc{ms: structures[chunk*c19BChunk].ms, layout: 0}
		c.Sample(map[string]any{"part": "B netrc × BUF_TOKEN through the interceptor", "netrc": w.symbolic(nrc.render()), "env_strings": len(reps), "hosts": hnames})
	}
}

func c19Slash(s string) string {
	if s == "" {
		return ""
	}
	return "/" + s
}

func c19NetrcRole(n *c19Netrc, h string) string {
	_, _, role := n.lookup(h)
	return role
}

// ---- part E: seeded random configurations beyond the exhaustive bounds ------------------------

func c19ECases(tier string) int {
	if tier == "thorough" {
		return 320
	}
	return 64
}

// c19RandomToken builds a BUF_TOKEN string of 1..5 entries (so longer than the exhaustive bound
// reaches), mostly well-formed token@host entries over {H1,H2,H3,H0} and near-miss hosts, with a
// minority of damaged entries.
func c19RandomToken(c *core.C, w *c19World) (s, sym string) {
	r := c.Rand
	tok := func() (string, string) {
		n := 1 + r.IntN(2)
		var v, y []string
		for i := 0; i < n; i++ {
			if r.IntN(2) == 0 {
				v, y = append(v, c19T1), append(y, "t1")
			} else {
				v, y = append(v, c19T2), append(y, "t2")
			}
		}
		return strings.Join(v, ""), strings.Join(y, " ")
	}
	host := func() (string, string) {
		switch r.IntN(10) {
		case 0:
			return w.h1 + ":", "H1 :"
		case 1:
			return w.h2 + w.h1, "H2 H1"
		case 2:
			return w.h3, "H3"
		case 3, 4:
			return w.h0, "H0"
		case 5, 6:
			return w.h2, "H2"
		default:
			return w.h1, "H1"
		}
	}
	n := 1 + r.IntN(5)
	if r.IntN(12) == 0 {
		t, ty := tok()
		return t, ty // a single host-less token
	}
	var parts, syms []string
	used := map[string]bool{}
	for i := 0; i < n; i++ {
		t, ty := tok()
		h, hy := host()
		if used[h] {
			h, hy = host() // one re-draw: repeated hosts stay possible but rarer
		}
		used[h] = true
		e, ey := t+"@"+h, ty+" @ "+hy
		if r.IntN(8) == 0 {
			switch r.IntN(6) {
			case 0:
				e, ey = "", ""
			case 1:
				e, ey = t, ty
			case 2:
				e, ey = t+"@"+h+"@"+w.h2, ty+" @ "+hy+" @ H2"
			case 3:
				e, ey = "@"+h, "@ "+hy
			case 4:
				e, ey = t+"@", ty+" @"
			default:
				e, ey = t+":"+t+"@"+h, ty+" : "+ty+" @ "+hy
			}
		}
		parts, syms = append(parts, e), append(syms, ey)
	}
	return strings.Join(parts, ","), strings.Join(syms, " , ")
}

func c19RandomNetrc(c *core.C, w *c19World) *c19Netrc {
	r := c.Rand
	if r.IntN(6) == 0 {
		return nil
	}
	hosts := []c19Sym{{"H1", w.h1}, {"H2", w.h2}, {"H3", w.h3}, {"H0", w.h0}}
	n := r.IntN(6)
	nrc := &c19Netrc{layout: r.IntN(c19Layouts), viaEnv: r.IntN(2) == 0}
	for i := 0; i < n; i++ {
		h := hosts[r.IntN(len(hosts))]
		m := c19Machine{host: h.val, hname: h.name, login: fmt.Sprintf("u%d", i)}
		if r.IntN(10) < 7 {
			m.pw = fmt.Sprintf("Nw%dp", i)
		}
		nrc.ms = append(nrc.ms, m)
	}
	if r.IntN(2) == 0 {
		def := c19Machine{def: true, login: "ud", pw: "NwDp"}
		if r.IntN(5) == 0 {
			def.pw = ""
		}
		at := r.IntN(len(nrc.ms) + 1)
		if r.IntN(2) == 0 {
			at = len(nrc.ms)
		}
		nrc.ms = append(nrc.ms[:at], append([]c19Machine{def}, nrc.ms[at:]...)...)
	}
	return nrc
}

func c19RunE(c *core.C, idx int) {
	w := c19GetWorld()
	st := newC19Stats()
	defer st.flush(c)
	home := c19Home(c)
	defer os.RemoveAll(home)
	hosts := []string{w.h1, w.h2, w.h3, w.h0}
	hnames := []string{"H1", "H2", "H3", "H0"}
	n := c.Pick(60, 200)
	var parser model.TokenParser
	for i := 0; i < n; i++ {
		s, sym := c19RandomToken(c, w)
		nrc := c19RandomNetrc(c, w)
		cfg := parser.Parse(s)
		st.counters["random_configs"]++
		c.Distinct("random_env_shapes", fmt.Sprintf("%s%s entries=%d", cfg.Kind, c19Slash(cfg.Reason), len(cfg.Entries)))
		if cfg.Kind == model.TokMap && len(cfg.Entries) >= 3 {
			st.counters["random_maps_with_3plus_entries"]++
			c.Nontrivial(fmt.Sprintf("random map entries=%d netrc=%s", len(cfg.Entries), nrc.shape()))
		}
		env := c19Env(home, s, nrc)
		container := c19AppContainer(env)
		envProv, err := bufconnect.NewTokenProviderFromContainer(container)
		if err != nil {
			c19JudgeRejected(c, st, "interceptor", sym, cfg, err)
		} else {
			netrcProv := bufconnect.NewNetrcTokenProvider(container, netrc.GetMachineForName)
			for hi, h := range hosts {
				got := c19Chain(envProv, netrcProv, h)
				c19Judge(c, st, w, &c19Obs{boundary: "interceptor", s: s, sym: sym, cfg: cfg, nrc: nrc, hname: hnames[hi], h: h, got: got})
				st.counters["chain_evals"]++
			}
		}
		c19Wire(c, st, w, home, s, sym, nrc, i)
		if idx == 0 && i < 2 {
			c.Sample(map[string]any{"part": "E random", "BUF_TOKEN": sym, "netrc": nrc.String()})
		}
	}
}

// ---- part F: .netrc field values that are netrc keywords ---------------------------------------

// A login value is an arbitrary word of the file; the words `default` and `machine` are legal
// values. The credentials of such an entry still belong to its machine only.

func c19FCases(tier string) int {
	if tier == "thorough" {
		return 32
	}
	return 8
}

func c19RunF(c *core.C, idx int) {
	w := c19GetWorld()
	st := newC19Stats()
	defer st.flush(c)
	home := c19Home(c)
	defer os.RemoveAll(home)
	hosts := []string{w.h1, w.h2, w.h3, w.h0}
	hnames := []string{"H1", "H2", "H3", "H0"}
	var parser model.TokenParser
	bases := [][]c19Machine{
		{{host: w.h1, hname: "H1", login: "u0", pw: "Nw0p"}, {host: w.h2, hname: "H2", login: "u1", pw: "Nw1p"}},
		{{host: w.h1, hname: "H1", login: "u0", pw: "Nw0p"}, {host: w.h2, hname: "H2", login: "u1", pw: "Nw1p"}, {def: true, login: "ud", pw: "NwDp"}},
		{{host: w.h2, hname: "H2", login: "u0", pw: "Nw0p"}},
		{{host: w.h2, hname: "H2", login: "u0", pw: "Nw0p"}, {host: w.h1, hname: "H1", login: "u1"}},
		{{host: w.h3, hname: "H3", login: "u0", pw: "Nw0p"}, {host: w.h1, hname: "H1", login: "u1", pw: "Nw1p"}, {host: w.h2, hname: "H2", login: "u2", pw: "Nw2p"}},
	}
	if c.Thorough() {
		// every 11th structure of part B with at least one machine as further bases
		for si, st := range c19NetrcStructures(w, "quick") {
			if si%11 == 0 && len(st.ms) > 0 && !st.ms[0].def {
				bases = append(bases, st.ms)
			}
		}
	}
	envs := []c19EnvRep{{"", ""}, {c19T1 + "@" + w.h2, "t1 @ H2"}}
	n := 0
	for bi, base := range bases {
		for pos := range base {
			if base[pos].def {
				continue
			}
			for _, kw := range []string{"default", "machine"} {
				for layout := 0; layout < 4; layout++ {
					n++
					if n%c19FCases(c.Tier) != idx {
						continue
					}
					ms := append([]c19Machine{}, base...)
					ms[pos].login = kw
					nrc := &c19Netrc{ms: ms, layout: layout, viaEnv: (bi+layout)%2 == 1}
					st.counters["netrc_keyword_login_files"]++
					c.Distinct("netrc_keyword_login", fmt.Sprintf("login=%s layout=%d", kw, layout))
					func() {
						// the dependency's parser indexes past the end of the file when the keyword-valued
						// login is the last word: reported under the feature key, not as an anonymous crash
						defer func() {
							if r := recover(); r != nil {
								c.Violation("panic", fmt.Sprintf("feature=netrc-keyword-login login=%s parser-crash", kw),
									fmt.Sprintf("reading netrc=%s panics: %v; file=%q", nrc.String(), r, w.symbolic(nrc.render())), nil)
								st.counters["netrc_keyword_login_panics"]++
							}
						}()
						for _, rep := range envs {
							cfg := parser.Parse(rep.s)
							container := c19AppContainer(c19Env(home, rep.s, nrc))
							envProv, err := bufconnect.NewTokenProviderFromContainer(container)
							if err != nil {
								panic(err)
							}
							netrcProv := bufconnect.NewNetrcTokenProvider(container, netrc.GetMachineForName)
							for hi, h := range hosts {
								got := c19Chain(envProv, netrcProv, h)
								c19Judge(c, st, w, &c19Obs{boundary: "interceptor", s: rep.s, sym: rep.sym, cfg: cfg, nrc: nrc, hname: hnames[hi], h: h, got: got})
								st.counters["chain_evals"]++
							}
						}
						c19Wire(c, st, w, home, "", "", nrc, n)
					}()
				}
			}
		}
	}
}

// ---- case list ------------------------------------------------------------------------------

func c19Cases(tier string) int {
	return c19ACases(tier) + c19BCases(tier) + c19CCases(tier) + c19DCases(tier) + c19ECases(tier) + c19FCases(tier)
}

func c19Run(c *core.C, idx int) {
	a, b, cc, d := c19ACases(c.Tier), c19BCases(c.Tier), c19CCases(c.Tier), c19DCases(c.Tier)
	switch {
	case idx < a:
		c19RunA(c, idx)
	case idx < a+b:
		c19RunB(c, idx-a)
	case idx < a+b+cc:
		c19RunC(c, idx-a-b)
	case idx < a+b+cc+d:
		c19RunD(c, idx-a-b-cc)
	case idx < a+b+cc+d+c19ECases(c.Tier):
		c19RunE(c, idx-a-b-cc-d)
	default:
		c19RunF(c, idx-a-b-cc-d-c19ECases(c.Tier))
	}
}

func c19SortedKeys(m map[string]bool) []string {
	var out []string
	for k := range m {
		out = append(out, k)
	}
	sort.Strings(out)
	return out
}

func init() {
	core.Register(&core.Check{
		ID:    "C19",
		Level: "exploration",
		Rule: "A: every BUF_TOKEN string that is a concatenation of ≤7 (thorough ≤9) symbols of {t1 t2 @ , : H1 H2 H3} (the empty symbol is the shorter strings; H1,H2 = addresses of two loopback servers, H3 = a proper prefix of H1, H0 = a third live server no configuration mentions) " +
			"→ bufconnect.NewTokenProviderFromContainer → RemoteToken(h) for h∈{H1,H2,H3,H0}; sharded by the first two symbols. " +
			"B: every .netrc with 0..3 (0..4) machines over {H1,H2,H3} incl. repeated names, each with or without password, default entry absent/last/first/without password(/middle), rendered in 4 (5) layouts, found via $HOME or $NETRC " +
			"→ NewNetrcTokenProvider alone and, combined with 22 (22+64) BUF_TOKEN strings, through the real NewAuthorizationInterceptorProvider(env,netrc)(h) with a terminal stub. " +
			"C: real client stack bufcli.NewConnectClientConfig → connectclient.Make (clients for all hosts made from ONE config) → AuthnService.GetCurrentUser against the loopback servers, for every string of ≤5 (≤6) symbols with a rotating .netrc variant (thorough: all 6 variants for ≤4 symbols) and for one representative of every behaviour class found in each shard of A. " +
			"D: `buf registry whoami <host>` in-process for the B string list × 6 .netrc variants. " +
			"F (generator feature netrc-keyword-login): .netrc files in which one machine's login VALUE is the word `default` or `machine`, 4 layouts, through interceptor and wire. " +
			"E (seeded by VERIF_SEED): 64×60 (320×200) random configurations beyond the exhaustive bound — BUF_TOKEN of 1..5 entries over hosts {H1,H2,H3,H0,H1:,H2H1} with 1/8 damaged entries, random .netrc of 0..5 machines over {H1,H2,H3,H0} with optional default anywhere — through interceptor and wire. " +
			"distinct/non-trivial = behaviour classes (model kind/reason, number of entries, accepted/rejected, set of hosts that get a token) of non-empty strings, plus distinct .netrc structures",
		Assumptions: []string{
			"token symbols are the concrete values Tk1q/Tk2z (env) and Nw<i>p/NwDp (.netrc); hosts are 127.0.0.1:<port> addresses, so every host contains ':' and H1/H2/H3 share a long common prefix",
			"grammar corners the statement leaves open (':' inside a token, one host keyed twice) are only held to the non-leak invariant; clearly malformed strings (empty entry, several '@', empty token/host, host-less token mixed with others) must be rejected or at least never applied",
			".netrc: a machine entry without password may yield no token or the default entry's; a default entry placed before the machine may win (classic netrc semantics); otherwise first machine of that name, else default",
			"the wire boundary uses plain HTTP (tls.use: false in the buf config file); redirects, proxies and TLS are not part of the workload",
		},
		Exhaustive: true,
		Cases:      c19Cases,
		Run:        c19Run,
		Required: []string{"provider_strings", "provider_tokens_attached", "env_token_of_other_host_withheld", "malformed_rejected", "netrc_files", "chain_evals",
			"env_wins_over_netrc", "netrc_role_netrc-default", "netrc_role_netrc-machine", "wire_configs", "wire_requests", "wire_with_token", "wire_without_token", "wire_rejected_configs",
			"cli_runs", "cli_requests", "cli_with_token", "wire_class_representatives", "random_configs", "random_maps_with_3plus_entries", "netrc_keyword_login_files"},
	})
}
