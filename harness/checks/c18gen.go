package checks

import (
	"encoding/base64"
	"fmt"
	"io"
	"os"
	"path/filepath"

	imagev1 "github.com/bufbuild/buf/private/gen/proto/go/buf/alpha/image/v1"
	"github.com/bufbuild/verifharness/core"
	"github.com/bufbuild/verifharness/gen"
	"github.com/bufbuild/verifharness/run"
	"google.golang.org/protobuf/proto"
	"google.golang.org/protobuf/types/descriptorpb"
	"google.golang.org/protobuf/types/pluginpb"
)

// The recording plugin: `verif helper c18plugin` answers a CodeGeneratorRequest with one file
// holding the request itself, so that the check sees exactly what a plugin is handed.
func init() {
	core.RegisterHelper("c18plugin", func([]string) int {
		data, err := io.ReadAll(os.Stdin)
		if err != nil {
			return 1
		}
		resp := &pluginpb.CodeGeneratorResponse{
			SupportedFeatures: proto.Uint64(uint64(pluginpb.CodeGeneratorResponse_FEATURE_PROTO3_OPTIONAL) | uint64(pluginpb.CodeGeneratorResponse_FEATURE_SUPPORTS_EDITIONS)),
			MinimumEdition:    proto.Int32(int32(descriptorpb.Edition_EDITION_PROTO2)),
			MaximumEdition:    proto.Int32(int32(descriptorpb.Edition_EDITION_2023)),
			File: []*pluginpb.CodeGeneratorResponse_File{{
				Name:    proto.String("c18req.b64"),
				Content: proto.String(base64.StdEncoding.EncodeToString(data)),
			}},
		}
		out, err := proto.Marshal(resp)
		if err != nil {
			return 1
		}
		os.Stdout.Write(out)
		return 0
	})
}

// c18GenerateSample runs the CLI route for one workload: `buf build -o` gives the descriptors
// before managed mode, `buf generate` with the recording plugin the descriptors after it.
func c18GenerateSample(c *core.C, w *c18Workload, idx int) {
	dir := filepath.Join(c.Tmp, "c18ws")
	home := filepath.Join(c.Tmp, "c18home")
	os.RemoveAll(dir)
	defer os.RemoveAll(dir)
	defer os.RemoveAll(home)
	exe := core.SelfExe()
	pluginV2 := fmt.Sprintf("  - local: [%q, \"helper\", \"c18plugin\"]\n    out: gen\n    strategy: all\n", exe)
	pluginV1 := fmt.Sprintf("  - name: c18\n    path: [%q, \"helper\", \"c18plugin\"]\n    out: gen\n    strategy: all\n", exe)
	files := w.schema.WorkspaceFiles(w.schema.Render(), gen.WorkspaceOpts{Version: "v2"})
	if err := run.WriteTree(dir, files); err != nil {
		c.Note("generate sample: %v", err)
		return
	}
	env := run.BufEnv(home, nil)
	o := run.Buf(dir, env, nil, "build", "-o", "before.binpb")
	if o.Code != 0 {
		c.Violation("harness-workload", "buf-build", fmt.Sprintf("buf build failed on the generated workspace: %s", o.Stderr), nil)
		return
	}
	data, err := os.ReadFile(filepath.Join(dir, "before.binpb"))
	if err != nil {
		c.Note("generate sample: %v", err)
		return
	}
	for k := 0; k < c.Pick(2, 4); k++ {
		version, yaml, cfg := c18MakeConfig(c, w, idx, k, "gen", pluginV1, pluginV2)
		// both sides are decoded from the wire without a resolver, so custom options are unknown
		// fields on both and compare byte for byte
		pimg := &imagev1.Image{}
		if err := proto.Unmarshal(data, pimg); err != nil {
			c.Note("generate sample: %v", err)
			return
		}
		type builtFile struct {
			facts c18FileFacts
			fd    *descriptorpb.FileDescriptorProto
		}
		var built []builtFile
		for _, pf := range pimg.GetFile() {
			ext := pf.GetBufExtension()
			pf.ClearBufExtension()
			fd := &descriptorpb.FileDescriptorProto{}
			if err := proto.Unmarshal(c18Bytes(pf), fd); err != nil {
				c.Note("generate sample: %v", err)
				return
			}
			facts := c18FileFacts{Path: fd.GetName(), Package: fd.GetPackage()}
			if n := ext.GetModuleInfo().GetName(); n != nil && n.GetRepository() != "" {
				facts.Module = n.GetRemote() + "/" + n.GetOwner() + "/" + n.GetRepository()
			}
			if _, own := w.sources[fd.GetName()]; !own {
				facts.WKT = true
			}
			built = append(built, builtFile{facts, fd})
		}
		os.RemoveAll(filepath.Join(dir, "gen"))
		if err := os.WriteFile(filepath.Join(dir, "buf.gen.yaml"), []byte(yaml), 0o644); err != nil {
			c.Note("generate sample: %v", err)
			return
		}
		o := run.Buf(dir, env, nil, "generate")
		c.Eval(1)
		if o.Code != 0 {
			c.Violation("modify-error", "buf-generate", fmt.Sprintf("buf generate failed: %s\n%s", o.Stderr, yaml), nil)
			continue
		}
		enc, err := os.ReadFile(filepath.Join(dir, "gen", "c18req.b64"))
		if err != nil {
			c.Violation("modify-error", "buf-generate-no-request", fmt.Sprintf("the recording plugin left no request: %v\n%s", err, yaml), nil)
			continue
		}
		raw, err := base64.StdEncoding.DecodeString(string(enc))
		req := &pluginpb.CodeGeneratorRequest{}
		if err == nil {
			err = proto.Unmarshal(raw, req)
		}
		if err != nil {
			c.Note("generate sample: undecodable request: %v", err)
			continue
		}
		after := map[string]*descriptorpb.FileDescriptorProto{}
		for _, f := range req.ProtoFile {
			after[f.GetName()] = f
		}
		for _, f := range req.SourceFileDescriptors {
			after[f.GetName()] = f // unstripped form of a file to generate
		}
		obs := &c18Obs{tag: "generate", yaml: yaml, version: version, cfg: cfg, siTrusted: func(string) bool { return true }}
		t := &c18Tally{}
		seen := 0
		for _, bf := range built {
			a := after[bf.facts.Path]
			if a == nil {
				c.Violation("frame", "request.file-missing", fmt.Sprintf("file %s of the built image is absent from the plugin request\n%s", bf.facts.Path, yaml), nil)
				continue
			}
			seen++
			c18Judge(c, obs, bf.facts, bf.fd, a, t)
		}
		if seen != len(after) {
			c.Violation("frame", "request.file-extra", fmt.Sprintf("the plugin request holds %d files, the built image %d\n%s", len(after), seen, yaml), nil)
		}
		t.flush(c)
		c.Count("generate_samples", 1)
		c.Count("generate_"+version, 1)
		if cfg.Enabled && t.rewFile+t.rewJS > 0 {
			c.Count("generate_samples_with_rewrites", 1)
		}
	}
}
