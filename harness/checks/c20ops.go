package checks

import (
	"bytes"
	"fmt"
	"os"
	"path/filepath"
	"strings"

	"github.com/bufbuild/verifharness/core"
	"github.com/bufbuild/verifharness/run"
)

// Operational-error catalogue of C20: faults that are not problems of the user's Protobuf sources.
// Every (fault, command) pair must end with a status other than 0 and 100 and a message on stderr,
// whatever --error-format is requested, and must not print annotations.

type c20Fault struct {
	name string
	// cmds the fault applies to (subset of build, lint, breaking, format)
	cmds []string
	// setup mutates the (clean, buildable) workspace in dir; may be nil
	setup func(dir string) error
	// extra arguments appended to the command
	extra []string
	// input replaces the default input argument (".") when non-empty
	input string
	// dropAgainst: run breaking without its --against flag
	dropAgainst bool
	// against replaces the --against value
	against string
}

var c20AllCmds = []string{"build", "lint", "breaking", "format"}

func c20WriteFile(path, content string) error {
	if err := os.MkdirAll(filepath.Dir(path), 0o755); err != nil {
		return err
	}
	return os.WriteFile(path, []byte(content), 0o644)
}

func c20Faults() []c20Fault {
	yaml := func(content string) func(string) error {
		return func(dir string) error { return c20WriteFile(filepath.Join(dir, "buf.yaml"), content) }
	}
	faults := []c20Fault{
		{name: "missing-input-directory", cmds: c20AllCmds, input: "/nonexistent-c20/dir"},
		{name: "missing-relative-input", cmds: c20AllCmds, input: "no/such/dir"},
		{name: "input-unknown-format", cmds: c20AllCmds, input: ".#format=nope"},
		{name: "empty-input-directory", cmds: c20AllCmds, setup: func(dir string) error {
			os.RemoveAll(filepath.Join(dir, "proto"))
			os.Remove(filepath.Join(dir, "buf.yaml"))
			return nil
		}},
		{name: "buf-yaml-symlink-loop", cmds: c20AllCmds, setup: func(dir string) error {
			os.Remove(filepath.Join(dir, "buf.yaml"))
			return os.Symlink("buf.yaml", filepath.Join(dir, "buf.yaml"))
		}},
		{name: "buf-yaml-syntax-error", cmds: c20AllCmds, setup: yaml("version: v2\nmodules: [\n")},
		{name: "buf-yaml-unknown-version", cmds: c20AllCmds, setup: yaml("version: v9\n")},
		{name: "buf-yaml-unknown-key", cmds: c20AllCmds, setup: yaml("version: v2\nmodules:\n  - path: proto\nnonsense_key: 1\n")},
		{name: "buf-yaml-duplicate-module", cmds: c20AllCmds, setup: yaml("version: v2\nmodules:\n  - path: proto\n  - path: proto\n")},
		{name: "buf-yaml-module-directory-missing", cmds: c20AllCmds, setup: yaml("version: v2\nmodules:\n  - path: nonexistent\n")},
		{name: "buf-yaml-unknown-rule", cmds: []string{"lint", "breaking"}, setup: yaml("version: v2\nmodules:\n  - path: proto\nlint:\n  use:\n    - NOPE\nbreaking:\n  use:\n    - NOPE\n")},
		{name: "flag-error-format-invalid", cmds: c20AllCmds, extra: []string{"--error-format=nope"}},
		{name: "flag-unknown", cmds: c20AllCmds, extra: []string{"--nonsense"}},
		{name: "flag-timeout-invalid", cmds: c20AllCmds, extra: []string{"--timeout=abc"}},
		{name: "flag-path-outside-input", cmds: c20AllCmds, extra: []string{"--path", "/etc"}},
		{name: "flag-path-matches-nothing", cmds: []string{"build", "lint", "breaking"}, extra: []string{"--path", "proto/a/v1/none.proto"}},
		{name: "flag-config-invalid-data", cmds: c20AllCmds, extra: []string{"--config", `{"version":`}},
		{name: "flag-config-unknown-version", cmds: c20AllCmds, extra: []string{"--config", `{"version":"v9"}`}},
		{name: "flag-config-missing-file", cmds: c20AllCmds, extra: []string{"--config", "/nonexistent-c20/buf.yaml"}},
		{name: "two-inputs", cmds: c20AllCmds, input: ".", extra: []string{"."}},
		{name: "breaking-without-against", cmds: []string{"breaking"}, dropAgainst: true},
		{name: "breaking-against-missing", cmds: []string{"breaking"}, against: "/nonexistent-c20/old.binpb"},
		{name: "breaking-against-garbage-image", cmds: []string{"breaking"}, against: "garbage.binpb", setup: func(dir string) error {
			return os.WriteFile(filepath.Join(dir, "garbage.binpb"), []byte("\xff\xff\xff\xffnot an image"), 0o644)
		}},
		{name: "build-output-directory-missing", cmds: []string{"build"}, extra: []string{"-o", "/nonexistent-c20/out/image.binpb"}},
		{name: "build-output-unknown-format", cmds: []string{"build"}, extra: []string{"-o", "image.binpb#format=nope"}},
		{name: "format-output-unwritable", cmds: []string{"format"}, extra: []string{"-o", "/proc/nonexistent-c20/out"}},
	}
	if os.Geteuid() != 0 {
		faults = append(faults, c20Fault{name: "buf-yaml-unreadable", cmds: c20AllCmds, setup: func(dir string) error {
			return os.Chmod(filepath.Join(dir, "buf.yaml"), 0)
		}})
	}
	return faults
}

type c20OpCase struct {
	fault c20Fault
	cmd   string
}

func c20OpPairs() []c20OpCase {
	var out []c20OpCase
	for _, f := range c20Faults() {
		for _, cmd := range f.cmds {
			out = append(out, c20OpCase{f, cmd})
		}
	}
	return out
}

func c20OperationalCases(tier string) int {
	n := len(c20OpPairs())
	if tier == "thorough" {
		return n * len(c20Formats)
	}
	return n
}

const c20OpProto = "syntax = \"proto3\";\n\npackage a.v1;\n\n// M is a message.\nmessage M {\n  // Name.\n  string name = 1;\n}\n"
const c20OpYAML = "version: v2\nmodules:\n  - path: proto\nlint:\n  use:\n    - STANDARD\n    - COMMENTS\n"

func c20Operational(c *core.C, k int) {
	pairs := c20OpPairs()
	pc := pairs[k%len(pairs)]
	format := c20Formats[(k/len(pairs)+k)%len(c20Formats)]
	base := filepath.Join(c.Tmp, "c20op")
	os.RemoveAll(base)
	defer os.RemoveAll(base)
	ws, old := filepath.Join(base, "ws"), filepath.Join(base, "old")
	for _, d := range []string{ws, old} {
		if err := run.WriteTree(d, map[string]string{"buf.yaml": c20OpYAML, "proto/a/v1/m.proto": c20OpProto}); err != nil {
			c.Note("write: %v", err)
			return
		}
	}
	env := run.BufEnv(filepath.Join(c.Tmp, "home"), nil)
	bufBin := filepath.Join(core.BinDir(), "buf")
	key := fmt.Sprintf("fault=%s cmd=%s fmt=%s", pc.fault.name, pc.cmd, format)

	argsFor := func(f *c20Fault) []string {
		args := []string{pc.cmd}
		if f != nil && f.input != "" {
			args = append(args, f.input)
		}
		if pc.cmd == "breaking" && (f == nil || !f.dropAgainst) {
			against := "../old"
			if f != nil && f.against != "" {
				against = f.against
			}
			args = append(args, "--against", against)
		}
		if pc.cmd == "format" {
			args = append(args, "--exit-code", "-d")
		}
		args = append(args, "--error-format="+format, "--timeout=0")
		if f != nil {
			args = append(args, f.extra...)
		}
		return args
	}
	// baseline: without the fault the command succeeds (the fault, not the fixture, causes the error)
	b := run.BufExec(bufBin, ws, env, nil, c20SubprocessTimeout, argsFor(nil)...)
	c.Eval(1)
	if b.Code != 0 {
		c.Violation("operational-baseline", key, fmt.Sprintf("the fault-free fixture does not pass: buf %s exits %d: %s", strings.Join(argsFor(nil), " "), b.Code, c20Clip(b.Stderr)), nil)
		return
	}
	if pc.fault.setup != nil {
		if err := pc.fault.setup(ws); err != nil {
			c.Note("fault setup %s: %v", pc.fault.name, err)
			c.Count("fault_setup_failures", 1)
			return
		}
	}
	args := argsFor(&pc.fault)
	so := run.BufExec(bufBin, ws, env, nil, c20SubprocessTimeout, args...)
	io := run.Buf(ws, env, nil, args...)
	c.Eval(2)
	c.Count("operational_runs", 1)
	c.Count("subprocess_runs", 1)
	cmdline := "buf " + strings.Join(args, " ")
	switch {
	case so.Code < 0 || so.Code > 255:
		c.Violation("abnormal-termination", key, fmt.Sprintf("%s ended abnormally (code %d): %s", cmdline, so.Code, c20Clip(so.Stderr)), nil)
	case so.Code == 0:
		c.Violation("operational-error-status-0", key, fmt.Sprintf("%s: operational error but exit status 0; stderr=%s", cmdline, c20Clip(so.Stderr)), nil)
	case so.Code == 100:
		c.Violation("operational-error-status-100", key, fmt.Sprintf("%s: operational error reported with the status reserved for problems in the sources; stderr=%s", cmdline, c20Clip(so.Stderr)), nil)
	default:
		c.Count("status_other_runs", 1)
		c.Distinct("operational_statuses", fmt.Sprint(so.Code))
	}
	if so.Code != 0 && len(bytes.TrimSpace(so.Stderr)) == 0 {
		c.Violation("status-nonzero-silent", key, fmt.Sprintf("%s exited %d with no message on stderr", cmdline, so.Code), nil)
	}
	if (pc.cmd == "lint" || pc.cmd == "breaking" || pc.cmd == "build") && len(bytes.TrimSpace(so.Stdout)) != 0 {
		c.Violation("operational-error-with-annotations", key, fmt.Sprintf("%s printed on stdout although it failed operationally: %q", cmdline, c20Clip(so.Stdout)), nil)
	}
	if io.Code != so.Code {
		c.Violation("subprocess-status-differs", key, fmt.Sprintf("%s: the process exits %d, app.GetExitCode of the same command gives %d", cmdline, so.Code, io.Code), nil)
	}
	c.Nontrivial(fmt.Sprintf("operational fault=%s cmd=%s", pc.fault.name, pc.cmd))
	c.Distinct("operational_faults", pc.fault.name)
	if k < 3 {
		c.Sample(map[string]any{"fault": pc.fault.name, "command": cmdline, "status": so.Code, "stderr": c20Clip(so.Stderr)})
	}
}
