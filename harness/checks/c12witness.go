package checks

import (
	"fmt"

	"github.com/bufbuild/verifharness/core"
	"github.com/bufbuild/verifharness/gen"
	"google.golang.org/protobuf/proto"
	"google.golang.org/protobuf/types/descriptorpb"
)

// Permanent regression cases of C12: the minimal witnesses of the defects the random workload
// found on the pinned tree, judged by the same oracle (run with case 0 of every tier).

type c12WitnessModule struct {
	name        string
	notTargeted bool
	files       map[string]string
}

type c12Witness struct {
	name    string
	modules []c12WitnessModule
	filters []c12Filter
	// repeat: apply each filter (and its second application) this many times; exposes results
	// that depend on map iteration order
	repeat int
}

const c12WitnessOpts = `syntax = "proto2";
package o;
import "google/protobuf/descriptor.proto";
import "google/protobuf/any.proto";
message Meta { optional google.protobuf.Any payload = 1; }
extend google.protobuf.MessageOptions { optional Meta meta = 50001; optional string tag = 50002; }
extend google.protobuf.FieldOptions { optional string ftag = 50001; }
`

func c12Witnesses() []c12Witness {
	one := func(files map[string]string) []c12WitnessModule { return []c12WitnessModule{{files: files}} }
	f := func(inc, exc []string) c12Filter {
		return c12Filter{inc: inc, exc: exc, customOptions: true, knownExt: true}
	}
	return []c12Witness{
		{name: "typeless-file", modules: one(map[string]string{"a.proto": `syntax = "proto3"; package a; message A{} message B{}`, "empty.proto": `syntax = "proto3"; package a;`}),
			filters: []c12Filter{f(nil, []string{"a.B"}), f([]string{"a"}, nil), f([]string{"a.A"}, nil)}},
		{name: "all-files-filtered", modules: one(map[string]string{"a.proto": `syntax = "proto3"; package a; message A{}`}),
			filters: []c12Filter{f(nil, []string{"a"}), f(nil, []string{"a.A"})}},
		{name: "rpc-type-excluded", modules: one(map[string]string{"a.proto": `syntax = "proto3"; package a; message Req{} message Resp{} message Other{} service S { rpc M(Req) returns (Resp); rpc N(Other) returns (Other); }`}),
			filters: []c12Filter{f(nil, []string{"a.Resp"}), f(nil, []string{"a.Req"}), f([]string{"a.S"}, []string{"a.Resp"}), f([]string{"a.S.M"}, []string{"a.Req"}), f([]string{"a.S", "a.S.M"}, []string{"a.Resp"})}},
		{name: "map-value-excluded", modules: one(map[string]string{"a.proto": `syntax = "proto3"; package a; message V{} enum E { E_UNSPECIFIED = 0; } message M { map<string, V> m = 1; int32 x = 2; map<int32, E> e = 3; }`}),
			filters: []c12Filter{f(nil, []string{"a.V"}), f(nil, []string{"a.E"}), f([]string{"a.M"}, []string{"a.V"}), f(nil, []string{"a.M.MEntry"})}},
		{name: "oneof-index", modules: one(map[string]string{"a.proto": `syntax = "proto3"; package a; message V{} message M { optional V v = 1; optional int32 x = 2; oneof k { V kv = 3; } oneof l { string ls = 4; V lv = 5; } optional string y = 6; }`}),
			filters: []c12Filter{f(nil, []string{"a.V"}), f([]string{"a.M"}, []string{"a.V"}), {exc: []string{"a.V"}, customOptions: true, knownExt: true, inPlace: true}}},
		{name: "imported-file", modules: []c12WitnessModule{
			{name: "buf.test/w/main", files: map[string]string{"a.proto": `syntax = "proto3"; package a; import "dep.proto"; message A { dep.Used u = 1; } message B {}`}},
			{name: "buf.test/w/dep", notTargeted: true, files: map[string]string{
				"dep.proto":   `syntax = "proto3"; package dep; import "other.proto"; message Used {} message Unused { other.O o = 1; } service DS { rpc M(Used) returns (other.O); }`,
				"other.proto": `syntax = "proto3"; package other; message O {}`}}},
			filters: []c12Filter{f(nil, []string{"a.B"}), f(nil, []string{"other.O"}), f(nil, []string{"dep.Used"})}},
		{name: "custom-options", modules: one(map[string]string{"o.proto": c12WitnessOpts,
			"a.proto": `syntax = "proto3"; package a; import "o.proto"; message P {} message Q {} message A { option (o.tag) = "t"; option (o.meta) = { payload: { [type.googleapis.com/a.P]: {} } }; string s = 1 [(o.ftag) = "f"]; } message B { option (o.tag) = "b"; }`}),
			filters: []c12Filter{f(nil, []string{"o.tag"}), f(nil, []string{"o.Meta"}), f([]string{"a.A"}, []string{"o.Meta"}), f([]string{"a.A"}, []string{"o.tag", "o.ftag"}), f([]string{"a.A", "o.tag"}, nil), f([]string{"a.B", "o.tag"}, nil), f([]string{"a.A"}, []string{"a.P"})},
			repeat:  24},
		{name: "known-extensions", modules: one(map[string]string{"e.proto": `syntax = "proto2"; package e; message Host { extensions 100 to 200; } message T { extensions 100 to 200; } message U { extensions 100 to 200; }
extend Host { optional T t = 100; } extend T { optional U u = 100; } extend U { optional string deep = 100; }`}),
			filters: []c12Filter{f([]string{"e.Host"}, nil), f([]string{"e.t"}, nil), f([]string{"e.t", "e.T"}, nil)}, repeat: 24},
	}
}

func c12RunWitnesses(c *core.C) {
	for _, wt := range c12Witnesses() {
		w := &c12Workload{schema: &gen.Schema{}, features: map[string]bool{"witness:" + wt.name: true}}
		for i, m := range wt.modules {
			w.schema.Modules = append(w.schema.Modules, &gen.Module{Dir: fmt.Sprintf("m%d", i), Name: m.name})
			w.texts = append(w.texts, m.files)
			w.notTargeted = append(w.notTargeted, m.notTargeted)
		}
		img, err := c12BuildImage(w)
		if err != nil {
			c.Violation("harness-workload-invalid", "witness:"+wt.name, fmt.Sprintf("witness image does not build: %v", err), nil)
			continue
		}
		var orig []*descriptorpb.FileDescriptorProto
		imp := map[string]bool{}
		ci := &c12Image{img: img}
		for _, f := range img.Files() {
			orig = append(orig, proto.Clone(f.FileDescriptorProto()).(*descriptorpb.FileDescriptorProto))
			imp[f.Path()] = f.IsImport()
			ci.pristine = append(ci.pristine, c12Canon(f.FileDescriptorProto()))
			ci.paths = append(ci.paths, f.Path())
		}
		ix, err := c12BuildIndex(orig, imp, true)
		if err != nil {
			c.Violation("harness-workload-invalid", "witness:"+wt.name, err.Error(), nil)
			continue
		}
		cat := c12MakeCatalog(ix)
		for i := range wt.filters {
			f := wt.filters[i]
			for _, n := range f.inc {
				f.tags = append(f.tags, cat.tag("inc", n))
			}
			for _, n := range f.exc {
				f.tags = append(f.tags, cat.tag("exc", n))
			}
			for rep := 0; rep < max(1, wt.repeat); rep++ {
				c12One(c, ci, ix, w, &f, 0)
				if !c12InputIntact(ci) {
					c.Violation("input-mutated", "copying-mode", fmt.Sprintf("FilterImage without WithMutateInPlace changed its input image; witness %s filter: %s", wt.name, &f), nil)
					return
				}
			}
			c.Count("witness_filters", 1)
		}
	}
}
