package checks

import (
	"context"
	"fmt"
	"github.com/bufbuild/buf/private/pkg/thread"
	"math/rand/v2"
	"os"
	"path/filepath"
	"sort"
	"strings"

	"github.com/bufbuild/buf/private/bufpkg/bufcheck"
	"github.com/bufbuild/buf/private/bufpkg/bufimage"
	"github.com/bufbuild/verifharness/core"
	"github.com/bufbuild/verifharness/gen"
	"github.com/bufbuild/verifharness/run"
)

// C05 — lint reports exactly the style violations that are present.
//
// Workload: clean-by-construction generated workspaces (1–3 modules, several packages and
// directories, nesting, extend blocks, options, three syntaxes) in config versions v1beta1/v1/v2.
// Monitor: bufcheck.Client.Lint in-process, one image per module (module files are targets, the
// rest of the workspace are imports); a sample goes through `buf lint --error-format=json`.
// Oracle:
//   (clean)   for every category X of the version, for every uncategorised rule and for "all
//             rules": the result equals what the reference model of the file-/package-level rules
//             says about the untouched workspace (∅, except for stable→unstable imports that the
//             generator may produce and that are not in any category);
//   (planted) after one catalogue plant at one site: set equality on (rule ID, file, innermost
//             generated declaration containing the reported position) between the observed
//             annotations and plant expectation ∪ file-/package-level model, restricted to the
//             rules the configuration selects (pinned tables);
//   (imports) no annotation in a file that is only an import of the linted module;
//   (cli)     the CLI reports the same annotations as the per-module library calls.

type c05Workspace struct {
	S       *gen.Schema
	R       *gen.Rendered
	Version string
	Table   *c06Table
}

// c05GenConfig draws the generator configuration of a case.
func c05GenConfig(r *rand.Rand) gen.Config {
	cfg := gen.DefaultConfig()
	cfg.Modules = 1 + r.IntN(3)
	cfg.MinFiles, cfg.MaxFiles = 2, 3+r.IntN(3)
	cfg.MaxDepth = 2 + r.IntN(2)
	cfg.Rich = r.IntN(4) == 0
	return cfg
}

// c05Decorate adds conforming shapes the plain generator does not produce: extend blocks nested in
// messages (moved there from the file level, so the workspace stays clean).
func c05Decorate(r *rand.Rand, s *gen.Schema) {
	for _, f := range s.AllFiles() {
		if len(f.Extends) == 0 || len(f.Messages) == 0 || r.IntN(2) == 0 {
			continue
		}
		x := f.Extends[0]
		if strings.HasPrefix(x.Extendee, "google.protobuf.") {
			continue // option extensions are referred to by name
		}
		f.Extends = f.Extends[1:]
		m := f.Messages[r.IntN(len(f.Messages))]
		m.Extends = append(m.Extends, x)
	}
}

func c05AllRules(t *c06Table, withProtovalidate bool) []string {
	var out []string
	for _, r := range t.rulesOfType("lint") {
		if r.Deprecated || (r.ID == "PROTOVALIDATE" && !withProtovalidate) {
			continue
		}
		out = append(out, r.ID)
	}
	return out
}

func toSet(ids []string) map[string]bool {
	m := map[string]bool{}
	for _, id := range ids {
		m[id] = true
	}
	return m
}

type c05Observed struct {
	Rule, File, Elem string
	Ann              lintAnn
}

// c05Compare checks observed annotations of one module against the expected set.
func c05Compare(c *core.C, s *gen.Schema, r *gen.Rendered, modFiles map[string]bool, anns []lintAnn, expected []c05Expect, sel map[string]bool, ctxKey, what string, detail func() map[string]any) bool {
	ok := true
	want := map[string]c05Expect{}
	wantRuleFile := map[string]bool{}
	for _, e := range expected {
		if !sel[e.Rule] || !modFiles[e.File] {
			continue
		}
		want[e.String()] = e
		wantRuleFile[e.Rule+"@"+e.File] = true
	}
	got := map[string]c05Observed{}
	for _, a := range anns {
		if a.Path == "" {
			c.Violation("annotation-without-file", ctxKey+" rule="+a.Rule, fmt.Sprintf("%s: lint annotation without a file: %s", what, a), detail())
			ok = false
			continue
		}
		if !modFiles[a.Path] {
			c.Violation("import-file-reported", ctxKey+" rule="+a.Rule, fmt.Sprintf("%s: annotation on %s, which is not a file of the linted module (only an import): %s", what, a.Path, a), detail())
			ok = false
			continue
		}
		o := c05Observed{Rule: a.Rule, File: a.Path, Elem: c05ElemAt(r, a.Path, a.Line), Ann: a}
		if a.Line <= 1 && a.Col <= 1 {
			// a rule about the file as a whole may report 1:1 (or no position)
			if _, fileLevel := want[c05Expect{o.Rule, o.File, "file"}.String()]; fileLevel {
				o.Elem = "file"
			}
		}
		got[c05Expect{o.Rule, o.File, o.Elem}.String()] = o
	}
	var keys []string
	for k := range want {
		keys = append(keys, k)
	}
	sort.Strings(keys)
	for _, k := range keys {
		if _, found := got[k]; !found {
			e := want[k]
			c.Violation("violation-not-reported", ctxKey+" rule="+e.Rule,
				fmt.Sprintf("%s: expected %s at %s (%s) but lint reported %v", what, e.Rule, e.File, e.Elem, sortedAnnStrings(anns)), detail())
			ok = false
		}
	}
	keys = keys[:0]
	for k := range got {
		keys = append(keys, k)
	}
	sort.Strings(keys)
	for _, k := range keys {
		if _, found := want[k]; found {
			continue
		}
		o := got[k]
		class := "unexpected-annotation"
		if o.Rule == "IMPORT_USED" && c05ShadowedByPublicImport(s, o) {
			// known finding: see c05ShadowedByPublicImport
			c.Violation("used-import-behind-public-import-reported-unused", "rule=IMPORT_USED",
				fmt.Sprintf("%s: lint reported %s although the file uses a type that this import defines (another import re-exports the same file publicly)", what, o.Ann), detail())
			ok = false
			continue
		}
		if wantRuleFile[o.Rule+"@"+o.File] {
			class = "annotation-at-wrong-element"
		} else if !sel[o.Rule] {
			class = "unselected-rule-reported"
		}
		c.Violation(class, ctxKey+" rule="+o.Rule,
			fmt.Sprintf("%s: lint reported %s (resolved to element %s), which is not in the expected set %v", what, o.Ann, o.Elem, expectStrings(want)), detail())
		ok = false
	}
	return ok
}

// c05ShadowedByPublicImport recognises one specific situation: file B imports P directly and uses a
// type P defines, and B also imports a file that (transitively) re-exports P with `import public`.
// The compiler attributes the use to the first import that makes the type visible, and the direct
// import is then reported as unused.
func c05ShadowedByPublicImport(s *gen.Schema, o c05Observed) bool {
	const pre = "import:"
	if !strings.HasPrefix(o.Elem, pre+o.File+":") {
		return false
	}
	imported := strings.TrimPrefix(o.Elem, pre+o.File+":")
	f := s.FileByPath(o.File)
	if f == nil || !s.UsedImportPaths(f)[imported] {
		return false
	}
	var exports func(g *gen.File, seen map[string]bool) bool
	exports = func(g *gen.File, seen map[string]bool) bool {
		if g == nil || seen[g.Path] {
			return false
		}
		seen[g.Path] = true
		for _, im := range s.ImportsOf(g) {
			if im.Public && (im.Path == imported || exports(s.FileByPath(im.Path), seen)) {
				return true
			}
		}
		return false
	}
	for _, im := range s.ImportsOf(f) {
		if im.Path != imported && exports(s.FileByPath(im.Path), map[string]bool{}) {
			return true
		}
	}
	return false
}

func expectStrings(m map[string]c05Expect) []string {
	var out []string
	for k := range m {
		out = append(out, k)
	}
	sort.Strings(out)
	return out
}

func moduleFileSet(m *gen.Module) map[string]bool {
	out := map[string]bool{}
	for _, f := range m.Files {
		out[f.Path] = true
	}
	return out
}

// c05CleanConfigs lists the (label, use) pairs of the clean check.
func c05CleanConfigs(t *c06Table) [][2]any {
	var out [][2]any
	for _, cat := range t.categoriesOfType("lint") {
		out = append(out, [2]any{"category:" + cat, []string{cat}})
	}
	for _, r := range t.rulesOfType("lint") {
		if len(r.Categories) == 0 && !r.Deprecated {
			out = append(out, [2]any{"rule:" + r.ID, []string{r.ID}})
		}
	}
	out = append(out, [2]any{"all", c05AllRules(t, true)})
	out = append(out, [2]any{"default", []string(nil)})
	return out
}

func c05Run(c *core.C, idx int) {
	ctx := context.Background()
	if idx == 0 {
		c05Static(c, ctx)
		return
	}
	version := c06Versions[idx%3]
	table, err := c06LoadTable(version)
	if err != nil {
		c.Violation("harness-catalogue", "table", err.Error(), nil)
		return
	}
	plants, err := c05Plants()
	if err != nil {
		c.Violation("harness-catalogue", "plants", err.Error(), nil)
		return
	}
	client, err := c06NewClient()
	if err != nil {
		c.Violation("library-failed", "client", err.Error(), nil)
		return
	}
	gcfg := c05GenConfig(c.Rand)
	wide := idx%6 == 5
	if wide {
		// a module with many files under a lowered parallelism: the chunked, parallel file conversion of
		// bufprotosource (reached only from 8 × parallelism files on) must not lose or duplicate a file
		gcfg.Modules, gcfg.MinFiles, gcfg.MaxFiles, gcfg.Rich = 1, 18, 22, false
		oldPar := thread.Parallelism()
		thread.SetParallelism(2 + (idx/6)%2)
		defer thread.SetParallelism(oldPar)
	}
	s := gen.Generate(c.Rand, gcfg)
	c05Decorate(c.Rand, s)
	ws := &c05Workspace{S: s, R: s.Render(), Version: version, Table: table}
	has := func(rule string) bool { r := table.rule(rule); return r != nil && r.Type == "lint" && !r.Deprecated }
	caseKey := fmt.Sprintf("case=%d version=%s", idx, version)

	// ---- clean ---------------------------------------------------------------------------
	images := make([]bufimage.Image, len(s.Modules))
	for mi := range s.Modules {
		img, err := c05ModuleImage(ctx, s, ws.R, mi, nil)
		if err != nil {
			c.Note("case %d: generated workspace does not build: %v", idx, err)
			c.Count("generator_rejects", 1)
			return
		}
		images[mi] = img
		if n := len(img.Files()); wide && n/thread.Parallelism() >= 8 {
			c.Count("cases_on_parallel_file_conversion", 1)
			c.Distinct("parallel_file_conversion", fmt.Sprintf("files=%d parallelism=%d remainder=%d", n, thread.Parallelism(), n%thread.Parallelism()))
		}
	}
	for mi, m := range s.Modules {
		baseline := c05GlobalExpect(s, mi, has)
		for _, cc := range c05CleanConfigs(table) {
			label, use := cc[0].(string), cc[1].([]string)
			if (label == "all" || strings.HasSuffix(label, ":STANDARD") || strings.HasSuffix(label, ":DEFAULT") || label == "default") && mi > 0 && !c.Thorough() {
				// PROTOVALIDATE makes these ≈10× slower; quick runs them on the first module only
				continue
			}
			selList, err := table.selection("lint", use, nil)
			if err != nil {
				c.Violation("harness-catalogue", "clean-config "+label, err.Error(), nil)
				continue
			}
			anns, err := c05Lint(ctx, client, c05CheckCfg{Version: version, Use: use}, images[mi])
			c.Eval(1)
			c.Count("clean_lints", 1)
			if err != nil {
				c.Violation("lint-failed", caseKey+" config="+label, fmt.Sprintf("lint of a clean workspace with use:%v failed: %v", use, err), nil)
				continue
			}
			c05Compare(c, s, ws.R, moduleFileSet(m), anns, baseline, toSet(selList), fmt.Sprintf("clean version=%s config=%s", version, label),
				fmt.Sprintf("clean workspace (%s), module %s, use:[%s]", s.Describe(), m.Dir, label), func() map[string]any {
					return map[string]any{"sources": ws.R.Files[m.Dir]}
				})
			c.Distinct("clean_configs", version+"/"+label)
		}
		if len(baseline) > 0 {
			c.Count("clean_baseline_nonempty", 1)
		}
	}
	c.Nontrivial("clean/" + version + "/" + s.Describe())

	// ---- planted ---------------------------------------------------------------------------
	perPlant := c.Pick(2, 4)
	order := c.Rand.Perm(len(plants))
	if !c.Thorough() {
		// quick: a random 40 of the plants per workspace (all of them over the 48 workspaces)
		order = order[:min(40, len(order))]
	}
	cliBudget := c.Pick(2, 6)
	for _, pi := range order {
		p := plants[pi]
		// rules of the stated set that exist in this version
		var stated []string
		for _, r := range p.Spec.Rules {
			if has(r) {
				stated = append(stated, r)
			}
		}
		if len(p.Spec.Rules) > 0 && len(stated) == 0 {
			c.Count("plants_skipped_rule_absent_in_version", 1)
			continue
		}
		probe := &c05Ctx{S: s, Version: version, Table: table, Rand: c.Rand}
		nSites := len(p.Sites(probe))
		if nSites == 0 {
			c.Count("plants_without_site", 1)
			continue
		}
		for _, si := range c05SampleSites(c.Rand, p.Sites(probe), perPlant) {
			x := &c05Ctx{S: s.Clone(), Version: version, Table: table, Rand: c.Rand}
			site := p.Sites(x)[si]
			expected := site.Apply(x)
			c05RunVariant(c, ctx, client, ws, x, p, site, expected, stated, has, &cliBudget, idx)
		}
	}
}

// c05SampleSites picks up to n site indices, spreading over distinct site descriptions.
func c05SampleSites(r *rand.Rand, sites []c05Site, n int) []int {
	groups := map[string][]int{}
	var descs []string
	for i, s := range sites {
		if _, ok := groups[s.Desc]; !ok {
			descs = append(descs, s.Desc)
		}
		groups[s.Desc] = append(groups[s.Desc], i)
	}
	r.Shuffle(len(descs), func(i, j int) { descs[i], descs[j] = descs[j], descs[i] })
	var out []int
	for round := 0; len(out) < n && round < len(sites); round++ {
		progress := false
		for _, d := range descs {
			g := groups[d]
			if len(g) == 0 {
				continue
			}
			k := r.IntN(len(g))
			out = append(out, g[k])
			groups[d] = append(g[:k:k], g[k+1:]...)
			progress = true
			if len(out) >= n {
				break
			}
		}
		if !progress {
			break
		}
	}
	return out
}

func c05RunVariant(c *core.C, ctx context.Context, client bufcheck.Client, ws *c05Workspace, x *c05Ctx, p *c05Plant, site c05Site,
	expected []c05Expect, stated []string, has func(string) bool, cliBudget *int, idx int) {
	table, version := ws.Table, ws.Version
	planted := x.S
	pr := planted.Render()
	isPV := strings.HasPrefix(p.Spec.ID, "protovalidate-")
	// configuration
	cfg := c05CheckCfg{Version: version, Opts: x.Opts}
	cfgKind := "all"
	switch k := c.Rand.IntN(20); {
	case k < 10 || len(stated) == 0 && k < 14:
		cfg.Use = c05AllRules(table, isPV)
	case k < 17:
		// a category that contains one of the stated rules (any category for a silent plant)
		cats := table.categoriesOfType("lint")
		if len(stated) > 0 {
			r := table.rule(stated[c.Rand.IntN(len(stated))])
			if len(r.Categories) > 0 {
				cats = r.Categories
			} else {
				cats = nil
			}
		}
		if len(cats) == 0 {
			cfg.Use = stated
			cfgKind = "rules"
		} else {
			cat := cats[c.Rand.IntN(len(cats))]
			cfg.Use = []string{cat}
			cfgKind = "category:" + cat
			if !isPV && has("PROTOVALIDATE") {
				cfg.Except = []string{"PROTOVALIDATE"}
			}
		}
	default:
		cfg.Use = stated
		cfgKind = "rules"
		if len(stated) == 0 {
			cfg.Use = c05AllRules(table, isPV)
			cfgKind = "all"
		}
	}
	selList, err := table.selection("lint", cfg.Use, cfg.Except)
	if err != nil {
		c.Violation("harness-catalogue", "variant-config", err.Error(), nil)
		return
	}
	sel := toSet(selList)
	ctxKey := fmt.Sprintf("plant=%s version=%s", p.Spec.ID, version)
	what := fmt.Sprintf("plant %s at %s (config %s, options %s)", p.Spec.ID, site.Desc, cfgKind, x.Opts)

	// modules whose image changed: own files changed, or a dependency's files changed
	changed := map[int]bool{}
	for mi, m := range planted.Modules {
		var before map[string]string
		if mi < len(ws.S.Modules) {
			before = ws.R.Files[ws.S.Modules[mi].Dir]
		}
		after := pr.Files[m.Dir]
		if len(before) != len(after) {
			changed[mi] = true
			continue
		}
		for pth, text := range after {
			if before[pth] != text {
				changed[mi] = true
			}
		}
	}
	lintAll := c.Rand.IntN(4) == 0 || len(x.Extra) > 0 || x.Opts != (c05LintOpts{})
	var union []lintAnn
	unionOK := true
	anyStated := false
	for mi, m := range planted.Modules {
		affected := changed[mi]
		for mj := range changed {
			if mj != mi && moduleDependsOn(planted, mi, mj) {
				affected = true
			}
		}
		if !affected && !lintAll {
			unionOK = false
			continue
		}
		img, err := c05ModuleImage(ctx, planted, pr, mi, x.Extra)
		if err != nil {
			// the plant produced something that does not compile: a generator defect, not buf's
			c.Count("plant_rejected_by_compiler", 1)
			c.Distinct("plant_rejects", p.Spec.ID)
			c.Note("plant %s at %s does not compile: %v", p.Spec.ID, site.Desc, firstLine(err.Error()))
			return
		}
		anns, err := c05Lint(ctx, client, cfg, img)
		c.Eval(1)
		if err != nil {
			c.Violation("lint-failed", ctxKey, fmt.Sprintf("%s: lint failed: %v", what, err), nil)
			return
		}
		union = append(union, annsWithPrefix(anns, m.Dir)...)
		exp := append(append([]c05Expect{}, expected...), c05GlobalExpect(planted, mi, has)...)
		for _, e := range exp {
			if sel[e.Rule] && moduleFileSet(m)[e.File] {
				for _, sr := range stated {
					if sr == e.Rule {
						anyStated = true
					}
				}
			}
		}
		c05Compare(c, planted, pr, moduleFileSet(m), anns, exp, sel, ctxKey, what, func() map[string]any {
			return map[string]any{"sources": pr.Files[m.Dir], "use": cfg.Use, "except": cfg.Except, "options": x.Opts.String()}
		})
	}
	c.Count("planted_variants", 1)
	if len(stated) > 0 && !anyStated && cfgKind != "rules" {
		// e.g. the options make the plant silent, or the category does not contain the rule
		c.Count("variants_expecting_silence", 1)
	}
	if len(stated) == 0 {
		c.Count("conforming_variants", 1)
	}
	c.Nontrivial(p.Spec.ID + "|" + site.Desc)
	c.Distinct("plants", p.Spec.ID)
	c.Distinct("configs", version+"/"+cfgKind+"/"+x.Opts.String())
	for _, r := range stated {
		if sel[r] {
			c.Distinct("rules_planted", version+"/"+r)
		}
	}

	// ---- a sample through the CLI ---------------------------------------------------------------
	// A plant whose verdict depends on a lint option always goes through the CLI as well: the library
	// call above is handed the options directly, only the CLI reads them from buf.yaml (per version).
	optsSet := x.Opts != (c05LintOpts{})
	if optsSet && unionOK && len(x.Extra) == 0 {
		c.Count("cli_comparisons_with_options", 1)
		c.Distinct("cli_option_configs", version+"/"+x.Opts.String())
		c05CLICompare(c, planted, pr, cfg, union, ctxKey, what, idx)
		c05OptionsOnly(c, ctx, client, planted, pr, cfg, ctxKey, what)
	} else if unionOK && len(x.Extra) == 0 && *cliBudget > 0 && c.Rand.IntN(12) == 0 {
		*cliBudget--
		c05CLICompare(c, planted, pr, cfg, union, ctxKey, what, idx)
	}
}

func firstLine(s string) string {
	if i := strings.IndexByte(s, '\n'); i >= 0 {
		return s[:i]
	}
	return s
}

func annsWithPrefix(anns []lintAnn, dir string) []lintAnn {
	out := make([]lintAnn, len(anns))
	for i, a := range anns {
		if a.Path != "" && dir != "" && dir != "." {
			a.Path = dir + "/" + a.Path
		}
		out[i] = a
	}
	return out
}

// c05CLICompare lints the workspace through `buf lint --error-format=json` and compares with the
// union of the per-module library results (paths made workspace-relative).
func c05CLICompare(c *core.C, s *gen.Schema, r *gen.Rendered, cfg c05CheckCfg, lib []lintAnn, ctxKey, what string, idx int) {
	base := filepath.Join(c.Tmp, "c05")
	os.RemoveAll(base)
	defer os.RemoveAll(base)
	wsDir := filepath.Join(base, "ws")
	files := s.WorkspaceFiles(r, gen.WorkspaceOpts{Version: cfg.Version, Lint: cfg.lintYAML("")})
	if err := run.WriteTree(wsDir, files); err != nil {
		c.Note("write tree: %v", err)
		return
	}
	env := run.BufEnv(filepath.Join(base, "home"), nil)
	o := run.Buf(wsDir, env, nil, "lint", "--error-format=json")
	c.Eval(1)
	c.Count("cli_comparisons", 1)
	if o.Code != 0 && o.Code != 100 {
		c.Violation("cli-lint-failed", ctxKey, fmt.Sprintf("%s: buf lint exited %d: %s", what, o.Code, clipN(o.Stderr, 400)), map[string]any{"files": files})
		return
	}
	anns, err := parseAnns(o.Stdout)
	if err != nil {
		c.Violation("cli-output-unparseable", ctxKey, err.Error(), nil)
		return
	}
	var cli []lintAnn
	for _, a := range anns {
		cli = append(cli, lintAnn{Rule: a.Type, Path: a.Path, Line: a.Line, Col: a.Col, EndLine: a.EndLine, EndCol: a.EndCol, Msg: a.Message})
	}
	a, b := annKeys(lib), annKeys(cli)
	var diff []string
	for k := range a {
		if _, ok := b[k]; !ok {
			diff = append(diff, "library-only: "+k)
		}
	}
	for k := range b {
		if _, ok := a[k]; !ok {
			diff = append(diff, "cli-only: "+k)
		}
	}
	if (o.Code == 100) != (len(cli) > 0) {
		diff = append(diff, fmt.Sprintf("exit code %d with %d annotations", o.Code, len(cli)))
	}
	if len(diff) > 0 {
		sort.Strings(diff)
		c.Violation("cli-differs-from-library", ctxKey, fmt.Sprintf("%s: `buf lint` and Client.Lint disagree: %s", what, strings.Join(diff, "; ")), map[string]any{"files": files})
	}
}

// c05Static: the catalogue covers every builtin lint rule of every version, and the pinned tables
// are what the tree under test declares.
func c05Static(c *core.C, ctx context.Context) {
	specs, err := c05LoadPlantSpecs()
	if err != nil {
		c.Violation("harness-catalogue", "plants", err.Error(), nil)
		return
	}
	if _, err := c05Plants(); err != nil {
		c.Violation("harness-catalogue", "plants", err.Error(), nil)
		return
	}
	stated := map[string]bool{}
	for _, sp := range specs {
		for _, r := range sp.Rules {
			stated[r] = true
		}
	}
	client, err := c06NewClient()
	if err != nil {
		c.Violation("library-failed", "client", err.Error(), nil)
		return
	}
	for _, v := range c06Versions {
		pinned, err := c06LoadTable(v)
		if err != nil {
			c.Violation("harness-catalogue", "table "+v, err.Error(), nil)
			continue
		}
		live, err := c06LiveTable(ctx, client, v)
		c.Eval(1)
		if err != nil {
			c.Violation("library-failed", "tables "+v, err.Error(), nil)
			continue
		}
		if d := c06DiffTables(pinned, live); len(d) > 0 {
			c.Violation("rule-table-changed", "version="+v, fmt.Sprintf("the rule/category tables of %s differ from the pinned, reviewed tables: %s", v, strings.Join(d, "; ")), nil)
		}
		for _, r := range live.rulesOfType("lint") {
			if r.Deprecated {
				continue
			}
			if !stated[r.ID] {
				c.Violation("rule-without-plant", "rule="+r.ID, fmt.Sprintf("builtin lint rule %s (%s) has no plant in the catalogue", r.ID, v), nil)
			}
			c.Distinct("builtin_rules", v+"/"+r.ID)
		}
		c.Nontrivial("static/" + v)
	}
}

func init() {
	core.Register(&core.Check{
		ID:    "C05",
		Level: "exploration",
		Rule: "case 0: pinned rule tables vs Client.AllRules/AllCategories and catalogue coverage (every non-deprecated builtin lint rule has ≥1 plant). " +
			"Every other case: one PRNG-generated clean workspace (1–3 modules, 2–6 files each, several packages/directories incl. …/v1 next to …/v1beta1, proto2/proto3/editions, nesting ≤3, oneofs, maps, extend blocks at file level and nested, custom options) in config version v1beta1|v1|v2 (case index mod 3); " +
			"clean clause: every lint category of the version, every uncategorised rule, all rules, and the default configuration, per module; " +
			"planted clause: each of the 99 catalogue plants (catalog/lint_plants.json; 8 of them conforming edits that must stay silent) (quick: a random 40 of them per workspace) at ≤2 (quick) / ≤4 (thorough) sites sampled across distinct (element kind, nesting depth, module index, file index, syntax), " +
			"linted under all rules | one category containing a stated rule | exactly the stated rules, with the rule options the plant toggles (enum_zero_value_suffix, service_suffix, rpc_allow_*); ≈1/12 of the variants also through `buf lint --error-format=json`. " +
			"A case class is distinct per (plant, site description)",
		Assumptions: []string{
			"the element an annotation refers to is the innermost generated declaration whose line span contains the reported start line; which token inside it is reported is not constrained",
			"file-/directory-/package-level rules (PACKAGE_DEFINED, PACKAGE_DIRECTORY_MATCH, PACKAGE_SAME_*, DIRECTORY_SAME_PACKAGE, PACKAGE_NO_IMPORT_CYCLE, STABLE_PACKAGE_NO_IMPORT_UNSTABLE) are predicted by a reference model written from the documented rule texts; all other rules by the plant's stated expectation",
			"PROTOVALIDATE (≈0.2 s per call) is excluded from the configurations of non-protovalidate plants; it is part of the clean clause and of its own plants",
			"IMPORT_NO_WEAK is deprecated without replacement on the pinned tree: a weak import is expected to be silent",
			"trusted: gen renderer spans, ref tables catalog/rules_<version>.json (compared with the live tables in case 0)",
		},
		Cases: func(tier string) int {
			if tier == "thorough" {
				return 193
			}
			return 49
		},
		Run:      c05Run,
		Required: []string{"planted_variants", "clean_lints", "cli_comparisons", "conforming_variants", "cases_on_parallel_file_conversion"},
	})
}
