package checks

import (
	"fmt"
	"strings"

	"github.com/bufbuild/buf/private/buf/buftarget"
	"github.com/bufbuild/buf/private/buf/bufworkspace"
	"github.com/bufbuild/buf/private/bufpkg/bufmodule"
	"github.com/bufbuild/buf/private/bufpkg/bufplugin"
	"github.com/bufbuild/buf/private/pkg/slogext"
	"github.com/bufbuild/buf/private/pkg/storage"
	"github.com/bufbuild/verifharness/model"
)

// Workspace presentation: the universe laid out as a buf workspace (v2 buf.yaml, or v1
// buf.work.yaml + per-module buf.yaml) and loaded through bufworkspace — the construction every CLI
// command uses. In a v2 workspace a module without its own LICENSE / documentation file takes the
// one at the workspace root (documented); the expected digest is the construction over that
// effective module file set.

var c08ConfigNames = map[string]bool{"buf.yaml": true, "buf.lock": true, "buf.work.yaml": true, "buf.gen.yaml": true}

func c08Workspace(e *c08Env, u *c08Universe, ref *c08Digests) {
	c := e.c
	n := len(u.Mods)
	v2 := c.Rand.IntN(3) > 0
	ws := map[string][]byte{}
	dirs := make([]string, n)
	names := make([]string, n)
	for i := range u.Mods {
		dirs[i] = []string{"mods/m%d", "m%d", "proto/deep/er/m%d", "m%d.proto"}[c.Rand.IntN(4)]
		dirs[i] = fmt.Sprintf(dirs[i], i)
		if c.Rand.IntN(2) == 0 {
			names[i] = fmt.Sprintf("buf.build/acme/ws%d", i)
		}
	}
	root := map[string][]byte{}
	if v2 && c.Rand.IntN(2) == 0 {
		if c.Rand.IntN(2) == 0 {
			root["LICENSE"] = []byte("workspace license")
		}
		for _, d := range c08Docs {
			if c.Rand.IntN(3) == 0 {
				root[d] = []byte("workspace doc " + d)
			}
		}
	}
	for p, d := range root {
		ws[p] = d
	}
	effective := make([]map[string][]byte, n)
	for i, m := range u.Mods {
		files := map[string][]byte{}
		for p, d := range m.files() {
			if c08ConfigNames[p] {
				continue // configuration files of the workspace are written below
			}
			files[p] = d
			ws[dirs[i]+"/"+p] = d
		}
		eff := model.ModuleFiles(files)
		if _, ok := eff["LICENSE"]; !ok {
			if d, ok := root["LICENSE"]; ok {
				eff["LICENSE"] = d
			}
		}
		hasDoc := false
		for _, d := range c08Docs {
			if _, ok := eff[d]; ok {
				hasDoc = true
			}
		}
		if !hasDoc {
			for _, d := range c08Docs {
				if data, ok := root[d]; ok {
					eff[d] = data
					break
				}
			}
		}
		effective[i] = eff
	}
	var sb strings.Builder
	if v2 {
		sb.WriteString("version: v2\nmodules:\n")
		for i := range u.Mods {
			sb.WriteString("  - path: " + dirs[i] + "\n")
			if names[i] != "" {
				sb.WriteString("    name: " + names[i] + "\n")
			}
		}
		ws["buf.yaml"] = []byte(sb.String())
	} else {
		sb.WriteString("version: v1\ndirectories:\n")
		for i := range u.Mods {
			sb.WriteString("  - " + dirs[i] + "\n")
			cfg := "version: v1\n"
			if names[i] != "" {
				cfg += "name: " + names[i] + "\n"
			}
			if names[i] != "" || c.Rand.IntN(2) == 0 {
				ws[dirs[i]+"/buf.yaml"] = []byte(cfg)
			}
		}
		ws["buf.work.yaml"] = []byte(sb.String())
	}
	kind := "workspace-v1"
	if v2 {
		kind = "workspace-v2"
		if len(root) > 0 {
			kind = "workspace-v2+root-license-or-doc"
		}
	}
	b := c08Backends[[]int{0, 2, 3, 6}[c.Rand.IntN(4)]]
	name := b.name + "/" + kind
	bucket, err := b.mk(e, "ws", ws)
	if err != nil {
		c.Violation("digest-error", "pres="+name, fmt.Sprintf("backend: %v", err), nil)
		return
	}
	sub := "."
	if c.Rand.IntN(3) == 0 {
		sub = dirs[c.Rand.IntN(n)]
	}
	targeting, err := buftarget.NewBucketTargeting(e.ctx, slogext.NopLogger, bucket, sub, nil, nil, buftarget.TerminateAtControllingWorkspace)
	if err != nil {
		c.Violation("digest-error", "pres="+name, fmt.Sprintf("NewBucketTargeting(%q): %v\n%s", sub, err, c08Describe(u)), nil)
		return
	}
	wp := bufworkspace.NewWorkspaceProvider(slogext.NopLogger, bufmodule.NopGraphProvider, bufmodule.NopModuleDataProvider, bufmodule.NopCommitProvider, bufplugin.NopPluginKeyProvider)
	workspace, err := wp.GetWorkspaceForBucket(e.ctx, storage.ReadBucket(bucket), targeting)
	if err != nil {
		c.Violation("digest-error", "pres="+name, fmt.Sprintf("GetWorkspaceForBucket(sub=%q): %v\nbuf.yaml/buf.work.yaml:\n%s\n%s", sub, err, sb.String(), c08Describe(u)), nil)
		return
	}
	// expected digests over the effective file sets
	cl := u.closure()
	want := make([]string, n)
	done := make([]bool, n)
	var rec func(i int) string
	rec = func(i int) string {
		if !done[i] {
			var deps []string
			for _, j := range cl[i] {
				deps = append(deps, rec(j))
			}
			want[i] = model.B5(effective[i], deps)
			done[i] = true
		}
		return want[i]
	}
	c.Distinct("frame", kind)
	c.Distinct("backend", b.name)
	for i := range u.Mods {
		id := dirs[i]
		if names[i] != "" {
			id = names[i]
		}
		mod := workspace.GetModuleForOpaqueID(id)
		if mod == nil {
			var ids []string
			for _, m := range workspace.Modules() {
				ids = append(ids, m.OpaqueID())
			}
			c.Violation("digest-error", "pres="+name, fmt.Sprintf("module %q not in the workspace (sub=%q); modules: %q", id, sub, ids), nil)
			return
		}
		d5, d4, err := c08ReadDigests(mod)
		if err != nil {
			c.Violation("digest-error", "pres="+name, fmt.Sprintf("module %d (%s) sub=%q: %v\n%s", i, id, sub, err, c08Describe(u)), nil)
			return
		}
		c.Eval(2)
		if d5 != rec(i) {
			c.Violation("b5-differs-from-construction", "pres="+name,
				fmt.Sprintf("module %d (%s): b5 %s in the workspace, construction over its module files %s (reference presentation %s); workspace root files %q\n%s", i, id, d5, want[i], ref.b5[i], c08SortedPaths(root), c08Describe(u)), nil)
		}
		if len(root) == 0 {
			if d5 != ref.b5[i] {
				c.Violation("digest-differs-across-presentations", "pres="+name+" type=b5", fmt.Sprintf("module %d (%s): b5 %s in the workspace, %s under mem/local-all-targets\n%s", i, id, d5, ref.b5[i], c08Describe(u)), nil)
			}
			// a v1 module's b4 also covers its buf.yaml/buf.lock; only v2 is comparable
			if v2 && d4 != ref.b4[i] {
				c.Violation("digest-differs-across-presentations", "pres="+name+" type=b4", fmt.Sprintf("module %d (%s): b4 %s in the workspace, %s under mem/local-all-targets\n%s", i, id, d4, ref.b4[i], c08Describe(u)), nil)
			}
		}
	}
	c.Count("workspace_presentations", 1)
	c.Count("presentations_compared", 1)
}
