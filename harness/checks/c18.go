package checks

import (
	"bytes"
	"fmt"
	"math/rand/v2"
	"sort"
	"strings"

	"github.com/bufbuild/buf/private/bufpkg/bufconfig"
	"github.com/bufbuild/buf/private/bufpkg/bufimage"
	"github.com/bufbuild/buf/private/bufpkg/bufimage/bufimagemodify"
	"github.com/bufbuild/verifharness/core"
	"google.golang.org/protobuf/proto"
	"google.golang.org/protobuf/reflect/protoreflect"
	"google.golang.org/protobuf/types/descriptorpb"
)

// C18 — managed mode rewrites only what it governs.
//
// Monitor: deep clone of every descriptor before bufimagemodify.Modify, the mutated descriptors
// after it (and, on a sample, the descriptors a recording plugin receives from `buf generate`
// against the image `buf build` wrote for the same workspace).
// Oracle, per file: (1) managed disabled ⇒ byte-identical; (2) governed option of a WKT file or
// of a (file, option) pair a disable rule exempts ⇒ identical; (3) governed option elsewhere ⇒
// effective value is the one the reference model derives from the rule lists (last matching
// override, else documented default formula; all readings accepted where the documentation
// leaves a choice); (4) with every governed option masked, the descriptor is identical (frame);
// (5) the source-info locations after = the locations before minus exactly those describing a
// rewritten option statement.

var c18FileOptDescs = func() map[int32]protoreflect.FieldDescriptor {
	out := map[int32]protoreflect.FieldDescriptor{}
	fields := (&descriptorpb.FileOptions{}).ProtoReflect().Descriptor().Fields()
	for _, o := range c18FileOptions {
		out[o.Num] = fields.ByNumber(protoreflect.FieldNumber(o.Num))
	}
	return out
}()

func c18ReflectString(fd protoreflect.FieldDescriptor, v protoreflect.Value) string {
	switch fd.Kind() {
	case protoreflect.BoolKind:
		if v.Bool() {
			return "true"
		}
		return "false"
	case protoreflect.EnumKind:
		return string(fd.Enum().Values().ByNumber(v.Enum()).Name())
	default:
		return v.String()
	}
}

// c18GetFileOpt returns the effective value (protobuf default when absent) and presence.
func c18GetFileOpt(f *descriptorpb.FileDescriptorProto, num int32) (string, bool) {
	fd := c18FileOptDescs[num]
	if f.Options == nil {
		return c18ReflectString(fd, fd.Default()), false
	}
	m := f.Options.ProtoReflect()
	return c18ReflectString(fd, m.Get(fd)), m.Has(fd)
}

func c18CopyFileOpt(dst, src *descriptorpb.FileDescriptorProto, num int32) {
	fd := c18FileOptDescs[num]
	if src.Options != nil && src.Options.ProtoReflect().Has(fd) {
		if dst.Options == nil {
			dst.Options = &descriptorpb.FileOptions{}
		}
		dst.Options.ProtoReflect().Set(fd, src.Options.ProtoReflect().Get(fd))
		return
	}
	if dst.Options != nil {
		dst.Options.ProtoReflect().Clear(fd)
	}
}

func c18JSType(f *descriptorpb.FieldDescriptorProto) (string, bool) {
	if f.Options == nil || f.Options.Jstype == nil {
		return "JS_NORMAL", false
	}
	return f.Options.GetJstype().String(), true
}

func c18PathKey(p []int32) string {
	parts := make([]string, len(p))
	for i, e := range p {
		parts[i] = fmt.Sprint(e)
	}
	return "[" + strings.Join(parts, ",") + "]"
}

func c18PathEq(a, b []int32) bool {
	if len(a) != len(b) {
		return false
	}
	for i := range a {
		if a[i] != b[i] {
			return false
		}
	}
	return true
}

func c18HasPrefix(p, prefix []int32) bool {
	return len(p) >= len(prefix) && c18PathEq(p[:len(prefix)], prefix)
}

// c18Diff lists up to limit field paths (indices elided) at which two messages differ.
func c18Diff(a, b protoreflect.Message, prefix string, out *[]string, limit int) {
	if len(*out) >= limit {
		return
	}
	fields := a.Descriptor().Fields()
	for i := 0; i < fields.Len(); i++ {
		fd := fields.Get(i)
		name := prefix + string(fd.Name())
		if a.Has(fd) != b.Has(fd) {
			*out = append(*out, name+"(presence)")
			continue
		}
		if !a.Has(fd) {
			continue
		}
		va, vb := a.Get(fd), b.Get(fd)
		switch {
		case fd.IsList():
			la, lb := va.List(), vb.List()
			if la.Len() != lb.Len() {
				*out = append(*out, name+"(len)")
				continue
			}
			for j := 0; j < la.Len(); j++ {
				if fd.Message() != nil {
					c18Diff(la.Get(j).Message(), lb.Get(j).Message(), name+"[].", out, limit)
				} else if !la.Get(j).Equal(lb.Get(j)) {
					*out = append(*out, name+"[]")
					break
				}
			}
		case fd.IsMap():
			if !va.Equal(vb) {
				*out = append(*out, name+"{}")
			}
		case fd.Message() != nil:
			c18Diff(va.Message(), vb.Message(), name+".", out, limit)
		default:
			if !va.Equal(vb) {
				*out = append(*out, name)
			}
		}
	}
	if !bytes.Equal(a.GetUnknown(), b.GetUnknown()) {
		*out = append(*out, prefix+"<unknown-fields>")
	}
	// extensions known to the registry
	extA := map[protoreflect.FieldNumber]bool{}
	a.Range(func(fd protoreflect.FieldDescriptor, v protoreflect.Value) bool {
		if fd.IsExtension() {
			extA[fd.Number()] = true
			if !b.Has(fd) || !v.Equal(b.Get(fd)) {
				*out = append(*out, prefix+"("+string(fd.FullName())+")")
			}
		}
		return true
	})
	b.Range(func(fd protoreflect.FieldDescriptor, v protoreflect.Value) bool {
		if fd.IsExtension() && !extA[fd.Number()] {
			*out = append(*out, prefix+"("+string(fd.FullName())+")")
		}
		return true
	})
}

var c18Marshal = proto.MarshalOptions{Deterministic: true}

func c18Bytes(m proto.Message) []byte {
	b, _ := c18Marshal.Marshal(m)
	return b
}

// c18LocKind abstracts a source-info path for violation keys.
func c18LocKind(path []int32, fieldPaths map[string]bool) string {
	if len(path) == 1 && path[0] == 8 {
		return "file-option-statement[8]"
	}
	if len(path) == 2 && path[0] == 8 {
		for _, o := range c18FileOptions {
			if o.Num == path[1] {
				return "file-option[8," + fmt.Sprint(path[1]) + "]=" + o.Name
			}
		}
		return "file-option[8,*]"
	}
	for n := len(path) - 1; n >= 2; n-- {
		if path[n] == 8 && fieldPaths[c18PathKey(path[:n])] {
			switch {
			case n == len(path)-1:
				return "field-options[..,8]"
			case path[n+1] == 6 && n+2 == len(path):
				return "field-option[..,8,6]=jstype"
			default:
				return "field-option[..,8,*]"
			}
		}
	}
	return "other"
}

type c18Obs struct {
	tag       string // direct | generate
	yaml      string
	version   string
	cfg       *c18Config
	siTrusted func(path string) bool // false: the transport may have stripped source info
	keyPrefix string
}

// violation reports through c; regression witnesses prefix their keys so that they stay visible
// next to equal findings of random cases.
func (o *c18Obs) violation(c *core.C, class, key, message string, detail map[string]any) {
	c.Violation(class, o.keyPrefix+key, message, detail)
}

type c18Tally struct {
	rewFile, rewJS, exemptPairs, exemptWouldChange, exemptJSWouldChange, wkt, sameValue, frameOnly    int
	siRemoved, siRootRemoved, siRootKept, valueChecked, prefixChecked, defaultChecked, jsValueChecked int
}

// c18Judge applies the oracle to one file.
func c18Judge(c *core.C, o *c18Obs, f c18FileFacts, b, a *descriptorpb.FileDescriptorProto, t *c18Tally) {
	witness := func(extra string) string {
		return fmt.Sprintf("%s route, file %s (module %q, package %q): %s\nbuf.gen.yaml (%s):\n%s", o.tag, f.Path, f.Module, f.Package, extra, o.version, o.yaml)
	}
	if !o.cfg.Enabled {
		if !bytes.Equal(c18Bytes(a), c18Bytes(b)) {
			var d []string
			c18Diff(b.ProtoReflect(), a.ProtoReflect(), "", &d, 4)
			if len(d) == 0 {
				d = []string{"<encoding>"}
			}
			o.violation(c, "disabled-changed", d[0], witness("managed mode is disabled but the descriptor changed at "+strings.Join(d, ", ")), nil)
		}
		return
	}
	ac := proto.Clone(a).(*descriptorpb.FileDescriptorProto)
	anyFileOptChanged := false
	// rewritten source paths
	var rewFileNums []int32
	for _, opt := range c18FileOptions {
		bv, bp := c18GetFileOpt(b, opt.Num)
		av, ap := c18GetFileOpt(a, opt.Num)
		changed := bv != av || bp != ap
		exp := o.cfg.expectFileOption(f, opt.Name, opt.Kind)
		desc := fmt.Sprintf("%s: before %q(set=%v) after %q(set=%v)", opt.Name, bv, bp, av, ap)
		switch {
		case exp.Exempt:
			if f.WKT {
				t.wkt++
			} else {
				t.exemptPairs++
				// would managed mode have rewritten this option had the disable rules not been there?
				free := (&c18Config{Enabled: true, Overrides: o.cfg.Overrides}).expectFileOption(f, opt.Name, opt.Kind)
				if len(free.Values) > 0 && !free.OrUnchanged {
					hit := false
					for _, v := range free.Values {
						hit = hit || v == bv
					}
					if !hit {
						t.exemptWouldChange++
					}
				}
			}
			if changed {
				why := "disable-rule"
				if f.WKT {
					why = "wkt"
				}
				o.violation(c, "exempt-changed", opt.Name+" by="+why, witness("exempt option was rewritten — "+desc), nil)
			}
		case exp.FrameOnly:
			t.frameOnly++
		case exp.Unchanged:
			if changed {
				o.violation(c, "value", opt.Name+" basis="+exp.Basis+" expected=unchanged", witness("no rule or default yields a value, yet "+desc), nil)
			}
		default:
			ok := exp.OrUnchanged && !changed
			for _, v := range exp.Values {
				ok = ok || av == v
			}
			switch exp.Basis {
			case "value-override":
				t.valueChecked++
			case "prefix-suffix":
				t.prefixChecked++
			default:
				t.defaultChecked++
			}
			if !ok {
				o.violation(c, "value", opt.Name+" basis="+exp.Basis, witness(fmt.Sprintf("expected one of %q (basis %s, unchanged acceptable=%v) — %s", exp.Values, exp.Basis, exp.OrUnchanged, desc)), nil)
			}
			if !changed {
				t.sameValue++
			}
		}
		if changed {
			anyFileOptChanged = true
			rewFileNums = append(rewFileNums, opt.Num)
			t.rewFile++
			c18CopyFileOpt(ac, b, opt.Num)
		}
	}
	if b.Options == nil && ac.Options != nil && anyFileOptChanged && proto.Size(ac.Options) == 0 {
		ac.Options = nil
	}
	// fields
	fb, fa, fac := c18CollectFields(b), c18CollectFields(a), c18CollectFields(ac)
	var rewFieldPaths [][]int32
	fieldPaths := map[string]bool{}
	if len(fb) == len(fa) {
		for i := range fb {
			fieldPaths[c18PathKey(fb[i].Path)] = true
			bv, bp := c18JSType(fb[i].Msg)
			av, ap := c18JSType(fa[i].Msg)
			changed := bv != av || bp != ap
			desc := fmt.Sprintf("field %s jstype: before %s(set=%v) after %s(set=%v)", fb[i].Full, bv, bp, av, ap)
			if !fb[i].Is64 {
				if changed {
					o.violation(c, "jstype-illegal-type", fb[i].Msg.GetType().String(), witness("jstype written on a field whose type does not permit it — "+desc), nil)
				}
			} else {
				exp := o.cfg.expectJSType(f, fb[i].Full)
				switch {
				case exp.Exempt:
					if f.WKT {
						t.wkt++
					} else {
						t.exemptPairs++
						free := (&c18Config{Enabled: true, Overrides: o.cfg.Overrides}).expectJSType(f, fb[i].Full)
						if len(free.Values) > 0 && free.Values[0] != bv {
							t.exemptJSWouldChange++
						}
					}
					if changed {
						o.violation(c, "exempt-changed", "jstype", witness("exempt field option was rewritten — "+desc), nil)
					}
				case exp.Unchanged:
					if changed {
						o.violation(c, "value", "jstype expected=unchanged", witness("no jstype override applies, yet "+desc), nil)
					}
				default:
					t.jsValueChecked++
					if av != exp.Values[0] {
						o.violation(c, "value", "jstype basis="+exp.Basis, witness(fmt.Sprintf("expected %s — %s", exp.Values[0], desc)), nil)
					}
					if !changed {
						t.sameValue++
					}
				}
			}
			if changed {
				t.rewJS++
				rewFieldPaths = append(rewFieldPaths, fb[i].Path)
				m := fac[i].Msg
				if bp {
					if m.Options == nil {
						m.Options = &descriptorpb.FieldOptions{}
					}
					m.Options.Jstype = fb[i].Msg.Options.Jstype
				} else if m.Options != nil {
					m.Options.Jstype = nil
					if fb[i].Msg.Options == nil && proto.Size(m.Options) == 0 {
						m.Options = nil
					}
				}
			}
		}
	}
	// frame
	bc := proto.Clone(b).(*descriptorpb.FileDescriptorProto)
	bc.SourceCodeInfo, ac.SourceCodeInfo = nil, nil
	if !bytes.Equal(c18Bytes(ac), c18Bytes(bc)) {
		var d []string
		c18Diff(bc.ProtoReflect(), ac.ProtoReflect(), "", &d, 4)
		if len(d) == 0 {
			d = []string{"<encoding>"}
		}
		o.violation(c, "frame", strings.Join(d, ","), witness("outside the governed options the descriptor changed at "+strings.Join(d, ", ")), nil)
	}
	// source info
	if b.SourceCodeInfo == nil {
		if a.SourceCodeInfo != nil {
			o.violation(c, "sourceinfo-added", "file", witness("source info appeared where there was none"), nil)
		}
		return
	}
	if a.SourceCodeInfo == nil {
		if o.siTrusted(f.Path) {
			o.violation(c, "sourceinfo-removed", "all", witness("the whole SourceCodeInfo was dropped"), nil)
		}
		return
	}
	if !o.siTrusted(f.Path) {
		return
	}
	locs := b.SourceCodeInfo.Location
	remove := map[int]string{}
	for _, num := range rewFileNums {
		for i, l := range locs {
			if len(l.Path) == 2 && l.Path[0] == 8 && l.Path[1] == num {
				remove[i] = "option"
				if i > 0 && len(locs[i-1].Path) == 1 && locs[i-1].Path[0] == 8 {
					remove[i-1] = "statement"
				}
			}
		}
	}
	for _, fp := range rewFieldPaths {
		optPath := append(append([]int32{}, fp...), 8)
		jsPath := append(append([]int32{}, optPath...), 6)
		hadJS, others := false, 0
		for i, l := range locs {
			if c18HasPrefix(l.Path, jsPath) {
				remove[i] = "option"
				hadJS = true
			} else if len(l.Path) > len(optPath) && c18HasPrefix(l.Path, optPath) {
				others++
			}
		}
		if hadJS {
			if others == 0 {
				for i, l := range locs {
					if c18PathEq(l.Path, optPath) {
						remove[i] = "root"
						t.siRootRemoved++
					}
				}
			} else {
				t.siRootKept++
			}
		}
	}
	t.siRemoved += len(remove)
	// match the actual list against the before list as a subsequence
	after := a.SourceCodeInfo.Location
	gone := map[int]bool{}
	bi := 0
	altered := false
	for _, l := range after {
		lb := c18Bytes(l)
		found := false
		for bi < len(locs) {
			if bytes.Equal(c18Bytes(locs[bi]), lb) {
				found = true
				bi++
				break
			}
			gone[bi] = true
			bi++
		}
		if !found {
			altered = true
			o.violation(c, "sourceinfo-altered", c18LocKind(l.Path, fieldPaths), witness(fmt.Sprintf("location %v span %v after Modify is not a location of the original (or is out of order)", l.Path, l.Span)), nil)
			break
		}
	}
	if altered {
		return
	}
	for ; bi < len(locs); bi++ {
		gone[bi] = true
	}
	var idxs []int
	for i := range gone {
		idxs = append(idxs, i)
	}
	for i := range remove {
		if !gone[i] {
			idxs = append(idxs, i)
		}
	}
	sort.Ints(idxs)
	for _, i := range idxs {
		kind := c18LocKind(locs[i].Path, fieldPaths)
		switch {
		case gone[i] && remove[i] == "":
			o.violation(c, "sourceinfo-removed", kind, witness(fmt.Sprintf("location #%d path %v span %v was removed although no rewritten option statement is described by it (rewritten file options %v, rewritten jstype fields %v)", i, locs[i].Path, locs[i].Span, rewFileNums, rewFieldPaths)), nil)
		case !gone[i] && remove[i] != "":
			o.violation(c, "sourceinfo-kept", kind, witness(fmt.Sprintf("location #%d path %v span %v describes a rewritten option (%s) but is still present", i, locs[i].Path, locs[i].Span, remove[i])), nil)
		}
	}
	if len(after) != len(locs)-len(gone) {
		o.violation(c, "sourceinfo-altered", "count", witness("location count mismatch"), nil)
	}
}

func (t *c18Tally) flush(c *core.C) {
	c.Count("file_options_rewritten", t.rewFile)
	c.Count("jstype_rewritten", t.rewJS)
	c.Count("exempt_pairs_checked", t.exemptPairs)
	c.Count("exempt_file_options_withheld", t.exemptWouldChange)
	c.Count("exempt_jstype_withheld", t.exemptJSWouldChange)
	c.Count("wkt_options_checked", t.wkt)
	c.Count("governed_already_equal", t.sameValue)
	c.Count("frame_only_pairs", t.frameOnly)
	c.Count("si_locations_removed", t.siRemoved)
	c.Count("si_field_root_removed", t.siRootRemoved)
	c.Count("si_field_root_kept", t.siRootKept)
	c.Count("value_override_checked", t.valueChecked)
	c.Count("prefix_suffix_checked", t.prefixChecked)
	c.Count("default_checked", t.defaultChecked)
	c.Count("jstype_value_checked", t.jsValueChecked)
}

// c18Shape describes a configuration by the kinds of rules it holds.
func c18Shape(cfg *c18Config) string {
	dk, ok := map[string]bool{}, map[string]bool{}
	scope := func(r c18Rule) string {
		s := ""
		if r.Path != "" {
			s += "p"
		}
		if r.Module != "" {
			s += "m"
		}
		if s == "" {
			s = "*"
		}
		return s
	}
	for _, d := range cfg.Disables {
		k := "file"
		switch {
		case d.Field != "" && d.FieldOption != "":
			k = "field+fopt"
		case d.Field != "":
			k = "field"
		case d.FieldOption != "":
			k = "fopt"
		case d.FileOption != "":
			k = "opt"
			if c18IsPseudo(d.FileOption) {
				k = "knob"
			}
		}
		dk[k+"@"+scope(d)] = true
	}
	for _, o := range cfg.Overrides {
		k := "value"
		switch {
		case o.FieldOption != "" && o.Field != "":
			k = "js-field"
		case o.FieldOption != "":
			k = "js"
		case strings.HasSuffix(o.FileOption, "_prefix") && o.FileOption != "objc_class_prefix":
			k = "prefix"
		case strings.HasSuffix(o.FileOption, "_suffix"):
			k = "suffix"
		}
		ok[k+"@"+scope(o)] = true
	}
	join := func(m map[string]bool) string {
		var s []string
		for k := range m {
			s = append(s, k)
		}
		sort.Strings(s)
		return strings.Join(s, ",")
	}
	return "dis{" + join(dk) + "} ovr{" + join(ok) + "}"
}

const c18DirectPluginV2 = "  - local: protoc-gen-c18\n    out: gen\n"
const c18DirectPluginV1 = "  - name: c18\n    out: gen\n"

// c18MakeConfig draws one configuration, renders it and returns the model's rule form.
func c18MakeConfig(c *core.C, w *c18Workload, idx, k int, salt, pluginV1, pluginV2 string) (version, yaml string, cfg *c18Config) {
	r := core.RandFor(c.Seed, "C18", idx, fmt.Sprintf("%s%d", salt, k))
	if salt == "cfg" && k%6 == 5 {
		// the legacy template form: `managed: true` and an options block of three keys (direct route only: its
		// plugin path is a plain string, the helper is started through an argument list)
		rb := core.RandFor(c.Seed, "C18", idx, fmt.Sprintf("beta%d", k))
		return c18GenV1Beta1(rb)
	}
	if r.IntN(5) < 2 {
		v1 := c18GenV1(r, &w.pools)
		return "v1", v1.yaml(pluginV1), v1.toRules()
	}
	cfg = c18GenV2(r, &w.pools, c.Thorough())
	return "v2", cfg.yamlV2(r, pluginV2), cfg
}

// c18Direct applies one configuration to a fresh image of the workload through
// bufimagemodify.Modify and judges every file.
func c18Direct(c *core.C, w *c18Workload, version, yaml string, cfg *c18Config, si string, drop map[string]bool, keyPrefix string) *c18Tally {
	genFile, err := bufconfig.ReadBufGenYAMLFile(strings.NewReader(yaml))
	if err != nil {
		c.Count("configs_rejected_by_reader", 1)
		c.Note("reader rejected a generated %s config: %v\n%s", version, err, yaml)
		return nil
	}
	managed := genFile.GenerateConfig().GenerateManagedConfig()
	img, before, err := w.newImage(si, drop)
	if err != nil {
		c.Violation("harness-workload", "image", fmt.Sprintf("cannot assemble image: %v", err), nil)
		return nil
	}
	type meta struct {
		path, mod   string
		imp, syntax bool
	}
	metaOf := func(f bufimage.ImageFile) meta {
		m := meta{path: f.Path(), imp: f.IsImport(), syntax: f.IsSyntaxUnspecified()}
		if f.FullName() != nil {
			m.mod = f.FullName().String()
		}
		return m
	}
	var metaBefore []meta
	for _, f := range img.Files() {
		metaBefore = append(metaBefore, metaOf(f))
	}
	err = bufimagemodify.Modify(img, managed)
	c.Eval(1)
	c.Count("configs_"+version, 1)
	if cfg.Enabled {
		c.Count("configs_enabled", 1)
	} else {
		c.Count("configs_disabled", 1)
	}
	if err != nil {
		c.Violation("modify-error", "Modify", fmt.Sprintf("Modify failed on a valid image and configuration: %v\n%s", err, yaml), nil)
		return nil
	}
	files := img.Files()
	if len(files) != len(metaBefore) {
		c.Violation("frame", "image.files(len)", fmt.Sprintf("image has %d files after Modify, %d before\n%s", len(files), len(metaBefore), yaml), nil)
		return nil
	}
	obs := &c18Obs{tag: "direct", yaml: yaml, version: version, cfg: cfg, siTrusted: func(string) bool { return true }, keyPrefix: keyPrefix}
	t := &c18Tally{}
	for i, f := range files {
		if m := metaOf(f); m != metaBefore[i] {
			c.Violation("frame", "image.file-metadata", fmt.Sprintf("image file #%d metadata changed: %+v -> %+v\n%s", i, metaBefore[i], m, yaml), nil)
			continue
		}
		c18Judge(c, obs, w.facts[f.Path()], before[f.Path()], f.FileDescriptorProto(), t)
	}
	t.flush(c)
	return t
}

func c18Run(c *core.C, idx int) {
	if n := c18Cases(c.Tier) - len(c18Witnesses); idx >= n {
		c18RunWitness(c, idx-n)
		return
	}
	w, err := c18NewWorkload(c.Rand, c.Thorough())
	if err != nil {
		c.Violation("harness-workload", "compile", fmt.Sprintf("generated workload unusable: %v", err), nil)
		return
	}
	c.Count("images", 1)
	c.Count("image_files", len(w.order))
	nconf := c.Pick(25, 60)
	for k := 0; k < nconf; k++ {
		version, yaml, cfg := c18MakeConfig(c, w, idx, k, "cfg", c18DirectPluginV1, c18DirectPluginV2)
		r := core.RandFor(c.Seed, "C18", idx, fmt.Sprintf("img%d", k))
		si := []string{"all", "all", "all", "all", "all", "partial", "partial", "none"}[r.IntN(8)]
		drop := map[string]bool{}
		if si == "partial" {
			for _, p := range w.order {
				drop[p] = r.IntN(2) == 0
			}
		}
		t := c18Direct(c, w, version, yaml, cfg, si, drop, "")
		if t == nil {
			continue
		}
		if cfg.Enabled {
			rew := ""
			if t.rewFile > 0 {
				rew += "file"
			}
			if t.rewJS > 0 {
				rew += "+js"
			}
			if t.exemptPairs > 0 {
				rew += "+exempt"
			}
			if t.siRemoved > 0 {
				rew += "+si"
			}
			if t.rewFile+t.rewJS > 0 {
				c.Nontrivial(fmt.Sprintf("%s %s effect=%s", version, c18Shape(cfg), rew))
			}
			c.Distinct("config_shape", version+" "+c18Shape(cfg))
		}
		c.Distinct("source_info_mode", si)
		if idx < 3 && k == 0 {
			c.Sample(map[string]any{"image": w.schema.Describe(), "files": w.order, "config_version": version, "buf.gen.yaml": yaml,
				"rewritten_file_options": t.rewFile, "rewritten_jstype": t.rewJS, "exempt_pairs": t.exemptPairs, "locations_removed": t.siRemoved})
		}
	}
	every := c.Pick(8, 10)
	if idx%every == 0 {
		c18GenerateSample(c, w, idx)
	}
}

// ---- regression witnesses of repaired defects ----------------------------------------------

type c18Witness struct {
	name    string
	sources map[string]string
	module  map[string]string
	cfg     *c18Config
}

var c18Witnesses = []c18Witness{
	{
		// a disable rule naming only a field used to switch off every file option of every file
		name:    "field-only-disable-rule",
		sources: map[string]string{"acme/v1/a.proto": "syntax = \"proto3\";\npackage acme.v1;\nmessage M {\n  int64 x = 1;\n  int64 y = 2;\n}\n"},
		module:  map[string]string{},
		cfg: &c18Config{Enabled: true,
			Disables:  []c18Rule{{Field: "acme.v1.M.x"}},
			Overrides: []c18Rule{{FileOption: "java_package", Value: "org.example"}, {FieldOption: "jstype", Value: "JS_STRING"}}},
	},
	{
		// the sweep used to drop the bracket location of an untouched `[default = …]` field
		name:    "untouched-default-bracket",
		sources: map[string]string{"acme/v1/b.proto": "syntax = \"proto2\";\npackage acme.v1;\noption java_package = \"old\";\nmessage M {\n  optional bytes raw = 1 [default = \"raw\"];\n  optional int64 n = 2 [json_name = \"nn\"];\n  optional int64 k = 3 [jstype = JS_NUMBER];\n}\n"},
		module:  map[string]string{"acme/v1/b.proto": "buf.test/acme/w"},
		cfg:     &c18Config{Enabled: true, Overrides: []c18Rule{{FieldOption: "jstype", Value: "JS_STRING", Field: "acme.v1.M.k"}}},
	},
}

func c18RunWitness(c *core.C, n int) {
	wt := c18Witnesses[n]
	w, err := c18WorkloadFromSources(wt.sources, wt.module)
	if err != nil {
		c.Violation("harness-workload", "witness", fmt.Sprintf("witness %s unusable: %v", wt.name, err), nil)
		return
	}
	yaml := wt.cfg.yamlV2(core.RandFor(1, "C18", n, "witness"), c18DirectPluginV2)
	if t := c18Direct(c, w, "v2", yaml, wt.cfg, "all", nil, "witness:"+wt.name+" "); t != nil {
		c.Count("regression_witnesses", 1)
		c.Nontrivial("witness " + wt.name)
	}
}

func c18Cases(tier string) int {
	if tier == "thorough" {
		return 2000 + len(c18Witnesses)
	}
	return 200 + len(c18Witnesses)
}

func init() {
	core.Register(&core.Check{
		ID:    "C18",
		Level: "exploration",
		Rule: "each case = one PRNG-generated multi-module image (1–3 named/unnamed modules, proto2/proto3/editions, WKT imports, custom scalar and message-typed options, groups, maps, extensions; " +
			"decorated with pre-set governed file options — a third equal to managed mode's own default —, non-governed neighbours, jstype on 64-bit fields alone / next to other field options, " +
			"package-less files, PHP-keyword / version-like / GPB packages) × 25 (quick) | 60 (thorough) PRNG-generated managed configurations: v2 rule lists (0–6 disable rules over path/module/file option/knob/field option/field, " +
			"0–12 override rules value/prefix/suffix/jstype over path/module/field; scopes hit files, directories, '.', WKT files, unknown paths/modules) and v1 blocks (default/except/override per option + per-file overrides), " +
			"parsed by bufconfig.ReadBufGenYAMLFile; source info present / partial / absent; every 8th|10th image additionally through `buf build` + `buf generate` with a recording plugin. " +
			"A configuration is non-trivial when it actually rewrote at least one option; classes are distinct per (version, set of rule kinds×scopes, observed effect kinds)",
		Assumptions: []string{
			"images are compiler-produced (protocompile, as buf's own builder): a field's [..,8] location precedes its option locations and a file option's [8,N] follows its [8] statement entry",
			"override values are non-empty; packages and file names are lower_snake ASCII (PascalCase is unambiguous there)",
			"where the documentation leaves the value open (value override between prefix/suffix overrides, disabled *_prefix/_suffix knob, v1 per-file override inside an except module, default of cc_enable_arenas / java_string_check_utf8 / optimize_for) every documented reading is accepted or only the frame condition is applied",
			"the reference model is trusted: c18model.go (rule matching, precedence, default formulas) shares no code with buf",
		},
		Cases:    c18Cases,
		Run:      c18Run,
		Required: []string{"images", "configs_v1", "configs_v2", "configs_enabled", "configs_disabled", "file_options_rewritten", "jstype_rewritten", "exempt_pairs_checked", "exempt_file_options_withheld", "exempt_jstype_withheld", "wkt_options_checked", "governed_already_equal", "si_locations_removed", "si_field_root_removed", "si_field_root_kept", "value_override_checked", "prefix_suffix_checked", "default_checked", "jstype_value_checked", "generate_samples", "regression_witnesses"},
	})
}

// c18GenV1Beta1 draws a v1beta1 generation template: managed mode is a boolean, the options block knows
// cc_enable_arenas, java_multiple_files and optimize_for; each is a module-wide override.
func c18GenV1Beta1(r *rand.Rand) (version, yaml string, cfg *c18Config) {
	cfg = &c18Config{Enabled: r.IntN(6) != 0, Ambiguous: map[string][]string{}}
	var sb strings.Builder
	fmt.Fprintf(&sb, "version: v1beta1\nmanaged: %v\n", cfg.Enabled)
	var opts strings.Builder
	if r.IntN(2) == 0 {
		b := r.IntN(2) == 0
		fmt.Fprintf(&opts, "  cc_enable_arenas: %v\n", b)
		cfg.Overrides = append(cfg.Overrides, c18Rule{FileOption: "cc_enable_arenas", Value: b})
	}
	if r.IntN(2) == 0 {
		b := r.IntN(2) == 0
		fmt.Fprintf(&opts, "  java_multiple_files: %v\n", b)
		cfg.Overrides = append(cfg.Overrides, c18Rule{FileOption: "java_multiple_files", Value: b})
	}
	if r.IntN(2) == 0 {
		v := []string{"SPEED", "CODE_SIZE", "LITE_RUNTIME"}[r.IntN(3)]
		fmt.Fprintf(&opts, "  optimize_for: %s\n", v)
		cfg.Overrides = append(cfg.Overrides, c18Rule{FileOption: "optimize_for", Value: v})
	}
	if opts.Len() > 0 {
		sb.WriteString("options:\n" + opts.String())
	}
	sb.WriteString("plugins:\n  - name: c18\n    out: gen\n")
	return "v1beta1", sb.String(), cfg
}
