package checks

import (
	"context"
	"fmt"
	"os"
	"path/filepath"
	"sync"

	"github.com/bufbuild/buf/private/bufpkg/bufmodule"
	"github.com/bufbuild/buf/private/pkg/slogext"
	"github.com/bufbuild/buf/private/pkg/storage"
	"github.com/bufbuild/buf/private/pkg/storage/storagemem"
	"github.com/bufbuild/buf/private/pkg/storage/storageos"
	"github.com/bufbuild/verifharness/core"
)

// C08, concurrency part: the digest is a PURE function of the content, also when many digests are computed at
// the same time (a build digests every module of a workspace in parallel; caches digest under concurrent
// readers). Eight goroutines build their own module sets over the same universe — half over memory buckets, half
// over one shared disk tree — and digest every module several times; every value must equal the independent
// construction. Every module carries a LICENSE of 4–80 kB so that contents are streamed in several reads.
// The same function is the race-build part of C08 (shared buffers, pools and caches under the race detector).

func c08ConcurrentCases(tier string) int {
	if tier == "thorough" {
		return 200
	}
	return 24
}

func c08Concurrent(c *core.C, idx int) {
	ctx := context.Background()
	u := c08Generate(c.Rand, c.Thorough())
	for i, m := range u.Mods {
		big := make([]byte, 4096+c.Rand.IntN(80000))
		for j := range big {
			big[j] = byte('a' + (i+j*7+j/251)%26)
		}
		m.Other["LICENSE"] = big
	}
	want := u.modelB5()
	dir := filepath.Join(c.Tmp, "c08conc")
	os.RemoveAll(dir)
	defer os.RemoveAll(dir)
	fileSets := make([]map[string][]byte, len(u.Mods))
	for i, m := range u.Mods {
		fileSets[i] = m.files()
		for p, data := range fileSets[i] {
			full := filepath.Join(dir, fmt.Sprintf("m%d", i), filepath.FromSlash(p))
			if err := os.MkdirAll(filepath.Dir(full), 0o755); err != nil {
				c.Note("setup: %v", err)
				return
			}
			if err := os.WriteFile(full, data, 0o644); err != nil {
				c.Note("setup: %v", err)
				return
			}
		}
	}
	const workers, rounds = 8, 3
	type miss struct {
		worker, round, mod int
		got, backend       string
	}
	var mu sync.Mutex
	var misses []miss
	var errs []string
	digests := 0
	var wg sync.WaitGroup
	start := make(chan struct{})
	for w := 0; w < workers; w++ {
		wg.Add(1)
		go func(w int) {
			defer wg.Done()
			<-start
			backend := map[bool]string{true: "disk", false: "mem"}[w%2 == 1]
			for round := 0; round < rounds; round++ {
				builder := bufmodule.NewModuleSetBuilder(ctx, slogext.NopLogger, bufmodule.NopModuleDataProvider, bufmodule.NopCommitProvider)
				for i := range u.Mods {
					var rb storage.ReadBucket
					var err error
					if backend == "disk" {
						rb, err = storageos.NewProvider().NewReadWriteBucket(filepath.Join(dir, fmt.Sprintf("m%d", i)))
					} else {
						rb, err = storagemem.NewReadBucket(fileSets[i])
					}
					if err != nil {
						mu.Lock()
						errs = append(errs, err.Error())
						mu.Unlock()
						return
					}
					builder.AddLocalModule(rb, fmt.Sprintf("m%d", i), true)
				}
				ms, err := builder.Build()
				if err != nil {
					mu.Lock()
					errs = append(errs, "Build: "+err.Error())
					mu.Unlock()
					return
				}
				for i := range u.Mods {
					d, err := ms.GetModuleForBucketID(fmt.Sprintf("m%d", i)).Digest(bufmodule.DigestTypeB5)
					mu.Lock()
					digests++
					if err != nil {
						errs = append(errs, fmt.Sprintf("Digest(m%d): %v", i, err))
					} else if d.String() != want[i] {
						misses = append(misses, miss{w, round, i, d.String(), backend})
					}
					mu.Unlock()
				}
			}
		}(w)
	}
	close(start)
	wg.Wait()
	c.Eval(digests)
	c.Count("concurrent_digests", digests)
	for _, e := range errs {
		c.Violation("digest-error", "concurrent", "digesting concurrently failed on an in-domain universe: "+e, nil)
	}
	for _, m := range misses {
		c.Violation("digest-impure-under-concurrency", "backend="+m.backend,
			fmt.Sprintf("module %d digested by worker %d (round %d, %s buckets) while %d other goroutines digest: %s, independent construction %s\n%s", m.mod, m.worker, m.round, m.backend, workers-1, m.got, want[m.mod], c08Describe(u)), nil)
	}
	c.Nontrivial("concurrent " + c08Features(u))
}
