package checks

import (
	"context"
	"fmt"
	"net/http"
	"net/http/httptest"
	"os"
	"strings"
	"sync"
	"time"

	"connectrpc.com/connect"
	"github.com/bufbuild/buf/private/buf/bufcli"
	"github.com/bufbuild/buf/private/bufpkg/bufconnect"
	"github.com/bufbuild/buf/private/gen/proto/connect/buf/alpha/registry/v1alpha1/registryv1alpha1connect"
	registryv1alpha1 "github.com/bufbuild/buf/private/gen/proto/go/buf/alpha/registry/v1alpha1"
	"github.com/bufbuild/buf/private/pkg/connectclient"
	"github.com/bufbuild/buf/private/pkg/netrc"
	"github.com/bufbuild/verifharness/core"
	"github.com/bufbuild/verifharness/model"
	"github.com/bufbuild/verifharness/run"
)

// ---- loopback registries -----------------------------------------------------------------------

type c19Req struct {
	url    string
	host   string
	header http.Header
}

type c19Server struct {
	name string
	addr string
	srv  *httptest.Server
	mu   sync.Mutex
	reqs []c19Req
}

type c19Authn struct {
	registryv1alpha1connect.UnimplementedAuthnServiceHandler
}

func (c19Authn) GetCurrentUser(context.Context, *connect.Request[registryv1alpha1.GetCurrentUserRequest]) (*connect.Response[registryv1alpha1.GetCurrentUserResponse], error) {
	return connect.NewResponse(registryv1alpha1.GetCurrentUserResponse_builder{
		User: registryv1alpha1.User_builder{Id: "id", Username: "someone"}.Build(),
	}.Build()), nil
}

func newC19Server(name string) *c19Server {
	s := &c19Server{name: name}
	mux := http.NewServeMux()
	mux.Handle(registryv1alpha1connect.NewAuthnServiceHandler(c19Authn{}))
	s.srv = httptest.NewUnstartedServer(http.HandlerFunc(func(rw http.ResponseWriter, r *http.Request) {
		s.mu.Lock()
		s.reqs = append(s.reqs, c19Req{url: r.URL.String(), host: r.Host, header: r.Header.Clone()})
		s.mu.Unlock()
		mux.ServeHTTP(rw, r)
	}))
	// every configuration under test owns a fresh http.Transport: no connection may be kept
	s.srv.Config.SetKeepAlivesEnabled(false)
	s.srv.Start()
	s.addr = s.srv.Listener.Addr().String()
	return s
}

func (s *c19Server) take() []c19Req {
	s.mu.Lock()
	defer s.mu.Unlock()
	out := s.reqs
	s.reqs = nil
	return out
}

// c19World: the hosts of one worker process.
type c19World struct {
	srv            []*c19Server // H1, H2, H0
	h1, h2, h3, h0 string
	syms           []c19Sym
}

var (
	c19WorldOnce sync.Once
	c19TheWorld  *c19World
)

func c19GetWorld() *c19World {
	c19WorldOnce.Do(func() {
		for attempt := 0; ; attempt++ {
			w := &c19World{srv: []*c19Server{newC19Server("H1"), newC19Server("H2"), newC19Server("H0")}}
			w.h1, w.h2, w.h0 = w.srv[0].addr, w.srv[1].addr, w.srv[2].addr
			// H3: an address nobody listens on that is a proper prefix of H1 (port without its last
			// digit), so that prefix matching instead of exact matching would be visible
			w.h3 = w.h1[:len(w.h1)-1]
			ok := strings.HasPrefix(w.h1, "127.0.0.1:") && len(w.h1) == len(w.h2) && len(w.h1) == len(w.h0) && len(w.h1) == len("127.0.0.1:12345")
			if ok || attempt > 20 {
				if !ok {
					panic("c19: could not obtain three 5-digit loopback ports: " + w.h1 + " " + w.h2 + " " + w.h0)
				}
				w.syms = []c19Sym{{"t1", c19T1}, {"t2", c19T2}, {"@", "@"}, {",", ","}, {":", ":"}, {"H1", w.h1}, {"H2", w.h2}, {"H3", w.h3}}
				c19TheWorld = w
				return
			}
			for _, s := range w.srv {
				s.srv.Close()
			}
		}
	})
	return c19TheWorld
}

func (w *c19World) symVal(name string) string {
	for _, s := range w.syms {
		if s.name == name {
			return s.val
		}
	}
	return ""
}

// symbolic rewrites concrete addresses and token values to their symbol names, so that keys and
// messages do not depend on the ports of a run.
func (w *c19World) symbolic(s string) string {
	if w.h1 == "" {
		return s
	}
	return strings.NewReplacer(w.h1, "H1", w.h2, "H2", w.h0, "H0", w.h3, "H3", c19T1, "t1", c19T2, "t2").Replace(s)
}

func (w *c19World) takeAll() map[string][]c19Req {
	out := map[string][]c19Req{}
	for _, s := range w.srv {
		if r := s.take(); len(r) > 0 {
			out[s.name] = r
		}
	}
	return out
}

// c19WireVariants: the .netrc files used at the wire and CLI boundaries (index 0 = no file).
func c19WireVariants(w *c19World) []*c19Netrc {
	m := func(name, host, pw string) c19Machine {
		return c19Machine{host: host, hname: name, login: "u" + name, pw: pw}
	}
	def := c19Machine{def: true, login: "ud", pw: "NwDp"}
	return []*c19Netrc{
		nil,
		{ms: []c19Machine{m("H1", w.h1, "Nw0p"), m("H2", w.h2, "Nw1p"), def}, layout: 0},
		{ms: []c19Machine{m("H2", w.h2, "Nw1p")}, layout: 1, viaEnv: true},
		{ms: []c19Machine{def}, layout: 2},
		{ms: []c19Machine{m("H3", w.h3, "Nw0p"), m("H0", w.h0, "Nw1p"), m("H1", w.h1, "")}, layout: 3, viaEnv: true},
		{ms: []c19Machine{def, m("H1", w.h1, "Nw1p"), m("H1", w.h1, "Nw2p")}, layout: 1},
	}
}

// ---- the real client stack --------------------------------------------------------------------

func c19Secrets(nrc *c19Netrc) []string {
	return append([]string{c19T1, c19T2}, nrc.secrets()...)
}

// c19CheckRequest examines the requests the servers received for one call aimed at server ti and
// returns the attached token; ok=false if the observation is unusable.
func c19CheckRequest(c *core.C, st *c19Stats, w *c19World, boundary, sym string, nrc *c19Netrc, ti int, got map[string][]c19Req) (token string, ok bool) {
	target := w.srv[ti]
	key := fmt.Sprintf("boundary=%s BUF_TOKEN=%q netrc=%s host=%s", boundary, sym, nrc.String(), target.name)
	total := 0
	for name, rs := range got {
		total += len(rs)
		if name != target.name {
			c.Violation("wire-misrouted", key, fmt.Sprintf("a call for %s produced %d request(s) at %s (Authorization=%q)", target.name, len(rs), name,
				w.symbolic(strings.Join(rs[0].header.Values("Authorization"), "|"))), nil)
			return "", false
		}
	}
	if total != 1 {
		return "", false
	}
	r := got[target.name][0]
	if r.host != target.addr {
		c.Violation("wire-misrouted", key, fmt.Sprintf("request for %s arrived with Host %q", target.name, r.host), nil)
	}
	// the credential must travel in the Authorization header only
	for name, values := range r.header {
		if http.CanonicalHeaderKey(name) == "Authorization" {
			continue
		}
		for _, v := range values {
			for _, sec := range c19Secrets(nrc) {
				if strings.Contains(v, sec) {
					c.Violation("token-in-other-header", key, fmt.Sprintf("header %s: %q contains the credential %q", name, w.symbolic(v), w.symbolic(sec)), nil)
				}
			}
		}
	}
	for _, sec := range c19Secrets(nrc) {
		if strings.Contains(r.url, sec) {
			c.Violation("token-in-other-header", key, fmt.Sprintf("request URL %q contains the credential %q", r.url, w.symbolic(sec)), nil)
		}
	}
	st.counters[boundary+"_requests"]++
	return c19Bearer(r.header.Values("Authorization")), true
}

// c19Wire builds the production client configuration for (s, nrc), makes clients for all three
// servers from that one configuration, performs one RPC per server and judges the received header.
func c19Wire(c *core.C, st *c19Stats, w *c19World, home, s, sym string, nrc *c19Netrc, rot int) {
	var parser model.TokenParser
	cfg := parser.Parse(s)
	env := c19Env(home, s, nrc)
	container := c19AppContainer(env)
	clientConfig, err := bufcli.NewConnectClientConfig(container)
	st.counters["wire_configs"]++
	if err != nil {
		st.counters["wire_rejected_configs"]++
		c19JudgeRejected(c, st, "wire", sym, cfg, err)
		return
	}
	envProv, perr := bufconnect.NewTokenProviderFromContainer(container)
	netrcProv := bufconnect.NewNetrcTokenProvider(container, netrc.GetMachineForName)
	n := len(w.srv)
	clients := make([]registryv1alpha1connect.AuthnServiceClient, n)
	for k := 0; k < n; k++ {
		ti := (k + rot) % n
		clients[ti] = connectclient.Make(clientConfig, w.srv[ti].addr, registryv1alpha1connect.NewAuthnServiceClient)
	}
	w.takeAll()
	for k := n - 1; k >= 0; k-- {
		ti := (k + 2*rot + 1) % n
		var token string
		ok := false
		var rerr error
		for attempt := 0; attempt < 2 && !ok; attempt++ {
			ctx, cancel := context.WithTimeout(context.Background(), 30*time.Second)
			_, rerr = clients[ti].GetCurrentUser(ctx, connect.NewRequest(&registryv1alpha1.GetCurrentUserRequest{}))
			cancel()
			token, ok = c19CheckRequest(c, st, w, "wire", sym, nrc, ti, w.takeAll())
		}
		if !ok {
			c.Violation("wire-no-observation", fmt.Sprintf("boundary=wire BUF_TOKEN=%q netrc=%s host=%s", sym, nrc.String(), w.srv[ti].name),
				fmt.Sprintf("the RPC to %s did not produce exactly one request at that server (error: %v)", w.srv[ti].name, rerr), nil)
			continue
		}
		if rerr != nil {
			st.counters["wire_rpc_errors"]++
		}
		if token != "" {
			st.counters["wire_with_token"]++
		} else {
			st.counters["wire_without_token"]++
		}
		h := w.srv[ti].addr
		role := c19Judge(c, st, w, &c19Obs{boundary: "wire", s: s, sym: sym, cfg: cfg, nrc: nrc, hname: w.srv[ti].name, h: h, got: token})
		c.Distinct("wire_classes", fmt.Sprintf("env=%s%s netrc-role=%s -> %s", cfg.Kind, c19Slash(cfg.Reason), c19NetrcRole(nrc, h), role))
		// both boundaries agree
		if perr == nil {
			want := envProv.RemoteToken(h)
			if want == "" {
				want = netrcProv.RemoteToken(h)
			}
			if want != token {
				c.Violation("boundaries-disagree", fmt.Sprintf("boundary=wire BUF_TOKEN=%q netrc=%s host=%s", sym, nrc.String(), w.srv[ti].name),
					fmt.Sprintf("providers answer %q for %s but the server received %q", w.symbolic(want), w.srv[ti].name, w.symbolic(token)), nil)
			}
		}
	}
}

// ---- part C: wire boundary, exhaustive short strings ----------------------------------------

func c19CMaxLen(tier string) int {
	if tier == "thorough" {
		return 6
	}
	return 5
}

func c19CChunk(tier string) int {
	if tier == "thorough" {
		return 512
	}
	return 128
}

func c19CountUpTo(l int) int {
	n, p := 0, 1
	for i := 0; i <= l; i++ {
		n += p
		p *= 8
	}
	return n
}

func c19CCases(tier string) int {
	n := c19CountUpTo(c19CMaxLen(tier))
	ch := c19CChunk(tier)
	return (n + ch - 1) / ch
}

// c19StringAt decodes the g-th string in (length, lexicographic) order.
func c19StringAt(w *c19World, g int) (s, sym string, nsym int) {
	l, p := 0, 1
	for g >= p {
		g -= p
		p *= 8
		l++
	}
	digits := make([]int, l)
	for i := l - 1; i >= 0; i-- {
		digits[i] = g % 8
		g /= 8
	}
	var names []string
	for _, d := range digits {
		s += w.syms[d].val
		names = append(names, w.syms[d].name)
	}
	return s, strings.Join(names, " "), l
}

func c19RunC(c *core.C, chunk int) {
	w := c19GetWorld()
	st := newC19Stats()
	defer st.flush(c)
	home := c19Home(c)
	defer os.RemoveAll(home)
	variants := c19WireVariants(w)
	total := c19CountUpTo(c19CMaxLen(c.Tier))
	ch := c19CChunk(c.Tier)
	for g := chunk * ch; g < (chunk+1)*ch && g < total; g++ {
		s, sym, nsym := c19StringAt(w, g)
		v := (g + int(c.Seed%1000)) % len(variants)
		c19Wire(c, st, w, home, s, sym, variants[v], g)
		st.counters["wire_exhaustive_strings"]++
		if c.Thorough() && nsym <= 4 {
			for o := 1; o < len(variants); o++ {
				c19Wire(c, st, w, home, s, sym, variants[(v+o)%len(variants)], g+o)
			}
		}
		if g == 700 {
			c.Sample(map[string]any{"part": "C wire boundary", "BUF_TOKEN": sym, "netrc": variants[v].String(),
				"stack": "bufcli.NewConnectClientConfig → connectclient.Make ×3 from one config → AuthnService.GetCurrentUser → loopback servers record the headers"})
		}
	}
}

// ---- part D: the CLI ---------------------------------------------------------------------------

func c19DCases(tier string) int {
	return len(c19EnvReps(&c19World{}, tier)) * len(c19WireVariants(&c19World{}))
}

func c19RunD(c *core.C, idx int) {
	w := c19GetWorld()
	st := newC19Stats()
	defer st.flush(c)
	home := c19Home(c)
	defer os.RemoveAll(home)
	variants := c19WireVariants(w)
	reps := c19EnvReps(w, c.Tier)
	rep := reps[idx/len(variants)]
	nrc := variants[idx%len(variants)]
	var parser model.TokenParser
	cfg := parser.Parse(rep.s)
	env := c19Env(home, rep.s, nrc)
	w.takeAll()
	for k := range w.srv {
		ti := (k + idx) % len(w.srv)
		target := w.srv[ti]
		out := run.Buf("", env, nil, "registry", "whoami", target.addr)
		st.counters["cli_runs"]++
		got := w.takeAll()
		if len(got) == 0 && out.Code != 0 {
			// no request left the process: the configuration was refused
			st.counters["cli_refused"]++
			c19JudgeRejected(c, st, "cli", rep.sym, cfg, fmt.Errorf("buf registry whoami exit=%d stderr=%s", out.Code, strings.TrimSpace(w.symbolic(string(out.Stderr)))))
			continue
		}
		token, ok := c19CheckRequest(c, st, w, "cli", rep.sym, nrc, ti, got)
		if !ok {
			c.Violation("wire-no-observation", fmt.Sprintf("boundary=cli BUF_TOKEN=%q netrc=%s host=%s", rep.sym, nrc.String(), target.name),
				fmt.Sprintf("`buf registry whoami %s` (exit %d) did not produce exactly one request at that server; stderr=%s", target.name, out.Code, w.symbolic(string(out.Stderr))), nil)
			continue
		}
		if token != "" {
			st.counters["cli_with_token"]++
		} else {
			st.counters["cli_without_token"]++
		}
		if out.Code == 0 {
			st.counters["cli_exit_0"]++
		}
		role := c19Judge(c, st, w, &c19Obs{boundary: "cli", s: rep.s, sym: rep.sym, cfg: cfg, nrc: nrc, hname: target.name, h: target.addr, got: token})
		c.Distinct("cli_classes", fmt.Sprintf("env=%s%s netrc-role=%s -> %s", cfg.Kind, c19Slash(cfg.Reason), c19NetrcRole(nrc, target.addr), role))
	}
	if idx == 13 {
		c.Sample(map[string]any{"part": "D cli", "command": "buf registry whoami <H1|H2|H0>", "BUF_TOKEN": rep.sym, "netrc": nrc.String()})
	}
}
