package checks

import (
	"bytes"
	"fmt"
	"math"
	"sort"
	"strings"

	"github.com/bufbuild/buf/private/buf/bufformat"
	"github.com/bufbuild/protocompile/ast"
	"github.com/bufbuild/protocompile/parser"
	"github.com/bufbuild/protocompile/reporter"
	"github.com/bufbuild/verifharness/ref"
	"google.golang.org/protobuf/encoding/protowire"
	"google.golang.org/protobuf/proto"
	"google.golang.org/protobuf/reflect/protoreflect"
	"google.golang.org/protobuf/reflect/protoregistry"
	"google.golang.org/protobuf/types/descriptorpb"
	"google.golang.org/protobuf/types/dynamicpb"
)

// ---- the oracle of C07 -------------------------------------------------------------------
//
// Given a source text x that parses, with the sources of its imports:
//
//	out1 = format(x)            must be produced without error/panic        (format-error, format-panic)
//	out1 parses                                                              (output-unparseable)
//	format(out1) == out1 bytewise                                            (not-idempotent)
//	if x compiles: out1 compiles                                             (output-uncompilable)
//	  canon(desc(x)) == canon(desc(out1))                                    (descriptor-changed)
//	  comments the compiler attributes to each declaration are the same      (comment-moved)
//	every comment token of x occurs in out1 at least as often                (comment-lost)
//	every marker-carrying (inserted) comment occurs exactly once in out1     (comment-lost, comment-duplicated)
//
// canon: source_code_info removed; dependency sorted, public/weak dependency indexes replaced by
// the import names; option messages decoded with the extensions of the compiled files and dumped
// field by field (so a permutation of option statements that does not change any value is equal).

type c07Fail struct {
	Class string
	Msg   string
}

type c07Outcome struct {
	Parsed      bool // x parses (otherwise it is outside the domain)
	Out1        []byte
	Compiled    bool // x compiles (the descriptor clauses were evaluated)
	Evals       int  // executions of the real formatter
	Comments    int  // comment tokens of x
	Attributed  int  // comments the compiler attributed to declarations of x
	RoleChanges int  // attributed comments that stay on their declaration in another role (detached/leading/trailing)
	Fails       []c07Fail
}

func (o *c07Outcome) fail(class, format string, args ...any) {
	o.Fails = append(o.Fails, c07Fail{class, fmt.Sprintf(format, args...)})
}

func (o *c07Outcome) has(class string) bool {
	for _, f := range o.Fails {
		if f.Class == class {
			return true
		}
	}
	return false
}

func c07Parse(path string, text []byte) (*ast.FileNode, error) {
	return parser.Parse(path, bytes.NewReader(text), reporter.NewHandler(nil))
}

// c07Format runs the real formatter exactly the way bufformat.FormatBucket does: parse, FormatFileNode.
func c07Format(path string, text []byte) (out []byte, parseErr, fmtErr error, panicked any) {
	fn, err := c07Parse(path, text)
	if err != nil {
		return nil, err, nil, nil
	}
	var buf bytes.Buffer
	func() {
		defer func() {
			if r := recover(); r != nil {
				panicked = r
			}
		}()
		fmtErr = bufformat.FormatFileNode(&buf, fn)
	}()
	return buf.Bytes(), nil, fmtErr, panicked
}

// c07CommentTokens returns the comment tokens of a parsed file, raw.
func c07CommentTokens(fn *ast.FileNode) []string {
	var out []string
	seq := fn.Items()
	for it, ok := seq.First(); ok; it, ok = seq.Next(it) {
		if _, cmt := fn.GetItem(it); cmt.IsValid() {
			out = append(out, cmt.RawText())
		}
	}
	return out
}

// c07NormComment strips the comment delimiters and all layout (indentation, line structure,
// trailing blanks): the formatter is free to re-indent, to turn `// x` into `/* x */` and to join
// the lines of a block comment it prints in-line.
func c07NormComment(raw string) string {
	s := raw
	switch {
	case strings.HasPrefix(s, "//"):
		s = s[2:]
	case strings.HasPrefix(s, "/*"):
		s = strings.TrimSuffix(s[2:], "*/")
	}
	return strings.Join(strings.Fields(s), " ")
}

func c07NormText(s string) string { return strings.Join(strings.Fields(s), " ") }

type c07Opts struct {
	// Markers: substrings that identify inserted comments; each must occur exactly once in a
	// comment of the output.
	Markers []string
	// SkipCompile disables the descriptor clauses (used by the minimiser for speed when the
	// failing clause is a textual one).
	SkipCompile bool
}

// c07Evaluate applies the whole oracle to x.
func c07Evaluate(path string, x []byte, deps map[string]string, opts c07Opts) *c07Outcome {
	o := &c07Outcome{}
	xNode, err := c07Parse(path, x)
	if err != nil {
		return o
	}
	o.Parsed = true
	out1, _, fmtErr, panicked := c07Format(path, x)
	o.Evals++
	if panicked != nil {
		o.fail("format-panic", "FormatFileNode panicked: %v", panicked)
		return o
	}
	if fmtErr != nil {
		o.fail("format-error", "FormatFileNode returned an error for a file that parses: %v", fmtErr)
		return o
	}
	o.Out1 = out1
	outNode, err := c07Parse(path, out1)
	if err != nil {
		o.fail("output-unparseable", "the formatted output does not parse: %v", err)
		return o
	}
	out2, _, fmtErr2, panicked2 := c07Format(path, out1)
	o.Evals++
	switch {
	case panicked2 != nil:
		o.fail("format-panic", "FormatFileNode panicked on its own output: %v", panicked2)
	case fmtErr2 != nil:
		o.fail("format-error", "FormatFileNode returned an error on its own output: %v", fmtErr2)
	case !bytes.Equal(out1, out2):
		o.fail("not-idempotent", "format(format(x)) != format(x): %s", c07FirstDiff(out1, out2))
	}

	// comments, lexer level
	inC, outC := c07CommentTokens(xNode), c07CommentTokens(outNode)
	o.Comments = len(inC)
	outCount := map[string]int{}
	var outNorm []string
	for _, c := range outC {
		n := c07NormComment(c)
		outCount[n]++
		outNorm = append(outNorm, n)
	}
	isMarked := func(n string) string {
		for _, m := range opts.Markers {
			if strings.Contains(n, m) {
				return m
			}
		}
		return ""
	}
	inCount := map[string]int{}
	for _, c := range inC {
		n := c07NormComment(c)
		if isMarked(n) == "" {
			inCount[n]++
		}
	}
	var lost []string
	for n, k := range inCount {
		if outCount[n] < k {
			lost = append(lost, fmt.Sprintf("%q (%d in the input, %d in the output)", n, k, outCount[n]))
		}
	}
	sort.Strings(lost)
	if len(lost) > 0 {
		o.fail("comment-lost", "comment(s) of the input missing from the output: %s", strings.Join(lost, "; "))
	}
	for _, m := range opts.Markers {
		k := 0
		for _, n := range outNorm {
			k += strings.Count(n, m)
		}
		switch {
		case k == 0:
			o.fail("comment-lost", "the inserted comment %s is missing from the output", m)
		case k > 1:
			o.fail("comment-duplicated", "the inserted comment %s occurs %d times in the output", m, k)
		}
	}

	if opts.SkipCompile {
		return o
	}
	// descriptors
	src := map[string]string{}
	for k, v := range deps {
		src[k] = v
	}
	src[path] = string(x)
	rx := ref.Compile(src, []string{path}, true)
	if len(rx.Errors) > 0 || rx.Files[path] == nil {
		return o
	}
	o.Compiled = true
	src[path] = string(out1)
	ro := ref.Compile(src, []string{path}, true)
	if len(ro.Errors) > 0 || ro.Files[path] == nil {
		msg := "no descriptor"
		if len(ro.Errors) > 0 {
			e := ro.Errors[0]
			msg = fmt.Sprintf("%s:%d:%d: %s", e.File, e.Line, e.Col, e.Message)
		}
		o.fail("output-uncompilable", "the input compiles but the formatted output does not: %s", msg)
		return o
	}
	cx, co := c07CanonDescriptor(rx, path), c07CanonDescriptor(ro, path)
	if cx != co {
		o.fail("descriptor-changed", "the formatted file compiles to a different descriptor: %s", c07FirstLineDiff(cx, co))
	}
	ax, ao := c07Attribution(rx, path), c07Attribution(ro, path)
	var moved []string
	for k, entries := range ax {
		o.Attributed += len(entries)
		var all []string
		for _, e := range ao[k] {
			all = append(all, e.text)
		}
		outAll := strings.Join(all, " ")
		for _, e := range entries {
			if e.text == "" {
				continue
			}
			if !strings.Contains(outAll, e.text) {
				moved = append(moved, fmt.Sprintf("%s: the input attributes the %s comment %q to it, the output attributes %q", k, e.role, e.text, outAll))
				continue
			}
			same := false
			for _, w := range ao[k] {
				if w.role == e.role && w.text == e.text {
					same = true
				}
			}
			if !same {
				o.RoleChanges++
			}
		}
	}
	sort.Strings(moved)
	if len(moved) > 0 {
		if len(moved) > 4 {
			moved = append(moved[:4], fmt.Sprintf("… (%d more)", len(moved)-4))
		}
		o.fail("comment-moved", "a comment attached to a declaration in the input is not attached to it in the output: %s", strings.Join(moved, " | "))
	}
	return o
}

func c07FirstDiff(a, b []byte) string {
	la, lb := strings.Split(string(a), "\n"), strings.Split(string(b), "\n")
	for i := 0; i < len(la) || i < len(lb); i++ {
		var x, y string
		if i < len(la) {
			x = la[i]
		}
		if i < len(lb) {
			y = lb[i]
		}
		if x != y {
			return fmt.Sprintf("line %d: first %q, second %q", i+1, x, y)
		}
	}
	return "equal"
}

func c07FirstLineDiff(a, b string) string {
	la, lb := strings.Split(a, "\n"), strings.Split(b, "\n")
	for i := 0; i < len(la) || i < len(lb); i++ {
		var x, y string
		if i < len(la) {
			x = la[i]
		}
		if i < len(lb) {
			y = lb[i]
		}
		if x != y {
			return fmt.Sprintf("input %q, output %q", x, y)
		}
	}
	return "equal"
}

// ---- canonical descriptor dump ----------------------------------------------------------------

// c07Resolved re-decodes the descriptor with the extensions of the compiled files, so that custom
// options are fields rather than unknown bytes.
func c07Resolved(res *ref.Result, path string) (*descriptorpb.FileDescriptorProto, *dynamicpb.Types) {
	fd := res.Files[path]
	reg := &protoregistry.Files{}
	for _, f := range res.Linked {
		c07Register(reg, f)
	}
	types := dynamicpb.NewTypes(reg)
	data, err := proto.MarshalOptions{Deterministic: true}.Marshal(fd)
	if err != nil {
		return fd, types
	}
	out := &descriptorpb.FileDescriptorProto{}
	if err := (proto.UnmarshalOptions{Resolver: types}).Unmarshal(data, out); err != nil {
		return fd, types
	}
	return out, types
}

func c07Register(reg *protoregistry.Files, f protoreflect.FileDescriptor) {
	if _, err := reg.FindFileByPath(f.Path()); err == nil {
		return
	}
	imps := f.Imports()
	for i := 0; i < imps.Len(); i++ {
		if imps.Get(i).FileDescriptor != nil && !imps.Get(i).IsPlaceholder() {
			c07Register(reg, imps.Get(i).FileDescriptor)
		}
	}
	_ = reg.RegisterFile(f)
}

func c07CanonDescriptor(res *ref.Result, path string) string {
	fd, _ := c07Resolved(res, path)
	fd = proto.Clone(fd).(*descriptorpb.FileDescriptorProto)
	fd.SourceCodeInfo = nil
	deps := append([]string{}, fd.Dependency...)
	var pub, weak []string
	for _, i := range fd.PublicDependency {
		if int(i) < len(deps) {
			pub = append(pub, deps[i])
		}
	}
	for _, i := range fd.WeakDependency {
		if int(i) < len(deps) {
			weak = append(weak, deps[i])
		}
	}
	sort.Strings(deps)
	sort.Strings(pub)
	sort.Strings(weak)
	fd.Dependency, fd.PublicDependency, fd.WeakDependency = nil, nil, nil
	var sb strings.Builder
	fmt.Fprintf(&sb, "dependency=%q\npublic=%q\nweak=%q\n", deps, pub, weak)
	c07Dump(&sb, "", fd.ProtoReflect())
	return sb.String()
}

func c07Dump(sb *strings.Builder, prefix string, m protoreflect.Message) {
	type fv struct {
		key string
		fd  protoreflect.FieldDescriptor
		v   protoreflect.Value
	}
	var fields []fv
	m.Range(func(fd protoreflect.FieldDescriptor, v protoreflect.Value) bool {
		key := fmt.Sprintf("%09d %s", fd.Number(), fd.Name())
		if fd.IsExtension() {
			key = fmt.Sprintf("x[%s]", fd.FullName())
		}
		fields = append(fields, fv{key, fd, v})
		return true
	})
	sort.Slice(fields, func(i, j int) bool { return fields[i].key < fields[j].key })
	for _, f := range fields {
		name := string(f.fd.Name())
		if f.fd.IsExtension() {
			name = "[" + string(f.fd.FullName()) + "]"
		}
		switch {
		case f.fd.IsList():
			l := f.v.List()
			for i := 0; i < l.Len(); i++ {
				c07DumpValue(sb, fmt.Sprintf("%s%s[%d]", prefix, name, i), f.fd, l.Get(i))
			}
		case f.fd.IsMap():
			var keys []string
			vals := map[string]protoreflect.Value{}
			f.v.Map().Range(func(k protoreflect.MapKey, v protoreflect.Value) bool {
				ks := fmt.Sprintf("%v", k.Interface())
				keys = append(keys, ks)
				vals[ks] = v
				return true
			})
			sort.Strings(keys)
			for _, k := range keys {
				c07DumpValue(sb, fmt.Sprintf("%s%s{%s}", prefix, name, k), f.fd.MapValue(), vals[k])
			}
		default:
			c07DumpValue(sb, prefix+name, f.fd, f.v)
		}
	}
	if u := m.GetUnknown(); len(u) > 0 {
		fmt.Fprintf(sb, "%s<unknown>=%x\n", prefix, []byte(u))
	}
}

func c07DumpValue(sb *strings.Builder, label string, fd protoreflect.FieldDescriptor, v protoreflect.Value) {
	switch fd.Kind() {
	case protoreflect.MessageKind, protoreflect.GroupKind:
		fmt.Fprintf(sb, "%s{\n", label)
		c07Dump(sb, label+".", v.Message())
	case protoreflect.FloatKind, protoreflect.DoubleKind:
		fmt.Fprintf(sb, "%s=%016x\n", label, math.Float64bits(v.Float()))
	case protoreflect.BytesKind:
		fmt.Fprintf(sb, "%s=%x\n", label, v.Bytes())
	case protoreflect.StringKind:
		fmt.Fprintf(sb, "%s=%q\n", label, v.String())
	default:
		fmt.Fprintf(sb, "%s=%v\n", label, v.Interface())
	}
}

// ---- comments attributed to declarations --------------------------------------------------------

type c07Attr struct {
	role string // leading | trailing | detached
	text string
}

// c07Attribution maps a symbolic location (names instead of indexes wherever the element has a
// name) to the normalised comments the compiler attributed to it.
func c07Attribution(res *ref.Result, path string) map[string][]c07Attr {
	fd, types := c07Resolved(res, path)
	out := map[string][]c07Attr{}
	sci := res.Files[path].GetSourceCodeInfo()
	for _, loc := range sci.GetLocation() {
		if loc.LeadingComments == nil && loc.TrailingComments == nil && len(loc.LeadingDetachedComments) == 0 {
			continue
		}
		key := c07SymbolicPath(fd.ProtoReflect(), loc.Path, types)
		for _, d := range loc.LeadingDetachedComments {
			out[key] = append(out[key], c07Attr{"detached", c07NormText(d)})
		}
		if loc.LeadingComments != nil {
			out[key] = append(out[key], c07Attr{"leading", c07NormText(loc.GetLeadingComments())})
		}
		if loc.TrailingComments != nil {
			out[key] = append(out[key], c07Attr{"trailing", c07NormText(loc.GetTrailingComments())})
		}
	}
	return out
}

func c07SymbolicPath(m protoreflect.Message, p []int32, types *dynamicpb.Types) string {
	var sb strings.Builder
	for len(p) > 0 {
		num := protowire.Number(p[0])
		p = p[1:]
		fd := m.Descriptor().Fields().ByNumber(num)
		if fd == nil {
			if xt, err := types.FindExtensionByNumber(m.Descriptor().FullName(), num); err == nil {
				// the value was decoded with the same resolver: find the populated field descriptor
				m.Range(func(f protoreflect.FieldDescriptor, _ protoreflect.Value) bool {
					if f.IsExtension() && f.Number() == num {
						fd = f
						return false
					}
					return true
				})
				if fd == nil {
					fd = xt.TypeDescriptor()
				}
			}
		}
		if fd == nil {
			fmt.Fprintf(&sb, "/#%d%v", num, p)
			return sb.String()
		}
		if fd.IsExtension() {
			fmt.Fprintf(&sb, "/[%s]", fd.FullName())
		} else {
			fmt.Fprintf(&sb, "/%s", fd.Name())
		}
		if !m.Has(fd) {
			if len(p) > 0 {
				fmt.Fprintf(&sb, "%v", p)
			}
			return sb.String()
		}
		v := m.Get(fd)
		switch {
		case fd.IsList():
			if len(p) == 0 {
				return sb.String()
			}
			idx := int(p[0])
			p = p[1:]
			l := v.List()
			if idx < 0 || idx >= l.Len() {
				fmt.Fprintf(&sb, "[%d?]%v", idx, p)
				return sb.String()
			}
			ev := l.Get(idx)
			switch fd.Kind() {
			case protoreflect.MessageKind, protoreflect.GroupKind:
				em := ev.Message()
				if nf := em.Descriptor().Fields().ByName("name"); nf != nil && nf.Kind() == protoreflect.StringKind && !nf.IsList() && strings.HasPrefix(string(em.Descriptor().FullName()), "google.protobuf.") {
					fmt.Fprintf(&sb, "(%s)", em.Get(nf).String())
				} else if sf, ef := em.Descriptor().Fields().ByName("start"), em.Descriptor().Fields().ByName("end"); sf != nil && ef != nil && strings.HasPrefix(string(em.Descriptor().FullName()), "google.protobuf.") {
					fmt.Fprintf(&sb, "(%v-%v)", em.Get(sf).Interface(), em.Get(ef).Interface())
				} else {
					fmt.Fprintf(&sb, "[%d]", idx)
				}
				m = em
			case protoreflect.StringKind:
				fmt.Fprintf(&sb, "(%s)", ev.String())
				if len(p) > 0 {
					fmt.Fprintf(&sb, "%v", p)
				}
				return sb.String()
			default:
				fmt.Fprintf(&sb, "[%d]", idx)
				if len(p) > 0 {
					fmt.Fprintf(&sb, "%v", p)
				}
				return sb.String()
			}
		case fd.IsMap():
			if len(p) > 0 {
				fmt.Fprintf(&sb, "%v", p)
			}
			return sb.String()
		case fd.Kind() == protoreflect.MessageKind || fd.Kind() == protoreflect.GroupKind:
			m = v.Message()
		default:
			if len(p) > 0 {
				fmt.Fprintf(&sb, "%v", p)
			}
			return sb.String()
		}
	}
	return sb.String()
}
