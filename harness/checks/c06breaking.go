package checks

import (
	"fmt"
	"path"
	"regexp"
	"sort"
	"strings"

	"buf.build/go/bufplugin/check"
	"github.com/bufbuild/buf/private/bufpkg/bufcheck"
	"github.com/bufbuild/buf/private/bufpkg/bufimage"
	"github.com/bufbuild/verifharness/gen"
)

// The breaking half of C06: the same selection/suppression algebra over an (against, current) pair.
// The current schema is the against schema after several path-preserving edits (C03-style
// operators at the model level), spread over all modules so that import-only files change too.

var c06DeletedElemRE = regexp.MustCompile(`^Previously present (enum|message|service) "([^"]+)" was deleted from package "([^"]+)"\.$`)
var c06DeletedFileRE = regexp.MustCompile(`^Previously present file "([^"]+)" was deleted\.$`)

type c06BreakingEdit struct {
	ID string
}

// c06MakeBreaking applies up to n edits; each is kept only if the workspace still compiles.
func c06MakeBreaking(env *c06Env, against *gen.Schema, n int) (*gen.Schema, []string, []string) {
	c, ctx := env.c, env.ctx
	cur := against
	var applied []string
	var moved []string // full names of messages that were moved to another file of their package
	try := func(id string, edit func(s *gen.Schema) bool) {
		s := cur.Clone()
		if !edit(s) {
			return
		}
		if err := c06AllTargetsImage(ctx, s, s.Render()); err != nil {
			c.Count("breaking_steps_rejected_by_compiler", 1)
			return
		}
		cur = s
		applied = append(applied, id)
	}
	pick := func(s *gen.Schema, keep func(e *c05Elem) bool) *c05Elem {
		es := c05Elems(s, keep)
		if len(es) == 0 {
			return nil
		}
		return es[c.Rand.IntN(len(es))]
	}
	plainField := func(e *c05Elem) bool {
		return e.Kind == "field" && e.Field.Kind == "scalar" && len(e.Field.Options) == 0 && e.Field.Default == ""
	}
	for i := 0; i < n; i++ {
		switch c.Rand.IntN(10) {
		case 9:
			// a top-level message moves to another file of the same package (same module, same syntax) and one
			// of its fields changes type: the annotation lies in the new file, its against-location in the old
			// one — ignore / ignore_only paths apply to both
			var name string
			try("message-moved-and-changed", func(s *gen.Schema) bool {
				type cand struct {
					from, to *gen.File
					m        *gen.Message
				}
				var cands []cand
				for _, mod := range s.Modules {
					for _, x := range mod.Files {
						for _, y := range mod.Files {
							if x == y || x.Package != y.Package || x.Syntax != y.Syntax || x.Package == "" {
								continue
							}
							for _, m := range x.Messages {
								for _, fl := range m.Fields {
									if fl.Kind == "scalar" && len(fl.Options) == 0 && fl.Default == "" && (fl.Type == "int32" || fl.Type == "string" || fl.Type == "bool") {
										cands = append(cands, cand{x, y, m})
										break
									}
								}
							}
						}
					}
				}
				if len(cands) == 0 {
					return false
				}
				cd := cands[c.Rand.IntN(len(cands))]
				var rest []*gen.Message
				for _, m := range cd.from.Messages {
					if m != cd.m {
						rest = append(rest, m)
					}
				}
				cd.from.Messages = rest
				cd.to.Messages = append(cd.to.Messages, cd.m)
				for _, fl := range cd.m.Fields {
					if fl.Kind == "scalar" && len(fl.Options) == 0 && fl.Default == "" && (fl.Type == "int32" || fl.Type == "string" || fl.Type == "bool") {
						fl.Type = map[string]string{"int32": "int64", "string": "bytes", "bool": "uint32"}[fl.Type]
						break
					}
				}
				name = cd.from.Package + "." + cd.m.Name
				return true
			})
			if len(applied) > 0 && applied[len(applied)-1] == "message-moved-and-changed" && name != "" {
				moved = append(moved, name)
				applied[len(applied)-1] = "message-moved-and-changed#" + name // distinct entries
			}
		case 0:
			try("field-deleted", func(s *gen.Schema) bool {
				e := pick(s, func(e *c05Elem) bool { return plainField(e) && len(e.Msg.Fields) > 1 && e.Field.Oneof == "" })
				if e == nil {
					return false
				}
				var out []*gen.Field
				for _, fl := range e.Msg.Fields {
					if fl != e.Field {
						out = append(out, fl)
					}
				}
				e.Msg.Fields = out
				return true
			})
		case 1:
			try("field-renamed", func(s *gen.Schema) bool {
				e := pick(s, plainField)
				if e == nil {
					return false
				}
				e.Field.Name = fmt.Sprintf("renamed_%d", i)
				if e.Field.JSONName != "" {
					e.Field.JSONName = ""
				}
				return true
			})
		case 2:
			try("field-type-changed", func(s *gen.Schema) bool {
				e := pick(s, func(e *c05Elem) bool {
					return plainField(e) && (e.Field.Type == "int32" || e.Field.Type == "string" || e.Field.Type == "bool")
				})
				if e == nil {
					return false
				}
				e.Field.Type = map[string]string{"int32": "int64", "string": "bytes", "bool": "uint32"}[e.Field.Type]
				return true
			})
		case 3:
			try("enum-value-deleted", func(s *gen.Schema) bool {
				e := pick(s, func(e *c05Elem) bool { return e.Kind == "enumvalue" && e.Val.Number != 0 && len(e.Enum.Values) > 2 })
				if e == nil {
					return false
				}
				var out []*gen.EnumValue
				for _, v := range e.Enum.Values {
					if v != e.Val {
						out = append(out, v)
					}
				}
				e.Enum.Values = out
				return true
			})
		case 4:
			try("enum-value-renamed", func(s *gen.Schema) bool {
				e := pick(s, func(e *c05Elem) bool { return e.Kind == "enumvalue" && e.Val.Number != 0 })
				if e == nil {
					return false
				}
				e.Val.Name = fmt.Sprintf("%s_RENAMED_%d", gen.UpperSnake(e.Enum.Name), i)
				return true
			})
		case 5:
			try("rpc-deleted", func(s *gen.Schema) bool {
				e := pick(s, func(e *c05Elem) bool { return e.Kind == "rpc" && len(e.Svc.Methods) > 1 })
				if e == nil {
					return false
				}
				var out []*gen.Method
				for _, m := range e.Svc.Methods {
					if m != e.Rpc {
						out = append(out, m)
					}
				}
				e.Svc.Methods = out
				return true
			})
		case 6:
			try("rpc-streaming-changed", func(s *gen.Schema) bool {
				e := pick(s, func(e *c05Elem) bool { return e.Kind == "rpc" })
				if e == nil {
					return false
				}
				e.Rpc.ServerStream = !e.Rpc.ServerStream
				return true
			})
		case 7:
			try("file-option-changed", func(s *gen.Schema) bool {
				fs := s.AllFiles()
				f := fs[c.Rand.IntN(len(fs))]
				for j := range f.Options {
					if f.Options[j].Name == "go_package" {
						f.Options[j].Value = fmt.Sprintf("%q", fmt.Sprintf("example.com/changed/v%d", i))
						return true
					}
				}
				f.Options = append(f.Options, gen.Opt{Name: "java_outer_classname", Value: fmt.Sprintf("%q", fmt.Sprintf("Changed%d", i))})
				return true
			})
		default:
			try("field-cardinality-changed", func(s *gen.Schema) bool {
				e := pick(s, func(e *c05Elem) bool {
					return plainField(e) && e.Field.Oneof == "" && (e.Field.Label == "optional" || e.Field.Label == "")
				})
				if e == nil {
					return false
				}
				e.Field.Label = "repeated"
				return true
			})
		}
	}
	return cur, applied, dedup(moved)
}

func c06BreakingPart(env *c06Env, clean *gen.Schema, idx int) {
	c, ctx, version := env.c, env.ctx, env.version
	against := clean
	current, applied, moved := c06MakeBreaking(env, against, c.Pick(14, 22))
	if len(applied) < 2 {
		c.Count("breaking_pairs_too_similar", 1)
		return
	}
	ar, cr := against.Render(), current.Render()
	nMod := len(current.Modules)
	// againstPath: the file of the against-location of an annotation when it differs from the annotation's own
	// file — annotations inside a message that moved between files of its package
	type movedSpan struct {
		file        string
		from, to    int
		againstFile string
	}
	var movedSpans []movedSpan
	{
		oldIdx := against.TypeIndex()
		for _, name := range moved {
			sp := cr.Span("message", name)
			ti, ok := oldIdx[name]
			if sp == nil || !ok || ti.File.Path == sp.File {
				continue
			}
			from := sp.StartLine
			if sp.CommentLine > 0 && sp.CommentLine < from {
				from = sp.CommentLine
			}
			movedSpans = append(movedSpans, movedSpan{sp.File, from, sp.EndLine, ti.File.Path})
			c.Count("breaking_moved_messages", 1)
		}
	}
	againstTypes := against.TypeIndex()
	againstPath := func(a lintAnn) string {
		// an annotation about a deleted file has no location of its own; its against-location is that file
		if a.Path == "" && a.Rule == "FILE_NO_DELETE" {
			if m := c06DeletedFileRE.FindStringSubmatch(a.Msg); m != nil {
				return m[1]
			}
		}
		// an element deleted together with the whole package view of the current image: located in the against file only
		if a.Path == "" {
			if m := c06DeletedElemRE.FindStringSubmatch(a.Msg); m != nil {
				full := m[3] + "." + m[2]
				if m[1] == "service" {
					for _, f := range against.AllFiles() {
						if f.Package == m[3] {
							for _, sv := range f.Services {
								if sv.Name == m[2] {
									return f.Path
								}
							}
						}
					}
				} else if ti, ok := againstTypes[full]; ok {
					return ti.File.Path
				}
			}
		}
		for _, ms := range movedSpans {
			if a.Path == ms.file && a.Line >= ms.from && a.Line <= ms.to {
				return ms.againstFile
			}
		}
		return ""
	}
	type pair struct{ cur, old bufimage.Image }
	pairs := make([]pair, nMod)
	importOnly := make([]map[string]bool, nMod)
	importOnlyOld := make([]map[string]bool, nMod)
	for mi := range current.Modules {
		ci, err1 := c05ModuleImage(ctx, current, cr, mi, nil)
		oi, err2 := c05ModuleImage(ctx, against, ar, mi, nil)
		if err1 != nil || err2 != nil {
			c.Count("generator_rejects", 1)
			return
		}
		pairs[mi] = pair{ci, oi}
		importOnly[mi] = importOnlyPaths(ci)
		importOnlyOld[mi] = importOnlyPaths(oi)
	}
	pluginOpt := bufcheck.WithPluginConfigs(env.pc)
	base := make([]map[string][]lintAnn, nMod)
	baseline := func(mi int) map[string][]lintAnn {
		if base[mi] != nil {
			return base[mi]
		}
		b := map[string][]lintAnn{}
		for _, r := range env.tableP.rulesOfType("breaking") {
			if r.Deprecated {
				continue
			}
			client, opts := env.plain, []bufcheck.BreakingOption(nil)
			if env.table.rule(r.ID) == nil {
				client, opts = env.plug, []bufcheck.BreakingOption{pluginOpt}
			}
			anns, err := c05Breaking(ctx, client, c05CheckCfg{Version: version, Use: []string{r.ID}}, pairs[mi].cur, pairs[mi].old, opts...)
			c.Eval(1)
			c.Count("breaking_baselines", 1)
			if err != nil {
				c.Violation("breaking-failed", fmt.Sprintf("version=%s use=%s", version, r.ID), fmt.Sprintf("breaking with use:[%s] failed: %v", r.ID, err), map[string]any{"applied": applied})
				continue
			}
			for _, a := range anns {
				if a.Rule != r.ID {
					c.Violation("baseline-foreign-rule", fmt.Sprintf("breaking version=%s use=%s reported=%s", version, r.ID, a.Rule), fmt.Sprintf("use:[%s] alone reported an annotation of rule %s: %s", r.ID, a.Rule, a), nil)
				}
			}
			if len(anns) > 0 {
				b[r.ID] = anns
				c.Distinct("breaking_rules_with_annotations", r.ID)
			}
		}
		base[mi] = b
		return b
	}
	nCfg := c.Pick(30, 90)
	for ci := 0; ci < nCfg; ci++ {
		plugin := c.Rand.IntN(3) == 0
		t := env.tableFor(plugin)
		cfg := c06GenConfig(c.Rand, t, "breaking", version, current, nMod, plugin, "")
		if ci%15 == 4 {
			c06Bogus(c.Rand, cfg, c06Pools(t, "breaking"))
		} else if len(movedSpans) > 0 && ci%6 == 1 {
			// designed: the old file of a moved message is ignored, for every rule or for the type rules only
			ms := movedSpans[c.Rand.IntN(len(movedSpans))]
			if ci%12 == 1 {
				cfg.Ignore = antichain(append(cfg.Ignore, ms.againstFile))
				cfg.feature("ignore")
			} else {
				if cfg.IgnoreOnly == nil {
					cfg.IgnoreOnly = map[string][]string{}
				}
				for _, id := range []string{"FIELD_SAME_TYPE", "FIELD_WIRE_COMPATIBLE_TYPE", "FIELD_WIRE_JSON_COMPATIBLE_TYPE"} {
					if r := t.rule(id); r != nil && r.Type == "breaking" {
						cfg.IgnoreOnly[id] = antichain(append(cfg.IgnoreOnly[id], ms.againstFile))
					}
				}
				cfg.feature("ignore_only-rule")
			}
			cfg.feature("against-location-of-moved-message")
		}
		excludeImports := c.Rand.IntN(2) == 0
		if excludeImports {
			cfg.feature("exclude-imports")
		}
		client := env.plain
		var bOpts []bufcheck.BreakingOption
		var crOpts []bufcheck.ConfiguredRulesOption
		if plugin {
			client = env.plug
			bOpts = append(bOpts, pluginOpt)
			crOpts = append(crOpts, pluginOpt)
		}
		if excludeImports {
			bOpts = append(bOpts, bufcheck.BreakingWithExcludeImports())
		}
		key := "breaking " + cfg.vector()
		describe := fmt.Sprintf("breaking config{version=%s use=%v except=%v ignore=%v ignore_only=%v exclude_imports=%v plugin=%v}", cfg.Version, cfg.Use, cfg.Except, cfg.Ignore, cfg.IgnoreOnly, excludeImports, plugin)
		detail := func() map[string]any {
			m := current.Modules[cfg.Module]
			return map[string]any{"module": m.Dir, "applied": applied, "current": cr.Files[m.Dir], "against": ar.Files[against.Modules[cfg.Module].Dir]}
		}
		sel, selErr := t.selection("breaking", cfg.Use, cfg.Except)
		if selErr == nil {
			var ids []string
			for id := range cfg.IgnoreOnly {
				ids = append(ids, id)
			}
			_, selErr = t.expand("breaking", ids)
		}
		bc, err := cfg.breakingConfig()
		if err != nil {
			c.Violation("config-rejected", key, fmt.Sprintf("%s: bufconfig rejected the configuration: %v", describe, err), detail())
			continue
		}
		configured, crErr := client.ConfiguredRules(ctx, check.RuleTypeBreaking, bc, crOpts...)
		anns, bErr := c05FileAnnotations(client.Breaking(ctx, bc, pairs[cfg.Module].cur, pairs[cfg.Module].old, bOpts...))
		c.Eval(2)
		c.Count("breaking_configs", 1)
		c.Distinct("config_vectors", "breaking/"+cfg.vector())
		if selErr != nil {
			c.Count("unknown_id_configs", 1)
			if crErr == nil {
				c.Violation("unknown-id-accepted", "breaking ConfiguredRules "+cfg.Bogus, fmt.Sprintf("%s: ConfiguredRules accepted an unknown ID (%v) and returned %v", describe, selErr, ruleIDs(configured)), detail())
			}
			if bErr == nil {
				c.Violation("unknown-id-accepted", "breaking Breaking "+cfg.Bogus, fmt.Sprintf("%s: Breaking accepted an unknown ID (%v)", describe, selErr), detail())
			}
			continue
		}
		if crErr != nil {
			c.Violation("configured-rules-failed", key, fmt.Sprintf("%s: ConfiguredRules failed: %v (the model selects %v)", describe, crErr, sel), detail())
		} else if got := ruleIDs(configured); strings.Join(got, ",") != strings.Join(sel, ",") {
			c.Violation("selection-differs", key, fmt.Sprintf("%s: ConfiguredRules = %v, documented expansion = %v", describe, got, sel), detail())
		}
		if bErr != nil {
			c.Violation("breaking-failed", key, fmt.Sprintf("%s: Breaking failed: %v (the model selects %d rules)", describe, bErr, len(sel)), detail())
			continue
		}
		agCtx := &c06Against{Path: againstPath, ImportOnly: importOnlyOld[cfg.Module], Optional: map[string]bool{}}
		want, err := c06Expected(t, "breaking", cfg, sel, baseline(cfg.Module), nil, importOnly[cfg.Module], excludeImports, agCtx)
		if err == nil && len(movedSpans) > 0 {
			// how often the against-location alone decides
			for _, r := range sel {
				for _, a := range baseline(cfg.Module)[r] {
					if ap := againstPath(a); ap != "" && !underPath(a.Path, cfg.Ignore) && underPath(ap, cfg.Ignore) {
						c.Count("breaking_suppressed_by_against_location_only", 1)
					}
				}
			}
		}
		if err != nil {
			c.Violation("harness-catalogue", key, err.Error(), nil)
			continue
		}
		got := annKeys(anns)
		if excludeImports {
			for _, a := range anns {
				if importOnly[cfg.Module][a.Path] {
					c.Violation("import-file-reported", fmt.Sprintf("breaking version=%s rule=%s", cfg.Version, a.Rule), fmt.Sprintf("%s: annotation in a file that is only an import although imports are excluded: %s", describe, a), detail())
				}
			}
		} else {
			for _, a := range anns {
				if importOnly[cfg.Module][a.Path] {
					c.Count("breaking_import_annotations_default_mode", 1)
				}
			}
		}
		for k := range agCtx.Optional {
			// either outcome is accepted for these: align the expectation with what was observed
			if _, reported := got[k]; !reported {
				delete(want, k)
			}
			c.Count("breaking_optional_against_location_annotations", 1)
		}
		missing, extra := diffAnnSets(want, got)
		if len(missing) > 0 {
			c.Violation("annotation-lost", key, fmt.Sprintf("%s: missing from the result although selected and not suppressed: %v", describe, clipList(missing, 6)), detail())
		}
		if len(extra) > 0 {
			c.Violation("annotation-not-in-union", key, fmt.Sprintf("%s: reported although not in ⋃B(r)∖supp: %v", describe, clipList(extra, 6)), detail())
		}
		if len(want) > 0 {
			c.Count("breaking_configs_with_annotations", 1)
			c.Nontrivial("breaking/" + cfg.vector())
		}
		// law: one more suppression
		if c.Rand.IntN(2) == 0 {
			c2 := *cfg
			c2.Except = append([]string{}, cfg.Except...)
			c2.Ignore = append([]string{}, cfg.Ignore...)
			var rs []lintAnn
			for _, a := range got {
				rs = append(rs, a)
			}
			sort.Slice(rs, func(i, j int) bool { return rs[i].key() < rs[j].key() })
			var kind string
			var inScope func(a lintAnn) bool
			if c.Rand.IntN(2) == 0 && len(rs) > 0 {
				id := rs[c.Rand.IntN(len(rs))].Rule
				exp, err := t.expand("breaking", []string{id})
				if err != nil {
					continue
				}
				c2.Except = append(c2.Except, id)
				kind = "except"
				inScope = func(a lintAnn) bool { return exp[a.Rule] }
			} else {
				paths := c06PathPool(current.Modules[cfg.Module])
				p := paths[c.Rand.IntN(len(paths))]
				if len(movedSpans) > 0 && c.Rand.IntN(3) == 0 {
					p = movedSpans[c.Rand.IntN(len(movedSpans))].againstFile
				}
				if len(rs) > 0 && rs[0].Path != "" && c.Rand.IntN(3) > 0 {
					p = rs[c.Rand.IntN(len(rs))].Path
					if p == "" {
						continue
					}
					if c.Rand.IntN(2) == 0 && path.Dir(p) != "." {
						p = path.Dir(p)
					}
				}
				var fresh bool
				if c2.Ignore, fresh = addPath(c2.Ignore, p); !fresh {
					continue
				}
				kind = "ignore"
				// an annotation without a file is decided on its against-location, which the
				// result does not show: accept its removal
				inScope = func(a lintAnn) bool {
					if ap := againstPath(a); ap != "" && underPath(ap, []string{p}) {
						return true
					}
					return a.Path == "" || underPath(a.Path, []string{p})
				}
			}
			if _, err := t.selection("breaking", c2.Use, c2.Except); err != nil {
				continue
			}
			bc2, err := c2.breakingConfig()
			if err != nil {
				continue
			}
			anns2, err := c05FileAnnotations(client.Breaking(ctx, bc2, pairs[cfg.Module].cur, pairs[cfg.Module].old, bOpts...))
			c.Eval(1)
			c.Count("breaking_laws_evaluated", 1)
			lkey := "breaking law=" + kind + " version=" + cfg.Version
			if err != nil {
				c.Violation("breaking-failed", lkey, fmt.Sprintf("%s + one more suppression (%s): Breaking failed: %v", describe, kind, err), nil)
				continue
			}
			r2 := annKeys(anns2)
			for k, a := range r2 {
				if _, ok := got[k]; !ok {
					c.Violation("suppression-added-annotation", lkey, fmt.Sprintf("%s: adding a suppression (%s: except=%v ignore=%v) made a new annotation appear: %s", describe, kind, c2.Except, c2.Ignore, a), nil)
				}
			}
			removed := 0
			for k, a := range got {
				if _, ok := r2[k]; ok {
					continue
				}
				removed++
				if !inScope(a) {
					c.Violation("suppression-out-of-scope", lkey, fmt.Sprintf("%s: adding a suppression (%s: except=%v ignore=%v) removed an annotation outside its scope: %s", describe, kind, c2.Except, c2.Ignore, a), nil)
				}
			}
			if removed > 0 {
				c.Count("breaking_laws_nonvacuous", 1)
			}
		}
	}
	c.Nontrivial(fmt.Sprintf("breaking/%s/edits=%d", version, len(dedup(applied))))
}
