package checks

import (
	"fmt"
	"regexp"
	"strings"

	"github.com/bufbuild/verifharness/gen"
)

// The additive / cosmetic operators of C04 (also the "unrelated compatible changes" that surround a
// C03 edit). Every operator only adds things the property statement lists — new files, messages,
// enums, services, RPCs, oneofs of new fields, reserved ranges and names, enum values and
// non-required fields with numbers and names that are fresh in the edited version AND in the
// reference (older) version — or changes comments / layout only.

type c04Add struct {
	Name string
	// Apply edits e.New.S; false = not applicable here. e.Old (may be nil) is consulted for freshness.
	Apply func(e *c03Env) bool
}

var c04Additive []*c04Add

func c04Reg(name string, apply func(e *c03Env) bool) {
	c04Additive = append(c04Additive, &c04Add{name, apply})
}

func oldMsgOf(e *c03Env, full string) *gen.Message {
	if e.Old == nil {
		return nil
	}
	if m := e.Old.Msg(full); m != nil {
		return m.M
	}
	return nil
}

func oldEnumOf(e *c03Env, full string) *gen.Enum {
	if e.Old == nil {
		return nil
	}
	if en := e.Old.Enum(full); en != nil {
		return en.E
	}
	return nil
}

func (e *c03Env) pickMsg(pred func(m *c03Msg) bool) *c03Msg {
	var c []*c03Msg
	for _, m := range e.New.Msgs {
		if !isWKTCopy(m.File) && !m.Group && (pred == nil || pred(m)) {
			c = append(c, m)
		}
	}
	if len(c) == 0 {
		return nil
	}
	return c[e.R.IntN(len(c))]
}

func (e *c03Env) pickEnum() *c03Enum {
	var c []*c03Enum
	for _, en := range e.New.Enums {
		if !isWKTCopy(en.File) {
			c = append(c, en)
		}
	}
	if len(c) == 0 {
		return nil
	}
	return c[e.R.IntN(len(c))]
}

func (e *c03Env) pickFile() *gen.File {
	var c []*gen.File
	for _, f := range e.New.S.AllFiles() {
		if !isWKTCopy(f) {
			c = append(c, f)
		}
	}
	if len(c) == 0 {
		return nil
	}
	return c[e.R.IntN(len(c))]
}

// freshTop returns a top-level name unused in the package in both versions.
func (e *c03Env) freshTop(pkg, base string) string {
	used := e.New.packageNames(pkg)
	if e.Old != nil {
		for k := range e.Old.packageNames(pkg) {
			used[k] = true
		}
	}
	for i := e.next(); ; i++ {
		n := fmt.Sprintf("%s%d", base, i)
		if !used[n] {
			return n
		}
	}
}

// newField builds a non-required field valid for the file's syntax with a fresh number and name.
func (e *c03Env) newField(m *c03Msg, inOneof bool) *gen.Field {
	oldM := oldMsgOf(e, m.Full)
	max := 0
	for _, fl := range m.M.Fields {
		if fl.Number > max && fl.Number < 900 {
			max = fl.Number
		}
	}
	fl := &gen.Field{Name: freshFieldName(fmt.Sprintf("added_%s_%d", []string{"note", "count", "flag", "ref"}[e.R.IntN(4)], e.next()), m.M, oldM),
		Number: freshFieldNumber(max+1+e.R.IntN(3), m.M, oldM), Comment: "An added field."}
	syn := m.File.Syntax
	switch k := e.R.IntN(6); {
	case k == 0 && !inOneof:
		fl.Kind, fl.MapKey, fl.MapVal, fl.MapValK = "map", "string", c03Scalars[e.R.IntN(len(c03Scalars))], "scalar"
		return fl
	case k == 1:
		// a message declared in the same file (no new import); possibly the message itself
		var c []string
		for _, o := range e.New.Msgs {
			if o.File == m.File && !o.Group {
				c = append(c, o.Full)
			}
		}
		fl.Kind, fl.Type = "message", c[e.R.IntN(len(c))]
	case k == 2:
		var c []string
		for _, o := range e.New.Enums {
			if o.File == m.File {
				c = append(c, o.Full)
			}
		}
		if len(c) == 0 {
			fl.Kind, fl.Type = "scalar", "int32"
		} else {
			fl.Kind, fl.Type = "enum", c[e.R.IntN(len(c))]
		}
	default:
		fl.Kind, fl.Type = "scalar", c03Scalars[e.R.IntN(len(c03Scalars))]
	}
	if inOneof {
		return fl
	}
	switch syn {
	case "proto2", "":
		fl.Label = []string{"optional", "repeated"}[e.R.IntN(2)]
	case "proto3":
		fl.Label = []string{"", "optional", "repeated"}[e.R.IntN(3)]
	default:
		fl.Label = []string{"", "repeated"}[e.R.IntN(2)]
	}
	return fl
}

func (e *c03Env) newEnum(name string) *gen.Enum {
	pre := gen.UpperSnake(name) + "_"
	return &gen.Enum{Name: name, Comment: name + " was added.", Values: []*gen.EnumValue{
		{Name: pre + "UNSPECIFIED", Number: 0, Comment: "Zero."}, {Name: pre + "ONE", Number: 1, Comment: "One."}}}
}

func (e *c03Env) newMessage(name string) *gen.Message {
	return &gen.Message{Name: name, Comment: name + " was added.", OneofComments: map[string]string{}, Fields: []*gen.Field{
		{Name: "id", Number: 1, Kind: "scalar", Type: "string", Label: "", Comment: "The id."},
		{Name: "tags", Number: 2, Kind: "scalar", Type: "string", Label: "repeated", Comment: "The tags."}}}
}

func fixLabels(m *gen.Message, syntax string) *gen.Message {
	for _, fl := range m.Fields {
		if fl.Label == "" && fl.Kind != "map" && fl.Oneof == "" && (syntax == "proto2" || syntax == "") {
			fl.Label = "optional"
		}
	}
	return m
}

func nestedNameFree(m *gen.Message, old *gen.Message, name string) bool {
	for _, mm := range []*gen.Message{m, old} {
		if mm == nil {
			continue
		}
		for _, n := range mm.Nested {
			if n.Name == name {
				return false
			}
		}
		for _, en := range mm.Enums {
			if en.Name == name {
				return false
			}
			for _, v := range en.Values {
				if v.Name == name {
					return false
				}
			}
		}
		for _, fl := range mm.Fields {
			if fl.Group != nil && fl.Group.Name == name {
				return false
			}
			if fl.Kind == "map" && gen.Pascal(fl.Name)+"Entry" == name {
				return false
			}
		}
	}
	return true
}

func init() {
	c04Reg("add-file-in-existing-package", func(e *c03Env) bool {
		g := e.pickFile()
		if g == nil || g.Package == "" {
			return false
		}
		mod := e.New.S.ModuleOf(g)
		dir := g.Path[:strings.LastIndex(g.Path, "/")+1]
		syn := []string{"proto2", "proto3", "editions"}[e.R.IntN(3)]
		name := e.freshTop(g.Package, "AddedInFile")
		f := &gen.File{Path: fmt.Sprintf("%sadded_file_%d.proto", dir, e.next()), Syntax: syn, Package: g.Package,
			Messages: []*gen.Message{fixLabels(e.newMessage(name), syn)}}
		for e.New.S.FileByPath(f.Path) != nil || (e.Old != nil && e.Old.S.FileByPath(f.Path) != nil) {
			f.Path = fmt.Sprintf("%sadded_file_%d.proto", dir, e.next())
		}
		mod.Files = append(mod.Files, f)
		return true
	})
	c04Reg("add-file-in-new-package", func(e *c03Env) bool {
		mod := e.New.S.Modules[e.R.IntN(len(e.New.S.Modules))]
		n := e.next()
		pkg := fmt.Sprintf("acme.added%d.v1", n)
		for _, x := range []*c03Idx{e.New, e.Old} {
			if x != nil && len(x.packageNames(pkg)) > 0 {
				return false
			}
		}
		syn := []string{"proto2", "proto3", "editions"}[e.R.IntN(3)]
		f := &gen.File{Path: strings.ReplaceAll(pkg, ".", "/") + "/added.proto", Syntax: syn, Package: pkg,
			Enums:    []*gen.Enum{e.newEnum("AddedKind")},
			Messages: []*gen.Message{fixLabels(e.newMessage("AddedThing"), syn)}}
		if e.New.S.FileByPath(f.Path) != nil || (e.Old != nil && e.Old.S.FileByPath(f.Path) != nil) {
			return false
		}
		mod.Files = append(mod.Files, f)
		return true
	})
	c04Reg("add-message-top-level", func(e *c03Env) bool {
		f := e.pickFile()
		if f == nil {
			return false
		}
		f.Messages = append(f.Messages, fixLabels(e.newMessage(e.freshTop(f.Package, "AddedMessage")), f.Syntax))
		return true
	})
	c04Reg("add-message-nested", func(e *c03Env) bool {
		m := e.pickMsg(nil)
		if m == nil {
			return false
		}
		name := fmt.Sprintf("AddedNested%d", e.next())
		if !nestedNameFree(m.M, oldMsgOf(e, m.Full), name) {
			return false
		}
		m.M.Nested = append(m.M.Nested, fixLabels(e.newMessage(name), m.File.Syntax))
		return true
	})
	c04Reg("add-enum-top-level", func(e *c03Env) bool {
		f := e.pickFile()
		if f == nil {
			return false
		}
		f.Enums = append(f.Enums, e.newEnum(e.freshTop(f.Package, "AddedEnum")))
		return true
	})
	c04Reg("add-enum-nested", func(e *c03Env) bool {
		m := e.pickMsg(nil)
		if m == nil {
			return false
		}
		name := fmt.Sprintf("AddedNestedEnum%d", e.next())
		if !nestedNameFree(m.M, oldMsgOf(e, m.Full), name) {
			return false
		}
		m.M.Enums = append(m.M.Enums, e.newEnum(name))
		return true
	})
	c04Reg("add-service", func(e *c03Env) bool {
		m := e.pickMsg(func(m *c03Msg) bool { return m.Parent == nil })
		if m == nil {
			return false
		}
		name := e.freshTop(m.File.Package, "AddedService")
		m.File.Services = append(m.File.Services, &gen.Service{Name: name, Comment: name + " was added.", Methods: []*gen.Method{
			{Name: "AddedCall", In: m.Full, Out: m.Full, Comment: "Added."}}})
		return true
	})
	c04Reg("add-rpc", func(e *c03Env) bool {
		var c []*gen.File
		for _, f := range e.New.S.AllFiles() {
			if len(f.Services) > 0 && len(f.Messages) > 0 {
				c = append(c, f)
			}
		}
		if len(c) == 0 {
			return false
		}
		f := c[e.R.IntN(len(c))]
		sv := f.Services[e.R.IntN(len(f.Services))]
		name := fmt.Sprintf("AddedRpc%d", e.next())
		for _, m := range sv.Methods {
			if m.Name == name {
				return false
			}
		}
		if e.Old != nil {
			if of := e.Old.S.FileByPath(f.Path); of != nil {
				for _, osv := range of.Services {
					if osv.Name == sv.Name {
						for _, m := range osv.Methods {
							if m.Name == name {
								return false
							}
						}
					}
				}
			}
		}
		in := pkgPrefix(f) + f.Messages[e.R.IntN(len(f.Messages))].Name
		out := pkgPrefix(f) + f.Messages[e.R.IntN(len(f.Messages))].Name
		sv.Methods = append(sv.Methods, &gen.Method{Name: name, In: in, Out: out, ClientStream: e.R.IntN(4) == 0, ServerStream: e.R.IntN(4) == 0, Comment: "Added."})
		return true
	})
	c04Reg("add-field", func(e *c03Env) bool {
		m := e.pickMsg(nil)
		if m == nil {
			return false
		}
		m.M.Fields = append(m.M.Fields, e.newField(m, false))
		return true
	})
	c04Reg("add-oneof-of-new-fields", func(e *c03Env) bool {
		m := e.pickMsg(nil)
		if m == nil {
			return false
		}
		name := freshFieldName(fmt.Sprintf("added_choice_%d", e.next()), m.M, oldMsgOf(e, m.Full))
		for i := 0; i < 1+e.R.IntN(2); i++ {
			fl := e.newField(m, true)
			fl.Oneof = name
			m.M.Fields = append(m.M.Fields, fl)
		}
		if m.M.OneofComments == nil {
			m.M.OneofComments = map[string]string{}
		}
		m.M.OneofComments[name] = "An added choice."
		return true
	})
	c04Reg("add-field-to-existing-oneof", func(e *c03Env) bool {
		m := e.pickMsg(func(m *c03Msg) bool { return len(oneofNames(m.M)) > 0 })
		if m == nil {
			return false
		}
		names := oneofNames(m.M)
		fl := e.newField(m, true)
		fl.Oneof = names[e.R.IntN(len(names))]
		m.M.Fields = append(m.M.Fields, fl)
		return true
	})
	c04Reg("add-enum-value", func(e *c03Env) bool {
		en := e.pickEnum()
		if en == nil {
			return false
		}
		oldE := oldEnumOf(e, en.Full)
		max := 0
		for _, v := range en.E.Values {
			if v.Number > max {
				max = v.Number
			}
		}
		num := max + 1 + e.R.IntN(3)
		for !enumNumberFree(en.E, num) || (oldE != nil && !enumNumberFree(oldE, num)) {
			num++
		}
		name := fmt.Sprintf("%s_ADDED_%d", gen.UpperSnake(en.E.Name), e.next())
		if !enumNameFree(en.E, name) || (oldE != nil && !enumNameFree(oldE, name)) {
			return false
		}
		en.E.Values = append(en.E.Values, &gen.EnumValue{Name: name, Number: num, Comment: "An added value."})
		return true
	})
	c04Reg("add-message-reserved-range", func(e *c03Env) bool {
		m := e.pickMsg(nil)
		if m == nil {
			return false
		}
		oldM := oldMsgOf(e, m.Full)
		lo := freshFieldNumber(2000+e.R.IntN(500), m.M, oldM)
		hi := lo
		for hi < lo+e.R.IntN(4) && msgNumberFree(m.M, hi+1) && (oldM == nil || msgNumberFree(oldM, hi+1)) {
			hi++
		}
		m.M.ReservedRanges = append(m.M.ReservedRanges, gen.Range{Lo: lo, Hi: hi})
		return true
	})
	c04Reg("add-message-reserved-name", func(e *c03Env) bool {
		m := e.pickMsg(nil)
		if m == nil {
			return false
		}
		m.M.ReservedNames = append(m.M.ReservedNames, freshFieldName(fmt.Sprintf("never_used_%d", e.next()), m.M, oldMsgOf(e, m.Full)))
		return true
	})
	c04Reg("add-enum-reserved-range", func(e *c03Env) bool {
		en := e.pickEnum()
		if en == nil {
			return false
		}
		oldE := oldEnumOf(e, en.Full)
		lo := 3000 + e.R.IntN(500)
		for !enumNumberFree(en.E, lo) || (oldE != nil && !enumNumberFree(oldE, lo)) {
			lo++
		}
		en.E.ReservedRanges = append(en.E.ReservedRanges, gen.Range{Lo: lo, Hi: lo})
		return true
	})
	c04Reg("add-enum-reserved-name", func(e *c03Env) bool {
		en := e.pickEnum()
		if en == nil {
			return false
		}
		name := fmt.Sprintf("%s_NEVER_USED_%d", gen.UpperSnake(en.E.Name), e.next())
		if !enumNameFree(en.E, name) {
			return false
		}
		en.E.ReservedNames = append(en.E.ReservedNames, name)
		return true
	})
	c04Reg("add-unused-import", func(e *c03Env) bool {
		f := e.pickFile()
		if f == nil {
			return false
		}
		cand := []string{"google/protobuf/empty.proto", "google/protobuf/source_context.proto"}
		for _, g := range e.New.S.AllFiles() {
			if g != f && e.New.S.ModuleOf(g) == e.New.S.ModuleOf(f) {
				cand = append(cand, g.Path)
			}
		}
		p := cand[e.R.IntN(len(cand))]
		for _, im := range e.New.S.ImportsOf(f) {
			if im.Path == p {
				return false
			}
		}
		f.ExtraImports = append(f.ExtraImports, gen.Import{Path: p})
		if !importGraphAcyclic(e.New.S) {
			f.ExtraImports = f.ExtraImports[:len(f.ExtraImports)-1]
			return false
		}
		return true
	})
	c04Reg("edit-comments", func(e *c03Env) bool {
		n := 0
		for _, f := range e.New.S.AllFiles() {
			if e.R.IntN(3) == 0 {
				f.Header = []string{"", "A new header.", "Rewritten header.\n\nWith a second paragraph."}[e.R.IntN(3)]
				n++
			}
		}
		for _, m := range e.New.Msgs {
			switch e.R.IntN(6) {
			case 0:
				m.M.Comment = ""
				n++
			case 1:
				m.M.Comment = "Rewritten comment of " + m.M.Name + ".\nbuf:lint:ignore NOTHING"
				n++
			}
			for _, fl := range m.M.Fields {
				switch e.R.IntN(8) {
				case 0:
					fl.Comment, fl.Trailing = "", ""
					n++
				case 1:
					fl.Comment, fl.Trailing = "Edited.", "edited trailing"
					if fl.Kind == "group" {
						fl.Trailing = ""
					}
					n++
				}
			}
		}
		for _, en := range e.New.Enums {
			if e.R.IntN(4) == 0 {
				en.E.Comment = "Edited enum comment."
				for _, v := range en.E.Values {
					v.Comment = ""
				}
				n++
			}
		}
		return n > 0
	})
}

// ---- text-level cosmetic re-rendering (C04 only: it invalidates the recorded spans) ------------------

var trailingCommentRe = regexp.MustCompile(` // [^"]*$`)

// c04Cosmetic rewrites canonical texts without changing a token: mode 0 tabs for indentation, 1 blank
// line after every line, 2 all // comments removed, 3 four-space indentation plus trailing spaces,
// 4 comments turned into block comments.
func c04Cosmetic(files map[string]map[string]string, mode int) map[string]map[string]string {
	out := map[string]map[string]string{}
	for dir, fs := range files {
		out[dir] = map[string]string{}
		for p, text := range fs {
			var lines []string
			for _, l := range strings.Split(strings.TrimRight(text, "\n"), "\n") {
				trimmed := strings.TrimLeft(l, " ")
				ind := len(l) - len(trimmed)
				switch mode {
				case 0:
					lines = append(lines, strings.Repeat("\t", ind/2)+trimmed)
				case 1:
					lines = append(lines, l, "")
				case 2:
					if strings.HasPrefix(trimmed, "//") {
						continue
					}
					lines = append(lines, trailingCommentRe.ReplaceAllString(l, ""))
				case 3:
					lines = append(lines, strings.Repeat(" ", ind*2)+trimmed+"  ")
				default:
					if strings.HasPrefix(trimmed, "//") {
						body := strings.ReplaceAll(strings.TrimPrefix(trimmed, "//"), "*/", "* /")
						lines = append(lines, strings.Repeat(" ", ind)+"/*"+body+" */")
					} else {
						lines = append(lines, l)
					}
				}
			}
			out[dir][p] = strings.Join(lines, "\n") + "\n"
		}
	}
	return out
}
