package checks

import (
	"fmt"
	"math/rand/v2"
	"strings"

	"github.com/bufbuild/verifharness/gen"
)

// ---- constructs the shared generator does not produce: message-literal / array option values --------

const c07OptsPath = "c07/opts.proto"

const c07OptsProto = `syntax = "proto2";

package c07.opts;

import "google/protobuf/any.proto";
import "google/protobuf/descriptor.proto";

enum Kind {
  KIND_A = 0;
  KIND_B = 1;
  KIND_C = 2;
}

message Inner {
  optional string s = 1;
  repeated int32 n = 2;
  optional double d = 3;
  optional Inner child = 4;
  repeated Inner kids = 5;
  optional bytes b = 6;
  optional bool flag = 7;
  optional Kind kind = 8;
  map<string, int32> m = 9;
  optional google.protobuf.Any any = 10;
  optional sint64 z = 11;
  repeated string names = 12;
  extensions 100 to 200;
}

extend Inner {
  optional string inner_ext = 100;
}

extend google.protobuf.FileOptions {
  optional Inner file_msg = 51001;
  repeated int32 file_rep = 51002;
  repeated Inner file_msgs = 51003;
  optional string file_str = 51004;
}

extend google.protobuf.MessageOptions {
  optional Inner msg_msg = 51001;
  repeated string msg_rep = 51002;
}

extend google.protobuf.FieldOptions {
  optional Inner fld_msg = 51001;
  repeated int32 fld_rep = 51002;
  optional double fld_d = 51003;
  optional sint64 fld_i = 51004;
}

extend google.protobuf.EnumOptions {
  optional Inner enum_msg = 51001;
}

extend google.protobuf.EnumValueOptions {
  optional Inner val_msg = 51001;
  optional string val_str = 51002;
}

extend google.protobuf.ServiceOptions {
  optional Inner svc_msg = 51001;
}

extend google.protobuf.MethodOptions {
  optional Inner rpc_msg = 51001;
  repeated string rpc_rep = 51002;
}
`

func c07Sep(r *rand.Rand) string {
	return []string{" ", " ", ", ", "; ", ",", ";", "\n  "}[r.IntN(7)]
}

func c07StrLit(r *rand.Rand) string {
	return []string{`"x"`, `'single'`, `"a\"b"`, `"tab\there"`, `"\x41\102"`, `"two" "parts"`, `""`, `"unié"`, `"slash/and*star"`, `"// not a comment"`, `"/* nor this */"`}[r.IntN(11)]
}

func c07NumLit(r *rand.Rand) string {
	return []string{"0", "1", "-1", "42", "0x1F", "017", "-0x2a", "2147483647", "- 7"}[r.IntN(9)]
}

func c07FloatLit(r *rand.Rand) string {
	return []string{"1.5", "-2", "1e3", "inf", "-inf", "nan", ".5", "1.", "1.5e-3", "0x10", "-  2.5"}[r.IntN(11)]
}

// c07MsgLit renders a random message literal for c07.opts.Inner.
func c07MsgLit(r *rand.Rand, depth int) string {
	open, closeB := "{", "}"
	if depth > 0 && r.IntN(4) == 0 { // the literal that is an option value must use braces
		open, closeB = "<", ">"
	}
	var parts []string
	colon := func() string {
		if r.IntN(2) == 0 {
			return ": "
		}
		return " "
	}
	order := r.Perm(12)
	n := r.IntN(5)
	if depth == 0 {
		n = 1 + r.IntN(5)
	}
	for _, k := range order[:n] {
		switch k {
		case 0:
			parts = append(parts, "s: "+c07StrLit(r))
		case 1:
			if r.IntN(2) == 0 {
				parts = append(parts, fmt.Sprintf("n: [%s, %s]", c07NumLit(r), c07NumLit(r)))
			} else {
				parts = append(parts, "n: "+c07NumLit(r), "n: "+c07NumLit(r))
			}
		case 2:
			parts = append(parts, "d: "+c07FloatLit(r))
		case 3:
			if depth < 2 {
				parts = append(parts, "child"+colon()+c07MsgLit(r, depth+1))
			}
		case 4:
			if depth < 2 {
				switch r.IntN(3) {
				case 0:
					parts = append(parts, fmt.Sprintf("kids: [%s, %s]", c07MsgLit(r, depth+1), c07MsgLit(r, depth+1)))
				case 1:
					parts = append(parts, "kids"+colon()+c07MsgLit(r, depth+1), "kids"+colon()+c07MsgLit(r, depth+1))
				default:
					parts = append(parts, "kids: []")
				}
			}
		case 5:
			parts = append(parts, `b: "\x01\377raw"`)
		case 6:
			parts = append(parts, "flag: "+[]string{"true", "false"}[r.IntN(2)])
		case 7:
			parts = append(parts, "kind: "+[]string{"KIND_A", "KIND_B", "KIND_C"}[r.IntN(3)])
		case 8:
			if r.IntN(2) == 0 {
				parts = append(parts, `m { key: "k1" value: 1 }`, `m: { key: "k2", value: 2 }`)
			} else {
				parts = append(parts, `m: [{ key: "k1" value: 1 }, { key: "k2" value: 2 }]`)
			}
		case 9:
			parts = append(parts, "[c07.opts.inner_ext]: "+c07StrLit(r))
		case 10:
			if depth < 2 {
				parts = append(parts, `any { [type.googleapis.com/c07.opts.Inner] { s: "in-any" } }`)
			}
		case 11:
			parts = append(parts, fmt.Sprintf("names: [%s]", c07StrLit(r)))
		}
	}
	var sb strings.Builder
	sb.WriteString(open)
	multiline := r.IntN(3) == 0
	for i, p := range parts {
		if multiline {
			sb.WriteString("\n  ")
		} else if i > 0 || r.IntN(2) == 0 {
			sb.WriteString(" ")
		}
		sb.WriteString(p)
		if i < len(parts)-1 || r.IntN(3) == 0 {
			sb.WriteString(strings.TrimRight(c07Sep(r), " \n"))
		}
	}
	if multiline {
		sb.WriteString("\n")
	} else if r.IntN(2) == 0 {
		sb.WriteString(" ")
	}
	sb.WriteString(closeB)
	return sb.String()
}

// c07TopLit: a message literal used directly as an option value (braces only).
func c07TopLit(r *rand.Rand, depth int) string {
	for {
		if s := c07MsgLit(r, depth); strings.HasPrefix(s, "{") {
			return s
		}
	}
}

// c07Enrich adds message-literal / array / repeated custom options, and many file options, to a
// generated schema and returns the feature labels it exercised.
func c07Enrich(r *rand.Rand, s *gen.Schema) {
	for _, f := range s.AllFiles() {
		used := false
		use := func() { used = true }
		if r.IntN(3) == 0 {
			use()
			switch r.IntN(3) {
			case 0:
				f.Options = append(f.Options, gen.Opt{Name: "(c07.opts.file_msg)", Value: c07MsgLit(r, 0)})
			case 1:
				f.Options = append(f.Options,
					gen.Opt{Name: "(c07.opts.file_msg).s", Value: c07StrLit(r)},
					gen.Opt{Name: "(c07.opts.file_msg).child.d", Value: c07FloatLit(r)},
					gen.Opt{Name: "(c07.opts.file_msg).(c07.opts.inner_ext)", Value: c07StrLit(r)})
			default:
				f.Options = append(f.Options,
					gen.Opt{Name: "(c07.opts.file_msgs)", Value: c07TopLit(r, 1)},
					gen.Opt{Name: "(c07.opts.file_msgs)", Value: c07TopLit(r, 1)})
			}
		}
		if r.IntN(4) == 0 {
			use()
			n := 2 + r.IntN(4)
			if r.IntN(3) == 0 {
				n = 13 + r.IntN(12)
			}
			for i := 0; i < n; i++ {
				f.Options = append(f.Options, gen.Opt{Name: "(c07.opts.file_rep)", Value: fmt.Sprint(i + 1)})
			}
		}
		if r.IntN(4) == 0 {
			f.Options = append(f.Options, gen.Opt{Name: "optimize_for", Value: []string{"SPEED", "CODE_SIZE", "LITE_RUNTIME"}[r.IntN(3)]})
		}
		if r.IntN(6) == 0 {
			use()
			f.Options = append(f.Options, gen.Opt{Name: "(c07.opts.file_str)", Value: `"first line\n"` + "\n  " + `"second line\n"` + "\n  " + `'third'`})
		}
		var walk func(m *gen.Message)
		walk = func(m *gen.Message) {
			if r.IntN(5) == 0 {
				use()
				m.Options = append(m.Options, gen.Opt{Name: "(c07.opts.msg_msg)", Value: c07MsgLit(r, 0)})
			}
			if r.IntN(8) == 0 {
				use()
				m.Options = append(m.Options, gen.Opt{Name: "(c07.opts.msg_rep)", Value: c07StrLit(r)}, gen.Opt{Name: "(c07.opts.msg_rep)", Value: c07StrLit(r)})
			}
			for _, fl := range m.Fields {
				if fl.Kind == "group" {
					if fl.Group != nil {
						walk(fl.Group)
					}
					continue
				}
				switch r.IntN(14) {
				case 0:
					use()
					fl.Options = append(fl.Options, gen.Opt{Name: "(c07.opts.fld_msg)", Value: c07MsgLit(r, 0)})
				case 1:
					use()
					fl.Options = append(fl.Options, gen.Opt{Name: "(c07.opts.fld_rep)", Value: c07NumLit(r)}, gen.Opt{Name: "(c07.opts.fld_rep)", Value: c07NumLit(r)})
				case 2:
					use()
					fl.Options = append(fl.Options, gen.Opt{Name: "(c07.opts.fld_d)", Value: c07FloatLit(r)})
				case 3:
					use()
					fl.Options = append(fl.Options, gen.Opt{Name: "(c07.opts.fld_i)", Value: c07NumLit(r)}, gen.Opt{Name: "(c07.opts.fld_msg).child.kids", Value: c07TopLit(r, 2)})
				}
			}
			for _, n := range m.Nested {
				walk(n)
			}
			for _, e := range m.Enums {
				c07EnrichEnum(r, e, use)
			}
		}
		for _, m := range f.Messages {
			walk(m)
		}
		for _, e := range f.Enums {
			c07EnrichEnum(r, e, use)
		}
		for _, sv := range f.Services {
			if r.IntN(4) == 0 {
				use()
				sv.Options = append(sv.Options, gen.Opt{Name: "(c07.opts.svc_msg)", Value: c07MsgLit(r, 0)})
			}
			for _, m := range sv.Methods {
				switch r.IntN(5) {
				case 0:
					use()
					m.Options = append(m.Options, gen.Opt{Name: "(c07.opts.rpc_msg)", Value: c07MsgLit(r, 0)})
				case 1:
					use()
					m.Options = append(m.Options, gen.Opt{Name: "(c07.opts.rpc_rep)", Value: c07StrLit(r)}, gen.Opt{Name: "(c07.opts.rpc_rep)", Value: c07StrLit(r)})
				}
			}
		}
		if used {
			f.ExtraImports = append(f.ExtraImports, gen.Import{Path: c07OptsPath})
		}
		if r.IntN(5) == 0 {
			f.ExtraImports = append(f.ExtraImports, gen.Import{Path: "google/protobuf/empty.proto"})
		}
		if r.IntN(8) == 0 {
			f.ExtraImports = append(f.ExtraImports, gen.Import{Path: "google/protobuf/source_context.proto", Weak: r.IntN(2) == 0, Public: false})
		}
	}
}

func c07EnrichEnum(r *rand.Rand, e *gen.Enum, use func()) {
	if r.IntN(6) == 0 {
		use()
		e.Options = append(e.Options, gen.Opt{Name: "(c07.opts.enum_msg)", Value: c07MsgLit(r, 0)})
	}
	for _, v := range e.Values {
		switch r.IntN(10) {
		case 0:
			use()
			v.Options = append(v.Options, gen.Opt{Name: "(c07.opts.val_msg)", Value: c07TopLit(r, 1)})
		case 1:
			use()
			v.Options = append(v.Options, gen.Opt{Name: "(c07.opts.val_str)", Value: c07StrLit(r)}, gen.Opt{Name: "deprecated", Value: "true"})
		}
	}
}

// c07ShuffleHeader permutes / duplicates / relocates the single-line import and option statements of a
// canonical rendering; returns the new text and the features applied.
func c07ShuffleHeader(r *rand.Rand, text string) (string, []string) {
	lines := strings.Split(text, "\n")
	var imp, opt []int
	for i, l := range lines {
		if strings.HasPrefix(l, "import ") && strings.HasSuffix(l, ";") {
			imp = append(imp, i)
		}
		if strings.HasPrefix(l, "option ") && strings.HasSuffix(l, ";") {
			opt = append(opt, i)
		}
	}
	var feats []string
	perm := func(idx []int, label string) {
		if len(idx) < 2 || c07FeatureDisabled(label) {
			return
		}
		vals := make([]string, len(idx))
		for k, i := range idx {
			vals[k] = lines[i]
		}
		r.Shuffle(len(vals), func(a, b int) { vals[a], vals[b] = vals[b], vals[a] })
		for k, i := range idx {
			lines[i] = vals[k]
		}
		feats = append(feats, label)
	}
	if r.IntN(2) == 0 {
		perm(imp, "imports-shuffled")
	}
	if r.IntN(2) == 0 {
		perm(opt, "options-shuffled")
	}
	if len(imp) > 0 && r.IntN(4) == 0 && !c07FeatureDisabled("header-import-relocated") {
		i := imp[r.IntN(len(imp))]
		l := lines[i]
		lines = append(append(append([]string{}, lines[:i]...), lines[i+1:]...), l, "")
		feats = append(feats, "header-import-relocated")
	} else if len(opt) > 0 && r.IntN(4) == 0 && !c07FeatureDisabled("header-option-relocated") {
		i := opt[r.IntN(len(opt))]
		l := lines[i]
		lines = append(append(append([]string{}, lines[:i]...), lines[i+1:]...), l, "")
		feats = append(feats, "header-option-relocated")
	} else if len(imp) > 0 && r.IntN(4) == 0 && !c07FeatureDisabled("import-duplicated") {
		i := imp[r.IntN(len(imp))]
		j := imp[r.IntN(len(imp))]
		dup := lines[i]
		if r.IntN(2) == 0 {
			dup += " // duplicate import"
		}
		lines = append(append(append([]string{}, lines[:j]...), dup), lines[j:]...)
		feats = append(feats, "import-duplicated")
	}
	return strings.Join(lines, "\n"), feats
}
