package checks

import (
	"bytes"
	"encoding/json"
	"encoding/xml"
	"fmt"
	"io"
	"regexp"
	"strconv"
	"strings"
)

// Format decoders of C20: every --error-format is decoded by the grammar its consumer applies
// (not by inverting buf's printer) into tuples; a field a format does not carry is a wild-card.
//
//	text            path:line:col:message                                  (gcc style, one per line)
//	msvs            path(line[,col]) : error TYPE : message                (one per line)
//	json            one JSON object per line (encoding/json, unknown fields rejected)
//	junit           <testsuites><testsuite name tests failures errors><testcase name><failure message type/>
//	github-actions  ::error k=v,k=v::data per line, decoded as the GitHub Actions runner does
//	                (ActionCommand.TryParseV2: the command ends at the first "::" after the leading
//	                one, properties are split on ',' and '=', values are unescaped %25 %0D %0A %3A %2C,
//	                data is unescaped %25 %0D %0A)

const c20NoPath = "<input>" // the placeholder the line formats print for an annotation without a file

type c20Tuple struct {
	Path    string
	HasPath bool
	// SuitePath is set by the JUnit decoder only: the testsuite name (path without ".proto").
	SuitePath    string
	HasSuitePath bool
	Line, Col    int // -1: not carried
	EndLine      int
	EndCol       int
	Type         string
	HasType      bool
	Message      string
	Plugin       string
}

func (t c20Tuple) String() string {
	return fmt.Sprintf("{path=%q line=%d col=%d end=%d:%d type=%q msg=%q}", t.Path, t.Line, t.Col, t.EndLine, t.EndCol, t.Type, t.Message)
}

var c20Formats = []string{"text", "json", "msvs", "junit", "github-actions"}

func c20SplitLines(out []byte) []string {
	s := string(out)
	if s == "" {
		return nil
	}
	s = strings.TrimSuffix(s, "\n")
	return strings.Split(s, "\n")
}

type c20JSONAnn struct {
	Path        *string `json:"path"`
	StartLine   *int    `json:"start_line"`
	StartColumn *int    `json:"start_column"`
	EndLine     *int    `json:"end_line"`
	EndColumn   *int    `json:"end_column"`
	Type        *string `json:"type"`
	Message     *string `json:"message"`
	Plugin      *string `json:"plugin"`
}

func c20DecodeJSON(out []byte) ([]c20Tuple, error) {
	var tuples []c20Tuple
	for i, line := range c20SplitLines(out) {
		dec := json.NewDecoder(strings.NewReader(line))
		dec.DisallowUnknownFields()
		var a c20JSONAnn
		if err := dec.Decode(&a); err != nil {
			return nil, fmt.Errorf("line %d %q: %v", i+1, line, err)
		}
		if _, err := dec.Token(); err != io.EOF {
			return nil, fmt.Errorf("line %d %q: trailing data after the JSON object", i+1, line)
		}
		if !json.Valid([]byte(line)) {
			return nil, fmt.Errorf("line %d %q: not valid JSON", i+1, line)
		}
		t := c20Tuple{Line: -1, Col: -1, EndLine: -1, EndCol: -1}
		if a.Path != nil {
			t.Path, t.HasPath = *a.Path, true
		}
		if a.StartLine != nil {
			t.Line = *a.StartLine
		}
		if a.StartColumn != nil {
			t.Col = *a.StartColumn
		}
		if a.EndLine != nil {
			t.EndLine = *a.EndLine
		}
		if a.EndColumn != nil {
			t.EndCol = *a.EndColumn
		}
		if a.Type != nil {
			t.Type, t.HasType = *a.Type, true
		}
		if a.Message != nil {
			t.Message = *a.Message
		}
		if a.Plugin != nil {
			t.Plugin = *a.Plugin
		}
		tuples = append(tuples, t)
	}
	return tuples, nil
}

var (
	c20TextRe = regexp.MustCompile(`(?s)^(.*?):(\d+):(\d+):(.*)$`)
	c20MSVSRe = regexp.MustCompile(`^(.*?)\((\d+)(?:,(\d+))?\) : error ([^ ]+) : (.*)$`)
)

func c20Atoi(s string) int {
	if s == "" {
		return -1
	}
	n, err := strconv.Atoi(s)
	if err != nil {
		return -1
	}
	return n
}

func c20DecodeText(out []byte) ([]c20Tuple, error) {
	var tuples []c20Tuple
	for i, line := range c20SplitLines(out) {
		m := c20TextRe.FindStringSubmatch(line)
		if m == nil {
			return nil, fmt.Errorf("line %d %q is not path:line:col:message", i+1, line)
		}
		tuples = append(tuples, c20Tuple{Path: m[1], HasPath: true, Line: c20Atoi(m[2]), Col: c20Atoi(m[3]), EndLine: -1, EndCol: -1, Message: m[4]})
	}
	return tuples, nil
}

func c20DecodeMSVS(out []byte) ([]c20Tuple, error) {
	var tuples []c20Tuple
	for i, line := range c20SplitLines(out) {
		m := c20MSVSRe.FindStringSubmatch(line)
		if m == nil {
			return nil, fmt.Errorf("line %d %q is not path(line,col) : error TYPE : message", i+1, line)
		}
		tuples = append(tuples, c20Tuple{Path: m[1], HasPath: true, Line: c20Atoi(m[2]), Col: c20Atoi(m[3]), EndLine: -1, EndCol: -1, Type: m[4], HasType: true, Message: m[5]})
	}
	return tuples, nil
}

// ---- GitHub Actions workflow commands --------------------------------------------------------

var (
	c20GHAUnescapeData     = strings.NewReplacer("%0D", "\r", "%0A", "\n", "%25", "%")
	c20GHAUnescapeProperty = strings.NewReplacer("%0D", "\r", "%0A", "\n", "%3A", ":", "%2C", ",", "%25", "%")
)

type c20GHACommand struct {
	Name  string
	Props map[string]string
	Data  string
}

// c20ParseGHALine is the runner's parser of one output line.
func c20ParseGHALine(line string) (*c20GHACommand, bool) {
	line = strings.TrimLeft(line, " \t")
	if !strings.HasPrefix(line, "::") {
		return nil, false
	}
	end := strings.Index(line[2:], "::")
	if end < 0 {
		return nil, false
	}
	end += 2
	info := line[2:end]
	cmd := &c20GHACommand{Props: map[string]string{}}
	if sp := strings.Index(info, " "); sp < 0 {
		cmd.Name = info
	} else {
		cmd.Name = info[:sp]
		for _, prop := range strings.Split(strings.TrimSpace(info[sp+1:]), ",") {
			if prop == "" {
				continue
			}
			k, v, ok := strings.Cut(prop, "=")
			if !ok || k == "" || v == "" {
				continue // the runner ignores pairs that do not split into two non-empty parts
			}
			cmd.Props[k] = c20GHAUnescapeProperty.Replace(v)
		}
	}
	cmd.Data = c20GHAUnescapeData.Replace(line[end+2:])
	return cmd, true
}

func c20DecodeGHA(out []byte) ([]c20Tuple, error) {
	var tuples []c20Tuple
	for i, line := range c20SplitLines(out) {
		cmd, ok := c20ParseGHALine(line)
		if !ok {
			return nil, fmt.Errorf("line %d %q is not a workflow command (the runner would treat it as plain log output)", i+1, line)
		}
		if cmd.Name != "error" {
			return nil, fmt.Errorf("line %d %q: command %q, want error", i+1, line, cmd.Name)
		}
		t := c20Tuple{Line: -1, Col: -1, EndLine: -1, EndCol: -1, Message: cmd.Data}
		for k, v := range cmd.Props {
			switch k {
			case "file":
				t.Path, t.HasPath = v, true
			case "line":
				t.Line = c20Atoi(v)
			case "col":
				t.Col = c20Atoi(v)
			case "endLine":
				t.EndLine = c20Atoi(v)
			case "endColumn":
				t.EndCol = c20Atoi(v)
			case "title":
			default:
				return nil, fmt.Errorf("line %d %q: property %q is not a parameter of the error command", i+1, line, k)
			}
		}
		if !t.HasPath {
			return nil, fmt.Errorf("line %d %q: no file property", i+1, line)
		}
		tuples = append(tuples, t)
	}
	return tuples, nil
}

// ---- JUnit -------------------------------------------------------------------------------------

type c20JUnitDoc struct {
	XMLName xml.Name        `xml:"testsuites"`
	Suites  []c20JUnitSuite `xml:"testsuite"`
}

type c20JUnitSuite struct {
	Name     string         `xml:"name,attr"`
	Tests    string         `xml:"tests,attr"`
	Failures string         `xml:"failures,attr"`
	Errors   string         `xml:"errors,attr"`
	Cases    []c20JUnitCase `xml:"testcase"`
}

type c20JUnitCase struct {
	Name     string `xml:"name,attr"`
	Failures []struct {
		Message string `xml:"message,attr"`
		Type    string `xml:"type,attr"`
	} `xml:"failure"`
}

func c20DecodeJUnit(out []byte) ([]c20Tuple, error) {
	if len(bytes.TrimSpace(out)) == 0 {
		return nil, nil
	}
	// (1) well-formed: the strict tokenizer reads one root element to EOF
	dec := xml.NewDecoder(bytes.NewReader(out))
	dec.Strict = true
	depth, roots := 0, 0
	for {
		tok, err := dec.Token()
		if err == io.EOF {
			break
		}
		if err != nil {
			return nil, fmt.Errorf("not well-formed XML: %v", err)
		}
		switch tk := tok.(type) {
		case xml.StartElement:
			if depth == 0 {
				roots++
			}
			depth++
		case xml.EndElement:
			depth--
		case xml.CharData:
			if depth == 0 && len(bytes.TrimSpace(tk)) > 0 {
				return nil, fmt.Errorf("text outside the root element: %q", string(tk))
			}
		}
	}
	if roots != 1 || depth != 0 {
		return nil, fmt.Errorf("%d root elements (want 1)", roots)
	}
	// (2) the JUnit shape
	var doc c20JUnitDoc
	if err := xml.Unmarshal(out, &doc); err != nil {
		return nil, fmt.Errorf("not a <testsuites> document: %v", err)
	}
	var tuples []c20Tuple
	for _, s := range doc.Suites {
		if n, err := strconv.Atoi(s.Tests); err != nil || n != len(s.Cases) {
			return nil, fmt.Errorf("testsuite %q: tests=%q but %d testcase elements", s.Name, s.Tests, len(s.Cases))
		}
		if n, err := strconv.Atoi(s.Failures); err != nil || n != len(s.Cases) {
			return nil, fmt.Errorf("testsuite %q: failures=%q but %d failing testcase elements", s.Name, s.Failures, len(s.Cases))
		}
		if s.Errors != "0" {
			return nil, fmt.Errorf("testsuite %q: errors=%q, want 0", s.Name, s.Errors)
		}
		for _, tc := range s.Cases {
			if len(tc.Failures) != 1 {
				return nil, fmt.Errorf("testcase %q of %q has %d failure elements", tc.Name, s.Name, len(tc.Failures))
			}
			f := tc.Failures[0]
			t := c20Tuple{SuitePath: s.Name, HasSuitePath: true, Line: -1, Col: -1, EndLine: -1, EndCol: -1, Type: f.Type, HasType: true}
			// testcase name = TYPE[_line[_col]]
			if !strings.HasPrefix(tc.Name, f.Type) {
				return nil, fmt.Errorf("testcase name %q does not start with the failure type %q", tc.Name, f.Type)
			}
			if rest := strings.TrimPrefix(tc.Name, f.Type); rest != "" {
				parts := strings.Split(strings.TrimPrefix(rest, "_"), "_")
				if !strings.HasPrefix(rest, "_") || len(parts) > 2 {
					return nil, fmt.Errorf("testcase name %q is not TYPE[_line[_col]]", tc.Name)
				}
				// "_l_c" when the column is known, "_l" when only the line is
				nameLine, nameCol := c20Atoi(parts[0]), -1
				if len(parts) == 2 {
					nameCol = c20Atoi(parts[1])
				}
				if nameLine < 0 || (len(parts) == 2 && nameCol < 0) {
					return nil, fmt.Errorf("testcase name %q is not TYPE[_line[_col]]", tc.Name)
				}
				t.Line, t.Col = nameLine, nameCol
			}
			// failure message = the text rendering path:line:col:message
			m := c20TextRe.FindStringSubmatch(f.Message)
			if m == nil {
				return nil, fmt.Errorf("failure message %q is not path:line:col:message", f.Message)
			}
			t.Path, t.HasPath = m[1], true
			ml, mc := c20Atoi(m[2]), c20Atoi(m[3])
			if t.Line >= 0 && ml != t.Line || t.Col >= 0 && mc != t.Col {
				return nil, fmt.Errorf("testcase %q and its failure message %q disagree on the position", tc.Name, f.Message)
			}
			if t.Line < 0 {
				t.Line = ml
			}
			if t.Col < 0 {
				t.Col = mc
			}
			t.Message = m[4]
			tuples = append(tuples, t)
		}
	}
	return tuples, nil
}

func c20Decode(format string, out []byte) ([]c20Tuple, error) {
	switch format {
	case "text":
		return c20DecodeText(out)
	case "json":
		return c20DecodeJSON(out)
	case "msvs":
		return c20DecodeMSVS(out)
	case "junit":
		return c20DecodeJUnit(out)
	case "github-actions":
		return c20DecodeGHA(out)
	}
	return nil, fmt.Errorf("unknown format %q", format)
}

// c20LineTerminated: a text that a one-annotation-per-line format cannot carry.
func c20HasLineTerminator(s string) bool { return strings.ContainsAny(s, "\n\r") }

// c20Compare checks one decoded tuple of a format against the JSON reference tuple; "" if they agree.
func c20Compare(format string, ref, got c20Tuple) string {
	refPath := ref.Path
	if !ref.HasPath || refPath == "" {
		refPath = c20NoPath // JSON omits the path of an annotation without a file
	}
	if got.HasPath && got.Path != refPath {
		return fmt.Sprintf("file: json %q vs %s %q", refPath, format, got.Path)
	}
	if got.HasSuitePath && got.SuitePath != strings.TrimSuffix(refPath, ".proto") {
		return fmt.Sprintf("file: json %q vs %s testsuite name %q", refPath, format, got.SuitePath)
	}
	type pos struct {
		name     string
		ref, got int
	}
	for _, p := range []pos{{"line", ref.Line, got.Line}, {"column", ref.Col, got.Col}, {"end line", ref.EndLine, got.EndLine}, {"end column", ref.EndCol, got.EndCol}} {
		if p.got >= 0 && p.ref >= 0 && p.got != p.ref {
			return fmt.Sprintf("%s: json %d vs %s %d", p.name, p.ref, format, p.got)
		}
	}
	if got.HasType && ref.HasType && got.Type != ref.Type {
		return fmt.Sprintf("rule ID: json %q vs %s %q", ref.Type, format, got.Type)
	}
	wantMsg := ref.Message
	if ref.Plugin != "" {
		wantMsg += " (" + ref.Plugin + ")" // the formats without a plugin field append it to the message
	}
	if got.Message != wantMsg {
		return fmt.Sprintf("message: json %q vs %s %q", wantMsg, format, got.Message)
	}
	return ""
}
