package checks

import (
	"bytes"
	"context"
	"encoding/json"
	"fmt"
	"os"
	"os/exec"
	"path/filepath"
	"sort"
	"strconv"
	"strings"
	"sync"
	"sync/atomic"
	"syscall"

	"github.com/bufbuild/buf/private/pkg/storage"
	"github.com/bufbuild/buf/private/pkg/storage/storagemem"
	"github.com/bufbuild/buf/private/pkg/storage/storageos"
	"github.com/bufbuild/buf/private/pkg/verifhook"
	"github.com/bufbuild/verifharness/core"
	"github.com/bufbuild/verifharness/run"
)

// ---- atomic put under SIGKILL ------------------------------------------------------------

func c15Content(v, size int) []byte {
	var b bytes.Buffer
	fmt.Fprintf(&b, "V%06d:%08d\n", v, size)
	b.Write(bytes.Repeat([]byte{byte('a' + v%26)}, size))
	b.WriteString("END\n")
	return b.Bytes()
}

// c15Validate returns the version of a complete object, or an error text.
func c15Validate(data []byte) (int, string) {
	if len(data) < 17 || data[0] != 'V' || data[7] != ':' || data[16] != '\n' {
		return 0, fmt.Sprintf("malformed header in %d bytes: %q", len(data), clip(data))
	}
	v, err1 := strconv.Atoi(string(data[1:7]))
	size, err2 := strconv.Atoi(string(data[8:16]))
	if err1 != nil || err2 != nil {
		return 0, "malformed header numbers"
	}
	if len(data) != 17+size+4 {
		return v, fmt.Sprintf("version %d truncated: %d of %d bytes", v, len(data), 17+size+4)
	}
	body := data[17 : 17+size]
	for _, ch := range body {
		if ch != byte('a'+v%26) {
			return v, fmt.Sprintf("version %d has foreign bytes", v)
		}
	}
	if string(data[17+size:]) != "END\n" {
		return v, fmt.Sprintf("version %d has no trailer", v)
	}
	return v, ""
}

func init() {
	core.RegisterHelper("c15put", func(args []string) int {
		// c15put <dir> <path> <rounds> <size> <chunk> <atomic 0|1> [<view prefix>]
		// with a view prefix the put goes through a prefix-mapped view of the disk bucket (the way the module
		// store reaches its files); <path> is then relative to the view
		dir, path := args[0], args[1]
		rounds, _ := strconv.Atoi(args[2])
		size, _ := strconv.Atoi(args[3])
		chunk, _ := strconv.Atoi(args[4])
		atomicPut := args[5] == "1"
		var b storage.ReadWriteBucket
		b, err := storageos.NewProvider().NewReadWriteBucket(dir)
		if err != nil {
			fmt.Fprintln(os.Stderr, err)
			return 3
		}
		if len(args) > 6 && args[6] != "" {
			for _, prefix := range strings.Split(args[6], ",") {
				b = storage.MapReadWriteBucket(b, storage.MapOnPrefix(prefix))
			}
		}
		ctx := context.Background()
		for v := 1; v <= rounds; v++ {
			content := c15Content(v, size)
			var opts []storage.PutOption
			if atomicPut {
				opts = append(opts, storage.PutWithAtomic())
			}
			w, err := b.Put(ctx, path, opts...)
			if err != nil {
				fmt.Fprintln(os.Stderr, err)
				return 3
			}
			for off := 0; off < len(content); off += chunk {
				end := min(off+chunk, len(content))
				if _, err := w.Write(content[off:end]); err != nil {
					fmt.Fprintln(os.Stderr, err)
					return 3
				}
			}
			if err := w.Close(); err != nil {
				fmt.Fprintln(os.Stderr, err)
				return 3
			}
		}
		data, _ := json.Marshal(verifhook.Hits())
		fmt.Println(string(data))
		return 0
	})
}

func c15KillCases(tier string) int {
	if tier == "thorough" {
		return 24
	}
	return 6
}

func c15Kill(c *core.C, idx int) {
	sizes := []int{0, 10, 5000, 70000, 300000, 1000}
	chunks := []int{1 << 20, 4, 1000, 16384, 65536, 100}
	size, chunk := sizes[idx%len(sizes)], chunks[idx%len(chunks)]
	rounds := 3
	if idx >= 6 {
		size = c.Rand.IntN(200000)
		chunk = 1 + c.Rand.IntN(70000)
		rounds = 2 + c.Rand.IntN(3)
	}
	dir := filepath.Join(c.Tmp, "c15kill")
	os.RemoveAll(dir)
	os.MkdirAll(filepath.Join(dir, "sub"), 0o755)
	defer os.RemoveAll(dir)
	path := "sub/obj.bin"
	full := filepath.Join(dir, path)
	// every other case writes through a prefix-mapped view (idx 1, 3, 5 …): atomicity must survive the combinators
	childPath, view := path, ""
	if idx%2 == 1 {
		childPath, view = "obj.bin", "sub"
		c.Count("kill_cases_through_mapped_view", 1)
	}
	args := []string{"helper", "c15put", dir, childPath, strconv.Itoa(rounds), strconv.Itoa(size), strconv.Itoa(chunk), "1", view}
	reset := func() {
		os.RemoveAll(filepath.Join(dir, "sub"))
		os.MkdirAll(filepath.Join(dir, "sub"), 0o755)
		os.WriteFile(full, c15Content(0, size), 0o644)
	}
	// dry run
	reset()
	cmd := exec.Command(core.SelfExe(), args...)
	out, err := cmd.Output()
	if err != nil {
		c.Violation("fault-free-run-failed", fmt.Sprintf("kill idx=%d", idx), fmt.Sprintf("atomic put child failed without kill: %v", err), nil)
		return
	}
	hits := map[string]int{}
	json.Unmarshal(bytes.TrimSpace(out), &hits)
	if data, _ := os.ReadFile(full); true {
		if v, bad := c15Validate(data); bad != "" || v != rounds {
			c.Violation("fault-free-run-failed", fmt.Sprintf("kill idx=%d", idx), fmt.Sprintf("final content after %d rounds: version %d %s", rounds, v, bad), nil)
			return
		}
	}
	writesPerPut := hits["os.write"] / rounds
	reader, _ := storageos.NewProvider().NewReadWriteBucket(dir)
	ctx := context.Background()
	points := []string{"os.put.created", "os.write", "os.close.before", "os.close", "os.close.closed", "os.close.renamed"}
	for _, point := range points {
		n := hits[point]
		step := 1
		if !c.Thorough() && n > 12 {
			step = (n + 11) / 12
		}
		for k := 1; k <= n; k += step {
			reset()
			cmd := exec.Command(core.SelfExe(), args...)
			cmd.Env = append(os.Environ(), fmt.Sprintf("VERIF_KILL=%s:%d", point, k))
			var stop atomic.Bool
			var wg sync.WaitGroup
			var observed []int
			var bad string
			wg.Add(1)
			if err := cmd.Start(); err != nil {
				wg.Done()
				continue
			}
			go func() {
				defer wg.Done()
				for !stop.Load() {
					data, err := storage.ReadPath(ctx, reader, path)
					if err != nil {
						bad = "reader error: " + err.Error()
						return
					}
					v, b := c15Validate(data)
					if b != "" {
						bad = b
						return
					}
					if len(observed) == 0 || observed[len(observed)-1] != v {
						if len(observed) > 0 && v < observed[len(observed)-1] {
							bad = fmt.Sprintf("version went backwards: %v then %d", observed, v)
							return
						}
						observed = append(observed, v)
					}
					c.Count("reader_observations", 1)
				}
			}()
			werr := cmd.Wait()
			stop.Store(true)
			wg.Wait()
			c.Eval(1)
			c.Count("kill_runs", 1)
			key := fmt.Sprintf("kill=%s:%d size=%d chunk=%d view=%q", point, k, size, chunk, view)
			c.Distinct("kill_points", fmt.Sprintf("%s:%d/size=%d/chunk=%d", point, k, size, chunk))
			killed := false
			if ee, ok := werr.(*exec.ExitError); ok {
				if ws, ok := ee.Sys().(syscall.WaitStatus); ok && ws.Signaled() && ws.Signal() == syscall.SIGKILL {
					killed = true
				}
			}
			if !killed {
				c.Count("kill_point_not_reached", 1)
			} else {
				c.Count("kills_delivered", 1)
			}
			if bad != "" {
				c.Violation("reader-saw-partial-object", key, "a concurrent reader observed an object that is neither the previous nor the complete new content: "+bad, nil)
			}
			data, rerr := os.ReadFile(full)
			v, b := c15Validate(data)
			if rerr != nil || b != "" {
				c.Violation("partial-object-after-crash", key, fmt.Sprintf("after SIGKILL at %s:%d the object is neither old nor complete new: %v %s", point, k, rerr, b), nil)
			} else if killed {
				// exact expectation: number of renames completed before the kill point
				want := 0
				switch point {
				case "os.close.renamed":
					want = k
				case "os.write":
					if writesPerPut > 0 {
						want = (k - 1) / writesPerPut
					}
				default:
					want = k - 1
				}
				if v != want {
					c.Violation("wrong-version-after-crash", key, fmt.Sprintf("after SIGKILL at %s:%d the object is version %d, expected %d (renames completed)", point, k, v, want), nil)
				}
				c.Count("post_kill_exact_checks", 1)
			}
			if len(observed) > 1 {
				c.Count("reader_saw_version_change", 1)
			}
			// the history continues after the crash: a later atomic put of a SHORTER object to the same
			// path must publish exactly that object (nothing of the interrupted write may survive in it)
			{
				next := c15Content(99, size/2)
				perr := storage.PutPath(ctx, reader, path, next, storage.PutWithAtomic())
				data, rerr := os.ReadFile(full)
				c.Eval(1)
				c.Count("post_kill_followup_puts", 1)
				if perr != nil {
					c.Violation("put-after-crash-failed", key, fmt.Sprintf("an atomic put after the crash failed: %v", perr), nil)
				} else if rerr != nil || !bytes.Equal(data, next) {
					v2, b2 := c15Validate(data)
					c.Violation("put-after-crash-corrupt", key, fmt.Sprintf("after SIGKILL at %s:%d a later atomic put of %d bytes returned nil but the object holds %d bytes (version %d, %s)", point, k, len(next), len(data), v2, b2), nil)
				}
			}
			entries, _ := os.ReadDir(filepath.Join(dir, "sub"))
			for _, e := range entries {
				if strings.HasPrefix(e.Name(), ".tmp") {
					c.Count("orphan_tmp_after_kill", 1)
				}
			}
		}
	}
	c.Nontrivial(fmt.Sprintf("kill size=%d chunk=%d rounds=%d writes=%d", size, chunk, rounds, hits["os.write"]))
	if idx == 0 {
		c.Sample(map[string]any{"kill_case": map[string]any{"size": size, "chunk": chunk, "rounds": rounds, "hook_hits": hits}})
	}
}

// ---- LimitWriteBucket ---------------------------------------------------------------------

func c15LimitCases(tier string) int { return c15NumSources(tier) }

func c15Limit(c *core.C, si int) {
	ctx := context.Background()
	srcMap := c15Source(c, si)
	src, _ := storagemem.NewReadBucket(srcMap)
	total := 0
	var sizes []int
	for _, d := range srcMap {
		total += len(d)
		sizes = append(sizes, len(d))
	}
	sort.Ints(sizes)
	limits := map[int]bool{0: true, 1: true, total - 1: true, total: true, total + 1: true, total / 2: true}
	acc := 0
	for _, s := range sizes {
		acc += s
		limits[acc] = true
		limits[acc-1] = true
		limits[acc+1] = true
	}
	for limit := range limits {
		if limit < 0 {
			continue
		}
		for _, atomicCopy := range []bool{false, true} {
			mem := storagemem.NewReadWriteBucket()
			lim := c13rw{mem, storage.LimitWriteBucket(mem, limit)}
			var opts []storage.CopyOption
			if atomicCopy {
				opts = append(opts, storage.CopyWithAtomic())
			}
			_, err := storage.Copy(ctx, src, lim, opts...)
			c.Eval(1)
			c.Count("limit_runs", 1)
			key := fmt.Sprintf("op=Copy->LimitWriteBucket source=%d limit=%d total=%d", si, limit, total)
			if total > limit {
				if err == nil {
					c.Violation("fault-swallowed", key, fmt.Sprintf("Copy of %d bytes into a bucket limited to %d bytes returned nil", total, limit), nil)
				} else if !storage.IsWriteLimitReached(err) {
					c.Violation("limit-wrong-error", key, fmt.Sprintf("expected write-limit error, got %v", err), nil)
				}
				c.Count("limit_exceeded_runs", 1)
			} else if err != nil {
				c.Violation("limit-false-failure", key, fmt.Sprintf("Copy of %d bytes into a bucket limited to %d bytes failed: %v", total, limit, err), nil)
			}
			if err == nil {
				if diff := c15Compare(mem, srcMap); diff != "" {
					c.Violation("success-with-missing-output", key, "Copy returned nil but destination differs: "+diff, nil)
				}
			}
		}
	}
	c.Nontrivial(fmt.Sprintf("limit files=%d total=%d", len(srcMap), total))
}

// ---- buf export through the CLI -------------------------------------------------------------

func c15CLICases(tier string) int {
	if tier == "thorough" {
		return 12
	}
	return 4
}

func c15CLI(c *core.C, idx int) {
	ws := filepath.Join(c.Tmp, "c15cli")
	os.RemoveAll(ws)
	defer os.RemoveAll(ws)
	files := map[string]string{
		"ws/buf.yaml":           "version: v2\nmodules:\n  - path: proto\n",
		"ws/proto/a/v1/a.proto": "syntax = \"proto3\";\npackage a.v1;\nimport \"b/v1/b.proto\";\nmessage A { b.v1.B b = 1; }\n",
		"ws/proto/b/v1/b.proto": "syntax = \"proto3\";\npackage b.v1;\nmessage B { string s = 1; " + strings.Repeat("// padding padding padding\n", 40*(idx+1)) + "}\n",
		"ws/proto/c/v1/c.proto": "syntax = \"proto3\";\npackage c.v1;\nmessage C {}\n",
	}
	if err := run.WriteTree(ws, files); err != nil {
		c.Note("cli setup: %v", err)
		return
	}
	env := run.BufEnv(filepath.Join(ws, "home"), nil)
	want := map[string][]byte{}
	for p, content := range files {
		if strings.HasPrefix(p, "ws/proto/") {
			want[strings.TrimPrefix(p, "ws/proto/")] = []byte(content)
		}
	}
	prov := storageos.NewProvider()
	export := func(prep func(out string)) (run.Out, string) {
		out := filepath.Join(ws, "out")
		os.RemoveAll(out)
		if prep != nil {
			prep(out)
		}
		return run.Buf(filepath.Join(ws, "ws"), env, nil, "export", ".", "-o", out), out
	}
	verifhook.Reset()
	o, out := export(nil)
	c.Eval(1)
	if o.Code != 0 {
		c.Violation("fault-free-run-failed", "buf export", fmt.Sprintf("buf export failed: code=%d stderr=%s", o.Code, o.Stderr), nil)
		return
	}
	hits := verifhook.Hits()
	b, _ := prov.NewReadWriteBucket(out)
	if diff := c15Compare(b, want); diff != "" {
		c.Violation("success-with-missing-output", "buf export fault=none", "buf export exit 0 but output differs: "+diff, nil)
	}
	for _, point := range []string{"os.write", "os.close"} {
		for k := 1; k <= hits[point]; k++ {
			verifhook.Reset()
			verifhook.Arm(point, verifhook.Action{Nth: k, Fault: true})
			o, out = export(nil)
			fired := verifhook.Fired()[point]
			verifhook.Reset()
			c.Eval(1)
			c.Count("cli_fault_runs", 1)
			key := fmt.Sprintf("buf export fault=%s#%d", point, k)
			c.Distinct("fault_positions", "buf-export/"+fmt.Sprintf("%s#%d", point, k))
			if fired > 0 {
				c.Count("faults_fired", fired)
				if o.Code == 0 {
					c.Violation("fault-swallowed", key, "buf export exited 0 although an injected write failure fired", nil)
				}
			}
			if o.Code == 0 {
				b, _ := prov.NewReadWriteBucket(out)
				if diff := c15Compare(b, want); diff != "" {
					c.Violation("success-with-missing-output", key, "buf export exit 0 but output differs: "+diff, nil)
				}
			}
		}
	}
	o, _ = export(func(out string) { os.MkdirAll(filepath.Join(out, "b/v1/b.proto", "blocker"), 0o755) })
	c.Eval(1)
	c.Count("real_failure_runs", 1)
	if o.Code == 0 {
		c.Violation("fault-swallowed", "buf export fault=dir-at:b/v1/b.proto", "buf export exited 0 although b/v1/b.proto is a directory in the output", nil)
	}
	c.Nontrivial(fmt.Sprintf("cli export writes=%d", hits["os.write"]))
}
