package checks

import (
	"bytes"
	"context"
	"errors"
	"fmt"
	"github.com/bufbuild/buf/private/bufpkg/bufmodule"
	"github.com/bufbuild/buf/private/bufpkg/bufmodule/bufmodulestore"
	"github.com/bufbuild/buf/private/pkg/filelock"
	"io"
	"io/fs"
	"log/slog"
	"os"
	"path/filepath"
	"sort"
	"strings"
	"sync"
	"syscall"

	"github.com/bufbuild/buf/private/bufpkg/bufcas"
	"github.com/bufbuild/buf/private/bufpkg/bufconfig"
	"github.com/bufbuild/buf/private/bufpkg/bufprotoplugin/bufprotopluginos"
	"github.com/bufbuild/buf/private/pkg/storage"
	"github.com/bufbuild/buf/private/pkg/storage/storagearchive"
	"github.com/bufbuild/buf/private/pkg/storage/storagemem"
	"github.com/bufbuild/buf/private/pkg/storage/storageos"
	"github.com/bufbuild/buf/private/pkg/verifhook"
	"github.com/bufbuild/verifharness/core"
	"google.golang.org/protobuf/proto"
	"google.golang.org/protobuf/types/pluginpb"
)

// C15 — write failures are always reported; atomic puts are all-or-nothing.
//
// Fault monitor: a wrapper WriteBucket / io.Writer that fails the k-th Put / Write / Close (error,
// or short write + error) and logs that it fired; on real disk buckets the verifhook fault points
// (os.write, os.close) and real EISDIR / rename-onto-directory failures. Oracle over the recorded
// history of one operation: fault fired ⇒ error returned; nil returned ⇒ destination equals the
// source; a returned failure of an atomic put leaves the directory listing unchanged.

var errC15 = errors.New("c15: injected fault")

// c15ErrKind: the injected failure takes a different KIND at every position — a plain error, "no such file"
// (a destination directory removed under the writer, a dangling link), "file exists", a bare io.EOF, a
// permission error. Whatever its kind, a failed write, close or put is a failure of the operation.
func c15ErrKind(n int) error {
	switch n % 5 {
	case 1:
		return &fs.PathError{Op: "open", Path: "c15-injected", Err: syscall.ENOENT}
	case 2:
		return &fs.PathError{Op: "open", Path: "c15-injected", Err: syscall.EEXIST}
	case 3:
		return io.EOF
	case 4:
		return &fs.PathError{Op: "write", Path: "c15-injected", Err: syscall.EACCES}
	}
	return errC15
}

type c15Plan struct {
	mu                              sync.Mutex
	puts, writes, closes            int
	failPut, failWrite, failClose   int
	failPut2, failWrite2, failClos2 int
	short                           bool
	fired                           []string
}

func (p *c15Plan) hit(kind string) (bool, int) {
	p.mu.Lock()
	defer p.mu.Unlock()
	var n, f1, f2 int
	switch kind {
	case "put":
		p.puts++
		n, f1, f2 = p.puts, p.failPut, p.failPut2
	case "write":
		p.writes++
		n, f1, f2 = p.writes, p.failWrite, p.failWrite2
	default:
		p.closes++
		n, f1, f2 = p.closes, p.failClose, p.failClos2
	}
	if n == f1 || n == f2 {
		p.fired = append(p.fired, fmt.Sprintf("%s#%d", kind, n))
		return true, n
	}
	return false, n
}

type c15Bucket struct {
	storage.ReadWriteBucket
	plan *c15Plan
}

func (b *c15Bucket) Put(ctx context.Context, path string, opts ...storage.PutOption) (storage.WriteObjectCloser, error) {
	if fail, n := b.plan.hit("put"); fail {
		return nil, c15ErrKind(n)
	}
	w, err := b.ReadWriteBucket.Put(ctx, path, opts...)
	if err != nil {
		return nil, err
	}
	return &c15Writer{WriteObjectCloser: w, plan: b.plan}, nil
}

type c15Writer struct {
	storage.WriteObjectCloser
	plan *c15Plan
}

func (w *c15Writer) Write(p []byte) (int, error) {
	if fail, k := w.plan.hit("write"); fail {
		if w.plan.short && len(p) > 1 {
			n, _ := w.WriteObjectCloser.Write(p[:len(p)/2])
			return n, c15ErrKind(k)
		}
		return 0, c15ErrKind(k)
	}
	return w.WriteObjectCloser.Write(p)
}

func (w *c15Writer) Close() error {
	fail, k := w.plan.hit("close")
	err := w.WriteObjectCloser.Close()
	if fail {
		return errors.Join(c15ErrKind(k), err)
	}
	return err
}

// c15IOWriter fails the k-th Write of a plain io.Writer.
type c15IOWriter struct {
	w    io.Writer
	plan *c15Plan
}

func (w *c15IOWriter) Write(p []byte) (int, error) {
	if fail, _ := w.plan.hit("write"); fail {
		if w.plan.short && len(p) > 1 {
			n, _ := w.w.Write(p[:len(p)/2])
			return n, errC15
		}
		return 0, errC15
	}
	return w.w.Write(p)
}

// ---- sources and operations -------------------------------------------------------------

func c15Source(c *core.C, si int) map[string][]byte {
	r := core.RandFor(c.Seed, "C15", si, "source")
	n := []int{0, 1, 2, 3, 5, 8, 12, 4}[si%8]
	if si >= 8 {
		n = r.IntN(13)
	}
	out := map[string][]byte{}
	names := []string{"a.proto", "b/b.proto", "b/c/c.proto", "LICENSE", "buf.md", "d/e/f/g.proto", "x y.proto", "z.txt", "b/z.proto", "q/q.proto", "q/r.proto", "q/s/t.proto", "u.proto"}
	for i := 0; i < n; i++ {
		var content []byte
		switch r.IntN(5) {
		case 0:
			content = []byte{}
		case 1:
			content = bytes.Repeat([]byte{byte('a' + i)}, 100_000) // several io.Copy chunks
		default:
			content = []byte(fmt.Sprintf("file-%d-%d\n", si, i))
		}
		out[names[i]] = content
	}
	return out
}

type c15Op struct {
	name string
	// run performs the operation against dst (bucket ops) or w (writer ops).
	run func(ctx context.Context, src storage.ReadBucket, srcMap map[string][]byte, dst storage.ReadWriteBucket, w io.Writer) error
	// expect returns the destination content required after a nil error.
	expect  func(srcMap map[string][]byte) map[string][]byte
	writer  bool // operation writes to an io.Writer
	verify  func(out []byte, srcMap map[string][]byte) string
	needSrc bool
}

func identity(m map[string][]byte) map[string][]byte { return m }

func firstPath(m map[string][]byte) string {
	var ks []string
	for k := range m {
		ks = append(ks, k)
	}
	sort.Strings(ks)
	if len(ks) == 0 {
		return ""
	}
	return ks[0]
}

func largestPath(m map[string][]byte) string {
	best := ""
	for k, v := range m {
		if best == "" || len(v) > len(m[best]) || (len(v) == len(m[best]) && k < best) {
			best = k
		}
	}
	return best
}

var c15BufYAML = `version: v2
modules:
  - path: proto
    name: buf.build/acme/weather
  - path: vendor
lint:
  use:
    - STANDARD
breaking:
  use:
    - FILE
`

func c15Ops() []c15Op {
	untarVerify := func(out []byte, srcMap map[string][]byte) string {
		dst := storagemem.NewReadWriteBucket()
		if err := storagearchive.Untar(context.Background(), bytes.NewReader(out), dst); err != nil {
			return "written tar does not read back: " + err.Error()
		}
		return c15Compare(dst, srcMap)
	}
	unzipVerify := func(out []byte, srcMap map[string][]byte) string {
		dst := storagemem.NewReadWriteBucket()
		if err := storagearchive.Unzip(context.Background(), bytes.NewReader(out), int64(len(out)), dst); err != nil {
			return "written zip does not read back: " + err.Error()
		}
		return c15Compare(dst, srcMap)
	}
	one := func(pick func(map[string][]byte) string) func(map[string][]byte) map[string][]byte {
		return func(m map[string][]byte) map[string][]byte {
			p := pick(m)
			if p == "" {
				return map[string][]byte{}
			}
			return map[string][]byte{"dst/" + p: m[p]}
		}
	}
	// caching: the module store writes files, the v1 side files and the marker through the bucket it is given
	storeOp := func(tar bool) func(ctx context.Context, src storage.ReadBucket, m map[string][]byte, dst storage.ReadWriteBucket, _ io.Writer) error {
		return func(ctx context.Context, _ storage.ReadBucket, m map[string][]byte, dst storage.ReadWriteBucket, _ io.Writer) error {
			spec := c09Spec{Name: "buf.test/acme/c15", Commit: "0195d7a2-7c1f-7000-8000-0000000000c5", Files: map[string]string{},
				BufYAML: "version: v1\nname: buf.test/acme/c15\n", BufLock: "version: v1\ndeps: []\n"}
			for p, d := range m {
				spec.Files[p] = string(d)
			}
			var opts []bufmodulestore.ModuleDataStoreOption
			if tar {
				opts = append(opts, bufmodulestore.ModuleDataStoreWithTar())
			}
			store := bufmodulestore.NewModuleDataStore(c09Logger, dst, filelock.NewNopLocker(), opts...)
			return store.PutModuleDatas(ctx, []bufmodule.ModuleData{c09Data(ctx, spec)})
		}
	}
	return []c15Op{
		{name: "ModuleStore.Put(dir)", run: storeOp(false)},
		{name: "ModuleStore.Put(tar)", run: storeOp(true)},
		{name: "Copy", expect: identity, run: func(ctx context.Context, src storage.ReadBucket, _ map[string][]byte, dst storage.ReadWriteBucket, _ io.Writer) error {
			_, err := storage.Copy(ctx, src, dst)
			return err
		}},
		{name: "Copy(atomic)", expect: identity, run: func(ctx context.Context, src storage.ReadBucket, _ map[string][]byte, dst storage.ReadWriteBucket, _ io.Writer) error {
			_, err := storage.Copy(ctx, src, dst, storage.CopyWithAtomic())
			return err
		}},
		{name: "Copy(externalPaths)", expect: identity, run: func(ctx context.Context, src storage.ReadBucket, _ map[string][]byte, dst storage.ReadWriteBucket, _ io.Writer) error {
			if !dst.SetExternalAndLocalPathsSupported() {
				_, err := storage.Copy(ctx, src, dst)
				return err
			}
			_, err := storage.Copy(ctx, src, dst, storage.CopyWithExternalAndLocalPaths())
			return err
		}},
		{name: "CopyPath", expect: one(largestPath), run: func(ctx context.Context, src storage.ReadBucket, m map[string][]byte, dst storage.ReadWriteBucket, _ io.Writer) error {
			p := largestPath(m)
			if p == "" {
				return nil
			}
			return storage.CopyPath(ctx, src, p, dst, "dst/"+p)
		}},
		{name: "CopyPath(atomic)", expect: one(firstPath), run: func(ctx context.Context, src storage.ReadBucket, m map[string][]byte, dst storage.ReadWriteBucket, _ io.Writer) error {
			p := firstPath(m)
			if p == "" {
				return nil
			}
			return storage.CopyPath(ctx, src, p, dst, "dst/"+p, storage.CopyWithAtomic())
		}},
		{name: "CopyReadObject", expect: func(m map[string][]byte) map[string][]byte {
			p := largestPath(m)
			if p == "" {
				return map[string][]byte{}
			}
			return map[string][]byte{p: m[p]}
		}, run: func(ctx context.Context, src storage.ReadBucket, m map[string][]byte, dst storage.ReadWriteBucket, _ io.Writer) error {
			p := largestPath(m)
			if p == "" {
				return nil
			}
			obj, err := src.Get(ctx, p)
			if err != nil {
				return nil
			}
			defer obj.Close()
			return storage.CopyReadObject(ctx, dst, obj)
		}},
		{name: "PutPath", expect: one(largestPath), run: func(ctx context.Context, _ storage.ReadBucket, m map[string][]byte, dst storage.ReadWriteBucket, _ io.Writer) error {
			p := largestPath(m)
			if p == "" {
				return nil
			}
			return storage.PutPath(ctx, dst, "dst/"+p, m[p])
		}},
		{name: "PutPath(atomic)", expect: one(largestPath), run: func(ctx context.Context, _ storage.ReadBucket, m map[string][]byte, dst storage.ReadWriteBucket, _ io.Writer) error {
			p := largestPath(m)
			if p == "" {
				return nil
			}
			return storage.PutPath(ctx, dst, "dst/"+p, m[p], storage.PutWithAtomic())
		}},
		{name: "CopyReader", expect: one(largestPath), run: func(ctx context.Context, _ storage.ReadBucket, m map[string][]byte, dst storage.ReadWriteBucket, _ io.Writer) error {
			p := largestPath(m)
			if p == "" {
				return nil
			}
			return storage.CopyReader(ctx, dst, bytes.NewReader(m[p]), "dst/"+p)
		}},
		{name: "ForWriteObject", expect: one(firstPath), run: func(ctx context.Context, _ storage.ReadBucket, m map[string][]byte, dst storage.ReadWriteBucket, _ io.Writer) error {
			p := firstPath(m)
			if p == "" {
				return nil
			}
			return storage.ForWriteObject(ctx, dst, "dst/"+p, func(w storage.WriteObject) error {
				_, err := w.Write(m[p])
				return err
			})
		}},
		{name: "Untar", expect: identity, run: func(ctx context.Context, src storage.ReadBucket, _ map[string][]byte, dst storage.ReadWriteBucket, _ io.Writer) error {
			var buf bytes.Buffer
			if err := storagearchive.Tar(ctx, src, &buf); err != nil {
				return nil
			}
			return storagearchive.Untar(ctx, &buf, dst)
		}},
		{name: "Unzip", expect: identity, run: func(ctx context.Context, src storage.ReadBucket, _ map[string][]byte, dst storage.ReadWriteBucket, _ io.Writer) error {
			var buf bytes.Buffer
			if err := storagearchive.Zip(ctx, src, &buf, true); err != nil {
				return nil
			}
			return storagearchive.Unzip(ctx, bytes.NewReader(buf.Bytes()), int64(buf.Len()), dst)
		}},
		{name: "Tar", writer: true, verify: untarVerify, run: func(ctx context.Context, src storage.ReadBucket, _ map[string][]byte, _ storage.ReadWriteBucket, w io.Writer) error {
			return storagearchive.Tar(ctx, src, w)
		}},
		{name: "Zip(compressed)", writer: true, verify: unzipVerify, run: func(ctx context.Context, src storage.ReadBucket, _ map[string][]byte, _ storage.ReadWriteBucket, w io.Writer) error {
			return storagearchive.Zip(ctx, src, w, true)
		}},
		{name: "Zip(stored)", writer: true, verify: unzipVerify, run: func(ctx context.Context, src storage.ReadBucket, _ map[string][]byte, _ storage.ReadWriteBucket, w io.Writer) error {
			return storagearchive.Zip(ctx, src, w, false)
		}},
		{name: "bufcas.PutFileSetToBucket", expect: identity, run: func(ctx context.Context, src storage.ReadBucket, _ map[string][]byte, dst storage.ReadWriteBucket, _ io.Writer) error {
			fs, err := bufcas.NewFileSetForBucket(ctx, src)
			if err != nil {
				return nil
			}
			return bufcas.PutFileSetToBucket(ctx, fs, dst)
		}},
		{name: "bufconfig.PutBufYAMLFileForPrefix", expect: nil, run: func(ctx context.Context, _ storage.ReadBucket, _ map[string][]byte, dst storage.ReadWriteBucket, _ io.Writer) error {
			f, err := bufconfig.ReadBufYAMLFile(strings.NewReader(c15BufYAML), "buf.yaml")
			if err != nil {
				panic(err)
			}
			return bufconfig.PutBufYAMLFileForPrefix(ctx, dst, "ws", f)
		}},
		{name: "bufconfig.PutBufWorkYAMLFileForPrefix", expect: nil, run: func(ctx context.Context, _ storage.ReadBucket, _ map[string][]byte, dst storage.ReadWriteBucket, _ io.Writer) error {
			f, err := bufconfig.NewBufWorkYAMLFile(bufconfig.FileVersionV1, []string{"a", "b/c"})
			if err != nil {
				panic(err)
			}
			return bufconfig.PutBufWorkYAMLFileForPrefix(ctx, dst, ".", f)
		}},
		{name: "bufconfig.PutBufLockFileForPrefix", expect: nil, run: func(ctx context.Context, _ storage.ReadBucket, _ map[string][]byte, dst storage.ReadWriteBucket, _ io.Writer) error {
			f, err := bufconfig.NewBufLockFile(bufconfig.FileVersionV2, nil, nil)
			if err != nil {
				panic(err)
			}
			return bufconfig.PutBufLockFileForPrefix(ctx, dst, "ws", f)
		}},
	}
}

// c15Compare returns "" if the bucket holds exactly want.
func c15Compare(b storage.ReadBucket, want map[string][]byte) string {
	ctx := context.Background()
	got := map[string][]byte{}
	err := b.Walk(ctx, "", func(oi storage.ObjectInfo) error {
		data, err := storage.ReadPath(ctx, b, oi.Path())
		if err != nil {
			return err
		}
		got[oi.Path()] = data
		return nil
	})
	if err != nil {
		return "walk: " + err.Error()
	}
	var d []string
	for p, w := range want {
		g, ok := got[p]
		if !ok {
			d = append(d, "missing:"+p)
		} else if !bytes.Equal(g, w) {
			d = append(d, fmt.Sprintf("truncated-or-different:%s(%d of %d bytes)", p, len(g), len(w)))
		}
	}
	for p := range got {
		if _, ok := want[p]; !ok && !strings.Contains(p, ".tmp") {
			d = append(d, "extra:"+p)
		}
	}
	sort.Strings(d)
	return strings.Join(d, ",")
}

type c15Dest struct {
	name string
	// mk creates a fresh destination; listing returns all entries (incl. temp files) for the no-residue clause.
	mk func(dir string) (storage.ReadWriteBucket, error)
}

func c15RunWrapped(c *core.C, op c15Op, si int, srcMap map[string][]byte) {
	ctx := context.Background()
	src, _ := storagemem.NewReadBucket(srcMap)
	key := func(f string) string { return fmt.Sprintf("op=%s source=%d fault=%s", op.name, si, f) }
	runOnce := func(plan *c15Plan) (error, string) {
		if op.writer {
			var out bytes.Buffer
			err := op.run(ctx, src, srcMap, nil, &c15IOWriter{w: &out, plan: plan})
			if err == nil {
				return nil, op.verify(out.Bytes(), srcMap)
			}
			return err, ""
		}
		mem := storagemem.NewReadWriteBucket()
		err := op.run(ctx, src, srcMap, &c15Bucket{ReadWriteBucket: mem, plan: plan}, nil)
		if err == nil && op.expect != nil {
			return nil, c15Compare(mem, op.expect(srcMap))
		}
		if err == nil {
			// config writers: the written document must exist and be non-empty
			n := 0
			mem.Walk(ctx, "", func(oi storage.ObjectInfo) error {
				data, _ := storage.ReadPath(ctx, mem, oi.Path())
				if len(data) > 0 {
					n++
				}
				return nil
			})
			if n == 0 {
				return nil, "no document written"
			}
		}
		return err, ""
	}
	// dry run: counts fault positions
	dry := &c15Plan{}
	err, diff := runOnce(dry)
	c.Eval(1)
	if err != nil || diff != "" {
		c.Violation("fault-free-run-failed", key("none"), fmt.Sprintf("%s without faults: err=%v diff=%s", op.name, err, diff), nil)
		return
	}
	type pos struct {
		kind  string
		k     int
		short bool
	}
	var positions []pos
	for k := 1; k <= dry.puts; k++ {
		positions = append(positions, pos{"put", k, false})
	}
	for k := 1; k <= dry.writes; k++ {
		positions = append(positions, pos{"write", k, false}, pos{"write", k, true})
	}
	for k := 1; k <= dry.closes; k++ {
		positions = append(positions, pos{"close", k, false})
	}
	check := func(label string, plan *c15Plan) {
		err, diff := runOnce(plan)
		c.Eval(1)
		c.Count("fault_runs", 1)
		if len(plan.fired) > 0 {
			c.Count("faults_fired", len(plan.fired))
			if err == nil {
				c.Violation("fault-swallowed", key(label), fmt.Sprintf("%s returned nil although injected fault(s) %v fired (source %d files)", op.name, plan.fired, len(srcMap)), nil)
			}
		} else {
			c.Count("fault_position_not_reached", 1)
		}
		if err == nil && diff != "" {
			c.Violation("success-with-missing-output", key(label), fmt.Sprintf("%s returned nil but destination differs from source: %s (fired=%v)", op.name, diff, plan.fired), nil)
		}
	}
	for _, p := range positions {
		plan := &c15Plan{short: p.short}
		switch p.kind {
		case "put":
			plan.failPut = p.k
		case "write":
			plan.failWrite = p.k
		default:
			plan.failClose = p.k
		}
		label := fmt.Sprintf("%s#%d", p.kind, p.k)
		if p.short {
			label += "short"
		}
		check(label, plan)
		c.Distinct("fault_positions", op.name+"/"+label)
	}
	if c.Thorough() {
		// pairs of positions (i<j) of the same or different kinds
		for i := 0; i < len(positions); i++ {
			for j := i + 1; j < len(positions); j++ {
				a, b := positions[i], positions[j]
				if a.short || b.short {
					continue
				}
				plan := &c15Plan{}
				set := func(p pos, second bool) {
					switch p.kind {
					case "put":
						if second && plan.failPut != 0 {
							plan.failPut2 = p.k
						} else {
							plan.failPut = p.k
						}
					case "write":
						if second && plan.failWrite != 0 {
							plan.failWrite2 = p.k
						} else {
							plan.failWrite = p.k
						}
					default:
						if second && plan.failClose != 0 {
							plan.failClos2 = p.k
						} else {
							plan.failClose = p.k
						}
					}
				}
				set(a, false)
				set(b, true)
				check(fmt.Sprintf("%s#%d+%s#%d", a.kind, a.k, b.kind, b.k), plan)
				c.Count("fault_pairs", 1)
			}
		}
	}
	c.Nontrivial(fmt.Sprintf("wrapped op=%s files=%d positions=%d", op.name, len(srcMap), len(positions)))
}

// c15RunDisk drives bucket operations against a real disk bucket with the storageos hook faults
// and with real failures (a directory where a file must go).
func c15RunDisk(c *core.C, op c15Op, si int, srcMap map[string][]byte) {
	if op.writer {
		return
	}
	// directly on the disk bucket, and through a prefix-mapped view of it (the way the caches reach their
	// files): put options and failures must pass through the combinator unchanged
	c15RunDiskView(c, op, si, srcMap, false)
	c15RunDiskView(c, op, si, srcMap, true)
}

func c15RunDiskView(c *core.C, op c15Op, si int, srcMap map[string][]byte, view bool) {
	ctx := context.Background()
	src, _ := storagemem.NewReadBucket(srcMap)
	root := filepath.Join(c.Tmp, "c15disk")
	base := root
	if view {
		base = filepath.Join(root, "dst")
	}
	prov := storageos.NewProvider()
	mk := func() (storage.ReadWriteBucket, string) {
		os.RemoveAll(root)
		os.MkdirAll(base, 0o755)
		var b storage.ReadWriteBucket
		b, err := prov.NewReadWriteBucket(root)
		if err != nil {
			panic(err)
		}
		if view {
			b = storage.MapReadWriteBucket(b, storage.MapOnPrefix("dst"))
		}
		return b, base
	}
	defer os.RemoveAll(root)
	key := func(f string) string {
		return fmt.Sprintf("op=%s source=%d diskfault=%s%s", op.name, si, f, map[bool]string{true: " view=mapped", false: ""}[view])
	}
	if view {
		c.Count("disk_fault_cases_through_mapped_view", 1)
	}
	// dry run counts hook hits
	verifhook.Reset()
	dst, _ := mk()
	if err := op.run(ctx, src, srcMap, dst, nil); err != nil {
		c.Violation("fault-free-run-failed", key("none"), fmt.Sprintf("%s on disk without faults: %v", op.name, err), nil)
		return
	}
	hits := verifhook.Hits()
	c.Eval(1)
	atomicOp := strings.Contains(op.name, "atomic") || strings.HasPrefix(op.name, "bufconfig") || strings.HasPrefix(op.name, "bufcas")
	for _, point := range []string{"os.write", "os.close"} {
		for k := 1; k <= hits[point]; k++ {
			for _, short := range []bool{false, true} {
				if short && point != "os.write" {
					continue
				}
				verifhook.Reset()
				verifhook.Arm(point, verifhook.Action{Nth: k, Fault: true, Short: short})
				dst, dir := mk()
				// pre-existing old content at every destination path the op will touch (every other
				// position: no previous object, so that "leaves no new object behind" is observable)
				var expect map[string][]byte
				if op.expect != nil {
					expect = op.expect(srcMap)
				}
				withOld := k%2 == 1
				if withOld {
					for p := range expect {
						os.MkdirAll(filepath.Dir(filepath.Join(dir, p)), 0o755)
						os.WriteFile(filepath.Join(dir, p), []byte("OLD"), 0o644)
					}
				}
				err := op.run(ctx, src, srcMap, dst, nil)
				fired := verifhook.Fired()[point]
				verifhook.Reset()
				c.Eval(1)
				c.Count("disk_fault_runs", 1)
				label := fmt.Sprintf("%s#%d short=%v", point, k, short)
				c.Distinct("fault_positions", op.name+"/disk/"+label+map[bool]string{true: "/mapped", false: ""}[view])
				if fired > 0 {
					c.Count("faults_fired", fired)
					if err == nil {
						c.Violation("fault-swallowed", key(label), fmt.Sprintf("%s on disk returned nil although the injected %s failure fired", op.name, point), nil)
					}
				}
				if err == nil && expect != nil {
					if diff := c15Compare(dst, expect); diff != "" {
						c.Violation("success-with-missing-output", key(label), fmt.Sprintf("%s on disk returned nil but destination differs: %s", op.name, diff), nil)
					}
				}
				if err != nil && atomicOp {
					// all-or-nothing: every destination path holds OLD or the complete new content; no temp residue
					for p, want := range expect {
						data, rerr := os.ReadFile(filepath.Join(dir, p))
						absent := rerr != nil && os.IsNotExist(rerr)
						isOld := rerr == nil && bytes.Equal(data, []byte("OLD"))
						isNew := rerr == nil && bytes.Equal(data, want)
						okState := isNew || (withOld && isOld) || (!withOld && absent)
						if !okState {
							c.Violation("atomic-put-partial", key(label), fmt.Sprintf("after a failed atomic %s, %s holds %d bytes (neither previous nor complete new; had previous=%v, err=%v)", op.name, p, len(data), withOld, rerr), nil)
						}
						// a single-object atomic put that reported failure must have left the previous state
						if len(expect) == 1 && fired > 0 && isNew && !(withOld && bytes.Equal(want, []byte("OLD"))) {
							c.Violation("failed-atomic-put-published", key(label), fmt.Sprintf("atomic %s returned an error but the new object %s was published", op.name, p), nil)
						}
						c.Count("atomic_old_or_new_checked", 1)
					}
					filepath.Walk(dir, func(p string, info os.FileInfo, err error) error {
						if err == nil && !info.IsDir() && strings.Contains(filepath.Base(p), ".tmp") {
							c.Violation("atomic-put-residue", key(label), fmt.Sprintf("after a failed atomic %s a temp object is left behind: %s", op.name, p), nil)
						}
						return nil
					})
				}
			}
		}
	}
	// real failure: a directory sits where a destination file must go
	if op.expect != nil {
		expect := op.expect(srcMap)
		for p := range expect {
			verifhook.Reset()
			dst, dir := mk()
			os.MkdirAll(filepath.Join(dir, p, "blocker"), 0o755)
			before := listAll(dir)
			err := op.run(ctx, src, srcMap, dst, nil)
			c.Eval(1)
			c.Count("real_failure_runs", 1)
			label := "dir-at:" + p
			if err == nil {
				c.Violation("fault-swallowed", key(label), fmt.Sprintf("%s on disk returned nil although %s is a non-empty directory and cannot have been written", op.name, p), nil)
			}
			if atomicOp && len(expect) == 1 {
				after := listAll(dir)
				if strings.Join(before, "\n") != strings.Join(after, "\n") {
					c.Violation("atomic-put-residue", key(label), fmt.Sprintf("failed atomic %s changed the directory listing: before=%v after=%v", op.name, before, after), nil)
				}
				c.Count("atomic_listing_checked", 1)
			}
			break
		}
	}
	c.Nontrivial(fmt.Sprintf("disk op=%s files=%d writes=%d closes=%d view=%v", op.name, len(srcMap), hits["os.write"], hits["os.close"], view))
}

func listAll(dir string) []string {
	var out []string
	filepath.Walk(dir, func(p string, info os.FileInfo, err error) error {
		if err == nil {
			rel, _ := filepath.Rel(dir, p)
			out = append(out, rel)
		}
		return nil
	})
	sort.Strings(out)
	return out
}

// c15RunFlush: the generated-file flush of bufprotopluginos onto a disk directory.
func c15RunFlush(c *core.C, si int, srcMap map[string][]byte) {
	ctx := context.Background()
	if len(srcMap) == 0 {
		return
	}
	base := filepath.Join(c.Tmp, "c15flush")
	defer os.RemoveAll(base)
	logger := slog.New(slog.NewTextHandler(io.Discard, nil))
	resp := &pluginpb.CodeGeneratorResponse{}
	var names []string
	for p := range srcMap {
		names = append(names, p)
	}
	sort.Strings(names)
	for _, p := range names {
		resp.File = append(resp.File, &pluginpb.CodeGeneratorResponse_File{Name: proto.String(p), Content: proto.String(string(srcMap[p]))})
	}
	run := func(outName string, prep func(out string)) (error, string) {
		os.RemoveAll(base)
		out := filepath.Join(base, outName)
		os.MkdirAll(filepath.Dir(out), 0o755)
		if prep != nil {
			prep(out)
		}
		rw := bufprotopluginos.NewResponseWriter(logger, storageos.NewProvider(storageos.ProviderWithSymlinks()), bufprotopluginos.ResponseWriterWithCreateOutDirIfNotExists())
		if err := rw.AddResponse(ctx, resp, out); err != nil {
			return err, out
		}
		return rw.Close(), out
	}
	key := func(f string) string { return fmt.Sprintf("op=generated-file-flush source=%d fault=%s", si, f) }
	verifhook.Reset()
	err, out := run("gen", nil)
	c.Eval(1)
	if err != nil {
		c.Violation("fault-free-run-failed", key("none"), fmt.Sprintf("flush without faults: %v", err), nil)
		return
	}
	hits := verifhook.Hits()
	prov := storageos.NewProvider()
	for _, point := range []string{"os.write", "os.close"} {
		for k := 1; k <= hits[point]; k++ {
			verifhook.Reset()
			verifhook.Arm(point, verifhook.Action{Nth: k, Fault: true})
			err, out = run("gen", nil)
			fired := verifhook.Fired()[point]
			verifhook.Reset()
			c.Eval(1)
			c.Count("flush_fault_runs", 1)
			label := fmt.Sprintf("%s#%d", point, k)
			c.Distinct("fault_positions", "flush/"+label)
			if fired > 0 {
				c.Count("faults_fired", fired)
				if err == nil {
					c.Violation("fault-swallowed", key(label), "generated-file flush returned nil although the injected "+point+" failure fired", nil)
				}
			}
			if err == nil {
				b, _ := prov.NewReadWriteBucket(out)
				if diff := c15Compare(b, srcMap); diff != "" {
					c.Violation("success-with-missing-output", key(label), "flush returned nil but output differs: "+diff, nil)
				}
			}
		}
	}
	// real failure: directory where a generated file must go
	err, _ = run("gen", func(out string) { os.MkdirAll(filepath.Join(out, names[0], "blocker"), 0o755) })
	c.Eval(1)
	c.Count("real_failure_runs", 1)
	if err == nil {
		c.Violation("fault-swallowed", key("dir-at:"+names[0]), "generated-file flush returned nil although "+names[0]+" is a directory", nil)
	}
	// zip output into a directory that is a file
	err, _ = run("sub/gen.zip", func(out string) { os.RemoveAll(filepath.Dir(out)); os.WriteFile(filepath.Dir(out), []byte("x"), 0o644) })
	c.Eval(1)
	c.Count("real_failure_runs", 1)
	if err == nil {
		c.Violation("fault-swallowed", key("zip-parent-is-file"), "zip flush returned nil although the parent of the zip file is a regular file", nil)
	}
	c.Nontrivial(fmt.Sprintf("flush files=%d writes=%d", len(srcMap), hits["os.write"]))
}

func c15NumSources(tier string) int {
	if tier == "thorough" {
		return 40
	}
	return 8
}

func c15Cases(tier string) int {
	return (len(c15Ops())+1)*c15NumSources(tier) + c15KillCases(tier) + c15LimitCases(tier) + c15CLICases(tier) + c15SysCases(tier)
}

func c15Run(c *core.C, idx int) {
	ops := c15Ops()
	ns := c15NumSources(c.Tier)
	n1 := (len(ops) + 1) * ns
	switch {
	case idx < n1:
		oi, si := idx/ns, idx%ns
		srcMap := c15Source(c, si)
		if oi == len(ops) {
			c15RunFlush(c, si, srcMap)
			return
		}
		c15RunWrapped(c, ops[oi], si, srcMap)
		c15RunDisk(c, ops[oi], si, srcMap)
		if si == 1 && oi == 0 {
			var names []string
			for p, d := range srcMap {
				names = append(names, fmt.Sprintf("%s(%dB)", p, len(d)))
			}
			c.Sample(map[string]any{"op": ops[oi].name, "source": names, "faults": "k-th Put/Write(error|short)/Close for every k of the dry run; disk: verifhook os.write/os.close k-th; real: directory at destination"})
		}
	case idx < n1+c15KillCases(c.Tier):
		c15Kill(c, idx-n1)
	case idx < n1+c15KillCases(c.Tier)+c15LimitCases(c.Tier):
		c15Limit(c, idx-n1-c15KillCases(c.Tier))
	case idx < n1+c15KillCases(c.Tier)+c15LimitCases(c.Tier)+c15CLICases(c.Tier):
		c15CLI(c, idx-n1-c15KillCases(c.Tier)-c15LimitCases(c.Tier))
	default:
		c15Sys(c, idx-n1-c15KillCases(c.Tier)-c15LimitCases(c.Tier)-c15CLICases(c.Tier))
	}
}

func init() {
	core.Register(&core.Check{
		ID:    "C15",
		Level: "fault_enumeration",
		Rule: "for each of 21 write operations (ModuleStore.PutModuleDatas dir/tar layout, Copy/CopyPath/CopyReadObject/PutPath/CopyReader/ForWriteObject ± atomic, Untar, Unzip, Tar, Zip, PutFileSetToBucket, bufconfig Put*FileForPrefix) + the generated-file flush, " +
			"and each source bucket (0..12 files, empty/small/100 kB contents): a fault-free dry run counts the Put/Write/Close events, then every single position k (error; short write+error) is injected through a wrapper bucket/writer, " +
			"and on a real disk bucket through the storageos hook points os.write/os.close plus real EISDIR failures; thorough adds all pairs. Atomic-put kill enumeration: a child process overwrites one path with PutWithAtomic and is SIGKILLed at every hit of every hook point while a reader polls; " +
			"LimitWriteBucket at every byte budget; `buf export` onto a blocked output. System-call part: the built buf binary runs 15 writing commands (build -o binpb/json.gz/txtpb.zst/yaml/stdout, export, format -w/-o dir/-o file, generate to dir/zip/jar, config init, config migrate, convert) under strace, which fails the first write (ENOSPC), second write, close (EIO), open (EMFILE), rename (EIO) or mkdir (EACCES) on each output path in turn; exit status and the files left behind are judged. distinct/non-trivial = distinct (operation, source size, number of fault positions) classes; fault_positions counts distinct (operation, position)",
		Assumptions: []string{
			"crash = SIGKILL of the writing process at hook-point granularity; power loss / page-cache durability is not modelled (the code never fsyncs)",
			"after SIGKILL an orphan .tmp* sibling may remain; it is not the object at the path and is not counted as a violation (it is counted in evidence)",
			"wrapper faults on Close still close the delegate (the resource is released) and then return the error",
			"system-call part: strace addresses a position by (output path, system call, first/second occurrence on a thread); temporary files of atomic puts have random names and are reached only through the rename onto the final path (their writes are covered by the in-process os.write hook)",
			"a failed close or open of a descriptor that was opened read-only does not have to fail the command; only completeness of the outputs is demanded then",
		},
		Exhaustive: true,
		Cases:      c15Cases,
		Run:        c15Run,
		Needs:      []string{"buf", "plugins"},
		Required:   []string{"faults_fired", "disk_fault_runs", "real_failure_runs", "kill_runs", "reader_observations", "limit_runs", "post_kill_followup_puts", "kill_cases_through_mapped_view", "sys_faults_fired", "sys_atomic_rename_failures", "sys_success_outputs_compared"},
	})
}
