package checks

import (
	"context"
	"fmt"
	"io"
	"sync"
	"sync/atomic"
	"time"

	"github.com/anishathalye/porcupine"
	"github.com/bufbuild/buf/private/pkg/storage"
	"github.com/bufbuild/buf/private/pkg/storage/storagemem"
	"github.com/bufbuild/verifharness/core"
)

// Concurrency add-on of C14 (run in the -race build): 4–8 goroutines operate on ONE memory bucket
// (directly and through a prefix-mapped view) with a unique value per write. The recorded
// call/return history is checked per path against a register model with porcupine.

type c14In struct {
	Op   int // 0 put, 1 delete, 2 get
	Path string
	Val  string
}
type c14Out struct {
	Val      string
	NotExist bool
	Err      string
}

var c14RegModel = porcupine.Model{
	Partition: func(history []porcupine.Operation) [][]porcupine.Operation {
		m := map[string][]porcupine.Operation{}
		var keys []string
		for _, op := range history {
			k := op.Input.(c14In).Path
			if _, ok := m[k]; !ok {
				keys = append(keys, k)
			}
			m[k] = append(m[k], op)
		}
		var out [][]porcupine.Operation
		for _, k := range keys {
			out = append(out, m[k])
		}
		return out
	},
	Init: func() any { return "" },
	Step: func(state, input, output any) (bool, any) {
		st := state.(string)
		in := input.(c14In)
		out := output.(c14Out)
		if out.Err != "" {
			return false, st
		}
		switch in.Op {
		case 0:
			return true, in.Val
		case 1:
			if out.NotExist {
				return st == "", st
			}
			return st != "", ""
		default:
			if out.NotExist {
				return st == "", st
			}
			return st == out.Val, st
		}
	},
	DescribeOperation: func(input, output any) string {
		return fmt.Sprintf("%+v -> %+v", input, output)
	},
}

func c14RaceCases(tier string) int {
	if tier == "thorough" {
		return 1500
	}
	return 160
}

func c14RunRace(c *core.C, idx int) {
	ctx := context.Background()
	parent := storagemem.NewReadWriteBucket()
	view := storage.MapReadWriteBucket(parent, storage.MapOnPrefix("p"))
	paths := []string{"a/b", "a/bc", "c"}[:1+c.Rand.IntN(3)]
	clients := 4 + c.Rand.IntN(5)
	opsPer := 4 + c.Rand.IntN(5)
	var clock atomic.Int64
	var mu sync.Mutex
	var history []porcupine.Operation
	var wg sync.WaitGroup
	start := make(chan struct{})
	for cl := 0; cl < clients; cl++ {
		rnd := core.RandFor(c.Seed, "C14race", idx, fmt.Sprintf("client%d", cl))
		wg.Add(1)
		go func(cl int) {
			defer wg.Done()
			<-start
			for i := 0; i < opsPer; i++ {
				p := paths[rnd.IntN(len(paths))]
				in := c14In{Op: rnd.IntN(3), Path: p}
				// half of the clients go through the mapped view; both address the same objects
				var b storage.ReadWriteBucket = view
				full := p
				if cl%2 == 0 {
					b = parent
					full = "p/" + p
				}
				var out c14Out
				if rnd.IntN(3) == 0 {
					time.Sleep(time.Duration(rnd.IntN(50)) * time.Microsecond)
				}
				call := clock.Add(1)
				switch in.Op {
				case 0:
					in.Val = fmt.Sprintf("v-%d-%d-%d", idx, cl, i)
					if err := storage.PutPath(ctx, b, full, []byte(in.Val)); err != nil {
						out.Err = err.Error()
					}
				case 1:
					if err := b.Delete(ctx, full); err != nil {
						if storage.IsNotExist(err) {
							out.NotExist = true
						} else {
							out.Err = err.Error()
						}
					}
				default:
					obj, err := b.Get(ctx, full)
					if err != nil {
						if storage.IsNotExist(err) {
							out.NotExist = true
						} else {
							out.Err = err.Error()
						}
					} else {
						data, rerr := io.ReadAll(obj)
						obj.Close()
						if rerr != nil {
							out.Err = rerr.Error()
						}
						out.Val = string(data)
					}
				}
				ret := clock.Add(1)
				mu.Lock()
				history = append(history, porcupine.Operation{ClientId: cl, Input: in, Call: call, Output: out, Return: ret})
				mu.Unlock()
			}
		}(cl)
	}
	// a concurrent walker: every walk must see a consistent, duplicate-free, sorted listing
	stop := make(chan struct{})
	var walkWG sync.WaitGroup
	walkWG.Add(1)
	walks := 0
	go func() {
		defer walkWG.Done()
		for {
			select {
			case <-stop:
				return
			default:
			}
			seen := map[string]bool{}
			err := view.Walk(ctx, "", func(oi storage.ObjectInfo) error {
				if seen[oi.Path()] {
					c.Violationf("walk-duplicate-under-concurrency", fmt.Sprintf("case=%d", idx), "walk visited %q twice", oi.Path())
				}
				seen[oi.Path()] = true
				return nil
			})
			if err != nil {
				c.Violationf("walk-error-under-concurrency", fmt.Sprintf("case=%d", idx), "walk: %v", err)
			}
			walks++
			time.Sleep(20 * time.Microsecond)
		}
	}()
	close(start)
	wg.Wait()
	close(stop)
	walkWG.Wait()
	c.Eval(len(history))
	c.Count("lin_ops", len(history))
	c.Count("concurrent_walks", walks)
	overlaps := 0
	for i := range history {
		for j := i + 1; j < len(history); j++ {
			a, b := history[i], history[j]
			if a.ClientId != b.ClientId && a.Input.(c14In).Path == b.Input.(c14In).Path && a.Call < b.Return && b.Call < a.Return {
				overlaps++
			}
		}
	}
	c.Count("lin_overlapping_pairs", overlaps)
	res, info := porcupine.CheckOperationsVerbose(c14RegModel, history, 30*time.Second)
	_ = info
	switch res {
	case porcupine.Ok:
		c.Count("lin_histories", 1)
		if overlaps > 0 {
			c.Nontrivial(fmt.Sprintf("race: clients=%d paths=%d overlaps>0 ops=%d", clients, len(paths), len(history)/8*8))
		}
	case porcupine.Illegal:
		var lines []string
		for _, op := range history {
			lines = append(lines, fmt.Sprintf("c%d [%d,%d] %+v -> %+v", op.ClientId, op.Call, op.Return, op.Input, op.Output))
		}
		c.Violation("not-linearizable", fmt.Sprintf("case=%d", idx), fmt.Sprintf("memory bucket history is not linearizable: %v", lines), nil)
	default:
		c.Count("lin_unknown", 1)
		c.Note("porcupine timeout on case %d (inconclusive for that history)", idx)
	}
	if idx == 0 {
		var lines []string
		for _, op := range history[:min(10, len(history))] {
			lines = append(lines, fmt.Sprintf("c%d [%d,%d] %+v -> %+v", op.ClientId, op.Call, op.Return, op.Input, op.Output))
		}
		c.Sample(map[string]any{"history_prefix": lines, "clients": clients})
	}
}
