package checks

import (
	"context"
	"fmt"
	"io"
	"strings"
	"sync"
	"sync/atomic"
	"time"

	"github.com/anishathalye/porcupine"
	"github.com/bufbuild/buf/private/pkg/storage"
	"github.com/bufbuild/buf/private/pkg/storage/storagemem"
	"github.com/bufbuild/verifharness/core"
)

// Concurrency add-on of C14 (run in the -race build): 4–8 goroutines operate on ONE memory bucket
// (directly and through a prefix-mapped view) with a unique value per write. The recorded
// call/return history is checked per path against a register model with porcupine.

type c14In struct {
	Op   int // 0 put, 1 delete, 2 get, 3 listed-by-a-walk (existence read)
	Path string
	Val  string
}
type c14Out struct {
	Val      string
	NotExist bool
	Err      string
}

var c14RegModel = porcupine.Model{
	Partition: func(history []porcupine.Operation) [][]porcupine.Operation {
		m := map[string][]porcupine.Operation{}
		var keys []string
		for _, op := range history {
			k := op.Input.(c14In).Path
			if _, ok := m[k]; !ok {
				keys = append(keys, k)
			}
			m[k] = append(m[k], op)
		}
		var out [][]porcupine.Operation
		for _, k := range keys {
			out = append(out, m[k])
		}
		return out
	},
	Init: func() any { return "" },
	Step: func(state, input, output any) (bool, any) {
		st := state.(string)
		in := input.(c14In)
		out := output.(c14Out)
		if out.Err != "" {
			return false, st
		}
		switch in.Op {
		case 0:
			return true, in.Val
		case 1:
			if out.NotExist {
				return st == "", st
			}
			return st != "", ""
		case 3:
			// a walk that ran over [call, return] listed (or did not list) the path: an existence read
			return out.NotExist == (st == ""), st
		default:
			if out.NotExist {
				return st == "", st
			}
			return st == out.Val, st
		}
	},
	DescribeOperation: func(input, output any) string {
		return fmt.Sprintf("%+v -> %+v", input, output)
	},
}

func c14RaceCases(tier string) int {
	if tier == "thorough" {
		return 1500
	}
	return 160
}

func c14RunRace(c *core.C, idx int) {
	ctx := context.Background()
	parent := storagemem.NewReadWriteBucket()
	view := storage.MapReadWriteBucket(parent, storage.MapOnPrefix("p"))
	paths := []string{"a/b", "a/bc", "c"}[:1+c.Rand.IntN(3)]
	clients := 4 + c.Rand.IntN(5)
	opsPer := 4 + c.Rand.IntN(5)
	var clock atomic.Int64
	var mu sync.Mutex
	var history []porcupine.Operation
	var wg sync.WaitGroup
	start := make(chan struct{})
	for cl := 0; cl < clients; cl++ {
		rnd := core.RandFor(c.Seed, "C14race", idx, fmt.Sprintf("client%d", cl))
		wg.Add(1)
		go func(cl int) {
			defer wg.Done()
			<-start
			for i := 0; i < opsPer; i++ {
				p := paths[rnd.IntN(len(paths))]
				in := c14In{Op: rnd.IntN(3), Path: p}
				// half of the clients go through the mapped view; both address the same objects
				var b storage.ReadWriteBucket = view
				full := p
				if cl%2 == 0 {
					b = parent
					full = "p/" + p
				}
				var out c14Out
				if rnd.IntN(3) == 0 {
					time.Sleep(time.Duration(rnd.IntN(50)) * time.Microsecond)
				}
				call := clock.Add(1)
				switch in.Op {
				case 0:
					in.Val = fmt.Sprintf("v-%d-%d-%d", idx, cl, i)
					if err := storage.PutPath(ctx, b, full, []byte(in.Val)); err != nil {
						out.Err = err.Error()
					}
				case 1:
					if err := b.Delete(ctx, full); err != nil {
						if storage.IsNotExist(err) {
							out.NotExist = true
						} else {
							out.Err = err.Error()
						}
					}
				default:
					obj, err := b.Get(ctx, full)
					if err != nil {
						if storage.IsNotExist(err) {
							out.NotExist = true
						} else {
							out.Err = err.Error()
						}
					} else {
						data, rerr := io.ReadAll(obj)
						obj.Close()
						if rerr != nil {
							out.Err = rerr.Error()
						}
						out.Val = string(data)
					}
				}
				ret := clock.Add(1)
				mu.Lock()
				history = append(history, porcupine.Operation{ClientId: cl, Input: in, Call: call, Output: out, Return: ret})
				mu.Unlock()
			}
		}(cl)
	}
	// a concurrent walker: every walk must see a consistent, duplicate-free, sorted listing
	stop := make(chan struct{})
	var walkWG sync.WaitGroup
	walkWG.Add(1)
	walks := 0
	go func() {
		defer walkWG.Done()
		for {
			select {
			case <-stop:
				return
			default:
			}
			seen := map[string]bool{}
			wcall := clock.Add(1)
			err := view.Walk(ctx, "", func(oi storage.ObjectInfo) error {
				if seen[oi.Path()] {
					c.Violationf("walk-duplicate-under-concurrency", fmt.Sprintf("case=%d", idx), "walk visited %q twice", oi.Path())
				}
				seen[oi.Path()] = true
				return nil
			})
			if err != nil {
				c.Violationf("walk-error-under-concurrency", fmt.Sprintf("case=%d", idx), "walk: %v", err)
			}
			wret := clock.Add(1)
			// every walk is one existence read per path, all over the same interval
			mu.Lock()
			for _, p := range paths {
				history = append(history, porcupine.Operation{ClientId: clients, Input: c14In{Op: 3, Path: p}, Call: wcall, Output: c14Out{NotExist: !seen[p]}, Return: wret})
			}
			mu.Unlock()
			walks++
			time.Sleep(20 * time.Microsecond)
		}
	}()
	close(start)
	wg.Wait()
	close(stop)
	walkWG.Wait()
	// quiescent point: nothing runs any more; what a walk lists must be exactly what stat finds, through the
	// view and on the parent, for the root prefix and for a directory prefix
	for _, q := range []struct {
		name   string
		b      storage.ReadBucket
		prefix string
		strip  string
	}{{"view", view, "", ""}, {"parent", parent, "", "p/"}, {"parent-prefix", parent, "p", "p/"}, {"view-prefix", view, "a", ""}} {
		listed := map[string]bool{}
		if err := q.b.Walk(ctx, q.prefix, func(oi storage.ObjectInfo) error {
			listed[strings.TrimPrefix(oi.Path(), q.strip)] = true
			return nil
		}); err != nil {
			c.Violationf("walk-error-under-concurrency", fmt.Sprintf("case=%d", idx), "walk at rest: %v", err)
		}
		for _, p := range paths {
			if q.name == "view-prefix" && !strings.HasPrefix(p, "a/") {
				continue
			}
			_, serr := view.Stat(ctx, p)
			if exists := serr == nil; exists != listed[p] {
				c.Violation("walk-disagrees-with-stat-at-rest", fmt.Sprintf("bucket=%s prefix=%q", q.name, q.prefix),
					fmt.Sprintf("after all %d clients finished, stat(%q) exists=%v but walk(%q) on %s lists=%v (case %d)", clients, p, exists, q.prefix, q.name, listed[p], idx), nil)
			}
			c.Count("quiescent_walk_stat_comparisons", 1)
		}
	}
	// walk-vs-put rounds: one walk and one put of a NEW path released together; once both have returned, the
	// bucket is at rest and a walk must list what stat finds (a listing cached by the overlapping walk must
	// not outlive the put)
	for round := 0; round < 40; round++ {
		np := fmt.Sprintf("r/%d-%d", idx, round)
		gate := make(chan struct{})
		var rwg sync.WaitGroup
		rwg.Add(2)
		go func() {
			defer rwg.Done()
			<-gate
			view.Walk(ctx, "", func(storage.ObjectInfo) error { return nil })
		}()
		go func() {
			defer rwg.Done()
			<-gate
			storage.PutPath(ctx, view, np, []byte("x"))
		}()
		close(gate)
		rwg.Wait()
		listed := false
		view.Walk(ctx, "r", func(oi storage.ObjectInfo) error {
			if oi.Path() == np {
				listed = true
			}
			return nil
		})
		if _, serr := view.Stat(ctx, np); (serr == nil) != listed {
			c.Violation("walk-disagrees-with-stat-at-rest", "walk-vs-put-round",
				fmt.Sprintf("after a walk and a put of %q that overlapped have both returned, stat exists=%v but walk lists=%v (case %d round %d)", np, serr == nil, listed, idx, round), nil)
			break
		}
		c.Count("walk_vs_put_rounds", 1)
	}
	c.Eval(len(history))
	c.Count("lin_ops", len(history))
	c.Count("concurrent_walks", walks)
	overlaps := 0
	for i := range history {
		for j := i + 1; j < len(history); j++ {
			a, b := history[i], history[j]
			if a.ClientId != b.ClientId && a.Input.(c14In).Path == b.Input.(c14In).Path && a.Call < b.Return && b.Call < a.Return {
				overlaps++
			}
		}
	}
	c.Count("lin_overlapping_pairs", overlaps)
	res, info := porcupine.CheckOperationsVerbose(c14RegModel, history, 30*time.Second)
	_ = info
	switch res {
	case porcupine.Ok:
		c.Count("lin_histories", 1)
		if overlaps > 0 {
			c.Nontrivial(fmt.Sprintf("race: clients=%d paths=%d overlaps>0 ops=%d", clients, len(paths), len(history)/8*8))
		}
	case porcupine.Illegal:
		var lines []string
		for _, op := range history {
			lines = append(lines, fmt.Sprintf("c%d [%d,%d] %+v -> %+v", op.ClientId, op.Call, op.Return, op.Input, op.Output))
		}
		c.Violation("not-linearizable", fmt.Sprintf("case=%d", idx), fmt.Sprintf("memory bucket history is not linearizable: %v", lines), nil)
	default:
		c.Count("lin_unknown", 1)
		c.Note("porcupine timeout on case %d (inconclusive for that history)", idx)
	}
	if idx == 0 {
		var lines []string
		for _, op := range history[:min(10, len(history))] {
			lines = append(lines, fmt.Sprintf("c%d [%d,%d] %+v -> %+v", op.ClientId, op.Call, op.Return, op.Input, op.Output))
		}
		c.Sample(map[string]any{"history_prefix": lines, "clients": clients})
	}
}
