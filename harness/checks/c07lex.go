package checks

import (
	"fmt"
	"math/rand/v2"
	"sort"
	"strings"

	"github.com/bufbuild/protocompile/ast"
)

// ---- token table of a base text ---------------------------------------------------------------

type c07Tok struct {
	Start, End int // byte offsets in the base text
	Kind       string
	Text       string
	Path       []ast.Node // ancestors, root first, the terminal node last
	Node       ast.Node
}

type c07Base struct {
	Path string
	Text []byte
	File *ast.FileNode
	Toks []c07Tok // in source order; the last one is EOF (Kind "$", Start == End == len(Text))
}

func c07NodeName(n ast.Node) string {
	s := fmt.Sprintf("%T", n)
	s = strings.TrimPrefix(s, "*ast.")
	s = strings.TrimPrefix(s, "ast.")
	return strings.TrimSuffix(s, "Node")
}

func c07Tokenize(path string, text []byte) (*c07Base, error) {
	fn, err := c07Parse(path, text)
	if err != nil {
		return nil, err
	}
	b := &c07Base{Path: path, Text: text, File: fn}
	byTok := map[ast.Token][]ast.Node{}
	var stack []ast.Node
	_ = ast.Walk(fn, &ast.NoOpVisitor{},
		ast.WithBefore(func(n ast.Node) error {
			stack = append(stack, n)
			if t, ok := n.(ast.TerminalNode); ok {
				if _, seen := byTok[t.Token()]; !seen {
					byTok[t.Token()] = append([]ast.Node{}, stack...)
				}
			}
			return nil
		}),
		ast.WithAfter(func(ast.Node) error {
			stack = stack[:len(stack)-1]
			return nil
		}))
	seq := fn.Tokens()
	for tok, ok := seq.First(); ok; tok, ok = seq.Next(tok) {
		info := fn.TokenInfo(tok)
		t := c07Tok{Start: info.Start().Offset, End: info.Start().Offset + len(info.RawText()), Text: info.RawText(), Path: byTok[tok]}
		if len(t.Path) > 0 {
			t.Node = t.Path[len(t.Path)-1]
		}
		switch n := t.Node.(type) {
		case *ast.RuneNode:
			if n.Rune == 0 {
				t.Kind = "$"
			} else {
				t.Kind = string(n.Rune)
			}
		case *ast.KeywordNode:
			t.Kind = n.Val
		case *ast.IdentNode:
			t.Kind = "id"
		case *ast.StringLiteralNode:
			t.Kind = "str"
		case *ast.UintLiteralNode:
			t.Kind = "int"
		case *ast.FloatLiteralNode:
			t.Kind = "flt"
		case *ast.SpecialFloatLiteralNode:
			t.Kind = n.KeywordNode.Val
		default:
			if t.Text == "" {
				t.Kind = "$"
			} else {
				t.Kind = "?"
			}
		}
		if t.Kind == "$" {
			t.Start, t.End = len(text), len(text)
		}
		b.Toks = append(b.Toks, t)
	}
	if len(b.Toks) == 0 || b.Toks[len(b.Toks)-1].Kind != "$" {
		b.Toks = append(b.Toks, c07Tok{Start: len(text), End: len(text), Kind: "$"})
	}
	return b, nil
}

// gap i lies before token i (gap 0: start of file; the last gap: before EOF).
func (b *c07Base) gapBounds(i int) (lo, hi int) {
	if i > 0 {
		lo = b.Toks[i-1].End
	}
	return lo, b.Toks[i].Start
}

func (b *c07Base) gapHasComment(i int) bool {
	lo, hi := b.gapBounds(i)
	return lo < hi && strings.Contains(string(b.Text[lo:hi]), "/")
}

// gapClass = <innermost enclosing node>:<kind before>|<kind after>^<parent of the enclosing node>
func (b *c07Base) gapClass(i int) string {
	prevKind := "^"
	var pa, pb []ast.Node
	pb = b.Toks[i].Path
	if i > 0 {
		prevKind = b.Toks[i-1].Kind
		pa = b.Toks[i-1].Path
	} else {
		pa = pb
	}
	if b.Toks[i].Kind == "$" {
		pb = pa
		if i == 0 {
			return "File:^|$^"
		}
	}
	// lowest common ancestor (composite)
	k := 0
	for k < len(pa) && k < len(pb) && pa[k] == pb[k] {
		k++
	}
	// exclude terminal nodes
	for k > 0 {
		if _, term := pa[k-1].(ast.TerminalNode); term {
			k--
			continue
		}
		break
	}
	enc, par := "File", ""
	if b.Toks[i].Kind == "$" || i == 0 {
		k = min(k, 1)
	}
	if k >= 1 {
		enc = c07NodeName(pa[k-1])
	}
	if k >= 2 {
		par = c07NodeName(pa[k-2])
	}
	return fmt.Sprintf("%s:%s|%s^%s", enc, prevKind, b.Toks[i].Kind, par)
}

// gapEnclosing returns the innermost enclosing node kind of gap i.
func (b *c07Base) gapEnclosing(i int) string {
	cls := b.gapClass(i)
	return cls[:strings.Index(cls, ":")]
}

// commentCategory singles out the gaps whose comments the formatter is known to treat specially
// (they become separate feature families, so that a known finding can switch one family off).
func (b *c07Base) commentCategory(i int) string {
	parentIs := func(t c07Tok, want string) bool {
		return len(t.Path) >= 2 && c07NodeName(t.Path[len(t.Path)-2]) == want
	}
	isSep := func(t c07Tok) bool { return (t.Kind == "," || t.Kind == ";") && parentIs(t, "MessageLiteral") }
	isEmpty := func(t c07Tok) bool { return t.Kind == ";" && parentIs(t, "EmptyDecl") }
	next := b.Toks[i]
	switch {
	case isSep(next):
		return "cmt-before-msglit-sep"
	case isEmpty(next):
		return "cmt-on-empty-stmt"
	}
	if i > 0 {
		prev := b.Toks[i-1]
		switch {
		case isSep(prev):
			return "cmt-after-msglit-sep"
		case isEmpty(prev):
			return "cmt-on-empty-stmt"
		}
	}
	return "cmt"
}

// ---- edits ------------------------------------------------------------------------------------------

type c07Edit struct {
	Pos, Del int // replace Text[Pos:Pos+Del]
	Ins      string
	Feature  string
	Marker   string
	Group    int // edits with the same non-zero group are kept or dropped together
	Gap      int
	GapClass string // comment edits: the gap class without style and layout
}

func c07Apply(text []byte, edits []c07Edit) []byte {
	es := append([]c07Edit{}, edits...)
	sort.SliceStable(es, func(i, j int) bool { return es[i].Pos < es[j].Pos })
	var out []byte
	at := 0
	for _, e := range es {
		if e.Pos < at {
			continue // overlapping edit: drop
		}
		out = append(out, text[at:e.Pos]...)
		out = append(out, e.Ins...)
		at = e.Pos + e.Del
	}
	return append(out, text[at:]...)
}

func c07Features(edits []c07Edit) string {
	seen := map[string]bool{}
	var fs []string
	for _, e := range edits {
		if !seen[e.Feature] {
			seen[e.Feature] = true
			fs = append(fs, e.Feature)
		}
	}
	sort.Strings(fs)
	return strings.Join(fs, " + ")
}

func c07Markers(edits []c07Edit) []string {
	var ms []string
	for _, e := range edits {
		if e.Marker != "" {
			ms = append(ms, e.Marker)
		}
	}
	return ms
}

// ---- known findings: features removed from the random stream (see c07Known in c07.go) -------------

func c07FeatureDisabled(f string) bool {
	for _, k := range c07Known {
		for _, pat := range k.Disable {
			if strings.HasSuffix(pat, "*") {
				if strings.HasPrefix(f, strings.TrimSuffix(pat, "*")) {
					return true
				}
			} else if pat == f {
				return true
			}
		}
	}
	return false
}

// ---- edit generators ------------------------------------------------------------------------------------

var c07CommentStyles = []string{"line", "line", "line-tight", "block", "block", "block-tight", "block-ml", "block-star", "doc", "line-x2", "line-blockend"}

func c07CommentText(style, marker string) string {
	switch style {
	case "line":
		return "// " + marker + " note\n"
	case "line-tight":
		return "//" + marker + "\n"
	case "block":
		return "/* " + marker + " */"
	case "block-tight":
		return "/*" + marker + "*/"
	case "block-ml":
		return "/* " + marker + "\n     second line\n  third */"
	case "block-star":
		return "/*\n * " + marker + "\n * more\n */"
	case "doc":
		return "/** " + marker + " */"
	case "line-x2":
		return "// " + marker + "\n// continued\n"
	case "line-blockend":
		return "// " + marker + " */ tail\n"
	}
	return "/*" + marker + "*/"
}

func c07Layout(r *rand.Rand) string {
	return []string{"", " ", " ", "\n", "\n", "\n\n", "\t", "\n  "}[r.IntN(8)]
}

func wordy(c byte) bool {
	return c == '_' || c == '.' || c >= '0' && c <= '9' || c >= 'a' && c <= 'z' || c >= 'A' && c <= 'Z' || c >= 0x80
}

// c07NeedsSep reports whether tokens i-1 and i would merge without a separator.
func (b *c07Base) needsSep(i int) bool {
	if i == 0 || b.Toks[i].Kind == "$" {
		return false
	}
	p, n := b.Toks[i-1], b.Toks[i]
	if p.End == 0 || n.Start >= len(b.Text) || len(p.Text) == 0 || len(n.Text) == 0 {
		return false
	}
	pc, nc := p.Text[len(p.Text)-1], n.Text[0]
	if wordy(pc) && wordy(nc) {
		return true
	}
	if (pc == '-' || pc == '+') && (nc == '-' || nc == '+') {
		return true
	}
	return pc == '/' && (nc == '/' || nc == '*')
}

// c07CommentEdit inserts one marked comment into gap i. where: 0 = right after the previous token,
// 1 = right before the next token (they coincide when the gap holds only whitespace and whole is set:
// then the whole gap is replaced).
func c07CommentEdit(r *rand.Rand, b *c07Base, i int, marker string, style string) (c07Edit, bool) {
	lo, hi := b.gapBounds(i)
	before, after := c07Layout(r), c07Layout(r)
	text := c07CommentText(style, marker)
	if strings.HasPrefix(style, "line") {
		// a line comment already ends the line
		switch after {
		case "", " ", "\t", "\n":
			after = ""
		case "\n\n":
			after = "\n"
		default:
			after = "  "
		}
	}
	// lexical safety: a '/' token directly before the comment would merge with it
	if i > 0 && before == "" && strings.HasSuffix(b.Toks[i-1].Text, "/") {
		before = " "
	}
	e := c07Edit{Marker: marker, Gap: i, GapClass: b.gapClass(i)}
	beside := ""
	// pre / post: the whitespace between the previous item and the comment, and between the
	// comment and the next item, in the edited text
	var pre, post string
	if !b.gapHasComment(i) {
		// replace the whole (whitespace-only) gap
		e.Pos, e.Del, e.Ins = lo, hi-lo, before+text+after
		pre, post = before, after
	} else {
		// the gap already holds comments: insert at one end, keep the rest
		beside = "/beside-comment"
		gap := string(b.Text[lo:hi])
		if r.IntN(2) == 0 {
			e.Pos, e.Ins = lo, before+text+after
			if !strings.HasSuffix(e.Ins, "\n") && !strings.HasSuffix(e.Ins, " ") {
				e.Ins += " "
				after += " "
			}
			rest := gap[:len(gap)-len(strings.TrimLeft(gap, " \t\r\n"))]
			pre, post = before, after+rest
		} else {
			e.Pos, e.Ins = hi, before+text+after
			if !strings.HasPrefix(e.Ins, "\n") && !strings.HasPrefix(e.Ins, " ") && !strings.HasPrefix(e.Ins, "\t") {
				e.Ins = " " + e.Ins
				before = " " + before
			}
			rest := gap[len(strings.TrimRight(gap, " \t\r\n")):]
			if strings.HasPrefix(strings.TrimLeft(gap[strings.LastIndex(gap[:len(gap)-len(rest)], "\n")+1:], " \t"), "//") && !strings.Contains(rest, "\n") {
				// the gap ends in a line comment without newline: cannot happen (a line comment ends at a newline)
				return c07Edit{}, false
			}
			pre, post = rest+before, after
		}
	}
	if strings.HasPrefix(style, "line") {
		post = "\n" + post
	}
	code := func(ws string) string {
		switch n := strings.Count(ws, "\n"); {
		case ws == "":
			return "j"
		case n == 0:
			return "s"
		case n == 1:
			return "n"
		}
		return "b"
	}
	layout := code(pre) + code(post)
	// firstWS: the whitespace between the previous token and the first comment of the edited gap
	firstWS := pre
	if beside != "" && e.Pos == hi {
		gap := string(b.Text[lo:hi])
		firstWS = gap[:len(gap)-len(strings.TrimLeft(gap, " \t\r\n"))]
	}
	cat := b.commentCategory(i)
	if cat == "cmt" && i > 0 {
		// layout-dependent families (protoc attributes a comment on the line below a declaration,
		// followed by a blank line, to that declaration as its trailing comment)
		prevKind := b.Toks[i-1].Kind
		// header statements = import and file-level option statements (they are sorted and compacted)
		isHeaderStmt := func(t c07Tok) bool {
			if len(t.Path) < 2 {
				return false
			}
			switch c07NodeName(t.Path[1]) {
			case "Import", "Option":
				return true
			}
			return false
		}
		headerAdjacent := b.gapEnclosing(i) == "File" && (isHeaderStmt(b.Toks[i-1]) || isHeaderStmt(b.Toks[i]))
		singleLine := style != "line-x2" && style != "block-ml" && style != "block-star"
		sameLineTrailing := beside == "" && singleLine && prevKind == ";" && (layout[0] == 'j' || layout[0] == 's')
		gluedLeading := beside == "" && layout[1] == 'n' && b.Toks[i].Kind != "$"
		switch {
		case headerAdjacent && !sameLineTrailing && !gluedLeading:
			// a comment block between header statements that is neither a same-line trailing comment
			// nor glued to the statement below: protoc may attribute it to the statement above, the
			// formatter moves it with the statement below (which is sorted elsewhere) and removes the
			// blank lines that separate it
			cat = "cmt-below-header-stmt"
		case prevKind == "{" && strings.Count(firstWS, "\n") >= 2:
			// a blank line between '{' and the first comment of the body
			cat = "cmt-blank-after-open-brace"
		}
	}
	e.Feature = fmt.Sprintf("%s@%s/%s/%s%s", cat, b.gapClass(i), style, layout, beside)
	if c07FeatureDisabled(e.Feature) {
		return c07Edit{}, false
	}
	return e, true
}

// c07SpaceEdit replaces the whitespace of a comment-free gap by another layout.
func c07SpaceEdit(r *rand.Rand, b *c07Base, i int) (c07Edit, bool) {
	if b.gapHasComment(i) {
		return c07Edit{}, false
	}
	lo, hi := b.gapBounds(i)
	ws := []string{"", "", " ", "  ", "\t", "\n", "\n\n", "\n\n\n", "\r\n", " \n\t ", "\n      "}[r.IntN(11)]
	if ws == "" && b.needsSep(i) {
		ws = " "
	}
	if ws == string(b.Text[lo:hi]) {
		return c07Edit{}, false
	}
	code := "none"
	switch n := strings.Count(ws, "\n"); {
	case ws == "":
		code = "none"
	case n == 0:
		code = "blank"
	case n == 1:
		code = "newline"
	default:
		code = "emptyline"
	}
	if strings.Contains(ws, "\r") {
		code = "crlf"
	}
	f := fmt.Sprintf("ws@%s/%s", b.gapClass(i), code)
	if c07FeatureDisabled(f) {
		return c07Edit{}, false
	}
	return c07Edit{Pos: lo, Del: hi - lo, Ins: ws, Feature: f, Gap: i}, true
}

// c07EmptyStmtGaps lists the gaps where the grammar admits empty statements: at the start of file /
// message / enum / service / rpc / group bodies and after a declaration's terminator inside them.
func (b *c07Base) emptyStmtGaps() []int {
	var out []int
	for i := 1; i < len(b.Toks); i++ {
		p := b.Toks[i-1]
		if p.Kind != "{" && p.Kind != ";" && p.Kind != "}" {
			continue
		}
		enc := b.gapEnclosing(i)
		switch enc {
		case "File", "Message", "Enum", "Service", "RPC", "Group":
		default:
			continue
		}
		if enc == "File" && p.Kind == "{" {
			continue
		}
		// after the syntax statement is fine; before it is not (gap 0 is excluded by i>=1)
		out = append(out, i)
	}
	return out
}

func c07EmptyStmtEdit(r *rand.Rand, b *c07Base, i int) (c07Edit, bool) {
	lo, _ := b.gapBounds(i)
	n := 1 + r.IntN(2)
	ins := strings.Repeat(";", n)
	if r.IntN(2) == 0 {
		ins = " " + ins
	}
	if r.IntN(4) == 0 {
		ins = "\n" + ins
	}
	f := fmt.Sprintf("empty@%s", b.gapClass(i))
	if b.gapHasComment(i) {
		// the comments of the gap become attached to the inserted empty statement
		f = fmt.Sprintf("empty-captures-comment@%s", b.gapClass(i))
	}
	if c07FeatureDisabled(f) {
		return c07Edit{}, false
	}
	return c07Edit{Pos: lo, Ins: ins, Feature: f, Gap: i}, true
}

// ---- token rewrites (meaning-preserving respellings of literals and message-literal punctuation) ----

func c07Escape(r *rand.Rand, val string, quote byte) string {
	var sb strings.Builder
	sb.WriteByte(quote)
	for i := 0; i < len(val); i++ {
		c := val[i]
		mode := r.IntN(10)
		switch {
		case c == quote || c == '\\' || c == '\n' || c == 0 || c < 0x20 || c >= 0x7f:
			switch {
			case c == '\n' && mode < 5:
				sb.WriteString(`\n`)
			case (c == quote || c == '\\') && mode < 6:
				sb.WriteByte('\\')
				sb.WriteByte(c)
			case mode%2 == 0:
				fmt.Fprintf(&sb, `\x%02x`, c)
			default:
				fmt.Fprintf(&sb, `\%03o`, c)
			}
		case mode == 0:
			fmt.Fprintf(&sb, `\x%02X`, c)
		case mode == 1:
			fmt.Fprintf(&sb, `\%03o`, c)
		case mode == 2 && c < 0x80:
			fmt.Fprintf(&sb, `\u%04x`, c)
		case mode == 3 && (c == '\'' || c == '"' || c == '?'):
			sb.WriteByte('\\')
			sb.WriteByte(c)
		default:
			sb.WriteByte(c)
		}
	}
	sb.WriteByte(quote)
	return sb.String()
}

// c07RewriteEdits proposes respellings for token i (nil if none applies).
func c07RewriteEdit(r *rand.Rand, b *c07Base, i int) (c07Edit, bool) {
	t := b.Toks[i]
	mk := func(ins, feature string) (c07Edit, bool) {
		if c07FeatureDisabled(feature) || ins == t.Text {
			return c07Edit{}, false
		}
		return c07Edit{Pos: t.Start, Del: t.End - t.Start, Ins: ins, Feature: feature, Gap: i}, true
	}
	parent := ""
	if len(t.Path) >= 2 {
		parent = c07NodeName(t.Path[len(t.Path)-2])
	}
	switch n := t.Node.(type) {
	case *ast.StringLiteralNode:
		quote := byte('"')
		if r.IntN(3) == 0 {
			quote = '\''
		}
		switch r.IntN(3) {
		case 0: // respell
			return mk(c07Escape(r, n.Val, quote), "str-escapes@"+parent)
		case 1: // other quote only
			if !strings.ContainsAny(n.Val, "'\"\\\n") && c07Printable(n.Val) {
				q := byte('\'')
				if t.Text[0] == '\'' {
					q = '"'
				}
				return mk(string(q)+n.Val+string(q), "str-quote@"+parent)
			}
			return c07Edit{}, false
		default: // split into adjacent literals
			if len(n.Val) < 2 {
				return mk(c07Escape(r, n.Val, quote)+" "+`""`, "str-concat@"+parent)
			}
			cut := 1 + r.IntN(len(n.Val)-1)
			sep := []string{"", " ", "\n", "\n    ", " /* c */ "}[r.IntN(5)]
			feature := "str-concat@" + parent
			if strings.Contains(sep, "/*") {
				feature = "str-concat-comment@" + parent
			}
			return mk(c07Escape(r, n.Val[:cut], quote)+sep+c07Escape(r, n.Val[cut:], byte('"')), feature)
		}
	case *ast.UintLiteralNode:
		if strings.HasPrefix(t.Text, "0") && len(t.Text) > 1 {
			return c07Edit{}, false
		}
		switch r.IntN(3) {
		case 0:
			return mk(fmt.Sprintf("0x%x", n.Val), "int-hex@"+parent)
		case 1:
			return mk(fmt.Sprintf("0X%X", n.Val), "int-hex@"+parent)
		default:
			return mk(fmt.Sprintf("0%o", n.Val), "int-octal@"+parent)
		}
	case *ast.FloatLiteralNode:
		if strings.ContainsAny(t.Text, "eE") {
			return c07Edit{}, false
		}
		switch r.IntN(3) {
		case 0:
			return mk(t.Text+"e0", "float-exp@"+parent)
		case 1:
			return mk(t.Text+"E+0", "float-exp@"+parent)
		default:
			if strings.Contains(t.Text, ".") {
				return mk(t.Text+"0", "float-zeros@"+parent)
			}
		}
	}
	return c07Edit{}, false
}

func c07Printable(s string) bool {
	for i := 0; i < len(s); i++ {
		if s[i] < 0x20 || s[i] >= 0x7f {
			return false
		}
	}
	return true
}

// c07MessageLiteralEdits proposes punctuation variants of the message literals of the file: angle
// brackets, optional element separators, optional ':' before message values.
func c07MessageLiteralEdits(r *rand.Rand, b *c07Base, prob float64, group *int) []c07Edit {
	var out []c07Edit
	tokIndex := map[ast.Token]int{}
	seq := b.File.Tokens()
	idx := 0
	for tok, ok := seq.First(); ok; tok, ok = seq.Next(tok) {
		tokIndex[tok] = idx
		idx++
	}
	at := func(n *ast.RuneNode) (c07Tok, bool) {
		if n == nil {
			return c07Tok{}, false
		}
		i, ok := tokIndex[n.Token()]
		if !ok || i >= len(b.Toks) {
			return c07Tok{}, false
		}
		return b.Toks[i], true
	}
	topLevel := map[*ast.MessageLiteralNode]bool{}
	_ = ast.Walk(b.File, &ast.SimpleVisitor{DoVisitNode: func(n ast.Node) error {
		if opt, ok := n.(*ast.OptionNode); ok {
			if ml, ok := opt.Val.(*ast.MessageLiteralNode); ok {
				topLevel[ml] = true // an option value must use braces
			}
		}
		ml, ok := n.(*ast.MessageLiteralNode)
		if !ok {
			return nil
		}
		if !topLevel[ml] && r.Float64() < prob && !c07FeatureDisabled("msglit-brackets") {
			o, ok1 := at(ml.Open)
			c, ok2 := at(ml.Close)
			if ok1 && ok2 {
				*group++
				no, nc := "<", ">"
				if ml.Open.Rune == '<' {
					no, nc = "{", "}"
				}
				out = append(out,
					c07Edit{Pos: o.Start, Del: 1, Ins: no, Feature: "msglit-brackets", Group: *group},
					c07Edit{Pos: c.Start, Del: 1, Ins: nc, Feature: "msglit-brackets", Group: *group})
			}
		}
		for i, el := range ml.Elements {
			if r.Float64() < prob {
				if sep := ml.Seps[i]; sep != nil {
					if t, ok := at(sep); ok {
						ins := []string{"", ";", ","}[r.IntN(3)]
						f := "msglit-sep-" + map[string]string{"": "dropped", ";": "semicolon", ",": "comma"}[ins]
						if ins != t.Text && !c07FeatureDisabled(f) {
							if ins == "" {
								ins = " "
							}
							out = append(out, c07Edit{Pos: t.Start, Del: 1, Ins: ins, Feature: f})
						}
					}
				} else {
					// insert after the element's last token
					info := b.File.NodeInfo(el)
					ins := []string{";", ","}[r.IntN(2)]
					f := "msglit-sep-" + map[string]string{";": "semicolon", ",": "comma"}[ins]
					if !c07FeatureDisabled(f) {
						out = append(out, c07Edit{Pos: info.End().Offset + 1, Ins: ins, Feature: f})
					}
				}
			}
			if el.Sep != nil && r.Float64() < prob {
				switch el.Val.(type) {
				case *ast.MessageLiteralNode:
					if t, ok := at(el.Sep); ok && !c07FeatureDisabled("msglit-nocolon") {
						out = append(out, c07Edit{Pos: t.Start, Del: 1, Ins: " ", Feature: "msglit-nocolon"})
					}
				}
			}
		}
		return nil
	}})
	return out
}

// ---- minimiser ----------------------------------------------------------------------------------------------

// c07Minimise drops edits (whole groups at a time) while stillFails holds.
func c07Minimise(edits []c07Edit, stillFails func([]c07Edit) bool) []c07Edit {
	type unit []c07Edit
	var units []unit
	byGroup := map[int]int{}
	for _, e := range edits {
		if e.Group != 0 {
			if k, ok := byGroup[e.Group]; ok {
				units[k] = append(units[k], e)
				continue
			}
			byGroup[e.Group] = len(units)
		}
		units = append(units, unit{e})
	}
	flat := func(us []unit) []c07Edit {
		var out []c07Edit
		for _, u := range us {
			out = append(out, u...)
		}
		return out
	}
	for chunk := (len(units) + 1) / 2; chunk >= 1; chunk /= 2 {
		for i := 0; i < len(units); {
			end := min(i+chunk, len(units))
			cand := append(append([]unit{}, units[:i]...), units[end:]...)
			if stillFails(flat(cand)) {
				units = cand
			} else {
				i = end
			}
		}
		if chunk == 1 {
			break
		}
	}
	return flat(units)
}
