package checks

import (
	"context"
	"embed"
	"encoding/json"
	"fmt"
	"os"
	"sort"
	"strings"

	"buf.build/go/bufplugin/check"
	"github.com/bufbuild/buf/private/bufpkg/bufcheck"
	"github.com/bufbuild/buf/private/bufpkg/bufconfig"
	"github.com/bufbuild/buf/private/bufpkg/bufplugin"
	"github.com/bufbuild/buf/private/pkg/wasm"
	"github.com/bufbuild/verifharness/core"
)

// Pinned rule tables (the `rulesmodel` of C06; also the source of C05's "≥1 plant per builtin lint
// rule" accounting). They were extracted once from the unchanged tree with `verif helper c06dump`
// and reviewed against the documented category sets (see c06TablesReviewed below). On every run
// they are compared with Client.AllRules / AllCategories, so that an edit of buf's own tables is a
// violation and not something the oracle silently follows.

//go:embed catalog/rules_v1beta1.json catalog/rules_v1.json catalog/rules_v2.json catalog/lint_plants.json
var c06Catalog embed.FS

type c06Rule struct {
	ID           string   `json:"id"`
	Type         string   `json:"type"` // lint | breaking
	Categories   []string `json:"categories"`
	Default      bool     `json:"default"`
	Deprecated   bool     `json:"deprecated,omitempty"`
	Replacements []string `json:"replacements,omitempty"`
}

type c06Category struct {
	ID           string   `json:"id"`
	Deprecated   bool     `json:"deprecated,omitempty"`
	Replacements []string `json:"replacements,omitempty"`
}

type c06Table struct {
	Version    string        `json:"version"`
	Rules      []c06Rule     `json:"rules"`
	Categories []c06Category `json:"categories"`
}

var c06Versions = []string{"v1beta1", "v1", "v2"}

func c06FileVersion(v string) bufconfig.FileVersion {
	switch v {
	case "v1beta1":
		return bufconfig.FileVersionV1Beta1
	case "v1":
		return bufconfig.FileVersionV1
	}
	return bufconfig.FileVersionV2
}

func c06LoadTable(version string) (*c06Table, error) {
	data, err := c06Catalog.ReadFile("catalog/rules_" + version + ".json")
	if err != nil {
		return nil, err
	}
	t := &c06Table{}
	if err := json.Unmarshal(data, t); err != nil {
		return nil, err
	}
	return t, nil
}

func (t *c06Table) rule(id string) *c06Rule {
	for i := range t.Rules {
		if t.Rules[i].ID == id {
			return &t.Rules[i]
		}
	}
	return nil
}

func (t *c06Table) category(id string) *c06Category {
	for i := range t.Categories {
		if t.Categories[i].ID == id {
			return &t.Categories[i]
		}
	}
	return nil
}

// rulesOfType returns the non-deprecated and deprecated rules of one type, sorted by ID.
func (t *c06Table) rulesOfType(typ string) []c06Rule {
	var out []c06Rule
	for _, r := range t.Rules {
		if r.Type == typ {
			out = append(out, r)
		}
	}
	sort.Slice(out, func(i, j int) bool { return out[i].ID < out[j].ID })
	return out
}

// categoryMembers: rule IDs of the given type that list the category (deprecated rules included,
// exactly as documented: a deprecated rule keeps its categories and is replaced after expansion).
func (t *c06Table) categoryMembers(typ, cat string) []string {
	var out []string
	for _, r := range t.Rules {
		if r.Type != typ {
			continue
		}
		for _, c := range r.Categories {
			if c == cat {
				out = append(out, r.ID)
			}
		}
	}
	sort.Strings(out)
	return out
}

// categoriesOfType: the category IDs that have at least one member rule of the type.
func (t *c06Table) categoriesOfType(typ string) []string {
	set := map[string]bool{}
	for _, r := range t.Rules {
		if r.Type == typ {
			for _, c := range r.Categories {
				set[c] = true
			}
		}
	}
	var out []string
	for c := range set {
		out = append(out, c)
	}
	sort.Strings(out)
	return out
}

func c06NewClient() (bufcheck.Client, error) {
	return bufcheck.NewClient(c09Logger, bufcheck.NewLocalRunnerProvider(wasm.UnimplementedRuntime, bufplugin.NopPluginKeyProvider, bufplugin.NopPluginDataProvider))
}

// c06LiveTable reads the tables of the tree under test.
func c06LiveTable(ctx context.Context, client bufcheck.Client, version string, opts ...bufcheck.ClientFunctionOption) (*c06Table, error) {
	fv := c06FileVersion(version)
	t := &c06Table{Version: version}
	for _, rt := range []check.RuleType{check.RuleTypeLint, check.RuleTypeBreaking} {
		var ro []bufcheck.AllRulesOption
		for _, o := range opts {
			ro = append(ro, o)
		}
		rules, err := client.AllRules(ctx, rt, fv, ro...)
		if err != nil {
			return nil, err
		}
		for _, r := range rules {
			cr := c06Rule{ID: r.ID(), Default: r.Default(), Deprecated: r.Deprecated(), Replacements: append([]string{}, r.ReplacementIDs()...), Categories: []string{}}
			if rt == check.RuleTypeLint {
				cr.Type = "lint"
			} else {
				cr.Type = "breaking"
			}
			for _, c := range r.Categories() {
				cr.Categories = append(cr.Categories, c.ID())
			}
			sort.Strings(cr.Categories)
			sort.Strings(cr.Replacements)
			if len(cr.Replacements) == 0 {
				cr.Replacements = nil
			}
			t.Rules = append(t.Rules, cr)
		}
	}
	var co []bufcheck.AllCategoriesOption
	for _, o := range opts {
		co = append(co, o)
	}
	cats, err := client.AllCategories(ctx, fv, co...)
	if err != nil {
		return nil, err
	}
	for _, c := range cats {
		cc := c06Category{ID: c.ID(), Deprecated: c.Deprecated(), Replacements: append([]string{}, c.ReplacementIDs()...)}
		sort.Strings(cc.Replacements)
		if len(cc.Replacements) == 0 {
			cc.Replacements = nil
		}
		t.Categories = append(t.Categories, cc)
	}
	sort.Slice(t.Rules, func(i, j int) bool {
		if t.Rules[i].Type != t.Rules[j].Type {
			return t.Rules[i].Type > t.Rules[j].Type
		}
		return t.Rules[i].ID < t.Rules[j].ID
	})
	sort.Slice(t.Categories, func(i, j int) bool { return t.Categories[i].ID < t.Categories[j].ID })
	return t, nil
}

func (t *c06Table) canon() string {
	var sb strings.Builder
	for _, r := range t.Rules {
		fmt.Fprintf(&sb, "rule %s %s cats=%s default=%v deprecated=%v repl=%s\n", r.Type, r.ID, strings.Join(r.Categories, ","), r.Default, r.Deprecated, strings.Join(r.Replacements, ","))
	}
	for _, c := range t.Categories {
		fmt.Fprintf(&sb, "category %s deprecated=%v repl=%s\n", c.ID, c.Deprecated, strings.Join(c.Replacements, ","))
	}
	return sb.String()
}

// c06DiffTables lists the lines that differ between the pinned and the live table.
func c06DiffTables(pinned, live *c06Table) []string {
	a, b := strings.Split(pinned.canon(), "\n"), strings.Split(live.canon(), "\n")
	inA, inB := map[string]bool{}, map[string]bool{}
	for _, l := range a {
		inA[l] = true
	}
	for _, l := range b {
		inB[l] = true
	}
	var out []string
	for _, l := range a {
		if l != "" && !inB[l] {
			out = append(out, "pinned-only: "+l)
		}
	}
	for _, l := range b {
		if l != "" && !inA[l] {
			out = append(out, "live-only: "+l)
		}
	}
	return out
}

func init() {
	// development aid: `verif helper c06dump <dir>` writes rules_<version>.json from the tree the
	// harness was compiled against (used once, on the unchanged tree, to create the pinned tables)
	core.RegisterHelper("c06dump", func(args []string) int {
		client, err := c06NewClient()
		if err != nil {
			fmt.Fprintln(os.Stderr, err)
			return 1
		}
		for _, v := range c06Versions {
			t, err := c06LiveTable(context.Background(), client, v)
			if err != nil {
				fmt.Fprintln(os.Stderr, err)
				return 1
			}
			data, _ := json.MarshalIndent(t, "", " ")
			if len(args) > 0 {
				if err := os.WriteFile(args[0]+"/rules_"+v+".json", append(data, '\n'), 0o644); err != nil {
					fmt.Fprintln(os.Stderr, err)
					return 1
				}
			} else {
				fmt.Println(string(data))
			}
		}
		return 0
	})
}

// ---- rulesmodel: what a configuration selects, from the pinned tables ------------------------
//
// Documented semantics: `use` lists rule and category IDs (empty = the default rules); a category
// stands for the rules that list it; a deprecated rule stands for its replacements (possibly none);
// `except` is expanded the same way and subtracted; an ID that is neither a rule of this type nor a
// category with a rule of this type is an error.

type c06UnknownIDError struct{ ID string }

func (e *c06UnknownIDError) Error() string { return "unknown rule or category ID " + e.ID }

func (t *c06Table) expand(typ string, ids []string) (map[string]bool, error) {
	out := map[string]bool{}
	for _, id := range ids {
		if id == "" {
			continue
		}
		var rules []string
		if r := t.rule(id); r != nil && r.Type == typ {
			rules = []string{id}
		} else if members := t.categoryMembers(typ, id); len(members) > 0 {
			rules = members
		} else {
			return nil, &c06UnknownIDError{id}
		}
		for _, rid := range rules {
			r := t.rule(rid)
			if r.Deprecated {
				for _, rep := range r.Replacements {
					out[rep] = true
				}
			} else {
				out[rid] = true
			}
		}
	}
	return out, nil
}

func (t *c06Table) defaults(typ string) []string {
	var out []string
	for _, r := range t.Rules {
		if r.Type == typ && r.Default {
			out = append(out, r.ID)
		}
	}
	return out
}

// selection returns the sorted rule IDs a configuration selects.
func (t *c06Table) selection(typ string, use, except []string) ([]string, error) {
	nonEmpty := func(ids []string) []string {
		var out []string
		for _, id := range ids {
			if id != "" {
				out = append(out, id)
			}
		}
		return out
	}
	use, except = nonEmpty(use), nonEmpty(except)
	if len(use) == 0 {
		use = t.defaults(typ)
	}
	sel, err := t.expand(typ, use)
	if err != nil {
		return nil, err
	}
	exc, err := t.expand(typ, except)
	if err != nil {
		return nil, err
	}
	var out []string
	for id := range sel {
		if !exc[id] {
			out = append(out, id)
		}
	}
	sort.Strings(out)
	return out, nil
}

// c06ReviewTable checks the pinned table of one version against the documented structure:
// MINIMAL ⊂ BASIC ⊂ STANDARD, DEFAULT ≡ STANDARD (deprecated alias), the default lint rules are
// exactly STANDARD, WIRE ⊂ WIRE_JSON ⊂ … are not nested by documentation but FILE is the default
// breaking category; every replacement ID exists and is not itself deprecated.
func c06ReviewTable(t *c06Table) []string {
	var bad []string
	set := func(typ, cat string) map[string]bool {
		m := map[string]bool{}
		for _, id := range t.categoryMembers(typ, cat) {
			m[id] = true
		}
		return m
	}
	subset := func(a, b map[string]bool) bool {
		for k := range a {
			if !b[k] {
				return false
			}
		}
		return true
	}
	minimal, basic, standard, def := set("lint", "MINIMAL"), set("lint", "BASIC"), set("lint", "STANDARD"), set("lint", "DEFAULT")
	if len(minimal) == 0 || !subset(minimal, basic) || len(minimal) >= len(basic) {
		bad = append(bad, "MINIMAL is not a proper subset of BASIC")
	}
	if !subset(basic, standard) || len(basic) >= len(standard) {
		bad = append(bad, "BASIC is not a proper subset of STANDARD")
	}
	if !subset(def, standard) || !subset(standard, def) {
		bad = append(bad, "DEFAULT differs from STANDARD")
	}
	if c := t.category("DEFAULT"); c == nil || !c.Deprecated || strings.Join(c.Replacements, ",") != "STANDARD" {
		bad = append(bad, "DEFAULT is not a deprecated alias of STANDARD")
	}
	defaults := map[string]bool{}
	for _, id := range t.defaults("lint") {
		defaults[id] = true
	}
	if !subset(defaults, standard) || !subset(standard, defaults) {
		bad = append(bad, "the default lint rules are not exactly STANDARD")
	}
	for _, cat := range []string{"COMMENTS", "UNARY_RPC"} {
		m := set("lint", cat)
		if len(m) == 0 {
			bad = append(bad, cat+" is empty")
		}
		for id := range m {
			if standard[id] {
				bad = append(bad, cat+" overlaps STANDARD: "+id)
			}
		}
	}
	file, pkg, wireJSON, wire := set("breaking", "FILE"), set("breaking", "PACKAGE"), set("breaking", "WIRE_JSON"), set("breaking", "WIRE")
	if len(file) == 0 || len(pkg) == 0 || len(wireJSON) == 0 || len(wire) == 0 {
		bad = append(bad, "a breaking category is empty")
	}
	bdef := map[string]bool{}
	for _, id := range t.defaults("breaking") {
		bdef[id] = true
	}
	if !subset(bdef, file) || !subset(file, bdef) {
		bad = append(bad, "the default breaking rules are not exactly FILE")
	}
	for _, r := range t.Rules {
		if !r.Deprecated && len(r.Replacements) > 0 {
			bad = append(bad, r.ID+" has replacements but is not deprecated")
		}
		for _, rep := range r.Replacements {
			rr := t.rule(rep)
			if rr == nil || rr.Type != r.Type || rr.Deprecated {
				bad = append(bad, r.ID+" is replaced by unknown or deprecated "+rep)
			}
		}
	}
	return bad
}
