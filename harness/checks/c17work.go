package checks

import (
	"fmt"
	"math/rand/v2"
	"path"
	"sort"
	"strings"

	"github.com/bufbuild/verifharness/core"
	"github.com/bufbuild/verifharness/gen"
	"github.com/bufbuild/verifharness/model"
)

// ---- workload decoration: options with source retention ----------------------------------------

// Extension numbers planted on every kind of options message.
const (
	c17SrcNum    = 50011 // string, retention = RETENTION_SOURCE
	c17MetaNum   = 50012 // message SrcMeta, runtime retention; its fields 2 and 4 have source retention
	c17RtNum     = 50013 // string, retention = RETENTION_RUNTIME
	c17SrcRepNum = 50014 // repeated int32, retention = RETENTION_SOURCE (message and field options)
)

var c17OptionKinds = []struct{ kind, extendee string }{
	{"file", "google.protobuf.FileOptions"},
	{"message", "google.protobuf.MessageOptions"},
	{"field", "google.protobuf.FieldOptions"},
	{"enum", "google.protobuf.EnumOptions"},
	{"value", "google.protobuf.EnumValueOptions"},
	{"service", "google.protobuf.ServiceOptions"},
	{"method", "google.protobuf.MethodOptions"},
}

// c17Decorate declares source-retention options in the schema's options file and uses them across
// the other files. It returns the number of option uses with source retention it planted.
func c17Decorate(r *rand.Rand, s *gen.Schema) (planted int) {
	if len(s.Modules) == 0 || len(s.Modules[0].Files) == 0 || !strings.HasSuffix(s.Modules[0].Files[0].Path, "/opts.proto") {
		return 0
	}
	of := s.Modules[0].Files[0]
	pkg := of.Package
	src := []gen.Opt{{Name: "retention", Value: "RETENTION_SOURCE"}}
	rt := []gen.Opt{{Name: "retention", Value: "RETENTION_RUNTIME"}}
	of.Messages = append(of.Messages, &gen.Message{Name: "SrcMeta", Comment: "Meta with source-only members.", Fields: []*gen.Field{
		{Name: "keep", Number: 1, Label: "optional", Kind: "scalar", Type: "string", Comment: "Kept."},
		{Name: "src_note", Number: 2, Label: "optional", Kind: "scalar", Type: "string", Comment: "Source only.", Options: src},
		{Name: "level", Number: 3, Label: "optional", Kind: "scalar", Type: "int32", Comment: "Kept."},
		{Name: "src_tags", Number: 4, Label: "repeated", Kind: "scalar", Type: "string", Comment: "Source only.", Options: src},
	}})
	for _, k := range c17OptionKinds {
		fields := []*gen.Field{
			{Name: "src_" + k.kind + "_note", Number: c17SrcNum, Label: "optional", Kind: "scalar", Type: "string", Comment: "Source only.", Options: src},
			{Name: k.kind + "_srcmeta", Number: c17MetaNum, Label: "optional", Kind: "message", Type: pkg + ".SrcMeta", Comment: "Meta."},
			{Name: "rt_" + k.kind + "_note", Number: c17RtNum, Label: "optional", Kind: "scalar", Type: "string", Comment: "Runtime.", Options: rt},
		}
		if k.kind == "message" || k.kind == "field" {
			fields = append(fields, &gen.Field{Name: "src_" + k.kind + "_nums", Number: c17SrcRepNum, Label: "repeated", Kind: "scalar", Type: "int32", Comment: "Source only.", Options: src})
		}
		of.Extends = append(of.Extends, &gen.Extend{Extendee: k.extendee, Fields: fields})
	}
	name := func(n string) string { return "(" + pkg + "." + n + ")" }
	// uses draws the options of one element of the given kind.
	uses := func(kind string, rate int) []gen.Opt {
		var out []gen.Opt
		if r.IntN(rate) == 0 {
			out = append(out, gen.Opt{Name: name("src_" + kind + "_note"), Value: fmt.Sprintf("%q", "source-only "+kind)})
			planted++
		}
		if r.IntN(rate+1) == 0 {
			lit := []string{
				`{ keep: "k" src_note: "sn" level: 2 }`,
				`{ src_note: "only-source" }`,
				`{ keep: "k" }`,
				`{ src_tags: "t1" src_tags: "t2" level: 7 }`,
			}[r.IntN(4)]
			out = append(out, gen.Opt{Name: name(kind + "_srcmeta"), Value: lit})
			if strings.Contains(lit, "src_") {
				planted++
			}
		}
		if r.IntN(rate+2) == 0 {
			out = append(out, gen.Opt{Name: name("rt_" + kind + "_note"), Value: fmt.Sprintf("%q", "runtime "+kind)})
		}
		if (kind == "message" || kind == "field") && r.IntN(rate+3) == 0 {
			out = append(out, gen.Opt{Name: name("src_" + kind + "_nums"), Value: "1"}, gen.Opt{Name: name("src_" + kind + "_nums"), Value: "2"})
			planted++
		}
		return out
	}
	if r.IntN(3) == 0 {
		of.Options = append(of.Options, gen.Opt{Name: name("src_file_note"), Value: `"options file itself"`})
		planted++
	}
	for i, f := range s.AllFiles() {
		if i == 0 || strings.HasPrefix(f.Path, "google/protobuf/") || r.IntN(3) == 0 {
			continue
		}
		f.Options = append(f.Options, uses("file", 2)...)
		var visit func(m *gen.Message)
		visit = func(m *gen.Message) {
			m.Options = append(m.Options, uses("message", 3)...)
			for _, fl := range m.Fields {
				if fl.Kind == "group" {
					if fl.Group != nil {
						visit(fl.Group)
					}
					continue
				}
				fl.Options = append(fl.Options, uses("field", 6)...)
			}
			for _, n := range m.Nested {
				visit(n)
			}
			for _, e := range m.Enums {
				e.Options = append(e.Options, uses("enum", 3)...)
				for _, v := range e.Values {
					v.Options = append(v.Options, uses("value", 6)...)
				}
			}
		}
		for _, m := range f.Messages {
			visit(m)
		}
		for _, e := range f.Enums {
			e.Options = append(e.Options, uses("enum", 3)...)
			for _, v := range e.Values {
				v.Options = append(v.Options, uses("value", 6)...)
			}
		}
		for _, sv := range f.Services {
			sv.Options = append(sv.Options, uses("service", 2)...)
			for _, m := range sv.Methods {
				m.Options = append(m.Options, uses("method", 3)...)
			}
		}
	}
	return planted
}

// ---- plugin configurations ---------------------------------------------------------------------

type c17Plugin struct {
	ID       string
	Out      string // as spelled in the configuration
	Loc      string // sandbox-relative clean path of the output location
	Kind     string // dir | zip | jar
	Strategy string // directory | all | "" (default = directory)
	Imports  bool   // effective include_imports
	WKT      bool   // effective include_wkt
	CfgImp   bool   // as written in the v2 plugin entry
	CfgWKT   bool
	Types    []string
	Excludes []string
	Script   c17Script
}

func (p *c17Plugin) filtered() bool { return len(p.Types)+len(p.Excludes) > 0 }

type c17Run struct {
	Version   string
	Plugins   []*c17Plugin
	Input     string
	Paths     []string
	Excludes  []string
	SelKind   string
	SelInYAML bool // v2: selection written as an `inputs:` entry instead of flags
	FlagImp   *bool
	FlagWKT   *bool
	BaseOut   string
	Clean     bool
	TopTypes  []string // image-wide type filter (v1 types.include / --type)
	Scenario  string
	PreExist  []string // sandbox-relative files created before the run (inside out locations)
	YAML      string
	Args      []string
	Hostile   []string
}

// c17Locations: cwd-relative output locations. "gen/a.zip" is a string-prefix sibling of the
// directory location "gen/a"; "../sibling/gen" lies outside the working directory.
var c17DirLocs = []string{"gen", "gen/a", "gen/b", "gen/a/sub", "../sibling/gen", "gen.d"}
var c17ZipLocs = []string{"out/x.zip", "gen/a.zip", "out/deep/er/y.jar", "z.jar"}

func c17KindOf(loc string) string {
	switch path.Ext(loc) {
	case ".zip":
		return "zip"
	case ".jar":
		return "jar"
	}
	return "dir"
}

// c17Spell returns an equivalent relative spelling of a cwd-relative location (the working
// directory is <sandbox>/ws).
func c17Spell(r *rand.Rand, loc string, allowAlias bool) string {
	isDir := c17KindOf(loc) == "dir"
	switch r.IntN(8) {
	case 0:
		if !strings.HasPrefix(loc, "../") {
			return "./" + loc
		}
	case 1:
		if isDir {
			return loc + "/"
		}
	case 2:
		if i := strings.Index(loc, "/"); i > 0 && !strings.HasPrefix(loc, "../") {
			return loc[:i] + "//" + loc[i+1:]
		}
	case 3:
		if i := strings.Index(loc, "/"); i > 0 && !strings.HasPrefix(loc, "../") {
			return loc[:i] + "/./" + loc[i+1:]
		}
	case 4:
		if !strings.HasPrefix(loc, "../") {
			return "tmpx/../" + loc
		}
	case 5:
		if allowAlias && !strings.HasPrefix(loc, "../") {
			return "../ws/" + loc
		}
	}
	return loc
}

// c17SandboxRel maps a configured out (and -o base) to the sandbox-relative clean location.
func c17SandboxRel(base, out string) string {
	return path.Clean(path.Join("ws", base, out))
}

var c17BenignNames = []string{
	"extra/plain.txt", "dir with space/ü ñ.txt", "a.b/...x", "deep/er/and/deeper/file.gen.go", "-dash/~tilde", "UPPER/lower.TXT",
	"with\ttab/and'quote\".txt", "gen/gen.txt", "x.zip/inner.txt", "trailing.dot./f.", "..a/b..", "a/..b/c",
}

var c17CuratedHostile = []string{
	"../escape.txt", "../../escape.txt", "a/../../escape.txt", "/abs/escape.txt", "/escape.txt", "..", ".", "a/..", "./", "a/../..",
	"a//b.txt", "./a.txt", "a/./b.txt", "a/b/../c.txt", "a/", "a/b/", "//a.txt", "...", ".../x", "..a", "a\\..\\..\\b.txt", "..\\escape.txt",
	"../ws/SENTINEL.txt", "../sibling/keep.txt", "../gen2/keep.txt", "sub/../../gen2/keep.txt", "",
}

func c17HostileName(r *rand.Rand) string {
	if r.IntN(2) == 0 {
		return c17CuratedHostile[r.IntN(len(c17CuratedHostile))]
	}
	l := 1 + r.IntN(5)
	comps := make([]string, l)
	for k := range comps {
		comps[k] = c13Alphabet[r.IntN(len(c13Alphabet))]
	}
	s := strings.Join(comps, "/")
	if r.IntN(4) == 0 {
		s = "/" + s
	}
	return s
}

var c17Scenarios = []string{
	"benign", "benign", "benign-extras", "hostile", "hostile", "hostile",
	"insertion-ok", "insertion-ok", "insertion-own", "insertion-disk-only", "insertion-missing", "insertion-other-out", "insertion-later",
	"dup-same-out", "dup-same-out", "dup-perfile", "dup-nested", "dup-different-out", "plugin-error",
}

func c17NeedsTwo(sc string) bool {
	switch sc {
	case "insertion-ok", "insertion-other-out", "insertion-later", "dup-same-out", "dup-perfile", "dup-nested", "dup-different-out":
		return true
	}
	return false
}

// c17MakeRun draws one `buf generate` configuration for the workspace.
func c17MakeRun(c *core.C, v *wsView, cmd []string, topMsgs map[string][]string, topEnums map[string][]string) *c17Run {
	r := c.Rand
	run := &c17Run{Version: []string{"v2", "v2", "v1"}[r.IntN(3)]}
	run.Input, run.Paths, run.Excludes, run.SelKind = c01Selection(c, v)
	if r.IntN(3) == 0 {
		run.Input, run.Paths, run.Excludes, run.SelKind = ".", nil, nil, "all"
	}
	T := model.Targets(v.Files, run.Input, run.Paths, run.Excludes)
	targets := model.SortedKeys(T)
	if len(targets) == 0 {
		return run
	}
	anchor := func() string { return targets[r.IntN(len(targets))] }
	run.Scenario = c17Scenarios[r.IntN(len(c17Scenarios))]
	n := 1 + r.IntN(3)
	if c17NeedsTwo(run.Scenario) && n < 2 {
		n = 2
	}
	if r.IntN(6) == 0 {
		run.BaseOut = []string{"base", "../obase", "./base/"}[r.IntN(3)]
	}
	// flags that override every plugin
	if run.Version == "v1" || r.IntN(5) == 0 {
		switch r.IntN(4) {
		case 0:
			t := true
			run.FlagImp = &t
		case 1:
			t, w := true, true
			run.FlagImp, run.FlagWKT = &t, &w
		case 2:
			f := false
			run.FlagImp = &f
		}
	}
	run.Clean = r.IntN(6) == 0
	// output locations
	shared := r.IntN(2) == 0
	zipRate := 5
	var sharedLoc string
	if r.IntN(zipRate) == 0 {
		sharedLoc = c17ZipLocs[r.IntN(len(c17ZipLocs))]
	} else {
		sharedLoc = c17DirLocs[r.IntN(len(c17DirLocs))]
	}
	used := map[string]bool{}
	for i := 0; i < n; i++ {
		p := &c17Plugin{ID: fmt.Sprintf("p%d", i)}
		loc := sharedLoc
		if !shared && i > 0 {
			for tries := 0; tries < 10; tries++ {
				if r.IntN(zipRate) == 0 {
					loc = c17ZipLocs[r.IntN(len(c17ZipLocs))]
				} else {
					loc = c17DirLocs[r.IntN(len(c17DirLocs))]
				}
				if !used[loc] {
					break
				}
			}
		}
		used[loc] = true
		p.Out = loc
		p.Strategy = []string{"directory", "all", "", "directory"}[r.IntN(4)]
		if run.Version == "v2" {
			switch r.IntN(4) {
			case 1:
				p.CfgImp = true
			case 2:
				p.CfgImp, p.CfgWKT = true, true
			}
		}
		p.Script.Suffix = "." + p.ID + ".txt"
		run.Plugins = append(run.Plugins, p)
	}
	ps := run.Plugins
	// scenario-specific shaping of outs and scripts
	pair := func() (int, int) { // i < j
		i := r.IntN(n - 1)
		return i, i + 1 + r.IntN(n-1-i)
	}
	content := func(tag string) string {
		return []string{
			"inserted by " + tag + "\nsecond line",
			"one line from " + tag + "\n",
			"a\n\nb after empty line " + tag + "\n",
			"",
			"  indented " + tag,
		}[r.IntN(5)]
	}
	ip := func() string { return []string{"class_scope", "file_scope"}[r.IntN(2)] }
	switch run.Scenario {
	case "benign-extras":
		p := ps[r.IntN(n)]
		perm := r.Perm(len(c17BenignNames))
		for k := 0; k < 1+r.IntN(4); k++ {
			p.Script.Extras = append(p.Script.Extras, c17Extra{Anchor: anchor(), Name: c17BenignNames[perm[k]], Content: fmt.Sprintf("extra %d of %s\n", k, p.ID)})
		}
	case "hostile":
		p := ps[r.IntN(n)]
		a := anchor()
		for k := 0; k < 1+r.IntN(3); k++ {
			name := c17HostileName(r)
			run.Hostile = append(run.Hostile, name)
			x := c17Extra{Anchor: a, Name: name, Content: "HOSTILE " + name + "\n"}
			if r.IntN(8) == 0 {
				x.InsertionPoint = "file_scope"
			}
			p.Script.Extras = append(p.Script.Extras, x)
		}
	case "insertion-ok", "insertion-later":
		i, j := pair()
		ps[j].Out = ps[i].Out
		a := anchor()
		target := a + ps[i].Script.Suffix
		if run.Scenario == "insertion-later" {
			i, j = j, i
			target = a + ps[i].Script.Suffix
		}
		// both insertions come from one invocation: answers of parallel invocations are merged in arrival order
		a2 := anchor()
		ps[j].Script.Extras = append(ps[j].Script.Extras, c17Extra{Anchor: a2, Name: target, InsertionPoint: ip(), Content: content(ps[j].ID)})
		if r.IntN(3) == 0 { // a second insertion into the same file
			ps[j].Script.Extras = append(ps[j].Script.Extras, c17Extra{Anchor: a2, Name: target, InsertionPoint: ip(), Content: content(ps[j].ID + " again")})
		}
	case "insertion-own":
		p := ps[r.IntN(n)]
		a := anchor()
		p.Script.Extras = append(p.Script.Extras, c17Extra{Anchor: a, Name: a + p.Script.Suffix, InsertionPoint: ip(), Content: content(p.ID + " own")})
	case "insertion-disk-only":
		p := ps[r.IntN(n)]
		if c17KindOf(p.Out) != "dir" {
			p.Out = c17DirLocs[r.IntN(len(c17DirLocs))]
		}
		run.PreExist = append(run.PreExist, path.Join(c17SandboxRel(run.BaseOut, p.Out), "existing.txt"))
		p.Script.Extras = append(p.Script.Extras, c17Extra{Anchor: anchor(), Name: "existing.txt", InsertionPoint: "file_scope", Content: content(p.ID)})
	case "insertion-missing":
		p := ps[r.IntN(n)]
		p.Script.Extras = append(p.Script.Extras, c17Extra{Anchor: anchor(), Name: "nowhere/none.txt", InsertionPoint: ip(), Content: content(p.ID)})
	case "insertion-other-out":
		i, j := pair()
		if ps[i].Out == ps[j].Out {
			ps[i].Out, ps[j].Out = "gen/a", "gen/b"
		}
		a := anchor()
		if r.IntN(2) == 0 {
			i, j = j, i
		}
		ps[j].Script.Extras = append(ps[j].Script.Extras, c17Extra{Anchor: anchor(), Name: a + ps[i].Script.Suffix, InsertionPoint: ip(), Content: content(ps[j].ID)})
	case "dup-same-out":
		i, j := pair()
		ps[j].Out = ps[i].Out
		name := []string{"shared/dup.txt", "dup.txt", "a/b/c/dup.gen.go"}[r.IntN(3)]
		name2 := name
		if r.IntN(4) == 0 {
			name2 = "./" + strings.Replace(name, "/", "//", 1)
		}
		// a whole file may carry an insertion_point field that is present but empty
		ps[i].Script.Extras = append(ps[i].Script.Extras, c17Extra{Anchor: anchor(), Name: name, Content: "first\n", EmptyIP: r.IntN(3) == 0})
		ps[j].Script.Extras = append(ps[j].Script.Extras, c17Extra{Anchor: anchor(), Name: name2, Content: "second\n", EmptyIP: r.IntN(3) == 0})
	case "dup-perfile":
		i, j := pair()
		ps[j].Out = ps[i].Out
		ps[j].Script.Suffix = ps[i].Script.Suffix
	case "dup-nested":
		i, j := pair()
		ps[i].Out, ps[j].Out = "gen/a", "gen/a/sub"
		if r.IntN(2) == 0 {
			i, j = j, i
		}
		// ps[i] writes into gen/a or gen/a/sub; both name the same file gen/a/sub/n/x.txt
		for _, k := range []int{i, j} {
			name := "n/x.txt"
			if ps[k].Out == "gen/a" {
				name = "sub/n/x.txt"
			}
			ps[k].Script.Extras = append(ps[k].Script.Extras, c17Extra{Anchor: anchor(), Name: name, Content: "nested by " + ps[k].ID + "\n"})
		}
	case "dup-different-out":
		i, j := pair()
		if ps[i].Out == ps[j].Out {
			ps[i].Out, ps[j].Out = "gen/a", "gen/b"
		}
		ps[i].Script.Extras = append(ps[i].Script.Extras, c17Extra{Anchor: anchor(), Name: "same/name.txt", Content: "from " + ps[i].ID + "\n"})
		ps[j].Script.Extras = append(ps[j].Script.Extras, c17Extra{Anchor: anchor(), Name: "same/name.txt", Content: "from " + ps[j].ID + "\n"})
	case "plugin-error":
		p := ps[r.IntN(n)]
		p.Script.Error = "scripted failure of " + p.ID
		p.Script.ErrorAnchor = anchor()
	}
	// spell the outs, derive locations; sometimes plant files that already exist in an out directory
	for _, p := range ps {
		loc := p.Out
		p.Out = c17Spell(r, loc, true)
		p.Loc = c17SandboxRel(run.BaseOut, p.Out)
		p.Kind = c17KindOf(p.Loc)
		if p.Kind == "dir" && r.IntN(4) == 0 {
			run.PreExist = append(run.PreExist, path.Join(p.Loc, "existing.txt"), path.Join(p.Loc, "old/stale.txt"))
		}
		if p.Kind != "dir" && r.IntN(3) == 0 {
			run.PreExist = append(run.PreExist, p.Loc) // an older archive at the same place
		}
	}
	run.PreExist = dedup(run.PreExist)
	// type filters
	if run.Version == "v2" && r.IntN(6) == 0 {
		p := ps[r.IntN(n)]
		t := targets[r.IntN(len(targets))]
		if r.IntN(4) != 0 && len(topMsgs[t]) > 0 {
			p.Types = []string{topMsgs[t][r.IntN(len(topMsgs[t]))]}
		} else if len(topEnums[t]) > 0 {
			p.Excludes = []string{topEnums[t][r.IntN(len(topEnums[t]))]}
		}
	} else if r.IntN(12) == 0 {
		t := targets[r.IntN(len(targets))]
		if len(topMsgs[t]) > 0 {
			run.TopTypes = []string{topMsgs[t][r.IntN(len(topMsgs[t]))]}
		}
	}
	run.SelInYAML = run.Version == "v2" && run.Input == "." && r.IntN(3) == 0
	// effective flags
	for _, p := range ps {
		p.Imports, p.WKT = p.CfgImp, p.CfgWKT
		if run.FlagImp != nil {
			p.Imports = *run.FlagImp
		}
		if run.FlagWKT != nil {
			p.WKT = *run.FlagWKT
		}
	}
	run.render(cmd)
	return run
}

func c17YAMLList(items []string) string {
	q := make([]string, len(items))
	for i, s := range items {
		q[i] = fmt.Sprintf("%q", s)
	}
	return "[" + strings.Join(q, ", ") + "]"
}

func (run *c17Run) render(cmd []string) {
	cmdYAML := c17YAMLList(cmd)
	var sb strings.Builder
	sb.WriteString("version: " + run.Version + "\n")
	if run.Version == "v2" && run.Clean {
		sb.WriteString("clean: true\n")
	}
	sb.WriteString("plugins:\n")
	for _, p := range run.Plugins {
		if run.Version == "v2" {
			sb.WriteString("  - local: " + cmdYAML + "\n")
		} else {
			sb.WriteString(fmt.Sprintf("  - name: c17%s\n    path: %s\n", p.ID, cmdYAML))
		}
		sb.WriteString(fmt.Sprintf("    out: %q\n    opt: id=%s\n", p.Out, p.ID))
		if p.Strategy != "" {
			sb.WriteString("    strategy: " + p.Strategy + "\n")
		}
		if run.Version == "v2" {
			if p.CfgImp {
				sb.WriteString("    include_imports: true\n")
			}
			if p.CfgWKT {
				sb.WriteString("    include_wkt: true\n")
			}
			if len(p.Types) > 0 {
				sb.WriteString("    types: " + c17YAMLList(p.Types) + "\n")
			}
			if len(p.Excludes) > 0 {
				sb.WriteString("    exclude_types: " + c17YAMLList(p.Excludes) + "\n")
			}
		}
	}
	// --timeout=0: buf's default two-minute wall-clock deadline must not decide a verdict on a loaded machine
	args := []string{"generate", "--timeout=0"}
	typesAsFlag := false
	if len(run.TopTypes) > 0 {
		if run.Version == "v1" {
			sb.WriteString("types:\n  include: " + c17YAMLList(run.TopTypes) + "\n")
		} else {
			typesAsFlag = true
		}
	}
	if run.SelInYAML {
		sb.WriteString("inputs:\n  - directory: .\n")
		if len(run.Paths) > 0 {
			sb.WriteString("    paths: " + c17YAMLList(run.Paths) + "\n")
		}
		if len(run.Excludes) > 0 {
			sb.WriteString("    exclude_paths: " + c17YAMLList(run.Excludes) + "\n")
		}
	} else {
		if run.Input != "." {
			args = append(args, run.Input)
		}
		for _, p := range run.Paths {
			args = append(args, "--path", p)
		}
		for _, e := range run.Excludes {
			args = append(args, "--exclude-path", e)
		}
	}
	if typesAsFlag {
		for _, t := range run.TopTypes {
			args = append(args, "--type", t)
		}
	}
	if run.FlagImp != nil {
		args = append(args, fmt.Sprintf("--include-imports=%v", *run.FlagImp))
	}
	if run.FlagWKT != nil {
		args = append(args, fmt.Sprintf("--include-wkt=%v", *run.FlagWKT))
	}
	if run.BaseOut != "" {
		args = append(args, "-o", run.BaseOut)
	}
	if run.Version != "v2" && run.Clean {
		args = append(args, "--clean")
	}
	run.YAML = sb.String()
	run.Args = args
}

func (run *c17Run) describe() string {
	var ps []string
	for _, p := range run.Plugins {
		s := p.Strategy
		if s == "" {
			s = "default"
		}
		f := ""
		if p.Imports {
			f += "+imports"
		}
		if p.WKT {
			f += "+wkt"
		}
		if p.filtered() {
			f += "+types"
		}
		ps = append(ps, p.Kind+":"+s+f)
	}
	sort.Strings(ps)
	return strings.Join(ps, ",")
}
