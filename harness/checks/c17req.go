package checks

import (
	"bytes"
	"fmt"
	"sort"
	"strings"

	"github.com/bufbuild/verifharness/core"
	"github.com/bufbuild/verifharness/img"
	"github.com/bufbuild/verifharness/model"
	"github.com/bufbuild/verifharness/ref"
	"google.golang.org/protobuf/encoding/protowire"
	"google.golang.org/protobuf/proto"
	"google.golang.org/protobuf/reflect/protoreflect"
	"google.golang.org/protobuf/types/descriptorpb"
)

// ---- request side: exactly once, closure, order, retention ---------------------------------------

// c17World is what the oracles know about one generated workspace.
type c17World struct {
	v        *wsView
	rc       *ref.Result
	imports  map[string][]string // import graph: generator's for workspace files, compiler's for built-in files
	refBytes map[string][]byte   // canonical bytes of the compiler's descriptor per path
	planted  int
	topMsgs  map[string][]string // file -> top-level message full names
	topEnums map[string][]string
	typeFile map[string]string // full name -> declaring file
}

func c17Canonical(fd *descriptorpb.FileDescriptorProto) []byte {
	b, err := proto.MarshalOptions{Deterministic: true}.Marshal(img.Canon(fd))
	if err != nil {
		panic(err)
	}
	return b
}

func (w *c17World) isWorkspace(p string) bool { _, ok := w.v.Sources[p]; return ok }

func c17WKTPath(p string) bool { return strings.HasPrefix(p, "google/protobuf/") }

var c17OptionsMessages = map[protoreflect.FullName]bool{
	"google.protobuf.FileOptions": true, "google.protobuf.MessageOptions": true, "google.protobuf.FieldOptions": true,
	"google.protobuf.OneofOptions": true, "google.protobuf.EnumOptions": true, "google.protobuf.EnumValueOptions": true,
	"google.protobuf.ServiceOptions": true, "google.protobuf.MethodOptions": true, "google.protobuf.ExtensionRangeOptions": true,
}

type c17StripStats struct {
	top, nested int
	paths       [][]int32 // source paths of the options messages something was removed from
}

// c17FilterFields drops the fields numbered in drop from a serialized message; for the field
// numbered descend (a length-delimited sub-message) it drops the inner fields numbered in inner.
func c17FilterFields(b []byte, drop map[protowire.Number]bool, descend protowire.Number, inner map[protowire.Number]bool) (out []byte, dropped, innerDropped int) {
	for len(b) > 0 {
		num, typ, n := protowire.ConsumeField(b)
		if n < 0 {
			return append(out, b...), dropped, innerDropped
		}
		field := b[:n]
		b = b[n:]
		switch {
		case drop[num]:
			dropped++
		case descend != 0 && num == descend && typ == protowire.BytesType && inner != nil:
			_, _, tn := protowire.ConsumeTag(field)
			val, vn := protowire.ConsumeBytes(field[tn:])
			if vn < 0 {
				out = append(out, field...)
				continue
			}
			nv, d, _ := c17FilterFields(val, inner, 0, nil)
			if d > 0 {
				innerDropped++
			}
			out = protowire.AppendTag(out, num, protowire.BytesType)
			out = protowire.AppendBytes(out, nv)
		default:
			out = append(out, field...)
		}
	}
	return out, dropped, innerDropped
}

var c17TopDrop = map[protowire.Number]bool{c17SrcNum: true, c17SrcRepNum: true}
var c17InnerDrop = map[protowire.Number]bool{2: true, 4: true}

// c17StripSource removes, independently of buf and of protoplugin, every planted option with source
// retention from the options messages of a descriptor (custom options are unknown fields there:
// the descriptor was decoded without a resolver). With nested=true the source-retention members of
// the message-typed option are removed as well. Options messages left empty are cleared.
func c17StripSource(m protoreflect.Message, nested bool, path []int32, st *c17StripStats) {
	c17StripSourceRec(m, nested, false, path, st)
}

func c17StripSourceRec(m protoreflect.Message, nested, insideOptions bool, path []int32, st *c17StripStats) {
	isOptions := c17OptionsMessages[m.Descriptor().FullName()]
	if isOptions {
		var inner map[protowire.Number]bool
		if nested {
			inner = c17InnerDrop
		}
		out, d, nd := c17FilterFields(m.GetUnknown(), c17TopDrop, c17MetaNum, inner)
		if d+nd > 0 {
			m.SetUnknown(out)
			st.top += d
			st.nested += nd
			st.paths = append(st.paths, append([]int32{}, path...))
		}
	}
	// options with source retention that descriptor.proto itself declares (e.g. the declarations
	// of an extension range): the retention is read from protobuf-go's descriptor of descriptor.proto
	if isOptions || insideOptions && nested {
		var clear []protoreflect.FieldDescriptor
		m.Range(func(fd protoreflect.FieldDescriptor, _ protoreflect.Value) bool {
			if fo, ok := fd.Options().(*descriptorpb.FieldOptions); ok && fo.GetRetention() == descriptorpb.FieldOptions_RETENTION_SOURCE {
				clear = append(clear, fd)
			}
			return true
		})
		for _, fd := range clear {
			m.Clear(fd)
			if isOptions {
				st.top++
			} else {
				st.nested++
			}
		}
		if len(clear) > 0 {
			st.paths = append(st.paths, append([]int32{}, path...))
		}
	}
	type child struct {
		fd protoreflect.FieldDescriptor
		v  protoreflect.Value
	}
	var kids []child
	m.Range(func(fd protoreflect.FieldDescriptor, v protoreflect.Value) bool {
		if fd.Message() != nil && !fd.IsMap() {
			kids = append(kids, child{fd, v})
		}
		return true
	})
	for _, k := range kids {
		if k.fd.IsList() {
			l := k.v.List()
			for i := 0; i < l.Len(); i++ {
				c17StripSourceRec(l.Get(i).Message(), nested, isOptions || insideOptions, append(append([]int32{}, path...), int32(k.fd.Number()), int32(i)), st)
			}
			continue
		}
		c17StripSourceRec(k.v.Message(), nested, isOptions || insideOptions, append(append([]int32{}, path...), int32(k.fd.Number())), st)
	}
}

// c17DropEmptyOptions clears options messages that hold nothing (absent and empty are the same
// to every consumer; implementations differ in which of the two they produce).
func c17DropEmptyOptions(m protoreflect.Message) {
	type child struct {
		fd protoreflect.FieldDescriptor
		v  protoreflect.Value
	}
	var kids []child
	m.Range(func(fd protoreflect.FieldDescriptor, v protoreflect.Value) bool {
		if fd.Message() != nil && !fd.IsMap() {
			kids = append(kids, child{fd, v})
		}
		return true
	})
	for _, k := range kids {
		if k.fd.IsList() {
			l := k.v.List()
			for i := 0; i < l.Len(); i++ {
				c17DropEmptyOptions(l.Get(i).Message())
			}
			continue
		}
		sub := k.v.Message()
		c17DropEmptyOptions(sub)
		if c17OptionsMessages[sub.Descriptor().FullName()] && proto.Size(sub.Interface()) == 0 {
			m.Clear(k.fd)
		}
	}
}

func c17NoSI(fd *descriptorpb.FileDescriptorProto) []byte {
	c := proto.Clone(fd).(*descriptorpb.FileDescriptorProto)
	c.SourceCodeInfo = nil
	c17DropEmptyOptions(c.ProtoReflect())
	b, _ := proto.MarshalOptions{Deterministic: true}.Marshal(c)
	return b
}

func c17HasPrefix32(p, prefix []int32) bool {
	if len(p) < len(prefix) {
		return false
	}
	for i := range prefix {
		if p[i] != prefix[i] {
			return false
		}
	}
	return true
}

type c17ReqTally struct {
	requests, generated, generatedImports, generatedWKT, withheldImports, withheldWKT, ambiguous int
	closureFiles, orderEdges                                                                     int
	strippedTop, strippedNested, sourceKept, importKept, runtimeViews, untouchedViews            int
	siRemoved                                                                                    int
	sharedImports, crossDirTargets, multiRequest                                                 int
}

func (t *c17ReqTally) flush(c *core.C) {
	c.Count("requests_checked", t.requests)
	c.Count("files_generated_once", t.generated)
	c.Count("imports_generated_once", t.generatedImports)
	c.Count("wkt_generated_once", t.generatedWKT)
	c.Count("imports_withheld", t.withheldImports)
	c.Count("wkt_withheld", t.withheldWKT)
	c.Count("workspace_wkt_copy_imports", t.ambiguous)
	c.Count("closure_files_checked", t.closureFiles)
	c.Count("order_edges_checked", t.orderEdges)
	c.Count("source_options_stripped_from_runtime_view", t.strippedTop)
	c.Count("nested_source_members_stripped", t.strippedNested)
	c.Count("source_options_kept_in_source_view", t.sourceKept)
	c.Count("source_options_kept_in_ungenerated_imports", t.importKept)
	c.Count("runtime_views_checked", t.runtimeViews)
	c.Count("runtime_views_without_source_options", t.untouchedViews)
	c.Count("source_info_locations_removed", t.siRemoved)
	c.Count("imports_shared_between_requests", t.sharedImports)
	c.Count("targets_imported_by_other_requests", t.crossDirTargets)
	c.Count("multi_request_invocations", t.multiRequest)
}

// c17CheckRequests judges everything one configured plugin received.
// complete=false: the run failed, buf cancelled invocations, so absence proves nothing.
func c17CheckRequests(c *core.C, w *c17World, run *c17Run, p *c17Plugin, xs []c17Exchange, T map[string]bool, complete bool, witness func(string) string, t *c17ReqTally) {
	strategy := p.Strategy
	if strategy == "" {
		strategy = "directory"
	}
	cfgKey := fmt.Sprintf("strategy=%s imports=%v wkt=%v", strategy, p.Imports, p.WKT)
	filtered := p.filtered() || len(run.TopTypes) > 0
	if filtered {
		cfgKey += " types"
	}
	closure := model.Closure(T, w.imports)
	// expectation per path: 1 = exactly once, 0 = never, -1 = either (workspace copy of a well-known type reached as an import)
	expect := map[string]int{}
	kindOf := map[string]string{}
	for f := range closure {
		switch {
		case T[f]:
			expect[f], kindOf[f] = 1, "target"
		case c17WKTPath(f) && w.isWorkspace(f):
			expect[f], kindOf[f] = -1, "workspace-wkt-copy"
			if !p.Imports {
				expect[f] = 0
			}
		case c17WKTPath(f):
			expect[f], kindOf[f] = 0, "wkt"
			if p.Imports && p.WKT {
				expect[f] = 1
			}
		default:
			expect[f], kindOf[f] = 0, "import"
			if p.Imports {
				expect[f] = 1
			}
		}
	}
	if len(xs) == 0 {
		c.Violation("request-missing", cfgKey, witness(fmt.Sprintf("plugin %s received no request although %d files are targeted", p.ID, len(T))), nil)
		return
	}
	t.requests += len(xs)
	if len(xs) > 1 {
		t.multiRequest++
	}
	c.Distinct("requests_per_plugin", fmt.Sprintf("%s:%d", strategy, min(len(xs), 6)))
	count := map[string]int{}
	inRequests := map[string]int{} // number of requests whose proto_file holds the path
	for _, x := range xs {
		for _, f := range x.Req.GetFileToGenerate() {
			count[f]++
		}
		for _, pf := range x.Req.GetProtoFile() {
			inRequests[pf.GetName()]++
		}
	}
	for f, n := range count {
		k := kindOf[f]
		if k == "" {
			k = "outside-closure"
		}
		if n > 1 {
			c.Violation("generated-twice", cfgKey+" kind="+k, witness(fmt.Sprintf("plugin %s: %s (%s) is a file to generate in %d requests", p.ID, f, k, n)), nil)
		}
		e, known := expect[f]
		if !known || e == 0 {
			c.Violation("generated-unrequested", cfgKey+" kind="+k, witness(fmt.Sprintf("plugin %s: %s (%s) is generated although it is not targeted and include_imports=%v include_wkt=%v", p.ID, f, k, p.Imports, p.WKT)), nil)
		}
	}
	for f, e := range expect {
		k := kindOf[f]
		switch {
		case e == 1 && count[f] == 0:
			if filtered || !complete {
				continue // the type filter decides which files survive (C12's subject)
			}
			c.Violation("not-generated", cfgKey+" kind="+k, witness(fmt.Sprintf("plugin %s: %s (%s) is a file to generate in no request (requests: %d)", p.ID, f, k, len(xs))), nil)
		case e == 1 && count[f] == 1:
			switch k {
			case "target":
				t.generated++
				if inRequests[f] > 1 {
					t.crossDirTargets++
				}
			case "import":
				t.generatedImports++
				if inRequests[f] > 1 {
					t.sharedImports++
				}
			case "wkt":
				t.generatedWKT++
				if inRequests[f] > 1 {
					t.sharedImports++
				}
			}
		case e == 0 && count[f] == 0:
			if k == "wkt" {
				t.withheldWKT++
			} else {
				t.withheldImports++
			}
		case e == -1:
			t.ambiguous++
		}
	}
	// a type named by an include filter lives in a file that must still be generated
	if filtered && complete {
		for _, ty := range append(append([]string{}, p.Types...), run.TopTypes...) {
			if f := w.typeFile[ty]; f != "" && expect[f] == 1 && count[f] == 0 {
				c.Violation("not-generated", cfgKey+" kind=file-of-included-type", witness(fmt.Sprintf("plugin %s: %s declares the included type %s but is generated in no request", p.ID, f, ty)), nil)
			}
		}
	}
	for _, x := range xs {
		c17CheckOneRequest(c, w, p, x, expect, filtered, cfgKey, witness, t)
	}
}

func c17CheckOneRequest(c *core.C, w *c17World, p *c17Plugin, x c17Exchange, expect map[string]int, filtered bool, cfgKey string, witness func(string) string, t *c17ReqTally) {
	req := x.Req
	pos := map[string]int{}
	for i, pf := range req.GetProtoFile() {
		if _, dup := pos[pf.GetName()]; dup {
			c.Violation("proto-file-duplicate", cfgKey, witness(fmt.Sprintf("plugin %s: proto_file lists %s twice", p.ID, pf.GetName())), nil)
		}
		pos[pf.GetName()] = i
	}
	ftg := map[string]bool{}
	for _, f := range req.GetFileToGenerate() {
		ftg[f] = true
		if _, ok := pos[f]; !ok {
			c.Violation("closure-missing", cfgKey+" what=file-to-generate", witness(fmt.Sprintf("plugin %s: file to generate %s is not in proto_file", p.ID, f)), nil)
		}
	}
	// closure per the import model
	need := model.Closure(ftg, w.imports)
	for f := range need {
		t.closureFiles++
		if _, ok := pos[f]; !ok && !filtered {
			c.Violation("closure-missing", cfgKey+" what=transitive-dependency", witness(fmt.Sprintf("plugin %s: request generating %v lacks the transitive dependency %s", p.ID, req.GetFileToGenerate(), f)), nil)
		}
	}
	// closure and order per the descriptors actually sent
	for i, pf := range req.GetProtoFile() {
		for _, d := range pf.GetDependency() {
			t.orderEdges++
			j, ok := pos[d]
			switch {
			case !ok:
				c.Violation("closure-missing", cfgKey+" what=declared-dependency", witness(fmt.Sprintf("plugin %s: %s imports %s which is not in the request", p.ID, pf.GetName(), d)), nil)
			case j >= i:
				c.Violation("order", cfgKey, witness(fmt.Sprintf("plugin %s: %s (index %d) precedes its dependency %s (index %d); proto_file order: %v", p.ID, pf.GetName(), i, d, j, c17Names(req.GetProtoFile()))), nil)
			}
		}
	}
	// retention
	src := map[string]*descriptorpb.FileDescriptorProto{}
	for _, sf := range req.GetSourceFileDescriptors() {
		src[sf.GetName()] = sf
	}
	for f := range src {
		if !ftg[f] {
			c.Violation("retention-source-view", cfgKey+" what=extra", witness(fmt.Sprintf("plugin %s: source_file_descriptors holds %s which is not a file to generate", p.ID, f)), nil)
		}
	}
	for _, pf := range req.GetProtoFile() {
		name := pf.GetName()
		refB, haveRef := w.refBytes[name]
		if !ftg[name] {
			// not generated here: the descriptor must be the compiler's, source-retention options included
			if filtered || !haveRef {
				continue
			}
			got := c17Canonical(pf)
			if !bytes.Equal(got, refB) {
				cl := "import-descriptor-differs"
				stripped := img.Canon(w.rc.Files[name])
				st := &c17StripStats{}
				c17StripSource(stripped.ProtoReflect(), true, nil, st)
				if st.top+st.nested > 0 && bytes.Equal(c17NoSI(stripped), c17NoSI(img.Canon(pf))) {
					cl = "retention-import-stripped"
				}
				c.Violation(cl, cfgKey, witness(fmt.Sprintf("plugin %s: %s is not generated by this request, yet its proto_file entry differs from the compiler's descriptor: %s", p.ID, name, img.DiffFD(w.rc.Files[name], pf))), nil)
			} else {
				st := &c17StripStats{}
				c17StripSource(img.Canon(pf).ProtoReflect(), true, nil, st)
				t.importKept += st.top + st.nested
			}
			continue
		}
		sv := src[name]
		if sv == nil {
			c.Violation("retention-source-view", cfgKey+" what=absent", witness(fmt.Sprintf("plugin %s: file to generate %s has no entry in source_file_descriptors", p.ID, name)), nil)
			continue
		}
		if haveRef && !filtered && !bytes.Equal(c17Canonical(sv), refB) {
			c.Violation("retention-source-view", cfgKey+" what=differs", witness(fmt.Sprintf("plugin %s: source_file_descriptors entry of %s differs from the compiler's descriptor: %s", p.ID, name, img.DiffFD(w.rc.Files[name], sv))), nil)
			continue
		}
		// runtime view = source view minus the options with source retention, nothing else
		t.runtimeViews++
		svC := img.Canon(sv)
		rtC := img.Canon(pf)
		full := proto.Clone(svC).(*descriptorpb.FileDescriptorProto)
		stFull := &c17StripStats{}
		c17StripSource(full.ProtoReflect(), true, nil, stFull)
		rtB := c17NoSI(rtC)
		if stFull.top+stFull.nested == 0 {
			t.untouchedViews++
			if !bytes.Equal(c17Canonical(pf), c17Canonical(sv)) {
				c.Violation("retention-runtime-view", cfgKey+" what=changed-without-source-options", witness(fmt.Sprintf("plugin %s: %s has no option with source retention, yet its proto_file entry differs from its source_file_descriptors entry: %s", p.ID, name, img.DiffFD(sv, pf))), nil)
			}
			continue
		}
		t.sourceKept += stFull.top + stFull.nested
		if bytes.Equal(rtB, c17NoSI(full)) {
			t.strippedTop += stFull.top
			t.strippedNested += stFull.nested
		} else {
			shallow := proto.Clone(svC).(*descriptorpb.FileDescriptorProto)
			stSh := &c17StripStats{}
			c17StripSource(shallow.ProtoReflect(), false, nil, stSh)
			if bytes.Equal(rtB, c17NoSI(shallow)) {
				t.strippedTop += stSh.top
				c.Violation("retention-nested-member", cfgKey, witness(fmt.Sprintf("plugin %s: proto_file entry of generated file %s still carries %d source-retention member(s) (fields src_note / src_tags declared [retention = RETENTION_SOURCE]) inside message-typed options; options that are themselves source-retention were removed", p.ID, name, stFull.nested)), nil)
			} else {
				what := "differs"
				if bytes.Equal(rtB, c17NoSI(svC)) {
					what = "not-stripped"
				}
				c.Violation("retention-runtime-view", cfgKey+" what="+what, witness(fmt.Sprintf("plugin %s: proto_file entry of generated file %s is not its source view minus the %d option(s) with source retention: %s", p.ID, name, stFull.top, img.DiffFD(full, rtC))), nil)
			}
		}
		// source info of the runtime view: a subsequence of the source view's locations; only
		// locations beneath an options message that lost something may be gone
		if svC.SourceCodeInfo != nil {
			before := svC.SourceCodeInfo.Location
			var after []*descriptorpb.SourceCodeInfo_Location
			if rtC.SourceCodeInfo != nil {
				after = rtC.SourceCodeInfo.Location
			}
			bi := 0
			for _, l := range after {
				found := false
				for bi < len(before) {
					same := proto.Equal(before[bi], l)
					if !same {
						if ok := c17RemovalJustified(before[bi].Path, stFull.paths); !ok {
							c.Violation("retention-source-info", cfgKey+" what=removed", witness(fmt.Sprintf("plugin %s: %s: location %v of the source view is missing from the runtime view although no option with source retention lies there", p.ID, name, before[bi].Path)), nil)
						}
						t.siRemoved++
					}
					bi++
					if same {
						found = true
						break
					}
				}
				if !found {
					c.Violation("retention-source-info", cfgKey+" what=altered", witness(fmt.Sprintf("plugin %s: %s: runtime-view location %v is not a location of the source view (or is out of order)", p.ID, name, l.Path)), nil)
					break
				}
			}
			for ; bi < len(before); bi++ {
				if ok := c17RemovalJustified(before[bi].Path, stFull.paths); !ok {
					c.Violation("retention-source-info", cfgKey+" what=removed", witness(fmt.Sprintf("plugin %s: %s: location %v of the source view is missing from the runtime view although no option with source retention lies there", p.ID, name, before[bi].Path)), nil)
				}
				t.siRemoved++
			}
		}
	}
}

func c17RemovalJustified(p []int32, stripped [][]int32) bool {
	for _, sp := range stripped {
		if c17HasPrefix32(p, sp) {
			return true
		}
	}
	return false
}

func c17Names(fds []*descriptorpb.FileDescriptorProto) []string {
	var out []string
	for _, f := range fds {
		out = append(out, f.GetName())
	}
	return out
}

func c17SortedCopy(s []string) []string {
	out := append([]string{}, s...)
	sort.Strings(out)
	return out
}
