package checks

import (
	"path"
	"regexp"
	"sort"
	"strings"
)

// C18 reference model. Nothing in this file imports buf code: it restates, from the documented
// behaviour of managed mode (the `buf generate` help text and the managed-mode tables), which
// (file, option) pairs a configuration governs, which it exempts, and which value
// override-before-default precedence dictates.

// The 12 real file options managed mode governs, with their FileOptions field numbers.
var c18FileOptions = []struct {
	Name string
	Num  int32
	Kind string // string | bool | optimize
}{
	{"java_package", 1, "string"},
	{"java_outer_classname", 8, "string"},
	{"optimize_for", 9, "optimize"},
	{"java_multiple_files", 10, "bool"},
	{"go_package", 11, "string"},
	{"java_string_check_utf8", 27, "bool"},
	{"cc_enable_arenas", 31, "bool"},
	{"objc_class_prefix", 36, "string"},
	{"csharp_namespace", 37, "string"},
	{"php_namespace", 41, "string"},
	{"php_metadata_namespace", 44, "string"},
	{"ruby_package", 45, "string"},
}

// pseudo options: configuration-only knobs feeding the formula of a real option.
var c18PrefixOf = map[string]string{"java_package": "java_package_prefix", "go_package": "go_package_prefix", "csharp_namespace": "csharp_namespace_prefix"}
var c18SuffixOf = map[string]string{"java_package": "java_package_suffix", "ruby_package": "ruby_package_suffix", "php_metadata_namespace": "php_metadata_namespace_suffix"}

func c18IsPseudo(opt string) bool {
	return strings.HasSuffix(opt, "_prefix") && opt != "objc_class_prefix" || strings.HasSuffix(opt, "_suffix")
}

// c18Rule is one disable or override rule in v2 vocabulary.
type c18Rule struct {
	Path        string `json:"path,omitempty"`
	Module      string `json:"module,omitempty"`
	Field       string `json:"field,omitempty"`
	FileOption  string `json:"file_option,omitempty"` // lower-case canonical name
	FieldOption string `json:"field_option,omitempty"`
	Value       any    `json:"value,omitempty"` // string | bool (overrides only)
}

type c18Config struct {
	Enabled   bool      `json:"enabled"`
	Disables  []c18Rule `json:"disable,omitempty"`
	Overrides []c18Rule `json:"override,omitempty"`
	// Ambiguous maps "module\x00option" to the file paths whose v1 semantics the documentation
	// leaves open (a per-file override reaching into an `except` module); only the frame
	// condition applies there.
	Ambiguous map[string][]string `json:"-"`
}

// c18FileFacts is what the model needs to know about one image file.
type c18FileFacts struct {
	Path    string
	Module  string // "" when the file's module is unnamed
	Package string
	WKT     bool
}

func c18PathMatch(rulePath, filePath string) bool {
	if rulePath == "" || rulePath == "." {
		return true
	}
	return filePath == rulePath || strings.HasPrefix(filePath, rulePath+"/")
}

func (r c18Rule) matchesFile(f c18FileFacts) bool {
	if !c18PathMatch(r.Path, f.Path) {
		return false
	}
	if r.Module != "" && r.Module != f.Module {
		return false
	}
	return true
}

// fileOptionExempt: a disable rule exempts (file, option) when it matches the file and names
// either no option at all or exactly this option. A rule that names a field or a field option
// speaks about fields, not about file options.
func (cfg *c18Config) fileOptionExempt(f c18FileFacts, opt string) bool {
	for _, d := range cfg.Disables {
		if d.Field != "" || d.FieldOption != "" {
			continue
		}
		if d.FileOption != "" && d.FileOption != opt {
			continue
		}
		if d.matchesFile(f) {
			return true
		}
	}
	return false
}

// jstypeExempt: a disable rule exempts jstype of a field when it matches the file, does not
// name a file option, and names either no field or this field.
func (cfg *c18Config) jstypeExempt(f c18FileFacts, field string) bool {
	for _, d := range cfg.Disables {
		if d.FileOption != "" {
			continue
		}
		if d.Field != "" && d.Field != field {
			continue
		}
		if d.matchesFile(f) {
			return true
		}
	}
	return false
}

// c18Expect is the model's verdict for one governed option of one file / field.
type c18Expect struct {
	Exempt bool
	// FrameOnly: the documentation does not determine the value; only the frame condition applies.
	FrameOnly bool
	// Unchanged: no rule and no default produces a value; the option must stay as it was.
	Unchanged bool
	// OrUnchanged: besides Values, leaving the option as it was is acceptable too.
	OrUnchanged bool
	// Values: acceptable effective values (more than one where the statement leaves a choice).
	Values []string
	// Basis says which clause produced the verdict: value-override, prefix-suffix, default, none.
	Basis string
}

func c18ValString(v any) string {
	switch t := v.(type) {
	case string:
		return t
	case bool:
		if t {
			return "true"
		}
		return "false"
	}
	return ""
}

func uniqStrings(in []string) []string {
	seen := map[string]bool{}
	var out []string
	for _, s := range in {
		if !seen[s] {
			seen[s] = true
			out = append(out, s)
		}
	}
	sort.Strings(out)
	return out
}

// expectFileOption computes the verdict for a real file option of a non-WKT file.
func (cfg *c18Config) expectFileOption(f c18FileFacts, opt, kind string) c18Expect {
	if f.WKT || cfg.fileOptionExempt(f, opt) {
		return c18Expect{Exempt: true, Basis: "exempt"}
	}
	for _, p := range cfg.Ambiguous[f.Module+"\x00"+opt] {
		if c18PathMatch(p, f.Path) {
			return c18Expect{FrameOnly: true, Basis: "ambiguous-v1"}
		}
	}
	if kind != "string" {
		var last *c18Rule
		for i := range cfg.Overrides {
			o := &cfg.Overrides[i]
			if o.FileOption == opt && o.matchesFile(f) {
				last = o
			}
		}
		if last != nil {
			return c18Expect{Values: []string{c18ValString(last.Value)}, Basis: "value-override"}
		}
		switch opt {
		case "java_multiple_files":
			return c18Expect{Values: []string{"true"}, Basis: "default"}
		case "cc_enable_arenas":
			return c18Expect{Values: []string{"true"}, OrUnchanged: true, Basis: "default"}
		case "java_string_check_utf8":
			return c18Expect{Values: []string{"false"}, OrUnchanged: true, Basis: "default"}
		default:
			return c18Expect{Values: []string{"SPEED"}, OrUnchanged: true, Basis: "default"}
		}
	}
	pre, suf := c18PrefixOf[opt], c18SuffixOf[opt]
	preDisabled := pre != "" && cfg.fileOptionExempt(f, pre)
	sufDisabled := suf != "" && cfg.fileOptionExempt(f, suf)
	// Two readings of "the last rule takes effect" across the value / prefix / suffix knobs of one
	// option: a value override forgets earlier prefix/suffix rules (reset) or it does not.
	var results []string
	mode := ""
	for _, reset := range []bool{true, false} {
		value := ""
		prefix, suffix := "", ""
		defPrefix, defSuffix := true, true
		sawPS := false
		for _, o := range cfg.Overrides {
			if !o.matchesFile(f) {
				continue
			}
			switch o.FileOption {
			case opt:
				value = c18ValString(o.Value)
				if reset {
					prefix, suffix = "", ""
					defPrefix, defSuffix = false, false
				}
			case pre:
				if pre != "" && !preDisabled {
					prefix, defPrefix, value, sawPS = c18ValString(o.Value), false, "", true
				}
			case suf:
				if suf != "" && !sufDisabled {
					suffix, defSuffix, value, sawPS = c18ValString(o.Value), false, "", true
				}
			}
		}
		if value != "" {
			mode = "value-override"
			results = append(results, value)
			continue
		}
		if sawPS {
			mode = "prefix-suffix"
		} else if mode == "" {
			mode = "default"
		}
		if defPrefix && opt == "java_package" {
			prefix = "com"
		}
		if defSuffix && opt == "php_metadata_namespace" {
			suffix = "GPBMetadata"
		}
		results = append(results, c18Formula(f, opt, prefix, suffix))
	}
	if mode != "value-override" && (preDisabled || sufDisabled) {
		// "do not modify java_package_prefix" has no documented meaning for the real option
		return c18Expect{FrameOnly: true, Basis: "pseudo-disabled"}
	}
	results = uniqStrings(results)
	var vals []string
	unchanged := false
	for _, r := range results {
		if r == "" {
			unchanged = true
		} else {
			vals = append(vals, r)
		}
	}
	if len(vals) == 0 {
		return c18Expect{Unchanged: true, Basis: mode}
	}
	return c18Expect{Values: vals, OrUnchanged: unchanged, Basis: mode}
}

// expectJSType computes the verdict for the jstype option of a field whose type permits jstype.
func (cfg *c18Config) expectJSType(f c18FileFacts, field string) c18Expect {
	if f.WKT || cfg.jstypeExempt(f, field) {
		return c18Expect{Exempt: true, Basis: "exempt"}
	}
	var last *c18Rule
	for i := range cfg.Overrides {
		o := &cfg.Overrides[i]
		if o.FieldOption != "jstype" || !o.matchesFile(f) {
			continue
		}
		if o.Field != "" && o.Field != field {
			continue
		}
		last = o
	}
	if last == nil {
		return c18Expect{Unchanged: true, Basis: "none"}
	}
	return c18Expect{Values: []string{c18ValString(last.Value)}, Basis: "value-override"}
}

// ---- documented default formulas ---------------------------------------------------------

// c18Pascal: PascalCase of a lower_snake identifier (the only shape the workload generates).
func c18Pascal(s string) string {
	var sb strings.Builder
	up := true
	for _, ch := range s {
		if ch == '_' || ch == '-' || ch == '.' {
			up = true
			continue
		}
		if up && ch >= 'a' && ch <= 'z' {
			ch = ch - 'a' + 'A'
		}
		up = false
		sb.WriteRune(ch)
	}
	return sb.String()
}

var c18VersionRe = regexp.MustCompile(`^v[1-9][0-9]*((p[1-9][0-9]*)?(alpha|beta)([1-9][0-9]*)?|test[a-z0-9]*)?$`)

// c18Versioned: the package has at least two components and the last one is a version.
func c18Versioned(pkg string) bool {
	parts := strings.Split(pkg, ".")
	return len(parts) >= 2 && c18VersionRe.MatchString(parts[len(parts)-1])
}

var c18PHPReserved = map[string]bool{}

func init() {
	for _, w := range strings.Fields(`directory exception errorexception closure generator arithmeticerror assertionerror divisionbyzeroerror error throwable parseerror typeerror
		abstract and array as break callable case catch class clone const continue declare default die do echo else elseif empty enddeclare endfor endforeach endif endswitch
		endwhile eval exit extends final finally fn for foreach function global goto if implements include include_once instanceof insteadof interface isset list match namespace
		new or print private protected public require require_once return static switch throw trait try unset use var while xor yield int float bool string true false null void iterable`) {
		c18PHPReserved[w] = true
	}
}

func c18MapParts(pkg string, f func(string) string) []string {
	var out []string
	for _, p := range strings.Split(pkg, ".") {
		out = append(out, f(p))
	}
	return out
}

func c18JoinNonEmpty(sep string, parts ...string) string {
	var out []string
	for _, p := range parts {
		if p != "" {
			out = append(out, p)
		}
	}
	return strings.Join(out, sep)
}

// c18Formula returns the documented default / prefix / suffix value of a string option, or ""
// when no value can be derived (no package; go_package without a prefix).
func c18Formula(f c18FileFacts, opt, prefix, suffix string) string {
	pkg := f.Package
	switch opt {
	case "java_outer_classname":
		return c18Pascal(strings.TrimSuffix(path.Base(f.Path), ".proto")) + "Proto"
	case "go_package":
		if prefix == "" {
			return ""
		}
		v := path.Join(prefix, path.Dir(f.Path))
		if c18Versioned(pkg) {
			parts := strings.Split(pkg, ".")
			v += ";" + parts[len(parts)-2] + parts[len(parts)-1]
		}
		return v
	}
	if pkg == "" {
		return ""
	}
	switch opt {
	case "java_package":
		return c18JoinNonEmpty(".", prefix, pkg, suffix)
	case "csharp_namespace":
		return c18JoinNonEmpty(".", prefix, strings.Join(c18MapParts(pkg, c18Pascal), "."))
	case "ruby_package":
		return c18JoinNonEmpty("::", strings.Join(c18MapParts(pkg, c18Pascal), "::"), suffix)
	case "php_namespace", "php_metadata_namespace":
		ns := strings.Join(c18MapParts(pkg, func(p string) string {
			if c18PHPReserved[strings.ToLower(p)] {
				return c18Pascal(p) + "_"
			}
			return c18Pascal(p)
		}), `\`)
		if opt == "php_namespace" {
			return ns
		}
		return c18JoinNonEmpty(`\`, ns, suffix)
	case "objc_class_prefix":
		parts := strings.Split(pkg, ".")
		if c18Versioned(pkg) {
			parts = parts[:len(parts)-1]
		}
		out := ""
		for _, p := range parts {
			out += strings.ToUpper(p[:1])
		}
		for len(out) < 3 {
			out += "X"
		}
		if out == "GPB" {
			out = "GPX"
		}
		return out
	}
	return ""
}

// ---- v1 configuration ---------------------------------------------------------------------

// c18V1Block is one per-option block of a v1 managed section.
type c18V1Block struct {
	Set      bool
	Plain    bool // written as a bare scalar (java_package_prefix: com)
	Default  string
	Except   []string
	Override map[string]string // module -> value
}

type c18V1Config struct {
	Enabled             bool
	CcEnableArenas      *bool
	JavaMultipleFiles   *bool
	JavaStringCheckUtf8 *bool
	JavaPackagePrefix   c18V1Block
	CsharpNamespace     c18V1Block
	OptimizeFor         c18V1Block
	GoPackagePrefix     c18V1Block
	ObjcClassPrefix     c18V1Block
	RubyPackage         c18V1Block
	// PerFile: OPTION (upper case as documented) -> file path -> value literal
	PerFile map[string]map[string]string
}

// toRules states the v1 semantics in rule vocabulary: a block's default applies to every
// module, a module override replaces it for that module, `except` leaves the real option of
// that module alone, and a per-file override beats all of them for its file.
func (v *c18V1Config) toRules() *c18Config {
	cfg := &c18Config{Enabled: v.Enabled, Ambiguous: map[string][]string{}}
	addBool := func(opt string, b *bool) {
		if b != nil {
			cfg.Overrides = append(cfg.Overrides, c18Rule{FileOption: opt, Value: *b})
		}
	}
	addBool("cc_enable_arenas", v.CcEnableArenas)
	addBool("java_multiple_files", v.JavaMultipleFiles)
	addBool("java_string_check_utf8", v.JavaStringCheckUtf8)
	excepted := map[string]map[string]bool{}
	block := func(b c18V1Block, realOpt, knob string) {
		if !b.Set {
			return
		}
		if b.Default != "" {
			cfg.Overrides = append(cfg.Overrides, c18Rule{FileOption: knob, Value: b.Default})
		}
		for _, m := range b.Except {
			cfg.Disables = append(cfg.Disables, c18Rule{Module: m, FileOption: realOpt})
			if excepted[realOpt] == nil {
				excepted[realOpt] = map[string]bool{}
			}
			excepted[realOpt][m] = true
		}
		var mods []string
		for m := range b.Override {
			mods = append(mods, m)
		}
		sort.Strings(mods)
		for _, m := range mods {
			cfg.Overrides = append(cfg.Overrides, c18Rule{Module: m, FileOption: knob, Value: b.Override[m]})
		}
	}
	block(v.JavaPackagePrefix, "java_package", "java_package_prefix")
	block(v.CsharpNamespace, "csharp_namespace", "csharp_namespace")
	block(v.OptimizeFor, "optimize_for", "optimize_for")
	block(v.GoPackagePrefix, "go_package", "go_package_prefix")
	block(v.ObjcClassPrefix, "objc_class_prefix", "objc_class_prefix")
	block(v.RubyPackage, "ruby_package", "ruby_package")
	var opts []string
	for o := range v.PerFile {
		opts = append(opts, o)
	}
	sort.Strings(opts)
	for _, o := range opts {
		lower := strings.ToLower(o)
		var paths []string
		for p := range v.PerFile[o] {
			paths = append(paths, p)
		}
		sort.Strings(paths)
		for _, p := range paths {
			var val any = v.PerFile[o][p]
			switch lower {
			case "cc_enable_arenas", "java_multiple_files", "java_string_check_utf8":
				val = v.PerFile[o][p] == "true"
			}
			cfg.Overrides = append(cfg.Overrides, c18Rule{Path: p, FileOption: lower, Value: val})
		}
		for m := range excepted[lower] {
			// whether a per-file override reaches into an excepted module is not documented
			cfg.Ambiguous[m+"\x00"+lower] = paths
		}
	}
	return cfg
}
