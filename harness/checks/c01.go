package checks

import (
	"bytes"
	"fmt"
	"os"
	"path"
	"path/filepath"
	"sort"
	"strings"

	"github.com/bufbuild/verifharness/core"
	"github.com/bufbuild/verifharness/gen"
	"github.com/bufbuild/verifharness/img"
	"github.com/bufbuild/verifharness/model"
	"github.com/bufbuild/verifharness/ref"
	"github.com/bufbuild/verifharness/run"
)

// C01 — an image is the exact, closed, ordered compilation of the targeted files.
//
// Observed at the CLI boundary: `buf build <input> [--path…] [--exclude-path…] -o -#format=binpb`
// (in-process). Oracle: target model + import-closure model computed from the generator's own
// import graph; per-file descriptor equality (incl. source info) with a direct protocompile run
// over the same texts; unused-import / syntax-unspecified / module-name markers; and, for one
// planted compile error per case, exit status 100, empty stdout and a first diagnostic at the
// compiler's position in the path form the user gave.

// wsView is what several image checks need to know about a generated workspace.
type wsView struct {
	S       *gen.Schema
	R       *gen.Rendered
	Files   []model.WSFile
	Imports map[string][]string // import path -> imports (incl. WKT)
	Sources map[string]string   // import path -> text
	ModOf   map[string]*gen.Module
}

func newWSView(s *gen.Schema) *wsView {
	v := &wsView{S: s, R: s.Render(), Imports: map[string][]string{}, Sources: map[string]string{}, ModOf: map[string]*gen.Module{}}
	for _, m := range s.Modules {
		for _, f := range m.Files {
			var imps []string
			for _, im := range s.ImportsOf(f) {
				imps = append(imps, im.Path)
			}
			v.Imports[f.Path] = imps
			v.Files = append(v.Files, model.WSFile{ModuleDir: m.Dir, Path: f.Path, Imports: imps})
			v.Sources[f.Path] = v.R.Files[m.Dir][f.Path]
			v.ModOf[f.Path] = m
		}
	}
	return v
}

// c01Decorate adds the features C01 cares about to a generated schema: unused imports, public
// imports, files without a syntax statement.
func c01Decorate(c *core.C, s *gen.Schema) (feat []string) {
	files := s.AllFiles()
	for i, f := range files {
		if i > 0 && c.Rand.IntN(5) == 0 {
			// unused import of an earlier file (keeps the import graph acyclic)
			tgt := files[c.Rand.IntN(i)]
			if tgt.Path != f.Path && !s.UsedImportPaths(f)[tgt.Path] {
				f.ExtraImports = append(f.ExtraImports, gen.Import{Path: tgt.Path})
				feat = append(feat, "unused-import")
			}
		}
		if c.Rand.IntN(8) == 0 {
			f.ExtraImports = append(f.ExtraImports, gen.Import{Path: "google/protobuf/empty.proto"})
			feat = append(feat, "unused-wkt-import")
		}
		if c.Rand.IntN(5) == 0 {
			used := s.UsedImportPaths(f)
			for p := range used {
				f.PublicImports = append(f.PublicImports, p)
				feat = append(feat, "public-import")
				break
			}
		}
		if f.Syntax == "proto2" && len(f.Messages) > 0 && c.Rand.IntN(4) == 0 {
			// a third kind of compiler warning in the same file: proto2 fields whose default JSON
			// names collide (a warning, not an error, in proto2) — together with an unused import
			m := f.Messages[0]
			m.Fields = append(m.Fields,
				&gen.Field{Name: "dup_json_name", Number: 9001, Label: "optional", Kind: "scalar", Type: "string", Comment: "One."},
				&gen.Field{Name: "dupJsonName", Number: 9002, Label: "optional", Kind: "scalar", Type: "string", Comment: "Two."})
			feat = append(feat, "json-name-collision-warning")
			if i > 0 {
				tgt := files[c.Rand.IntN(i)]
				if tgt.Path != f.Path && !s.UsedImportPaths(f)[tgt.Path] {
					f.ExtraImports = append(f.ExtraImports, gen.Import{Path: tgt.Path})
					feat = append(feat, "unused-import")
				}
			}
		}
		if f.Syntax == "proto2" && c.Rand.IntN(4) == 0 {
			f.Syntax = ""
			feat = append(feat, "no-syntax")
		}
	}
	// a workspace-supplied copy of a well-known type takes the place of the built-in one
	if c.Rand.IntN(5) == 0 {
		// in the first module: every module that imports the type then depends on it, and only the
		// first module is guaranteed not to depend on any other (no module cycle is created)
		m := s.Modules[0]
		m.Files = append(m.Files, &gen.File{
			Path: "google/protobuf/timestamp.proto", Syntax: "proto3", Package: "google.protobuf",
			Header:  "Workspace-supplied copy of a well-known type.",
			Options: []gen.Opt{{Name: "go_package", Value: `"example.com/ws/timestamppb"`}},
			Messages: []*gen.Message{{Name: "Timestamp", Comment: "Workspace Timestamp.", Fields: []*gen.Field{
				{Name: "seconds", Number: 1, Kind: "scalar", Type: "int64", Comment: "Seconds."},
				{Name: "nanos", Number: 2, Kind: "scalar", Type: "int32", Comment: "Nanos."},
				{Name: "workspace_marker", Number: 3, Kind: "scalar", Type: "bool", Comment: "Only the workspace copy has this."}}}},
		})
		feat = append(feat, "workspace-wkt-copy")
	}
	return feat
}

func c01Selection(c *core.C, v *wsView) (input string, paths, excludes []string, kind string) {
	input = "."
	if c.Rand.IntN(3) == 0 {
		input = v.S.Modules[c.Rand.IntN(len(v.S.Modules))].Dir
	}
	// candidate --path values: files and directories strictly inside a module of the input
	var cands []string
	seen := map[string]bool{}
	for _, f := range v.Files {
		if input != "." && f.ModuleDir != input {
			continue
		}
		ws := f.WSPath()
		cands = append(cands, ws)
		for d := path.Dir(ws); d != f.ModuleDir && d != "."; d = path.Dir(d) {
			if !seen[d] {
				seen[d] = true
				cands = append(cands, d)
			}
		}
	}
	sort.Strings(cands)
	kind = "all"
	// pairs of candidates where one is a string prefix, but not a path-wise ancestor, of the other
	var sib [][2]string
	for _, a := range cands {
		for _, b := range cands {
			if a != b && strings.HasPrefix(b, a) && !model.ContainsPath(a, b) {
				sib = append(sib, [2]string{a, b})
			}
		}
	}
	if len(sib) > 0 && c.Rand.IntN(3) == 0 {
		pr := sib[c.Rand.IntN(len(sib))]
		if c.Rand.IntN(2) == 0 {
			return input, []string{pr[0], pr[1]}, nil, "prefix-siblings"
		}
		return input, []string{pr[1]}, []string{pr[0]}, "prefix-siblings-excl"
	}
	switch c.Rand.IntN(4) {
	case 1:
		kind = "paths"
		for i := 0; i < 1+c.Rand.IntN(3); i++ {
			paths = append(paths, cands[c.Rand.IntN(len(cands))])
		}
	case 2:
		kind = "excludes"
		for i := 0; i < 1+c.Rand.IntN(2); i++ {
			excludes = append(excludes, cands[c.Rand.IntN(len(cands))])
		}
	case 3:
		kind = "paths+excludes"
		paths = append(paths, cands[c.Rand.IntN(len(cands))])
		for i := 0; i < 4 && len(excludes) < 2; i++ {
			e := cands[c.Rand.IntN(len(cands))]
			inside := false
			for _, p := range paths {
				// the stated domain: no --path lies inside an --exclude-path
				if model.ContainsPath(e, p) {
					inside = true
				}
			}
			if !inside {
				excludes = append(excludes, e)
			}
		}
	}
	paths, excludes = dedup(paths), dedup(excludes)
	return input, paths, excludes, kind
}

func dedup(s []string) []string {
	seen := map[string]bool{}
	var out []string
	for _, x := range s {
		if !seen[x] {
			seen[x] = true
			out = append(out, x)
		}
	}
	return out
}

func c01Config(c *core.C) gen.Config {
	cfg := gen.DefaultConfig()
	cfg.Modules = 1 + c.Rand.IntN(4)
	cfg.MinFiles, cfg.MaxFiles = 2, 2+c.Rand.IntN(4)
	cfg.Groups = true
	cfg.Streaming = true
	cfg.Named = c.Rand.IntN(4) != 0
	return cfg
}

func c01Run(c *core.C, idx int) {
	if idx >= c01BuildCases(c.Tier) {
		c01Error(c, idx-c01BuildCases(c.Tier))
		return
	}
	s := gen.Generate(c.Rand, c01Config(c))
	feat := c01Decorate(c, s)
	v := newWSView(s)
	version := []string{"v2", "v2", "v1", "v1beta1"}[c.Rand.IntN(4)]
	wsDir := filepath.Join(c.Tmp, "c01ws")
	os.RemoveAll(wsDir)
	defer os.RemoveAll(wsDir)
	if err := run.WriteTree(wsDir, s.WorkspaceFiles(v.R, gen.WorkspaceOpts{Version: version})); err != nil {
		c.Note("write: %v", err)
		return
	}
	env := run.BufEnv(filepath.Join(c.Tmp, "home"), nil)
	// reference compilation of every workspace file
	var roots []string
	for _, f := range v.Files {
		roots = append(roots, f.Path)
	}
	sort.Strings(roots)
	rc := ref.Compile(v.Sources, roots, true)
	if len(rc.Errors) > 0 {
		c.Note("generator produced a non-compiling workspace (case %d): %v", idx, rc.Errors[0])
		c.Count("generator_rejects", 1)
		return
	}
	nsel := c.Pick(4, 5)
	for si := 0; si < nsel; si++ {
		input, paths, excludes, kind := c01Selection(c, v)
		if si == 0 {
			input, paths, excludes, kind = ".", nil, nil, "all"
		}
		args := []string{"build", input, "-o", "-#format=binpb"}
		for _, p := range paths {
			args = append(args, "--path", p)
		}
		for _, e := range excludes {
			args = append(args, "--exclude-path", e)
		}
		T := model.Targets(v.Files, input, paths, excludes)
		key := fmt.Sprintf("case=%d sel=%d %s", idx, si, strings.Join(args[1:], " "))
		// the compiler invoked on exactly the targeted files (as buf does): protocompile reports
		// unused imports only for the files it was asked to compile, not for dependency-only files
		rcT := rc
		if len(T) != len(v.Files) {
			rcT = ref.Compile(v.Sources, model.SortedKeys(T), true)
		}
		o := run.Buf(wsDir, env, nil, args...)
		c.Eval(1)
		if len(T) == 0 {
			// a selection that matches no file is a documented error; nothing to check beyond "no image"
			if o.Code == 0 && len(o.Stdout) > 0 {
				if im, err := img.Parse(o.Stdout); err == nil && len(im.Files) > 0 {
					c.Violation("image-for-empty-selection", key, fmt.Sprintf("selection matches no file but an image with %d files was produced", len(im.Files)), nil)
				}
			}
			c.Count("empty_selections", 1)
			continue
		}
		if o.Code != 0 {
			c.Violation("build-failed", key, fmt.Sprintf("buildable workspace (%s, %s) failed to build: exit %d: %s", version, s.Describe(), o.Code, clip(o.Stderr)), map[string]any{"files": v.R.Flat()})
			continue
		}
		im, err := img.Parse(o.Stdout)
		if err != nil {
			c.Violation("image-unparseable", key, err.Error(), nil)
			continue
		}
		c01CheckImage(c, v, rcT, im, T, key)
		// the same image in a text encoding (one selection per workspace): `buf build -o` with format json / yaml /
		// txtpb re-interprets every custom option through the image's own resolver; read back, it has to be the
		// image the compiler produces, by the same oracle
		if si == idx%nsel {
			ft := []string{"json", "yaml", "txtpb"}[(idx/nsel)%3]
			tmp := filepath.Join(c.Tmp, "c01-image."+ft)
			targs := append([]string{}, args...)
			targs[3] = tmp + "#format=" + ft
			w := run.Buf(wsDir, env, nil, targs...)
			rb := run.Buf(wsDir, env, nil, "build", tmp+"#format="+ft, "-o", "-#format=binpb")
			os.Remove(tmp)
			c.Eval(2)
			tkey := key + " via " + ft
			if w.Code != 0 || rb.Code != 0 {
				c.Violation("text-encoding-failed", tkey, fmt.Sprintf("writing the image as %s exits %d, reading it back %d: %s %s", ft, w.Code, rb.Code, clip(w.Stderr), clip(rb.Stderr)), nil)
			} else if tim, err := img.Parse(rb.Stdout); err != nil {
				c.Violation("image-unparseable", tkey, err.Error(), nil)
			} else {
				c01CheckImage(c, v, rcT, tim, T, tkey)
				c.Count("text_encoded_images_checked", 1)
				c.Distinct("text_encodings", ft)
			}
		}
		c.Nontrivial(fmt.Sprintf("%s sel=%s input=%s mods=%d files=%d imports=%d feat=%s", version, kind, map[bool]string{true: "root", false: "module"}[input == "."], len(s.Modules), len(v.Files), c01EdgeBucket(v), strings.Join(dedup(feat), "+")))
		c.Distinct("selection_kinds", kind+"/"+map[bool]string{true: "root", false: "module"}[input == "."])
	}
	if idx < 2 {
		flat := v.R.Flat()
		var names []string
		for p := range flat {
			names = append(names, p)
		}
		sort.Strings(names)
		c.Sample(map[string]any{"workspace": names, "version": version, "features": dedup(feat), "first_file": flat[names[0]][:min(400, len(flat[names[0]]))]})
	}
}

func c01EdgeBucket(v *wsView) int {
	n := 0
	for _, imps := range v.Imports {
		n += len(imps)
	}
	return n / 4 * 4
}

// c01CheckImage applies the image clauses of C01 to one built image.
func c01CheckImage(c *core.C, v *wsView, rc *ref.Result, im *img.Image, T map[string]bool, key string) {
	want := model.Closure(T, v.Imports)
	got := map[string]int{}
	for _, f := range im.Files {
		got[f.Path]++
	}
	for p, n := range got {
		if n > 1 {
			c.Violation("duplicate-path", key+" path="+p, fmt.Sprintf("image lists %s %d times", p, n), nil)
		}
		if !want[p] {
			c.Violation("extra-file", key+" path="+p, fmt.Sprintf("image contains %s which is neither targeted nor transitively imported by a target; image=%v", p, im.Paths()), nil)
		}
	}
	for p := range want {
		if got[p] == 0 {
			c.Violation("missing-file", key+" path="+p, fmt.Sprintf("image lacks %s (target=%v) which the selection requires; image=%v", p, T[p], im.Paths()), nil)
		}
	}
	pos := map[string]int{}
	for i, f := range im.Files {
		pos[f.Path] = i
	}
	for i, f := range im.Files {
		for _, d := range f.FD.GetDependency() {
			j, ok := pos[d]
			if !ok {
				c.Violation("not-closed", key+" path="+f.Path, fmt.Sprintf("%s imports %s which is not in the image", f.Path, d), nil)
			} else if j >= i {
				c.Violation("order", key+" path="+f.Path, fmt.Sprintf("%s (index %d) precedes its import %s (index %d)", f.Path, i, d, j), nil)
			}
		}
		c.Count("order_edges_checked", len(f.FD.GetDependency()))
		if f.IsImport == T[f.Path] {
			c.Violation("import-flag", key+" path="+f.Path, fmt.Sprintf("%s: is_import=%v but targeted=%v", f.Path, f.IsImport, T[f.Path]), nil)
		}
		refFD, ok := rc.Files[f.Path]
		if !ok {
			continue
		}
		if d := img.DiffFD(refFD, f.FD); d != "" {
			c.Violation("descriptor-differs", key+" path="+f.Path, fmt.Sprintf("descriptor of %s differs from the compiler's output for the same text: %s", f.Path, d), nil)
		}
		c.Count("descriptors_compared", 1)
		// unused dependency indexes
		var wantUnused []int32
		for i, d := range refFD.GetDependency() {
			if rc.UnusedImports[f.Path][d] {
				wantUnused = append(wantUnused, int32(i))
			}
		}
		if fmt.Sprint(wantUnused) != fmt.Sprint(f.UnusedDeps) && !(len(wantUnused) == 0 && len(f.UnusedDeps) == 0) {
			c.Violation("unused-import-marker", key+" path="+f.Path, fmt.Sprintf("%s: unused_dependency=%v, compiler warned about %v", f.Path, f.UnusedDeps, wantUnused), nil)
		}
		if len(wantUnused) > 0 {
			c.Count("unused_markers_checked", 1)
		}
		if src, ok := v.Sources[f.Path]; ok {
			noSyntax := !strings.Contains(src, "syntax = ") && !strings.Contains(src, "edition = ")
			if f.SyntaxUnspecified != noSyntax {
				c.Violation("syntax-unspecified-marker", key+" path="+f.Path, fmt.Sprintf("%s: is_syntax_unspecified=%v but the text has syntax statement=%v", f.Path, f.SyntaxUnspecified, !noSyntax), nil)
			}
			if noSyntax {
				c.Count("syntax_unspecified_checked", 1)
			}
			wantName := v.ModOf[f.Path].Name
			if f.ModuleName != wantName || f.Commit != "" {
				c.Violation("module-info", key+" path="+f.Path, fmt.Sprintf("%s: module name %q commit %q, want %q and no commit (local module)", f.Path, f.ModuleName, f.Commit, wantName), nil)
			}
			if f.Path == "google/protobuf/timestamp.proto" {
				c.Count("workspace_wkt_copy_checked", 1)
			}
		} else {
			// a well-known type resolved to the built-in copy: always an import, no module
			if !f.IsImport {
				c.Violation("import-flag", key+" path="+f.Path, "built-in well-known type marked as non-import", nil)
			}
			c.Count("wkt_files_checked", 1)
		}
	}
}

// ---- error clause ---------------------------------------------------------------------------

type c01Plant struct {
	name string
	// apply mutates the schema (model-level) and returns the span key of the offending element,
	// or "" if not applicable.
	apply func(c *core.C, s *gen.Schema) (file *gen.File, spanKind, spanName string)
}

func c01PickMessage(c *core.C, s *gen.Schema) (*gen.File, *gen.Message) {
	files := s.AllFiles()
	for tries := 0; tries < 20; tries++ {
		f := files[c.Rand.IntN(len(files))]
		if len(f.Messages) > 0 {
			return f, f.Messages[c.Rand.IntN(len(f.Messages))]
		}
	}
	return nil, nil
}

var c01Plants = []c01Plant{
	{"undefined-type", func(c *core.C, s *gen.Schema) (*gen.File, string, string) {
		f, m := c01PickMessage(c, s)
		if m == nil {
			return nil, "", ""
		}
		for _, fl := range m.Fields {
			if fl.Kind == "scalar" {
				fl.Kind, fl.Type, fl.Default, fl.Options = "message", "nope.v1.Missing", "", nil
				return f, "field", f.Package + "." + m.Name + "." + fl.Name
			}
		}
		return nil, "", ""
	}},
	{"duplicate-field-number", func(c *core.C, s *gen.Schema) (*gen.File, string, string) {
		f, m := c01PickMessage(c, s)
		if m == nil || len(m.Fields) < 2 {
			return nil, "", ""
		}
		last := m.Fields[len(m.Fields)-1]
		if last.Kind == "group" {
			return nil, "", ""
		}
		last.Number = m.Fields[0].Number
		return f, "field", f.Package + "." + m.Name + "." + last.Name
	}},
	{"duplicate-symbol", func(c *core.C, s *gen.Schema) (*gen.File, string, string) {
		f, m := c01PickMessage(c, s)
		if m == nil {
			return nil, "", ""
		}
		dup := &gen.Message{Name: m.Name, Comment: "Duplicate.", Fields: []*gen.Field{{Name: "x", Number: 1, Kind: "scalar", Type: "string", Label: map[bool]string{true: "optional"}[f.Syntax == "proto2" || f.Syntax == ""]}}}
		f.Messages = append(f.Messages, dup)
		return f, "file", f.Path
	}},
	{"proto3-enum-first-nonzero", func(c *core.C, s *gen.Schema) (*gen.File, string, string) {
		for _, f := range s.AllFiles() {
			if f.Syntax == "proto3" && len(f.Enums) > 0 {
				e := f.Enums[0]
				e.Values[0].Number = 7
				for _, v := range e.Values[1:] {
					if v.Number == 7 {
						v.Number = 70
					}
				}
				return f, "enumvalue", f.Package + "." + e.Name + "." + e.Values[0].Name
			}
		}
		return nil, "", ""
	}},
	{"reserved-number-used", func(c *core.C, s *gen.Schema) (*gen.File, string, string) {
		f, m := c01PickMessage(c, s)
		if m == nil {
			return nil, "", ""
		}
		for _, fl := range m.Fields {
			if fl.Kind != "group" {
				m.ReservedRanges = append(m.ReservedRanges, gen.Range{Lo: fl.Number, Hi: fl.Number})
				return f, "message", f.Package + "." + m.Name
			}
		}
		return nil, "", ""
	}},
	{"import-missing-file", func(c *core.C, s *gen.Schema) (*gen.File, string, string) {
		files := s.AllFiles()
		f := files[c.Rand.IntN(len(files))]
		f.ExtraImports = append(f.ExtraImports, gen.Import{Path: "nope/v1/missing.proto"})
		return f, "import", f.Path + ":nope/v1/missing.proto"
	}},
	{"import-non-canonical-spelling", func(c *core.C, s *gen.Schema) (*gen.File, string, string) {
		// an import that spells the path of an EXISTING file with "./", "//" or "/./": import paths are matched
		// literally, so this is an unresolvable import, diagnosed at the import statement
		files := s.AllFiles()
		f := files[c.Rand.IntN(len(files))]
		g := files[c.Rand.IntN(len(files))]
		if f == g {
			return nil, "", ""
		}
		p := g.Path
		var spelled string
		switch c.Rand.IntN(4) {
		case 0:
			spelled = "./" + p
		case 1:
			spelled = strings.Replace(p, "/", "//", 1)
		case 2:
			spelled = strings.Replace(p, "/", "/./", 1)
		default:
			spelled = "google/protobuf/./timestamp.proto"
		}
		if spelled == p {
			return nil, "", ""
		}
		f.ExtraImports = append(f.ExtraImports, gen.Import{Path: spelled})
		return f, "import", f.Path + ":" + spelled
	}},
	{"missing-semicolon", nil}, // text-level
}

func c01BuildCases(tier string) int {
	if tier == "thorough" {
		return 2400
	}
	return 400
}

func c01ErrorCases(tier string) int {
	if tier == "thorough" {
		return 1400
	}
	return 210
}

func c01Error(c *core.C, idx int) {
	plant := c01Plants[idx%len(c01Plants)]
	cfg := c01Config(c)
	cfg.Modules = 1 + c.Rand.IntN(3)
	s := gen.Generate(c.Rand, cfg)
	var file *gen.File
	var sk, sn string
	if plant.apply != nil {
		file, sk, sn = plant.apply(c, s)
		if file == nil {
			c.Count("plants_not_applicable", 1)
			return
		}
	}
	v := newWSView(s)
	if plant.apply == nil {
		// remove the ';' that ends a field declaration
		files := s.AllFiles()
		for tries := 0; tries < 30 && file == nil; tries++ {
			f := files[c.Rand.IntN(len(files))]
			for _, sp := range v.R.Spans {
				if sp.File == f.Path && sp.Kind == "field" && sp.StartLine == sp.EndLine {
					mod := v.ModOf[f.Path]
					lines := strings.Split(v.R.Files[mod.Dir][f.Path], "\n")
					l := lines[sp.StartLine-1]
					if i := strings.LastIndex(l, ";"); i >= 0 && !strings.Contains(l, "//") {
						lines[sp.StartLine-1] = l[:i] + l[i+1:]
						text := strings.Join(lines, "\n")
						v.R.Files[mod.Dir][f.Path] = text
						v.Sources[f.Path] = text
						file, sk, sn = f, "field", sp.Name
						break
					}
				}
			}
		}
		if file == nil {
			c.Count("plants_not_applicable", 1)
			return
		}
	}
	mod := v.ModOf[file.Path]
	// compiler's own diagnostic for the same texts
	var roots []string
	for _, f := range v.Files {
		roots = append(roots, f.Path)
	}
	sort.Strings(roots)
	rc := ref.Compile(v.Sources, roots, true)
	if len(rc.Errors) == 0 {
		c.Note("plant %s did not make the workspace fail to compile (case %d)", plant.name, idx)
		c.Count("plants_not_failing", 1)
		return
	}
	parent := filepath.Join(c.Tmp, "c01err")
	os.RemoveAll(parent)
	defer os.RemoveAll(parent)
	wsDir := filepath.Join(parent, "ws")
	version := []string{"v2", "v1", "v1beta1"}[c.Rand.IntN(3)]
	run.WriteTree(wsDir, s.WorkspaceFiles(v.R, gen.WorkspaceOpts{Version: version}))
	env := run.BufEnv(filepath.Join(c.Tmp, "home"), nil)
	type form struct {
		name, cwd, input, prefix string
	}
	forms := []form{
		{"relative", parent, "ws", "ws/"},
		{"dot-slash", parent, "./ws", "ws/"},
		{"absolute", parent, wsDir, wsDir + "/"},
		{"cwd", wsDir, "", ""},
	}
	for _, fm := range forms {
		args := []string{"build"}
		if fm.input != "" {
			args = append(args, fm.input)
		}
		args = append(args, "-o", "-#format=binpb")
		o := run.Buf(fm.cwd, env, nil, args...)
		c.Eval(1)
		key := fmt.Sprintf("errcase=%d plant=%s form=%s", idx, plant.name, fm.name)
		c.Nontrivial(fmt.Sprintf("error plant=%s form=%s %s", plant.name, fm.name, version))
		c.Count("error_runs", 1)
		if o.Code != 100 {
			c.Violation("error-exit-status", key, fmt.Sprintf("non-compiling workspace: exit %d, want 100; stderr=%s", o.Code, clip(o.Stderr)), nil)
		}
		if len(o.Stdout) != 0 {
			c.Violation("image-despite-error", key, fmt.Sprintf("non-compiling workspace produced %d bytes on stdout", len(o.Stdout)), nil)
		}
		// every compiler diagnostic must be printed at <input form>/<module dir>/<path>:L:C:
		lines := strings.Split(strings.TrimSpace(string(o.Stderr)), "\n")
		matched := 0
		for _, d := range rc.Errors {
			if d.File == "" {
				continue
			}
			dm := v.ModOf[d.File]
			if dm == nil {
				continue
			}
			wantPrefix := fmt.Sprintf("%s%s/%s:%d:%d:", fm.prefix, dm.Dir, d.File, d.Line, d.Col)
			found := false
			for _, l := range lines {
				if strings.HasPrefix(l, wantPrefix) {
					found = true
				}
			}
			if found {
				matched++
			} else if matched == 0 && d == rc.Errors[0] {
				c.Violation("diagnostic-position", key, fmt.Sprintf("expected a diagnostic starting with %q (compiler: %s); stderr=%q", wantPrefix, d.Message, clip(o.Stderr)), nil)
			}
		}
		if matched > 0 {
			c.Count("diagnostics_matched", 1)
		}
		// and the diagnostic lies on the planted element
		if sp := v.R.Span(sk, sn); sp != nil && len(rc.Errors) > 0 && rc.Errors[0].File == file.Path && plant.name != "duplicate-symbol" && plant.name != "missing-semicolon" {
			d := rc.Errors[0]
			if d.Line < sp.StartLine || d.Line > sp.EndLine {
				c.Note("compiler reports %s at line %d outside the planted element %s [%d,%d] (plant %s)", d.Message, d.Line, sn, sp.StartLine, sp.EndLine, plant.name)
			} else {
				c.Count("diagnostic_on_planted_element", 1)
			}
		}
		_ = mod
	}
	if idx < 7 {
		c.Sample(map[string]any{"plant": plant.name, "compiler_error": fmt.Sprintf("%s:%d:%d: %s", rc.Errors[0].File, rc.Errors[0].Line, rc.Errors[0].Col, rc.Errors[0].Message)})
	}
}

var _ = bytes.Equal

func init() {
	core.Register(&core.Check{
		ID:    "C01",
		Level: "exploration",
		Rule: "PRNG-generated workspaces (1–4 modules, v2 buf.yaml or v1 / v1beta1 buf.work.yaml, 2–6 files per module, proto2/proto3/editions/no-syntax, import DAGs with cross-module edges, WKT, public and unused imports, options, extensions, groups, services) " +
			"× 4–5 target selections each (one of them also written as json / yaml / txtpb and read back) (workspace root or one module directory; random --path/--exclude-path sets over files and directories strictly inside a module, no --path inside an --exclude-path); " +
			"plus one planted compile error per error case (7 plant kinds) × 4 spellings of the input path. distinct/non-trivial = distinct (config version, selection kind, input kind, #modules, #files, import-edge bucket, feature set) classes",
		Assumptions: []string{
			"protocompile and protobuf-go are the trusted 'Protobuf compiler' (direct protocompile run on the same texts is the reference, with SourceInfoExtraOptionLocations as buf uses)",
			"target model: a file is targeted iff its module is targeted by the input and it lies under some --path (if any) and under no --exclude-path",
			"remote modules (commit ids) are exercised in C10, not here",
		},
		Cases:    func(tier string) int { return c01BuildCases(tier) + c01ErrorCases(tier) },
		Run:      c01Run,
		Required: []string{"descriptors_compared", "text_encoded_images_checked", "order_edges_checked", "wkt_files_checked", "unused_markers_checked", "syntax_unspecified_checked", "error_runs", "diagnostics_matched", "workspace_wkt_copy_checked"},
	})
}
