package checks

import (
	"fmt"
	"sort"
	"strings"

	"github.com/bufbuild/verifharness/gen"
)

// Addressing of schema elements by name (stable across Schema.Clone) for the edit catalogue.

type c03Msg struct {
	File   *gen.File
	M      *gen.Message
	Parent *gen.Message // nil for top-level
	Full   string       // package-qualified
	Nested string       // name relative to the package ("Outer.Inner")
	Depth  int
	Group  bool // declared by a group field
}

type c03Enum struct {
	File   *gen.File
	E      *gen.Enum
	Parent *gen.Message
	Full   string
	Nested string
	Depth  int
}

type c03Field struct {
	Msg *c03Msg
	F   *gen.Field
}

type c03Ext struct {
	File   *gen.File
	Parent *c03Msg // nil for file-level extend blocks
	X      *gen.Extend
	F      *gen.Field
	Full   string // package[.Msg].name
	Nested string
}

type c03Idx struct {
	S     *gen.Schema
	Msgs  []*c03Msg
	Enums []*c03Enum
	Exts  []*c03Ext
	byMsg map[string]*c03Msg
	byEn  map[string]*c03Enum
}

func pkgPrefix(f *gen.File) string {
	if f.Package == "" {
		return ""
	}
	return f.Package + "."
}

func c03Index(s *gen.Schema) *c03Idx {
	x := &c03Idx{S: s, byMsg: map[string]*c03Msg{}, byEn: map[string]*c03Enum{}}
	for _, f := range s.AllFiles() {
		var walk func(parent *c03Msg, m *gen.Message, group bool)
		addEnum := func(parent *c03Msg, e *gen.Enum) {
			ce := &c03Enum{File: f, E: e}
			if parent != nil {
				ce.Parent, ce.Nested, ce.Depth = parent.M, parent.Nested+"."+e.Name, parent.Depth+1
			} else {
				ce.Nested = e.Name
			}
			ce.Full = pkgPrefix(f) + ce.Nested
			x.Enums = append(x.Enums, ce)
			x.byEn[ce.Full] = ce
		}
		addExts := func(parent *c03Msg, xs []*gen.Extend) {
			for _, ex := range xs {
				for _, fl := range ex.Fields {
					ce := &c03Ext{File: f, Parent: parent, X: ex, F: fl, Nested: fl.Name}
					if parent != nil {
						ce.Nested = parent.Nested + "." + fl.Name
					}
					ce.Full = pkgPrefix(f) + ce.Nested
					x.Exts = append(x.Exts, ce)
				}
			}
		}
		walk = func(parent *c03Msg, m *gen.Message, group bool) {
			cm := &c03Msg{File: f, M: m, Group: group}
			if parent != nil {
				cm.Parent, cm.Nested, cm.Depth = parent.M, parent.Nested+"."+m.Name, parent.Depth+1
			} else {
				cm.Nested = m.Name
			}
			cm.Full = pkgPrefix(f) + cm.Nested
			x.Msgs = append(x.Msgs, cm)
			x.byMsg[cm.Full] = cm
			for _, e := range m.Enums {
				addEnum(cm, e)
			}
			for _, n := range m.Nested {
				walk(cm, n, false)
			}
			for _, fl := range m.Fields {
				if fl.Kind == "group" && fl.Group != nil {
					walk(cm, fl.Group, true)
				}
			}
			addExts(cm, m.Extends)
		}
		for _, e := range f.Enums {
			addEnum(nil, e)
		}
		for _, m := range f.Messages {
			walk(nil, m, false)
		}
		addExts(nil, f.Extends)
	}
	return x
}

func (x *c03Idx) Msg(full string) *c03Msg   { return x.byMsg[full] }
func (x *c03Idx) Enum(full string) *c03Enum { return x.byEn[full] }

func (m *c03Msg) Field(name string) *gen.Field {
	for _, fl := range m.M.Fields {
		if fl.Name == name {
			return fl
		}
	}
	return nil
}

// Fields lists all fields of all messages (not extensions).
func (x *c03Idx) Fields() []c03Field {
	var out []c03Field
	for _, m := range x.Msgs {
		for _, fl := range m.M.Fields {
			out = append(out, c03Field{m, fl})
		}
	}
	return out
}

// refs counts references to every type name (field types, map values, RPC types, extendees).
func (x *c03Idx) refs() map[string]int {
	out := map[string]int{}
	for _, m := range x.Msgs {
		for _, fl := range m.M.Fields {
			switch fl.Kind {
			case "message", "enum":
				out[fl.Type]++
			case "map":
				if fl.MapValK != "scalar" {
					out[fl.MapVal]++
				}
			}
		}
	}
	for _, e := range x.Exts {
		out[e.X.Extendee]++
		if e.F.Kind == "message" || e.F.Kind == "enum" {
			out[e.F.Type]++
		}
	}
	for _, f := range x.S.AllFiles() {
		for _, sv := range f.Services {
			for _, m := range sv.Methods {
				out[m.In]++
				out[m.Out]++
			}
		}
	}
	return out
}

// referencedUnder reports whether name or anything nested in it is referenced from outside itself.
func referencedUnder(refs map[string]int, full string) bool {
	for t, n := range refs {
		if n > 0 && (t == full || strings.HasPrefix(t, full+".")) {
			return true
		}
	}
	return false
}

// refsOutsideOf: like referencedUnder but ignoring references made by the subtree itself.
func (x *c03Idx) referencedFromOutside(full string) bool {
	inside := func(n string) bool { return n == full || strings.HasPrefix(n, full+".") }
	for _, m := range x.Msgs {
		if inside(m.Full) {
			continue
		}
		for _, fl := range m.M.Fields {
			if (fl.Kind == "message" || fl.Kind == "enum") && inside(fl.Type) {
				return true
			}
			if fl.Kind == "map" && fl.MapValK != "scalar" && inside(fl.MapVal) {
				return true
			}
		}
	}
	for _, e := range x.Exts {
		if e.Parent != nil && inside(e.Parent.Full) {
			continue
		}
		if inside(e.X.Extendee) || ((e.F.Kind == "message" || e.F.Kind == "enum") && inside(e.F.Type)) {
			return true
		}
	}
	for _, f := range x.S.AllFiles() {
		for _, sv := range f.Services {
			for _, m := range sv.Methods {
				if inside(m.In) || inside(m.Out) {
					return true
				}
			}
		}
	}
	return false
}

// usedNumbers / usedNames of a message: fields, reserved, extension ranges are all "not fresh".
func msgNumberFree(m *gen.Message, n int) bool {
	if n < 1 || (n >= 19000 && n <= 19999) {
		return false
	}
	for _, fl := range m.Fields {
		if fl.Number == n {
			return false
		}
	}
	for _, r := range m.ReservedRanges {
		if n >= r.Lo && n <= r.Hi {
			return false
		}
	}
	for _, r := range m.ExtRanges {
		if n >= r.Lo && n <= r.Hi {
			return false
		}
	}
	return true
}

func msgNameFree(m *gen.Message, name string) bool {
	for _, fl := range m.Fields {
		if fl.Name == name || fl.Oneof == name {
			return false
		}
		if fl.Kind == "group" && fl.Group != nil && strings.ToLower(fl.Group.Name) == name {
			return false
		}
	}
	for _, rn := range m.ReservedNames {
		if rn == name {
			return false
		}
	}
	return true
}

// freshFieldNumber returns a number unused in every given version of the message.
func freshFieldNumber(start int, ms ...*gen.Message) int {
	for n := start; ; n++ {
		ok := true
		for _, m := range ms {
			if m != nil && !msgNumberFree(m, n) {
				ok = false
			}
		}
		if ok {
			return n
		}
	}
}

func freshFieldName(base string, ms ...*gen.Message) string {
	for i := 0; ; i++ {
		n := base
		if i > 0 {
			n = fmt.Sprintf("%s%d", base, i)
		}
		ok := true
		for _, m := range ms {
			if m != nil && !msgNameFree(m, n) {
				ok = false
			}
		}
		if ok {
			return n
		}
	}
}

func enumNumberFree(e *gen.Enum, n int) bool {
	for _, v := range e.Values {
		if v.Number == n {
			return false
		}
	}
	for _, r := range e.ReservedRanges {
		if n >= r.Lo && n <= r.Hi {
			return false
		}
	}
	return true
}

func enumNameFree(e *gen.Enum, name string) bool {
	for _, v := range e.Values {
		if v.Name == name {
			return false
		}
	}
	for _, rn := range e.ReservedNames {
		if rn == name {
			return false
		}
	}
	return true
}

// topLevelNames of a package across all files (types, services, extension fields share one namespace).
func (x *c03Idx) packageNames(pkg string) map[string]bool {
	out := map[string]bool{}
	for _, f := range x.S.AllFiles() {
		if f.Package != pkg {
			continue
		}
		for _, m := range f.Messages {
			out[m.Name] = true
		}
		for _, e := range f.Enums {
			out[e.Name] = true
			for _, v := range e.Values {
				out[v.Name] = true // enum values are siblings of their enum
			}
		}
		for _, sv := range f.Services {
			out[sv.Name] = true
		}
		for _, ex := range f.Extends {
			for _, fl := range ex.Fields {
				out[fl.Name] = true
			}
		}
	}
	return out
}

func sortedKeys[V any](m map[string]V) []string {
	out := make([]string, 0, len(m))
	for k := range m {
		out = append(out, k)
	}
	sort.Strings(out)
	return out
}

// importGraphAcyclic checks that the file import graph induced by the schema has no cycle.
func importGraphAcyclic(s *gen.Schema) bool {
	imports := map[string][]string{}
	for _, f := range s.AllFiles() {
		for _, im := range s.ImportsOf(f) {
			imports[f.Path] = append(imports[f.Path], im.Path)
		}
	}
	state := map[string]int{}
	var visit func(p string) bool
	visit = func(p string) bool {
		switch state[p] {
		case 1:
			return false
		case 2:
			return true
		}
		state[p] = 1
		for _, q := range imports[p] {
			if !visit(q) {
				return false
			}
		}
		state[p] = 2
		return true
	}
	for p := range imports {
		if !visit(p) {
			return false
		}
	}
	return true
}

// moduleDepsAcyclic: modules must not depend on each other cyclically either.
func moduleDepsAcyclic(s *gen.Schema) bool {
	modOf := map[string]string{}
	for _, m := range s.Modules {
		for _, f := range m.Files {
			modOf[f.Path] = m.Dir
		}
	}
	deps := map[string]map[string]bool{}
	for _, m := range s.Modules {
		for _, f := range m.Files {
			for _, im := range s.ImportsOf(f) {
				if d, ok := modOf[im.Path]; ok && d != m.Dir {
					if deps[m.Dir] == nil {
						deps[m.Dir] = map[string]bool{}
					}
					deps[m.Dir][d] = true
				}
			}
		}
	}
	state := map[string]int{}
	var visit func(p string) bool
	visit = func(p string) bool {
		switch state[p] {
		case 1:
			return false
		case 2:
			return true
		}
		state[p] = 1
		for q := range deps[p] {
			if !visit(q) {
				return false
			}
		}
		state[p] = 2
		return true
	}
	for p := range deps {
		if !visit(p) {
			return false
		}
	}
	return true
}
