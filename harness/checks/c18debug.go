package checks

import (
	"fmt"
	"strconv"
	"strings"

	"github.com/bufbuild/verifharness/core"
)

// c18dump: development aid — `verif helper c18dump <seed> <idx> <path-substring>` prints the generated
// source of the matching files with their option-related source-info locations.
func init() {
	core.RegisterHelper("c18dump", func(args []string) int {
		seed, _ := strconv.ParseUint(args[0], 10, 64)
		idx, _ := strconv.Atoi(args[1])
		w, err := c18NewWorkload(core.RandFor(seed, "C18", idx, "case"), len(args) > 3 && args[3] == "thorough")
		if err != nil {
			fmt.Println("workload:", err)
			return 1
		}
		for _, p := range w.order {
			if !strings.Contains(p, args[2]) {
				continue
			}
			fmt.Printf("==== %s (module %q)\n", p, w.facts[p].Module)
			for i, l := range strings.Split(w.sources[p], "\n") {
				fmt.Printf("%3d  %s\n", i, l)
			}
			for i, l := range w.pristine[p].GetSourceCodeInfo().GetLocation() {
				for _, e := range l.Path {
					if e == 8 {
						fmt.Printf("  #%d %v %v\n", i, l.Path, l.Span)
						break
					}
				}
			}
		}
		return 0
	})
}
