package checks

import (
	"fmt"
	"os"
	"path/filepath"
	"sort"
	"strings"

	"github.com/bufbuild/verifharness/core"
	"github.com/bufbuild/verifharness/gen"
	"github.com/bufbuild/verifharness/model"
	"github.com/bufbuild/verifharness/ref"
	"github.com/bufbuild/verifharness/run"
)

// C17 — each file is generated exactly once and plugin output stays in its directory.
//
// Monitor: `buf generate` (in-process CLI) over generated workspaces with a recording, scripted
// plugin (`verif helper c17plugin`): every CodeGeneratorRequest the plugin receives and every
// answer it gives are stored; the sandbox around the workspace (sentinel files next to and above
// every output location, files that already exist inside output directories) is snapshotted
// before and after.
// Oracle, request side (per configured plugin, over all its requests): every file of the expected
// set — targets, plus imports iff include_imports, plus well-known types iff include_wkt — is a
// file to generate exactly once, nothing else ever; each request holds the import closure of its
// files, every file after its dependencies; the proto_file entry of a generated file is its
// source_file_descriptors entry minus the planted options with source retention (an independent
// wire-level stripper), the source_file_descriptors entry and the entries of files not generated
// are the compiler's descriptors. Response side: every file system change lies beneath an output
// location of the run; a failed run wrote nothing; the same output path from two plugins, and an
// insertion point naming a file not produced in the run, fail; otherwise disk and archives equal
// a model fed with the recorded answers in configuration order.

const c17WSName = "ws"

func c17Cases(tier string) int {
	if tier == "thorough" {
		return 500 + len(c17Witnesses)
	}
	return 64 + len(c17Witnesses)
}

func c17Config(c *core.C) gen.Config {
	cfg := gen.DefaultConfig()
	cfg.Modules = 1 + c.Rand.IntN(3)
	cfg.MinFiles, cfg.MaxFiles = 2, 3+c.Rand.IntN(c.Pick(3, 5))
	cfg.Groups = true
	cfg.Streaming = true
	cfg.Named = c.Rand.IntN(4) != 0
	return cfg
}

func c17NewWorld(c *core.C, s *gen.Schema) (*c17World, error) {
	v := newWSView(s)
	var roots []string
	for _, f := range v.Files {
		roots = append(roots, f.Path)
	}
	sort.Strings(roots)
	rc := ref.Compile(v.Sources, roots, true)
	if len(rc.Errors) > 0 {
		return nil, fmt.Errorf("%s:%d:%d: %s", rc.Errors[0].File, rc.Errors[0].Line, rc.Errors[0].Col, rc.Errors[0].Message)
	}
	w := &c17World{v: v, rc: rc, imports: map[string][]string{}, refBytes: map[string][]byte{}, topMsgs: map[string][]string{}, topEnums: map[string][]string{}, typeFile: map[string]string{}}
	for p, fd := range rc.Files {
		w.refBytes[p] = c17Canonical(fd)
		if imps, ok := v.Imports[p]; ok {
			w.imports[p] = imps
		} else {
			w.imports[p] = fd.GetDependency()
		}
	}
	for _, f := range s.AllFiles() {
		pfx := ""
		if f.Package != "" {
			pfx = f.Package + "."
		}
		for _, m := range f.Messages {
			w.topMsgs[f.Path] = append(w.topMsgs[f.Path], pfx+m.Name)
			w.typeFile[pfx+m.Name] = f.Path
		}
		for _, e := range f.Enums {
			w.topEnums[f.Path] = append(w.topEnums[f.Path], pfx+e.Name)
		}
	}
	return w, nil
}

// c17Sandbox (re)creates everything around the workspace sources: sentinels beside and above the
// output locations, and the files a run wants to find already present.
func c17Sandbox(sb string, r *c17Run) error {
	entries, _ := os.ReadDir(sb)
	for _, e := range entries {
		if e.Name() != c17WSName {
			os.RemoveAll(filepath.Join(sb, e.Name()))
		}
	}
	ws := filepath.Join(sb, c17WSName)
	for _, d := range []string{"gen", "gen.d", "gen2", "out", "base", "tmpx", "z.jar", "SENTINEL.txt", "gen.txt", "buf.gen.yaml"} {
		os.RemoveAll(filepath.Join(ws, d))
	}
	files := map[string]string{
		"SENTINEL.txt":        "SENTINEL sandbox root\n",
		"sibling/keep.txt":    "SENTINEL sibling\n",
		"sibling/gen.txt":     "SENTINEL sibling gen.txt\n",
		"ws/SENTINEL.txt":     "SENTINEL workspace\n",
		"ws/gen.txt":          "SENTINEL string-prefix sibling of gen\n",
		"ws/gen2/keep.txt":    "SENTINEL gen2\n// @@protoc_insertion_point(file_scope)\n",
		"escape.txt":          "SENTINEL escape target\n",
		"ws/escape.txt":       "SENTINEL escape target in ws\n",
		"ws/gen2/escape.txt":  "SENTINEL\n",
		"obase/SENTINEL.keep": "SENTINEL obase\n",
	}
	for _, pre := range r.PreExist {
		if c17KindOf(pre) != "dir" {
			files[pre] = "not even a zip archive\n"
		} else {
			files[pre] = "pre-existing " + pre + "\n  // @@protoc_insertion_point(file_scope)\n// @@protoc_insertion_point(class_scope)\n"
		}
	}
	files["ws/buf.gen.yaml"] = r.YAML
	return run.WriteTree(sb, files)
}

func c17Run1(c *core.C, idx int) {
	if n := c17Cases(c.Tier) - len(c17Witnesses); idx >= n {
		c17RunWitness(c, idx-n)
		return
	}
	s := gen.Generate(c.Rand, c17Config(c))
	feat := c01Decorate(c, s)
	planted := c17Decorate(c.Rand, s)
	w, err := c17NewWorld(c, s)
	if err != nil {
		c.Note("generator produced a non-compiling workspace (case %d): %v", idx, err)
		c.Count("generator_rejects", 1)
		return
	}
	w.planted = planted
	c.Count("images", 1)
	c.Count("source_retention_options_planted", planted)
	version := []string{"v2", "v2", "v1"}[c.Rand.IntN(3)]
	sb := filepath.Join(c.Tmp, "c17sb")
	rec := filepath.Join(c.Tmp, "c17rec")
	home := filepath.Join(c.Tmp, "c17home")
	os.RemoveAll(sb)
	defer os.RemoveAll(sb)
	defer os.RemoveAll(rec)
	defer os.RemoveAll(home)
	wsDir := filepath.Join(sb, c17WSName)
	if err := run.WriteTree(wsDir, s.WorkspaceFiles(w.v.R, gen.WorkspaceOpts{Version: version})); err != nil {
		c.Note("write: %v", err)
		return
	}
	nruns := c.Pick(12, 40)
	for k := 0; k < nruns; k++ {
		r := c17MakeRun(c, w.v, c17PluginCommand(), w.topMsgs, w.topEnums)
		c17Execute(c, w, r, sb, rec, home, fmt.Sprintf("case %d run %d, workspace %s (%s; %s)", idx, k, version, s.Describe(), strings.Join(dedup(feat), "+")), "")
		if idx < 2 && k == 0 {
			c.Sample(map[string]any{"workspace": s.Describe(), "buf.gen.yaml": r.YAML, "args": r.Args, "scenario": r.Scenario})
		}
	}
}

// c17Execute performs one run and applies both oracles.
func c17Execute(c *core.C, w *c17World, r *c17Run, sb, rec, home, where, keyPrefix string) (o run.Out, executed bool) {
	T := model.Targets(w.v.Files, r.Input, r.Paths, r.Excludes)
	if len(T) == 0 || len(r.Plugins) == 0 {
		c.Count("empty_selections", 1)
		return
	}
	if err := c17Sandbox(sb, r); err != nil {
		c.Note("sandbox: %v", err)
		return
	}
	executed = true
	os.RemoveAll(rec)
	os.MkdirAll(rec, 0o755)
	for _, p := range r.Plugins {
		if err := c17WriteScript(rec, p); err != nil {
			c.Note("script: %v", err)
			return
		}
	}
	before := run.Snapshot(sb)
	env := run.BufEnv(home, map[string]string{"VERIF_REC_DIR": rec})
	o = run.Buf(filepath.Join(sb, c17WSName), env, nil, r.Args...)
	c.Eval(1)
	after := run.Snapshot(sb)
	witness := func(msg string) string {
		return fmt.Sprintf("%s\n%s\nscenario %s; buf %s (cwd = <sandbox>/ws); exit %d; stderr: %s\nbuf.gen.yaml:\n%s", msg, where, r.Scenario, strings.Join(r.Args, " "), o.Code, c17Clip(o.Stderr, 300), r.YAML)
	}
	ex, err := c17ReadExchanges(rec)
	if err != nil {
		c.Violation("harness-record", "unreadable", witness(err.Error()), nil)
		return
	}
	filtered := len(r.TopTypes) > 0
	for _, p := range r.Plugins {
		filtered = filtered || p.filtered()
	}
	if len(ex) == 0 && o.Code != 0 {
		// rejected before any plugin ran: a configuration or input problem
		if filtered {
			c.Count("type_filter_rejected", 1)
		} else {
			c.Violation("generate-failed", keyPrefix+"before-plugins stderr="+c17ErrClass(o.Stderr), witness("buf generate failed before any plugin was invoked"), nil)
		}
		if ch := c17Diff(before, after); len(ch) > 0 && !r.Clean {
			c.Violation("written-despite-error", keyPrefix+"before-plugins", witness(fmt.Sprintf("the run failed before invoking plugins yet the sandbox changed: %+v", ch)), nil)
		}
		return
	}
	// request side
	t := &c17ReqTally{}
	for _, p := range r.Plugins {
		xs := ex[p.ID]
		if len(xs) == 0 && (filtered || o.Code != 0) {
			// a type filter may leave nothing to generate; a failing sibling cancels the others
			c.Count("plugins_without_request", 1)
			continue
		}
		c17CheckRequests(c, w, r, p, xs, T, o.Code == 0, witness, t)
	}
	t.flush(c)
	// response side
	c17CheckResponses(c, sb, r, ex, o, before, after, witness)
	outcome := "ok"
	if o.Code != 0 {
		outcome = "error"
	}
	sel := r.SelKind
	if r.Input != "." {
		sel += "/module"
	}
	c.Nontrivial(fmt.Sprintf("%s %s sel=%s scenario=%s %s clean=%v base=%v", r.Version, r.describe(), sel, r.Scenario, outcome, r.Clean, r.BaseOut != ""))
	c.Distinct("scenarios", r.Scenario+"/"+outcome)
	c.Distinct("plugin_shapes", r.describe())
	for _, p := range r.Plugins {
		c.Distinct("out_spellings", c17SpellKind(p.Out))
		c.Count("plugins_"+p.Kind, 1)
	}
	for _, h := range r.Hostile {
		c.Distinct("hostile_names", fmt.Sprintf("%q", h))
	}
	c.Count("runs", 1)
	c.Count("runs_"+r.Version, 1)
	c.Count("scenario_"+r.Scenario, 1)
	if filtered {
		c.Count("type_filter_runs", 1)
	}
	return
}

func c17SpellKind(out string) string {
	switch {
	case strings.HasPrefix(out, "../ws/"):
		return "alias-through-parent"
	case strings.HasPrefix(out, "../"):
		return "outside-cwd"
	case strings.HasPrefix(out, "./"):
		return "dot-slash"
	case strings.HasSuffix(out, "/"):
		return "trailing-slash"
	case strings.Contains(out, "//"):
		return "double-slash"
	case strings.Contains(out, "/./"):
		return "dot-component"
	case strings.Contains(out, "/../"):
		return "dotdot-component"
	}
	return "plain"
}

func c17WriteScript(rec string, p *c17Plugin) error {
	data, err := jsonMarshal(p.Script)
	if err != nil {
		return err
	}
	return os.WriteFile(filepath.Join(rec, "script-"+p.ID+".json"), data, 0o644)
}

func init() {
	core.Register(&core.Check{
		ID:    "C17",
		Level: "exploration",
		Rule: "each case = one PRNG-generated workspace (1–3 modules, v2 buf.yaml or v1 buf.work.yaml, several packages = directories per module, import DAGs crossing directories and modules, WKT imports, " +
			"unused/public imports, a workspace copy of a well-known type, custom options declared [retention = RETENTION_SOURCE] — scalar, repeated, and members of a message-typed option — used on files, messages, fields, enums, values, services, methods) " +
			"× 12 (quick) | 40 (thorough) PRNG-generated `buf generate` runs: buf.gen.yaml v1|v2; 1–3 plugins × strategy directory|all|default × include_imports/include_wkt (per plugin in v2, --include-imports/--include-wkt flags) × " +
			"per-plugin types/exclude_types, --type, v1 types.include; target selection by --path/--exclude-path, module-directory input or a v2 inputs entry; outs = directories (same, different, nested, outside the working directory, " +
			"eight equivalent spellings), .zip and .jar archives, -o base directory, clean; one response scenario per run: benign per-file outputs, odd-but-valid names, 1–3 hostile names (curated list + C13 alphabet), insertion points into a file of an earlier plugin / " +
			"the same plugin / a file only on disk / no file / a file under another out / a later plugin's file, duplicates in the same out (same or equivalent spelling, alias through the parent), in nested outs, in different outs, plugin-reported error. " +
			"distinct/non-trivial = distinct (config version, multiset of plugin shapes, selection kind, scenario, outcome, clean, base) classes of runs in which plugins were actually invoked",
		Assumptions: []string{
			"one image per run (a single input); remote plugins and protoc_builtin plugins need a network / protoc and are not exercised — the request construction and response writing they share with local plugins are",
			"output locations are relative paths as the documentation prescribes; symbolic links inside output directories are not planted",
			"a workspace-supplied copy of google/protobuf/*.proto that is reached only as an import may be treated as an import or as a well-known type (both accepted)",
			"with a type filter (types / exclude_types / --type) which files survive is C12's subject: there only at-most-once, no unrequested file, closure, order and retention are demanded, plus generation of the file declaring an included type",
			"the statement fixes neither the final newline of a file that received an insertion nor the indentation of empty inserted lines: insertion results are compared modulo trailing blanks and trailing empty lines",
			"buf's own wall-clock deadline is switched off (--timeout=0) so that machine load cannot decide a verdict",
			"protocompile is the trusted compiler (reference descriptors); the plugin, the wire-level option stripper, the path model and the bucket model in c17*.go share no code with buf or protoplugin",
		},
		Cases: c17Cases,
		Run:   c17Run1,
		// the same cases once more in the race build: plugins of one run execute concurrently and share the
		// response writer, the output buckets and the image caches
		RaceCases: func(tier string) int {
			if tier == "thorough" {
				return 16
			}
			return 4
		},
		RunRace: c17Run1,
		Needs:   []string{"plugins"},
		Required: []string{"images", "runs", "runs_v1", "runs_v2", "requests_checked", "files_generated_once", "imports_generated_once", "wkt_generated_once", "imports_withheld", "wkt_withheld",
			"imports_shared_between_requests", "targets_imported_by_other_requests", "multi_request_invocations", "closure_files_checked", "order_edges_checked",
			"source_options_stripped_from_runtime_view", "source_options_kept_in_source_view", "source_options_kept_in_ungenerated_imports", "runtime_views_checked",
			"runs_confined", "escaping_names_contained", "escaping_names_rejected", "failed_runs_nothing_written", "expected_error_duplicate-same-out", "expected_error_duplicate-nested-out", "expected_error_insertion-target-not-produced", "expected_error_plugin-error",
			"insertions_verified", "output_files_verified", "archive_entries_verified", "jar_manifests_verified", "preexisting_files_untouched", "plugins_dir", "plugins_zip", "plugins_jar", "type_filter_runs", "regression_witnesses"},
	})
}
