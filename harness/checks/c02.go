package checks

import (
	"bytes"
	"context"
	"crypto/sha256"
	"encoding/hex"
	"fmt"
	"math/rand/v2"
	"os"
	"path/filepath"
	"regexp"
	"runtime"
	"sort"
	"strings"

	"github.com/bufbuild/buf/private/buf/buftarget"
	"github.com/bufbuild/buf/private/buf/bufworkspace"
	"github.com/bufbuild/buf/private/bufpkg/bufimage"
	"github.com/bufbuild/buf/private/bufpkg/bufmodule"
	"github.com/bufbuild/buf/private/bufpkg/bufplugin"
	"github.com/bufbuild/buf/private/pkg/protoencoding"
	"github.com/bufbuild/buf/private/pkg/storage"
	"github.com/bufbuild/buf/private/pkg/storage/storagemem"
	"github.com/bufbuild/buf/private/pkg/storage/storageos"
	"github.com/bufbuild/buf/private/pkg/thread"
	"github.com/bufbuild/buf/private/pkg/verifhook"
	"github.com/bufbuild/verifharness/core"
	"github.com/bufbuild/verifharness/gen"
	"github.com/bufbuild/verifharness/run"
)

// C02 — outputs are deterministic and independent of scheduling and enumeration order.
//
// Metamorphic monitor: the same command on the same inputs is executed R times while only
// GOMAXPROCS, thread parallelism, seeded yields at job dispatch (hook), the storage walk order
// (shuffling bucket wrapper, library level) and the listing order of --path flags / modules /
// rule ids vary. Oracle: byte identity with the baseline execution (only the mtime stamps of
// diff(1) headers in `format -d` are masked). The workload is repeated in a -race build.

var c02TS = regexp.MustCompile(`(?m)^(---|\+\+\+) (\S+)\t.*$`)

func c02Mask(cmd string, b []byte) []byte {
	if strings.HasPrefix(cmd, "format -d") {
		return c02TS.ReplaceAll(b, []byte("$1 $2\t<mtime>"))
	}
	return b
}

// c02CycleModule adds a module whose packages form two import cycles sharing the first hop
// (a -> b -> a and a -> b -> c -> a) while the files stay acyclic.
func c02CycleModule() *gen.Module {
	mk := func(pkg, name string, imports ...string) *gen.File {
		f := &gen.File{Path: strings.ReplaceAll(pkg, ".", "/") + "/" + name + ".proto", Syntax: "proto3", Package: pkg}
		m := &gen.Message{Name: gen.Pascal(name), Comment: "M."}
		for i, im := range imports {
			// refer to the message of the imported file
			parts := strings.Split(strings.TrimSuffix(im, ".proto"), "/")
			ipkg := strings.Join(parts[:len(parts)-1], ".")
			m.Fields = append(m.Fields, &gen.Field{Name: fmt.Sprintf("d%d", i), Number: i + 1, Kind: "message", Type: ipkg + "." + gen.Pascal(parts[len(parts)-1]), Comment: "D."})
		}
		m.Fields = append(m.Fields, &gen.Field{Name: "x", Number: 50, Kind: "scalar", Type: "string", Comment: "X."})
		f.Messages = []*gen.Message{m}
		return f
	}
	a, b, cc := "acme.cyc.a.v1", "acme.cyc.b.v1", "acme.cyc.c.v1"
	// leaves first
	aw := mk(a, "aw")
	bz := mk(b, "bz", "acme/cyc/a/v1/aw.proto")                           // b -> a
	cz := mk(cc, "cz", "acme/cyc/a/v1/aw.proto")                          // c -> a
	by := mk(b, "by", "acme/cyc/c/v1/cz.proto")                           // b -> c
	ax := mk(a, "ax", "acme/cyc/b/v1/bz.proto", "acme/cyc/b/v1/by.proto") // a -> b
	return &gen.Module{Dir: "cyc", Name: "buf.test/acme/cyc", Files: []*gen.File{aw, bz, cz, by, ax}}
}

type c02Cmd struct {
	name string
	args []string
	dir  string
}

// shuffleBucket delivers Walk callbacks in a seeded random permutation.
type shuffleBucket struct {
	storage.ReadBucket
	seed uint64
}

func (s shuffleBucket) Walk(ctx context.Context, prefix string, f func(storage.ObjectInfo) error) error {
	var infos []storage.ObjectInfo
	if err := s.ReadBucket.Walk(ctx, prefix, func(oi storage.ObjectInfo) error {
		infos = append(infos, oi)
		return nil
	}); err != nil {
		return err
	}
	r := rand.New(rand.NewPCG(s.seed, uint64(len(infos))+17))
	r.Shuffle(len(infos), func(i, j int) { infos[i], infos[j] = infos[j], infos[i] })
	for _, oi := range infos {
		if err := f(oi); err != nil {
			return err
		}
	}
	return nil
}

func c02Hash(b []byte) string {
	h := sha256.Sum256(b)
	return hex.EncodeToString(h[:6])
}

func c02Workspace(c *core.C) (*gen.Schema, *wsView) {
	cfg := gen.DefaultConfig()
	cfg.Modules = 2 + c.Rand.IntN(3)
	cfg.MinFiles, cfg.MaxFiles = 3, 3+c.Rand.IntN(4)
	cfg.Streaming = true
	cfg.Groups = true
	s := gen.Generate(c.Rand, cfg)
	c01Decorate(c, s)
	c11Dirty(c, s)
	s.Modules = append(s.Modules, c02CycleModule())
	// enums with aliases: several names for one number (their names are kept in maps by the breaking rules); two of
	// them so that some alias is renamed in the edited copy (c02Do)
	n := 0
	for _, f := range s.AllFiles() {
		if n < 3 && (f.Syntax == "proto3" || f.Syntax == "proto2") && len(f.Messages) > 0 {
			n++
			name := fmt.Sprintf("AliasKind%d", n)
			pre := fmt.Sprintf("ALIAS_KIND%d_", n)
			f.Enums = append(f.Enums, &gen.Enum{Name: name, Comment: name + " has aliases.", AllowAlias: true, Values: []*gen.EnumValue{
				{Name: pre + "UNSPECIFIED", Number: 0, Comment: "Zero."},
				{Name: pre + "ONE", Number: 1, Comment: "One."},
				{Name: pre + "UNO", Number: 1, Comment: "One again."},
				{Name: pre + "EIN", Number: 1, Comment: "And again."},
				{Name: pre + "TWO", Number: 2, Comment: "Two."},
				{Name: pre + "DOS", Number: 2, Comment: "Two again."},
			}})
		}
	}
	return s, newWSView(s)
}

func c02Run(c *core.C, idx int) { c02Do(c, idx, false) }

func c02Do(c *core.C, idx int, race bool) {
	s, v := c02Workspace(c)
	base := filepath.Join(c.Tmp, fmt.Sprintf("c02-%v", race))
	os.RemoveAll(base)
	defer os.RemoveAll(base)
	wsDir := filepath.Join(base, "ws")
	lintCfg := "use:\n  - STANDARD\n  - COMMENTS\n  - UNARY_RPC\n  - PACKAGE_NO_IMPORT_CYCLE\n"
	breakingCfg := "use:\n  - FILE\n"
	run.WriteTree(wsDir, s.WorkspaceFiles(v.R, gen.WorkspaceOpts{Version: "v2", Lint: lintCfg, Breaking: breakingCfg}))
	// an edited copy for breaking; an unformatted copy for format
	s2 := s.Clone()
	c11BreakingEdits(c, s2)
	// one alias of every aliased number gets a new name: the previous name is gone, the number still has several
	for _, f := range s2.AllFiles() {
		for _, e := range f.Enums {
			if e.AllowAlias && strings.HasPrefix(e.Name, "AliasKind") {
				for _, v := range e.Values {
					if strings.HasSuffix(v.Name, "_UNO") || strings.HasSuffix(v.Name, "_DOS") {
						v.Name += "_RENAMED"
					}
				}
			}
		}
	}
	v2 := newWSView(s2)
	ws2 := filepath.Join(base, "ws2")
	run.WriteTree(ws2, s2.WorkspaceFiles(v2.R, gen.WorkspaceOpts{Version: "v2", Lint: lintCfg, Breaking: breakingCfg}))
	// make some files badly formatted (still valid)
	for p, text := range v.R.Flat() {
		if c.Rand.IntN(3) == 0 {
			ugly := strings.ReplaceAll(text, " = ", "  =   ")
			ugly = strings.ReplaceAll(ugly, "{\n", "{\n\n\n")
			os.WriteFile(filepath.Join(wsDir, p), []byte(ugly), 0o644)
		}
	}
	// a third copy in which exactly one file does not parse: the per-file jobs of `buf format` then include one
	// that fails while the others succeed (the failure, and only it, must be reported, every time)
	ws3 := filepath.Join(base, "ws3")
	{
		files := s.WorkspaceFiles(v.R, gen.WorkspaceOpts{Version: "v2", Lint: lintCfg, Breaking: breakingCfg})
		var protoPaths []string
		for p := range files {
			if strings.HasSuffix(p, ".proto") {
				protoPaths = append(protoPaths, p)
			}
		}
		sort.Strings(protoPaths)
		if len(protoPaths) > 0 {
			p := protoPaths[c.Rand.IntN(len(protoPaths))]
			files[p] += "\nmessage Broken { string = 1; }\n"
		}
		run.WriteTree(ws3, files)
	}
	// a fourth copy: the same files as ONE v1beta1 module whose build.roots are the module directories (buf keeps the
	// roots of such a module in a map, so the order in which its storage enumerates them differs from run to run);
	// every file badly formatted, so that `format -d` has one diff per file to order
	ws4 := filepath.Join(base, "ws4")
	{
		files := map[string]string{}
		var roots []string
		for _, m := range s.Modules {
			roots = append(roots, m.Dir)
		}
		sort.Strings(roots)
		for p, text := range v.R.Flat() {
			if strings.HasSuffix(p, ".proto") {
				files[p] = strings.ReplaceAll(text, " = ", "  =   ")
			}
		}
		files["buf.yaml"] = "version: v1beta1\nbuild:\n  roots:\n" + yamlList("    ", roots)
		run.WriteTree(ws4, files)
	}
	// a fifth copy: the self-contained module alone as a v1 module whose configuration names several DEPRECATED rule
	// ids of each kind (buf prints one warning per id to stderr; the ids are kept in maps)
	ws5 := filepath.Join(base, "ws5")
	{
		files := map[string]string{}
		for p, text := range v.R.Flat() {
			if strings.HasPrefix(p, "cyc/") {
				files[strings.TrimPrefix(p, "cyc/")] = text
			}
		}
		files["buf.yaml"] = "version: v1\nbreaking:\n  use:\n" + yamlList("    ", []string{"FILE", "FIELD_SAME_CTYPE", "FIELD_SAME_LABEL", "FILE_SAME_JAVA_STRING_CHECK_UTF8", "FILE_SAME_PHP_GENERIC_SERVICES", "MESSAGE_SAME_MESSAGE_SET_WIRE_FORMAT"}) +
			"  ignore_only:\n    FIELD_SAME_CTYPE:\n      - acme/cyc/a\n    FIELD_SAME_LABEL:\n      - acme/cyc/b\n" +
			"lint:\n  use:\n    - DEFAULT\n    - IMPORT_NO_WEAK\n"
		run.WriteTree(ws5, files)
	}
	env := run.BufEnv(filepath.Join(c.Tmp, "home"), nil)
	// some type names for --type
	var types []string
	for name, ti := range s.TypeIndex() {
		if ti.Msg != nil && ti.Parent == nil {
			types = append(types, name)
		}
	}
	sort.Strings(types)
	var pathCands []string
	for _, f := range v.Files {
		pathCands = append(pathCands, f.WSPath())
	}
	sort.Strings(pathCands)
	pick := func(xs []string, n int) []string {
		var out []string
		for i := 0; i < n && len(xs) > 0; i++ {
			out = append(out, xs[c.Rand.IntN(len(xs))])
		}
		return dedup(out)
	}
	selPaths := pick(pathCands, 3)
	selTypes := pick(types, 3)
	// related roots: a nested type together with the message that encloses it, a method together with its
	// service, an extension together with its extendee — the filter keeps its roots in maps
	var related []string
	{
		var nestedNames []string
		idx := s.TypeIndex()
		for name, ti := range idx {
			if ti.Parent != nil {
				nestedNames = append(nestedNames, name)
			}
		}
		sort.Strings(nestedNames)
		for _, n := range pick(nestedNames, 2) {
			related = append(related, n, n[:strings.LastIndex(n, ".")])
		}
		var mths []string
		for _, f := range s.AllFiles() {
			for _, sv := range f.Services {
				for _, m := range sv.Methods {
					mths = append(mths, f.Package+"."+sv.Name+"."+m.Name)
				}
			}
		}
		for _, n := range pick(mths, 2) {
			related = append(related, n, n[:strings.LastIndex(n, ".")])
		}
		related = dedup(related)
	}
	cmds := []c02Cmd{
		{"build binpb", []string{"build", "-o", "-#format=binpb"}, wsDir},
		{"build json", []string{"build", "-o", "-#format=json"}, wsDir},
		{"build txtpb", []string{"build", "-o", "-#format=txtpb"}, wsDir},
		{"build yaml", []string{"build", "-o", "-#format=yaml"}, wsDir},
		{"build --path", append([]string{"build", "-o", "-#format=binpb"}, flagEach("--path", selPaths)...), wsDir},
		{"build --type", append([]string{"build", "-o", "-#format=binpb"}, flagEach("--type", selTypes)...), wsDir},
		{"build --type related", append([]string{"build", "-o", "-#format=binpb"}, flagEach("--type", related)...), wsDir},
		{"lint json", []string{"lint", "--error-format=json"}, wsDir},
		{"lint text", []string{"lint"}, wsDir},
		{"lint junit", []string{"lint", "--error-format=junit"}, wsDir},
		{"lint github-actions", []string{"lint", "--error-format=github-actions"}, wsDir},
		{"breaking junit", []string{"breaking", "--against", wsDir, "--error-format=junit"}, ws2},
		{"breaking", []string{"breaking", "--against", wsDir, "--error-format=json"}, ws2},
		{"format -d", []string{"format", "-d"}, wsDir},
		{"format", []string{"format"}, wsDir},
		{"format one-broken-file", []string{"format", "-d"}, ws3},
		{"format -d v1beta1-roots", []string{"format", "-d"}, ws4},
		{"build v1beta1-roots", []string{"build", "-o", "-#format=binpb"}, ws4},
		{"ls-files v1beta1-roots", []string{"ls-files"}, ws4},
		{"breaking deprecated-ids", []string{"breaking", "--against", ws5}, ws5},
		{"lint deprecated-ids", []string{"lint"}, ws5},
		{"ls-files", []string{"ls-files"}, wsDir},
		{"ls-files --include-imports", []string{"ls-files", "--include-imports", "--format", "json"}, wsDir},
		{"dep graph", []string{"dep", "graph"}, wsDir},
		{"dep graph json", []string{"dep", "graph", "--format", "json"}, wsDir},
		{"config ls-lint-rules", []string{"config", "ls-lint-rules", "--configured-only", "--format", "json", "--module-path", s.Modules[0].Dir}, wsDir},
		{"config ls-breaking-rules", []string{"config", "ls-breaking-rules", "--configured-only", "--format", "json", "--module-path", s.Modules[0].Dir}, wsDir},
	}
	reps := c.Pick(4, 10)
	if race {
		reps = c.Pick(3, 5)
		// the race build is 5–10× slower: the commands that run jobs in parallel are enough there
		var sel []c02Cmd
		for _, cmd := range cmds {
			switch cmd.name {
			case "build binpb", "build --type", "build --type related", "lint json", "lint junit", "breaking", "format", "format one-broken-file", "format -d v1beta1-roots", "ls-files --include-imports", "dep graph json":
				sel = append(sel, cmd)
			}
		}
		cmds = sel
	}
	oldProcs := runtime.GOMAXPROCS(0)
	// In the race build GOMAXPROCS is left alone: shrinking it makes the Go runtime destroy Ps, and the
	// ThreadSanitizer runtime of go1.23 crashes there (SIGSEGV in __tsan::ThreadContext::OnFinished under
	// runtime.GOMAXPROCS → startTheWorld; reproduced with case 14 of the thorough tier, nothing of buf on the
	// stack). The race part perturbs schedules through the parallelism and the seeded yields only.
	setProcs := func(n int) {
		if !race {
			runtime.GOMAXPROCS(n)
		}
	}
	oldPar := thread.Parallelism()
	defer func() {
		setProcs(oldProcs)
		thread.SetParallelism(oldPar)
		verifhook.Reset()
	}()
	procsChoices := []int{1, 2, 4, 16}
	parChoices := []int{1, 2, 3, 16}
	for ci, cmd := range cmds {
		var baseline run.Out
		outputs := map[string]bool{}
		orders := map[string]bool{}
		for r := 0; r < reps; r++ {
			args := cmd.args
			label := "baseline"
			verifhook.Reset()
			if r > 0 {
				p, q := procsChoices[(r+ci)%4], parChoices[(r/2+ci)%4]
				setProcs(p)
				thread.SetParallelism(q)
				verifhook.SetYieldSeed(c.Seed*7919 + uint64(idx*131+ci*17+r))
				label = fmt.Sprintf("GOMAXPROCS=%d parallelism=%d yields=on", p, q)
				// permute the order in which repeatable flags are given
				if r%2 == 0 {
					args = permuteFlagPairs(c, args)
					label += " flag-order-permuted"
				}
			} else {
				setProcs(oldProcs)
				thread.SetParallelism(oldPar)
			}
			verifhook.EnableTrace(true)
			// no wall-clock deadline inside a verdict: buf's default --timeout of 2 minutes can expire on a loaded
			// machine under GOMAXPROCS=1 and would show up as a differing exit status
			o := run.Buf(cmd.dir, env, nil, append(append([]string{}, args...), "--timeout=0")...)
			evs := verifhook.Events()
			c.Eval(1)
			var sb strings.Builder
			for _, e := range evs {
				if e.Name == "thread.done" {
					fmt.Fprintf(&sb, "%d,", e.Value)
				}
			}
			if sb.Len() > 0 {
				orders[c02Hash([]byte(sb.String()))] = true
			}
			o.Stdout, o.Stderr = c02Mask(cmd.name, o.Stdout), c02Mask(cmd.name, o.Stderr)
			outputs[c02Hash(o.Stdout)+c02Hash(o.Stderr)] = true
			if r == 0 {
				baseline = o
				if o.Code != 0 && o.Code != 100 && !(cmd.name == "format one-broken-file" && o.Code == 1) {
					c.Violation("command-failed", fmt.Sprintf("case=%d cmd=%s", idx, cmd.name), fmt.Sprintf("exit %d: %s", o.Code, clip(o.Stderr)), nil)
					break
				}
				continue
			}
			if o.Code != baseline.Code || !bytes.Equal(o.Stdout, baseline.Stdout) || !bytes.Equal(o.Stderr, baseline.Stderr) {
				c.Violation("output-differs", fmt.Sprintf("case=%d cmd=%s", idx, cmd.name),
					fmt.Sprintf("`buf %s` under [%s] differs from the baseline run: exit %d vs %d; first difference: %s; stderr of this run: %s", strings.Join(args, " "), label, o.Code, baseline.Code, firstDiff(baseline.Stdout, o.Stdout, baseline.Stderr, o.Stderr), clip(o.Stderr)), nil)
			}
			c.Count("comparisons", 1)
		}
		c.Count("commands", 1)
		if len(orders) >= 2 {
			c.Count("commands_with_distinct_job_orders", 1)
			c.Nontrivial(fmt.Sprintf("race=%v %s cmd=%s", race, s.Describe(), cmd.name))
		}
		c.Distinct("job_completion_orders", fmt.Sprintf("%s#%d", cmd.name, len(orders)))
	}
	setProcs(oldProcs)
	thread.SetParallelism(oldPar)
	verifhook.Reset()

	// configuration listing order: modules and rule ids permuted => same outputs
	{
		perm := s.Clone()
		c.Rand.Shuffle(len(perm.Modules), func(i, j int) { perm.Modules[i], perm.Modules[j] = perm.Modules[j], perm.Modules[i] })
		pv := newWSView(perm)
		pDir := filepath.Join(base, "ws") // same directory name so that external paths are identical
		lint2 := "use:\n  - PACKAGE_NO_IMPORT_CYCLE\n  - UNARY_RPC\n  - COMMENTS\n  - STANDARD\n"
		files := perm.WorkspaceFiles(pv.R, gen.WorkspaceOpts{Version: "v2", Lint: lint2, Breaking: breakingCfg})
		before := map[string]run.Out{}
		names := []string{"build binpb", "lint json", "ls-files", "dep graph", "config ls-lint-rules"}
		for _, cmd := range cmds {
			for _, n := range names {
				if cmd.name == n {
					before[n] = run.Buf(cmd.dir, env, nil, cmd.args...)
				}
			}
		}
		os.WriteFile(filepath.Join(pDir, "buf.yaml"), []byte(files["buf.yaml"]), 0o644)
		for _, cmd := range cmds {
			if b, ok := before[cmd.name]; ok {
				o := run.Buf(cmd.dir, env, nil, cmd.args...)
				c.Eval(2)
				if o.Code != b.Code || !bytes.Equal(o.Stdout, b.Stdout) || !bytes.Equal(o.Stderr, b.Stderr) {
					c.Violation("listing-order-dependence", fmt.Sprintf("case=%d cmd=%s", idx, cmd.name),
						fmt.Sprintf("`buf %s` changes when modules and rule ids are listed in another order in buf.yaml: %s", strings.Join(cmd.args, " "), firstDiff(b.Stdout, o.Stdout, b.Stderr, o.Stderr)), nil)
				}
				c.Count("listing_order_comparisons", 1)
			}
		}
	}

	// library level: storage walk order
	c02Library(c, idx, wsDir)
	if idx == 0 {
		c.Sample(map[string]any{"workspace": s.Describe(), "commands": func() []string {
			var n []string
			for _, cmd := range cmds {
				n = append(n, cmd.name)
			}
			return n
		}(), "variations": "GOMAXPROCS∈{1,2,4,16} × thread.SetParallelism∈{1,2,3,16} × seeded yields at thread.dispatch/start × permuted flag order; buf.yaml module/rule order; shuffled Walk order (library)"})
	}
}

func flagEach(flag string, vals []string) []string {
	var out []string
	for _, v := range vals {
		out = append(out, flag, v)
	}
	return out
}

// permuteFlagPairs permutes the order of repeated "--flag value" pairs.
func permuteFlagPairs(c *core.C, args []string) []string {
	var head []string
	var pairs [][2]string
	for i := 0; i < len(args); i++ {
		if (args[i] == "--path" || args[i] == "--type" || args[i] == "--exclude-path") && i+1 < len(args) {
			pairs = append(pairs, [2]string{args[i], args[i+1]})
			i++
		} else {
			head = append(head, args[i])
		}
	}
	c.Rand.Shuffle(len(pairs), func(i, j int) { pairs[i], pairs[j] = pairs[j], pairs[i] })
	out := append([]string{}, head...)
	for _, p := range pairs {
		out = append(out, p[0], p[1])
	}
	return out
}

func firstDiff(a1, b1, a2, b2 []byte) string {
	a, b := a1, b1
	which := "stdout"
	if bytes.Equal(a1, b1) {
		a, b, which = a2, b2, "stderr"
	}
	la, lb := strings.Split(string(a), "\n"), strings.Split(string(b), "\n")
	for i := 0; i < len(la) || i < len(lb); i++ {
		var x, y string
		if i < len(la) {
			x = la[i]
		}
		if i < len(lb) {
			y = lb[i]
		}
		if x != y {
			if len(x) > 200 {
				x = x[:200]
			}
			if len(y) > 200 {
				y = y[:200]
			}
			return fmt.Sprintf("%s line %d: %q vs %q", which, i+1, x, y)
		}
	}
	return which + " differs in length"
}

// c02Library: the same workspace read through buckets that enumerate in different orders must give
// the same serialized image and the same digests.
func c02Library(c *core.C, idx int, wsDir string) {
	ctx := context.Background()
	var baseImage, baseDiff []byte
	var baseDigests string
	for r := 0; r < c.Pick(4, 10); r++ {
		bucket, err := storageos.NewProvider(storageos.ProviderWithSymlinks()).NewReadWriteBucket(wsDir, storageos.ReadWriteBucketWithSymlinksIfSupported())
		if err != nil {
			return
		}
		var rb storage.ReadBucket = bucket
		if r > 0 {
			rb = shuffleBucket{ReadBucket: bucket, seed: c.Seed*31 + uint64(idx*1000+r)}
			thread.SetParallelism([]int{1, 2, 3, 16}[r%4])
		}
		bt, err := buftarget.NewBucketTargeting(ctx, c09Logger, rb, ".", nil, nil, buftarget.TerminateAtControllingWorkspace)
		if err != nil {
			c.Violation("library-failed", fmt.Sprintf("case=%d", idx), "bucket targeting: "+err.Error(), nil)
			return
		}
		w, err := bufworkspace.NewWorkspaceProvider(c09Logger, bufmodule.NopGraphProvider, bufmodule.NopModuleDataProvider, bufmodule.NopCommitProvider, bufplugin.NopPluginKeyProvider).GetWorkspaceForBucket(ctx, rb, bt)
		if err != nil {
			c.Violation("library-failed", fmt.Sprintf("case=%d", idx), "workspace: "+err.Error(), nil)
			return
		}
		image, err := bufimage.BuildImage(ctx, c09Logger, bufmodule.ModuleSetToModuleReadBucketWithOnlyProtoFiles(w))
		if err != nil {
			c.Violation("library-failed", fmt.Sprintf("case=%d", idx), "build: "+err.Error(), nil)
			return
		}
		pi, err := bufimage.ImageToProtoImage(image)
		if err != nil {
			return
		}
		data, err := protoencoding.NewWireMarshaler().Marshal(pi)
		if err != nil {
			return
		}
		var ds []string
		for _, m := range w.Modules() {
			d5, err1 := m.Digest(bufmodule.DigestTypeB5)
			d4, err2 := m.Digest(bufmodule.DigestTypeB4)
			if err1 != nil || err2 != nil {
				c.Violation("library-failed", fmt.Sprintf("case=%d", idx), fmt.Sprint("digest: ", err1, err2), nil)
				return
			}
			ds = append(ds, m.OpaqueID()+"="+d5.String()+"/"+d4.String())
		}
		// the textual diff of two buckets (what `format -d` prints) for every enumeration order of both
		two := shuffleBucket{ReadBucket: c02Edited(ctx, bucket), seed: c.Seed*37 + uint64(idx*1000+r)}
		diff, err := storage.DiffBytes(ctx, rb, two, storage.DiffWithSuppressTimestamps())
		if err != nil {
			c.Violation("library-failed", fmt.Sprintf("case=%d", idx), "diff: "+err.Error(), nil)
			return
		}
		c.Eval(1)
		if r == 0 {
			baseImage, baseDigests, baseDiff = data, strings.Join(ds, "\n"), diff
			if len(diff) == 0 {
				c.Violation("harness-empty-diff", fmt.Sprintf("case=%d", idx), "the edited bucket does not differ", nil)
			}
			continue
		}
		if !bytes.Equal(diff, baseDiff) {
			c.Violation("walk-order-dependence", fmt.Sprintf("case=%d what=diff", idx), "storage.DiffBytes output differs when the storage enumerates files in another order: "+firstDiff(baseDiff, diff, nil, nil), nil)
		}
		c.Count("walk_order_diff_comparisons", 1)
		if !bytes.Equal(data, baseImage) {
			c.Violation("walk-order-dependence", fmt.Sprintf("case=%d what=image", idx), "serialized image differs when the storage enumerates files in another order", nil)
		}
		if strings.Join(ds, "\n") != baseDigests {
			c.Violation("walk-order-dependence", fmt.Sprintf("case=%d what=digest", idx), "module digests differ when the storage enumerates files in another order", nil)
		}
		c.Count("walk_order_comparisons", 1)
	}
	thread.SetParallelism(runtime.GOMAXPROCS(0))
}

// c02Edited is an in-memory copy of the .proto files of b, each with one more line.
func c02Edited(ctx context.Context, b storage.ReadBucket) storage.ReadBucket {
	m := map[string][]byte{}
	_ = b.Walk(ctx, "", func(oi storage.ObjectInfo) error {
		if strings.HasSuffix(oi.Path(), ".proto") {
			data, err := storage.ReadPath(ctx, b, oi.Path())
			if err == nil {
				m[oi.Path()] = append(data, []byte("// edited "+oi.Path()+"\n")...)
			}
		}
		return nil
	})
	rb, _ := storagemem.NewReadBucket(m)
	return rb
}

func init() {
	core.Register(&core.Check{
		ID:    "C02",
		Level: "exploration",
		Rule: "per PRNG-generated workspace (3–5 modules incl. one whose packages form two import cycles sharing the first hop, lint plants, unformatted files, an edited copy for breaking): 27 commands " +
			"(build binpb/json/txtpb/yaml, build --path, build --type (random and related: nested+enclosing, method+service), lint json/text/junit/github-actions, breaking junit, breaking, format, format -d, format of a tree with one unparsable file, format -d / build / ls-files of the same files as one v1beta1 module with several build.roots, breaking / lint of a v1 module whose configuration names several deprecated rule ids (warnings on stderr), ls-files ±imports, dep graph dot/json, config ls-lint-rules/ls-breaking-rules) each executed 4 (quick) / 10 (thorough) times under GOMAXPROCS∈{1,2,4,16} × parallelism∈{1,2,3,16} × seeded yields at job dispatch × permuted flag order, " +
			"plus permuted modules/rule ids in buf.yaml and shuffled storage walk order at library level (image bytes, b4/b5 digests, storage.DiffBytes of two shuffled buckets); repeated in the -race build. A (workspace, command) pair is counted non-trivial only if ≥2 distinct job-completion orders were actually observed through the thread hook trace",
		Assumptions: []string{
			"only the mtime stamps in the ---/+++ headers that diff(1) prints for `format -d` are masked; they are a function of wall-clock time, which the property does not quantify over",
			"schedules inside protocompile's own worker pool are perturbed only through GOMAXPROCS and parallelism; equality across different builds of buf is not observable with one binary",
			"race reports with a frame in github.com/bufbuild/buf/ are violations; reports entirely inside dependencies are listed, not gated",
		},
		Cases: func(tier string) int {
			if tier == "thorough" {
				return 120
			}
			return 20
		},
		Run: c02Run,
		RaceCases: func(tier string) int {
			if tier == "thorough" {
				return 60
			}
			return 5
		},
		RunRace:  func(c *core.C, idx int) { c02Do(c, idx, true) },
		Required: []string{"comparisons", "commands_with_distinct_job_orders", "listing_order_comparisons", "walk_order_comparisons", "walk_order_diff_comparisons"},
	})
}
