package checks

import (
	"fmt"
	"os"
	"path/filepath"
	"strconv"

	"github.com/bufbuild/verifharness/core"
	"github.com/bufbuild/verifharness/gen"
	"github.com/bufbuild/verifharness/run"
)

// gensmoke: development aid — generated workspaces must build and be lint-clean.
func init() {
	core.RegisterHelper("gensmoke", func(args []string) int {
		n, _ := strconv.Atoi(args[0])
		version := "v2"
		if len(args) > 1 {
			version = args[1]
		}
		tmp, _ := os.MkdirTemp("", "gensmoke-")
		defer os.RemoveAll(tmp)
		bad := 0
		for i := 0; i < n; i++ {
			r := core.RandFor(1, "gensmoke", i, "x")
			cfg := gen.DefaultConfig()
			cfg.Modules = 1 + r.IntN(3)
			s := gen.Generate(r, cfg)
			rd := s.Render()
			ws := filepath.Join(tmp, fmt.Sprintf("ws%d", i))
			files := s.WorkspaceFiles(rd, gen.WorkspaceOpts{Version: version, Lint: "use:\n  - STANDARD\n  - COMMENTS\n  - UNARY_RPC\n"})
			run.WriteTree(ws, files)
			env := run.BufEnv(filepath.Join(tmp, "home"), nil)
			o := run.Buf(ws, env, nil, "build")
			if o.Code != 0 {
				bad++
				fmt.Printf("case %d: build failed: %s\n", i, o.Stderr)
				if bad > 3 {
					return 1
				}
				continue
			}
			o = run.Buf(ws, env, nil, "lint")
			if o.Code != 0 {
				bad++
				fmt.Printf("case %d: lint: %s%s\n", i, o.Stdout, o.Stderr)
				if bad > 3 {
					return 1
				}
			}
			os.RemoveAll(ws)
		}
		fmt.Printf("gensmoke: %d cases, %d bad\n", n, bad)
		if bad > 0 {
			return 1
		}
		return 0
	})
}
