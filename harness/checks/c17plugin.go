package checks

import (
	"fmt"
	"os"
	"path/filepath"
	"sort"
	"strings"

	"github.com/bufbuild/verifharness/core"
	"github.com/bufbuild/verifharness/recplugin"
	"google.golang.org/protobuf/proto"
	"google.golang.org/protobuf/types/pluginpb"
)

// The recording / scripted plugin lives in package recplugin; it runs either as the small binary
// .bin/protoc-gen-verifrec (built when the check lists "plugins" in Needs) or, if that binary is
// absent, as `verif helper c17plugin`.
type c17Script = recplugin.Script
type c17Extra = recplugin.Extra

func init() {
	core.RegisterHelper("c17plugin", func([]string) int { return recplugin.Main() })
}

// c17PluginCommand returns the argv of the plugin.
func c17PluginCommand() []string {
	bin := filepath.Join(core.BinDir(), "protoc-gen-verifrec")
	if st, err := os.Stat(bin); err == nil && !st.IsDir() {
		return []string{bin}
	}
	return []string{core.SelfExe(), "helper", "c17plugin"}
}

// c17Exchange is one recorded plugin invocation.
type c17Exchange struct {
	ID   string
	Req  *pluginpb.CodeGeneratorRequest
	Resp *pluginpb.CodeGeneratorResponse
}

// c17ReadExchanges loads every recorded invocation, grouped by plugin id; invocations of one plugin
// are ordered by their smallest file to generate (a stable order that does not depend on timing).
func c17ReadExchanges(dir string) (map[string][]c17Exchange, error) {
	out := map[string][]c17Exchange{}
	entries, err := os.ReadDir(dir)
	if err != nil {
		return nil, err
	}
	for _, e := range entries {
		name := e.Name()
		if !strings.HasPrefix(name, "req-") || strings.HasSuffix(name, ".tmp") {
			continue
		}
		data, err := os.ReadFile(filepath.Join(dir, name))
		if err != nil {
			return nil, err
		}
		x := c17Exchange{Req: &pluginpb.CodeGeneratorRequest{}}
		if err := proto.Unmarshal(data, x.Req); err != nil {
			return nil, fmt.Errorf("%s: %w", name, err)
		}
		x.ID = recplugin.ParamID(x.Req.GetParameter())
		if rd, err := os.ReadFile(filepath.Join(dir, "resp-"+strings.TrimPrefix(name, "req-"))); err == nil {
			x.Resp = &pluginpb.CodeGeneratorResponse{}
			if err := proto.Unmarshal(rd, x.Resp); err != nil {
				return nil, fmt.Errorf("%s: %w", name, err)
			}
		}
		out[x.ID] = append(out[x.ID], x)
	}
	key := func(x c17Exchange) string {
		s := append([]string{}, x.Req.GetFileToGenerate()...)
		sort.Strings(s)
		return strings.Join(s, "\x00")
	}
	for _, xs := range out {
		sort.SliceStable(xs, func(i, j int) bool { return key(xs[i]) < key(xs[j]) })
	}
	return out, nil
}
